"""C20 — hash gadgets equal a plain reference and use the active backend's parameters."""
import ast, concurrent.futures as cf, hashlib, json, os, shutil, struct, subprocess, tempfile
from .. import common
from ..framework import Exploration, Violation
from . import c19

ASSUMPTIONS = ["the three fields with registered Poseidon parameters are driven through the real zkinterface backend modules (generic/BN254, "
               "bellman/BLS12-381, bulletproofs/Curve25519), loaded with the `flatbuffers` stand-in harness/fbshim because the flatbuffers "
               "package is absent; the hash gadgets never reach the serialiser, so the stand-in only lets the modules import",
               "selection paths: one fresh interpreter per configuration (PYSNARK_BACKEND value, pre-imported backend modules, modules made "
               "unloadable by an import-blocking finder, get_ipython stub) that imports pysnark.poseidon_hash and reports the parameter "
               "object in use together with runtime.backend_name, runtime.backend.__name__ and get_modulus(); the libsnark modules are never "
               "loadable here",
               "SHA-512 (hashlib) is a trusted input of the subset-sum hash: the coefficient table is taken from the code's own SHA512_prng "
               "and re-derived with hashlib/struct in the harness; the Lean model receives the table as an argument",
               "the published test vectors are the two in /repo/test/test_poseidon_hash.py for zkinterface and zkifbellman (also pinned in "
               "Props/C20.lean); the zkifbulletproofs 'expected' list there is a copy of the zkifbellman one (second entry not below the "
               "Curve25519 order) and is NOT asserted (C20_cex_bulletproofs_vector)",
               "the real padding code is observed by running poseidon_hash with its permutation replaced by a recorder that returns the zero "
               "state (the blocks handed to the permutation are then the padded message)",
               "pysnark.nobackend records nothing: under that configuration values and the runtime's own counter runtime.num_constraints are "
               "observed (no constraint is evaluated there); its modulus 10000 is not prime, the plain reference is the same ring arithmetic",
               "typed inputs of the completeness scenario are built with PrivVal/PubVal/PrivValBool/PubValBool/PrivValFxp/PubValFxp at the "
               "default resolution; they are not model-compared (the model's PH line takes integer secrets): direct oracle only"]
PARTIAL = ["C20_params_partial excludes configurations with a pre-imported derived backend module (finding C20-derived-preimport-params, a "
           "consequence of C19-derived-preimport): there the set of the REPORTED name (zkinterface, BN254) is used over the derived field",
           "value theorems hold whenever the model returns (all parameter sets); totality and the constraint count need well-shaped "
           "parameters (ParamsWF, proved for the four table entries) and, for exponent 0 / padding, LinComb.ONE of value 1 (outside guards)"]
TRUSTED_EXTRA = ["harness/worker_hash.py and the plain-integer Poseidon / subset-sum reference in harness/props/c20.py (written from the algorithm "
                 "description; constants read from pysnark/poseidon_constants.py by ast, not by importing pysnark)",
                 "hashlib SHA-512; harness/fbshim (import only)"]

FIELDS = {"zkinterface": "zkif_p", "zkifbellman": "bellman_p", "zkifbulletproofs": "bulletproofs_p"}
# configurations driven through a long-lived worker besides the three recording fields:
#   nobackend  - registered parameter set (R_F, R_P, a, rows of its own), modulus of pysnark/nobackend.py, records NOTHING: values
#                and the runtime's own constraint counter are compared with the model and the plain reference
#   snarkjs    - no Poseidon parameters (NotImplementedError is C20's selection clause); the subset-sum hash works on every backend
EXTRA_CONFIGS = {"nobackend": "nobackend_p", "snarkjs": "snarkjs_p"}
GGH_TABLE = (4096, 65536)           # quick / thorough: indices of SHA512_prng compared with the independent derivation, per field
NOT_ASSERTED_VECTORS = {"zkifbulletproofs"}
# NOT a published vector: the value of the plain permutation of [0,1,2,3,4] with the registered zkifbulletproofs set, proved in
# Props/C20.lean (C20_cex_bulletproofs_vector).  Used ONLY by the extended search, i.e. after that theorem stopped checking, to
# turn the failed obligation into a concrete failing input on the real code.
PINNED_BY_THEOREM = {"zkifbulletproofs": [
    1402989944907728534286136183116841609678834248606192775782363953369628511337,
    3363613745003843819467818979644668531958561956607118508302119190271561265140,
    2825491006183284213335590334684283088158733469171613014070341807546653171085,
    2925411636667260559086107353415442513071426715756558613079401269742747692964,
    5208642969692129922784740286135370386753404317849849192096120667241358387920]}


# ------------------------------------------------------------------ independent plain-integer references
def ref_permute(P, p, state):
    """Poseidon permutation over GF(p): R_F/2 full rounds, R_P partial rounds, R_F/2 full rounds; a round adds the round
    constants, applies x -> x^a (to every element / to element 0 only), multiplies by the MDS matrix."""
    t, a, rf, rp = P["t"], P["a"], P["R_F"], P["R_P"]
    rc, M = P["round_constants"], P["matrix"]
    st = [x % p for x in state]
    for r in range(rf + rp):
        full = r < rf // 2 or r >= rf // 2 + rp
        st = [(x + c) % p for x, c in zip(st, rc[r])]
        st = [pow(x, a, p) for x in st] if full else [pow(st[0], a, p)] + st[1:]
        st = [sum(M[i][j] * st[j] for j in range(len(st))) % p for i in range(len(M))]
    return st


def ref_pad(rate, msg):
    """append 1, then zeros up to the next multiple of the rate (at least one element is appended)"""
    out = list(msg) + [1]
    while len(out) % rate:
        out.append(0)
    return out


def ref_hash(P, p, msg):
    """sponge, capacity element at index 0, rate t-1, output = the rate part"""
    t = P["t"]; rate = t - 1
    padded = ref_pad(rate, [x % p for x in msg])
    st = [0] * t
    for i in range(0, len(padded), rate):
        st = [st[0]] + [(s + b) % p for s, b in zip(st[1:], padded[i:i + rate])]
        st = ref_permute(P, p, st)
    return st[1:]


def ref_coef(p, i):
    """i-th nothing-up-my-sleeve coefficient: SHA-512 of (i, counter) as two native 64-bit integers, digest read little-endian,
    truncated to bitlength(p) bits, first one below p"""
    mask = 1 << p.bit_length()
    it = 0
    while True:
        v = int.from_bytes(hashlib.sha512(struct.pack("=QQ", i, it)).digest(), "little") % mask
        if v < p:
            return v
        it += 1


def ref_coef_draws(p, i):
    """(coefficient, number of candidates drawn)"""
    mask = (1 << p.bit_length()) - 1
    it = 0
    while True:
        v = int.from_bytes(hashlib.sha512(i.to_bytes(8, "little") + it.to_bytes(8, "little")).digest(), "little") & mask
        it += 1
        if v < p:
            return v, it


def fingerprint(P):
    return [P["t"], P["R_F"], P["R_P"], P["a"]] + list(P["round_constants"][0] if P["round_constants"] else []) + \
        list(P["matrix"][0] if P["matrix"] else [])


def published_vectors():
    """{backend: (inputs, outputs)} from test/test_poseidon_hash.py, by ast"""
    path = os.path.join(common.REPO, "test", "test_poseidon_hash.py")
    out = {}
    try:
        tree = ast.parse(open(path).read())
    except (OSError, SyntaxError):
        return out
    for n in ast.walk(tree):
        if isinstance(n, ast.FunctionDef) and n.name.startswith("test_") and n.name.endswith("_permutation"):
            be = n.name[5:-12]
            res = None; inp = None
            for m in ast.walk(n):
                if isinstance(m, ast.Assign) and len(m.targets) == 1 and getattr(m.targets[0], "id", None) == "result":
                    try:
                        res = ast.literal_eval(m.value)
                    except Exception:
                        pass
                if isinstance(m, ast.Call) and getattr(m.func, "id", None) == "permute" and m.args and isinstance(m.args[0], ast.List):
                    try:
                        inp = [ast.literal_eval(e.args[0]) for e in m.args[0].elts]
                    except Exception:
                        pass
            if res and inp:
                out[be] = (inp, res)
    return out


# ------------------------------------------------------------------ generators
def value_of(rnd, cls, p):
    return {"zero": 0, "one": 1, "small": rnd.randrange(2, 1000), "pm1": p - 1, "p": p, "gep": p + rnd.randrange(1, 1 << 64),
            "big": rnd.randrange(p, 4 * p), "neg": -rnd.randrange(1, 1000), "negbig": -rnd.randrange(p, 2 * p),
            "r254": rnd.getrandbits(254), "rfield": rnd.randrange(p)}[cls]


CLASSES = ["zero", "one", "small", "pm1", "p", "gep", "big", "neg", "negbig", "r254", "rfield"]


def vector(rnd, n, p):
    style = rnd.choice(["mixed", "mixed", "mixed", "uniform", "edge"])
    if style == "uniform":
        cl = [rnd.choice(CLASSES)] * n
    elif style == "edge":
        cl = [rnd.choice(["zero", "one", "pm1", "p"]) for _ in range(n)]
    else:
        cl = [rnd.choice(CLASSES) for _ in range(n)]
    return [value_of(rnd, c, p) for c in cl], cl


def gen_poseidon(rnd, be, p, t, n_perm, n_hash, vec, P_rc0):
    """(line, meta) list: permutations on t inputs, sponges on 0..3 blocks, each length with at least two value vectors"""
    rate = t - 1
    cases = []
    k = 0
    if vec:
        cases.append((f"PH|{be}-v|{be}|{p}|permute|{','.join(map(str, vec[0]))}", {"mode": "permute", "len": len(vec[0]), "classes": ["vector"]}))
    for _ in range(n_perm):
        vs, cl = vector(rnd, t, p)
        cases.append((f"PH|{be}-p{k}|{be}|{p}|permute|{','.join(map(str, vs))}", {"mode": "permute", "len": t, "classes": cl})); k += 1
    # S-box input exactly 0 (as a Python integer: -c) or a non-zero multiple of p (p - c) in the first round: where a
    # value-dependent shortcut such as "skip the multiplications when the operand is 0" would change the constraint count
    rc0 = P_rc0
    for variant in ("neg", "pminus", "some"):
        vs = [(-c if variant == "neg" else p - c if variant == "pminus" else (-c if i % 2 else rnd.randrange(p))) for i, c in enumerate(rc0[:t])]
        cases.append((f"PH|{be}-z{variant}|{be}|{p}|permute|{','.join(map(str, vs))}", {"mode": "permute", "len": t, "classes": ["sbox0-" + variant]}))
    # wrong widths (assertion/index arms of matmul), correspondence only
    for n in (0, t - 1, t + 1):
        vs, cl = vector(rnd, n, p)
        cases.append((f"PH|{be}-w{n}|{be}|{p}|permute|{','.join(map(str, vs))}", {"mode": "permute", "len": n, "classes": cl}))
    lens = [0, 1, rate - 1, rate, rate + 1, 2 * rate, 2 * rate + 1, 3 * rate]
    while len(lens) * 2 < n_hash:
        lens.append(rnd.randrange(0, 3 * rate + 1))
    # the same boundary for the sponge: the first block lands on state[1:], whose first-round constants are rc0[1:]
    for n in (rate, rate + 2):
        vs = [-c for c in rc0[1:t]] + [rnd.randrange(p) for _ in range(n - rate)]
        cases.append((f"PH|{be}-hz{n}|{be}|{p}|hash|{','.join(map(str, vs))}", {"mode": "hash", "len": n, "classes": ["sbox0-neg"]}))
    for n in lens:
        for rep in range(2):
            vs, cl = vector(rnd, n, p)
            cases.append((f"PH|{be}-h{k}|{be}|{p}|hash|{','.join(map(str, vs))}", {"mode": "hash", "len": n, "classes": cl})); k += 1
    return cases


def gen_padding(rnd, rate, n):
    """messages whose padded forms collide under a wrong rule: m, m+[1], m+[1,0…], m+[0…], lengths over 0..3 blocks"""
    msgs = []
    for base_len in list(range(0, 2 * rate + 1)) + [3 * rate - 1, 3 * rate]:
        base = [rnd.choice([0, 1, 2, 7]) for _ in range(base_len)]
        fam = [base, base + [1], base + [0], base + [1, 0], base + [0, 0], base + [1] + [0] * (rate - 1), base + [0] * rate,
               base + [1] + [0] * rate]
        msgs.extend(m for m in fam if len(m) <= 3 * rate + 1)
    while len(msgs) < n:
        msgs.append([rnd.choice([0, 0, 1, 1, 5]) for _ in range(rnd.randrange(0, 3 * rate + 1))])
    seen = set(); out = []
    for m in msgs:
        if tuple(m) not in seen:
            seen.add(tuple(m)); out.append(m)
    return out


def gen_ggh(rnd, p, n):
    cases = []
    for k in range(n):
        ln = rnd.choice([0, 1, 2, 3, 8, 31, 64, rnd.randrange(1, 130), 254 if k % 7 == 0 else 17])
        style = rnd.choice(["bits", "bits", "bits", "wide", "mixed", "plain"])
        toks = []
        for i in range(ln):
            if style == "bits":
                toks.append(f"s{rnd.randrange(2)}")
            elif style == "wide":
                toks.append(f"s{value_of(rnd, rnd.choice(CLASSES), p)}")
            elif style == "mixed":
                toks.append(f"s{rnd.randrange(2)}" if i == 0 or rnd.random() < 0.6 else f"i{rnd.randrange(2)}")
            else:
                toks.append(f"i{rnd.randrange(2)}")
        if style == "mixed" and rnd.random() < 0.3 and toks:
            toks[0] = "i1"          # leading public bit before the first secret one (the `int.value` arm)
        cases.append((toks, style))
    return cases


def gen_ggh_long(rnd, p, draws, n_long):
    """inputs longer than a field element has bits (282..1100 bits; the coefficient of index i is drawn by rejection sampling, so a
    coefficient that needed many candidates is rare and sits at a field-dependent index): random / all-ones vectors on the plain
    and on the traced path, and unit vectors (plus a random lower part) at the indices with the most rejected candidates"""
    cases = []
    for k in range(n_long):
        ln = rnd.choice([282, 283, 300, 515, 600, 601, rnd.randrange(282, 1100), 1024])
        style = rnd.choice(["long-bits", "long-plain", "long-ones", "long-mixed"])
        if style == "long-bits":
            toks = [f"s{rnd.randrange(2)}" for _ in range(ln)]
        elif style == "long-plain":
            toks = [f"i{rnd.randrange(2)}" for _ in range(ln)]
        elif style == "long-ones":
            toks = [rnd.choice("si") + "1"] * ln
        else:
            toks = [(f"s{rnd.randrange(2)}" if i == 0 or rnd.random() < 0.5 else f"i{rnd.randrange(2)}") for i in range(ln)]
        cases.append((toks, style))
    hard_traced = sorted(range(min(1100, len(draws))), key=lambda i: (-draws[i], i))[:3]
    hard_plain = sorted(range(len(draws)), key=lambda i: (-draws[i], i))[:3]
    for i in hard_traced:
        cases.append(([f"s0"] * i + ["s1"], "unit-traced"))
        cases.append(([f"s{rnd.randrange(2)}" for _ in range(i)] + ["s1"], "hard-traced"))
    for i in sorted(set(hard_plain + hard_traced)):
        cases.append((["i0"] * i + ["i1"], "unit-plain"))
    return cases


# ------------------------------------------------------------------ completeness of the hash gadgets on every recording field
TYPED = "subcxy"


def typed_token(rnd, p, res):
    """(token, integer the gadget sees): integer secrets / publics across the field, booleans, fixed-point values (scaled by 2^res)"""
    k = rnd.choice("sssuubcxy")
    if k in "su":
        v = value_of(rnd, rnd.choice(CLASSES), p)
        return f"{k}{v}", v
    if k in "bc":
        v = rnd.randrange(2)
        return f"{k}{v}", v
    e = rnd.choice([0, 1, 2, res])
    m = rnd.randrange(-4000, 4001)
    return f"{k}{m}:{e}", (abs(m) << (res - e)) * (1 if m >= 0 else -1)       # add_scaling truncates toward zero (exact here: e <= res)


def gen_completeness(rnd, be, p, P, n, res=8):
    """(line, meta) list: permute / poseidon_hash / ggh_hash traced on THIS backend's field with inputs of every secret type,
    outside and inside a taken guard; judged by `judge_completeness`"""
    cases = []
    t = P["t"]; rate = t - 1
    for k in range(n):
        gadget = ["permute", "hash", "hash", "ggh"][k % 4] if k >= 4 else ["permute", "hash", "hash", "ggh"][k]
        guard = "1" if (k // 4) % 3 == 1 or rnd.random() < 0.15 else "-"
        if gadget == "ggh":
            ln = rnd.choice([1, 8, 64, 254, 300])
            toks = [f"s{rnd.randrange(2)}" for _ in range(ln)]; ints = [int(x[1:]) for x in toks]
        else:
            ln = t if gadget == "permute" else rnd.choice([0, 1, 3, rate, rate + 1, 2 * rate - 1])
            pairs = [typed_token(rnd, p, res) for _ in range(ln)]
            toks = [a for a, _ in pairs]; ints = [b_ for _, b_ in pairs]
        cases.append((f"PC|{be}-c{k}|{p}|{gadget}|{guard}|{','.join(toks)}",
                      {"gadget": gadget, "guard": guard == "1", "ints": ints, "kinds": "".join(sorted(set(x[0] for x in toks)))}))
    return cases


def judge_completeness(ex, be, p, P, cases, outs, clauses=("satisfied", "output-wire", "value")):
    """C20's clause `every recorded constraint holds on the recorded witness / every returned value is congruent to its wire
    expression / equals the plain reference`, per backend field, for typed inputs and taken guards"""
    for (line, meta), r in zip(cases, outs):
        ex.evaluations += 1
        g = meta["gadget"]
        ex.count(f"backend:{be}"); ex.count(f"completeness:{g}{'+guard' if meta['guard'] else ''}"); ex.count("mode:completeness")
        for kd in meta["kinds"]:
            ex.count(f"completeness-input:{kd}")
        ex.distinct.add((be, "completeness", g, meta["guard"], meta["kinds"], len(meta["ints"])))
        rf = r.split("|")
        if len(rf) > 1 and rf[1] == "harness-error":
            raise common.Infra(r[:600])
        rep = {"kind": "completeness", "backend": be, "line": line[:6000]}
        base = {"mode": g, "scenario": "typed-inputs" + ("+taken-guard" if meta["guard"] else ""), "shape": "hash-gadget", "op": g,
                "guarded": meta["guard"], "backend": be}
        if rf[1].startswith("err:"):
            if "value" in clauses:
                ex.violations.append(Violation(dict(base, clause="value", dev="raises", error=rf[1][4:]),
                                               f"{be}: {g} on {len(meta['ints'])} typed inputs ({meta['kinds']}) raised {rf[1][4:]}", rep))
            continue
        fld = dict(x.split("=", 1) for x in rf[2:] if "=" in x)
        if fld.get("nunsat") != "0" and "satisfied" in clauses:
            ex.violations.append(Violation(dict(base, clause="satisfied"),
                                           f"{be}: {g} on {len(meta['ints'])} inputs of kinds {meta['kinds']}"
                                           f"{' inside guarded(1)' if meta['guard'] else ''}: {fld.get('nunsat')} of {fld.get('ncons')} recorded "
                                           f"constraints are not satisfied by the recorded witness modulo the backend's prime (first: #{fld.get('unsat', '').split(',')[0]})", rep))
        if fld.get("incoh") and "output-wire" in clauses:
            ex.violations.append(Violation(dict(base, clause="output-wire"),
                                           f"{be}: {g}: returned value no. {fld['incoh']} is not congruent to its wire expression on the recorded witness", rep))
        if "value" in clauses:
            got = [int(x) for x in rf[1].split(",") if x.lstrip("-").isdigit()]
            if g == "ggh":
                want = [sum(b_ * ref_coef(p, i) for i, b_ in enumerate(meta["ints"])) % p]
            else:
                want = ref_permute(P, p, meta["ints"]) if g == "permute" else ref_hash(P, p, meta["ints"])
            if got != want:
                cong = len(got) == len(want) and all((x - y) % p == 0 for x, y in zip(got, want))
                ex.violations.append(Violation(dict(base, clause="value", dev="congruent-not-reduced" if cong else "wrong-value"),
                                               f"{be}: {g} on typed inputs ({meta['kinds']}) returns {str(got[:1])[:40]}…, plain reference {str(want[:1])[:40]}…", rep))


def hash_gadget_completeness(ctx, extended=False, clauses=("satisfied",)):
    """For C01 (completeness): the hash gadgets traced under EVERY zkinterface-family backend (own prime each), inputs of every
    secret type, outside and inside a taken guard; returns the Violation objects for the recorded constraints that the recorded
    witness does not satisfy.  Needs ctx.consts / ctx.poseidon (set by the framework before explore)."""
    ex = Exploration()
    n = ctx.n(16, 160) * (3 if extended else 1)
    if not ctx.consts or not ctx.poseidon:
        return []
    todo = {}
    for be, key in FIELDS.items():
        p = ctx.consts.get(key)
        if p and be in ctx.poseidon:
            todo[be] = (p, ctx.poseidon[be], gen_completeness(ctx.rnd, be, p, ctx.poseidon[be], n))
    def run(be):
        w = common.Worker(be, "worker_hash.py")
        try:
            return w.run([l for l, _ in todo[be][2]])
        finally:
            w.close()
    with cf.ThreadPoolExecutor(len(todo) or 1) as pool:
        outs = dict(zip(todo, pool.map(run, list(todo))))
    for be, (p, P, cases) in todo.items():
        judge_completeness(ex, be, p, P, cases, outs[be], clauses)
    ctx.hash_gadget_completeness_stats = {"evaluations": ex.evaluations, "hist": ex.hist}
    return ex.violations


# ------------------------------------------------------------------ drivers
def lean_parallel(lines, nproc=8):
    """the interpreted model needs ~0.3 s per permutation: spread the lines over several driver processes"""
    if not lines:
        return []
    nproc = max(1, min(nproc, len(lines) // 4 or 1))
    chunks = [lines[i::nproc] for i in range(nproc)]
    with cf.ThreadPoolExecutor(nproc) as pool:
        res = list(pool.map(common.lean_driver, chunks))
    out = [None] * len(lines)
    for i in range(nproc):
        for j, r in enumerate(res[i]):
            out[i + j * nproc] = r
    return out


CHILD = r'''
import sys, os, json, importlib, importlib.abc, io, contextlib
cfg = json.loads(sys.argv[1])
class Block(importlib.abc.MetaPathFinder):
    def find_spec(self, name, path, target=None):
        if name in cfg["unloadable"]:
            raise ImportError("blocked by the harness: " + name)
        return None
sys.meta_path.insert(0, Block())
if cfg["ipython"]:
    import builtins
    builtins.get_ipython = lambda: None
out = {}
buf = io.StringIO()
try:
    with contextlib.redirect_stdout(buf):
        for m in cfg["pre"]:
            importlib.import_module(m)
        import pysnark.runtime as R
    R.autoprove = False
    out["name"] = R.backend_name
    out["module"] = None if R.backend is None else R.backend.__name__
    out["modulus"] = R.backend.get_modulus()
except BaseException as e:
    out["runtime_error"] = type(e).__name__
    out["errmsg"] = str(e)[:200]
if "runtime_error" not in out:
    try:
        with contextlib.redirect_stdout(buf):
            import pysnark.poseidon_hash as H
        from pysnark.poseidon_constants import poseidon_constants as T
        c = H.constants
        out["keys_is"] = [k for k, v in T.items() if v is c]
        rc = c["round_constants"]; mx = c["matrix"]
        out["fp"] = [str(x) for x in [c["t"], c["R_F"], c["R_P"], c["a"]] + list(rc[0] if rc else []) + list(mx[0] if mx else [])]
        out["module_globals_agree"] = (H.R_F, H.R_P, H.t, H.a, H.round_constants is rc, H.matrix is mx) == (c["R_F"], c["R_P"], c["t"], c["a"], True, True)
        if out["module"].startswith("pysnark.zkinterface") or out["module"] in ("pysnark.nobackend", "pysnark.snarkjsbackend"):
            from pysnark.runtime import PrivVal          # in-memory backends only (qaptools writes files per wire)
            try:
                n0 = R.num_constraints
                out["perm01234"] = [str(x.value) for x in H.permute([PrivVal(i) for i in range(H.t)])]
                out["perm_ncons"] = R.num_constraints - n0
            except Exception as e:
                out["perm_error"] = type(e).__name__
    except NotImplementedError as e:
        out["poseidon"] = "NotImplementedError"
    except BaseException as e:
        out["poseidon"] = "other:" + type(e).__name__ + ": " + str(e)[:120]
out["stdout"] = buf.getvalue()[-600:]
print("@@" + json.dumps(out))
os._exit(0)
'''


def run_select(cfg):
    d = tempfile.mkdtemp(prefix="verif-c20-")
    try:
        env = dict(os.environ)
        env["PYTHONDONTWRITEBYTECODE"] = "1"
        env.pop("PYSNARK_BACKEND", None)
        if cfg["env"] is not None:
            env["PYSNARK_BACKEND"] = cfg["env"]
        env["QAPTOOLS_BIN"] = common.stub_dir("qaptools")
        env["PYTHONPATH"] = os.pathsep.join([os.path.join(common.HARNESS, "fbshim"), common.REPO])
        try:
            pr = subprocess.run([common.PY, "-c", CHILD, json.dumps(cfg)], cwd=d, env=env, capture_output=True, text=True, timeout=180)
        except subprocess.TimeoutExpired:
            raise common.Infra(f"selection child timed out: {json.dumps(cfg)[:300]}")
        for l in pr.stdout.splitlines():
            if l.startswith("@@"):
                return json.loads(l[2:])
        return {"runtime_error": "no-report", "errmsg": (pr.stdout + pr.stderr)[-400:]}
    finally:
        shutil.rmtree(d, ignore_errors=True)


def select_configs(rnd, registry, n_random):
    names = [b[0] for b in registry]; mods = [b[1] for b in registry]
    never = [m for m in c19.NEVER if m in mods] or list(c19.NEVER)
    loadable = [m for m in mods if m not in never]
    cfgs = []
    def add(env, pre, unl, ipy, path):
        cfgs.append({"env": env, "pre": pre, "unloadable": c19.closure_unloadable(unl), "ipython": ipy, "path": path})
    for e in names:
        add(e, [], never, False, "env")
    add("bogus", [], never, False, "auto")
    for m in loadable:
        add(None, [m], never, False, "preimport")
        add(rnd.choice([n for n in names if n not in ("libsnark", "libsnarkgg")]), [m], never, False, "preimport+env")
    # auto-detection with progressively fewer loadable modules: every loadable module gets its turn to be the first
    for i in range(len(loadable) + 1):
        add(None, [], never + loadable[:i], False, "auto")
    add(None, [], never, True, "ipython")
    add("bogus", [], never, True, "ipython")
    for c in c19.gen(rnd, registry, n_random, False)[-n_random:] if n_random else []:
        pre_closed = c19.closure_pre(c["pre"])
        if any(m in never for m in pre_closed):
            continue        # C19's generator may pre-import libsnark modules (it can make a stand-in importable); these children cannot
        # the children of this check never see C19's `libsnark` stand-in: the libsnark modules are unloadable in every configuration
        unl = [m for m in list(c["unloadable"]) + [x for x in never if x not in c["unloadable"]] if m not in pre_closed]
        add(c["env"], c["pre"], unl, c["ipython"], "random")
    seen = set(); out = []
    for c in cfgs:
        k = json.dumps({x: c[x] for x in ("env", "pre", "unloadable", "ipython")}, sort_keys=True)
        if k not in seen:
            seen.add(k); out.append(c)
    return out


def classify_path(c, name_to_mod):
    """how the backend came to be selected in this configuration (by construction of the configuration)"""
    pre_reg = [m for m in c19.closure_pre(c["pre"]) if m in name_to_mod.values()]
    if pre_reg:
        return "preimport"
    if c["env"] in name_to_mod:
        return "env"
    if c["ipython"] and "pysnark.nobackend" not in c["unloadable"]:
        return "ipython"
    return "auto"


# ------------------------------------------------------------------ the check
def explore(ctx, extended=False, focus=None):
    ex = Exploration()
    ex.rule = ("per field with registered parameters (BN254, BLS12-381, Curve25519 through the real zkinterface backend modules): the published "
               "vector, permutations on t inputs and sponges on 0..3 blocks (every length at least twice) with values from "
               "{0,1,small,p-1,p,>=p,negative,random 254-bit,random field element}, compared with the Lean model (values as reported, "
               "trace sizes, digests of constraints/outputs/witness) and with an independent plain-integer Poseidon; constraint shape equal "
               "across inputs of equal length; every recorded constraint satisfied; real padding code on colliding-candidate message "
               "families; subset-sum hash on secret bit vectors vs sum b_i*coef_i mod p; then one fresh interpreter per selection path "
               "(each PYSNARK_BACKEND value, each backend module pre-imported with and without a conflicting variable, auto-detection with "
               "each loadable module first in turn, IPython) reporting the parameter object in use; distinct = (backend, mode, length, "
               "value classes) resp. selection configurations; NOBACKEND CONFIGURATION (PYSNARK_BACKEND=nobackend worker: registered set with "
               "R_F+R_P = 4 rounds and a 68-row table, modulus 10000, nothing recorded): permutations and sponges of every length compared "
               "with the model and the plain reference run with THAT set, constraints per permutation from runtime.num_constraints; in "
               "every selection interpreter the permutation of [0..t-1] and its constraint count are compared with the plain reference for "
               "the registered set of the reported backend over the modulus in effect; SUBSET-SUM COEFFICIENTS: SHA512_prng(i) for i < 4096 "
               "(thorough 65536) on every field (snarkjs and zkinterface BN254, BLS12-381, Curve25519 order) against an independent "
               "rejection-sampling derivation, inputs of 282..1100 bits on the plain and the traced path, unit vectors at the indices whose "
               "coefficient needed the most candidates; COMPLETENESS PER FIELD: permute / poseidon_hash / ggh_hash traced under each "
               "zkinterface-family backend on integer, public, boolean and fixed-point inputs, outside and inside a taken guard: every "
               "recorded constraint on the recorded witness, every returned value against its wire expression and the plain reference")
    if not ctx.consts or not ctx.poseidon:
        ex.disagreements.append({"what": "constants or Poseidon table could not be extracted from the source"})
        return ex
    table = ctx.poseidon
    mult = 3 if extended else 1
    n_perm = ctx.n(4, 60) * mult; n_hash = ctx.n(16, 180) * mult; n_pad = ctx.n(120, 1500) * mult; n_ggh = ctx.n(24, 300) * mult
    vectors = published_vectors()
    if not vectors:
        ex.notes.append("test/test_poseidon_hash.py: no published vectors found")
    for be in NOT_ASSERTED_VECTORS & set(vectors):
        ex.notes.append(f"published vector for {be} not asserted (copy of the zkifbellman vector: "
                        f"{vectors.get(be, (0, 0))[1] == vectors.get('zkifbellman', (0, 1))[1]})")

    # ---------------- values, shapes, padding, ggh: one long-lived worker per field
    jobs = {}
    draws = {}
    n_table = GGH_TABLE[1] if ctx.thorough() else GGH_TABLE[0]
    n_long = ctx.n(5, 60) * mult
    n_comp = ctx.n(10, 120) * mult
    for be, key in FIELDS.items():
        p = ctx.consts.get(key)
        if not p or be not in table:
            ex.disagreements.append({"backend": be, "what": "modulus or parameter set missing from the source"})
            continue
        P = table[be]
        pos = gen_poseidon(ctx.rnd, be, p, P["t"], n_perm, n_hash, vectors.get(be) if be not in NOT_ASSERTED_VECTORS else
                           (vectors.get(be, ([0, 1, 2, 3, 4], None))[0], None), P["round_constants"][0])
        pads = gen_padding(ctx.rnd, P["t"] - 1, n_pad)
        draws[be] = [ref_coef_draws(p, i) for i in range(n_table)]
        gghs = gen_ggh(ctx.rnd, p, n_ggh) + gen_ggh_long(ctx.rnd, p, [d for _, d in draws[be]], n_long)
        jobs[be] = (p, P, pos, pads, gghs)
    for be, key in EXTRA_CONFIGS.items():
        p = ctx.consts.get(key)
        if not p:
            ex.disagreements.append({"backend": be, "what": "modulus missing from the source"})
            continue
        if be in table:
            # a registered set on a backend that records nothing: permutations and sponges, every length, values across Z_p
            P = table[be]
            pos = gen_poseidon(ctx.rnd, be, p, P["t"], n_perm * 2, n_hash, ([0, 1, 2, 3, 4][:P["t"]] + [0] * (P["t"] - 5), None),
                               P["round_constants"][0])
            jobs[be] = (p, P, pos, gen_padding(ctx.rnd, P["t"] - 1, n_pad // 4), [])
        else:
            draws[be] = [ref_coef_draws(p, i) for i in range(n_table)]
            jobs[be] = (p, None, [], [], gen_ggh(ctx.rnd, p, n_ggh // 3) + gen_ggh_long(ctx.rnd, p, [d for _, d in draws[be]], max(n_long // 2, 2)))
    comp = {be: gen_completeness(ctx.rnd, be, jobs[be][0], jobs[be][1], n_comp) for be in FIELDS if be in jobs}

    def run_backend(be):
        p, P, pos, pads, gghs = jobs[be]
        w = common.Worker(be, "worker_hash.py")
        try:
            lines = ["INFO|info"] + [l for l, _ in pos] + [f"PAD|pad{i}|{','.join(map(str, m))}" for i, m in enumerate(pads)] + \
                    [f"PG|{be}-g{i}|{p}||{','.join(t)}" for i, (t, _) in enumerate(gghs)]
            if be in draws:
                lines.append(f"GC|{be}-table|{p}|{n_table}")
            lines += [l for l, _ in comp.get(be, [])]
            return w.run(lines)
        finally:
            w.close()
    import time
    t_ph = time.time()
    with cf.ThreadPoolExecutor(len(jobs) or 1) as pool:
        outs = dict(zip(jobs, pool.map(run_backend, list(jobs))))
    t_ph = time.time() - t_ph

    lean_lines = []; lean_index = []
    parsed = {}
    for be, (p, P, pos, pads, gghs) in jobs.items():
        o = outs[be]
        if any("|harness-error|" in x for x in o):
            raise common.Infra(next(x for x in o if "|harness-error|" in x)[:600])
        info = o[0].split("|")
        o_pos = o[1:1 + len(pos)]; o_pad = o[1 + len(pos):1 + len(pos) + len(pads)]
        k0 = 1 + len(pos) + len(pads)
        o_ggh = o[k0:k0 + len(gghs)]; k0 += len(gghs)
        o_tab = o[k0] if be in draws else None
        o_comp = o[k0 + (1 if be in draws else 0):]
        parsed[be] = (info, o_pos, o_pad, o_ggh)
        # ---- the coefficient table of the subset-sum hash, far beyond the length of any hashed input: index by index against
        # the independent SHA-512 derivation over THIS field (rejection sampling: first candidate below p, however many it takes)
        if o_tab is not None:
            ex.evaluations += 1; ex.count("mode:ggh-table"); ex.count(f"ggh-table:{be}:{n_table}")
            ex.count(f"ggh-table-maxdraws:{be}:{max(d for _, d in draws[be])}")
            ex.distinct.add((be, "ggh-table", n_table))
            own = [int(x) for x in o_tab.split("|", 1)[1].split(",") if x] if "|" in o_tab and "err" not in o_tab.split("|")[1][:4] else []
            mine = [c for c, _ in draws[be]]
            if own != mine:
                bad = [i for i, (x, y) in enumerate(zip(own, mine)) if x != y] or [min(len(own), len(mine))]
                i = bad[0]
                ex.violations.append(Violation({"clause": "ggh-coefficients", "mode": "ggh-table"},
                                               f"{be}: SHA512_prng({i}) = {str(own[i])[:30] if i < len(own) else None}…, the first SHA-512 candidate "
                                               f"below p is {str(mine[i])[:30] if i < len(mine) else None}… (candidate no. {draws[be][i][1] if i < len(mine) else '?'}); "
                                               f"{len(bad)} of {n_table} indices differ: {bad[:6]}",
                                               {"kind": "ggh-table", "backend": be, "index": i, "indices": bad[:20], "n": n_table}))
        judge_completeness(ex, be, p, P, comp.get(be, []), o_comp)
        for (line, meta), r in zip(pos, o_pos):
            lean_lines.append(line); lean_index.append((be, "ph", line, meta, r))
        for i, ((toks, style), r) in enumerate(zip(gghs, o_ggh)):
            coefs = r.rsplit("|coefs=", 1)[1] if "|coefs=" in r else ""
            line = f"PG|{be}-g{i}|{p}|{coefs}|{','.join(toks)}"
            lean_lines.append(line); lean_index.append((be, "ggh", line, {"style": style, "toks": toks}, r))
    t_model = time.time()
    model = lean_parallel(lean_lines)
    t_model = time.time() - t_model
    ex.notes.append(f"phase timings: workers {t_ph:.1f} s, model driver {t_model:.1f} s ({len(lean_lines)} lines)")

    shapes = {}
    for (be, kind, line, meta, r), m in zip(lean_index, model):
        p, P = jobs[be][0], jobs[be][1]
        ex.evaluations += 1
        rf = r.split("|"); mf = m.split("|")
        if kind == "ph":
            mode = meta["mode"]; n = meta["len"]
            vs = [int(x) for x in line.split("|")[5].split(",") if x]
            ex.count(f"backend:{be}"); ex.count(f"mode:{mode}"); ex.count(f"len:{n}")
            for c in set(meta["classes"]):
                ex.count(f"class:{c}")
            ex.distinct.add((be, mode, n, tuple(meta["classes"])))
            rep = {"kind": "poseidon", "backend": be, "line": line[:3000]}
            # (i) correspondence with the Lean model: values as reported, sizes, digests
            if rf[1].startswith("err:"):
                ex.count(f"status:{rf[1]}")
                impl_c = rf[1]; model_c = mf[1] if len(mf) > 1 else m
            else:
                ex.count("status:ok")
                fld = dict(x.split("=", 1) for x in rf[2:])
                if fld.get("npriv") == "na":
                    # nothing recorded (nobackend): values as reported and the number of constraints handed to the backend
                    ex.count("records:no")
                    impl_c = "|".join([rf[1], f"ncons={fld.get('ncons')}"])
                    model_c = "|".join(mf[1:3]) if len(mf) >= 7 else m
                else:
                    impl_c = "|".join([rf[1]] + [f"{k}={fld.get(k)}" for k in ("ncons", "npriv", "sdig", "odig", "wdig")])
                    model_c = "|".join(mf[1:7]) if len(mf) >= 7 else m
            if impl_c != model_c:
                ex.disagreements.append({"backend": be, "line": line[:600], "impl": impl_c[:500], "model": model_c[:500]})
            else:
                ex.traces_validated += 1
            # (ii) direct oracle: independent plain-integer Poseidon
            well_formed = (mode == "hash") or n == P["t"]
            if rf[1].startswith("err:"):
                if well_formed:
                    ex.violations.append(Violation({"clause": "value", "mode": mode, "dev": "raises", "error": rf[1][4:]},
                                                   f"{be}: {mode} on {n} inputs raised {rf[1][4:]}", rep))
                continue
            if not well_formed:
                continue
            got = [int(x) for x in rf[1].split(",") if x]
            want = ref_permute(P, p, vs) if mode == "permute" else ref_hash(P, p, vs)
            if got != want:
                cong = len(got) == len(want) and all((g - w_) % p == 0 for g, w_ in zip(got, want))
                ex.violations.append(Violation(dict({"clause": "value", "mode": mode, "dev": "congruent-not-reduced" if cong else "wrong-value"},
                                                    **({"config": be} if be in EXTRA_CONFIGS else {})),
                                               f"{be}: {mode} on {n} inputs ({','.join(sorted(set(meta['classes'])))}) returns "
                                               f"{str(got[:1])[:40]}…, plain reference {str(want[:1])[:40]}…"
                                               + (" (congruent modulo p, not the field element's representative)" if cong else ""), rep))
            if mode == "hash" and "again" in fld:
                ex.count("hash:same-list-hashed-twice")
                a, b_ = fld.get("inlen", "0/0").split("/")
                if a != b_:
                    ex.violations.append(Violation({"clause": "value", "mode": "hash", "dev": "input-list-mutated"},
                                                   f"{be}: poseidon_hash changed its caller's list of {b_} inputs (now {a} elements)", rep))
                if fld["again"] != ",".join(map(str, want)):
                    ex.violations.append(Violation({"clause": "value", "mode": "hash", "dev": "second-call-on-same-list"},
                                                   f"{be}: hashing the same list object of {n} inputs a second time returns {fld['again'][:40]}…, "
                                                   f"plain reference {str(want[:1])[:40]}…", rep))
            if "vector" in meta["classes"] and vectors.get(be) and be not in NOT_ASSERTED_VECTORS:
                ex.count("published-vector")
                if got != vectors[be][1]:
                    ex.violations.append(Violation({"clause": "vector", "mode": "permute", "backend": be},
                                                   f"{be}: permutation of {vectors[be][0]} is not the published test vector", rep))
            if extended and "vector" in meta["classes"] and be in PINNED_BY_THEOREM and got != PINNED_BY_THEOREM[be] and \
                    any("vector" in str(t) for t in (focus or {}).get("failed", [])):
                ex.violations.append(Violation({"clause": "vector", "mode": "permute", "backend": be, "dev": "pinned-by-theorem"},
                                               f"{be}: permutation of [0,1,2,3,4] is no longer the value pinned by C20_cex_bulletproofs_vector "
                                               f"(parameter set or algorithm changed)", rep))
            if fld.get("unsat") not in ("0", "na"):
                ex.violations.append(Violation({"clause": "satisfied", "mode": mode}, f"{be}: {fld.get('unsat')} recorded constraints are "
                                               f"not satisfied by the recorded witness", rep))
            if fld.get("incoh") not in ("0", "na"):
                ex.violations.append(Violation({"clause": "output-wire", "mode": mode}, f"{be}: {fld.get('incoh')} outputs whose wire "
                                               f"expression does not evaluate to the reported value", rep))
            # constraint count/shape is a function of the length only
            key = (be, mode, n)
            sh = (fld.get("ncons"), fld.get("npriv"), fld.get("shape"))
            if key in shapes and shapes[key][0] != sh:
                ex.violations.append(Violation({"clause": "shape", "mode": mode},
                                               f"{be}: {mode} on {n} inputs emits {sh[0]} constraints (shape {sh[2]}) for one input vector and "
                                               f"{shapes[key][0][0]} (shape {shapes[key][0][2]}) for another",
                                               {"kind": "poseidon-pair", "backend": be, "line": line[:3000], "other": shapes[key][1][:3000]}))
            shapes.setdefault(key, (sh, line))
            perms = 1 if mode == "permute" else n // (P["t"] - 1) + 1
            per = (P["R_F"] * P["t"] + P["R_P"]) * (P["a"] - 1)
            if fld.get("ncons") != str(perms * per):
                ex.violations.append(Violation(dict({"clause": "count", "mode": mode}, **({"config": be} if be in EXTRA_CONFIGS else {})),
                                               f"{be}: {mode} on {n} inputs emits {fld.get('ncons')} "
                                               f"constraints, (R_F*t+R_P)*(a-1) per permutation gives {perms * per}", rep))
            if len(ex.samples) < 4 and mode == "hash" and n:
                ex.samples.append({"line": line[:300], "impl": r[:200]})
        else:
            toks = meta["toks"]
            ex.count(f"backend:{be}"); ex.count("mode:ggh"); ex.count(f"ggh:{meta['style']}"); ex.count(f"ggh-len:{min(len(toks), 1280) // 32 * 32}+")
            ex.distinct.add((be, "ggh", len(toks), meta["style"]))
            rep = {"kind": "ggh", "backend": be, "line": line[:200] + "…", "bits": ",".join(toks)[:40000]}
            impl_c = "|".join(x for x in rf[1:] if not x.startswith(("coefs=", "incoh=")))
            model_c = "|".join(mf[1:])
            if impl_c != model_c:
                ex.disagreements.append({"backend": be, "bits": ",".join(toks)[:400], "impl": impl_c[:300], "model": model_c[:300]})
            else:
                ex.traces_validated += 1
            own = [int(x) for x in (r.rsplit("|coefs=", 1)[1].split(",") if "|coefs=" in r else []) if x]
            mine = [c for c, _ in draws[be][:len(toks)]] if be in draws and len(toks) <= len(draws[be]) else [ref_coef(p, i) for i in range(len(toks))]
            if own != mine:
                ex.violations.append(Violation({"clause": "ggh-coefficients", "mode": "ggh"},
                                               f"{be}: SHA512_prng table differs from the SHA-512 derivation at index "
                                               f"{next((i for i, (a, b) in enumerate(zip(own, mine)) if a != b), len(own))}", rep))
            if rf[1].startswith("err:"):
                ex.count(f"status:{rf[1]}")
                secret_first = bool(toks) and toks[0][0] == "s"
                if secret_first or all(t[0] == "i" for t in toks):
                    ex.violations.append(Violation({"clause": "ggh-value", "mode": "ggh", "dev": "raises", "error": rf[1][4:]},
                                                   f"{be}: ggh_hash raised {rf[1][4:]} on {meta['style']} bits", rep))
                continue
            want = sum(int(t[1:]) * c for t, c in zip(toks, mine)) % p
            got = int(rf[2])
            if got != want:
                cong = (got - want) % p == 0
                ex.violations.append(Violation({"clause": "ggh-value", "mode": "ggh", "dev": "congruent-not-reduced" if cong else "wrong-value"},
                                               f"{be}: ggh_hash on {len(toks)} {meta['style']} bits returns {str(got)[:30]}…, sum b_i*coef_i mod p is "
                                               f"{str(want)[:30]}…", rep))
            fld = dict(x.split("=", 1) for x in rf[3:] if "=" in x)
            if fld.get("ncons") != "0":
                ex.violations.append(Violation({"clause": "ggh-count", "mode": "ggh"}, f"{be}: ggh_hash emitted {fld.get('ncons')} constraints", rep))
            if fld.get("incoh") not in (None, "0"):
                ex.violations.append(Violation({"clause": "output-wire", "mode": "ggh"}, f"{be}: ggh_hash result's wire expression does not "
                                               f"evaluate to the reported value", rep))

    # padding: the real padding code vs the reference rule, and injectivity on the observed padded forms
    for be, (p, P, pos, pads, gghs) in jobs.items():
        info, _, o_pad, _ = parsed[be]
        if P is None:
            continue                # no registered parameters (snarkjs): only the subset-sum hash runs there
        rate = P["t"] - 1
        seen = {}
        for msg, r in zip(pads, o_pad):
            ex.evaluations += 1
            ex.count("mode:padding"); ex.count(f"padlen:{len(msg)}")
            ex.distinct.add((be, "pad", tuple(msg)))
            rf = r.split("|")
            rep = {"kind": "padding", "backend": be, "message": msg}
            if rf[1].startswith("err:"):
                ex.violations.append(Violation({"clause": "padding", "mode": "hash", "dev": "raises", "error": rf[1][4:]},
                                               f"{be}: padding a message of length {len(msg)} raised {rf[1][4:]}", rep))
                continue
            padded = tuple(int(x) for x in rf[1].split(",") if x)
            if list(padded) != ref_pad(rate, msg):
                ex.violations.append(Violation({"clause": "padding", "mode": "hash", "dev": "not-10*"},
                                               f"{be}: message {msg} is padded to {list(padded)}, the rule (append 1, then zeros to a multiple "
                                               f"of {rate}) gives {ref_pad(rate, msg)}", rep))
            if len(padded) % rate or len(padded) <= len(msg) or list(padded[:len(msg)]) != msg:
                ex.violations.append(Violation({"clause": "padding", "mode": "hash", "dev": "length-or-prefix"},
                                               f"{be}: padded form of {msg} has length {len(padded)}", rep))
            if padded in seen and seen[padded] != msg:
                ex.violations.append(Violation({"clause": "padding", "mode": "hash", "dev": "collision"},
                                               f"{be}: messages {seen[padded]} and {msg} share the padded form {list(padded)}",
                                               {"kind": "padding", "backend": be, "message": msg, "other": seen[padded]}))
            seen.setdefault(padded, msg)
        # the worker was selected through the environment: it must use its own registered set
        if info[4] != be or [int(x) for x in info[5].split(",") if x] != fingerprint(P):
            ex.violations.append(Violation({"clause": "params", "mode": "select", "path": "env", "dev": "not-the-selected-backend's"},
                                           f"worker for {be} (PYSNARK_BACKEND) reports parameter keys {info[4]!r}", {"kind": "info", "backend": be}))

    # ---------------- selection paths: one fresh interpreter each
    reg = ctx.consts["backends"]
    name_to_mod = dict((b[0], b[1]) for b in reg)
    declared = {"zkinterface": ctx.consts["zkif_p"], "zkifbellman": ctx.consts["bellman_p"], "zkifbulletproofs": ctx.consts["bulletproofs_p"],
                "nobackend": ctx.consts["nobackend_p"], "snarkjs": ctx.consts["snarkjs_p"], "qaptools": ctx.consts["qaptools_p"]}
    fps = {k: [str(x) for x in fingerprint(v)] for k, v in table.items()}
    cfgs = select_configs(ctx.rnd, reg, ctx.n(0, 250) * mult)
    t_sel = time.time()
    with cf.ThreadPoolExecutor(14) as pool:
        souts = list(pool.map(run_select, cfgs))
    ex.notes.append(f"phase timings: {len(cfgs)} selection interpreters {time.time() - t_sel:.1f} s")
    slines = []
    for i, c in enumerate(cfgs):
        slines.append(f"PS|s{i}|{'-' if c['env'] is None else c['env']}|{','.join(c19.closure_pre(c['pre']))}|{','.join(c['unloadable'])}|{int(c['ipython'])}")
    sm = common.lean_driver(slines)
    for c, o, m in zip(cfgs, souts, sm):
        ex.evaluations += 1
        path = classify_path(c, name_to_mod)
        ex.count(f"path:{path}"); ex.count("mode:select")
        ex.distinct.add(json.dumps({x: c[x] for x in ("env", "pre", "unloadable", "ipython")}, sort_keys=True))
        mf = m.split("|")
        if "runtime_error" in o:
            impl_c = "runtimefails"
        elif o.get("poseidon") == "NotImplementedError":
            impl_c = f"notimplemented|{o.get('name')}"
        elif "fp" in o:
            impl_c = f"params|{o.get('name')}|{','.join(o['fp'])}"
        else:
            impl_c = f"other|{o.get('poseidon')}"
        model_c = "|".join(mf[1:])
        if impl_c != model_c:
            ex.disagreements.append({"config": c, "impl": impl_c[:300], "model": model_c[:300]})
        else:
            ex.traces_validated += 1
        obs = {k: o.get(k) for k in ("name", "module", "modulus", "keys_is", "poseidon", "runtime_error", "perm01234", "perm_ncons", "perm_error")}
        if obs.get("perm01234"):
            obs["perm01234"] = obs["perm01234"][:1]
        rep = {"kind": "select", "config": c, "observed": obs}
        ex.count(f"outcome:{impl_c.split('|')[0]}")
        if "runtime_error" in o:
            continue                                # selection itself failed: C19's subject
        name, module, modulus = o.get("name"), o.get("module"), o.get("modulus")
        derived = [d for d in c19.closure_pre(c["pre"]) if d in c19.EDGES]
        if "fp" not in o:
            if o.get("poseidon") != "NotImplementedError":
                ex.violations.append(Violation({"clause": "params", "mode": "select", "path": path, "dev": "import-fails"},
                                               f"import pysnark.poseidon_hash failed with {o.get('poseidon')} (backend {name})", rep))
            elif name in table:
                ex.violations.append(Violation({"clause": "params", "mode": "select", "path": path, "dev": "registered-but-refused"},
                                               f"backend {name} has registered parameters but poseidon_hash raised NotImplementedError", rep))
            continue
        used = [k for k, f in fps.items() if f == o["fp"]]
        toy = "nobackend" in used
        if name not in table:
            ex.violations.append(Violation({"clause": "params", "mode": "select", "path": path,
                                            "dev": "toy-fallback" if toy else "unregistered-backend-got-parameters"},
                                           f"backend {name} ({module}) selected by {path} has no registered parameters but hashes with the set "
                                           f"{used or 'unknown'}", rep))
            continue
        if used != [name] or not o.get("module_globals_agree", True):
            ex.violations.append(Violation({"clause": "params", "mode": "select", "path": path,
                                            "dev": "toy-fallback" if toy and name != "nobackend" else "not-the-selected-backend's"},
                                           f"backend {name} ({module}) selected by {path} hashes with the set {used or 'unknown'}, "
                                           f"registered for it: {name}", rep))
            continue
        # the set registered for the backend ACTUALLY in effect: the field the constraints are over
        for_field = [k for k in table if declared.get(k) == modulus]
        if name not in for_field:
            ex.violations.append(Violation({"clause": "params", "mode": "select", "path": path, "dev": "params-field-mismatch",
                                            "derived_preimported": bool(derived)},
                                           f"pre-imported {c['pre']}: reported backend {name}, parameter set {used}, but the field in effect has "
                                           f"modulus {str(modulus)[:16]}… whose registered set is {for_field or 'none'}", rep))
        # whatever the selection path: the permutation computed in THIS interpreter is the plain permutation with the registered
        # set of the reported backend (its R_F, R_P, a, rows and matrix) over the modulus in effect, at the registered cost
        Pn = table[name]
        if o.get("perm_error"):
            ex.violations.append(Violation({"clause": "value", "mode": "permute", "path": path, "dev": "raises", "config": "select"},
                                           f"backend {name} selected by {path}: permute([0..t-1]) raised {o['perm_error']}", rep))
        elif o.get("perm01234") and isinstance(modulus, int) and modulus > 0:
            ex.count("select:permutation-compared"); ex.count(f"select:permutation:{name}")
            got = [int(x) for x in o["perm01234"]]
            want = ref_permute(Pn, modulus, list(range(Pn["t"])))
            if got != want:
                ex.violations.append(Violation({"clause": "value", "mode": "permute", "path": path, "dev": "wrong-value", "config": "select"},
                                               f"backend {name} ({module}) selected by {path}: permute([0..{Pn['t'] - 1}]) = {str(got[:1])[:40]}…, the plain "
                                               f"permutation with the set registered for {name} (R_F={Pn['R_F']}, R_P={Pn['R_P']}, a={Pn['a']}) over "
                                               f"{str(modulus)[:12]}… gives {str(want[:1])[:40]}…", rep))
            per = (Pn["R_F"] * Pn["t"] + Pn["R_P"]) * (Pn["a"] - 1)
            if o.get("perm_ncons") is not None and o["perm_ncons"] != per:
                ex.violations.append(Violation({"clause": "count", "mode": "permute", "path": path, "config": "select"},
                                               f"backend {name} selected by {path}: one permutation hands {o['perm_ncons']} constraints to the backend, "
                                               f"(R_F*t+R_P)*(a-1) = {per}", rep))
        if len(ex.samples) < 8:
            ex.samples.append({"config": {x: c[x] for x in ("env", "pre", "ipython")}, "path": path, "name": name, "params": used})
    return ex


def replay(ctx, payload):
    r = payload["replay"]
    kind = r.get("kind")
    if kind == "select":
        cfg = r["config"]
        print(json.dumps(run_select(cfg), indent=1)[:4000])
        line = f"PS|replay|{'-' if cfg['env'] is None else cfg['env']}|{','.join(c19.closure_pre(cfg['pre']))}|{','.join(cfg['unloadable'])}|{int(cfg['ipython'])}"
        print("model:", common.lean_driver([line])[0][:600])
        return 0
    be = r["backend"]
    w = common.Worker(be, "worker_hash.py")
    try:
        if kind in ("poseidon", "poseidon-pair"):
            lines = [r["line"]] + ([r["other"]] if r.get("other") else [])
            for l, o in zip(lines, w.run(lines)):
                print("impl :", o[:1500])
            for l in lines:
                print("model:", common.lean_driver([l])[0][:1500])
        elif kind == "padding":
            msgs = [r["message"]] + ([r["other"]] if r.get("other") else [])
            for mmsg, o in zip(msgs, w.run([f"PAD|pad|{','.join(map(str, mmsg))}" for mmsg in msgs])):
                print(mmsg, "->", o[:600])
        elif kind == "completeness":
            print(w.run([r["line"]])[0][:1500])
        elif kind == "ggh-table":
            p = int(w.run(["INFO|i"])[0].split("|")[3])
            own = w.run([f"GC|t|{p}|{r['n']}"])[0].split("|", 1)[1].split(",")
            for i in r["indices"]:
                print(f"SHA512_prng({i}) = {own[i]}   independent derivation: {ref_coef_draws(p, i)}")
        elif kind == "ggh":
            p = w.run(["INFO|i"])[0].split("|")[3]
            print(w.run([f"PG|g|{p}||{r['bits']}"])[0][:1500])
        else:
            print(w.run(["INFO|i"])[0][:800])
    finally:
        w.close()
    return 0
