"""Helpers shared by the program-based property checks."""
import re
from . import common, progcheck
from .framework import Exploration, Violation
from .gen import progs


def kind_letter(regstr):
    if not regstr:
        return "?"
    c = regstr[0]
    return {"I": "I", "F": "F", "L": "L", "B": "B", "X": "X", "[": "list", "(": "tuple", "N": "N"}.get(c, "?")


def instr_sig(case, regs, i):
    """signature of instruction i: its opcode and the kinds of the registers it reads"""
    ins = case.instrs[i].split()
    op = ins[0]
    name = op + (":" + ins[1] if op in ("bin", "un", "call", "mk") else "")
    if op == "iop":
        name = "bin:" + ins[1]          # `t op= x` on a class without __iop__ IS t = t op x: same operator, same recorded findings
    rs = [int(t[1:]) for t in ins[1:] if re.fullmatch(r"r\d+", t)]
    kinds = "".join(kind_letter(regs[r]) if r < len(regs) else "?" for r in rs)
    sig = {"instr": name, "operands": kinds}
    if op == "iop":
        sig["form"] = "augmented-assignment"
    return sig


def augmented_assignment_mutations(ex, r):
    """direct oracle for `iop` (augmented assignment through a second reference): the worker compares the ORIGINAL register's
    canonical value before and after the statement; a change is reported under the iop's own signature.  Returns True if any."""
    mut = [x for x in r.fields.get("MUT", "").split(",") if x]
    for x in mut[:1]:
        j, a = (int(t) for t in x.split(":"))
        sig = instr_sig(r.case, r.regs + ["?"] * (j + 1 - len(r.regs)), j); sig["dev"] = "receiver-changed-by-augmented-assignment"
        ex.violations.append(Violation(sig, f"`t = r{a}; t {r.case.instrs[j].split()[1]}= ...` ({r.case.instrs[j]}) changed the original: r{a} "
                                            f"({r.case.instrs[a]}) now reads {r.regs[a][:60] if a < len(r.regs) else '?'}",
                                       {"case": r.case.line(), "instruction": j, "register": a}))
    return bool(mut)


def in_guard(case, i):
    """list of guard-condition registers enclosing instruction i"""
    stack = []
    for k, t in enumerate(case.instrs[:i]):
        w = t.split()
        if w[0] == "genter":
            stack.append(int(w[1][1:]))
        elif w[0] == "gleave" and stack:
            stack.pop()
    return stack


def account(ex, r):
    m = r.case.meta
    ex.evaluations += 1
    if r.harness_error:
        raise common.Infra("worker: " + r.py_raw[:600])
    ex.count(f"shape:{m.get('shape')}")
    ex.count(f"status:{r.errcls or 'ok'}")
    if m.get("shape") in ("op", "un", "meth"):
        ex.count(f"op:{m.get('op')}")
        ex.count(f"kinds:{m.get('kinds')}")
    ex.count(f"bl:{r.case.cfg['bl']}")
    if r.cons or not r.ok:
        ex.distinct.add((m.get("shape"), m.get("op"), m.get("kinds"), r.case.cfg["bl"], r.case.cfg["ign"], r.errcls))


def correspond(ex, r, levels):
    if r.unmodelled:
        ex.unmodelled += 1
        return
    d = progcheck.diff_levels(r, levels)
    if d:
        ex.disagreements.append({"case": r.case.line(), "diff": d[:3]})
    else:
        ex.traces_validated += 1


def batches(cases, size=800):
    for i in range(0, len(cases), size):
        yield cases[i:i + size]


def execute_all(cases, **kw):
    out = []
    for b in batches(cases):
        out.extend(progcheck.execute(b, **kw))
    return out


def replay_case(line, backend="snarkjs"):
    out = common.run_workers([line], backend)[0]
    ml = common.lean_driver([line])[0]
    print("impl :", out[:3000])
    print("model:", ml[:3000])
    return progcheck.Rec(progs.Case("replay", {"p": 0, "bl": 0, "res": 0, "ign": 0}, line.split("|")[3].split(";")), out, ml)


def corpus_cases(pid):
    """hand-written boundary cases and minimised past failures; run first"""
    import glob, os
    out = []
    for f in sorted(glob.glob(os.path.join(common.VERIF, "corpus", pid, "*.case"))):
        for n, line in enumerate(open(f)):
            line = line.strip()
            if not line or line.startswith("#"):
                continue
            fld = line.split("|")
            cfg = dict((k, int(v)) for k, v in (kv.split("=") for kv in fld[2].split(",")))
            out.append(progs.Case(f"corpus-{os.path.basename(f)}-{n}", cfg, [t for t in fld[3].split(";") if t.strip()],
                                  {"shape": "corpus", "op": os.path.basename(f)[:-5], "kinds": "*"}))
    return out


BACKENDS = [("snarkjs", common.BN128, 0.61), ("zkinterface", common.BN128, 0.13), ("zkifbellman", common.BLS381, 0.13),
            ("zkifbulletproofs", common.ED25519, 0.13)]


def execute_backends(rnd, n, prefix, mix, corpus=(), keep=None):
    """generate n programs split over every loadable in-memory backend (each with its own field) and execute them on the
    real backend and on the model; the backend is recorded in case.meta['backend']"""
    recs = []
    for be, p, share in BACKENDS:
        cases = (list(corpus) if be == "snarkjs" else []) + progs.generate(rnd, int(n * share), prefix + be[-4:], mix=mix, p=p)
        if keep:
            cases = [c for c in cases if keep(c)]
        for c in cases:
            c.meta["backend"] = be
        recs += execute_all(cases, backend=be)
    return recs
