"""Independent reader of the iden3 binary formats (.wtns v2, .r1cs v1), written from the format
description (https://github.com/iden3/r1csfile/blob/master/doc/r1cs_bin_format.md and snarkjs'
wtns layout), sharing no code with the writer or with the Lean model.  Raises FormatError with a
reason on any malformed input."""
import struct


class FormatError(Exception):
    pass


def u32(b, o):
    if o + 4 > len(b): raise FormatError("truncated u32")
    return struct.unpack_from("<I", b, o)[0], o + 4


def u64(b, o):
    if o + 8 > len(b): raise FormatError("truncated u64")
    return struct.unpack_from("<Q", b, o)[0], o + 8


def fe(b, o, n):
    if o + n > len(b): raise FormatError("truncated field element")
    return int.from_bytes(b[o:o + n], "little"), o + n


def sections(b, magic, version):
    if b[:4] != magic: raise FormatError("bad magic")
    v, o = u32(b, 4)
    if v != version: raise FormatError(f"bad version {v}")
    ns, o = u32(b, o)
    secs = []
    for _ in range(ns):
        sid, o = u32(b, o)
        ln, o = u64(b, o)
        if o + ln > len(b): raise FormatError(f"section {sid} declares {ln} bytes, only {len(b) - o} left")
        secs.append((sid, b[o:o + ln]))
        o += ln
    if o != len(b): raise FormatError(f"{len(b) - o} trailing bytes after the last section")
    return secs


def read_wtns(b):
    secs = sections(b, b"wtns", 2)
    if [s[0] for s in secs] != [1, 2]: raise FormatError(f"sections {[s[0] for s in secs]}")
    h = secs[0][1]
    n8, o = u32(h, 0)
    if n8 % 8 != 0 or n8 == 0: raise FormatError("field size")
    prime, o = fe(h, o, n8)
    nw, o = u32(h, o)
    if o != len(h): raise FormatError("header section size")
    d = secs[1][1]
    if len(d) != nw * n8: raise FormatError(f"witness section has {len(d)} bytes for {nw} values of {n8} bytes")
    vals = [int.from_bytes(d[i * n8:(i + 1) * n8], "little") for i in range(nw)]
    return {"n8": n8, "prime": prime, "values": vals}


def read_r1cs(b):
    secs = sections(b, b"r1cs", 1)
    if [s[0] for s in secs] != [1, 2, 3]: raise FormatError(f"sections {[s[0] for s in secs]}")
    h = secs[0][1]
    n8, o = u32(h, 0)
    if n8 % 8 != 0 or n8 == 0: raise FormatError("field size")
    prime, o = fe(h, o, n8)
    nwires, o = u32(h, o); npubout, o = u32(h, o); npubin, o = u32(h, o); nprvin, o = u32(h, o)
    nlabels, o = u64(h, o); ncons, o = u32(h, o)
    if o != len(h): raise FormatError("header section size")
    d = secs[1][1]; o = 0
    cons = []
    for _ in range(ncons):
        lcs = []
        for _ in range(3):
            nt, o = u32(d, o)
            terms = []
            for _ in range(nt):
                w, o = u32(d, o)
                c, o = fe(d, o, n8)
                terms.append((w, c))
            lcs.append(terms)
        cons.append(lcs)
    if o != len(d): raise FormatError(f"constraint section: {len(d) - o} bytes left after {ncons} constraints")
    l = secs[2][1]
    if len(l) != 8 * nwires: raise FormatError(f"label section has {len(l)} bytes for {nwires} wires")
    labels = [struct.unpack_from("<Q", l, 8 * i)[0] for i in range(nwires)]
    return {"n8": n8, "prime": prime, "nwires": nwires, "npubout": npubout, "npubin": npubin, "nprvin": nprvin,
            "nlabels": nlabels, "ncons": ncons, "constraints": cons, "labels": labels}


def check(wt, r1, p, pubs, privs, cons):
    """all clauses of C10 on decoded files vs the traced system; returns list of (clause, message)"""
    bad = []
    n = len(pubs) + len(privs) + 1
    if wt["prime"] != p or r1["prime"] != p: bad.append(("header", "prime in file differs from the backend's modulus"))
    # element width: taken from each file's header (iden3: a multiple of 8 that holds the prime); both files must agree
    for nm, d in (("witness.wtns", wt), ("circuit.r1cs", r1)):
        if d["n8"] == 0 or d["n8"] % 8 != 0 or p >= 1 << (8 * d["n8"]):
            bad.append(("header", f"{nm}: field size {d['n8']} is not a multiple of 8 holding the prime"))
    if wt["n8"] != r1["n8"]: bad.append(("header", f"field size {wt['n8']} in witness.wtns, {r1['n8']} in circuit.r1cs"))
    if len(wt["values"]) != n: bad.append(("counts", f"witness has {len(wt['values'])} values, trace has {n}"))
    if r1["nwires"] != n: bad.append(("counts", f"nWires {r1['nwires']} != {n}"))
    if r1["npubout"] + r1["npubin"] != len(pubs): bad.append(("counts", "number of public wires"))
    if r1["ncons"] != len(cons): bad.append(("counts", "number of constraints"))
    for i, v in enumerate(wt["values"]):
        if v >= p:
            bad.append(("canonical-witness", f"witness element #{i} = {v} is not below the prime")); break
    for ci, c in enumerate(r1["constraints"]):
        for l in c:
            for (w, cf) in l:
                if cf >= p: bad.append(("canonical-coefficient", f"constraint {ci}: coefficient not below the prime"))
                if w >= n: bad.append(("wire", f"constraint {ci}: wire id {w} out of range"))
    want_w = [1 % p] + [v % p for v in pubs] + [v % p for v in privs]
    if [v % p for v in wt["values"]] != want_w:
        k = next((i for i, (a, b) in enumerate(zip(wt["values"], want_w)) if a % p != b), None)
        bad.append(("witness-decode", f"decoded witness differs from the recorded assignment at wire {k}"))
    def wire(k): return k if k >= 0 else len(pubs) - k
    want_c = [[[(wire(k), v % p) for k, v in l] for l in c] for c in cons]
    got_c = [[[(w, cf % p) for (w, cf) in l] for l in c] for c in r1["constraints"]]
    if got_c != want_c:
        bad.append(("constraint-decode", "decoded constraints differ from the traced constraints"))
    # satisfaction of decoded constraints by the decoded witness iff the recorded one satisfies the recorded ones
    def ev(l, w): return sum(c * w[i] for i, c in l if i < len(w)) % p
    rec_w = [1] + list(pubs) + list(privs)
    for ci, (dc, tc) in enumerate(zip(r1["constraints"], want_c)):
        if len(wt["values"]) != n: break
        sd = (ev(dc[0], wt["values"]) * ev(dc[1], wt["values"]) - ev(dc[2], wt["values"])) % p == 0
        sr = (ev(tc[0], rec_w) * ev(tc[1], rec_w) - ev(tc[2], rec_w)) % p == 0
        if sd != sr:
            bad.append(("satisfaction", f"constraint {ci}: decoded witness {'satisfies' if sd else 'does not satisfy'} it, recorded witness {'does' if sr else 'does not'}"))
            break
    return bad
