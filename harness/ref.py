"""Plain-Python reference semantics of the program language (oracle of C05 / C14 / C15 / C09).

For every register: a tagged plain value
  ("I", int)        integer or boolean secret / plain int
  ("Q", Fraction)   the number represented by a fixed-point value
  ("F", Fraction)   a plain float literal
  ("list", [...]) / ("tuple", [...]) / ("N",)
  ("RAISE",)        plain Python raises here, or the property demands a raise
  ("?",)            outside what the property specifies (not checked)
"""
from fractions import Fraction
import math

UNK = ("?",)
RAISE = ("RAISE",)


def floor_frac(q):
    return math.floor(q)


def trunc_frac(q):
    return int(q)      # Fraction.__trunc__ : toward zero


def parse_val(s):
    """canonical value string (canon.val_str / Proto.valStr) -> tagged plain value + kind letter"""
    if s == "N":
        return ("N",), "N"
    if s.startswith("["):
        return ("list", [parse_val(x) for x in split_top(s[1:-1])]), "list"
    if s.startswith("("):
        return ("tuple", [parse_val(x) for x in split_top(s[1:-1])]), "tuple"
    tag, rest = s.split(":", 1)
    if tag == "I":
        return ("I", int(rest)), "I"
    if tag == "F":
        n, d = rest.split("/")
        return ("F", Fraction(int(n), int(d))), "F"
    if tag in "LBX":
        v = int(rest.split(":", 1)[0])
        return (tag, v), tag
    raise ValueError(s)


def split_top(s):
    out = []; depth = 0; cur = ""
    for ch in s:
        if ch in "[(":
            depth += 1
        elif ch in "])":
            depth -= 1
        if ch == "," and depth == 0:
            out.append(cur); cur = ""
        else:
            cur += ch
    if cur != "":
        out.append(cur)
    return out


class Ref:
    def __init__(self, cfg):
        self.bl = cfg["bl"]; self.res = cfg["res"]; self.p = cfg["p"]
        self.regs = []          # tagged plain values
        self.kinds = []         # I F L B X list tuple N ?
        self.indomain = []      # bool: every value met so far by this register's computation fits the bitlength

    def scale(self):
        return 1 << self.res

    def fits(self, v):
        return abs(v) < (1 << max(self.bl - 1, 0)) or (self.bl >= 1 and v == 0)

    def step(self, ins):
        op = ins[0]
        R = self.regs; K = self.kinds
        def reg(t):
            return int(t[1:])
        if op == "lit":
            parts = ins[1].split(":")
            if parts[0] == "n":
                return ("N",), "N"
            if parts[0] == "i":
                return ("I", int(parts[1])), "I"
            return ("F", Fraction(int(parts[1]), 2 ** int(parts[2]))), "F"
        if op == "mk":
            v = R[reg(ins[2])]; k = ins[1]
            if k in ("priv", "pub", "const"):
                return (("I", v[1]), "L") if v[0] == "I" else (RAISE, "?")
            if k in ("privb", "pubb"):
                return (("I", v[1]), "B") if v[0] == "I" and v[1] in (0, 1) else (RAISE, "?")
            if v[0] == "I":
                return ("Q", Fraction(v[1])), "X"
            if v[0] == "F":
                return ("Q", Fraction(trunc_frac(v[1] * self.scale()), self.scale())), "X"
            return RAISE, "?"
        if op == "wrapb":
            v = R[reg(ins[1])]
            return (("I", v[1]), "B") if K[reg(ins[1])] == "L" and v[0] == "I" and v[1] in (0, 1) else (UNK, "?")
        if op == "wrapx":
            v = R[reg(ins[1])]
            return (("Q", Fraction(v[1])), "X") if K[reg(ins[1])] == "L" and v[0] == "I" else (UNK, "?")
        if op in ("bin", "iop"):
            # `iop`: augmented assignment on a second reference; values are immutable, so it is the plain binary operator
            return self.binop(ins[1], reg(ins[2]), reg(ins[3]))
        if op == "un":
            return self.unop(ins[1], reg(ins[2]))
        if op in ("ite", "fsel"):
            # `fsel`: selection between the results of two branch FUNCTIONS (or a function and a value); the register of the branch
            # that was not taken is unspecified (it was computed in a dead region), the one taken is the result
            c, t, f = reg(ins[1]), reg(ins[2]), reg(ins[3])
            cv = R[c]
            if cv[0] != "I" or cv[1] not in (0, 1) or K[c] not in ("B", "I"):
                return UNK, "?"
            pick = t if cv[1] else f
            kt, kf = K[t], K[f]
            if t == f or (kt == kf == "I" and R[t] == R[f] and R[t][0] == "I" and -5 <= R[t][1] <= 256):
                return R[t], kt      # `truev is falsev`: the operand itself is returned (same register; CPython's cached small ints)
            if kt == "list" or kf == "list":
                if kt == kf == "list" and len(R[t][1]) == len(R[f][1]):
                    return R[pick], "list"
                return UNK, "?"
            if "X" in (kt, kf):
                v = R[pick]
                if v[0] in ("I", "Q"):
                    return ("Q", Fraction(v[1])), "X"
                if v[0] == "F":
                    # a float branch is converted by add_scaling (truncation)
                    return ("Q", Fraction(trunc_frac(v[1] * self.scale()), self.scale())), "X"
                return UNK, "?"
            if R[pick][0] == "I":
                if kt == kf == "B":
                    return R[pick], "B"      # a selection between two booleans is a boolean (`LinCombBool(ret, False)`; a public 0/1 condition returns the branch itself)
                return R[pick], ("L" if (kt, kf) != ("I", "I") or K[c] != "I" else "I")
            return UNK, "?"
        if op == "list":
            return ("list", [(R[reg(t)], K[reg(t)]) for t in ins[1:]]), "list"
        if op == "idx":
            v = R[reg(ins[1])]
            if v[0] in ("list", "tuple"):
                try:
                    x = v[1][int(ins[2])]
                    return x[0], x[1]
                except IndexError:
                    return RAISE, "?"
            return UNK, "?"
        if op == "call":
            return self.call(ins[1], reg(ins[2]), [reg(t) for t in ins[3:]])
        if op == "arr":
            return ("list", [(R[reg(t)], K[reg(t)]) for t in ins[1:]]), "A"
        if op == "aget":
            a = R[reg(ins[1])]; i = R[reg(ins[2])]
            if a[0] == "list" and i[0] == "I":
                n = len(a[1])
                if K[reg(ins[2])] == "I":
                    if -n <= i[1] < n:
                        x = a[1][i[1]]
                        return x[0], x[1]
                    return RAISE, "?"
                if 0 <= i[1] < n:
                    x = a[1][i[1]]
                    return x[0], ("L" if x[1] in ("I", "L") else x[1])
                return RAISE, "?"
            return UNK, "?"
        if op == "aset":
            ai = reg(ins[1]); a = R[ai]; i = R[reg(ins[2])]; v = (R[reg(ins[3])], K[reg(ins[3])])
            if a[0] == "list" and i[0] == "I":
                n = len(a[1])
                secret = K[reg(ins[2])] != "I"
                if (not secret and -n <= i[1] < n) or (secret and 0 <= i[1] < n):
                    new = list(a[1])
                    if secret:
                        new = [(x[0], "L" if x[1] in ("I", "L") else x[1]) for x in new]
                        v = (v[0], "L" if v[1] in ("I", "L") else v[1])
                    new[i[1]] = v
                    R[ai] = ("list", new)
                    return ("N",), "N"
                return RAISE, "?"
            return UNK, "?"
        return ("N",), "N"

    # ---- integer / fixed point semantics
    def num(self, i):
        """(value as int or Fraction, 'int'|'fx'|None)"""
        v = self.regs[i]; k = self.kinds[i]
        if k in ("L", "B", "I") and v[0] == "I":
            return v[1], "int"
        if k == "X" and v[0] == "Q":
            return v[1], "fx"
        if k == "F" and v[0] == "F":
            return v[1], "flt"
        return None, None

    def binop(self, op, a, b):
        x, tx = self.num(a); y, ty = self.num(b)
        ka, kb = self.kinds[a], self.kinds[b]
        if tx is None or ty is None:
            return UNK, "?"
        if "fx" in (tx, ty):
            return self.binop_fx(op, x, tx, y, ty, ka, kb)
        if "flt" in (tx, ty):
            return UNK, "?"
        if ka == "I" and kb == "I":
            return UNK, "?"
        # integers / booleans
        def I(v, kind="L"):
            return ("I", v), kind
        try:
            if op == "add": return I(x + y)
            if op == "sub": return I(x - y)
            if op == "mul": return I(x * y)
            if op == "truediv":
                if y == 0 or x % y != 0:
                    return RAISE, "?"
                return I(x // y)
            if op == "floordiv": return I(x // y) if y != 0 else (RAISE, "?")
            if op == "mod": return I(x % y) if y != 0 else (RAISE, "?")
            if op == "divmod":
                if y == 0: return RAISE, "?"
                q, r = divmod(x, y)
                return ("tuple", [(("I", q), "L"), (("I", r), "L")]), "tuple"
            if op == "pow":
                if y < 0: return RAISE, "?"
                if y > 4096: return UNK, "?"
                return I(x ** y)
            if op == "lshift":
                if y < 0: return RAISE, "?"
                if y > 4096: return UNK, "?"
                return I(x << y)
            if op == "rshift":
                if y < 0: return RAISE, "?"
                return I(x >> y)
            if op in ("and", "xor", "or"):
                if x < 0 or y < 0: return UNK, "?"
                v = {"and": x & y, "xor": x ^ y, "or": x | y}[op]
                return I(v, "B" if "B" in (ka, kb) else "L")   # the boolean type absorbs: LinCombBool.__and__/__rand__ coerce the other operand
            if op in ("lt", "le", "eq", "ne", "gt", "ge"):
                v = {"lt": x < y, "le": x <= y, "eq": x == y, "ne": x != y, "gt": x > y, "ge": x >= y}[op]
                return I(int(v), "B")
        except (OverflowError, MemoryError):
            return UNK, "?"
        return UNK, "?"

    def binop_fx(self, op, x, tx, y, ty, ka, kb):
        s = self.scale()
        def conv(v, t):
            if t == "flt":
                return Fraction(trunc_frac(v * s), s)
            return Fraction(v)
        x = conv(x, tx); y = conv(y, ty)
        def Q(v):
            return ("Q", Fraction(v)), "X"
        if op == "add": return Q(x + y)
        if op == "sub": return Q(x - y)
        if op == "mul":
            # multiplication by integers (plain or secret, boolean) is exact; products of two fixed-point
            # numbers (or with a float, which is converted) are floor(a*b*2^r)/2^r
            if tx == "int" or ty == "int":
                return Q(x * y)
            return Q(Fraction(floor_frac(x * y * s), s))
        if op == "truediv":
            if y == 0: return RAISE, "?"
            return Q(Fraction(floor_frac(x / y * s), s))
        if op == "floordiv":
            if y == 0: return RAISE, "?"
            return Q(floor_frac(x / y))
        if op == "mod":
            if y == 0: return RAISE, "?"
            return Q(x - y * floor_frac(x / y))
        if op in ("lt", "le", "eq", "ne", "gt", "ge"):
            # the order of the represented numbers, whichever operand is the fixed-point one and whichever side it is on
            v = {"lt": x < y, "le": x <= y, "eq": x == y, "ne": x != y, "gt": x > y, "ge": x >= y}[op]
            return ("I", int(v)), "B"
        if op in ("lshift", "rshift") and tx == "fx" and ty == "int" and kb == "I":
            # a fixed-point value shifted by a plain int: a negative count raises, as for plain Python ints;
            # << multiplies the number by 2^n (exact), >> divides it by 2^n flooring to the grid 2^-r
            if y < 0: return RAISE, "?"
            if y > 4096: return UNK, "?"
            if op == "lshift": return Q(x * (1 << y))
            return Q(Fraction(floor_frac(x * s / (1 << y)), s))
        return UNK, "?"

    def unop(self, op, a):
        x, tx = self.num(a); ka = self.kinds[a]
        if tx == "int" and ka != "I":
            if op == "neg": return ("I", -x), "L"
            if op == "pos": return ("I", x), ka
            if op == "abs": return ("I", abs(x)), "L"
            if op == "invert":
                if ka == "B": return ("I", 1 - x), "B"
                if x < 0: return UNK, "?"
                return ("I", ~x), "L"
        if tx == "fx":
            if op == "neg": return ("Q", -x), "X"
            if op == "pos": return ("Q", x), "X"
            if op == "abs": return ("Q", abs(x)), "X"
        return UNK, "?"

    def call(self, m, a, args):
        x, tx = self.num(a); ka = self.kinds[a]
        if m == "val":
            if tx == "int" and ka in ("L", "B"):
                return ("I", x), "I"
            if tx == "fx":
                return ("F", x), "F"
            return UNK, "?"
        if m == "from_bits":
            v = self.regs[a]
            if v[0] == "list" and all(e[0][0] == "I" and e[0][1] in (0, 1) for e in v[1]):
                return ("I", sum(e[0][1] << i for i, e in enumerate(v[1]))), ("L" if v[1] else "I")
            return UNK, "?"
        if m == "to_bits" and tx == "int" and ka == "L":
            n = self.bl
            if args:
                nv = self.regs[args[0]]
                if nv[0] != "I" or nv[1] < 0: return UNK, "?"
                n = nv[1]
            if x < 0 or x.bit_length() > n:
                return RAISE, "?"
            return ("list", [(("I", (x >> i) & 1), "B") for i in range(n)]), "list"
        if m in ("check_positive", "check_zero", "check_nonzero") and tx in ("int", "fx"):
            if m == "check_zero": return ("I", int(x == 0)), "B"
            if m == "check_nonzero": return ("I", int(x != 0)), "B"
            return UNK, "B"     # check_positive: defined relative to a width; checked by C03/C16, not here
        if m == "if_else" and tx == "int" and x in (0, 1) and len(args) == 2:
            t, f = args
            pick = t if x else f
            if self.kinds[t] in ("L", "I", "B") and self.kinds[f] in ("L", "I", "B") and self.regs[pick][0] == "I":
                return self.regs[pick], "L"
            return UNK, "?"
        return UNK, "N" if m.startswith("assert") else "?"

    def run(self, instrs):
        """guarded regions (`genter rK` ... `gleave`): inside a region whose condition is not the value 1 nothing is
        specified (the region is dead: its values are dummies), so every register computed there is `?`; the same holds
        between `set ign 1` and `set ign 0` (error checking switched off through pysnark.runtime.ignore_errors): once it is
        on again the reference is plain Python again"""
        dead = []
        ign = False
        intry = 0
        for ins in instrs:
            if ins and ins[0] == "set" and len(ins) == 3 and ins[1] == "ign":
                ign = ins[2] != "0"
                self.regs.append(("N",)); self.kinds.append("N")
                continue
            if ins and ins[0] in ("tbegin", "tend"):
                # `try: ... except Exception: pass`: what the block computes before something in it raises is not specified
                # (registers of instructions that did not complete are None); everything after the block is plain Python again
                intry += 1 if ins[0] == "tbegin" else -1
                self.regs.append(("N",)); self.kinds.append("N")
                continue
            if ins and ins[0] in ("genter", "fthen", "felse"):
                # fthen c / felse ~c: the body of a branch function of `if_then_else(c, f, g)`, a region guarded by c / by ~c
                try:
                    c = self.regs[int(ins[1][1:])]
                    dead.append(not (c[0] == "I" and c[1] == 1))
                except Exception:
                    dead.append(True)
                self.regs.append(("N",)); self.kinds.append("N")
                continue
            if ins and ins[0] in ("gleave", "fmid", "fleave"):
                if dead: dead.pop()
                self.regs.append(("N",)); self.kinds.append("N")
                continue
            if any(dead) or ign or intry > 0:
                self.regs.append(UNK); self.kinds.append("?")
                continue
            try:
                v, k = self.step(ins)
            except Exception:
                v, k = UNK, "?"
            self.regs.append(v); self.kinds.append(k)
        return self.regs, self.kinds


def compare(refv, refk, got):
    """refv/refk from Ref, got = canonical string of the implementation's register.
    returns None (agree / not specified) or a short description of the deviation."""
    if refv[0] in ("?", "RAISE"):
        return None
    g, gk = parse_val(got)
    if refv[0] == "N":
        return None
    if refv[0] == "I":
        if g[0] in ("I", "L", "B") and g[1] == refv[1]:
            return None
        if g[0] == "X":
            return None     # representation checked by C14's oracle, not here
        if g[0] in ("I", "L", "B"):
            return f"expected {refv[1]}, got {g[1]}"
        return f"expected int {refv[1]}, got {got[:60]}"
    if refv[0] == "Q":
        return None         # needs the resolution: see compare_fx
    if refv[0] == "F":
        if g[0] == "F" and g[1] == refv[1]:
            return None
        if abs(refv[1].numerator) >= (1 << 53) or abs(refv[1].denominator) >= (1 << 53):
            return None     # a revealed fixed-point value is a Python float: exact only below 2^53 (stated in the trusted base)
        if g[0] == "F":
            return f"expected {refv[1]}, got {g[1]}"
        return None
    if refv[0] in ("list", "tuple"):
        if g[0] not in ("list", "tuple") or len(g[1]) != len(refv[1]):
            return f"expected sequence of {len(refv[1])}"
        parts = split_top(got[1:-1])
        for (rv, rk), gs in zip(refv[1], parts):
            d = compare(rv, rk, gs)
            if d:
                return d
        return None
    return None


def compare_fx(refv, got, res):
    """fixed point: representation must equal refv * 2^res exactly"""
    if refv[0] != "Q":
        return None
    g, gk = parse_val(got)
    if g[0] != "X":
        return f"expected fixed-point value, got {got[:40]}"
    want = refv[1] * (1 << res)
    if want.denominator != 1:
        return None     # not representable: outside the statement
    if g[1] != want.numerator:
        return f"expected representation {want.numerator}, got {g[1]}"
    return None
