"""Small finite-field witness-space search (the failing-input search of C02/C03/C15/C16).

Given an R1CS (constraints over wires with dict linear combinations), a partial assignment of the
wires that existed before an operation, and the wires the operation introduced, enumerate ALL
assignments of the new wires that satisfy the constraints the operation emitted, over a small prime.
Complete (exhaustive) whenever it returns without hitting the node limit.
"""
import re


def parse_lc(s):
    """canonical LC string 'w3*2+1*-1+x1*5' -> {wire: coeff}; '0' -> {}"""
    if s == "0":
        return {}
    out = {}
    for t in s.split("+"):
        w, c = t.split("*")
        out[w] = int(c)
    return out


def parse_cons(lst):
    res = []
    for c in lst:
        a, rest = c.split(" @ ")
        b, cc = rest.split(" = ")
        res.append((parse_lc(a), parse_lc(b), parse_lc(cc)))
    return res


class Limit(Exception):
    pass


def ev(lc, asg, p):
    s = 0
    for w, c in lc.items():
        s += c * asg[w]
    return s % p


def solve(cons, fixed, unknown, p, limit=400000):
    """yield every assignment (dict) of `unknown` wires satisfying all `cons`, given `fixed`.
    raises Limit if more than `limit` nodes are visited (then the search is NOT complete)."""
    asg = dict(fixed)
    asg["1"] = 1
    wires_of = [set(a) | set(b) | set(c) for (a, b, c) in cons]
    unknown = list(unknown)
    boolean = set()
    for (a, b, c) in cons:
        # booleanity constraint: w * (1 - w) = 0
        if len(a) == 1 and not c:
            (w, ca), = a.items()
            if w in unknown and set(b) <= {w, "1"} and b.get(w, 0) % p == (-ca * b.get("1", 0)) % p and b.get("1", 0) % p != 0:
                boolean.add(w)
    nodes = [0]

    def check_ready(assigned):
        for i, (a, b, c) in enumerate(cons):
            if wires_of[i] <= assigned:
                if (ev(a, asg, p) * ev(b, asg, p) - ev(c, asg, p)) % p != 0:
                    return False
        return True

    def domain(w, assigned):
        # try to solve w from a constraint in which it is the only unknown and occurs linearly
        for i, (a, b, c) in enumerate(cons):
            if w in wires_of[i] and wires_of[i] - assigned == {w}:
                ina, inb, inc = w in a, w in b, w in c
                if ina + inb == 2:
                    continue        # quadratic in w
                # evaluate with w = 0 and w = 1 to get the affine form  f(w) = f0 + (f1 - f0) w
                asg[w] = 0
                f0 = (ev(a, asg, p) * ev(b, asg, p) - ev(c, asg, p)) % p
                asg[w] = 1
                f1 = (ev(a, asg, p) * ev(b, asg, p) - ev(c, asg, p)) % p
                del asg[w]
                k = (f1 - f0) % p
                if k == 0:
                    if f0 != 0:
                        return []
                    continue        # no information
                return [(-f0 * pow(k, p - 2, p)) % p]
        if w in boolean:
            return [0, 1]
        return range(p)

    def rec(idx, assigned):
        nodes[0] += 1
        if nodes[0] > limit:
            raise Limit()
        if idx == len(unknown):
            yield {w: asg[w] for w in unknown}
            return
        w = unknown[idx]
        for v in domain(w, assigned):
            asg[w] = v
            na = assigned | {w}
            if check_ready(na):
                yield from rec(idx + 1, na)
            asg.pop(w, None)

    start = set(asg)
    if not check_ready(start):
        return
    yield from rec(0, start)


def components(cons, unknown):
    """partition the unknown wires (and the constraints mentioning them) into connected components; returns
    (list of (wires, constraint indices), indices of constraints without unknown wire)"""
    unk = set(unknown)
    parent = {w: w for w in unknown}

    def find(w):
        while parent[w] != w:
            parent[w] = parent[parent[w]]
            w = parent[w]
        return w
    touch = []
    for (a, b, c) in cons:
        ws = [w for w in (set(a) | set(b) | set(c)) if w in unk]
        touch.append(ws)
        for w in ws[1:]:
            ra, rb = find(ws[0]), find(w)
            if ra != rb:
                parent[ra] = rb
    groups = {}
    for w in unknown:
        groups.setdefault(find(w), ([], []))[0].append(w)
    closed = []
    for i, ws in enumerate(touch):
        if ws:
            groups[find(ws[0])][1].append(i)
        else:
            closed.append(i)
    return list(groups.values()), closed


def satisfiable(cons, fixed, unknown, p, hint=None, limit=400000):
    """is there an assignment of `unknown` satisfying all `cons` given `fixed`?  Complete: the system is split into the
    connected components of its unknown wires (satisfiable iff every component is); for each component the recorded
    assignment `hint` is tried first and the exhaustive search runs only where it fails.  Raises Limit like `solve`."""
    asg0 = dict(fixed); asg0["1"] = 1
    comps, closed = components(cons, unknown)
    for i in closed:
        a, b, c = cons[i]
        if (ev(a, asg0, p) * ev(b, asg0, p) - ev(c, asg0, p)) % p != 0:
            return False
    for wires, idx in comps:
        sub = [cons[i] for i in idx]
        if hint is not None and all(w in hint for w in wires):
            asg = dict(asg0)
            for w in wires:
                asg[w] = hint[w] % p
            if all((ev(a, asg, p) * ev(b, asg, p) - ev(c, asg, p)) % p == 0 for (a, b, c) in sub):
                continue
        found = False
        for _ in solve(sub, fixed, wires, p, limit=limit):
            found = True
            break
        if not found:
            return False
    return True


def forge(cons, honest, locked, results, p, max_candidates=800, max_steps=60):
    """Forgery search for LARGE fields and widths, where the witness space cannot be enumerated: starting from the honest
    assignment `honest` (wire -> value, all constraints hold), change ONE free wire (a 0/1 wire is flipped, any other is
    incremented) and repair the rest by single-unknown solving: every constraint the change violates is solved for a wire
    that has not been touched yet, is not `locked` (operands, public wires, the constant) and occurs linearly in it; this
    may violate further constraints, which are repaired the same way.  A repaired assignment satisfies EVERY constraint (it
    is re-checked in full); it is a forgery if one of the `results` (list of LC dicts) evaluates to another value than on
    the honest assignment.  Returns (changed wire, {wire: new value for every wire that differs}, new result values) or None.
    Sound (a returned forgery is a genuine second witness), not complete."""
    wires_of = [set(a) | set(b) | set(c) for (a, b, c) in cons]
    occ = {}
    for i, ws in enumerate(wires_of):
        for w in ws:
            occ.setdefault(w, []).append(i)
    want = [ev(r, honest, p) for r in results]

    def holds(i, asg):
        a, b, c = cons[i]
        return (ev(a, asg, p) * ev(b, asg, p) - ev(c, asg, p)) % p == 0

    def order(w):
        # most recently allocated private wire first
        return -int(w[1:]) if w[0] == "w" else 0
    free = [w for w in honest if w not in locked and w != "1" and w[0] == "w"]
    if len(free) > max_candidates:
        step = len(free) / max_candidates
        free = [free[int(k * step)] for k in range(max_candidates)]
    for u in free:
        asg = dict(honest)
        asg[u] = (1 - asg[u]) % p if asg[u] in (0, 1) else (asg[u] + 1) % p
        touched = {u}
        bad = [i for i in occ.get(u, []) if not holds(i, asg)]
        ok = True
        steps = 0
        while bad:
            steps += 1
            if steps > max_steps:
                ok = False; break
            i = bad[0]
            a, b, c = cons[i]
            fixed_one = False
            for k in sorted((w for w in wires_of[i] if w not in touched and w not in locked and w != "1"), key=order):
                if (a.get(k, 0) * b.get(k, 0)) % p != 0:
                    continue                    # quadratic in k
                old = asg[k]
                asg[k] = 0; f0 = (ev(a, asg, p) * ev(b, asg, p) - ev(c, asg, p)) % p
                asg[k] = 1; f1 = (ev(a, asg, p) * ev(b, asg, p) - ev(c, asg, p)) % p
                kk = (f1 - f0) % p
                if kk == 0:
                    asg[k] = old
                    continue
                asg[k] = (-f0 * pow(kk, p - 2, p)) % p
                touched.add(k)
                fixed_one = True
                bad = [j for j in dict.fromkeys(bad + occ.get(k, [])) if not holds(j, asg)]
                break
            if not fixed_one:
                ok = False; break
        if not ok:
            continue
        got = [ev(r, asg, p) for r in results]
        if got != want and all(holds(i, asg) for i in range(len(cons))):
            return u, {w: asg[w] for w in touched if asg[w] != honest[w]}, got
    return None
