"""Source map: which functions of /repo each property's model is a transcription of, with a hash of each
function's normalised AST at the commit the model was last validated against (srcmap.json, committed).

Used on every run: the hashes are recomputed from /repo's working tree.  A changed (or vanished) function is
NOT a violation — it is a harmless-or-not rewrite of code the model mirrors — but it directs the run: the check
explores with the extended (thorough-size) generator, so that a change to modelled code is always met with the
deepest search the check has, whether or not the quick-size correspondence happens to notice it.  The changed
functions are listed in the evidence.

`python -m harness.srcmap --update` rewrites srcmap.json from the current tree (development aid; done after a
`fix:` commit once the model has been brought in line).
"""
import ast, hashlib, json, os, sys

from . import common

RT = "pysnark/runtime.py"
BO = "pysnark/boolean.py"
FX = "pysnark/fixedpoint.py"
BR = "pysnark/branching.py"
AR = "pysnark/array.py"
LA = "pysnark/linalg.py"
PK = "pysnark/pack.py"
SJ = "pysnark/snarkjsbackend.py"
ZK = "pysnark/zkinterface/backend.py"
ZB = "pysnark/zkinterface/backendbellman.py"
ZP = "pysnark/zkinterface/backendbulletproofs.py"
QT = "pysnark/qaptools/backend.py"
QS = "pysnark/qaptools/qapsplit.py"
QC = "pysnark/qaptools/schedule.py"
QO = "pysnark/qaptools/options.py"
AX = "pysnark/atexitmaybe.py"
PH = "pysnark/poseidon_hash.py"
PC = "pysnark/poseidon_constants.py"
GG = "pysnark/ggh_hash.py"
GM = "pysnark/gmpy.py"
NB = "pysnark/nobackend.py"
LI = "pysnark/libsnark/__init__.py"
LS = "pysnark/libsnark/backend.py"          # driven in C19 through the recording stand-in harness/stubs/libsnark (not libsnark itself)
LG = "pysnark/libsnark/backendgg.py"
LT = "pysnark/libsnark/tosnarkjsgg.py"

ALL = "*"      # every function and the module body of the file

CORE = [(RT, ALL), (BO, ALL)]
# property -> list of (file, qualified name or ALL)
ANCHORS = {
    "C01": CORE + [(FX, ALL), (BR, "if_then_else"), (AR, ALL), (LA, ALL), (SJ, ALL), (ZK, ALL), (ZB, ALL), (ZP, ALL), (GM, ALL)],
    "C02": CORE + [(FX, ALL), (BR, "if_then_else"), (AR, ALL), (LA, ALL)],
    "C03": CORE + [(PK, ALL)],
    "C04": CORE + [(FX, ALL), (BR, "if_then_else"), (AR, ALL), (LA, ALL), (SJ, ALL), (ZK, ALL), (ZB, ALL), (ZP, ALL), (GM, ALL)],
    "C05": CORE + [(BR, "if_then_else")],
    "C06": CORE + [(FX, ALL), (BR, "if_then_else"), (AR, ALL), (LA, ALL)],
    "C07": CORE + [(BR, "if_then_else")],
    "C08": CORE + [(BR, ALL)],
    "C09": CORE + [(BR, ALL), (FX, ALL)],
    "C10": [(SJ, ALL)],
    "C11": [(ZK, ALL), (ZB, ALL), (ZP, ALL)],
    "C12": [(QT, ALL), (QS, ALL), (QC, ALL), (QO, ALL)],
    "C13": [(SJ, ALL), (ZK, ALL), (ZB, ALL), (ZP, ALL), (QT, ALL), (GM, ALL), (NB, ALL)],
    "C14": CORE + [(FX, ALL)],
    "C15": CORE + [(AR, ALL), (LA, ALL)],
    "C16": CORE + [(PK, ALL)],
    "C17": CORE + [(FX, ALL)],
    "C18": [(AX, ALL), (RT, "final"), (RT, "<module>"), (SJ, "prove"), (ZK, "prove"), (QT, "prove")],
    "C19": [(RT, "<module>"), (ZB, ALL), (ZP, ALL), (NB, ALL), (LI, ALL), (LS, ALL), (LG, ALL), (LT, ALL)],
    "C20": CORE + [(PH, ALL), (PC, "<module>"), (GG, ALL), (RT, "<module>")],
}


def _norm(node):
    """AST dump without positions and without docstrings"""
    for n in ast.walk(node):
        body = getattr(n, "body", None)
        if isinstance(body, list) and body and isinstance(body[0], ast.Expr) and isinstance(getattr(body[0], "value", None), ast.Constant) \
                and isinstance(body[0].value.value, str) and isinstance(n, (ast.FunctionDef, ast.ClassDef, ast.Module, ast.AsyncFunctionDef)):
            n.body = body[1:] or [ast.Pass()]
    return ast.dump(node, annotate_fields=False, include_attributes=False)


def functions_of(rel):
    """{qualified name: hash} for every function/method of the file, plus '<module>' = module-level statements"""
    path = os.path.join(common.REPO, rel)
    try:
        tree = ast.parse(open(path).read())
    except (OSError, SyntaxError) as e:
        return {"<unreadable>": str(e)[:80]}
    out = {}

    def visit(node, prefix):
        rest = []
        for ch in node.body:
            if isinstance(ch, (ast.FunctionDef, ast.AsyncFunctionDef)):
                q = prefix + ch.name
                k = q
                i = 1
                while k in out:          # redefinitions (e.g. property setters): keep each
                    i += 1; k = f"{q}#{i}"
                out[k] = hashlib.sha256(_norm(ch).encode()).hexdigest()[:16]
            elif isinstance(ch, ast.ClassDef):
                visit(ch, prefix + ch.name + ".")
                rest.append(ast.dump(ast.ClassDef(name=ch.name, bases=ch.bases, keywords=ch.keywords, body=[], decorator_list=ch.decorator_list),
                                     annotate_fields=False, include_attributes=False))
            else:
                rest.append(_norm(ch))
        out[prefix + "<module>" if prefix == "" else prefix + "<class-body>"] = hashlib.sha256("\n".join(rest).encode()).hexdigest()[:16]
    visit(tree, "")
    return out


def current(pid):
    """{file::name: hash} for the property's anchors"""
    res = {}
    cache = {}
    for rel, name in ANCHORS.get(pid, []):
        fs = cache.setdefault(rel, functions_of(rel))
        if name == ALL:
            for k, h in fs.items():
                res[f"{rel}::{k}"] = h
        else:
            hit = {k: h for k, h in fs.items() if k == name or k.endswith("." + name) or k.split("#")[0] == name}
            if not hit:
                res[f"{rel}::{name}"] = "<missing>"
            for k, h in hit.items():
                res[f"{rel}::{k}"] = h
    return res


def baseline_path():
    return os.path.join(common.VERIF, "srcmap.json")


def _belongs(pid, key):
    rel, name = key.split("::", 1)
    for arel, aname in ANCHORS.get(pid, []):
        if arel == rel and (aname == ALL or name == aname or name.endswith("." + aname) or name.split("#")[0] == aname):
            return True
    return False


def changed(pid):
    """functions of the property's anchors whose normalised AST differs from the recorded baseline (added, removed, edited)"""
    try:
        allbase = json.load(open(baseline_path()))
    except (OSError, ValueError):
        return ["<no baseline: srcmap.json missing>"]
    base = {k: v for k, v in allbase.items() if _belongs(pid, k)}
    cur = current(pid)
    out = []
    for k in sorted(set(base) | set(cur)):
        if base.get(k) != cur.get(k):
            out.append(k + (" (removed)" if k not in cur else " (added)" if k not in base else ""))
    return out


def update():
    data = {}
    for pid in sorted(ANCHORS):
        data.update(current(pid))
    json.dump(data, open(baseline_path(), "w"), indent=0, sort_keys=True)
    return len(data)


if __name__ == "__main__":
    if "--update" in sys.argv:
        print(update())
    else:
        for pid in sorted(ANCHORS):
            print(pid, changed(pid))
