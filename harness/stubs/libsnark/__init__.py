"""Recording STAND-IN for the python-libsnark extension package (which is not installed in this sandbox).

This is NOT libsnark: no key, proof or verification is computed.  It exists so that pysnark/libsnark/backend.py and
backendgg.py can be imported and driven by the C19 (and C13) checks, and so that WHICH entry points they drive can be
observed.  It is put on PYTHONPATH only inside those checks' child interpreters (harness/props/c19.py)."""
