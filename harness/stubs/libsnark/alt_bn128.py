"""Stand-in for `libsnark.alt_bn128`: exactly the names pysnark/libsnark/backend.py uses.

* protoboard / variables / linear combinations / R1CS constraints are kept as plain Python data and can be evaluated
  (`is_satisfied`), so the backend's bookkeeping (wire numbering, public/private split, the no-op constraint) is real;
* the proof-system entry points come in two families, `zk_*` (Pinocchio, "r1cs_ppzksnark") and `zkgg_*` (Groth16,
  "r1cs_gg_ppzksnark").  Each call appends one JSON line {"fn": <entry point>, "system": <family>} to the file named by
  LIBSNARK_STUB_LOG (default ./libsnark_stub_calls.jsonl); keys and proofs are small dicts tagged with the family that
  made them, and that tag is what the write/read helpers put into the files.
Nothing here is cryptography."""
import json, os

MODULUS = 21888242871839275222246405745257275088548364400416034343698204186575808495617     # alt_bn128 group order


def _log(fn, system, **kw):
    with open(os.environ.get("LIBSNARK_STUB_LOG", "libsnark_stub_calls.jsonl"), "a") as f:
        f.write(json.dumps(dict(fn=fn, system=system, **kw)) + "\n")


def get_modulus():
    return MODULUS


def fieldinverse(val):
    return pow(val % MODULUS, MODULUS - 2, MODULUS)


class PbVariable:
    def __init__(self):
        self.index = None

    def allocate(self, pb):
        pb.nvars += 1
        self.index = pb.nvars


class LinearCombination:
    """terms: {variable index (0 = the constant one): coefficient}"""

    def __init__(self, arg=None):
        if arg is None:
            self.terms = {}
        elif isinstance(arg, PbVariable):
            self.terms = {arg.index: 1}
        elif isinstance(arg, int):
            self.terms = {0: arg}
        else:
            raise TypeError("LinearCombination(%r)" % (arg,))

    @staticmethod
    def _of(terms):
        r = LinearCombination()
        r.terms = terms
        return r

    def __add__(self, other):
        if not isinstance(other, LinearCombination): return NotImplemented
        t = dict(self.terms)
        for k, v in other.terms.items():
            t[k] = t.get(k, 0) + v
        return LinearCombination._of(t)

    def __sub__(self, other):
        if not isinstance(other, LinearCombination): return NotImplemented
        return self + (-other)

    def __neg__(self):
        return self * -1

    def __mul__(self, c):
        if not isinstance(c, int): return NotImplemented
        return LinearCombination._of({k: v * c for k, v in self.terms.items()})

    def evaluate(self, vals):
        return sum(c * (1 if k == 0 else vals[k]) for k, c in self.terms.items()) % MODULUS


class R1csConstraint:
    def __init__(self, a, b, c):
        self.a, self.b, self.c = a, b, c


class _Vector:
    def __init__(self, items):
        self.items = list(items)

    def size(self):
        return len(self.items)

    def at(self, i):
        return self.items[i] % MODULUS


class ProtoboardPub:
    def __init__(self):
        self.nvars = 0
        self.vals = {}
        self.public = []
        self.constraints = []

    def setval(self, pbv, val):
        self.vals[pbv.index] = val

    def setpublic(self, pbv):
        self.public.append(pbv.index)

    def add_r1cs_constraint(self, c):
        self.constraints.append(c)

    def num_constraints(self):
        return len(self.constraints)

    def is_satisfied(self):
        return all((c.a.evaluate(self.vals) * c.b.evaluate(self.vals) - c.c.evaluate(self.vals)) % MODULUS == 0 for c in self.constraints)

    def get_constraint_system_pubs(self):
        return self

    def primary_input_pubs(self):
        return _Vector(self.vals[i] for i in self.public)

    def auxiliary_input_pubs(self):
        return _Vector(self.vals[i] for i in range(1, self.nvars + 1) if i not in self.public)


class _Tagged(dict):
    """a key or proof: a dict tagged with the proof system that made it; `write(file)` as the extension's objects have"""

    def write(self, f):
        json.dump(self, f)


class _Keypair:
    def __init__(self, system, ncons):
        self.pk = _Tagged(kind="pk", system=system, constraints=ncons)
        self.vk = _Tagged(kind="vk", system=system, constraints=ncons)


def _family(system, prefix):
    def read_key(fname, cs):
        _log(prefix + "read_key", system)
        try:
            pk = json.load(open(fname))
        except (OSError, ValueError):
            return None
        if pk.get("system") != system or pk.get("constraints") != cs.num_constraints():
            return None                               # "computation changed"
        kp = _Keypair(system, cs.num_constraints())
        return kp

    def generator(cs):
        _log(prefix + "generator", system, constraints=cs.num_constraints())
        return _Keypair(system, cs.num_constraints())

    def write_keys(keypair, vkfile, ekfile):
        _log(prefix + "write_keys", system, key_system=keypair.vk.get("system"))
        json.dump(keypair.vk, open(vkfile, "w"))
        json.dump(keypair.pk, open(ekfile, "w"))

    def prover(pk, pubvals, privvals):
        _log(prefix + "prover", system, key_system=pk.get("system"), io=pubvals.size(), witness=privvals.size())
        return _Tagged(kind="proof", system=system, key_system=pk.get("system"))

    def verifier_strong_IC(vk, pubvals, proof):
        _log(prefix + "verifier_strong_IC", system, key_system=vk.get("system"), proof_system=proof.get("system"))
        return vk.get("system") == system and proof.get("system") == system

    def write_proof(proof, pubvals, fname):
        _log(prefix + "write_proof", system, proof_system=proof.get("system"))
        json.dump({"proof": proof, "pubvals": [pubvals.at(i) for i in range(pubvals.size())]}, open(fname, "w"))

    return read_key, generator, write_keys, prover, verifier_strong_IC, write_proof


zk_read_key, zk_generator, zk_write_keys, zk_prover, zk_verifier_strong_IC, zk_write_proof = _family("pinocchio", "zk_")
zkgg_read_key, zkgg_generator, zkgg_write_keys, zkgg_prover, zkgg_verifier_strong_IC, zkgg_write_proof = _family("groth16", "zkgg_")


def ZKProvingKey_read(f):
    return _Tagged(json.load(f))


def ZKVerificationKey_read(f):
    return _Tagged(json.load(f))


def ZKProof_read(f):
    return _Tagged(json.load(f))
