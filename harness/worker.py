"""Worker: interprets case lines against the REAL pysnark (imported from /repo's working tree).

Started by the harness with the environment that makes pysnark's own selection code pick the
wanted backend, and with a scratch directory as cwd.  One case per stdin line, one result line
per case on stdout.  Protocol: see lean/PysnarkModel/Driver/Proto.lean.
"""
import sys, os, operator, warnings, traceback
from fractions import Fraction

warnings.simplefilter("ignore")
try:
    sys.set_int_max_str_digits(0)
except AttributeError:
    pass
try:
    import resource
    _lim = int(os.environ.get("VERIF_WORKER_MEM", str(3 << 30)))
    resource.setrlimit(resource.RLIMIT_AS, (_lim, _lim))   # a runaway case raises MemoryError instead of being OOM-killed
except Exception:
    pass
sys.path.insert(0, os.path.dirname(os.path.abspath(__file__)))
import canon

import pysnark.runtime as R
R.autoprove = False
from pysnark.runtime import LinComb, PrivVal, PubVal, ConstVal, add_guard, restore_guard, guarded
import pysnark.boolean as Bm
from pysnark.boolean import LinCombBool, PrivValBool, PubValBool
import pysnark.fixedpoint as Fm
from pysnark.fixedpoint import LinCombFxp, PrivValFxp, PubValFxp
from pysnark.branching import if_then_else
from pysnark.array import Array

B = R.backend
CLASSES = (LinComb, LinCombBool, LinCombFxp, Array)
DEFAULT_P = B.get_modulus()


def set_modulus(p):
    name = B.__name__
    if name == "pysnark.snarkjsbackend":
        B.snarkjsp = p
    elif name.startswith("pysnark.zkinterface"):
        import pysnark.zkinterface.backend as zb
        zb.set_modulus(p)
    elif p != B.get_modulus():
        raise RuntimeError("cannot set modulus on " + name)


def reset(cfg):
    B.privvals.clear(); B.pubvals.clear(); B.constraints.clear()
    R.guard = None
    R._ignore_errors = bool(cfg.get("ign", 0))
    LinComb.ONE = LinComb.ONE_SAFE
    R.bitlength = cfg.get("bl", 16)
    Fm.resolution = cfg.get("res", 8)
    if cfg.get("p", DEFAULT_P) != B.get_modulus():
        set_modulus(cfg.get("p", DEFAULT_P))


def dirty_state():
    """what the previous case left behind (C08's subject)"""
    return (R.guard is not None, R._ignore_errors, LinComb.ONE is not LinComb.ONE_SAFE)


def ev(lc, p):
    s = 0
    for k, v in lc.lc.items():
        x = 1 if k == 0 else (B.pubvals[k - 1] if k > 0 else B.privvals[-k - 1])
        s += v * x
    return s % p


BIN = {
    "add": operator.add, "sub": operator.sub, "mul": operator.mul, "truediv": operator.truediv,
    "floordiv": operator.floordiv, "mod": operator.mod, "divmod": divmod, "pow": operator.pow,
    "lshift": operator.lshift, "rshift": operator.rshift, "and": operator.and_, "xor": operator.xor,
    "or": operator.or_, "lt": operator.lt, "le": operator.le, "eq": operator.eq, "ne": operator.ne,
    "gt": operator.gt, "ge": operator.ge,
}
IOP = {"add": operator.iadd, "sub": operator.isub, "mul": operator.imul, "truediv": operator.itruediv,
       "floordiv": operator.ifloordiv, "mod": operator.imod, "pow": operator.ipow, "lshift": operator.ilshift,
       "rshift": operator.irshift, "and": operator.iand, "xor": operator.ixor, "or": operator.ior}
UN = {"neg": operator.neg, "pos": operator.pos, "abs": abs, "invert": operator.invert}
MK = {"priv": PrivVal, "pub": PubVal, "const": ConstVal, "privb": PrivValBool, "pubb": PubValBool,
      "privx": PrivValFxp, "pubx": PubValFxp}


def lit(tok):
    parts = tok.split(":")
    if parts[0] == "n":
        return None
    if parts[0] == "i":
        return int(parts[1])
    if parts[0] == "f":
        return float(Fraction(int(parts[1]), 2 ** int(parts[2])))
    raise ValueError(tok)


def reg(tok):
    return int(tok[1:])


class Interp:
    def __init__(self, instrs):
        self.instrs = instrs
        self.regs = []
        self.err = None
        self.nc = []        # number of constraints / private wires after each instruction
        self.caught = []    # exceptions caught by `tbegin`..`tend` ("instr:class")
        self.mutated = []   # `iop` instructions after which the receiver's ORIGINAL register shows another value ("instr:register")
        self.p = 0

    OPEN = ("genter", "fthen", "felse", "tbegin")
    CLOSE = ("gleave", "fmid", "fleave", "tend")

    def match_leave(self, start):
        """index of the marker that closes the region opened at `start` (regions of every kind nest properly)"""
        depth = 0
        for j in range(start, len(self.instrs)):
            op = self.instrs[j][0]
            if op in self.OPEN:
                depth += 1
            elif op in self.CLOSE:
                depth -= 1
                if depth == 0:
                    return j
        raise ValueError("unbalanced " + self.instrs[start][0])

    def push(self, v):
        self.regs.append(v)
        self.nc.append((len(B.constraints), len(B.privvals)))

    def selection(self, k):
        """A selection whose branches are FUNCTIONS, run through the library's own `if_then_else(c, f, g)`:
             fthen rC; <then body>; fmid; un invert rC; felse rN; <else body>; fleave; fsel rC rT rE     both branches functions
             fthen rC; <then body>; fmid; fsel rC rT rE                                                   else branch a value
             felse rN; <else body>; fleave; fsel rC rT rE     (rN = `un invert rC`, executed before)      then branch a value
        Written so that the model can read it as `genter c; ..; gleave; ~c; genter ~c; ..; gleave; ite c t e` instruction by instruction:
        the registers of the markers are None, the register of `un invert rC` inside the construct is a second `~cond` (the library
        computes its own; `~` of a boolean costs no wire and no constraint).  Returns the index of the closing `fsel`."""
        ins = self.instrs
        tlo = thi = elo = ehi = inv = None
        if ins[k][0] == "fthen":
            tlo, thi = k, self.match_leave(k)
            j = thi + 1
            if j + 1 < len(ins) and ins[j][:2] == ["un", "invert"] and ins[j + 1][0] == "felse":
                inv = j; elo = j + 1; ehi = self.match_leave(elo); j = ehi + 1
        else:
            elo, ehi = k, self.match_leave(k); j = ehi + 1
        if j >= len(ins) or ins[j][0] != "fsel":
            raise ValueError("selection without fsel")
        sel = ins[j]
        cond = self.regs[reg(sel[1])]

        def then_fn():
            self.pos = tlo; self.push(None)
            self.run_range(tlo + 1, thi)
            self.pos = thi; self.push(None)
            if elo is None:
                self.pos = j            # what fails from here on fails in the selection itself
            return self.regs[reg(sel[2])]

        def else_fn():
            if inv is not None:
                self.pos = inv; self.push(~self.regs[reg(ins[inv][2])])
            self.pos = elo; self.push(None)
            self.run_range(elo + 1, ehi)
            self.pos = ehi; self.push(None)
            self.pos = j
            return self.regs[reg(sel[3])]
        self.pos = k
        tv = then_fn if tlo is not None else self.regs[reg(sel[2])]
        fv = else_fn if elo is not None else self.regs[reg(sel[3])]
        res = if_then_else(cond, tv, fv)
        self.pos = j
        self.push(res)
        return j

    def run_range(self, lo, hi):
        k = lo
        while k < hi:
            ins = self.instrs[k]
            if ins[0] == "genter":
                end = self.match_leave(k)
                cond = self.regs[reg(ins[1])]
                # the region's instructions run inside the REAL `guarded` wrapper
                self.pos = k
                inner = {"entered": False}
                def body(k=k, end=end):
                    inner["entered"] = True
                    self.regs.append(None)
                    self.nc.append((len(B.constraints), len(B.privvals)))
                    self.run_range(k + 1, end)
                guarded(cond)(body)()
                self.regs.append(None)      # register of gleave
                self.nc.append((len(B.constraints), len(B.privvals)))
                k = end + 1
                continue
            if ins[0] in ("fthen", "felse"):
                k = self.selection(k) + 1
                continue
            if ins[0] == "tbegin":
                # `try: <body> except Exception: pass`: whatever the body raises is caught by the caller, who goes on; the registers of
                # the instructions that did not complete are None
                end = self.match_leave(k)
                self.pos = k; self.push(None)
                try:
                    self.run_range(k + 1, end)
                except Exception as e:
                    self.caught.append(f"{self.pos}:{type(e).__name__}")
                    del self.regs[end:]; del self.nc[end:]
                    while len(self.regs) < end:
                        self.push(None)
                self.pos = end; self.push(None)
                k = end + 1
                continue
            self.pos = k
            self.regs.append(self.step(ins))
            self.nc.append((len(B.constraints), len(B.privvals)))
            k += 1

    def step(self, ins):
        op = ins[0]; r = self.regs
        if op == "lit":
            return lit(ins[1])
        if op == "mk":
            return MK[ins[1]](r[reg(ins[2])])
        if op == "wrapb":
            return LinCombBool(r[reg(ins[1])])
        if op == "wrapx":
            return LinCombFxp(r[reg(ins[1])])
        if op == "bin":
            return BIN[ins[1]](r[reg(ins[2])], r[reg(ins[3])])
        if op == "iop":
            # augmented assignment on a second reference: `t = regs[A]; t op= regs[B]`; the new register is t, regs[A] stays a
            # reference to the original object (operator.iadd(a, b) is exactly `a += b`: type(a).__iadd__ if defined, else a + b)
            t = r[reg(ins[2])]
            before = canon.val_str(t, self.p, CLASSES)
            t = IOP[ins[1]](t, r[reg(ins[3])])
            if canon.val_str(r[reg(ins[2])], self.p, CLASSES) != before:
                self.mutated.append(f"{self.pos}:{reg(ins[2])}")      # the object the original register refers to is no longer what it was
            return t
        if op == "un":
            return UN[ins[1]](r[reg(ins[2])])
        if op == "call":
            self_ = r[reg(ins[2])]; args = [r[reg(t)] for t in ins[3:]]
            if ins[1] == "from_bits":
                if not isinstance(self_, list):
                    raise AttributeError("from_bits")
                return LinComb.from_bits(self_)
            return getattr(self_, ins[1])(*args)
        if op == "ite":
            return if_then_else(r[reg(ins[1])], r[reg(ins[2])], r[reg(ins[3])])
        if op == "list":
            return [r[reg(t)] for t in ins[1:]]
        if op == "idx":
            v = r[reg(ins[1])]
            if not isinstance(v, (list, tuple)):
                raise TypeError("idx")
            return v[int(ins[2])]
        if op in ("gleave", "fmid", "fleave", "tend", "fsel"):
            raise ValueError("stray " + op)
        if op == "set":
            if ins[1] == "bl":
                R.bitlength = int(ins[2])
            elif ins[1] == "res":
                Fm.resolution = int(ins[2])
            elif ins[1] == "ign":
                R.ignore_errors(bool(int(ins[2])))
            return None
        if op == "arr":
            return Array([r[reg(t)] for t in ins[1:]])
        if op == "aget":
            a = r[reg(ins[1])]
            if not isinstance(a, Array):
                raise TypeError("aget")
            return a[r[reg(ins[2])]]
        if op == "aset":
            a = r[reg(ins[1])]
            if not isinstance(a, Array):
                raise TypeError("aset")
            a[r[reg(ins[2])]] = r[reg(ins[3])]
            return None
        raise ValueError("bad instr " + op)


def secrets_in(v):
    if isinstance(v, (LinCombBool, LinCombFxp)):
        yield v.lc
    elif isinstance(v, LinComb):
        yield v
    elif isinstance(v, Array):
        for x in v.arr:
            yield from secrets_in(x)
    elif isinstance(v, (list, tuple)):
        for x in v:
            yield from secrets_in(x)


def state_str(p):
    g = "N" if R.guard is None else f"{R.guard.value}:{canon.canon_lc(R.guard.lc, p)}"
    cons = " & ".join(f"{canon.canon_lc(a, p)} @ {canon.canon_lc(b, p)} = {canon.canon_lc(c, p)}"
                      for (a, b, c) in B.constraints)
    one = LinComb.ONE
    return (f"PUB={','.join(map(str, B.pubvals))}|PRIV={','.join(map(str, B.privvals))}|CONS={cons}"
            f"|G={g}|IGN={1 if R._ignore_errors else 0}|ONE={one.value}:{canon.canon_lc(one.lc, p)}"
            f"|BL={R.bitlength}|RES={Fm.resolution}")


def handle_prog(fields):
    cid, cfgs, progs = fields
    cfg = {}
    for kv in cfgs.split(","):
        k, v = kv.split("=")
        cfg[k] = int(v)
    p = cfg["p"]
    dirty = dirty_state()
    reset(cfg)
    instrs = [t.split() for t in progs.split(";") if t.strip()]
    it = Interp(instrs)
    it.p = p
    status = "ok"
    try:
        it.run_range(0, len(instrs))
    except BaseException as e:
        if isinstance(e, (KeyboardInterrupt, SystemExit)):
            raise
        # registers appended for enclosing genter frames are not results
        status = f"err:{type(e).__name__}:{it.pos}"
        it.regs = it.regs[:it.pos]
    regs = ";".join(canon.val_str(v, p, CLASSES) for v in it.regs)
    # direct oracles on the real objects
    unsat = [i for i, (a, b, c) in enumerate(B.constraints) if (ev(a, p) * ev(b, p) - ev(c, p)) % p != 0]
    incoh = []
    for i, v in enumerate(it.regs):
        for x in secrets_in(v):
            if (x.value - ev(x.lc, p)) % p != 0:
                incoh.append(i)
                break
    nc = ",".join(f"{a}/{b}" for a, b in it.nc[:len(it.regs)])
    extra = f"UNSAT={','.join(map(str, unsat))}|INCOH={','.join(map(str, incoh))}|DIRTY={int(any(dirty))}|NC={nc}|MUT={','.join(it.mutated)}|CAUGHT={','.join(it.caught)}"
    return f"{cid}|{status}|{regs}|{state_str(p)}|{extra}"


def main():
    for line in sys.stdin:
        line = line.rstrip("\n")
        if not line:
            continue
        fields = line.split("|")
        try:
            if fields[0] == "P":
                out = handle_prog(fields[1:])
            else:
                out = "bad-line"
        except BaseException as e:
            if isinstance(e, (KeyboardInterrupt, SystemExit)):
                raise
            out = f"{fields[1] if len(fields) > 1 else '?'}|harness-error|{type(e).__name__}: {e}|{traceback.format_exc().splitlines()[-3:]}"
        sys.stdout.write(out + "\n")
        sys.stdout.flush()


if __name__ == "__main__":
    main()
