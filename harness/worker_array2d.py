"""Worker for C15 (two-dimensional arrays): executes a history of row reads, row copies, element and row
writes on a pysnark Array of Arrays, and on nested Python lists with the documented semantics, and reports
both final contents.  Protocol: `A2|id|<json>`."""
import sys, os, json, traceback
sys.path.insert(0, os.path.dirname(os.path.abspath(__file__)))
import worker as W
B = W.B
from pysnark.runtime import PrivVal, LinComb
from pysnark.array import Array, ArrayRow


def plain(x):
    if isinstance(x, Array): return [plain(y) for y in x.arr]
    if isinstance(x, list): return [plain(y) for y in x]
    if isinstance(x, LinComb): return x.value
    return x


def ix(secret, i):
    return PrivVal(i) if secret else i


def main():
    for line in sys.stdin:
        f = line.rstrip("\n").split("|", 2)
        try:
            h = json.loads(f[2])
            W.reset({"p": W.DEFAULT_P, "bl": 8})
            rows, cols = h["rows"], h["cols"]
            m = Array([Array([PrivVal(v) if h["secret"] else v for v in r]) for r in h["init"]])
            ref = [list(r) for r in h["init"]]
            vars_, rvars = {}, {}
            status = "ok"; refstatus = "ok"
            for op in h["ops"]:
                try:
                    k = op[0]
                    if k == "row":
                        vars_[op[1]] = m[ix(op[2], op[3])]
                    elif k == "copy":
                        vars_[op[1]] = Array(vars_[op[2]])
                    elif k == "set1":
                        vars_[op[1]][ix(op[2], op[3])] = op[4]
                    elif k == "set2":
                        m[ix(op[1], op[2]), ix(op[3], op[4])] = op[5]
                    elif k == "setrow":
                        m[ix(op[1], op[2])] = vars_[op[3]]
                    elif k == "get2":
                        vars_[op[1]] = m[ix(op[2], op[3]), ix(op[4], op[5])]
                except Exception as e:
                    status = type(e).__name__
                # reference: nested lists; a row read with a plain index aliases the row, with a secret index copies it;
                # Array(x) copies; a returned row (secret index) is read-only
                try:
                    k = op[0]
                    if k == "row":
                        rvars[op[1]] = ("rowview", list(ref[op[3]])) if op[2] else ("alias", ref[op[3]])
                    elif k == "copy":
                        rvars[op[1]] = ("array", list(rvars[op[2]][1]))
                    elif k == "set1":
                        kind, lst = rvars[op[1]]
                        if kind == "rowview": raise TypeError("read-only row")
                        lst[op[3]] = op[4]
                    elif k == "set2":
                        ref[op[2]][op[4]] = op[5]
                    elif k == "setrow":
                        ref[op[2]] = list(rvars[op[3]][1]) if op[1] else rvars[op[3]][1]
                    elif k == "get2":
                        rvars[op[1]] = ("scalar", ref[op[3]][op[5]])
                except Exception as e:
                    refstatus = type(e).__name__
                if status != "ok" or refstatus != "ok":
                    break
            unsat = [i for i, (a, b, c) in enumerate(B.constraints) if (W.ev(a, W.DEFAULT_P) * W.ev(b, W.DEFAULT_P) - W.ev(c, W.DEFAULT_P)) % W.DEFAULT_P != 0]
            out = {"status": status, "refstatus": refstatus, "m": plain(m), "ref": ref,
                   "vars": {k: plain(v) for k, v in vars_.items()}, "rvars": {k: v[1] for k, v in rvars.items()}, "unsat": unsat[:3]}
            res = f"{f[1]}|" + json.dumps(out)
        except BaseException as e:
            if isinstance(e, (KeyboardInterrupt, SystemExit)): raise
            res = f"{f[1]}|" + json.dumps({"harness-error": f"{type(e).__name__}: {e}", "tb": traceback.format_exc().splitlines()[-3:]})
        sys.stdout.write(res + "\n"); sys.stdout.flush()


if __name__ == "__main__":
    main()
