"""Worker for C15 (two-dimensional arrays): executes a history of index-object creations, row reads, row copies,
element reads, element and row writes (through the matrix, through previously obtained rows, through a plain-index
inner row) and reads inside a not-taken / taken `if_then_else` branch on a pysnark Array of Arrays, and on nested
Python lists with the documented object semantics, and reports both final contents.  Protocol: `A2|id|<json>`.

Index specifications: ["p", i] plain int; ["s", i] a FRESH secret PrivVal(i); ["n", name] the index OBJECT created once by
an earlier ["idx", name, secret?, i] operation and reused (loop-variable style).

Reference semantics (rows are Python list OBJECTS):
  * a row read at a plain index returns the inner row object itself (writes through it reach the matrix and vice versa);
    at a secret index it returns a read-only snapshot; `Array(x)` copies;
  * writes with a plain row index update the row object in place; a write whose ROW index is secret rebuilds every row of
    the matrix (`if_then_else` per row), so previously held plain-index rows are detached from then on -- except a row that
    is itself the value being stored (`if_then_else(c, x, x)` returns `x`);
  * a row snapshot (secret-index read) may be STORED in the matrix at a constant position (`a[0] = a[PrivVal(2)]`) and a matrix
    may be BUILT from rows that were read before (`g = Array([a[PrivVal(1)], a[0]])`, operation "gather"): the stored object
    stays read-only for writes that go through it (`a[0][j] = v`, `r = a[0]; r[j] = v` raise TypeError by design), while a
    tuple write `a[0, j] = v` replaces it by an updated writable copy (the snapshot object held elsewhere keeps its values);
  * the matrix is compared with the reference after EVERY operation, not only at the end;
  * a secret index outside the array raises IndexError wherever it is used outside a not-taken branch, however often and
    wherever the same index object was used before;
  * a row built outside the matrix (["newrow", name, values], any length) stored with `a[i] = row` at a PLAIN index replaces
    row i and no other element, whatever its length (lists of lists may be ragged).  Where the code has to combine rows
    element-wise it REFUSES rows of different lengths with ValueError (Array.__add__/__sub__; it used to zip them to the
    shorter one: finding C15-row-store-other-length, repaired): a store at a SECRET index of a row whose length differs from
    that of any row it is not identical to, and every row read at a secret index of a ragged matrix (a[i], a[i,j], a[i][j],
    a[i,j] = v, gather) -- also inside a branch that is not taken: the lengths are part of the public shape, not of the
    secret data.  The reference raises ValueError at exactly these points (after the IndexError test of the index itself);
    a refused secret-index store may already have rebuilt the rows before the offending one (the code assigns row by row):
    the worker puts the row objects back so that the state reported for a refused operation is the state before it;
  * a history may run with the Python-level checks switched off (`"ign": 1`, `ignore_errors(True)`: the library's model of a
    prover that does not follow the rules).  The reference is unchanged: where it raises IndexError for a secret index
    outside the array, the code must either raise as well (any class: a refusal) or have recorded, by the end of THAT
    operation, at least one constraint that the recorded witness violates (`unsat_first`); after that point values are
    unspecified and only the model is compared;
  * matrices may have an EMPTY dimension (`init` = [] or rows of length 0) and rows built outside may be empty: every
    element access is then outside the array.

Second protocol `ND|id|<json>` (direct oracle only, no model): ONE access on an array nested 1-3 levels deep, any dimension
possibly empty, index components plain / secret, inside or outside the bounds, checks on or off, over any prime (p = 97
for the witness-space search of harness/props/c15.py): reports exception class, contents before / after, value read,
the constraints in canonical text form, the recorded witness, the wires of the index components and the violated
constraints.
"""
import sys, os, json, traceback
sys.path.insert(0, os.path.dirname(os.path.abspath(__file__)))
import worker as W
B = W.B
from pysnark.runtime import PrivVal, LinComb
from pysnark.boolean import PrivValBool, LinCombBool
from pysnark.array import Array, ArrayRow
from pysnark.branching import if_then_else


def plain(x):
    if isinstance(x, Array): return [plain(y) for y in x.arr]
    if isinstance(x, list): return [plain(y) for y in x]
    if isinstance(x, LinCombBool): return x.lc.value
    if isinstance(x, LinComb): return x.value
    return x


def secrets(x):
    if isinstance(x, Array):
        for y in x.arr: yield from secrets(y)
    elif isinstance(x, LinCombBool): yield x.lc
    elif isinstance(x, LinComb): yield x


from a2enc import norm


class Real:
    def __init__(self, h):
        self.m = Array([Array([PrivVal(v) if h["secret"] else v for v in r]) for r in h["init"]])
        self.vars = {}; self.idx = {}

    def ix(self, spec):
        if spec[0] == "p": return spec[1]
        if spec[0] == "s": return PrivVal(spec[1])
        return self.idx[spec[1]]

    def do(self, op):
        k = op[0]; m = self.m; v = self.vars; ix = self.ix
        if k == "idx": self.idx[op[1]] = PrivVal(op[3]) if op[2] else op[3]
        elif k == "row": v[op[1]] = m[ix(op[2])]
        elif k == "copy": v[op[1]] = Array(v[op[2]])
        elif k == "rowget": v[op[1]] = v[op[2]][ix(op[3])]
        elif k == "get2": v[op[1]] = m[ix(op[2]), ix(op[3])]
        elif k == "getrc": v[op[1]] = m[ix(op[2])][ix(op[3])]
        elif k == "bget":
            r, c = ix(op[3]), ix(op[4])
            v[op[1]] = if_then_else(PrivValBool(op[2]), lambda: m[r, c], lambda: 0)
        elif k == "set1": v[op[1]][ix(op[2])] = op[3]
        elif k == "setchain": m[op[1]][ix(op[2])] = op[3]
        elif k == "set2": m[ix(op[1]), ix(op[2])] = op[3]
        elif k == "setrow":
            i = ix(op[1]); saved = list(m.arr)
            try:
                m[i] = v[op[2]]
            except ValueError:
                m.arr[:] = saved            # see the module docstring: the state of a refused store is the state before it
                raise
        elif k == "gather": self.m = Array([m[ix(sp)] for sp in op[1]])
        elif k == "newrow": v[op[1]] = Array(list(op[2]))
        else: raise ValueError("op " + k)


class Row(list):
    """a row object of the reference; `ro`: a snapshot returned by a secret-index read (writes THROUGH it are refused)"""
    ro = False

    @staticmethod
    def snapshot(x):
        r = Row(x); r.ro = True
        return r


class Ref:
    """nested Python lists with the object semantics described in the module docstring"""

    def __init__(self, h):
        self.ref = [Row(r) for r in h["init"]]
        self.vars = {}; self.idx = {}

    def ix(self, spec, n):
        """returns (secret?, i); a secret index outside [0, n) raises"""
        if spec[0] == "p": sec, i = False, spec[1]
        elif spec[0] == "s": sec, i = True, spec[1]
        else: sec, i = self.idx[spec[1]]
        if sec and not 0 <= i < n: raise IndexError(i)
        return sec, i

    def rect(self):
        """a row read at a secret index combines all rows element-wise: rows of different lengths are refused"""
        if len({len(row) for row in self.ref}) > 1: raise ValueError("arrays not of the same length")

    def rebuild(self, r, newrow, keep=None):
        """a write at a secret row index: every row becomes a fresh object (except one identical to the stored value)"""
        self.ref = [(newrow if k == r else row) if (keep is not None and row is keep) else Row(newrow if k == r else row)
                    for k, row in enumerate(self.ref)]

    def do(self, op):
        k = op[0]; ref = self.ref; v = self.vars
        nr = len(ref)
        if k == "idx": self.idx[op[1]] = (bool(op[2]), op[3])
        elif k == "row":
            sec, i = self.ix(op[2], nr)
            if sec: self.rect()
            v[op[1]] = ("rowview", Row.snapshot(ref[i])) if sec else ("alias", ref[i])
        elif k == "copy":
            v[op[1]] = ("array", Row(v[op[2]][1]))
        elif k == "rowget":
            kind, lst = v[op[2]]
            sec, i = self.ix(op[3], len(lst)); v[op[1]] = ("scalar", lst[i])
        elif k in ("get2", "getrc"):
            sr, r = self.ix(op[2], nr)
            if sr: self.rect()
            sc, c = self.ix(op[3], len(ref[r])); v[op[1]] = ("scalar", ref[r][c])
        elif k == "bget":
            if op[2]:
                sr, r = self.ix(op[3], nr)
                if sr: self.rect()
                sc, c = self.ix(op[4], len(ref[r])); v[op[1]] = ("scalar", ref[r][c])
            else:
                # branch not taken: no index can raise; the shape test of a secret-index row read still does
                sp = op[3]
                if sp[0] == "s" or (sp[0] == "n" and self.idx[sp[1]][0]): self.rect()
                v[op[1]] = ("scalar", 0)
        elif k == "set1":
            kind, lst = v[op[1]]
            if lst.ro: raise TypeError("read-only row")
            sec, i = self.ix(op[2], len(lst)); lst[i] = op[3]
        elif k == "setchain":
            if ref[op[1]].ro: raise TypeError("read-only row")
            sec, c = self.ix(op[2], len(ref[op[1]])); ref[op[1]][c] = op[3]
        elif k == "set2":
            sr, r = self.ix(op[1], nr)
            if sr: self.rect()
            sc, c = self.ix(op[2], len(ref[r]))
            if sr:
                row = Row(ref[r]); row[c] = op[3]; self.rebuild(r, row)
            elif ref[r].ro:
                row = Row(ref[r]); row[c] = op[3]; ref[r] = row       # a stored snapshot is replaced by an updated copy
            else:
                ref[r][c] = op[3]
        elif k == "setrow":
            sr, r = self.ix(op[1], nr)
            kind, lst = v[op[2]]
            if sr:
                # if_then_else(ixs[k], value, row_k) for every row: `value - row_k` unless they are the same object
                if any(row is not lst and len(row) != len(lst) for row in ref): raise ValueError("arrays not of the same length")
                self.rebuild(r, lst, keep=lst)
            else: ref[r] = lst
        elif k == "gather":
            rows = []
            for sp in op[1]:
                sec, i = self.ix(sp, nr)
                if sec: self.rect()
                rows.append(Row.snapshot(ref[i]) if sec else ref[i])
            self.ref = rows
        elif k == "newrow":
            v[op[1]] = ("array", Row(op[2]))          # a row built outside the matrix, of any length
        else: raise ValueError("op " + k)


def nd(h):
    """one access on a nested array: see the module docstring"""
    p = h.get("p") or W.DEFAULT_P
    W.reset({"p": p, "bl": 8, "ign": 1 if h.get("ign") else 0})
    cnt = [0]

    def build(shape):
        if len(shape) == 1:
            out = []
            for _ in range(shape[0]):
                cnt[0] += 1
                out.append(PrivVal(cnt[0]) if h["secret"] else cnt[0])
            return Array(out)
        return Array([build(shape[1:]) for _ in range(shape[0])])

    arr = build(h["shape"])
    before = plain(arr)
    idx = []; idxw = []
    for kind, v in h["idx"]:
        if kind == "s":
            idxw.append(f"w{len(B.privvals) + 1}"); idx.append(PrivVal(v))
        else:
            idxw.append(None); idx.append(v)
    val = None; valw = None
    if h["op"].startswith("set"):
        if h.get("valsecret"):
            valw = f"w{len(B.privvals) + 1}"; val = PrivVal(h["val"])
        else:
            val = h["val"]
    ninputs = len(B.privvals); c0 = len(B.constraints)
    status = "ok"; res = None; msg = ""
    try:
        op = h["op"]
        key = idx[0] if len(idx) == 1 and not h.get("tuple1") else tuple(idx)
        if op == "get": res = arr[key]
        elif op == "getchain":
            res = arr
            for i in idx: res = res[i]
        elif op == "set": arr[key] = val
        elif op == "setchain":
            t = arr
            for i in idx[:-1]: t = t[i]
            t[idx[-1]] = val
        else: raise ValueError("op " + op)
    except Exception as e:
        status = type(e).__name__; msg = str(e)[:120]
    cons = [f"{W.canon.canon_lc(a, p)} @ {W.canon.canon_lc(b, p)} = {W.canon.canon_lc(c, p)}" for (a, b, c) in B.constraints]
    unsat = [i for i, (a, b, c) in enumerate(B.constraints) if (W.ev(a, p) * W.ev(b, p) - W.ev(c, p)) % p != 0]
    incoh = res is not None and any((s.value - W.ev(s.lc, p)) % p for s in secrets(res))
    out = {"status": status, "msg": msg, "before": before, "after": plain(arr), "res": plain(res) if res is not None else None,
           "cons": cons, "ncons_before": c0, "priv": [int(x) % p for x in B.privvals], "npub": len(B.pubvals), "ninputs": ninputs,
           "idxw": idxw, "valw": valw, "unsat": unsat[:5], "incoh": bool(incoh),
           "dirty": [W.R.guard is not None, LinComb.ONE is not LinComb.ONE_SAFE]}
    return out


def lc_strings(real, p):
    """wire expressions of the matrix and of every variable (S level), as the model driver prints them"""
    d = {"matrix": W.canon.val_str(real.m, p, W.CLASSES)}
    for k, v in real.vars.items():
        d[k] = W.canon.val_str(v, p, W.CLASSES)
    return d


def main():
    for line in sys.stdin:
        f = line.rstrip("\n").split("|", 2)
        try:
            h = json.loads(f[2])
            if f[0] == "ND":
                sys.stdout.write(f"{f[1]}|" + json.dumps(nd(h)) + "\n"); sys.stdout.flush()
                continue
            W.reset({"p": W.DEFAULT_P, "bl": 8, "ign": 1 if h.get("ign") else 0})
            p = W.DEFAULT_P
            real = Real(h); ref = Ref(h)
            status = "ok"; refstatus = "ok"; at = None
            # for the comparison with the Lean model: the matrix after every completed operation of the REAL run and the
            # numbers of wires / constraints at that point (a failing operation is cut off: the model reports the state
            # before it)
            trace = []; mark = (len(B.pubvals), len(B.privvals), len(B.constraints)); rat = None
            ncons_first = None          # number of constraints recorded when the operation `at` had finished
            ops = [norm(op) for op in h["ops"]]
            n = -1
            for n, op in enumerate(ops):
                try:
                    real.do(op)
                    trace.append(plain(real.m)); mark = (len(B.pubvals), len(B.privvals), len(B.constraints))
                except Exception as e:
                    status = type(e).__name__; rat = n
                try:
                    ref.do(op)
                except Exception as e:
                    refstatus = type(e).__name__
                if status != "ok" or refstatus != "ok":
                    at = n; ncons_first = len(B.constraints)
                    break
                if plain(real.m) != ref.ref:            # compared after every step: `at` is the first operation after which they differ
                    at = n
                    break
            snap = {"m": plain(real.m), "vars": {k: plain(v) for k, v in real.vars.items()}}
            rstatus = status
            if status == "ok" and at is not None:
                # the reference stopped (or differs); the real run goes on alone so that the model sees the whole history
                for n2 in range(n + 1, len(ops)):
                    try:
                        real.do(ops[n2])
                        trace.append(plain(real.m)); mark = (len(B.pubvals), len(B.privvals), len(B.constraints))
                    except Exception as e:
                        rstatus = type(e).__name__; rat = n2
                        break
            unsat = [i for i, (a, b, c) in enumerate(B.constraints) if (W.ev(a, p) * W.ev(b, p) - W.ev(c, p)) % p != 0]
            unsat_first = [i for i in unsat if ncons_first is not None and i < ncons_first]
            incoh = [k for k, x in list(real.vars.items()) + [("matrix", real.m)] if any((s.value - W.ev(s.lc, p)) % p for s in secrets(x))]
            lcs = lc_strings(real, p)
            rvars = {k: plain(v) for k, v in real.vars.items()}
            del B.pubvals[mark[0]:]; del B.privvals[mark[1]:]; del B.constraints[mark[2]:]
            out = {"status": status, "refstatus": refstatus, "at": at, "m": snap["m"], "ref": ref.ref,
                   "vars": snap["vars"], "rvars": {k: v[1] for k, v in ref.vars.items()},
                   "unsat": unsat[:3], "incoh": incoh[:3], "unsat_first": unsat_first[:3], "ign": 1 if h.get("ign") else 0,
                   "real": {"status": rstatus, "at": rat, "trace": trace, "vars": rvars, "lcs": lcs, "state": W.state_str(p)}}
            res = f"{f[1]}|" + json.dumps(out)
        except BaseException as e:
            if isinstance(e, (KeyboardInterrupt, SystemExit)): raise
            res = f"{f[1]}|" + json.dumps({"harness-error": f"{type(e).__name__}: {e}", "tb": traceback.format_exc().splitlines()[-3:]})
        sys.stdout.write(res + "\n"); sys.stdout.flush()


if __name__ == "__main__":
    main()
