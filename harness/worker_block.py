"""Worker for C09: executes a structured program twice — rendered with pysnark's oblivious
branching constructs on secret values (the API as documented), and with native Python control flow
on the corresponding plain values — and reports both sets of final variable values.
Protocol: `B|id|bitlength|<json program>`; see harness/props/c09.py for the program grammar."""
import sys, os, json, traceback, copy
sys.path.insert(0, os.path.dirname(os.path.abspath(__file__)))
import worker as W
R = W.R; B = W.B
from pysnark.runtime import PrivVal, LinComb
from pysnark.boolean import LinCombBool
from pysnark.fixedpoint import LinCombFxp, PrivValFxp
import pysnark.fixedpoint as Fm
from fractions import Fraction
import pysnark.branching as br
from pysnark.branching import BranchingValues, _if, _elif, _else, _endif, _while, _endwhile, _breakif, _range, _endfor, if_then_else


def expr_src(e, secret):
    """expression tree -> python source; variables are `_.name` (API) or `v['name']` (native)"""
    t = e[0]
    if t == "var":
        return f"{CTX[0]}.{e[1]}" if secret else f"v['{e[1]}']"
    if t == "in":
        return f"inp[{e[1]}]"
    if t == "const":
        return repr(e[1])
    if t == "loopvar":
        return e[1]
    if t in ("add", "sub", "mul"):
        op = {"add": "+", "sub": "-", "mul": "*"}[t]
        return f"({expr_src(e[1], secret)} {op} {expr_src(e[2], secret)})"
    if t == "div":      # exact division by a secret input (may be invalid in a branch that is not taken)
        return f"({expr_src(e[1], secret)} / {expr_src(e[2], secret)})" if secret else f"pydiv({expr_src(e[1], secret)}, {expr_src(e[2], secret)})"
    if t in ("lt", "le", "eq", "ne", "gt", "ge"):
        op = {"lt": "<", "le": "<=", "eq": "==", "ne": "!=", "gt": ">", "ge": ">="}[t]
        return f"({expr_src(e[1], secret)} {op} {expr_src(e[2], secret)})"
    # ---- typed values (boolean / fixed-point / list / list-of-lists kinds)
    if t == "fin":      # a secret fixed-point input
        return f"finp[{e[1]}]"
    if t == "not":
        return f"(~{expr_src(e[1], True)})" if secret else f"(not {expr_src(e[1], False)})"
    if t == "and":
        return f"({expr_src(e[1], True)} & {expr_src(e[2], True)})" if secret else f"({expr_src(e[1], False)} and {expr_src(e[2], False)})"
    if t == "or":
        return f"({expr_src(e[1], True)} | {expr_src(e[2], True)})" if secret else f"({expr_src(e[1], False)} or {expr_src(e[2], False)})"
    if t == "list":
        return "[" + ", ".join(expr_src(x, secret) for x in e[1]) + "]"
    if t == "item":
        return f"{expr_src(['var', e[1]], secret)}[{e[2]}]"
    if t == "item2":
        return f"{expr_src(['var', e[1]], secret)}[{e[2]}][{e[3]}]"
    if t == "copy":     # native twin only: selection between lists returns a new (nested) list in the library
        return expr_src(e[1], True) if secret else f"deepcopy({expr_src(e[1], False)})"
    raise ValueError(t)


RAW = [False]      # probe only: pass the raw LinComb inside the LinCombBool as the `_if` condition

# How the rendered program names and finds its context (program field "ctxmode", default: local name `_`, every call with `ctx=_`):
#   {"name": N, "ctx_arg": false}  the program is a FUNCTION whose own context is the local N (`_`, `__`, `ctx2`, `bv`) and whose block
#                                  calls carry no `ctx=`: the library finds the context by looking at the caller's frame
#   "module_ctx": true             the module the function is defined in ALSO has a global context named `_` (variables of the same
#                                  names, plain values), as in examples/branch2.py
#   "nested": c                    the function is called by module-level code from inside an `_if(PrivVal(c) == 1)` block of the
#                                  module's context `_` (which then holds secrets of its own)
CTX = ["_", True]


def carg(more):
    if not CTX[1]:
        return ""
    return (", " if more else "") + "ctx=" + CTX[0]


def render(stmts, secret, ind, out, counter):
    pad = "    " * ind
    for s in stmts:
        t = s[0]
        if t == "assign":
            out.append(f"{pad}{CTX[0] + '.' + s[1] if secret else 'v[' + repr(s[1]) + ']'} = {expr_src(s[2], secret)}")
        elif t == "if":
            arms = s[1]; els = s[2]
            if secret:
                for k, (c, body) in enumerate(arms):
                    if k == 0:
                        out.append(f"{pad}if _if({expr_src(c, True)}{'.lc' if RAW[0] else ''}{carg(True)}):")
                    else:
                        out.append(f"{pad}if _elif(lambda: {expr_src(c, True)}{carg(True)}):")
                    render(body, True, ind + 1, out, counter); out.append(f"{pad}    pass")
                if els is not None:
                    out.append(f"{pad}if _else({carg(False)}):")
                    render(els, True, ind + 1, out, counter); out.append(f"{pad}    pass")
                out.append(f"{pad}_endif({carg(False)})")
            else:
                for k, (c, body) in enumerate(arms):
                    out.append(f"{pad}{'if' if k == 0 else 'elif'} {expr_src(c, False)}:")
                    render(body, False, ind + 1, out, counter); out.append(f"{pad}    pass")
                if els is not None:
                    out.append(f"{pad}else:")
                    render(els, False, ind + 1, out, counter); out.append(f"{pad}    pass")
        elif t == "range":    # r = _range(bound, max=M): one range object, iterated by the loops that name it
            if secret:
                csm = ", checkstopmax=True" if len(s) > 4 and s[4] and s[4].get("checkstopmax") else ""
                out.append(f"{pad}{s[1]} = _range({expr_src(s[2], True)}, max={s[3]}{csm}{carg(True)})")
            else:
                out.append(f"{pad}{s[1]} = range({expr_src(s[2], False)})")
        elif t == "for":
            lv, bound, mx, body = s[1], s[2], s[3], s[4]
            shared = s[5] if len(s) > 5 else None
            # optional 7th element: options of the loop's own `_range` ({"checkstopmax": true}: the stop-exceeds-max assertion)
            csm = ", checkstopmax=True" if len(s) > 6 and s[6] and s[6].get("checkstopmax") else ""
            if secret:
                out.append(f"{pad}for {lv} in {shared}:" if shared else f"{pad}for {lv} in _range({expr_src(bound, True)}, max={mx}{csm}{carg(True)}):")
                render(body, True, ind + 1, out, counter); out.append(f"{pad}    pass")
                out.append(f"{pad}_endfor({carg(False)})")
            else:
                out.append(f"{pad}for {lv} in {shared}:" if shared else f"{pad}for {lv} in range({expr_src(bound, False)}):")
                render(body, False, ind + 1, out, counter); out.append(f"{pad}    pass")
        elif t == "while":
            cond, mx, body, brk = s[1], s[2], s[3], s[4]
            counter[0] += 1; k = f"k{counter[0]}"
            if secret:
                out.append(f"{pad}{k} = 0")
                out.append(f"{pad}while _while({expr_src(cond, True)}{carg(True)}) and {k} < {mx}:")
                render(body, True, ind + 1, out, counter)
                out.append(f"{pad}    {k} += 1")
                if brk is not None:
                    out.append(f"{pad}    _breakif({expr_src(brk, True)}{carg(True)})")
                out.append(f"{pad}_endwhile({carg(False)})")
            else:
                out.append(f"{pad}{k} = 0")
                out.append(f"{pad}while {expr_src(cond, False)} and {k} < {mx}:")
                render(body, False, ind + 1, out, counter)
                out.append(f"{pad}    {k} += 1")
                if brk is not None:
                    out.append(f"{pad}    if {expr_src(brk, False)}: break")
        elif t == "sel":      # _.x = if_then_else(cond, a, b) on already evaluated branch values of any kind
            if secret:
                out.append(f"{pad}{CTX[0]}.{s[1]} = if_then_else({expr_src(s[2], True)}, {expr_src(s[3], True)}, {expr_src(s[4], True)})")
            else:
                out.append(f"{pad}v[{s[1]!r}] = ({expr_src(s[3], False)}) if ({expr_src(s[2], False)}) else ({expr_src(s[4], False)})")
        elif t == "setitem":  # _.l[i] = e   (in-place update of a tracked list)
            out.append(f"{pad}{expr_src(['var', s[1]], secret)}[{s[2]}] = {expr_src(s[3], secret)}")
        elif t == "setitem2":  # _.m[i][j] = e   (in-place update of a row of a tracked list of lists)
            out.append(f"{pad}{expr_src(['var', s[1]], secret)}[{s[2]}][{s[3]}] = {expr_src(s[4], secret)}")
        elif t == "ref":      # r = _.l      (a reference to the list object, read after the program)
            out.append(f"{pad}refs[{s[1]!r}] = {expr_src(['var', s[2]], secret)}")
        elif t == "ite":      # _.x = if_then_else(cond, lambda: e1, lambda: e2)   (lazily evaluated branches)
            if secret:
                out.append(f"{pad}{CTX[0]}.{s[1]} = if_then_else({expr_src(s[2], True)}, lambda: {expr_src(s[3], True)}, lambda: {expr_src(s[4], True)})")
            else:
                out.append(f"{pad}v[{s[1]!r}] = ({expr_src(s[3], False)}) if ({expr_src(s[2], False)}) else ({expr_src(s[4], False)})")
        else:
            raise ValueError(t)


def priv_tree(x):
    return [priv_tree(y) for y in x] if isinstance(x, list) else PrivVal(x)


def pydiv(a, b):
    if b == 0 or a % b != 0:
        raise ValueError("inexact")
    return a // b


def num(x):
    """the exact number a (library or native) value stands for, as a string; lists element-wise"""
    if isinstance(x, (list, tuple)): return [num(y) for y in x]
    if isinstance(x, LinCombFxp): return str(Fraction(x.lc.value, 1 << Fm.resolution))
    if isinstance(x, LinCombBool): return str(Fraction(x.lc.value))
    if isinstance(x, LinComb): return str(Fraction(x.value))
    if isinstance(x, (bool, int, float)): return str(Fraction(x))
    return "?" + type(x).__name__


def secrets(x):
    if isinstance(x, (list, tuple)):
        for y in x: yield from secrets(y)
    elif isinstance(x, (LinCombFxp, LinCombBool)): yield x.lc
    elif isinstance(x, LinComb): yield x


def kind_lc(x, p):
    """kind and canonical wire expression(s) of a final value (what must not depend on the inputs)"""
    if isinstance(x, (list, tuple)): return [kind_lc(y, p) for y in x]
    if isinstance(x, LinCombFxp): return "X:" + W.canon.canon_lc(x.lc.lc, p)
    if isinstance(x, LinCombBool): return "B:" + W.canon.canon_lc(x.lc.lc, p)
    if isinstance(x, LinComb): return "L:" + W.canon.canon_lc(x.lc, p)
    return "I:" + repr(x)


def plain(x):
    if isinstance(x, list): return ("list", [plain(y)[1] for y in x])
    if isinstance(x, LinCombFxp): return ("X", x.lc.value)
    if isinstance(x, LinCombBool): return ("B", x.lc.value)
    if isinstance(x, LinComb): return ("L", x.value)
    if isinstance(x, bool): return ("I", int(x))
    if isinstance(x, int): return ("I", x)
    return ("?", type(x).__name__)


def main():
    for line in sys.stdin:
        f = line.rstrip("\n").split("|", 3)
        try:
            prog = json.loads(f[3])
            if prog == "LEN":
                # fixed probe: a block that rebinds a tracked list to a list of another length (the replay of the repaired finding
                # C09-list-length-truncated: the merge at the block exit must refuse with ValueError, whichever way the condition goes;
                # a list of values here means that the run completed, i.e. that the merge zipped the two lists)
                from pysnark.branching import BranchingValues as _BV, _if as __if, _endif as __endif
                res = {}
                for c in (1, 0):
                    W.reset({"p": W.DEFAULT_P, "bl": int(f[2])})
                    _ = _BV()
                    _.l = [PrivVal(1), PrivVal(2)]
                    try:
                        if __if(PrivVal(c) == 1, ctx=_):
                            _.l = [PrivVal(7), PrivVal(8), PrivVal(9)]
                        __endif(ctx=_)
                        res["taken" if c else "not_taken"] = [x.value for x in _.l]
                    except Exception as e:
                        res["taken" if c else "not_taken"] = {"error": type(e).__name__, "msg": str(e)[:120]}
                    _.stack.clear()
                W.reset({"p": W.DEFAULT_P, "bl": int(f[2])})
                sys.stdout.write(f"{f[1]}|" + json.dumps(res) + "\n"); sys.stdout.flush()
                continue
            RAW[0] = bool(prog.get("rawcond"))
            cm = prog.get("ctxmode") or {}
            CTX[0] = cm.get("name", "_"); CTX[1] = bool(cm.get("ctx_arg", True))
            bl = int(f[2])
            p = W.DEFAULT_P
            out = {}
            # native twin
            src_n = []; render(prog["body"], False, 0, src_n, [0])
            kinds = prog.get("kinds", {})
            fin = [m / 4 for m in prog.get("finputs", [])]      # dyadic: exact as floats and as fixed point (resolution >= 2)
            def initval(k, val, secret):
                kd = kinds.get(k, "int")
                if kd == "bool": return (PrivVal(val) == 1) if secret else bool(val == 1)
                if kd == "fxp": return PrivValFxp(val / 4) if secret else val / 4
                if kd in ("list", "mat"): return priv_tree(val) if secret else copy.deepcopy(val)
                return PrivVal(val) if secret else val
            v = {k: initval(k, val, False) for k, val in prog["init"].items()}; inp = list(prog["inputs"]); nrefs = {}
            try:
                exec("\n".join(src_n) or "pass", {"v": v, "inp": inp, "finp": fin, "refs": nrefs, "pydiv": pydiv, "deepcopy": copy.deepcopy})
                out["native"] = {"status": "ok", "vars": v if not prog.get("typed") else {}, "num": {k: num(x) for k, x in v.items()},
                                 "refs": {k: num(x) for k, x in nrefs.items()}}
            except Exception as e:
                out["native"] = {"status": type(e).__name__}
            # oblivious version on the real API
            W.reset({"p": p, "bl": bl})
            src_s = []; render(prog["body"], True, 0, src_s, [0])
            src_s = [f"def __prog({CTX[0]}, inp, finp, refs):"] + ["    " + l for l in (src_s or ["pass"])] + [f"    return {CTX[0]}"]
            g = {"_if": _if, "_elif": _elif, "_else": _else, "_endif": _endif, "_while": _while, "_endwhile": _endwhile,
                 "_breakif": _breakif, "_range": _range, "_endfor": _endfor, "if_then_else": if_then_else, "PrivVal": PrivVal, "PrivValFxp": PrivValFxp}
            exec("\n".join(src_s), g)
            mctx = None
            if cm.get("module_ctx") or cm.get("nested") is not None:
                # the module of the function has a context of its own under the conventional name `_`
                mctx = BranchingValues(); g["_"] = mctx
                for k in prog["init"]:
                    setattr(mctx, k, 77)
                mctx.own = 78
            ctx = BranchingValues()
            for k, val in prog["init"].items():
                setattr(ctx, k, initval(k, val, True) if k in prog["secret_vars"] else val)
            sinp = [PrivVal(x) for x in prog["inputs"]]
            sfin = [PrivValFxp(x) for x in fin]
            srefs = {}
            try:
                if cm.get("nested") is not None:
                    # module-level code: a block of the module's context `_` is open while the function (own context, other name) runs
                    mctx.outer = PrivVal(5)
                    g.update(HCTX=ctx, HINP=sinp, HFIN=sfin, HREFS=srefs, NESTC=int(cm["nested"]))
                    msrc = ("if _if(PrivVal(NESTC) == 1):\n    _.outer = _.outer + 1\n    __prog(HCTX, HINP, HFIN, HREFS)\n"
                            "    _.outer = _.outer + 1\n_endif()\n")
                    exec(compile(msrc, "<module-level>", "exec"), g)
                    src_s = src_s + ["# module level (globals hold `_`, a BranchingValues):"] + msrc.splitlines()
                else:
                    g["__prog"](ctx, sinp, sfin, srefs)
                vals = {k: plain(x) for k, x in ctx.vals.items()}
                unsat = [i for i, (a, b, c) in enumerate(B.constraints) if (W.ev(a, p) * W.ev(b, p) - W.ev(c, p)) % p != 0]
                out["api"] = {"status": "ok", "vars": vals, "unsat": unsat[:5], "ncons": len(B.constraints), "npriv": len(B.privvals),
                              "stack": len(ctx.stack), "guard": R.guard is not None,
                              "num": {k: num(x) for k, x in ctx.vals.items()}, "refs": {k: num(x) for k, x in srefs.items()},
                              # coherence: value of every final secret == its wire expression on the recorded witness (mod p)
                              "incoh": [k for k, x in list(ctx.vals.items()) + list(srefs.items())
                                        if any((y.value - W.ev(y.lc, p)) % p != 0 for y in secrets(x))][:5],
                              "var_lcs": {k: kind_lc(x, p) for k, x in list(ctx.vals.items()) + [("ref:" + k, x) for k, x in srefs.items()]},
                              # canonical dump for the model-vs-code comparison (same text as Driver/ProtoBlock.lean prints)
                              "canon_vars": ";".join(f"{k[1:]}={W.canon.val_str(x, p, W.CLASSES)}" for k, x in ctx.vals.items()),
                              "canon_state": W.state_str(p)}
                if mctx is not None:
                    # the module's own context: its variables are what they were (outer: 5 + 2 if the block was taken), nothing left open
                    want = {k: "77" for k in prog["init"]}; want["own"] = "78"
                    if cm.get("nested") is not None:
                        want["outer"] = "7" if cm["nested"] else "5"
                    got = {k: num(x) for k, x in mctx.vals.items()}
                    out["api"]["module_ctx"] = {"ok": got == want and not mctx.stack, "vars": got, "want": want, "stack": len(mctx.stack)}
                    out["api"]["stack"] += len(mctx.stack)
            except Exception as e:
                out["api"] = {"status": type(e).__name__, "msg": str(e)[:120], "where": traceback.format_exc().splitlines()[-3].strip()[:120]}
                ctx.stack.clear()
            ctx.stack.clear()
            if mctx is not None: mctx.stack.clear()
            out["src"] = "\n".join(src_s)
            res = f"{f[1]}|" + json.dumps(out)
        except BaseException as e:
            if isinstance(e, (KeyboardInterrupt, SystemExit)): raise
            res = f"{f[1] if len(f) > 1 else '?'}|" + json.dumps({"harness-error": f"{type(e).__name__}: {e}", "tb": traceback.format_exc().splitlines()[-4:]})
        sys.stdout.write(res + "\n"); sys.stdout.flush()


if __name__ == "__main__":
    main()
