"""Worker for C08 (block API): executes histories through the REAL statement-based block API of
pysnark.branching (`_if/_elif/_else/_endif`, `_while/_endwhile`, `_range/_endfor` over a
BranchingValues context), rendered as Python source exactly as a user writes it, and probes the
guard triple (guard, error-suppression flag, LinComb.ONE; values AND object identity) around every
`try:` statement of the history.

The subject is an exception raised by the CLOSING / SWITCHING call of a block itself (`_endif`,
`_else`, `_elif`, the re-entry of `_while`, the next step of a `_range` iterator, `_endwhile`,
`_endfor`): the library's bookkeeping errors "branch did not set value for ...", "branch set
spurious value: ...", "if branch set ... and no else branch", "conditional write to undefined
variables".  The region is over when such a call raises, so after the caller has caught the error
the triple must be the one from before the block.  What was executing when an exception started is
tracked at API level (`ST.phase`): `close` / `switch` = inside a closing or switching call of block
X, `body` = user code inside a block (an exception propagating out of an OPEN block is the recorded
finding C08-block-unwind and is tagged `open-region`, so the two stay distinguishable).

Configuration `ign=1`: the history runs after the user's own `pysnark.runtime.ignore_errors(True)` (real API); the flag is then on
at every probe, whatever the nesting, and must still be on after every block.

Protocol: `BG|id|p=..,bl=..[,ign=1]|<json statement list>` -> `id|status|G=..|IGN=..|ONE=..|NPRIV|NCONS|<json report>`
Statements:
  ["set", name, v]                      _.name = PrivVal(v)
  ["setk", name, v, k]                  inside a loop: only in iteration k
  ["if", [[cond, body], ...], else_body | null]
  ["while", cond, iterations, body]     while _while(cond) and k < iterations: body  /  _endwhile()
  ["for", stop, max | null, body]       for i in _range(stop, max=max): body  /  _endfor()   (stop: int or ["S", n] secret)
  ["try", body]                         try/except BaseException, triple probed around it
  ["guarded", cond, body]               guarded(cond)(f)()
  ["raise"]                             user code raises
  ["assert_eq", a, b]                   PrivVal(a).assert_eq(b)
  ["later"]                             try: PrivVal(5).assert_eq(7) ... records whether the false assertion was rejected
  ["breakif", cond]                     try: _breakif(cond) / except AttributeError: refused (nothing changes) / else: accepted
  ["probe", label]                      conjunction probe (see below)
  ["failclose", form, kind, cond, names]  a block statement with a step that FAILS BETWEEN the library's exit() of one arm / iteration and
                                        the enter() of the next, SURVIVED by the caller (try/except around the switching call and the
                                        arm it would have opened), who then CLOSES the statement as usual (`_endif` / `_endwhile` /
                                        `_endfor`, whose own bookkeeping error, if any, is caught too).  form `if`: `_if(cond)`, body,
                                        then kind = `elif-thunk-raises` (`_elif(lambda: <raises KeyError(7)>)`), `elif-thunk-lookup`,
                                        `elif-condition-overflows` (comparison outside the bit length: raises in live code only),
                                        `else-guard-rejected` (`_if(1)`: the complement -2 is refused by add_guard when `_else()` enters
                                        it), `elif-not-callable` (refused before anything happens: control), `elif-ok` (control);
                                        form `while` / `for`: the body assigns a new name in iteration 0, so the SECOND evaluation of the
                                        loop condition raises "conditional write to undefined variables".  The triple is probed before the
                                        statement and after its closing call (probe tag `closed-after-failed-switch` / `closed-normally`)
cond: ["B", v] = PrivValBool(v) | ["C", a, b] = PrivVal(a) < PrivVal(b)

Conjunction probes.  Next to the real run the rendered source keeps a PLAIN-PYTHON model of the nesting (`ST.m`): one 0/1
value per open region -- guarded(c): c; _if(d): d, after _else: not (any earlier arm); _while(w): w, and-ed with the condition
of every re-entry; _range: and of (k != stop) over the iterations so far; an ACCEPTED _breakif(c) and-s (1 - c) into the
innermost enclosing loop, a refused one (the unchanged tree raises AttributeError when the innermost open block is not a
loop) changes nothing.  A probe records the real guard value (no guard = 1), the error-suppression flag, whether LinComb.ONE
is the guard object, whether a false assertion is tolerated, and what the model says: the product of all values, flag =
(product == 0), tolerated = (product == 0).
"""
import sys, os, json, traceback
sys.path.insert(0, os.path.dirname(os.path.abspath(__file__)))
import worker as W
import canon
R = W.R; B = W.B
from pysnark.runtime import LinComb, PrivVal, guarded
from pysnark.boolean import PrivValBool
from pysnark.branching import BranchingValues, _if, _elif, _else, _endif, _while, _endwhile, _range, _endfor, _breakif


class Boom(Exception):
    pass


def triple(p):
    g = "N" if R.guard is None else f"{R.guard.value}:{canon.canon_lc(R.guard.lc, p)}"
    return f"G={g}|IGN={1 if R._ignore_errors else 0}|ONE={LinComb.ONE.value}:{canon.canon_lc(LinComb.ONE.lc, p)}"


def identity():
    return (id(R.guard), R._ignore_errors, id(LinComb.ONE))


class State:
    def __init__(self, p):
        self.p = p
        self.phase = ("body", None, None)   # (kind, block id, api call)
        self.open = []                      # ids of the blocks that are open (opened and not yet handed to their closing call)
        self.report = {"probes": [], "later": []}
        self.keep = []                      # objects kept alive so that id() stays meaningful
        self.m = []                         # plain-Python model of the nesting: [kind, value, any-earlier-arm, block id]
        self.one0 = LinComb.ONE
        self.report["cprobes"] = []; self.report["breakif"] = []
        self.failures = {}                  # `failclose` statements: what their switching / closing calls raised

    # ---- the plain-Python model of the enclosing conditions
    def m_push(self, kind, v, blk=None): self.m.append([kind, int(bool(v)), int(bool(v)), blk])
    def m_pop(self): self.m.pop()
    def m_elif(self, v):
        top = self.m[-1]; top[1] = (1 - top[2]) & int(bool(v)); top[2] |= int(bool(v))
    def m_else(self):
        top = self.m[-1]; top[1] = 1 - top[2]; top[2] = 1
    def m_loop(self, blk, v):
        """first evaluation of a loop condition opens the frame, every later one is and-ed in; always true (used in `while`)"""
        if self.m and self.m[-1][3] == blk and self.m[-1][0] == "loop": self.m[-1][1] &= int(bool(v))
        else: self.m_push("loop", v, blk)
        return True
    def m_break(self, v):
        for fr in reversed(self.m):
            if fr[0] == "loop":
                fr[1] &= 1 - int(bool(v)); return
    def m_product(self):
        r = 1
        for fr in self.m: r &= fr[1]
        return r

    def cprobe(self, label):
        g = R.guard
        rec = {"label": label, "guard": 1 if g is None else g.value, "ign": bool(R._ignore_errors),
               "one_is_guard": (LinComb.ONE is g) if g is not None else (LinComb.ONE is self.one0),
               "expect": self.m_product(), "nesting": [[fr[0], fr[1]] for fr in self.m], "triple": triple(self.p)}
        try:
            PrivVal(5).assert_eq(7); rec["false_assertion"] = "tolerated"
        except AssertionError:
            rec["false_assertion"] = "rejected"
        self.report["cprobes"].append(rec)

    def enter_try(self):
        snap = (triple(self.p), identity(), list(self.open), R.guard, LinComb.ONE, len(self.ctx.stack), len(self.m))
        self.keep.append(snap)
        return snap

    def leave_try(self, snap, exc):
        before, ident, open_before, _, _, depth, mdepth = snap
        if exc is not None: del self.m[mdepth:]
        after = triple(self.p)
        kind, blk, call = self.phase
        unwound = [b for b in self.open if b not in open_before]
        if exc is None:
            tag = "no-exception"
        elif kind in ("close", "switch") and all(b == blk for b in unwound):
            tag = "closing-call"
        elif unwound:
            tag = "open-region"
        else:
            tag = "other"
        same = after == before and identity() == ident
        self.report["probes"].append({"tag": tag, "restored": same, "before": before, "after": after,
                                      "objects_differ_only": after == before and not same,
                                      "exc": None if exc is None else f"{type(exc).__name__}: {str(exc)[:80]}",
                                      "call": call if exc is not None and kind != "body" else None,
                                      "unwound_blocks": len(unwound)})
        # the blocks this exception left behind are abandoned: later statements do not belong to them.  A switching call that
        # raised leaves its context on the BranchingValues stack (the library has no call to abandon a block); the harness drops
        # such bracket-matching entries so that the enclosing blocks can still be closed.  The guard state is not touched.
        if exc is not None:
            del self.ctx.stack[depth:]
        self.open = [b for b in self.open if b in open_before]
        self.phase = ("body", self.open[-1] if self.open else None, None)


    def boom(self):
        raise KeyError(7)

    def stmt_failed(self, n, exc, where):
        self.failures.setdefault(n, []).append(f"{where}: {type(exc).__name__}: {str(exc)[:80]}")

    def leave_stmt(self, snap, n, kind):
        """after the closing call of a `failclose` statement: the triple must be the one from before the statement"""
        before, ident = snap[0], snap[1]
        after = triple(self.p)
        same = after == before and identity() == ident
        fl = self.failures.get(n, [])
        switch_failed = any(x.startswith("switch") for x in fl)
        self.report["probes"].append({"tag": "closed-after-failed-switch" if switch_failed else "closed-normally", "restored": same,
                                      "before": before, "after": after, "objects_differ_only": after == before and not same,
                                      "exc": " / ".join(fl) or None, "call": kind, "unwound_blocks": 0})


FAIL_SWITCH = {
    "elif-thunk-raises": "_elif(lambda: ST.boom(), ctx=_)",
    "elif-thunk-lookup": "_elif(lambda: {1: PrivValBool(1)}[7], ctx=_)",
    "elif-condition-overflows": "_elif(lambda: PrivVal(300) < PrivVal(5), ctx=_)",
    "else-guard-rejected": "_else(ctx=_)",
    "elif-not-callable": "_elif(PrivValBool(1), ctx=_)",
    "elif-ok": "_elif(lambda: PrivValBool(1), ctx=_)",
}


def render_failclose(s, pad, out, n):
    form, kind, c, names = s[1], s[2], s[3], s[4]
    out.append(f"{pad}fsnap{n} = ST.enter_try()")
    sets = lambda ind, v: [f"{pad}{'    ' * ind}_.{nm} = PrivVal({v})" for nm in names] or [f"{pad}{'    ' * ind}pass"]
    if form == "if":
        pub1 = kind == "else-guard-rejected"
        out.append(f"{pad}_if({'1' if pub1 else cond_src(c)}, ctx=_); ST.m_push('if', {1 if pub1 else cond_val(c)})")
        out.extend(sets(0, 4))
        out.append(f"{pad}try:")
        out.append(f"{pad}    {FAIL_SWITCH[kind]}")
        out.extend(sets(1, 5))
        out.append(f"{pad}except BaseException as fexc{n}:")
        out.append(f"{pad}    ST.stmt_failed({n}, fexc{n}, 'switch')")
        close = "_endif"
    elif form == "while":
        out.append(f"{pad}fk{n} = 0")
        out.append(f"{pad}try:")
        out.append(f"{pad}    while _while({cond_src(c)}, ctx=_) and fk{n} < 2:")
        out.append(f"{pad}        if fk{n} == 0: _.{kind.split(':')[1]} = PrivVal(3)")
        out.extend(sets(2, 6))
        out.append(f"{pad}        fk{n} += 1")
        out.append(f"{pad}except BaseException as fexc{n}:")
        out.append(f"{pad}    ST.stmt_failed({n}, fexc{n}, 'switch')")
        out.append(f"{pad}ST.m_push('loop', 1)")
        close = "_endwhile"
    else:
        stop = f"PrivVal({int(c[1])})" if isinstance(c, list) else str(int(c))
        out.append(f"{pad}fk{n} = 0")
        out.append(f"{pad}try:")
        out.append(f"{pad}    for fi{n} in _range({stop}, max=2, ctx=_):")
        out.append(f"{pad}        if fk{n} == 0: _.{kind.split(':')[1]} = PrivVal(3)")
        out.extend(sets(2, 6))
        out.append(f"{pad}        fk{n} += 1")
        out.append(f"{pad}except BaseException as fexc{n}:")
        out.append(f"{pad}    ST.stmt_failed({n}, fexc{n}, 'switch')")
        out.append(f"{pad}ST.m_push('loop', 1)")
        close = "_endfor"
    out.append(f"{pad}try:")
    out.append(f"{pad}    {close}(ctx=_)")
    out.append(f"{pad}except BaseException as fexc{n}:")
    out.append(f"{pad}    ST.stmt_failed({n}, fexc{n}, 'close')")
    out.append(f"{pad}ST.m_pop()")
    out.append(f"{pad}ST.leave_stmt(fsnap{n}, {n}, {kind!r})")


def cond_src(c):
    if c[0] == "B":
        return f"PrivValBool({int(c[1])})"
    if c[0] == "C":
        return f"(PrivVal({int(c[1])}) < PrivVal({int(c[2])}))"
    raise ValueError(c)


def cond_val(c):
    """the 0/1 value of a condition specification (for the plain-Python model)"""
    return int(bool(c[1])) if c[0] == "B" else int(int(c[1]) < int(c[2]))


def render(stmts, ind, out, ctr, loopvar=None):
    pad = "    " * ind
    for s in stmts:
        t = s[0]
        if t == "set":
            out.append(f"{pad}_.{s[1]} = PrivVal({int(s[2])})")
        elif t == "setk":
            if loopvar is None:
                out.append(f"{pad}_.{s[1]} = PrivVal({int(s[2])})")
            else:
                out.append(f"{pad}if {loopvar} == {int(s[3])}: _.{s[1]} = PrivVal({int(s[2])})")
        elif t == "raise":
            out.append(f"{pad}raise Boom()")
        elif t == "probe":
            out.append(f"{pad}ST.cprobe({s[1]!r})")
        elif t == "failclose":
            ctr[0] += 1
            render_failclose(s, pad, out, ctr[0])
        elif t == "breakif":
            out.append(f"{pad}try:")
            out.append(f"{pad}    _breakif({cond_src(s[1])}, ctx=_)")
            out.append(f"{pad}except AttributeError as brk:")
            out.append(f"{pad}    ST.report['breakif'].append('refused: ' + str(brk)[:70])")
            out.append(f"{pad}else:")
            out.append(f"{pad}    ST.report['breakif'].append('accepted'); ST.m_break({cond_val(s[1])})")
        elif t == "assert_eq":
            out.append(f"{pad}PrivVal({int(s[1])}).assert_eq({int(s[2])})")
        elif t == "later":
            out.append(f"{pad}try:")
            out.append(f"{pad}    PrivVal(5).assert_eq(7)")
            out.append(f"{pad}    ST.report['later'].append('accepted')")
            out.append(f"{pad}except AssertionError:")
            out.append(f"{pad}    ST.report['later'].append('rejected')")
        elif t == "try":
            ctr[0] += 1; n = ctr[0]
            out.append(f"{pad}snap{n} = ST.enter_try()")
            out.append(f"{pad}try:")
            render(s[1], ind + 1, out, ctr, loopvar); out.append(f"{pad}    pass")
            out.append(f"{pad}except BaseException as exc{n}:")
            out.append(f"{pad}    if isinstance(exc{n}, (SystemExit, KeyboardInterrupt)): raise")
            out.append(f"{pad}    ST.leave_try(snap{n}, exc{n})")
            out.append(f"{pad}else:")
            out.append(f"{pad}    ST.leave_try(snap{n}, None)")
        elif t == "guarded":
            ctr[0] += 1; n = ctr[0]
            out.append(f"{pad}def fn{n}():")
            out.append(f"{pad}    ST.m_push('guarded', {cond_val(s[1])})")
            render(s[2], ind + 1, out, ctr, loopvar); out.append(f"{pad}    ST.m_pop()")
            out.append(f"{pad}guarded({cond_src(s[1])})(fn{n})()")
        elif t == "if":
            ctr[0] += 1; n = ctr[0]
            for k, (c, body) in enumerate(s[1]):
                if k == 0:
                    out.append(f"{pad}c{n} = {cond_src(c)}")
                    out.append(f"{pad}ST.phase = ('open', {n}, '_if')")
                    out.append(f"{pad}_if(c{n}, ctx=_)")
                    out.append(f"{pad}ST.open.append({n}); ST.m_push('if', {cond_val(c)})")
                else:
                    out.append(f"{pad}ST.phase = ('switch', {n}, '_elif')")
                    out.append(f"{pad}_elif(lambda: {cond_src(c)}, ctx=_); ST.m_elif({cond_val(c)})")
                out.append(f"{pad}ST.phase = ('body', {n}, None)")
                render(body, ind, out, ctr, loopvar)
            if s[2] is not None:
                out.append(f"{pad}ST.phase = ('switch', {n}, '_else')")
                out.append(f"{pad}_else(ctx=_); ST.m_else()")
                out.append(f"{pad}ST.phase = ('body', {n}, None)")
                render(s[2], ind, out, ctr, loopvar)
            out.append(f"{pad}ST.phase = ('close', {n}, '_endif'); ST.open.remove({n})")
            out.append(f"{pad}_endif(ctx=_); ST.m_pop()")
            out.append(f"{pad}ST.phase = ('body', ST.open[-1] if ST.open else None, None)")
        elif t == "while":
            ctr[0] += 1; n = ctr[0]
            out.append(f"{pad}k{n} = 0")
            out.append(f"{pad}ST.phase = ('open', {n}, '_while')")
            out.append(f"{pad}while _while({cond_src(s[1])}, ctx=_) and ST.m_loop({n}, {cond_val(s[1])}) and k{n} < {int(s[2])}:")
            out.append(f"{pad}    if k{n} == 0: ST.open.append({n})")
            out.append(f"{pad}    ST.phase = ('body', {n}, None)")
            render(s[3], ind + 1, out, ctr, f"k{n}")
            out.append(f"{pad}    k{n} += 1")
            out.append(f"{pad}    ST.phase = ('switch', {n}, '_while (next iteration)')")
            out.append(f"{pad}if {n} not in ST.open: ST.open.append({n})")
            out.append(f"{pad}ST.phase = ('close', {n}, '_endwhile'); ST.open.remove({n})")
            out.append(f"{pad}_endwhile(ctx=_); ST.m_pop()")
            out.append(f"{pad}ST.phase = ('body', ST.open[-1] if ST.open else None, None)")
        elif t == "for":
            ctr[0] += 1; n = ctr[0]
            stop = f"PrivVal({int(s[1][1])})" if isinstance(s[1], list) else str(int(s[1]))
            mx = "" if s[2] is None else f", max={int(s[2])}"
            out.append(f"{pad}k{n} = 0")
            out.append(f"{pad}ST.phase = ('open', {n}, '_range')")
            out.append(f"{pad}for i{n} in _range({stop}{mx}, ctx=_):")
            out.append(f"{pad}    if k{n} == 0: ST.open.append({n})")
            out.append(f"{pad}    ST.m_loop({n}, k{n} != {int(s[1][1]) if isinstance(s[1], list) else int(s[1])})")
            out.append(f"{pad}    ST.phase = ('body', {n}, None)")
            render(s[3], ind + 1, out, ctr, f"k{n}")
            out.append(f"{pad}    k{n} += 1")
            out.append(f"{pad}    ST.phase = ('switch', {n}, '_range (next iteration)')")
            out.append(f"{pad}if {n} in ST.open:")
            out.append(f"{pad}    ST.phase = ('close', {n}, '_endfor'); ST.open.remove({n})")
            out.append(f"{pad}    _endfor(ctx=_); ST.m_pop()")
            out.append(f"{pad}ST.phase = ('body', ST.open[-1] if ST.open else None, None)")
        else:
            raise ValueError(t)


def source(stmts):
    out = ["_ = BranchingValues()", "ST.ctx = _"]
    render(stmts, 0, out, [0])
    return "\n".join(out) + "\n"


def main():
    for line in sys.stdin:
        f = line.rstrip("\n").split("|", 3)
        ctx = None
        try:
            cfg = dict((k, int(v)) for k, v in (kv.split("=") for kv in f[2].split(",")))
            W.reset({"p": cfg["p"], "bl": cfg["bl"]})
            if cfg.get("ign"):
                R.ignore_errors(True)       # configuration `ign=1`: the user selected the error-suppression mode before the history
            stmts = json.loads(f[3])
            src = source(stmts)
            st = State(cfg["p"])
            env = {"ST": st, "PrivVal": PrivVal, "PrivValBool": PrivValBool, "guarded": guarded, "Boom": Boom,
                   "BranchingValues": BranchingValues, "_if": _if, "_elif": _elif, "_else": _else, "_endif": _endif,
                   "_while": _while, "_endwhile": _endwhile, "_range": _range, "_endfor": _endfor, "_breakif": _breakif}
            status = "ok"
            try:
                exec(compile(src, "<history>", "exec"), env)
            except BaseException as x:
                if isinstance(x, (SystemExit, KeyboardInterrupt)): raise
                status = f"raised:{type(x).__name__}"
            ctx = env.get("_")
            st.report["source"] = src
            out = (f"{f[1]}|{status}|{triple(cfg['p'])}|NPRIV={len(B.privvals)}|NCONS={len(B.constraints)}|"
                   + json.dumps(st.report))
        except BaseException as e:
            if isinstance(e, (KeyboardInterrupt, SystemExit)): raise
            out = f"{f[1] if len(f) > 1 else '?'}|harness-error|{type(e).__name__}: {e}|{traceback.format_exc().splitlines()[-3:]}"
        finally:
            if ctx is not None and isinstance(ctx, BranchingValues):
                del ctx.stack[:]        # abandoned contexts: BranchingValues.__del__ would complain at collection time
        sys.stdout.write(out + "\n"); sys.stdout.flush()


if __name__ == "__main__":
    main()
