"""Worker for the serialiser properties (C10 snarkjs, C11 zkinterface): runs a program (or installs
a trace directly) on the selected real backend, calls its real prove() in a scratch directory and
returns the recorded trace and the bytes written."""
import sys, os, io, tempfile, shutil, contextlib
sys.path.insert(0, os.path.dirname(os.path.abspath(__file__)))
import worker as W      # program interpreter over the real pysnark (imports pysnark.runtime)

B = W.B


def trace_str():
    cons = ";".join("#".join(",".join(f"{k}:{v}" for k, v in l.lc.items()) for l in c) for c in B.constraints)
    return f"{','.join(map(str, B.pubvals))}|{','.join(map(str, B.privvals))}|{cons}"


def prove_here():
    d = tempfile.mkdtemp(prefix="verif-prove-")
    cwd = os.getcwd()
    os.chdir(d)
    try:
        with contextlib.redirect_stderr(io.StringIO()), contextlib.redirect_stdout(io.StringIO()):
            B.prove()
        out = {}
        for f in sorted(os.listdir(d)):
            out[f] = open(os.path.join(d, f), "rb").read().hex()
        return out
    finally:
        os.chdir(cwd)
        shutil.rmtree(d, ignore_errors=True)


def main():
    for line in sys.stdin:
        f = line.rstrip("\n").split("|")
        try:
            if f[0] == "M":
                out = f"{f[1]}|{B.get_modulus()}"
            elif f[0] == "P":            # run a program, then prove
                res = W.handle_prog(f[1:])
                status = res.split("|")[1]
                files = prove_here()
                out = f"{f[1]}|{status}|{B.get_modulus()}|{trace_str()}|" + "|".join(f"{k}={v}" for k, v in files.items())
            elif f[0] == "JT":         # install a trace directly: JT|id|p|pubs|privs|cons
                W.reset({"p": int(f[2])})
                B.pubvals.extend(int(x) for x in f[3].split(",") if x)
                B.privvals.extend(int(x) for x in f[4].split(",") if x)
                for c in [c for c in f[5].split(";") if c]:
                    lcs = []
                    for l in c.split("#"):
                        lcs.append(B.LinearCombination({int(kv.split(":")[0]): int(kv.split(":")[1]) for kv in l.split(",") if kv}))
                    B.constraints.append(lcs)
                files = prove_here()
                out = f"{f[1]}|ok|{B.get_modulus()}|{trace_str()}|" + "|".join(f"{k}={v}" for k, v in files.items())
            else:
                out = "bad-line"
        except BaseException as e:
            if isinstance(e, (KeyboardInterrupt, SystemExit)): raise
            import traceback
            out = f"{f[1] if len(f) > 1 else '?'}|harness-error|{type(e).__name__}: {e}|{traceback.format_exc().splitlines()[-2:]}"
        sys.stdout.write(out + "\n"); sys.stdout.flush()


if __name__ == "__main__":
    main()
