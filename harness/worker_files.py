"""Worker for the serialiser properties (C10 snarkjs, C11 zkinterface): runs a program (or installs
a trace through the backend's own entry points) on the selected real backend, calls its real
prove() in a scratch directory and returns the recorded trace and the bytes written.

Line kinds
  M|id                                   modulus of the selected backend
  P|id|cfg|program                       run a program (harness/worker.py), then prove() in a fresh directory
  JT|id|p|pubs|privs|cons                install a trace with pubval()/privval()/add_constraint(), then prove() in a fresh directory
  JS|id|p|<json [stage, ...]>            several exports in ONE process and ONE directory: every stage = {"pub": [...], "priv": [...],
                                         "cons": "..."} is appended to the trace through the same entry points and followed by prove();
                                         reply: id|ok|p|<json [{"trace": "pubs|privs|cons", "files": {name: hex}}, ...]>
  JQ|id|p|<json {"pre": {name: hex}, "runs": [trace, ...]}>
                                         a SEQUENCE of independent runs sharing ONE directory (what successive scripts started in the
                                         same working directory do): `pre` = files that exist before the first run; before every run the
                                         trace is cleared; after its prove() the directory is read, and the same trace is also exported
                                         into a fresh empty directory; reply: id|ok|p|<json [{"trace", "files", "fresh"}, ...]>
A file that prove() did not (re)write is simply absent from / unchanged in the reply: judging that is the check's business."""
import sys, os, io, json, tempfile, shutil, contextlib
sys.path.insert(0, os.path.dirname(os.path.abspath(__file__)))
import worker as W      # program interpreter over the real pysnark (imports pysnark.runtime)

B = W.B


def trace_str():
    cons = ";".join("#".join(",".join(f"{k}:{v}" for k, v in l.lc.items()) for l in c) for c in B.constraints)
    return f"{','.join(map(str, B.pubvals))}|{','.join(map(str, B.privvals))}|{cons}"


def read_dir(d):
    out = {}
    for f in sorted(os.listdir(d)):
        out[f] = open(os.path.join(d, f), "rb").read().hex()
    return out


def prove_in(d):
    cwd = os.getcwd()
    os.chdir(d)
    try:
        raised = None
        with contextlib.redirect_stderr(io.StringIO()), contextlib.redirect_stdout(io.StringIO()):
            try:
                B.prove()
            except Exception as e:       # an export that raises on a recorded trace is an observation, not a harness failure
                raised = f"{type(e).__name__}: {e}"
        out = read_dir(d)
        if raised is not None:
            out["!raised"] = raised.encode().hex()
        return out
    finally:
        os.chdir(cwd)


def prove_here():
    d = tempfile.mkdtemp(prefix="verif-prove-")
    try:
        return prove_in(d)
    finally:
        shutil.rmtree(d, ignore_errors=True)


def install(pubs, privs, cons):
    """append to the trace through the backend's own entry points (what runtime.py calls)"""
    for x in pubs:
        B.pubval(int(x))
    for x in privs:
        B.privval(int(x))
    for c in [c for c in cons.split(";") if c]:
        lcs = []
        for l in c.split("#"):
            lcs.append(B.LinearCombination({int(kv.split(":")[0]): int(kv.split(":")[1]) for kv in l.split(",") if kv}))
        B.add_constraint(*lcs)


def main():
    for line in sys.stdin:
        f = line.rstrip("\n").split("|")
        try:
            if f[0] == "M":
                out = f"{f[1]}|{B.get_modulus()}"
            elif f[0] == "P":            # run a program, then prove
                res = W.handle_prog(f[1:])
                status = res.split("|")[1]
                files = prove_here()
                out = f"{f[1]}|{status}|{B.get_modulus()}|{trace_str()}|" + "|".join(f"{k}={v}" for k, v in files.items())
            elif f[0] == "JT":         # install a trace: JT|id|p|pubs|privs|cons
                W.reset({"p": int(f[2])})
                install([x for x in f[3].split(",") if x], [x for x in f[4].split(",") if x], f[5])
                files = prove_here()
                out = f"{f[1]}|ok|{B.get_modulus()}|{trace_str()}|" + "|".join(f"{k}={v}" for k, v in files.items())
            elif f[0] == "JS":         # several exports of a growing trace in one process and one directory
                W.reset({"p": int(f[2])})
                stages = json.loads(line.rstrip("\n").split("|", 3)[3])
                d = tempfile.mkdtemp(prefix="verif-prove-")
                res = []
                try:
                    for st in stages:
                        install(st.get("pub", []), st.get("priv", []), st.get("cons", ""))
                        res.append({"trace": trace_str(), "files": prove_in(d)})
                finally:
                    shutil.rmtree(d, ignore_errors=True)
                out = f"{f[1]}|ok|{B.get_modulus()}|" + json.dumps(res)
            elif f[0] == "JQ":         # independent runs one after the other in one directory, optionally over pre-existing files
                spec = json.loads(line.rstrip("\n").split("|", 3)[3])
                d = tempfile.mkdtemp(prefix="verif-prove-")
                res = []
                try:
                    for name, hx in spec.get("pre", {}).items():
                        with open(os.path.join(d, name), "wb") as fh:
                            fh.write(bytes.fromhex(hx))
                    for st in spec["runs"]:
                        W.reset({"p": int(f[2])})
                        install(st.get("pub", []), st.get("priv", []), st.get("cons", ""))
                        res.append({"trace": trace_str(), "files": prove_in(d), "fresh": prove_here()})
                finally:
                    shutil.rmtree(d, ignore_errors=True)
                out = f"{f[1]}|ok|{B.get_modulus()}|" + json.dumps(res)
            else:
                out = "bad-line"
        except BaseException as e:
            if isinstance(e, (KeyboardInterrupt, SystemExit)): raise
            import traceback
            out = f"{f[1] if len(f) > 1 else '?'}|harness-error|{type(e).__name__}: {e}|{traceback.format_exc().splitlines()[-2:]}"
        sys.stdout.write(out + "\n"); sys.stdout.flush()


if __name__ == "__main__":
    main()
