"""Worker for the serialiser properties (C10 snarkjs, C11 zkinterface): runs a program (or installs
a trace through the backend's own entry points) on the selected real backend, calls its real
prove() in a scratch directory and returns the recorded trace and the bytes written.

Line kinds
  M|id                                   modulus of the selected backend
  P|id|cfg|program                       run a program (harness/worker.py), then prove() in a fresh directory
  JT|id|p|pubs|privs|cons                install a trace with pubval()/privval()/add_constraint(), then prove() in a fresh directory
  JS|id|p|<json [stage, ...]>            several exports in ONE process and ONE directory: every stage = {"pub": [...], "priv": [...],
                                         "cons": "..."} is appended to the trace through the same entry points and followed by prove();
                                         reply: id|ok|p|<json [{"trace": "pubs|privs|cons", "files": {name: hex}}, ...]>
  JQ|id|p|<json {"pre": {name: hex}, "runs": [trace, ...]}>
                                         a SEQUENCE of independent runs sharing ONE directory (what successive scripts started in the
                                         same working directory do): `pre` = files that exist before the first run; before every run the
                                         trace is cleared; after its prove() the directory is read, and the same trace is also exported
                                         into a fresh empty directory; reply: id|ok|p|<json [{"trace", "files", "fresh"}, ...]>
  JF|id|p|<json {"runs": [{"pub", "priv", "cons", "fault": null | {"kind": ..., "name": ...}}, ...]}>
                                         independent runs in ONE process, each in its own fresh directory; a run with a `fault` meets an
                                         obstacle at the WRITE stage of prove(): kind `directory-in-the-way` (a directory called `name`
                                         where the file is to be written), `dangling-link` (`name` is a symbolic link into a directory that
                                         does not exist), `directory-removed` (the working directory is deleted before prove()); prove()
                                         is expected to raise there and the caller carries on (what a notebook / a retry loop does); the
                                         runs after it are judged like any other export; reply: id|ok|p|<json [{"trace", "files"}, ...]>
  JM|id|p0|<json {"pub": [...], "priv": [...], "cons": [[lc, lc, lc], ...], "fields": [q, ...], "how": "set_modulus" | "import"}>
                                         ONE trace exported under SEVERAL fields in one process: the trace is built with the field p0
                                         current, every lc = [[sign, wire, coefficient], ...] is computed with the backend's own
                                         LinearCombination algebra from the objects pubval()/privval()/one() returned (wire * coefficient,
                                         then `+` / `-` / unary minus in the order given), then for every q of `fields` the field is
                                         switched (zkinterface: set_modulus(q), or importing/reloading the field module that does it;
                                         snarkjs: snarkjsp) and prove() called in a fresh directory; reply: id|ok|p0|<json [{"p", "files"}, ...]>
A file that prove() did not (re)write is simply absent from / unchanged in the reply: judging that is the check's business."""
import sys, os, io, json, tempfile, shutil, contextlib
sys.path.insert(0, os.path.dirname(os.path.abspath(__file__)))
import worker as W      # program interpreter over the real pysnark (imports pysnark.runtime)

B = W.B


def trace_str():
    cons = ";".join("#".join(",".join(f"{k}:{v}" for k, v in l.lc.items()) for l in c) for c in B.constraints)
    return f"{','.join(map(str, B.pubvals))}|{','.join(map(str, B.privvals))}|{cons}"


def read_dir(d):
    out = {}
    if not os.path.isdir(d):
        return out
    for f in sorted(os.listdir(d)):
        if os.path.isfile(os.path.join(d, f)):       # obstacles put there by a JF fault (directories, dangling links) are not output
            out[f] = open(os.path.join(d, f), "rb").read().hex()
    return out


def prove_in(d):
    cwd = os.getcwd()
    os.chdir(d)
    try:
        raised = None
        with contextlib.redirect_stderr(io.StringIO()), contextlib.redirect_stdout(io.StringIO()):
            try:
                B.prove()
            except Exception as e:       # an export that raises on a recorded trace is an observation, not a harness failure
                raised = f"{type(e).__name__}: {e}"
        out = read_dir(d)
        if raised is not None:
            out["!raised"] = raised.encode().hex()
        return out
    finally:
        os.chdir(cwd)


def prove_here():
    d = tempfile.mkdtemp(prefix="verif-prove-")
    try:
        return prove_in(d)
    finally:
        shutil.rmtree(d, ignore_errors=True)


def prove_with_fault(fault):
    """a run whose prove() meets an obstacle at the write stage (JF lines); the obstacle is gone with the run's directory"""
    d = tempfile.mkdtemp(prefix="verif-prove-")
    try:
        if fault:
            kind, name = fault["kind"], fault.get("name", "")
            if kind == "directory-in-the-way":
                os.mkdir(os.path.join(d, name))
            elif kind == "dangling-link":
                os.symlink(os.path.join(d, "no-such-directory", name), os.path.join(d, name))
            elif kind == "directory-removed":
                sub = os.path.join(d, "gone"); os.mkdir(sub)
                cwd = os.getcwd(); os.chdir(sub); os.rmdir(sub)
                try:
                    raised = None
                    with contextlib.redirect_stderr(io.StringIO()), contextlib.redirect_stdout(io.StringIO()):
                        try:
                            B.prove()
                        except Exception as e:
                            raised = f"{type(e).__name__}: {e}"
                finally:
                    os.chdir(cwd)
                out = read_dir(sub)
                if raised is not None:
                    out["!raised"] = raised.encode().hex()
                return out
            else:
                raise ValueError("unknown fault " + kind)
        return prove_in(d)
    finally:
        shutil.rmtree(d, ignore_errors=True)


def switch_field(q, how):
    """make q the current field the way an application would"""
    name = B.__name__
    if name.startswith("pysnark.zkinterface") and how == "import":
        import importlib
        mod = {52435875175126190479447740508185965837690552500527637822603658699938581184513: "pysnark.zkinterface.backendbellman",
               7237005577332262213973186563042994240857116359379907606001950938285454250989: "pysnark.zkinterface.backendbulletproofs"}.get(q)
        if mod:
            if mod in sys.modules and sys.modules[mod] is not B:
                importlib.reload(sys.modules[mod])       # the module body is what calls set_modulus
            elif mod not in sys.modules:
                importlib.import_module(mod)
            if B.get_modulus() == q:
                return
    W.set_modulus(q)


def build_lc(spec, wires):
    """[[sign, wire, coefficient], ...] through the backend's LinearCombination operators"""
    acc = None
    for sign, k, c in spec:
        t = wires[int(k)] * int(c)
        if acc is None:
            acc = t if int(sign) > 0 else -t
        else:
            acc = acc + t if int(sign) > 0 else acc - t
    return acc if acc is not None else B.zero()


def install(pubs, privs, cons):
    """append to the trace through the backend's own entry points (what runtime.py calls)"""
    for x in pubs:
        B.pubval(int(x))
    for x in privs:
        B.privval(int(x))
    for c in [c for c in cons.split(";") if c]:
        lcs = []
        for l in c.split("#"):
            lcs.append(B.LinearCombination({int(kv.split(":")[0]): int(kv.split(":")[1]) for kv in l.split(",") if kv}))
        B.add_constraint(*lcs)


def main():
    for line in sys.stdin:
        f = line.rstrip("\n").split("|")
        try:
            if f[0] == "M":
                out = f"{f[1]}|{B.get_modulus()}"
            elif f[0] == "P":            # run a program, then prove
                res = W.handle_prog(f[1:])
                status = res.split("|")[1]
                files = prove_here()
                out = f"{f[1]}|{status}|{B.get_modulus()}|{trace_str()}|" + "|".join(f"{k}={v}" for k, v in files.items())
            elif f[0] == "JT":         # install a trace: JT|id|p|pubs|privs|cons
                W.reset({"p": int(f[2])})
                install([x for x in f[3].split(",") if x], [x for x in f[4].split(",") if x], f[5])
                files = prove_here()
                out = f"{f[1]}|ok|{B.get_modulus()}|{trace_str()}|" + "|".join(f"{k}={v}" for k, v in files.items())
            elif f[0] == "JS":         # several exports of a growing trace in one process and one directory
                W.reset({"p": int(f[2])})
                stages = json.loads(line.rstrip("\n").split("|", 3)[3])
                d = tempfile.mkdtemp(prefix="verif-prove-")
                res = []
                try:
                    for st in stages:
                        install(st.get("pub", []), st.get("priv", []), st.get("cons", ""))
                        res.append({"trace": trace_str(), "files": prove_in(d)})
                finally:
                    shutil.rmtree(d, ignore_errors=True)
                out = f"{f[1]}|ok|{B.get_modulus()}|" + json.dumps(res)
            elif f[0] == "JQ":         # independent runs one after the other in one directory, optionally over pre-existing files
                spec = json.loads(line.rstrip("\n").split("|", 3)[3])
                d = tempfile.mkdtemp(prefix="verif-prove-")
                res = []
                try:
                    for name, hx in spec.get("pre", {}).items():
                        with open(os.path.join(d, name), "wb") as fh:
                            fh.write(bytes.fromhex(hx))
                    for st in spec["runs"]:
                        W.reset({"p": int(f[2])})
                        install(st.get("pub", []), st.get("priv", []), st.get("cons", ""))
                        res.append({"trace": trace_str(), "files": prove_in(d), "fresh": prove_here()})
                finally:
                    shutil.rmtree(d, ignore_errors=True)
                out = f"{f[1]}|ok|{B.get_modulus()}|" + json.dumps(res)
            elif f[0] == "JF":         # runs in one process, some of which fail at the write stage
                spec = json.loads(line.rstrip("\n").split("|", 3)[3])
                res = []
                for st in spec["runs"]:
                    W.reset({"p": int(f[2])})
                    install(st.get("pub", []), st.get("priv", []), st.get("cons", ""))
                    res.append({"trace": trace_str(), "files": prove_with_fault(st.get("fault"))})
                out = f"{f[1]}|ok|{B.get_modulus()}|" + json.dumps(res)
            elif f[0] == "JM":         # one trace, built with the backend's LC algebra, exported under several fields
                spec = json.loads(line.rstrip("\n").split("|", 3)[3])
                W.reset({"p": int(f[2])})
                wires = {0: B.one()}
                for i, x in enumerate(spec["pub"]):
                    wires[i + 1] = B.pubval(int(x))
                for i, x in enumerate(spec["priv"]):
                    wires[-(i + 1)] = B.privval(int(x))
                for c in spec["cons"]:
                    B.add_constraint(*[build_lc(l, wires) for l in c])
                res = []
                try:
                    for q in spec["fields"]:
                        switch_field(int(q), spec.get("how", "set_modulus"))
                        res.append({"p": B.get_modulus(), "files": prove_here()})
                finally:
                    W.set_modulus(int(f[2]))
                out = f"{f[1]}|ok|{f[2]}|" + json.dumps(res)
            else:
                out = "bad-line"
        except BaseException as e:
            if isinstance(e, (KeyboardInterrupt, SystemExit)): raise
            import traceback
            out = f"{f[1] if len(f) > 1 else '?'}|harness-error|{type(e).__name__}: {e}|{traceback.format_exc().splitlines()[-2:]}"
        sys.stdout.write(out + "\n"); sys.stdout.flush()


if __name__ == "__main__":
    main()
