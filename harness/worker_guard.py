"""Worker for C08: executes guard histories against the REAL runtime.guarded / add_guard /
restore_guard, probing the guard triple around every region (the direct oracle).

Every `G:` region builds ONE decorator object `dec = guarded(cond)` and ONE decorated function
`f = dec(fn)`; the region is the call `f(body)`.  `R(` … `)` inside it is a call of that same `f`
from within `fn` (recursion of a decorated function), `RS(` … `)` decorates another function with
the same `dec` and calls it (one decorator object shared by caller and callee).  Both activate the
decorator object again while it is active; the triple is probed around these activations too.

`F:<k>:<c>(` then-events `/` else-events `)` is a selection whose branches are FUNCTIONS, run through the library's own
`pysnark.branching.if_then_else(cond, f, g)`: a third way of entering a region besides guarded() and the block API (`FT:` only
the then branch is a function, `FE:` only the else branch; the other one is the int 7).  The triple is probed around the call,
whichever way it ends.

Configuration `ign=1`: the USER has selected the error-suppression mode through the real API
`pysnark.runtime.ignore_errors(True)` before the history starts; it is part of the triple every region has to bring back."""
import sys, os
sys.path.insert(0, os.path.dirname(os.path.abspath(__file__)))
import worker as W
import canon
R = W.R; B = W.B
from pysnark.runtime import LinComb, PrivVal, guarded, add_guard, restore_guard
from pysnark.boolean import PrivValBool
from pysnark.branching import if_then_else


class Boom(Exception):
    pass


class BaseBoom(BaseException):
    """like KeyboardInterrupt / SystemExit: not an Exception subclass"""
    pass


class StrBoom(Exception):
    """an application exception with its own __str__ (its args are not its message)"""

    def __str__(self):
        return "StrBoom<%d>" % len(self.args)


def _r(exc):
    raise exc


def _assert(*msg):
    if msg:
        assert False, msg[0]
    assert False


# `!x:<kind>`: exceptions of MANY classes and argument shapes, raised explicitly or by an ordinary failing Python operation of the body
# (a table lookup on a dummy value, a parse, a file operation): no arguments, int / tuple / None / bytes / float / exception first
# argument, several arguments, BaseException subclasses that are no Exception, classes with their own __str__
RAISERS = {
    "no-args": lambda: _r(ValueError()),
    "class-only": lambda: _r(ValueError),
    "str": lambda: _r(RuntimeError("boom")),
    "int": lambda: _r(KeyError(7)),
    "none": lambda: _r(Exception(None)),
    "tuple-arg": lambda: _r(ValueError((1, 2))),
    "two-args": lambda: _r(RuntimeError("msg", 5)),
    "int-str": lambda: _r(OSError(2, "No such file or directory")),
    "bytes": lambda: _r(Exception(b"raw")),
    "float": lambda: _r(ArithmeticError(0.5)),
    "exc-arg": lambda: _r(RuntimeError(ValueError("inner"))),
    "custom-str": lambda: _r(StrBoom(4, "x")),
    "custom-str-noargs": lambda: _r(StrBoom()),
    "stop-iteration": lambda: _r(StopIteration(4)),
    "sysexit-int": lambda: sys.exit(3),
    "sysexit-none": lambda: sys.exit(),
    "sysexit-str": lambda: sys.exit("bye"),
    "keyboard-interrupt": lambda: _r(KeyboardInterrupt()),
    "generator-exit": lambda: _r(GeneratorExit()),
    "base-int": lambda: _r(BaseBoom(9)),
    "dict-lookup": lambda: {1: 2}[7],
    "dict-lookup-tuple": lambda: {}[(1, 2)],
    "list-index": lambda: [10, 20][3],
    "int-parse": lambda: int("x"),
    "zero-div": lambda: 1 // 0,
    "os-error": lambda: os.stat("/nonexistent/verif-no-such-file"),
    "assert": lambda: _assert(),
    "assert-int": lambda: _assert(5),
    "decode": lambda: b"\xff".decode("utf-8"),
    "attribute": lambda: None.nothing,
}

LAST = [None]       # the exception object an event has just raised: (object, class, repr(args), state of the region it was raised in)


def throwing(fn):
    """run an event that may raise; remember WHAT it raised (object, class, arguments) so that the caller that catches it can be
    compared with it: the exception that reaches the caller is the one that was raised"""
    try:
        return fn()
    except BaseException as x:
        where = "top" if R.guard is None else ("live" if R.guard.value != 0 else "dead")
        LAST[0] = (x, type(x), repr(x.args), where)
        raise


def delivered(x, bad, catcher):
    """called by whoever catches: x must be the remembered exception, class and arguments unchanged"""
    rec, LAST[0] = LAST[0], None
    if rec is None:
        return
    obj, cls, args, where = rec
    if x is obj and type(x) is cls and repr(x.args) == args:
        return
    first = "no-args" if args == "()" else ("str-first-arg" if args[1] in "'\"" else "non-str-first-arg")
    base = "exception" if issubclass(cls, Exception) else "base-exception"
    how = "another exception" if x is not obj else "changed arguments"
    bad.append(f"exception:{where}:{base}:{first}:{'replaced' if x is not obj else 'args-changed'}: {cls.__name__}{args} was raised in a {where} region; "
               f"the caller ({catcher}) received {how}: {type(x).__name__}{x.args!r}")


def triple(p):
    g = "N" if R.guard is None else f"{R.guard.value}:{canon.canon_lc(R.guard.lc, p)}"
    return f"G={g}|IGN={1 if R._ignore_errors else 0}|ONE={LinComb.ONE.value}:{canon.canon_lc(LinComb.ONE.lc, p)}"


def identity():
    """object identity of the triple: restoration must bring back the very same objects"""
    return (id(R.guard), R._ignore_errors, id(LinComb.ONE))


def parse(toks, pos=0):
    """returns (events, next position, terminator) where terminator is `)`, `/` or None (end of input)"""
    out = []
    while pos < len(toks):
        t = toks[pos]
        if t in (")", "/"):
            return out, pos + 1, t
        if t == "!":
            out.append(("raise",)); pos += 1
        elif t == "!b":
            out.append(("raiseb",)); pos += 1
        elif t.startswith("!x:"):
            out.append(("raisex", t[3:])); pos += 1
        elif t == "T(":
            body, pos, _ = parse(toks, pos + 1); out.append(("try", body))
        elif t in ("R(", "RS("):
            body, pos, _ = parse(toks, pos + 1); out.append(("reenter", "recursion" if t == "R(" else "shared", body))
        elif t.startswith(("G:", "A:")):
            _, k, c = t.split(":"); body, pos, _ = parse(toks, pos + 1)
            out.append(("guarded" if t[0] == "G" else "raw", k, int(c[:-1]), body))
        elif t.startswith(("F:", "FT:", "FE:")):
            form, k, c = t.split(":"); a, pos, term = parse(toks, pos + 1)
            b = []
            if term == "/":
                b, pos, _ = parse(toks, pos)
            out.append(("select", form, k, int(c[:-1]), a, b))
        elif t.startswith("lt:"):
            _, a, b = t.split(":"); out.append(("lt", int(a), int(b))); pos += 1
        elif t.startswith("az:"):
            out.append(("az", int(t.split(":")[1]))); pos += 1
        else:
            raise ValueError(t)
    return out, pos, None


def cond(k, c):
    return PrivVal(c) if k == "L" else PrivValBool(c) if k == "B" else c


class Region:
    """one `G:` region: its decorator object and the function it decorates"""

    def __init__(self, label, cv, p, bad):
        self.label = label
        self.reentries = 0                  # activations of `dec` started while it was already active
        self.dec = guarded(cv)              # ONE decorator object per region

        def fn(evs, stk):                   # the decorated function; a `R(` inside `evs` calls `self.f` again
            run(evs, p, bad, stk)
        self.f = self.dec(fn)


def probed(call, what, region, p, bad):
    """run one activation entered through guarded(); whatever way it ends, the triple must be back"""
    before = triple(p); ident = identity()
    n0 = region.reentries
    try:
        call()
    finally:
        after = triple(p)
        if after != before or identity() != ident:
            k = region.reentries - n0
            tag = "reentrant" if (k or what != "region") else "plain"
            how = "" if what == "region" else f" [{what} of its active decorator]"
            inner = f" [decorator re-entered {k}x while active]" if k else ""
            same = " (same values, different objects)" if after == before else ""
            bad.append(f"{tag}: after region {region.label}{how}{inner}: {after} (before: {before}){same}")


def run(evs, p, bad, stk=()):
    for e in evs:
        if e[0] == "raise":
            throwing(lambda: _r(Boom()))
        elif e[0] == "raiseb":
            throwing(lambda: _r(BaseBoom()))
        elif e[0] == "raisex":
            throwing(RAISERS[e[1]])
        elif e[0] == "try":
            try:
                run(e[1], p, bad, stk)
            except BaseException as x:
                delivered(x, bad, "try/except around the region")
        elif e[0] == "guarded":
            cv = cond(e[1], e[2])           # may raise (non-boolean for B): before the region
            r = Region(f"G:{e[1]}:{e[2]}", cv, p, bad)
            inner = stk + (r,)
            probed(lambda: r.f(e[3], inner), "region", r, p, bad)
        elif e[0] == "reenter":
            if not stk:                     # no enclosing guarded() region: nothing to re-enter
                run(e[2], p, bad, stk)
                continue
            r = stk[-1]
            r.reentries += 1
            if e[1] == "recursion":         # the decorated function calls itself
                probed(lambda: r.f(e[2], stk), "re-entry by recursion", r, p, bad)
            else:                           # the same decorator object decorates the callee
                callee = r.dec(lambda: run(e[2], p, bad, stk))
                probed(callee, "re-entry by sharing", r, p, bad)
        elif e[0] == "select":
            _, form, k, c, tevs, fevs = e
            cv = cond(k, c)                 # may raise (non-boolean for B): before the selection
            def tf():
                run(tevs, p, bad, stk); return 3
            def ff():
                run(fevs, p, bad, stk); return 5
            before = triple(p); ident = identity()
            try:
                if_then_else(cv, tf if form in ("F", "FT") else 7, ff if form in ("F", "FE") else 7)
            finally:
                after = triple(p)
                if after != before or identity() != ident:
                    same = " (same values, different objects)" if after == before else ""
                    bad.append(f"selection: after if_then_else({k}:{c}, {'f' if form in ('F', 'FT') else '7'}, {'g' if form in ('F', 'FE') else '7'}) "
                               f"with branch functions: {after} (before: {before}){same}")
        elif e[0] == "raw":
            cv = cond(e[1], e[2])
            bak = add_guard(cv)
            run(e[3], p, bad, stk)          # not a decorator: the innermost decorator stays the same
            restore_guard(bak)
        elif e[0] == "lt":
            throwing(lambda: PrivVal(e[1]) < PrivVal(e[2]))
        elif e[0] == "az":
            throwing(lambda: PrivVal(e[1]).assert_zero())


def main():
    for line in sys.stdin:
        f = line.rstrip("\n").split("|")
        try:
            cfg = dict((k, int(v)) for k, v in (kv.split("=") for kv in f[2].split(",")))
            W.reset({"p": cfg["p"], "bl": cfg["bl"]})
            if cfg.get("ign"):
                R.ignore_errors(True)       # the user's own choice, made through the real API before any region is entered
            evs, _, _ = parse(f[3].split())
            bad = []
            status = "ok"
            LAST[0] = None
            try:
                run(evs, cfg["p"], bad)
            except BaseException as x:
                delivered(x, bad, "top level")
                status = "raised"
            out = f"{f[1]}|{status}|{triple(cfg['p'])}|NPRIV={len(B.privvals)}|NCONS={len(B.constraints)}|BAD={' ;; '.join(bad)}"
        except BaseException as e:
            if isinstance(e, (KeyboardInterrupt, SystemExit)): raise
            out = f"{f[1] if len(f) > 1 else '?'}|harness-error|{type(e).__name__}: {e}"
        sys.stdout.write(out + "\n"); sys.stdout.flush()


if __name__ == "__main__":
    main()
