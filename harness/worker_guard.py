"""Worker for C08: executes guard histories against the REAL runtime.guarded / add_guard /
restore_guard, probing the guard triple around every region (the direct oracle).

Every `G:` region builds ONE decorator object `dec = guarded(cond)` and ONE decorated function
`f = dec(fn)`; the region is the call `f(body)`.  `R(` … `)` inside it is a call of that same `f`
from within `fn` (recursion of a decorated function), `RS(` … `)` decorates another function with
the same `dec` and calls it (one decorator object shared by caller and callee).  Both activate the
decorator object again while it is active; the triple is probed around these activations too.

`F:<k>:<c>(` then-events `/` else-events `)` is a selection whose branches are FUNCTIONS, run through the library's own
`pysnark.branching.if_then_else(cond, f, g)`: a third way of entering a region besides guarded() and the block API (`FT:` only
the then branch is a function, `FE:` only the else branch; the other one is the int 7).  The triple is probed around the call,
whichever way it ends.

Configuration `ign=1`: the USER has selected the error-suppression mode through the real API
`pysnark.runtime.ignore_errors(True)` before the history starts; it is part of the triple every region has to bring back."""
import sys, os
sys.path.insert(0, os.path.dirname(os.path.abspath(__file__)))
import worker as W
import canon
R = W.R; B = W.B
from pysnark.runtime import LinComb, PrivVal, guarded, add_guard, restore_guard
from pysnark.boolean import PrivValBool
from pysnark.branching import if_then_else


class Boom(Exception):
    pass


class BaseBoom(BaseException):
    """like KeyboardInterrupt / SystemExit: not an Exception subclass"""
    pass


def triple(p):
    g = "N" if R.guard is None else f"{R.guard.value}:{canon.canon_lc(R.guard.lc, p)}"
    return f"G={g}|IGN={1 if R._ignore_errors else 0}|ONE={LinComb.ONE.value}:{canon.canon_lc(LinComb.ONE.lc, p)}"


def identity():
    """object identity of the triple: restoration must bring back the very same objects"""
    return (id(R.guard), R._ignore_errors, id(LinComb.ONE))


def parse(toks, pos=0):
    """returns (events, next position, terminator) where terminator is `)`, `/` or None (end of input)"""
    out = []
    while pos < len(toks):
        t = toks[pos]
        if t in (")", "/"):
            return out, pos + 1, t
        if t == "!":
            out.append(("raise",)); pos += 1
        elif t == "!b":
            out.append(("raiseb",)); pos += 1
        elif t == "T(":
            body, pos, _ = parse(toks, pos + 1); out.append(("try", body))
        elif t in ("R(", "RS("):
            body, pos, _ = parse(toks, pos + 1); out.append(("reenter", "recursion" if t == "R(" else "shared", body))
        elif t.startswith(("G:", "A:")):
            _, k, c = t.split(":"); body, pos, _ = parse(toks, pos + 1)
            out.append(("guarded" if t[0] == "G" else "raw", k, int(c[:-1]), body))
        elif t.startswith(("F:", "FT:", "FE:")):
            form, k, c = t.split(":"); a, pos, term = parse(toks, pos + 1)
            b = []
            if term == "/":
                b, pos, _ = parse(toks, pos)
            out.append(("select", form, k, int(c[:-1]), a, b))
        elif t.startswith("lt:"):
            _, a, b = t.split(":"); out.append(("lt", int(a), int(b))); pos += 1
        elif t.startswith("az:"):
            out.append(("az", int(t.split(":")[1]))); pos += 1
        else:
            raise ValueError(t)
    return out, pos, None


def cond(k, c):
    return PrivVal(c) if k == "L" else PrivValBool(c) if k == "B" else c


class Region:
    """one `G:` region: its decorator object and the function it decorates"""

    def __init__(self, label, cv, p, bad):
        self.label = label
        self.reentries = 0                  # activations of `dec` started while it was already active
        self.dec = guarded(cv)              # ONE decorator object per region

        def fn(evs, stk):                   # the decorated function; a `R(` inside `evs` calls `self.f` again
            run(evs, p, bad, stk)
        self.f = self.dec(fn)


def probed(call, what, region, p, bad):
    """run one activation entered through guarded(); whatever way it ends, the triple must be back"""
    before = triple(p); ident = identity()
    n0 = region.reentries
    try:
        call()
    finally:
        after = triple(p)
        if after != before or identity() != ident:
            k = region.reentries - n0
            tag = "reentrant" if (k or what != "region") else "plain"
            how = "" if what == "region" else f" [{what} of its active decorator]"
            inner = f" [decorator re-entered {k}x while active]" if k else ""
            same = " (same values, different objects)" if after == before else ""
            bad.append(f"{tag}: after region {region.label}{how}{inner}: {after} (before: {before}){same}")


def run(evs, p, bad, stk=()):
    for e in evs:
        if e[0] == "raise":
            raise Boom()
        elif e[0] == "raiseb":
            raise BaseBoom()
        elif e[0] == "try":
            try:
                run(e[1], p, bad, stk)
            except BaseException as x:
                if isinstance(x, (SystemExit,)): raise
        elif e[0] == "guarded":
            cv = cond(e[1], e[2])           # may raise (non-boolean for B): before the region
            r = Region(f"G:{e[1]}:{e[2]}", cv, p, bad)
            inner = stk + (r,)
            probed(lambda: r.f(e[3], inner), "region", r, p, bad)
        elif e[0] == "reenter":
            if not stk:                     # no enclosing guarded() region: nothing to re-enter
                run(e[2], p, bad, stk)
                continue
            r = stk[-1]
            r.reentries += 1
            if e[1] == "recursion":         # the decorated function calls itself
                probed(lambda: r.f(e[2], stk), "re-entry by recursion", r, p, bad)
            else:                           # the same decorator object decorates the callee
                callee = r.dec(lambda: run(e[2], p, bad, stk))
                probed(callee, "re-entry by sharing", r, p, bad)
        elif e[0] == "select":
            _, form, k, c, tevs, fevs = e
            cv = cond(k, c)                 # may raise (non-boolean for B): before the selection
            def tf():
                run(tevs, p, bad, stk); return 3
            def ff():
                run(fevs, p, bad, stk); return 5
            before = triple(p); ident = identity()
            try:
                if_then_else(cv, tf if form in ("F", "FT") else 7, ff if form in ("F", "FE") else 7)
            finally:
                after = triple(p)
                if after != before or identity() != ident:
                    same = " (same values, different objects)" if after == before else ""
                    bad.append(f"selection: after if_then_else({k}:{c}, {'f' if form in ('F', 'FT') else '7'}, {'g' if form in ('F', 'FE') else '7'}) "
                               f"with branch functions: {after} (before: {before}){same}")
        elif e[0] == "raw":
            cv = cond(e[1], e[2])
            bak = add_guard(cv)
            run(e[3], p, bad, stk)          # not a decorator: the innermost decorator stays the same
            restore_guard(bak)
        elif e[0] == "lt":
            PrivVal(e[1]) < PrivVal(e[2])
        elif e[0] == "az":
            PrivVal(e[1]).assert_zero()


def main():
    for line in sys.stdin:
        f = line.rstrip("\n").split("|")
        try:
            cfg = dict((k, int(v)) for k, v in (kv.split("=") for kv in f[2].split(",")))
            W.reset({"p": cfg["p"], "bl": cfg["bl"]})
            if cfg.get("ign"):
                R.ignore_errors(True)       # the user's own choice, made through the real API before any region is entered
            evs, _, _ = parse(f[3].split())
            bad = []
            status = "ok"
            try:
                run(evs, cfg["p"], bad)
            except BaseException as x:
                if isinstance(x, SystemExit): raise
                status = "raised"
            out = f"{f[1]}|{status}|{triple(cfg['p'])}|NPRIV={len(B.privvals)}|NCONS={len(B.constraints)}|BAD={' ;; '.join(bad)}"
        except BaseException as e:
            if isinstance(e, (KeyboardInterrupt, SystemExit)): raise
            out = f"{f[1] if len(f) > 1 else '?'}|harness-error|{type(e).__name__}: {e}"
        sys.stdout.write(out + "\n"); sys.stdout.flush()


if __name__ == "__main__":
    main()
