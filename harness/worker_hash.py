"""Worker for C20 (hash gadgets): runs the REAL pysnark.poseidon_hash / pysnark.ggh_hash on the backend this
interpreter was started for (PYSNARK_BACKEND + FlatBuffers stand-in, see common.backend_env) and reports values,
trace sizes, digests of the recorded constraint system and the satisfaction of every recorded constraint.

Protocol (one line in, one line out; the PH/PG lines are the ones lean/PysnarkModel/Driver/ProtoHash.lean reads):
  INFO|id                          -> id|name|module|modulus|paramskeys|fingerprint
  PH|id|key|p|permute/hash|inputs  -> id|values|ncons=|npriv=|sdig=|odig=|wdig=|unsat=|incoh=|shape=   or id|err:<Class>
  PAD|id|inputs                    -> id|<padded form the real padding code hands to the permutation>|calls=<n>
  PG|id|p|coefs|bits               -> id|int/lc|value|ncons=|npriv=|odig=|coefs=<the code's own SHA512_prng(i)>  or id|err:<Class>
  GC|id|p|n                        -> id|<the code's own SHA512_prng(i) for i < n, comma-separated>
  PC|id|p|gadget|guard|inputs      -> id|<values>|ncons=|nunsat=|unsat=<first indices>|incoh=<output positions>|notred=<outputs outside [0,p)>  or id|err:<Class>
        gadget = permute | hash | ggh; guard = - | 1 (run inside guarded(PrivValBool(1))); inputs = typed tokens
        s<int> PrivVal, u<int> PubVal, b<0/1> PrivValBool, c<0/1> PubValBool, x<m>:<e> PrivValFxp(m/2^e), y<m>:<e> PubValFxp, i<int> plain int (ggh)

A backend that records nothing (pysnark.nobackend) is driven too: values and the runtime's own constraint counter
(runtime.num_constraints) are reported, the digests / satisfaction fields are `na`.
"""
import sys, os, hashlib, traceback, warnings

warnings.simplefilter("ignore")
try:
    sys.set_int_max_str_digits(0)
except AttributeError:
    pass

import pysnark.runtime as R
R.autoprove = False
from pysnark.runtime import LinComb, PrivVal

B = R.backend
H = None
H_ERR = None
try:
    import pysnark.poseidon_hash as H
except BaseException as e:          # NotImplementedError for backends without parameters
    H_ERR = type(e).__name__
G = None

BASE = 1000003
NC0 = 0


def probe(k):
    if k == 0:
        return 1
    if k > 0:
        return (k - 1 + 5) * 7919
    i = -k - 1
    return (i + 3) * (i + 3) * 1000033 + 17


def digest(p, vs):
    d = 0
    for v in vs:
        d = (d * BASE + v % p) % p
    return d


def ev(lc, f):
    return sum(c * f(k) for k, c in lc.lc.items())


def recorded(k):
    return 1 if k == 0 else (B.pubvals[k - 1] if k > 0 else B.privvals[-k - 1])


RECORDS = all(hasattr(B, a) for a in ("privvals", "pubvals", "constraints"))


def reset():
    global NC0
    if RECORDS:
        B.privvals.clear(); B.pubvals.clear(); B.constraints.clear()
    NC0 = R.num_constraints
    R.guard = None
    R._ignore_errors = False
    LinComb.ONE = LinComb.ONE_SAFE


def fingerprint(c):
    rc = c["round_constants"]; mx = c["matrix"]
    return [c["t"], c["R_F"], c["R_P"], c["a"]] + list(rc[0] if rc else []) + list(mx[0] if mx else [])


def trace_report(p, outs):
    if not RECORDS:
        # nothing is recorded: the number of constraints handed to the backend is the runtime's own counter
        return f"ncons={R.num_constraints - NC0}|npriv=na|sdig=na|odig=na|wdig=na|unsat=na|incoh=na|shape=na|rcount={R.num_constraints - NC0}"
    cons = B.constraints
    # wire k >= 0 is at index k (0 = the constant one, k = public k), wire k < 0 (private -k) at index k counted from the end
    rec = [1] + list(B.pubvals) + list(B.privvals)[::-1]
    prb = [probe(k) for k in range(len(B.pubvals) + 1)] + [probe(-i) for i in range(len(B.privvals), 0, -1)]

    def ev_(lc, arr):
        return sum(c * arr[k] for k, c in lc.lc.items())
    sd = digest(p, [ev_(l, prb) for c in cons for l in c])
    od = digest(p, [ev_(x.lc, prb) for x in outs])
    wd = digest(p, B.privvals)
    unsat = sum(1 for c in cons if (ev_(c[0], rec) * ev_(c[1], rec) - ev_(c[2], rec)) % p != 0)
    incoh = sum(1 for x in outs if (ev_(x.lc, rec) - x.value) % p != 0)
    # shape: every wire expression with coefficients reduced mod p, zero terms dropped (compared between inputs of one run only;
    # coefficients are hashed as bytes: decimal conversion of 255-bit integers dominated the cost of a line)
    h = hashlib.sha256()
    nb = (p.bit_length() + 7) // 8

    def feed(lc, end):
        for k in sorted(lc.lc):
            v = lc.lc[k] % p
            if v:
                h.update(b"%d:" % k); h.update(v.to_bytes(nb, "little"))
        h.update(end)
    for c in cons:
        for l in c:
            feed(l, b"#")
        h.update(b";")
    for x in outs:
        feed(x.lc, b"!")
    return (f"ncons={len(cons)}|npriv={len(B.privvals)}|sdig={sd}|odig={od}|wdig={wd}|unsat={unsat}|incoh={incoh}"
            f"|shape={h.hexdigest()[:24]}|rcount={R.num_constraints - NC0}")


def typed_input(tok):
    """typed input token of a PC line -> the real object"""
    from pysnark.runtime import PubVal
    from pysnark.boolean import PrivValBool, PubValBool
    from pysnark.fixedpoint import PrivValFxp, PubValFxp
    from fractions import Fraction
    k, v = tok[0], tok[1:]
    if k == "s": return PrivVal(int(v))
    if k == "u": return PubVal(int(v))
    if k == "b": return PrivValBool(int(v))
    if k == "c": return PubValBool(int(v))
    if k in "xy":
        m, e = v.split(":")
        return (PrivValFxp if k == "x" else PubValFxp)(float(Fraction(int(m), 2 ** int(e))))
    if k == "i": return int(v)
    raise ValueError(tok)


def lc_of(x):
    return x.lc if not isinstance(x, LinComb) else x


def ints(s):
    return [int(x) for x in s.split(",") if x != ""]


def handle(f):
    global G
    tag, cid = f[0], f[1]
    if tag == "INFO":
        from pysnark.poseidon_constants import poseidon_constants as T
        if H is None:
            return f"{cid}|{R.backend_name}|{B.__name__}|{B.get_modulus()}|err:{H_ERR}|"
        keys = ",".join(k for k, v in T.items() if v is H.constants)
        return f"{cid}|{R.backend_name}|{B.__name__}|{B.get_modulus()}|{keys}|{','.join(map(str, fingerprint(H.constants)))}"
    if tag == "PH":
        if H is None:
            return f"{cid}|err:{H_ERR}"
        p = int(f[3])
        if p != B.get_modulus():
            return f"{cid}|harness-error|modulus of this worker is {B.get_modulus()}"
        reset()
        xs = [PrivVal(v) for v in ints(f[5])]
        try:
            outs = H.permute(xs) if f[4] == "permute" else H.poseidon_hash(xs)
        except Exception as e:
            return f"{cid}|err:{type(e).__name__}"
        rep = f"{cid}|{','.join(str(x.value) for x in outs)}|" + trace_report(p, outs)
        if f[4] != "permute":
            # the caller's list is the caller's: it must be unchanged, and hashing the SAME list object again gives the same digest
            n0 = len(ints(f[5]))
            try:
                again = ",".join(str(x.value) for x in H.poseidon_hash(xs))
            except Exception as e:
                again = "err:" + type(e).__name__
            rep += f"|inlen={len(xs)}/{n0}|again={again}"
        return rep
    if tag == "PAD":
        if H is None:
            return f"{cid}|err:{H_ERR}"
        reset()
        blocks = []
        real = H.permute

        def recorder(sponge):
            blocks.append([x.value for x in sponge])
            return [LinComb.ZERO] * len(sponge)
        H.permute = recorder
        try:
            H.poseidon_hash([PrivVal(v) for v in ints(f[2])])
        except Exception as e:
            return f"{cid}|err:{type(e).__name__}"
        finally:
            H.permute = real
        cap = [b[0] for b in blocks]
        padded = [v for b in blocks for v in b[1:]]
        return f"{cid}|{','.join(map(str, padded))}|calls={len(blocks)}|cap={','.join(map(str, cap))}"
    if tag == "PG":
        if G is None:
            import pysnark.ggh_hash as G_
            G = G_
        p = int(f[2])
        if p != B.get_modulus() or p != G.PRIME:
            return f"{cid}|harness-error|modulus of this worker is {B.get_modulus()}, ggh PRIME {G.PRIME}"
        reset()
        toks = [t for t in f[4].split(",") if t]
        bits = [PrivVal(int(t[1:])) if t[0] == "s" else int(t[1:]) for t in toks]
        own = [G.SHA512_prng(i) for i in range(len(bits))]
        try:
            r = G.ggh_hash(bits)
        except Exception as e:
            return f"{cid}|err:{type(e).__name__}|coefs={','.join(map(str, own))}"
        if isinstance(r, LinComb):
            incoh = int((ev(r.lc, recorded) - r.value) % p != 0)
            return (f"{cid}|lc|{r.value}|ncons={len(B.constraints)}|npriv={len(B.privvals)}|odig={digest(p, [ev(r.lc, probe)])}"
                    f"|incoh={incoh}|coefs={','.join(map(str, own))}")
        return f"{cid}|int|{r}|ncons={len(B.constraints)}|npriv={len(B.privvals)}|odig=0|incoh=0|coefs={','.join(map(str, own))}"
    if tag == "GC":
        if G is None:
            import pysnark.ggh_hash as G_
            G = G_
        p = int(f[2])
        if p != B.get_modulus() or p != G.PRIME:
            return f"{cid}|harness-error|modulus of this worker is {B.get_modulus()}, ggh PRIME {G.PRIME}"
        return f"{cid}|" + ",".join(str(G.SHA512_prng(i)) for i in range(int(f[3])))
    if tag == "PC":
        # completeness of a hash gadget on THIS backend's field: every recorded constraint on the recorded witness, every
        # returned value against its wire expression; inputs of every secret type, optionally inside a taken guard
        p = int(f[2])
        if p != B.get_modulus() or not RECORDS:
            return f"{cid}|harness-error|modulus of this worker is {B.get_modulus()}, records={RECORDS}"
        gadget, guard = f[3], f[4]
        if gadget == "ggh":
            if G is None:
                import pysnark.ggh_hash as G_
                G = G_
            fn = G.ggh_hash
        else:
            if H is None:
                return f"{cid}|err:{H_ERR}"
            fn = H.permute if gadget == "permute" else H.poseidon_hash
        reset()
        try:
            xs = [typed_input(t) for t in f[5].split(",") if t]
            if gadget == "permute":
                xs = [lc_of(x) for x in xs]          # permute works on the integer type
            if guard == "1":
                from pysnark.boolean import PrivValBool
                res = R.guarded(PrivValBool(1))(lambda: fn(xs))()
            else:
                res = fn(xs)
        except Exception as e:
            return f"{cid}|err:{type(e).__name__}"
        finally:
            R.guard = None
        outs = [res] if isinstance(res, LinComb) else ([] if isinstance(res, int) else list(res))
        cons = B.constraints
        unsat = [i for i, c in enumerate(cons) if (ev(c[0], recorded) * ev(c[1], recorded) - ev(c[2], recorded)) % p != 0]
        incoh = [i for i, x in enumerate(outs) if (ev(x.lc, recorded) - x.value) % p != 0]
        notred = [i for i, x in enumerate(outs) if not 0 <= x.value < p]
        return (f"{cid}|{','.join(str(x.value) for x in outs) if outs else res}|ncons={len(cons)}|nunsat={len(unsat)}|unsat={','.join(map(str, unsat[:8]))}"
                f"|incoh={','.join(map(str, incoh))}|notred={','.join(map(str, notred))}")
    return "bad-line"


def main():
    for line in sys.stdin:
        f = line.rstrip("\n").split("|")
        try:
            out = handle(f)
        except BaseException as e:
            if isinstance(e, (KeyboardInterrupt, SystemExit)):
                raise
            out = f"{f[1] if len(f) > 1 else '?'}|harness-error|{type(e).__name__}: {e}|{traceback.format_exc().splitlines()[-3:]}"
        sys.stdout.write(out + "\n"); sys.stdout.flush()
    os._exit(0)


if __name__ == "__main__":
    main()
