"""Worker for C13: exercises the selected backend's linear-combination class, modulus and inverse.

Line `L|id|module`: import ANOTHER backend module into this process (what an application that converts between proof
systems, or a test session, does); the selected backend stays the one under test.  Reply: id|loaded|<modulus the selected
backend reports now>  or  id|load-failed|<error>."""
import sys, os, random, copy
import pysnark.runtime as R
R.autoprove = False
B = R.backend


def tokens_to_tree(toks, pos=0):
    t = toks[pos]
    if t == "Z": return ("Z",), pos + 1
    if t == "O": return ("O",), pos + 1
    if t == "V": return ("V", toks[pos + 1]), pos + 2
    if t in ("A", "S"):
        a, p1 = tokens_to_tree(toks, pos + 1); b, p2 = tokens_to_tree(toks, p1)
        return (t, a, b), p2
    if t == "N":
        a, p1 = tokens_to_tree(toks, pos + 1)
        return ("N", a), p1
    if t == "M":
        a, p1 = tokens_to_tree(toks, pos + 2)
        return ("M", int(toks[pos + 1]), a), p1
    raise ValueError(t)


IS_SIG = hasattr(B, "Sig")


def snapshot(o):
    return list(o.sig) if IS_SIG else list(o.lc.items())


def build(tree, mut):
    k = tree[0]
    if k == "Z": return B.zero()
    if k == "O": return B.one()
    if k == "V":
        return B.Sig([(1, tree[1])]) if IS_SIG else B.LinearCombination({int(tree[1]): 1})
    if k in ("A", "S"):
        a = build(tree[1], mut); b = build(tree[2], mut)
        sa, sb = snapshot(a), snapshot(b)
        r = a + b if k == "A" else a - b
        if snapshot(a) != sa or snapshot(b) != sb or r is a or r is b: mut.append(k)
        return r
    if k == "N":
        a = build(tree[1], mut); sa = snapshot(a)
        r = -a
        if snapshot(a) != sa or r is a: mut.append(k)
        return r
    if k == "M":
        a = build(tree[2], mut); sa = snapshot(a)
        r = a * tree[1]
        if snapshot(a) != sa or r is a: mut.append(k)
        return r


def denote(tree, w, p):
    k = tree[0]
    if k == "Z": return 0
    if k == "O": return w("0" if not IS_SIG else "ONE") % p
    if k == "V": return w(tree[1]) % p
    if k == "A": return (denote(tree[1], w, p) + denote(tree[2], w, p)) % p
    if k == "S": return (denote(tree[1], w, p) - denote(tree[2], w, p)) % p
    if k == "N": return (-denote(tree[1], w, p)) % p
    if k == "M": return (tree[1] * denote(tree[2], w, p)) % p


def main():
    p = B.get_modulus()
    for line in sys.stdin:
        f = line.rstrip("\n").split("|")
        try:
            if f[0] == "M":
                p = B.get_modulus()
                out = f"{f[1]}|{p}|{B.__name__}|{R.backend_name}"
            elif f[0] == "L":
                import importlib, io, contextlib
                try:
                    with contextlib.redirect_stdout(io.StringIO()), contextlib.redirect_stderr(io.StringIO()):
                        importlib.import_module(f[2])
                    p = B.get_modulus()
                    out = f"{f[1]}|loaded|{p}"
                except Exception as e:
                    out = f"{f[1]}|load-failed|{type(e).__name__}: {e}"
            elif f[0] == "E":
                toks = f[3].split()
                tree, _ = tokens_to_tree(toks)
                mut = []
                r = build(tree, mut)
                rnd = random.Random(hash(f[3]) & 0xffffffff)
                vals = {}
                def w(name):
                    if name == "0" and not IS_SIG: return 1
                    if name not in vals: vals[name] = rnd.choice([0, 1, p - 1, rnd.randrange(p), -rnd.randrange(p), rnd.randrange(p) + p])
                    return vals[name]
                if IS_SIG:
                    got = sum(c * (w(v) if not v.endswith("/onex") else w("ONE")) for (c, v) in r.sig) % p
                    s = str(r)
                else:
                    got = sum(c * w(str(k)) for k, c in r.lc.items()) % p
                    s = ",".join(f"{k}:{c}" for k, c in r.lc.items())
                want = denote(tree, w, p)
                out = f"{f[1]}|{s}|EV={'ok' if got == want else 'bad'}|MUT={'ok' if not mut else 'bad:' + ''.join(mut)}"
            elif f[0] == "I":
                x = int(f[3])
                try:
                    y = B.fieldinverse(x)
                    good = isinstance(y, int) and (x * y) % p == 1
                    out = f"{f[1]}|{y}|INV={'ok' if good else 'bad'}"
                except ZeroDivisionError:
                    out = f"{f[1]}|ZeroDivisionError|INV={'ok' if x % p == 0 else 'bad'}"
            else:
                out = "bad-line"
        except Exception as e:
            out = f"{f[1] if len(f) > 1 else '?'}|harness-error|{type(e).__name__}: {e}"
        sys.stdout.write(out + "\n"); sys.stdout.flush()


if __name__ == "__main__":
    main()
