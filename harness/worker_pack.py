"""Worker for C16 (packers): builds a pysnark.pack schema, packs and unpacks a structured value given as plain
ints or as secrets, and reports bits, lengths, round-trip result and exception classes.  Protocol: `K|id|bl|<json>`.
Mode `unpack-raw`: `unpack` alone, applied to a caller-supplied list of bits (raw secrets `PrivVal(b)`, secrets of the
boolean type, or plain ints) over the field `p`, with error checking on or off; reports the result, the emitted system and
the recorded witness (the range check of `PackIntMod.unpack` is the subject)."""
import sys, os, json, traceback
sys.path.insert(0, os.path.dirname(os.path.abspath(__file__)))
import worker as W
B = W.B
from pysnark.runtime import PrivVal, LinComb
from pysnark.boolean import LinCombBool, PrivValBool
import pysnark.pack as P


def build(s):
    if s[0] == "B": return P.PackBool()
    if s[0] == "M": return P.PackIntMod(s[1])
    if s[0] == "L": return P.PackList([build(x) for x in s[1]])
    if s[0] == "R": return P.PackRepeat(build(s[1]), s[2])
    raise ValueError(s)


def secretize(s, v, boolkind):
    if s[0] == "B": return (PrivValBool(v) if boolkind == "bool" else PrivVal(v))
    if s[0] == "M": return PrivVal(v)
    if s[0] == "L": return [secretize(x, y, boolkind) for x, y in zip(s[1], v)]
    if s[0] == "R": return [secretize(s[1], y, boolkind) for y in v]


def secretize_mixed(s, v, mask):
    """every leaf plain or a secret integer on its own (`mask`: iterator of 0/1)"""
    if s[0] in ("B", "M"): return PrivVal(v) if next(mask) else v
    if s[0] == "L": return [secretize_mixed(x, y, mask) for x, y in zip(s[1], v)]
    if s[0] == "R": return [secretize_mixed(s[1], y, mask) for y in v]


def from_bits_of(bits, p):
    """LinComb.from_bits on the packing, as applications do with a packed structure: value, wire expression on the witness, val()"""
    secret_at = [i for i, b in enumerate(bits) if isinstance(b, (LinComb, LinCombBool))]
    fb = {"nsecret": len(secret_at), "plain_at": [i for i in range(len(bits)) if i not in secret_at]}
    try:
        r = LinComb.from_bits(list(bits))
        fb["value"] = plain(r); fb["kind"] = type(r).__name__
        if isinstance(r, LinCombBool): r = r.lc
        if isinstance(r, LinComb):
            on_w = W.ev(r.lc, p)
            fb["coherent"] = (r.value - on_w) % p == 0; fb["lc_on_witness"] = on_w if on_w <= p // 2 else on_w - p
            r.val()
            fb["unsat_after_val"] = [i for i, (a, b, c) in enumerate(B.constraints) if (W.ev(a, p) * W.ev(b, p) - W.ev(c, p)) % p != 0][:3]
        else:
            fb["coherent"] = True
    except Exception as e:
        fb["error"] = type(e).__name__
    return fb


def plain(x):
    if isinstance(x, list): return [plain(y) for y in x]
    if isinstance(x, LinCombBool): return x.lc.value
    if isinstance(x, LinComb): return x.value
    return x


def kinds(x):
    if isinstance(x, list): return [kinds(y) for y in x]
    return type(x).__name__


def mkbit(t):
    k, v = t.split(":")
    return PrivVal(int(v)) if k == "L" else PrivValBool(int(v)) if k == "B" else int(v)


def unpack_raw(f, j):
    """unpack alone on given bits; protocol mirror of `K|id|bl|schema|bits|U|p|ign` in Driver/ProtoStruct.lean"""
    import canon
    p = j.get("p", W.DEFAULT_P)
    W.reset({"p": p, "bl": int(f[2]), "ign": j.get("ign", 0)})
    pk = build(j["schema"])
    out = {"bitlen": pk.bitlen()}
    bits = [mkbit(t) for t in j["bits"]]
    out["ninputs"] = len(B.privvals)
    try:
        back = pk.unpack(bits, 0)
        out["unpack"] = "ok"; out["back"] = plain(back); out["backstr"] = canon.val_str(back, p, W.CLASSES)
    except Exception as e:
        out["unpack"] = type(e).__name__
    out["cons"] = [f"{canon.canon_lc(a, p)} @ {canon.canon_lc(b, p)} = {canon.canon_lc(c, p)}" for (a, b, c) in B.constraints]
    out["priv"] = [v % p for v in B.privvals]
    out["unsat"] = [i for i, (a, b, c) in enumerate(B.constraints) if (W.ev(a, p) * W.ev(b, p) - W.ev(c, p)) % p != 0][:3]
    W.reset({"p": W.DEFAULT_P, "bl": 16})
    return f"{f[1]}|" + json.dumps(out)


def main():
    for line in sys.stdin:
        f = line.rstrip("\n").split("|", 3)
        try:
            j = json.loads(f[3])
            if j.get("mode") == "unpack-raw":
                sys.stdout.write(unpack_raw(f, j) + "\n"); sys.stdout.flush()
                continue
            W.reset({"p": W.DEFAULT_P, "bl": int(f[2])})
            pk = build(j["schema"])
            out = {"bitlen": pk.bitlen()}
            val = j["value"] if j["mode"] == "plain" else secretize_mixed(j["schema"], j["value"], iter(j["mask"])) if j["mode"] == "mixed" \
                else secretize(j["schema"], j["value"], j["mode"].split(":")[1])
            bits = None
            try:
                bits = pk.pack(val)
                out["pack"] = "ok"; out["nbits"] = len(bits); out["bits"] = plain(bits); out["bitkinds"] = sorted(set(map(str, [kinds(b) for b in bits])))
                try:
                    back = pk.unpack(bits, 0)
                    out["unpack"] = "ok"; out["back"] = plain(back)
                except Exception as e:
                    out["unpack"] = type(e).__name__
            except Exception as e:
                out["pack"] = type(e).__name__
            p = W.DEFAULT_P
            out["unsat"] = [i for i, (a, b, c) in enumerate(B.constraints) if (W.ev(a, p) * W.ev(b, p) - W.ev(c, p)) % p != 0][:3]
            out["ncons"] = len(B.constraints)
            if out.get("pack") == "ok" and bits is not None:
                out["fb"] = from_bits_of(bits, p)           # after everything that is compared with the model
            res = f"{f[1]}|" + json.dumps(out)
        except BaseException as e:
            if isinstance(e, (KeyboardInterrupt, SystemExit)): raise
            res = f"{f[1]}|" + json.dumps({"harness-error": f"{type(e).__name__}: {e}", "tb": traceback.format_exc().splitlines()[-3:]})
        sys.stdout.write(res + "\n"); sys.stdout.flush()


if __name__ == "__main__":
    main()
