"""Worker for C12 (qaptools files): ONE case per process.

Started by harness/props/c12.py with the environment that makes pysnark's own selection code pick the
qaptools backend (stub binaries on QAPTOOLS_BIN) and an empty scratch directory as cwd, so the run is
exactly a user script: `import pysnark.runtime` opens the three files and enters context `main`, the
program runs, `backend.prove()` reads the equation file back while the writer may still hold
buffered lines.  Reads one JSON case on stdin, prints one JSON result line.

Case: {"funcs": {name: {"variants": {mode: {"body": [instr…], "ret": retspec}}}}, "main": [instr…]}
Instructions (each yields one register unless noted):
  ["priv", v] ["pub", v] ["const", v] ["privb", b] ["privx", v]
  ["add", a, b] ["sub", a, b] ["mul", a, b] ["addi", a, k] ["muli", a, k] ["neg", a]
  ["lt", a, b] ["lti", a, k] ["eq", a, b] ["eqi", a, k] ["band", a, b] ["bnot", a] ["tolc", a]
  ["val", a]                               (public output; yields nothing)
  checks on existing wires, each yields nothing and writes ONE equation over wires that already exist, so emitting it
  again writes the identical line (bodies of one named function that differ only in how often a check is emitted):
  ["bitcheck", a]       add_constraint(x, 1 - x, 0)           (x must hold 0 or 1)
  ["recheck", a, b, c]  add_constraint(a, b, c)               (c must hold a*b)
  ["aeq", a, b]         a.assert_eq(b)                        (equal values)
  ["azero", a]          a.assert_zero()                       (value 0)
  ["call", fname, mode, [argspec…]]        (yields one register per leaf of the returned structure)
  ["guard", g, [instr…]]                   run the instructions inside `guarded(regs[g])` (registers are shared)
  ["try", [instr…]]                        run the instructions, catching the exception of ["raise"] (registers made before it stay)
  ["raise"]                                raise an exception (class Boom) at this point
  ["prove"]                                a proving step HERE (backend.prove(), as a notebook cell or an explicit call followed by
                                           more work would do), in main or inside a body; yields nothing.  After every proving step
                                           (these and the final one) the worker records in out["steps"] what qapsplit read, the outcome,
                                           the signatures, and the content of pysnark_schedule / pysnark_eqs_* as the step left them
argspec / retspec: register index | {"int": k} | {"list": […]} | {"tuple": […]}
Inside a body the registers are the flattened non-integer leaves of the arguments, then the body's own.

What is recorded (by wrapping the backend's module-level functions from outside — /repo is not
touched): every `privval`, `pubval`, `add_constraint` made by the program itself (those made by the
`@subqap` machinery — argument/result copies, `ensure_single` — are NOT recorded: they are what the
model has to produce), and for every call the leaves of its arguments and results with their class.
"""
import sys, os, io, json, gc, contextlib, traceback

try:
    sys.set_int_max_str_digits(0)
except AttributeError:
    pass

import pysnark.runtime as R
R.autoprove = False
from pysnark.runtime import LinComb, PrivVal, PubVal, ConstVal
from pysnark.boolean import LinCombBool, PrivValBool
from pysnark.fixedpoint import LinCombFxp, PrivValFxp
import pysnark.qaptools.backend as B
import pysnark.qaptools.qapsplit as QS
import pysnark.qaptools.options as O

assert R.backend is B, "qaptools backend not selected: " + R.backend.__name__

events = []
suppress = [False]
last_guard = [""]


class Boom(Exception):
    pass


def note_guard():
    g = R.guard
    rep = "" if g is None else f"{g.value}~{sigstr(g.lc.sig)}"
    if rep != last_guard[0]:
        events.append("g:" + rep)
        last_guard[0] = rep
snapshot = {"disk": None, "sigs": None}


def sigstr(sig):
    return ",".join(f"{c}@{w}" for c, w in sig)


_privval, _pubval, _addc, _qapsplit = B.privval, B.pubval, B.add_constraint, QS.qapsplit


def privval(val):
    if not suppress[0]:
        events.append(f"p:{val}")
    return _privval(val)


def pubval(val):
    if not suppress[0]:
        events.append(f"u:{val}")
    return _pubval(val)


def add_constraint(v, w, y):
    if not suppress[0]:
        events.append(f"c:{sigstr(v.sig)}#{sigstr(w.sig)}#{sigstr(y.sig)}")
    return _addc(v, w, y)


def qapsplit():
    # what is on disk at the moment prove() reads the equation file back (no flush from here)
    with open(O.get_eqs_file()) as f:
        snapshot["disk"] = f.read()
    ret = _qapsplit()
    # the signatures prove() hands to key generation: `sigs` of `qaplens,blklen,extlen,sigs = qapsplit.qapsplit()` is passed
    # entry by entry to runqapgenf.ensure_ek(nm, sigs[nm], ...) (with the stub binaries ensure_mkey fails before that)
    try:
        snapshot["sigs"] = {str(k): str(v) for k, v in dict(ret[3]).items()}
    except Exception:
        snapshot["sigs"] = None
    return ret


B.privval, B.pubval, B.add_constraint, QS.qapsplit = privval, pubval, add_constraint, qapsplit


def leafinfo(x):
    if isinstance(x, LinComb):
        return f"L~{x.value}~{sigstr(x.lc.sig)}"
    if isinstance(x, LinCombBool):
        return f"B~{x.lc.value}~{sigstr(x.lc.lc.sig)}"
    if isinstance(x, LinCombFxp):
        return f"X~{x.lc.value}~{sigstr(x.lc.lc.sig)}"
    return None


def leaves(struct):
    if isinstance(struct, (list, tuple)):
        out = []
        for x in struct:
            out.extend(leaves(x))
        return out
    return [struct]


class Interp:
    def __init__(self, case):
        self.funcs = case.get("funcs", {})
        self.calls = []          # per call: name, mode, leaf infos (oracle side information)
        self.after_exception = []   # [context in which a `try` was entered, vc_ctx when its handler ran]

    def build(self, spec, regs):
        if isinstance(spec, int):
            return regs[spec]
        if "int" in spec:
            return spec["int"]
        if "list" in spec:
            return [self.build(s, regs) for s in spec["list"]]
        if "tuple" in spec:
            return tuple(self.build(s, regs) for s in spec["tuple"])
        raise ValueError(spec)

    def run(self, instrs, regs):
        for ins in instrs:
            op = ins[0]
            if op == "priv": regs.append(PrivVal(ins[1]))
            elif op == "pub": regs.append(PubVal(ins[1]))
            elif op == "const": regs.append(ConstVal(ins[1]))
            elif op == "privb": regs.append(PrivValBool(ins[1]))
            elif op == "privx": regs.append(PrivValFxp(ins[1]))
            elif op == "add": regs.append(regs[ins[1]] + regs[ins[2]])
            elif op == "sub": regs.append(regs[ins[1]] - regs[ins[2]])
            elif op == "mul": regs.append(regs[ins[1]] * regs[ins[2]])
            elif op == "addi": regs.append(regs[ins[1]] + ins[2])
            elif op == "muli": regs.append(regs[ins[1]] * ins[2])
            elif op == "neg": regs.append(-regs[ins[1]])
            elif op == "lt": regs.append(regs[ins[1]] < regs[ins[2]])
            elif op == "lti": regs.append(regs[ins[1]] < ins[2])
            elif op == "eq": regs.append(regs[ins[1]] == regs[ins[2]])
            elif op == "eqi": regs.append(regs[ins[1]] == ins[2])
            elif op == "band": regs.append(regs[ins[1]] & regs[ins[2]])
            elif op == "bnot": regs.append(~regs[ins[1]])
            elif op == "tolc": regs.append(regs[ins[1]].lc)
            elif op == "val": regs[ins[1]].val()
            elif op == "bitcheck": R.add_constraint(regs[ins[1]], 1 - regs[ins[1]], LinComb.ZERO)
            elif op == "recheck": R.add_constraint(regs[ins[1]], regs[ins[2]], regs[ins[3]])
            elif op == "aeq": regs[ins[1]].assert_eq(regs[ins[2]])
            elif op == "azero": regs[ins[1]].assert_zero()
            elif op == "call": regs.extend(self.call(ins[1], ins[2], [self.build(a, regs) for a in ins[3]]))
            elif op == "guard": R.guarded(regs[ins[1]])(lambda: self.run(ins[2], regs))()
            elif op == "try":
                ctx0 = B.vc_ctx
                try:
                    self.run(ins[1], regs)
                except Boom:
                    # the backend state the program continues in, against the one the `try` statement was entered in
                    self.after_exception.append([ctx0, B.vc_ctx])
            elif op == "raise": raise Boom("boom")
            elif op == "prove": prove_step()
            else: raise ValueError("unknown instruction " + str(ins))

    def call(self, fname, mode, args):
        var = self.funcs[fname]["variants"][mode]
        me = self
        info = {"fn": fname, "mode": mode, "args": [leafinfo(x) for x in leaves(args)], "rets": None, "call": None,
                "guard_in": None if R.guard is None else sigstr(R.guard.lc.sig)}
        self.calls.append(info)
        arginfos = [i for i in info["args"] if i]

        def body(*cargs):
            suppress[0] = False
            info["call"] = B.vc_ctx
            events.append("e:" + fname + ":@D@:" + "^".join(arginfos))
            regs = [x for x in leaves(cargs) if not isinstance(x, int)]     # plain integers are not registers
            try:
                me.run(var["body"], regs)
                ret = me.build(var["ret"], regs)
            except BaseException:
                info["raised"] = True
                events.append("a")
                raise
            info["rets"] = [leafinfo(x) for x in leaves(ret)]
            info["guard"] = None if R.guard is None else [sigstr(R.guard.lc.sig), R.guard.value]
            note_guard()
            events.append("l:@R@:" + "^".join(i for i in info["rets"] if i))
            suppress[0] = True
            return ret

        f = B.subqap(fname)(body)
        prev = suppress[0]
        suppress[0] = True
        try:
            res = f(*args)
        finally:
            suppress[0] = prev
        return leaves(res)


def readf(name):
    try:
        with open(name) as f:
            return f.read()
    except FileNotFoundError:
        return None


steps = []


def prove_step():
    """one proving step of the real backend; what it read, how it ended and which files it left (the files of the step: the ones
    whose content prove() is responsible for; pysnark_eqs itself is in `disk`)"""
    snapshot["disk"] = None; snapshot["sigs"] = None
    st = {"prove": None, "ctx": B.vc_ctx}
    err = io.StringIO()
    try:
        with contextlib.redirect_stderr(err), contextlib.redirect_stdout(io.StringIO()):
            B.prove()
    except BaseException as e:
        if isinstance(e, (KeyboardInterrupt, SystemExit)): raise
        st["prove"] = [type(e).__name__, str(e)[:400]]
        tb = traceback.extract_tb(e.__traceback__)
        st["prove_at"] = f"{os.path.basename(tb[-1].filename)}:{tb[-1].name}"
        del e, tb
    gc.collect()            # closes qapsplit's schedule file object if an exception kept its frame alive
    st["stderr"] = err.getvalue()[-6000:]
    st["disk"] = snapshot["disk"]
    st["sigs"] = snapshot["sigs"]
    st["files"] = {name: readf(name) for name in sorted(os.listdir("."))
                   if name.startswith("pysnark_eqs_") or name == "pysnark_schedule"}
    steps.append(st)
    return st


def main():
    case = json.loads(sys.stdin.read())
    out = {"id": case.get("id")}
    it = Interp(case)
    regs = []
    try:
        it.run(case["main"], regs)
        out["run"] = "ok"
    except BaseException as e:
        if isinstance(e, (KeyboardInterrupt, SystemExit)): raise
        out["run"] = f"{type(e).__name__}: {e}"[:300]
        out["run_tb"] = traceback.format_exc().splitlines()[-6:]
    st = prove_step()
    out["prove"] = st["prove"]
    if "prove_at" in st: out["prove_at"] = st["prove_at"]
    out["stderr"] = st["stderr"]
    out["disk"] = st["disk"]
    out["sigs"] = st["sigs"]
    out["steps"] = steps
    # the complete files as a finished process leaves them (interpreter exit flushes the writers)
    for fobj in (B.qape, B.qapv, B.qapvo):
        if fobj is not None:
            fobj.flush()
    files = {}
    for name in sorted(os.listdir(".")):
        if name.startswith("pysnark_"):
            files[name] = readf(name)
    out["files"] = files
    out["events"] = events
    out["calls"] = it.calls
    out["after_exception"] = it.after_exception
    out["ctx_end"] = B.vc_ctx
    out["p"] = B.get_modulus()
    sys.stdout.write(json.dumps(out) + "\n")
    sys.stdout.flush()
    os._exit(0)             # no exit hook: prove() has been run explicitly above


if __name__ == "__main__":
    main()
