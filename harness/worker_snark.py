"""Worker for C17: calls functions wrapped with the real @snark decorator on random nested argument structures
and reports, per call, the public values added, the linking constraints, the returned plain values and what the
undecorated function returns on the plain arguments.  Protocol: `N|id|<json>`."""
import sys, os, json, traceback
from fractions import Fraction
sys.path.insert(0, os.path.dirname(os.path.abspath(__file__)))
import worker as W
import canon
B = W.B; R = W.R
from pysnark.runtime import PrivVal, LinComb, snark
from pysnark.boolean import LinCombBool
from pysnark.fixedpoint import LinCombFxp


def build(a):
    """json -> python structure: ["i", n] int, ["f", m, e] float m/2^e, ["l", [...]], ["t", [...]], ["d", {k: v}]"""
    t = a[0]
    if t == "i": return a[1]
    if t == "f": return float(Fraction(a[1], 2 ** a[2]))
    if t == "l": return [build(x) for x in a[1]]
    if t == "t": return tuple(build(x) for x in a[1])
    if t == "d": return {k: build(v) for k, v in a[1].items()}
    raise ValueError(a)


def leaves(x):
    if isinstance(x, (list, tuple)):
        for y in x: yield from leaves(y)
    elif isinstance(x, dict):
        for k in x: yield from leaves(x[k])
    else:
        yield x


def body(template, extra):
    """function bodies working on any nested argument structure through its numeric leaves"""
    def f(*args):
        xs = list(leaves(args))
        ints = [x for x in xs if not isinstance(x, (float, LinCombFxp))]
        flts = [x for x in xs if isinstance(x, (float, LinCombFxp))]
        a = ints[0] if ints else 1
        b = ints[1] if len(ints) > 1 else 2
        if template == "square": return a * a
        if template == "sum": return sum(ints) if ints else 0
        if template == "each": return [x * x for x in ints]
        if template == "mixed": return (a * b, [a + 1, a < b], {"k": a - b})
        if template == "twice":
            y = a * b
            return (y, [y, a], y)
        if template == "fx": return [q * 2 for q in flts] + [a]
        if template == "fxmix": return (flts[0] + a if flts else a, a * b, (a == b))
        if template == "plain": return 7
        if template == "passthrough": return list(xs)
        if template == "leak":        # a body that itself publishes something: allowed ("nothing ELSE" refers to the wrapper)
            (a * 1).val(); return a
        raise ValueError(template)
    return f


def plainval(x, res):
    if isinstance(x, bool): return ["i", int(x)]
    if isinstance(x, int): return ["i", x]
    if isinstance(x, float):
        fr = Fraction(x); return ["q", fr.numerator, fr.denominator]
    if isinstance(x, list): return ["l", [plainval(y, res) for y in x]]
    if isinstance(x, tuple): return ["t", [plainval(y, res) for y in x]]
    if isinstance(x, dict): return ["d", {k: plainval(v, res) for k, v in x.items()}]
    return ["?", type(x).__name__]


def build_struct(t, secret_ok):
    """compact structured value (see lean/PysnarkModel/Driver/ProtoStruct.lean) -> python structure"""
    from pysnark.boolean import PrivValBool
    from pysnark.fixedpoint import PrivValFxp
    def split_top(s):
        out = []; depth = 0; cur = ""
        for ch in s:
            if ch in "[(": depth += 1
            elif ch in "])": depth -= 1
            if ch == "," and depth == 0:
                out.append(cur); cur = ""
            else:
                cur += ch
        if s != "": out.append(cur)
        return out
    if t.startswith("["): return [build_struct(x, secret_ok) for x in split_top(t[1:-1])]
    if t.startswith("("): return tuple(build_struct(x, secret_ok) for x in split_top(t[1:-1]))
    k = t.split(":")
    if k[0] == "i": return int(k[1])
    if k[0] == "f": return float(Fraction(int(k[1]), 2 ** int(k[2])))
    if k[0] == "L": return PrivVal(int(k[1]))
    if k[0] == "B": return PrivValBool(int(k[1]))
    if k[0] == "X": return PrivValFxp(float(Fraction(int(k[1]), 2 ** int(k[2]))))
    raise ValueError(t)


def shape_str(x, p):
    return canon.val_str(x, p, W.CLASSES)


def handle_conv(kind, f):
    """NI|id|res|value : pass `value` (a tuple) as the arguments of a wrapped function and report how they arrive;
       NO|id|res|value : a wrapped function returns `value` (secrets created inside) and report what comes out"""
    W.reset({"p": W.DEFAULT_P, "bl": 32, "res": int(f[2])})
    p = W.DEFAULT_P
    got = {}
    if kind == "NI":
        args = build_struct(f[3], False)
        def fn(*a):
            got["args"] = a
            return 0
        snark(fn)(*args)
        r = shape_str(tuple(got["args"]), p)
        npub0 = 0
    else:
        def fn():
            return build_struct(f[3], True)
        ret = snark(fn)()
        r = shape_str(ret, p)
    return f"{f[1]}|ok|{r}|pubs={','.join(map(str, B.pubvals))}|ncons={len(B.constraints)}|npriv={len(B.privvals)}"


def main():
    for line in sys.stdin:
        f = line.rstrip("\n").split("|", 2)
        if f[0] in ("NI", "NO"):
            g = line.rstrip("\n").split("|")
            try:
                res = handle_conv(g[0], g)
            except BaseException as e:
                if isinstance(e, (KeyboardInterrupt, SystemExit)): raise
                res = f"{g[1]}|err:{type(e).__name__}"
            sys.stdout.write(res + "\n"); sys.stdout.flush()
            continue
        try:
            j = json.loads(f[2])
            W.reset({"p": W.DEFAULT_P, "bl": 32, "res": j.get("res", 8)})
            p = W.DEFAULT_P
            calls = []
            for c in j["calls"]:
                args = build(["t", c["args"]])
                npub0, npriv0, ncons0 = len(B.pubvals), len(B.privvals), len(B.constraints)
                rec = {}
                fn = body(c["template"], None)
                # probe run (own conversion of the arguments, state discarded): which result leaves are secret, and of what kind
                try:
                    snap = (list(B.pubvals), list(B.privvals), list(B.constraints))
                    def conv(x):
                        if isinstance(x, list): return [conv(y) for y in x]
                        if isinstance(x, tuple): return tuple(conv(y) for y in x)
                        if isinstance(x, dict): return {k: conv(v) for k, v in x.items()}
                        if isinstance(x, float):
                            from pysnark.fixedpoint import PrivValFxp
                            return PrivValFxp(x)
                        return PrivVal(x)
                    probe = fn(*conv(args))
                    rec["retkinds"] = ["X" if isinstance(x, LinCombFxp) else "B" if isinstance(x, LinCombBool) else "L" if isinstance(x, LinComb) else "-"
                                       for x in leaves(probe)]
                except Exception as e:
                    rec["retkinds"] = None
                finally:
                    B.pubvals[:] = snap[0]; B.privvals[:] = snap[1]; B.constraints[:] = snap[2]
                try:
                    if c.get("kwargs"):
                        ret = snark(fn)(*args, extra=1)
                    else:
                        ret = snark(fn)(*args)
                    rec["status"] = "ok"; rec["ret"] = plainval(ret, j.get("res", 8))
                except Exception as e:
                    rec["status"] = type(e).__name__
                rec["pubs"] = B.pubvals[npub0:]
                rec["npriv"] = len(B.privvals) - npriv0
                cons = B.constraints[ncons0:]
                # linking constraints: 0 * 0 = expr - pub_k
                # linking constraints `0 * 0 = expr - out`: for every new public wire, is there such a constraint with
                # coefficient -1 on it in which it is the newest public wire?
                links = []
                for idx in range(len(B.pubvals) - npub0):
                    k = npub0 + 1 + idx
                    for (a, b, cc) in cons:
                        if not a.lc and not b.lc and cc.lc.get(k, 0) % p == p - 1 and max([q for q in cc.lc if q > 0], default=0) == k:
                            links.append(idx); break
                rec["links"] = links
                rec["unsat"] = [i for i, (a, b, cc) in enumerate(B.constraints) if (W.ev(a, p) * W.ev(b, p) - W.ev(cc, p)) % p != 0][:3]
                try:
                    rec["plain"] = plainval(body(c["template"], None)(*args), j.get("res", 8))
                except Exception as e:
                    rec["plain"] = ["!", type(e).__name__]
                calls.append(rec)
            res = f"{f[1]}|" + json.dumps({"calls": calls})
        except BaseException as e:
            if isinstance(e, (KeyboardInterrupt, SystemExit)): raise
            res = f"{f[1]}|" + json.dumps({"harness-error": f"{type(e).__name__}: {e}", "tb": traceback.format_exc().splitlines()[-3:]})
        sys.stdout.write(res + "\n"); sys.stdout.flush()


if __name__ == "__main__":
    main()
