"""Worker for C17: calls functions wrapped with the real @snark decorator on random nested argument structures
and reports, per call, the public values added, the linking constraints, the returned plain values and what the
undecorated function returns on the plain arguments.  Protocol: `N|id|<json>`.

Argument structures may SHARE sub-containers: the json node ["ref", k] is the k-th list/tuple/dict completed so far
while building this call's arguments, and is built as THE SAME Python object (`f(v, v)`, `[row, row]`).  A call may
carry "guards": [[kind, g], ...] (kind "L": PrivVal(g), "B": PrivValBool(g)), outermost first: the decorated call is
then made inside `guarded(c1)(lambda: guarded(c2)(...)())()` of the real runtime.

A run may carry "pool": [struct, ...]: containers built ONCE per run; the node ["g", k] in the arguments of any call is
the k-th of them (the SAME mutable object handed to several calls of one run: `w = [3,4,5]; f(w, 1); f(w, 2)`).  Around
every call the worker describes the caller's argument objects before and after (`args_changed`) and the object the body
returned, as the body saw it and after the wrapper is done with it (`ret_changed`): the wrapper owns neither.

Templates `fmt:<conv>` are bodies that FORMAT or CONVERT their secret intermediates (one of each kind: integer, boolean,
fixed point) and their arguments: str, repr, %-formatting, f-strings, format(), print to a stream, a logging call, an
exception message that is caught, containers printed as a whole; and the conversions Python refuses for circuit values
(bool, int, float, hash, index, len, iteration), each caught by the body.  None of them may publish anything."""
import sys, os, json, traceback, copy, io
from fractions import Fraction
sys.path.insert(0, os.path.dirname(os.path.abspath(__file__)))
import worker as W
import canon
B = W.B; R = W.R
from pysnark.runtime import PrivVal, LinComb, snark, guarded
from pysnark.boolean import PrivValBool
from pysnark.boolean import LinCombBool
from pysnark.fixedpoint import LinCombFxp


def build(a, memo=None, pool=()):
    """json -> python structure: ["i", n] int, ["f", m, e] float m/2^e, ["l", [...]], ["t", [...]], ["d", {k: v}],
    ["ref", k]: the k-th container completed so far (the same object, not a copy); ["g", k]: the k-th object of the run's
    pool (the same object in every call of the run)"""
    if memo is None: memo = []
    t = a[0]
    if t == "i": return a[1]
    if t == "b": return bool(a[1])                      # a Python bool argument (True/False)
    if t == "f": return float(Fraction(a[1], 2 ** a[2]))
    if t == "ref": return memo[a[1]]
    if t == "g": return pool[a[1]]
    if t == "l": r = [build(x, memo, pool) for x in a[1]]
    elif t == "t": r = tuple([build(x, memo, pool) for x in a[1]])
    elif t == "d": r = {k: build(v, memo, pool) for k, v in a[1].items()}
    else: raise ValueError(a)
    memo.append(r)
    return r


def under_guards(conds, thunk):
    """thunk() inside guarded(conds[0])(... guarded(conds[-1])(thunk) ...), with the real `guarded`"""
    fn = thunk
    for c in reversed(conds):
        fn = guarded(c)(fn)
    return fn()


def make_cond(kind, g):
    return PrivValBool(g) if kind == "B" else PrivVal(g)


def leaves(x):
    if isinstance(x, (list, tuple)):
        for y in x: yield from leaves(y)
    elif isinstance(x, dict):
        for k in x: yield from leaves(x[k])
    else:
        yield x


FMT = ["str", "repr", "pct_s", "pct_r", "fstring", "format", "print", "log", "exc", "container", "deepcopy",
       "bool", "int", "float", "hash", "index", "len", "iter"]
_LOG = None


def convert(conv, v):
    """one formatting / conversion of a value inside a body; whatever it raises is caught as a debugging body would"""
    global _LOG
    try:
        if conv == "str": return str(v)
        if conv == "repr": return repr(v)
        if conv == "pct_s": return "value %s" % (v,)
        if conv == "pct_r": return "value %r and %5s" % (v, v)
        if conv == "fstring": return f"value {v} {v!r} {v!s:>8}"
        if conv == "format": return "{} {!r}".format(v, v) + format(v)
        if conv == "print":
            out = io.StringIO(); print("trace:", v, [v], file=out); return out.getvalue()
        if conv == "log":
            import logging
            if _LOG is None:
                _LOG = logging.getLogger("verif-c17"); _LOG.propagate = False
                _LOG.addHandler(logging.StreamHandler(io.StringIO())); _LOG.setLevel(logging.DEBUG)
            _LOG.debug("intermediate %s %r", v, v); _LOG.warning("w %s", [v]); return None
        if conv == "exc":
            try:
                raise ValueError("unexpected value %s (%r)" % (v, v))
            except ValueError as e:
                return str(e) + repr(e) + "".join(traceback.format_exception_only(type(e), e))
        if conv == "container": return str([v, (v,), {"k": v}]) + repr({"a": [v]})
        if conv == "deepcopy": return repr(copy.deepcopy([v])) + repr(copy.copy(v))
        if conv == "bool": return bool(v)
        if conv == "int": return int(v)
        if conv == "float": return float(v)
        if conv == "hash": return hash(v)
        if conv == "index": return [0, 1][v]
        if conv == "len": return len(v)
        if conv == "iter": return list(v)
    except Exception:
        return None
    raise ValueError(conv)


def describe(x):
    """what a structure holds, without touching circuit values: container types, leaf classes, plain leaf values"""
    if isinstance(x, list): return ["l", [describe(y) for y in x]]
    if isinstance(x, tuple): return ["t", [describe(y) for y in x]]
    if isinstance(x, dict): return ["d", {str(k): describe(v) for k, v in x.items()}]
    if isinstance(x, (bool, int)): return [type(x).__name__, x]
    if isinstance(x, float): return ["float", x.hex()]
    return ["obj", type(x).__name__, id(x)]


def body(template, extra):
    """function bodies working on any nested argument structure through its numeric leaves; `extra` (a dict) receives the
    object the body returns and its description at the moment of returning"""
    def f(*args):
        r = g(*args)
        if extra is not None:
            extra["ret"] = r; extra["ret_desc"] = describe(r)
        return r

    def g(*args):
        xs = list(leaves(args))
        ints = [x for x in xs if not isinstance(x, (float, LinCombFxp))]
        flts = [x for x in xs if isinstance(x, (float, LinCombFxp))]
        a = ints[0] if ints else 1
        b = ints[1] if len(ints) > 1 else 2
        if template == "square": return a * a
        if template == "sum": return sum(ints) if ints else 0
        if template == "each": return [x * x for x in ints]
        if template == "mixed": return (a * b, [a + 1, a < b], {"k": a - b})
        if template == "twice":
            y = a * b
            return (y, [y, a], y)
        if template == "fx": return [q * 2 for q in flts] + [a]
        if template == "fxmix": return (flts[0] + a if flts else a, a * b, (a == b))
        if template == "plain": return 7
        if template == "passthrough": return list(xs)
        if template == "echo": return list(args)              # the argument structure itself (converted), sharing and all
        if template == "sharedret":                           # the same list object in two slots of the result
            ys = [a * b, a + 1]
            return (ys, ys)
        if template == "sharedrows":                          # a matrix built as [row, row], and the row again in a dict
            row = [x * x for x in ints[:3]]
            return [row, row, {"k": row}]
        if template == "sharedtuple":                         # the same tuple object twice, nested
            t = (a, a * b)
            u = [t, 5]
            return (u, t, u)
        if template.startswith("fmt:"):                       # a body that formats/converts its secret intermediates
            conv = template[4:]
            y = a * b + 1                                     # integer
            c = a < b                                         # boolean
            q = flts[0] * 2 if flts else (LinCombFxp(y) if isinstance(y, LinComb) else float(y))   # fixed point
            for v in (y, c, q, a, flts[0] if flts else b, [y, c, q]) if conv not in ("index", "len", "iter") else (y, c, q):
                convert(conv, v)
            return (y, [c], {"q": q})
        if template == "leak":        # a body that itself publishes something: allowed ("nothing ELSE" refers to the wrapper)
            (a * 1).val(); return a
        raise ValueError(template)
    return f


def plainval(x, res):
    if isinstance(x, bool): return ["i", int(x)]
    if isinstance(x, int): return ["i", x]
    if isinstance(x, float):
        fr = Fraction(x); return ["q", fr.numerator, fr.denominator]
    if isinstance(x, list): return ["l", [plainval(y, res) for y in x]]
    if isinstance(x, tuple): return ["t", [plainval(y, res) for y in x]]
    if isinstance(x, dict): return ["d", {k: plainval(v, res) for k, v in x.items()}]
    return ["?", type(x).__name__]


def build_struct(t, secret_ok, memo=None):
    """compact structured value (see lean/PysnarkModel/Driver/ProtoStruct.lean) -> python structure; `@k` is the k-th
    list/tuple completed so far: the same object"""
    from pysnark.boolean import PrivValBool
    from pysnark.fixedpoint import PrivValFxp
    if memo is None: memo = []
    def split_top(s):
        out = []; depth = 0; cur = ""
        for ch in s:
            if ch in "[(": depth += 1
            elif ch in "])": depth -= 1
            if ch == "," and depth == 0:
                out.append(cur); cur = ""
            else:
                cur += ch
        if s != "": out.append(cur)
        return out
    if t.startswith("["):
        r = [build_struct(x, secret_ok, memo) for x in split_top(t[1:-1])]
        memo.append(r); return r
    if t.startswith("("):
        r = tuple([build_struct(x, secret_ok, memo) for x in split_top(t[1:-1])])
        memo.append(r); return r
    if t.startswith("@"): return memo[int(t[1:])]
    k = t.split(":")
    if k[0] == "i": return int(k[1])
    if k[0] == "b": return bool(int(k[1]))
    if k[0] == "f": return float(Fraction(int(k[1]), 2 ** int(k[2])))
    if k[0] == "L": return PrivVal(int(k[1]))
    if k[0] == "B": return PrivValBool(int(k[1]))
    if k[0] == "X": return PrivValFxp(float(Fraction(int(k[1]), 2 ** int(k[2]))))
    raise ValueError(t)


def shape_str(x, p):
    return canon.val_str(x, p, W.CLASSES)


def handle_conv(kind, f):
    """NI|id|res|value : pass `value` (a tuple) as the arguments of a wrapped function and report how they arrive;
       NO|id|res|value : a wrapped function returns `value` (secrets created inside) and report what comes out"""
    W.reset({"p": W.DEFAULT_P, "bl": 32, "res": int(f[2])})
    p = W.DEFAULT_P
    got = {}
    guards = [t.split(":") for t in f[4].split(",")] if len(f) > 4 else []
    conds = [make_cond(k, int(g)) for k, g in guards]
    if kind == "NI":
        def fn(*a):
            got["args"] = a
            return 0
        under_guards(conds, lambda: snark(fn)(*build_struct(f[3], False)))
        r = shape_str(tuple(got["args"]), p)
    else:
        def fn():
            return build_struct(f[3], True)
        ret = under_guards(conds, lambda: snark(fn)())
        r = shape_str(ret, p)
    return (f"{f[1]}|ok|{r}|pubs={','.join(map(str, B.pubvals))}|ncons={len(B.constraints)}|npriv={len(B.privvals)}"
            + ("|" + W.state_str(p) if guards else ""))


def handle_defaults(f):
    """ND|id|<json> : decorated functions that HAVE DEFAULT PARAMETERS (generator and oracle: props/c17_defaults.py).
    run = {"res": r, "calls": [{"params": [{"name", "kind": "pos"|"var"|"kwonly", "default": node?}], "body": "fold"|"echo",
    "args": [node], "kwargs": {name: node}}]}; node = ["i", n] | ["b", 0|1] | ["f", m, e] | ["n"] (None) | ["s", text] |
    ["l"|"t", [node]] | ["d", {k: node}].  The function is a real `def` with the default OBJECTS in its signature.  Per call:
    the public values added, what every parameter looked like when the body received it, whether an omitted parameter arrived as
    the default object itself, the default objects before/after, the returned value, and what the undecorated function (own
    fresh defaults) returns on freshly built arguments."""
    try:
        j = json.loads(f[2])
        res = j.get("res", 8)
        W.reset({"p": W.DEFAULT_P, "bl": 32, "res": res})
        p = W.DEFAULT_P

        def mk(a):
            t = a[0]
            if t == "n": return None
            if t == "s": return a[1]
            if t == "l": return [mk(x) for x in a[1]]
            if t == "t": return tuple(mk(x) for x in a[1])
            if t == "d": return {k: mk(v) for k, v in a[1].items()}
            return build(a)

        def desc(x):
            if x is None: return ["n"]
            if isinstance(x, str): return ["s", x]
            if isinstance(x, list): return ["l", [desc(y) for y in x]]
            if isinstance(x, tuple): return ["t", [desc(y) for y in x]]
            if isinstance(x, dict): return ["d", {str(k): desc(v) for k, v in x.items()}]
            return plainval(x, res)

        def numeric(x):
            return isinstance(x, (int, float, LinComb, LinCombFxp, LinCombBool))

        def make(c, extra):
            """the function under test: `def fn(a, b=<default object>, *rest, k=<default object>)`"""
            ns = {}; sig = []; names = []; defaults = {}
            for q in c["params"]:
                names.append(q["name"])
                if q["kind"] == "var":
                    sig.append("*" + q["name"]); continue
                if q["kind"] == "kwonly" and not any(s.startswith("*") for s in sig):
                    sig.append("*")
                if "default" in q:
                    defaults[q["name"]] = ns["_d_" + q["name"]] = mk(q["default"])
                    sig.append(f"{q['name']}=_d_{q['name']}")
                else:
                    sig.append(q["name"])

            def inner(received):
                if extra is not None:
                    extra["arrived"] = {k: desc(v) for k, v in received.items()}
                    extra["same"] = {k: received[k] is defaults[k] for k in defaults}
                xs = [x for x in leaves(list(received.values())) if numeric(x)]
                if c["body"] == "echo":
                    return list(received.values())
                ints = [x for x in xs if not isinstance(x, (float, LinCombFxp))]
                flts = [x for x in xs if isinstance(x, (float, LinCombFxp))]
                acc = 0
                for k, x in enumerate(ints): acc = acc + x * (k + 1)
                if len(ints) > 1: acc = acc + ints[0] * ints[1]
                return (acc, [q * 2 for q in flts])
            ns["_inner"] = inner
            exec(f"def fn({', '.join(sig)}):\n    return _inner({{{', '.join(repr(n) + ': ' + n for n in names)}}})\n", ns)
            return ns["fn"], defaults

        calls = []
        for c in j["calls"]:
            rec = {}; extra = {}
            fn, defaults = make(c, extra)
            args = tuple(mk(a) for a in c["args"])
            kwargs = {k: mk(v) for k, v in c.get("kwargs", {}).items()}
            dflt_before = {k: desc(v) for k, v in defaults.items()}
            # probe (state discarded): which result leaves are secret when the PASSED numbers are circuit values
            snap = (list(B.pubvals), list(B.privvals), list(B.constraints))
            try:
                from pysnark.fixedpoint import PrivValFxp
                def conv(x):
                    if isinstance(x, list): return [conv(y) for y in x]
                    if isinstance(x, tuple): return tuple(conv(y) for y in x)
                    if isinstance(x, dict): return {k: conv(v) for k, v in x.items()}
                    if isinstance(x, float): return PrivValFxp(x)
                    if isinstance(x, int): return PrivVal(x)
                    return x
                probe = make(c, None)[0](*conv(args))
                rec["retkinds"] = ["X" if isinstance(x, LinCombFxp) else "B" if isinstance(x, LinCombBool) else "L" if isinstance(x, LinComb)
                                   else "-" for x in leaves(probe) if numeric(x)]
            except Exception:
                rec["retkinds"] = None
            finally:
                B.pubvals[:] = snap[0]; B.privvals[:] = snap[1]; B.constraints[:] = snap[2]
            np0, npr0, nc0 = len(B.pubvals), len(B.privvals), len(B.constraints)
            try:
                ret = snark(fn)(*args, **kwargs)
                rec["status"] = "ok"; rec["ret"] = desc(ret)
            except Exception as e:
                rec["status"] = type(e).__name__
            rec["pubs"] = B.pubvals[np0:]
            rec["npriv"] = len(B.privvals) - npr0
            links = []
            for idx in range(len(B.pubvals) - np0):
                k = np0 + 1 + idx
                for (a, b, cc) in B.constraints[nc0:]:
                    if not a.lc and not b.lc and cc.lc.get(k, 0) % p == p - 1 and max([q for q in cc.lc if q > 0], default=0) == k:
                        links.append(idx); break
            rec["links"] = links
            rec["unsat"] = [i for i, (a, b, cc) in enumerate(B.constraints) if (W.ev(a, p) * W.ev(b, p) - W.ev(cc, p)) % p != 0][:3]
            rec["arrived"] = extra.get("arrived"); rec["same"] = extra.get("same")
            dflt_after = {k: desc(v) for k, v in defaults.items()}
            if dflt_after != dflt_before:
                rec["defaults_changed"] = [dflt_before, dflt_after]
            try:
                rec["plain"] = desc(make(c, None)[0](*tuple(mk(a) for a in c["args"]), **{k: mk(v) for k, v in c.get("kwargs", {}).items()}))
            except Exception as e:
                rec["plain"] = ["!", type(e).__name__]
            calls.append(rec)
        return f"{f[1]}|" + json.dumps({"calls": calls})
    except BaseException as e:
        if isinstance(e, (KeyboardInterrupt, SystemExit)): raise
        return f"{f[1]}|" + json.dumps({"harness-error": f"{type(e).__name__}: {e}", "tb": traceback.format_exc().splitlines()[-3:]})


def main():
    for line in sys.stdin:
        f = line.rstrip("\n").split("|", 2)
        if f[0] in ("NI", "NO"):
            g = line.rstrip("\n").split("|")
            try:
                res = handle_conv(g[0], g)
            except BaseException as e:
                if isinstance(e, (KeyboardInterrupt, SystemExit)): raise
                res = f"{g[1]}|err:{type(e).__name__}"
            sys.stdout.write(res + "\n"); sys.stdout.flush()
            continue
        if f[0] == "ND":                                      # decorated functions with default parameters (props/c17_defaults.py)
            sys.stdout.write(handle_defaults(f) + "\n"); sys.stdout.flush()
            continue
        try:
            j = json.loads(f[2])
            W.reset({"p": W.DEFAULT_P, "bl": 32, "res": j.get("res", 8)})
            p = W.DEFAULT_P
            calls = []
            pool = [build(x) for x in j.get("pool", [])]      # built once per run: the same objects in every call
            for c in j["calls"]:
                args = build(["t", c["args"]], None, pool)
                args_before = describe(args)
                # what the undecorated function is run on afterwards: built afresh (an earlier call may have changed the pool)
                args_plain = build(["t", c["args"]], None, [build(x) for x in j.get("pool", [])])
                npub_before = len(B.pubvals)
                rec = {}
                kept = {}
                fn = body(c["template"], None)
                # probe run (own conversion of the arguments, state discarded): which result leaves are secret, and of what kind
                try:
                    snap = (list(B.pubvals), list(B.privvals), list(B.constraints))
                    def conv(x):
                        if isinstance(x, list): return [conv(y) for y in x]
                        if isinstance(x, tuple): return tuple(conv(y) for y in x)
                        if isinstance(x, dict): return {k: conv(v) for k, v in x.items()}
                        if isinstance(x, float):
                            from pysnark.fixedpoint import PrivValFxp
                            return PrivValFxp(x)
                        return PrivVal(x)
                    probe = fn(*conv(args))
                    rec["retkinds"] = ["X" if isinstance(x, LinCombFxp) else "B" if isinstance(x, LinCombBool) else "L" if isinstance(x, LinComb) else "-"
                                       for x in leaves(probe)]
                except Exception as e:
                    rec["retkinds"] = None
                finally:
                    B.pubvals[:] = snap[0]; B.privvals[:] = snap[1]; B.constraints[:] = snap[2]
                conds = [make_cond(k, g) for k, g in c.get("guards", [])]
                pos = {}
                def do_call():
                    # positions are taken INSIDE the guarded region(s): entering a nested region records wires itself
                    pos["np"], pos["npr"], pos["nc"] = len(B.pubvals), len(B.privvals), len(B.constraints)
                    try:
                        if c.get("kwargs"):
                            ret = snark(body(c["template"], kept))(*args, extra=1)
                        else:
                            ret = snark(body(c["template"], kept))(*args)
                        rec["status"] = "ok"; rec["ret"] = plainval(ret, j.get("res", 8))
                    except Exception as e:
                        rec["status"] = type(e).__name__
                    pos["np1"], pos["npr1"], pos["nc1"] = len(B.pubvals), len(B.privvals), len(B.constraints)
                under_guards(conds, do_call)
                npub0, npub1, ncons0, ncons1 = pos["np"], pos["np1"], pos["nc"], pos["nc1"]
                rec["pubs"] = B.pubvals[npub0:npub1]
                rec["npriv"] = pos["npr1"] - pos["npr"]
                rec["pubs_around"] = len(B.pubvals) - npub_before - (npub1 - npub0)   # made public by entering/leaving the regions
                cons = B.constraints[ncons0:ncons1]
                # linking constraints `0 * 0 = expr - out` (inside a guarded region: `... + dummy`): for every new public
                # wire, is there such a constraint with coefficient -1 on it in which it is the newest public wire?
                links = []
                for idx in range(npub1 - npub0):
                    k = npub0 + 1 + idx
                    for (a, b, cc) in cons:
                        if not a.lc and not b.lc and cc.lc.get(k, 0) % p == p - 1 and max([q for q in cc.lc if q > 0], default=0) == k:
                            links.append(idx); break
                rec["links"] = links
                rec["unsat"] = [i for i, (a, b, cc) in enumerate(B.constraints) if (W.ev(a, p) * W.ev(b, p) - W.ev(cc, p)) % p != 0][:3]
                # the caller's argument objects and the object the body returned belong to the caller / the body
                args_after = describe(args)
                if args_after != args_before:
                    rec["args_changed"] = [args_before, args_after]
                if "ret" in kept and describe(kept["ret"]) != kept["ret_desc"]:
                    rec["ret_changed"] = [kept["ret_desc"], describe(kept["ret"])]
                try:
                    rec["plain"] = plainval(body(c["template"], None)(*args_plain), j.get("res", 8))
                except Exception as e:
                    rec["plain"] = ["!", type(e).__name__]
                calls.append(rec)
            res = f"{f[1]}|" + json.dumps({"calls": calls})
        except BaseException as e:
            if isinstance(e, (KeyboardInterrupt, SystemExit)): raise
            res = f"{f[1]}|" + json.dumps({"harness-error": f"{type(e).__name__}: {e}", "tb": traceback.format_exc().splitlines()[-3:]})
        sys.stdout.write(res + "\n"); sys.stdout.flush()


if __name__ == "__main__":
    main()
