"""Worker for the value-independence oracle of decorated calls (C17 / C06): calls ONE function wrapped with the real
@snark decorator on a given argument structure and reports everything about the call that must not depend on the argument
VALUES: the number of public / private wires and constraints it added, every constraint in canonical form (coefficients
reduced, values absent by construction), the class under which every argument leaf arrives in the body (LinComb /
LinCombBool / LinCombFxp / int ...), and the type skeleton of what the call returns.  The harness runs the same call with
other values (0 and 1 against anything else, negative, large, floats 0.0 / 1.0 / fractions) and compares.

Protocol: `NT|id|<json {"res": r, "template": t, "args": [...], "guards": [[kind, g], ...]}>` -> `id|<json report>`.
Argument structures, templates and guards are those of worker_snark.py (imported, not copied)."""
import sys, os, json, traceback
sys.path.insert(0, os.path.dirname(os.path.abspath(__file__)))
import worker_snark as WS
W = WS.W; B = WS.B
import canon
from pysnark.runtime import snark


def skeleton(x):
    if isinstance(x, list): return ["l", [skeleton(y) for y in x]]
    if isinstance(x, tuple): return ["t", [skeleton(y) for y in x]]
    if isinstance(x, dict): return ["d", {str(k): skeleton(v) for k, v in x.items()}]
    return type(x).__name__


def handle(j):
    p = W.DEFAULT_P
    W.reset({"p": p, "bl": 32, "res": j.get("res", 8)})
    args = WS.build(["t", j["args"]])
    seen = []
    fn = WS.body(j["template"], None)

    def spy(*a):
        seen.extend(type(x).__name__ for x in WS.leaves(a))
        return fn(*a)
    conds = [WS.make_cond(k, g) for k, g in j.get("guards", [])]
    pos = {}
    rec = {}

    def do_call():
        pos["np"], pos["npr"], pos["nc"] = len(B.pubvals), len(B.privvals), len(B.constraints)
        try:
            ret = snark(spy)(*args)
            rec["status"] = "ok"; rec["ret"] = skeleton(ret)
        except Exception as e:
            rec["status"] = type(e).__name__
        pos["np1"], pos["npr1"], pos["nc1"] = len(B.pubvals), len(B.privvals), len(B.constraints)
    WS.under_guards(conds, do_call)
    rec["npub"] = pos["np1"] - pos["np"]; rec["npriv"] = pos["npr1"] - pos["npr"]; rec["ncons"] = pos["nc1"] - pos["nc"]
    rec["cons"] = [f"{canon.canon_lc(a, p)} @ {canon.canon_lc(b, p)} = {canon.canon_lc(c, p)}" for (a, b, c) in B.constraints[pos["nc"]:pos["nc1"]]]
    rec["argclasses"] = seen
    rec["pubs"] = [str(v) for v in B.pubvals[pos["np"]:pos["np1"]]]
    rec["unsat"] = [i for i, (a, b, c) in enumerate(B.constraints) if (W.ev(a, p) * W.ev(b, p) - W.ev(c, p)) % p != 0][:3]
    return rec


def main():
    for line in sys.stdin:
        f = line.rstrip("\n").split("|", 2)
        try:
            res = f"{f[1]}|" + json.dumps(handle(json.loads(f[2])))
        except BaseException as e:
            if isinstance(e, (KeyboardInterrupt, SystemExit)): raise
            res = f"{f[1] if len(f) > 1 else '?'}|" + json.dumps({"harness-error": f"{type(e).__name__}: {e}", "tb": traceback.format_exc().splitlines()[-3:]})
        sys.stdout.write(res + "\n"); sys.stdout.flush()


if __name__ == "__main__":
    main()
