import PysnarkModel.Driver.Proto
import PysnarkModel.Driver.ProtoLC
import PysnarkModel.Driver.ProtoSnarkjs
import PysnarkModel.Driver.ProtoGuard
import PysnarkModel.Driver.ProtoExit
import PysnarkModel.Driver.ProtoSelect
import PysnarkModel.Driver.ProtoStruct
import PysnarkModel.Driver.ProtoHash
import PysnarkModel.Driver.ProtoZkif
import PysnarkModel.Driver.ProtoBlock
import PysnarkModel.Driver.ProtoQaptools
import PysnarkModel.Driver.ProtoArray2D
open Pysnark Pysnark.Proto

def handle (line : String) : String :=
  match line.splitOn "|" with
  | "P" :: rest => handleProg rest
  | "E" :: rest => ProtoLC.handleExpr rest
  | "I" :: rest => ProtoLC.handleInv rest
  | "J" :: rest => ProtoSnarkjs.handleSnarkjs rest
  | "H" :: rest => ProtoGuard.handleHist rest
  | "X" :: rest => ProtoExit.handleExit rest
  | "S" :: rest => ProtoSelect.handleSelect rest
  | "K" :: rest => ProtoStruct.handlePack rest
  | "Z" :: rest => ProtoZkif.handleZkif rest
  | "Q" :: rest => ProtoQaptools.handleQap rest
  | "PH" :: rest => ProtoHash.handlePoseidon rest
  | "BL" :: rest => ProtoBlock.handleBlock rest
  | "PS" :: rest => ProtoHash.handleParams rest
  | "PG" :: rest => ProtoHash.handleGgh rest
  | "NI" :: rest => ProtoStruct.handleSnark true rest
  | "NO" :: rest => ProtoStruct.handleSnark false rest
  | "A2" :: rest => ProtoArray2D.handleA2 rest
  | _ => "bad-line"

partial def loop (h : IO.FS.Stream) (out : IO.FS.Stream) : IO Unit := do
  let line ← h.getLine
  if line.isEmpty then return ()
  out.putStrLn (handle line.trimAscii.toString)
  loop h out

def main : IO Unit := do
  loop (← IO.getStdin) (← IO.getStdout)
