import PysnarkModel.Model.Basic
import PysnarkModel.Model.PyInt
import PysnarkModel.Model.Prim
import PysnarkModel.Model.Gadgets
import PysnarkModel.Model.Val
import PysnarkModel.Model.Methods
import PysnarkModel.Model.Prog
import PysnarkModel.Driver.Proto
