import PysnarkModel.Model.Prog
/-!
# Line protocol: parsing of cases and canonical printing of results
Not part of the verified model; mirrored by `harness/canon.py`.
-/
namespace Pysnark.Proto
open Pysnark

def wireOrd : Wire → Nat × Nat
  | .one => (0, 0) | .pub i => (1, i) | .priv i => (2, i)
def wireLt (a b : Wire) : Bool :=
  let x := wireOrd a; let y := wireOrd b
  x.1 < y.1 || (x.1 == y.1 && x.2 < y.2)
def wireStr : Wire → String
  | .one => "1" | .pub i => s!"x{i+1}" | .priv i => s!"w{i+1}"

/-- canonical form: duplicate keys summed, coefficients reduced mod p, zeros dropped, sorted -/
def canonLC (p : Int) (l : LC) : String :=
  let merged := l.foldl (fun (acc : List (Wire × Int)) kv =>
    if acc.any (·.1 == kv.1) then acc.map (fun x => if x.1 == kv.1 then (x.1, x.2 + kv.2) else x)
    else acc ++ [kv]) []
  let sym (c : Int) : Int := let r := c % p; if 2 * r > p then r - p else r
  let red := (merged.map fun kv => (kv.1, sym kv.2)).filter (·.2 != 0)
  let arr := red.toArray.qsort (fun a b => wireLt a.1 b.1)
  if arr.isEmpty then "0"
  else "+".intercalate (arr.toList.map fun kv => s!"{wireStr kv.1}*{kv.2}")

partial def normFlt (m : Int) (e : Nat) : Int × Nat :=
  if e > 0 && m % 2 == 0 then normFlt (m / 2) (e - 1) else (m, e)

partial def valStr (p : Int) : Val → String
  | .none => "N"
  | .int v => s!"I:{v}"
  | .flt m e => let (m', e') := normFlt m e; s!"F:{m'}/{2 ^ e'}"
  | .lc x => s!"L:{x.value}:{canonLC p x.lc}"
  | .lcb x => s!"B:{x.value}:{canonLC p x.lc}"
  | .fxp x => s!"X:{x.value}:{canonLC p x.lc}"
  | .list xs => "[" ++ ",".intercalate (xs.map (valStr p)) ++ "]"
  | .tuple xs => "(" ++ ",".intercalate (xs.map (valStr p)) ++ ")"

def consStr (p : Int) (c : Constraint) : String :=
  s!"{canonLC p c.1} @ {canonLC p c.2.1} = {canonLC p c.2.2}"

def stStr (s : St) : String :=
  let g := match s.guard with | none => "N" | some g => s!"{g.value}:{canonLC s.p g.lc}"
  s!"PUB={",".intercalate (s.pub.map toString)}|PRIV={",".intercalate (s.priv.map toString)}" ++
  s!"|CONS={" & ".intercalate (s.cons.map (consStr s.p))}|G={g}|IGN={if s.ignoreErrors then 1 else 0}" ++
  s!"|ONE={s.one.value}:{canonLC s.p s.one.lc}|BL={s.bitlength}|RES={s.resolution}"

def outStr (id : String) (o : Out) : String :=
  let status := match o.err with
    | none => "ok"
    | some (e, k) => s!"err:{e.name}:{k}"
  s!"{id}|{status}|{";".intercalate (o.regs.map (valStr o.st.p))}|{stStr o.st}"

/-! ## parsing -/
def reg? (t : String) : Option Nat :=
  if t.startsWith "r" then (t.drop 1).toNat? else none

def lit? (t : String) : Option Val :=
  match t.splitOn ":" with
  | ["n"] => some .none
  | ["i", v] => v.toInt?.map .int
  | ["f", m, e] => do let m ← m.toInt?; let e ← e.toNat?; pure (.flt m e)
  | _ => none

def kind? : String → Option Kind
  | "priv" => some .priv | "pub" => some .pub | "const" => some .const
  | "privb" => some .privb | "pubb" => some .pubb | "privx" => some .privx | "pubx" => some .pubx
  | _ => none

def binop? : String → Option BinOp
  | "add" => some .add | "sub" => some .sub | "mul" => some .mul | "truediv" => some .truediv
  | "floordiv" => some .floordiv | "mod" => some .mod | "divmod" => some .divmod | "pow" => some .pow
  | "lshift" => some .lshift | "rshift" => some .rshift | "and" => some .band | "xor" => some .bxor
  | "or" => some .bor | "lt" => some .lt | "le" => some .le | "eq" => some .eq | "ne" => some .ne
  | "gt" => some .gt | "ge" => some .ge
  | _ => none

def un? : String → Option Un
  | "neg" => some .neg | "pos" => some .pos | "abs" => some .abs | "invert" => some .invert
  | _ => none

def meth? : String → Option Meth
  | "val" => some .val | "to_bits" => some .toBits | "check_positive" => some .checkPositive
  | "assert_positive" => some .assertPositive | "check_zero" => some .checkZero
  | "check_nonzero" => some .checkNonzero | "assert_zero" => some .assertZero
  | "assert_nonzero" => some .assertNonzero | "assert_lt" => some .assertLt
  | "assert_le" => some .assertLe | "assert_eq" => some .assertEq | "assert_ne" => some .assertNe
  | "assert_gt" => some .assertGt | "assert_ge" => some .assertGe | "assert_range" => some .assertRange
  | "if_else" => some .ifElse | "from_bits" => some .fromBits
  | _ => none

def regs? (ts : List String) : Option (List Nat) := ts.mapM reg?

def instr? (t : String) : Option Instr :=
  match (t.splitOn " ").filter (· ≠ "") with
  | ["lit", l] => (lit? l).map .lit
  | ["mk", k, a] => do pure (.mk (← kind? k) (← reg? a))
  | ["wrapb", a] => (reg? a).map .wrapb
  | ["wrapx", a] => (reg? a).map .wrapx
  | ["bin", op, a, b] => do pure (.bin (← binop? op) (← reg? a) (← reg? b))
  | ["iop", op, a, b] => do
    -- augmented assignment on a second reference (`t = a; t op= b`): no class of the modelled tree defines `__iadd__` & co, so
    -- Python evaluates `t = t op b`; values are immutable in the model, so this is the ordinary binary operator
    let o ← binop? op
    if [BinOp.lt, .le, .eq, .ne, .gt, .ge, .divmod].contains o then none else pure (.bin o (← reg? a) (← reg? b))
  | ["un", op, a] => do pure (.un (← un? op) (← reg? a))
  | "call" :: m :: self :: args => do pure (.call (← meth? m) (← reg? self) (← regs? args))
  | ["ite", c, a, b] => do pure (.ite (← reg? c) (← reg? a) (← reg? b))
  | "list" :: xs => (regs? xs).map .list
  | ["idx", a, i] => do pure (.idx (← reg? a) (← i.toInt?))
  | ["genter", c] => (reg? c).map .genter
  | ["gleave"] => some .gleave
  -- a selection whose branches are functions, `if_then_else(c, f, g)`, is `guarded(c)(f)()`, `guarded(~c)(g)()` and the selection
  -- between the two results (branching.py): the harness writes it instruction by instruction as
  -- `fthen c; <f>; fmid; un invert c; felse ~c; <g>; fleave; fsel c t e` (either region may be missing: that branch is a value)
  | ["fthen", c] => (reg? c).map .genter
  | ["fmid"] => some .gleave
  | ["felse", c] => (reg? c).map .genter
  | ["fleave"] => some .gleave
  | ["fsel", c, a, b] => do pure (.ite (← reg? c) (← reg? a) (← reg? b))
  | ["set", "bl", n] => n.toNat?.map .setBl
  | ["set", "res", n] => n.toNat?.map .setRes
  | ["set", "ign", n] => n.toNat?.map (fun k => .setIgn (k != 0))
  | "arr" :: xs => (regs? xs).map .arr
  | ["aget", a, i] => do pure (.aget (← reg? a) (← reg? i))
  | ["aset", a, i, v] => do pure (.aset (← reg? a) (← reg? i) (← reg? v))
  | _ => none

def cfg? (t : String) : Option St := do
  let kvs := (t.splitOn ",").map (fun kv => kv.splitOn "=")
  let get (k : String) : Option String := kvs.findSome? fun kv => match kv with | [k', v] => if k' == k then some v else none | _ => none
  let p ← (← get "p").toInt?
  let bl ← (← get "bl").toNat?
  let res ← (← get "res").toNat?
  let ign ← (← get "ign").toNat?
  pure { p := p, bitlength := bl, resolution := res, ignoreErrors := ign != 0 }

def prog? (t : String) : Option (List Instr) :=
  ((t.splitOn ";").filter (fun s => s.trimAscii.toString ≠ "")).mapM instr?

/-- Python object identity, resolved statically: `+x` returns `x` ITSELF (`__pos__` returns `self`), and
`if_then_else(c, t, f)` tests `t is f`.  The model's `ite` compares register indices, so the driver
maps every register to the first register holding the same object before running the program:
`un pos a` is an alias of `a`; `ite c t f` with aliased branches is an alias of `t`. -/
def aliasRoots (is : List Instr) : List Nat :=
  is.foldl (fun (roots : List Nat) i =>
    let k := roots.length
    let r : Nat := match i with
      | .un .pos a => roots.getD a a
      | .ite _ t f => if roots.getD t t == roots.getD f f then roots.getD t t else k
      -- `PrivVal(v).val()` (also Pub/Const and the boolean constructors) hands back the very int object `v` it was built from
      | .call .val a [] =>
        match is[a]? with
        | some (.mk kind l) =>
          match kind with
          | .priv | .pub | .const | .privb | .pubb => roots.getD l l
          | _ => k
        | _ => k
      -- an element read back from a list literal is the element object itself
      | .idx a i =>
        match is[a]? with
        | some (.list xs) =>
          match pyIndex xs.length i with
          | some j => match xs[j]? with | some e => roots.getD e e | none => k
          | none => k
        | _ => k
      | _ => k
    roots ++ [r]) []

def resolveIdentity (is : List Instr) : List Instr :=
  let roots := aliasRoots is
  is.map fun i => match i with
    | .ite c t f => .ite c (roots.getD t t) (roots.getD f f)
    | j => j

/-- handle one `P|id|cfg|prog` line -/
def handleProg (fields : List String) : String :=
  match fields with
  | [id, cfg, prog] =>
    -- `tbegin` .. `tend` (the caller catches what the body raises and goes on) has no counterpart in the program model
    if (prog.splitOn ";").any (fun t => (t.trimAscii.toString == "tbegin") || (t.trimAscii.toString == "tend")) then s!"{id}|UNMODELLED" else
    match cfg? cfg, prog? prog with
    | some s0, some is => outStr id (run s0 (resolveIdentity is))
    | _, _ => s!"{id}|bad-case"
  | _ => "bad-line"

end Pysnark.Proto
