import PysnarkModel.Model.Array2D
import PysnarkModel.Driver.Proto
/-!
# Line protocol for two-dimensional array histories (C15)

`A2|id|cfg|sec=0/1;init=1,2,3/4,5,6|ev;ev;…` (`init=-`: no rows; a row `e`: no elements; `cfg` carries `ign=0/1`) with the events of `Model/Array2D.lean` (`harness/a2enc.py` renders the
histories that `harness/props/c15.py gen_2d` sends to `harness/worker_array2d.py` in this form).  Reply:
`id|status|at|T=[matrix after every completed event]|V=name:value,…|<state as Proto.stStr>`; on an error the state
is the one before the failing event.  Not part of the verified model.
-/
namespace Pysnark.ProtoArray2D
open Pysnark Pysnark.Proto Pysnark.A2

def ix? (t : String) : Option Ix :=
  match t.splitOn ":" with
  | ["p", v] => v.toInt?.map .p
  | ["s", v] => v.toInt?.map .s
  | ["n", v] => v.toNat?.map .n
  | _ => none

/-- a comma-separated list of integers; `e` is the empty list (an `Array([])`: every index is outside it) -/
def ints? (t : String) : Option (List Int) :=
  if t == "e" then some [] else (t.splitOn ",").mapM String.toInt?

def ev? (t : String) : Option Ev :=
  match (t.splitOn " ").filter (· ≠ "") with
  | ["idx", n, s, i] => do pure (.idx (← n.toNat?) ((← s.toNat?) != 0) (← i.toInt?))
  | ["row", v, r] => do pure (.row (← v.toNat?) (← ix? r))
  | ["copy", v, s] => do pure (.copy (← v.toNat?) (← s.toNat?))
  | ["rowget", v, s, c] => do pure (.rowget (← v.toNat?) (← s.toNat?) (← ix? c))
  | ["get2", v, r, c] => do pure (.get2 (← v.toNat?) (← ix? r) (← ix? c))
  | ["getrc", v, r, c] => do pure (.getrc (← v.toNat?) (← ix? r) (← ix? c))
  | ["bget", v, b, r, c] => do pure (.bget (← v.toNat?) (← b.toInt?) (← ix? r) (← ix? c))
  | ["set1", v, c, x] => do pure (.set1 (← v.toNat?) (← ix? c) (← x.toInt?))
  | ["setchain", k, c, x] => do pure (.setchain (← k.toInt?) (← ix? c) (← x.toInt?))
  | ["set2", r, c, x] => do pure (.set2 (← ix? r) (← ix? c) (← x.toInt?))
  | ["setrow", r, v] => do pure (.setrow (← ix? r) (← v.toNat?))
  | ["gather", rs] => do pure (.gather (← (rs.splitOn ",").mapM ix?))
  | ["newrow", v, xs] => do pure (.newrow (← v.toNat?) (← ints? xs))
  | _ => none

def init? (t : String) : Option (Bool × List (List Int)) :=
  match t.splitOn ";" with
  | [s, m] =>
    match s.splitOn "=", m.splitOn "=" with
    | ["sec", b], ["init", rows] => do
      -- `-` is the matrix without rows, `e` a row without elements
      let rs ← (if rows == "-" then some [] else (rows.splitOn "/").mapM ints?)
      pure ((← b.toNat?) != 0, rs)
    | _, _ => none
  | _ => none

def ivalOf : Val → Int
  | .int c => c
  | .lc x | .lcb x | .fxp x => x.value
  | _ => 0

def rowStr (r : List Val) : String := "[" ++ ",".intercalate (r.map fun v => toString (ivalOf v)) ++ "]"
def matStr (a : Mat) : String := "[" ++ ",".intercalate (a.contents.map rowStr) ++ "]"

def varsStr (a : Mat) : String :=
  -- the latest binding of every name
  let names := a.vars.foldl (fun (acc : List Nat) kv => if acc.contains kv.1 then acc else acc ++ [kv.1]) []
  ",".intercalate (names.filterMap fun k =>
    match lookup a.vars k with
    | some (.scalar v) => some s!"\"v{k}\":{ivalOf v}"
    | some (.row id) => some s!"\"v{k}\":{rowStr (a.row id).arr}"
    | none => none)

/-- the values held by the variables as wire expressions (S level), in creation order of the names -/
def varsLc (p : Int) (a : Mat) : String :=
  let names := a.vars.foldl (fun (acc : List Nat) kv => if acc.contains kv.1 then acc else acc ++ [kv.1]) []
  ";".intercalate (names.filterMap fun k =>
    match lookup a.vars k with
    | some (.scalar v) => some s!"v{k}={valStr p v}"
    | some (.row id) => some s!"v{k}={valStr p (.list (a.row id).arr)}"
    | none => none)

def runEvents : List Ev → Nat → Mat → St → List String → (String × Option Nat × Mat × St × List String)
  | [], _, a, s, tr => ("ok", none, a, s, tr)
  | e :: es, k, a, s, tr =>
    match A2.step a e s with
    | .ok (a1, s1) => runEvents es (k+1) a1 s1 (tr ++ [matStr a1])
    | .error err => (err.name, some k, a, s, tr)

def handleA2 (fields : List String) : String :=
  match fields with
  | [id, cfg, ini, evs] =>
    match cfg? cfg, init? ini, ((evs.splitOn ";").filter (fun s => s.trimAscii.toString ≠ "")).mapM ev? with
    | some s0, some (sec, m), some es =>
      match A2.init sec m s0 with
      | .error e => s!"{id}|{e.name}|init|T=[]|V=|M={""}|{stStr s0}"
      | .ok (a0, s1) =>
        let (status, pos, a, s, tr) := runEvents es 0 a0 s1 []
        let atS := match pos with | none => "-" | some k => toString k
        let mlc := valStr s.p (.list (a.contents.map .list))
        s!"{id}|{status}|{atS}|T=[{",".intercalate tr}]|V=\{{varsStr a}}|M={mlc}#{varsLc s.p a}|{stStr s}"
    | _, _, _ => s!"{id}|bad-case"
  | _ => "bad-line"

end Pysnark.ProtoArray2D
