import PysnarkModel.Spec.Native
import PysnarkModel.Driver.Proto
/-!
# Line protocol for structured programs (C09): `BL|id|p=..,bl=..|init|v,v|m/e,m/e|tokens`

Fields: configuration, initial tracked variables, secret integer inputs, secret fixed-point inputs
(`m/e` is the float `m / 2^e`), and the program in prefix notation (tokens separated by blanks).
The older form without the fixed-point field (`BL|id|cfg|x:v,x:v|v,v|tokens`, integers only) is
still accepted.

* initial variables: blank-separated `name value` pairs, a value being `i3` (`PrivVal(3)`), `b1`
  (`PrivVal(1) == 1`), `x6/2` (`PrivValFxp(6 / 2^2)`) or `[ value … ]`
* expressions: `v3` variable, `i0` input, `f0` fixed-point input, `c-2` constant, `l1` loop variable,
  `+ a b`, `- a b`, `* a b`, comparisons `lt a b` (`le eq ne gt ge`), `not a`, `and a b`, `or a b`,
  `[ e … ]` list, `@ e 2` element with a public index
* statements: `A x e` assign · `P x i,j e` element assignment `_.x[i][j] = e` · `Q x cond e1 e2`
  `if_then_else` on evaluated values · `T x cond e1 e2` thunked `if_then_else` ·
  `I cond { … } rest` with rest `E` (endif) | `L { … }` (else) | `F cond { … } rest` (elif) ·
  `R lv bound mx { … }` for · `W cond mx { … } N` / `W cond mx { … } B cond` while without / with a
  break condition

Answer: `id|ok|x=<value as Proto.valStr>;…|<state as in Proto.stStr>|STACK=n|NAT=…` or
`id|err:<Class>|NAT=…`.  `NAT` is the native run of `Spec/Native.lean` (`x=value;…` in sorted order,
numbers as reduced fractions, `raise`, `uncapped` or `inexact`).  Not part of the verified model.
-/
namespace Pysnark.ProtoBlock
open Pysnark Pysnark.Proto

def cmp? : String → Option Cmp
  | "lt" => some .lt | "le" => some .le | "eq" => some .eq | "ne" => some .ne
  | "gt" => some .gt | "ge" => some .ge | _ => none

def num? (t : String) (pre : Char) : Option Nat :=
  if t.front == pre then (t.drop 1).toNat? else none

mutual
def parseE : Nat → List String → Option (BExpr × List String)
  | 0, _ => none
  | _, [] => none
  | fuel+1, t :: r =>
    if t == "+" || t == "-" || t == "*" || t == "and" || t == "or" then do
      let (a, r) ← parseE fuel r
      let (b, r) ← parseE fuel r
      pure ((if t == "+" then BExpr.add a b else if t == "-" then .sub a b else if t == "*" then .mul a b
             else if t == "and" then .and a b else .or a b), r)
    else if t == "not" then do
      let (a, r) ← parseE fuel r
      pure (.not a, r)
    else if t == "[" then do
      let (es, r) ← parseEs fuel r
      pure (.list es, r)
    else if t == "@" then do
      let (a, r) ← parseE fuel r
      match r with
      | i :: r => do pure (.item a (← i.toNat?), r)
      | [] => none
    else match cmp? t with
    | some op => do
      let (a, r) ← parseE fuel r
      let (b, r) ← parseE fuel r
      pure (.cmp op a b, r)
    | none =>
      if t.front == 'c' then (t.drop 1).toInt?.map fun c => (.const c, r)
      else if t.front == 'v' then (num? t 'v').map fun n => (.var n, r)
      else if t.front == 'i' then (num? t 'i').map fun n => (.inp n, r)
      else if t.front == 'f' then (num? t 'f').map fun n => (.finp n, r)
      else if t.front == 'l' then (num? t 'l').map fun n => (.loopvar n, r)
      else none

/-- `e* ]` -/
def parseEs : Nat → List String → Option (BExprs × List String)
  | 0, _ => none
  | _, [] => none
  | fuel+1, t :: r =>
    if t == "]" then some (.nil, r) else do
      let (e, r) ← parseE fuel (t :: r)
      let (es, r) ← parseEs fuel r
      pure (.cons e es, r)
end

def parseC (fuel : Nat) (toks : List String) : Option (BCond × List String) := parseE fuel toks

def expect (tok : String) : List String → Option (List String)
  | t :: r => if t == tok then some r else none
  | [] => none

def path? (t : String) : Option (List Nat) :=
  ((t.splitOn ",").filter (· ≠ "")).mapM (·.toNat?)

mutual
def parseS : Nat → List String → Option (BStmt × List String)
  | 0, _ => none
  | _, [] => none
  | fuel+1, t :: r =>
    if t == "A" then
      match r with
      | x :: r => do
        let x ← num? x 'v'
        let (e, r) ← parseE fuel r
        pure (.assign x e, r)
      | [] => none
    else if t == "P" then
      match r with
      | x :: p :: r => do
        let x ← num? x 'v'
        let p ← path? p
        let (e, r) ← parseE fuel r
        pure (.setitem x p e, r)
      | _ => none
    else if t == "T" || t == "Q" then
      match r with
      | x :: r => do
        let x ← num? x 'v'
        let (c, r) ← parseC fuel r
        let (a, r) ← parseE fuel r
        let (b, r) ← parseE fuel r
        pure ((if t == "T" then BStmt.ite x c a b else .sel x c a b), r)
      | [] => none
    else if t == "I" then do
      let (c, r) ← parseC fuel r
      let (b, r) ← parseB fuel r
      let (rest, r) ← parseR fuel r
      pure (.ifs c b rest, r)
    else if t == "R" then
      match r with
      | lv :: r => do
        let lv ← num? lv 'l'
        let (e, r) ← parseE fuel r
        match r with
        | mx :: r => do
          let mx ← mx.toNat?
          let (b, r) ← parseB fuel r
          pure (.forr lv e mx b, r)
        | [] => none
      | [] => none
    else if t == "W" then do
      let (c, r) ← parseC fuel r
      match r with
      | mx :: r => do
        let mx ← mx.toNat?
        let (b, r) ← parseB fuel r
        match r with
        | "N" :: r => pure (.whil c mx b none, r)
        | "B" :: r => do
          let (bc, r) ← parseC fuel r
          pure (.whil c mx b (some bc), r)
        | _ => none
      | [] => none
    else none

/-- `{ stmt* }` -/
def parseB : Nat → List String → Option (BBlock × List String)
  | 0, _ => none
  | fuel+1, toks => do
    let r ← expect "{" toks
    parseStmts fuel r

def parseStmts : Nat → List String → Option (BBlock × List String)
  | 0, _ => none
  | _, [] => none
  | fuel+1, t :: r =>
    if t == "}" then some (.nil, r) else do
      let (s, r) ← parseS fuel (t :: r)
      let (rest, r) ← parseStmts fuel r
      pure (.cons s rest, r)

def parseR : Nat → List String → Option (BIfRest × List String)
  | 0, _ => none
  | _, [] => none
  | fuel+1, t :: r =>
    if t == "E" then some (.endif, r)
    else if t == "L" then do
      let (b, r) ← parseB fuel r
      pure (.els b, r)
    else if t == "F" then do
      let (c, r) ← parseC fuel r
      let (b, r) ← parseB fuel r
      let (rest, r) ← parseR fuel r
      pure (.elif c b rest, r)
    else none
end

/-- `m/e`: the float `m / 2^e` -/
def flt? (t : String) : Option (Int × Nat) :=
  match t.splitOn "/" with
  | [m, e] => do pure (← m.toInt?, ← e.toNat?)
  | _ => none

mutual
/-- an initial value: `i3`, `b1`, `x6/2`, `[ value … ]` -/
def parseI : Nat → List String → Option (IVal × List String)
  | 0, _ => none
  | _, [] => none
  | fuel+1, t :: r =>
    if t == "[" then do
      let (ts, r) ← parseIs fuel r
      pure (.node ts, r)
    else if t.front == 'i' then (t.drop 1).toInt?.map fun v => (.leaf (.int v), r)
    else if t.front == 'b' then (t.drop 1).toInt?.map fun v => (.leaf (.bool v), r)
    else if t.front == 'x' then (flt? (t.drop 1).toString).map fun me => (.leaf (.fxp me.1 me.2), r)
    else none
def parseIs : Nat → List String → Option (List IVal × List String)
  | 0, _ => none
  | _, [] => none
  | fuel+1, t :: r =>
    if t == "]" then some ([], r) else do
      let (v, r) ← parseI fuel (t :: r)
      let (vs, r) ← parseIs fuel r
      pure (v :: vs, r)
end

def parseInit : Nat → List String → Option (List (Nat × IVal))
  | 0, _ => none
  | _, [] => some []
  | fuel+1, x :: r => do
    let x ← x.toNat?
    let (v, r) ← parseI fuel r
    let rest ← parseInit fuel r
    pure ((x, v) :: rest)

/-- both forms of the initial variables: `x:v,x:v` (integers) and `x value x value …` -/
def init? (t : String) : Option (List (Nat × IVal)) :=
  if t.contains ':' then
    ((t.splitOn ",").filter (· ≠ "")).mapM fun kv =>
      match kv.splitOn ":" with
      | [k, v] => do pure (← k.toNat?, PTree.leaf (ILeaf.int (← v.toInt?)))
      | _ => none
  else
    let ts := (t.splitOn " ").filter (· ≠ "")
    parseInit (ts.length + 2) ts

def ints? (t : String) : Option (List Int) :=
  ((t.splitOn ",").filter (· ≠ "")).mapM (·.toInt?)

def flts? (t : String) : Option (List (Int × Nat)) :=
  ((t.splitOn ",").filter (· ≠ "")).mapM flt?

mutual
def tvalToVal : TVal → Val
  | .leaf o => o.toVal
  | .node ts => .list (tvalsToVals ts)
def tvalsToVals : List TVal → List Val
  | [] => []
  | t :: ts => tvalToVal t :: tvalsToVals ts
end

def varsStr (p : Int) (vs : Vals) : String :=
  ";".intercalate (vs.map fun kv => s!"{kv.1}={valStr p (tvalToVal kv.2)}")

/-- the rational `m / 2^r` as Python prints a `Fraction` -/
partial def fracStr (m : Int) (r : Nat) : String :=
  if r > 0 && m % 2 == 0 then fracStr (m / 2) (r - 1)
  else if r == 0 then toString m else s!"{m}/{2 ^ r}"

partial def nvalStr (r : Nat) : NVal → String
  | .leaf (.int n) => toString n
  | .leaf (.fx m) => fracStr m r
  | .node ts => "[" ++ ",".intercalate (ts.map (nvalStr r)) ++ "]"

def natStr (r : Nat) : NM NEnv → String
  | .error .name => "raise"
  | .error .type => "raise"
  | .error .inexact => "inexact"
  | .error .uncapped => "uncapped"
  | .ok env =>
    let arr := env.toArray.qsort (fun a b => a.1 < b.1)
    ";".intercalate (arr.toList.map fun kv => s!"{kv.1}={nvalStr r kv.2}")

def runCase (id : String) (s0 : St) (ini : List (Nat × IVal)) (inp : List Int) (finp : List (Int × Nat)) (toks : String) : String :=
  let ts := (toks.splitOn " ").filter (· ≠ "")
  match parseB (ts.length + 2) ts with
  | some (prog, []) =>
    let nat := natStr s0.resolution (nativeRunT s0.resolution ini inp finp prog)
    match runBlockT ini inp finp prog s0 with
    | .ok (bs, s) => s!"{id}|ok|{varsStr s.p bs.bv.vals}|{stStr s}|STACK={bs.stack.length}|NAT={nat}"
    | .error e => s!"{id}|err:{e.name}|NAT={nat}"
  | _ => s!"{id}|bad-program"

def handleBlock (fields : List String) : String :=
  match fields with
  | [id, cfg, init, inputs, toks] =>
    match cfg? (cfg ++ ",res=8,ign=0"), init? init, ints? inputs with
    | some s0, some ini, some inp => runCase id s0 ini inp [] toks
    | _, _, _ => s!"{id}|bad-case"
  | [id, cfg, init, inputs, finputs, toks] =>
    match cfg? (cfg ++ ",res=8,ign=0"), init? init, ints? inputs, flts? finputs with
    | some s0, some ini, some inp, some finp => runCase id s0 ini inp finp toks
    | _, _, _, _ => s!"{id}|bad-case"
  | _ => "bad-line"

end Pysnark.ProtoBlock
