import PysnarkModel.Spec.Native
import PysnarkModel.Driver.Proto
/-!
# Line protocol for structured programs (C09): `BL|id|p=..,bl=..|x:v,x:v|v,v|tokens`

Fields: configuration, initial tracked variables (`name:value`, each becomes a `PrivVal`), secret
inputs, and the program in prefix notation (tokens separated by blanks):

* expressions: `v3` variable, `i0` input, `c-2` constant, `l1` loop variable, `+ a b`, `- a b`, `* a b`
* conditions: `lt a b` (`le eq ne gt ge`)
* statements: `A x e` assign · `T x cond e1 e2` thunked `if_then_else` · `I cond { … } rest` with
  rest `E` (endif) | `L { … }` (else) | `F cond { … } rest` (elif) · `R lv bound mx { … }` for ·
  `W cond mx { … } N` / `W cond mx { … } B cond` while without / with a break condition

Answer: `id|ok|x=L:value:lc;…|<state as in Proto.stStr>|NAT=…` or `id|err:<Class>`.
`NAT` is the native run of `Spec/Native.lean` (`x=value;…` in sorted order, `raise` or
`uncapped`).  Not part of the verified model.
-/
namespace Pysnark.ProtoBlock
open Pysnark Pysnark.Proto

def cmp? : String → Option Cmp
  | "lt" => some .lt | "le" => some .le | "eq" => some .eq | "ne" => some .ne
  | "gt" => some .gt | "ge" => some .ge | _ => none

def num? (t : String) (pre : Char) : Option Nat :=
  if t.front == pre then (t.drop 1).toNat? else none

def parseE : Nat → List String → Option (BExpr × List String)
  | 0, _ => none
  | _, [] => none
  | fuel+1, t :: r =>
    if t == "+" || t == "-" || t == "*" then do
      let (a, r) ← parseE fuel r
      let (b, r) ← parseE fuel r
      pure ((if t == "+" then BExpr.add a b else if t == "-" then .sub a b else .mul a b), r)
    else if t.front == 'c' then (t.drop 1).toInt?.map fun c => (.const c, r)
    else if t.front == 'v' then (num? t 'v').map fun n => (.var n, r)
    else if t.front == 'i' then (num? t 'i').map fun n => (.inp n, r)
    else if t.front == 'l' then (num? t 'l').map fun n => (.loopvar n, r)
    else none

def parseC (fuel : Nat) : List String → Option (BCond × List String)
  | [] => none
  | t :: r => do
    let op ← cmp? t
    let (a, r) ← parseE fuel r
    let (b, r) ← parseE fuel r
    pure (⟨op, a, b⟩, r)

def expect (tok : String) : List String → Option (List String)
  | t :: r => if t == tok then some r else none
  | [] => none

mutual
def parseS : Nat → List String → Option (BStmt × List String)
  | 0, _ => none
  | _, [] => none
  | fuel+1, t :: r =>
    if t == "A" then
      match r with
      | x :: r => do
        let x ← num? x 'v'
        let (e, r) ← parseE fuel r
        pure (.assign x e, r)
      | [] => none
    else if t == "T" then
      match r with
      | x :: r => do
        let x ← num? x 'v'
        let (c, r) ← parseC fuel r
        let (a, r) ← parseE fuel r
        let (b, r) ← parseE fuel r
        pure (.ite x c a b, r)
      | [] => none
    else if t == "I" then do
      let (c, r) ← parseC fuel r
      let (b, r) ← parseB fuel r
      let (rest, r) ← parseR fuel r
      pure (.ifs c b rest, r)
    else if t == "R" then
      match r with
      | lv :: r => do
        let lv ← num? lv 'l'
        let (e, r) ← parseE fuel r
        match r with
        | mx :: r => do
          let mx ← mx.toNat?
          let (b, r) ← parseB fuel r
          pure (.forr lv e mx b, r)
        | [] => none
      | [] => none
    else if t == "W" then do
      let (c, r) ← parseC fuel r
      match r with
      | mx :: r => do
        let mx ← mx.toNat?
        let (b, r) ← parseB fuel r
        match r with
        | "N" :: r => pure (.whil c mx b none, r)
        | "B" :: r => do
          let (bc, r) ← parseC fuel r
          pure (.whil c mx b (some bc), r)
        | _ => none
      | [] => none
    else none

/-- `{ stmt* }` -/
def parseB : Nat → List String → Option (BBlock × List String)
  | 0, _ => none
  | fuel+1, toks => do
    let r ← expect "{" toks
    parseStmts fuel r

def parseStmts : Nat → List String → Option (BBlock × List String)
  | 0, _ => none
  | _, [] => none
  | fuel+1, t :: r =>
    if t == "}" then some (.nil, r) else do
      let (s, r) ← parseS fuel (t :: r)
      let (rest, r) ← parseStmts fuel r
      pure (.cons s rest, r)

def parseR : Nat → List String → Option (BIfRest × List String)
  | 0, _ => none
  | _, [] => none
  | fuel+1, t :: r =>
    if t == "E" then some (.endif, r)
    else if t == "L" then do
      let (b, r) ← parseB fuel r
      pure (.els b, r)
    else if t == "F" then do
      let (c, r) ← parseC fuel r
      let (b, r) ← parseB fuel r
      let (rest, r) ← parseR fuel r
      pure (.elif c b rest, r)
    else none
end

def init? (t : String) : Option (List (Nat × Int)) :=
  ((t.splitOn ",").filter (· ≠ "")).mapM fun kv =>
    match kv.splitOn ":" with
    | [k, v] => do pure (← k.toNat?, ← v.toInt?)
    | _ => none

def ints? (t : String) : Option (List Int) :=
  ((t.splitOn ",").filter (· ≠ "")).mapM (·.toInt?)

def varsStr (p : Int) (vs : Vals) : String :=
  ";".intercalate (vs.map fun kv => s!"{kv.1}=L:{kv.2.v.value}:{canonLC p kv.2.v.lc}")

def natStr : NM NEnv → String
  | .error .name => "raise"
  | .error .uncapped => "uncapped"
  | .ok env =>
    let arr := env.toArray.qsort (fun a b => a.1 < b.1)
    ";".intercalate (arr.toList.map fun kv => s!"{kv.1}={kv.2}")

def handleBlock (fields : List String) : String :=
  match fields with
  | [id, cfg, init, inputs, toks] =>
    match cfg? (cfg ++ ",res=8,ign=0"), init? init, ints? inputs with
    | some s0, some ini, some inp =>
      let ts := (toks.splitOn " ").filter (· ≠ "")
      match parseB (ts.length + 2) ts with
      | some (prog, []) =>
        let nat := natStr (nativeRun ini inp prog)
        match runBlock ini inp prog s0 with
        | .ok (bs, s) => s!"{id}|ok|{varsStr s.p bs.bv.vals}|{stStr s}|STACK={bs.stack.length}|NAT={nat}"
        | .error e => s!"{id}|err:{e.name}|NAT={nat}"
      | _ => s!"{id}|bad-program"
    | _, _, _ => s!"{id}|bad-case"
  | _ => "bad-line"

end Pysnark.ProtoBlock
