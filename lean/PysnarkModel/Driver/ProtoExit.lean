import PysnarkModel.Model.AtExit
/-!
# Line protocol for exit scripts (C18)
fields `[id, autoprove(0/1), hasps(0/1), n, k, caught, term]`
ExitArg tokens: `none`, `i:<int>`, `s:0`/`s:1`, `b:0`/`b:1`, `f:0`/`f:1` (0.0 / non-zero float), `o:0`/`o:1`
Term tokens: `fall`, `sysexit`, `sysexit=<ExitArg>`, `raise=<ExitArg>`, `builtin=<ExitArg>`,
`uncaught`, `kbd`, `osexit=<int>`
output `id|status=<int>|prove=<n>|ops=<n>|hookfail=<0/1>|skipped=<0/1>`
-/
namespace Pysnark.ProtoExit
open Pysnark.AtExit

def bit? : String → Option Bool
  | "0" => some false
  | "1" => some true
  | _ => none

def exitArg? (t : String) : Option ExitArg :=
  if t == "none" then some .none
  else match t.splitOn ":" with
    | ["i", v] => v.toInt?.map .int
    | ["s", v] => (bit? v).map .str
    | ["b", v] => (bit? v).map .bool
    | ["f", v] => (bit? v).map .flt
    | ["o", v] => (bit? v).map .other
    | _ => none

def term? (t : String) : Option Term :=
  match t.splitOn "=" with
  | ["fall"] => some .fallOff
  | ["sysexit"] => some (.sysExit none)
  | ["sysexit", a] => (exitArg? a).map fun a => .sysExit (some a)
  | ["raise", a] => (exitArg? a).map .raiseSystemExit
  | ["builtin", a] => (exitArg? a).map .builtinExit
  | ["uncaught"] => some .uncaught
  | ["kbd"] => some .keyboardInterrupt
  | ["osexit", v] => v.toInt?.map .osExit
  | _ => none

def caught? (t : String) : Option (List ExitArg) :=
  ((t.splitOn ",").filter (· ≠ "")).mapM exitArg?

def b01 (b : Bool) : String := if b then "1" else "0"

def handleExit (fields : List String) : String :=
  match fields with
  | [id, ap, ps, n, k, caught, term] =>
    let parsed : Option Script := do
      let ap ← bit? ap
      let ps ← bit? ps
      let n ← n.toNat?
      let k ← k.toNat?
      let cs ← caught? caught
      let t ← term? term
      pure { n := n, k := k, caught := cs, term := t, autoprove := ap, hasProcessSnark := ps }
    match parsed with
    | none => s!"{id}|bad-script"
    | some s =>
      if s.k ≤ s.n then
        let o := runScript s
        s!"{id}|status={o.status}|prove={o.proveCalls}|ops={o.provedOps}|hookfail={b01 o.hookFailed}|skipped={b01 o.skippedMsg}"
      else s!"{id}|bad-script"
  | _ => "bad-line"

end Pysnark.ProtoExit
