import PysnarkModel.Model.Guard
import PysnarkModel.Driver.Proto
/-!
# Line protocol for guard histories (C08): `H|id|p=..,bl=..|tokens`
tokens: `G:<k>:<c>(` … `)` guarded(); `A:<k>:<c>(` … `)` bare add_guard/restore_guard;
`R(` … `)` / `RS(` … `)` re-entry of the decorator object of the innermost enclosing `G:` region (by recursion of the
decorated function / by sharing the decorator object with a callee: the same model event); `T(` … `)` try/except; `!` raise; `lt:a:b`; `az:a`.   k ∈ L (PrivVal) B (PrivValBool) I (int)
-/
namespace Pysnark.ProtoGuard
open Pysnark

def kindOf : String → Option Kind
  | "L" => some .priv | "B" => some .privb | "I" => some .const | _ => none

/-- parse a list of events up to the matching `)`; fuel-bounded -/
def parseList : Nat → List String → Option (List Ev × List String)
  | 0, _ => none
  | _, [] => some ([], [])
  | fuel+1, t :: r =>
    if t == ")" then some ([], r)
    else
      let one : Option (Ev × List String) :=
        if t == "!" || t == "!b" then some (.raise, r)
        else if t == "T(" then (parseList fuel r).map fun (b, r') => (.tryCatch b, r')
        else if t == "R(" || t == "RS(" then (parseList fuel r).map fun (b, r') => (.reenter b, r')
        else match t.splitOn ":" with
          | ["lt", a, b] => do pure (.opLt (← a.toInt?) (← b.toInt?), r)
          | ["az", a] => do pure (.opAssertZero (← a.toInt?), r)
          | ["G", k, c] => do
              let c ← (c.dropEnd 1).toString.toInt?
              let k ← kindOf k
              let (b, r') ← parseList fuel r
              pure (.guarded k c b, r')
          | ["A", k, c] => do
              let c ← (c.dropEnd 1).toString.toInt?
              let k ← kindOf k
              let (b, r') ← parseList fuel r
              pure (.raw k c b, r')
          | _ => none
      match one with
      | none => none
      | some (e, r') => (parseList fuel r').map fun (es, r'') => (e :: es, r'')

def tripleStr (s : St) : String :=
  let g := match s.guard with | none => "N" | some g => s!"{g.value}:{Proto.canonLC s.p g.lc}"
  s!"G={g}|IGN={if s.ignoreErrors then 1 else 0}|ONE={s.one.value}:{Proto.canonLC s.p s.one.lc}"

def handleHist (fields : List String) : String :=
  match fields with
  | [id, cfg, toks] =>
    match Proto.cfg? (cfg ++ ",res=8,ign=0") with
    | none => s!"{id}|bad-cfg"
    | some s0 =>
      let ts := (toks.splitOn " ").filter (· ≠ "")
      match parseList (ts.length + 1) ts with
      | some (es, []) =>
        let (s, exc) := execList es [] s0
        s!"{id}|{if exc then "raised" else "ok"}|{tripleStr s}|NPRIV={s.priv.length}|NCONS={s.cons.length}"
      | _ => s!"{id}|bad-history"
  | _ => "bad-line"

end Pysnark.ProtoGuard
