import PysnarkModel.Model.Hash
import PysnarkModel.Spec.Poseidon
import PysnarkModel.Gen.Constants
/-!
# Line protocol for the hash gadgets (C20)

## `PH` — Poseidon.  fields `[id, paramsKey, p, mode, inputs]`:
* `paramsKey`: a key of `Gen.poseidonTable` (`zkinterface`, `zkifbellman`, `zkifbulletproofs`, `nobackend`)
* `p`: the backend modulus
* `mode`: `permute` | `hash`
* `inputs`: comma-separated integers (possibly empty), each turned into a `PrivVal`
output `id|<output values, as reported (not reduced by the driver)>|ncons=<n>|npriv=<n>|sdig=<d>|odig=<d>|wdig=<d>|spec=<Spec outputs>`,
or `id|err:<PythonExceptionName>|spec=<…>` when the model raises, or `id|bad` on a parse failure.
The digests are Horner sums modulo `p` (base `digestBase`): `sdig` over `A(ρ),B(ρ),C(ρ)` of every
constraint in emission order on the fixed probe assignment `ρ` (`probe`), `odig` over the wire
expressions of the outputs on `ρ`, `wdig` over the recorded private values.

## `PS` — parameter set in use.  fields `[id, env, pre, unloadable, ipython]` as for `S` (C19)
output `id|params|<name>|<fingerprint, comma-separated>` | `id|notimplemented|<name>` | `id|runtimefails`

## `PG` — subset-sum hash.  fields `[id, p, coefs, bits]`: `coefs` comma-separated integers, `bits`
comma-separated tokens `s<int>` (a `PrivVal`) or `i<int>` (a python int)
output `id|<int or lc>|<value as reported>|ncons=<n>|npriv=<n>|odig=<d>` or `id|err:<…>`
-/
namespace Pysnark.ProtoHash
open Pysnark Pysnark.Gen

def mapOpt {α β : Type} (f : α → Option β) : List α → Option (List β)
  | [] => some []
  | a :: as =>
    match f a, mapOpt f as with
    | some b, some bs => some (b :: bs)
    | _, _ => none

def parseInts (s : String) : Option (List Int) :=
  if s = "" then some [] else mapOpt (fun x => x.toInt?) (s.splitOn ",")

def joinNats (l : List Nat) : String := ",".intercalate (l.map toString)
def joinInts (l : List Int) : String := ",".intercalate (l.map toString)

def digestBase : Int := 1000003

/-- the probe assignment: distinct, value-independent, non-trivial on every wire -/
def probe : Wire → Int
  | .one => 1
  | .pub i => ((i : Int) + 5) * 7919
  | .priv i => ((i : Int) + 3) * ((i : Int) + 3) * 1000033 + 17

def digest (p : Int) (vs : List Int) : Int :=
  vs.foldl (fun d v => (d * digestBase + v % p) % p) 0

def shapeDigest (p : Int) (cons : List Constraint) : Int :=
  digest p (cons.flatMap fun c => [LC.eval probe c.1, LC.eval probe c.2.1, LC.eval probe c.2.2])

def handlePoseidon (fields : List String) : String :=
  match fields with
  | [id, key, p, mode, inputs] =>
    match poseidonTable.lookup key, p.toInt?, parseInts inputs with
    | some P, some p, some vs =>
      if p ≤ 0 then s!"{id}|bad"
      else
        let isHash? : Option Bool :=
          if mode = "permute" then some false else if mode = "hash" then some true else none
        match isHash? with
        | none => s!"{id}|bad"
        | some isHash =>
          let prog : M (List LinComb) := do
            let xs ← mapM' privVal vs
            if isHash then Hash.poseidonHash P xs else Hash.permute P xs
          let s0 : St := { p := p, bitlength := 16 }
          let red : List Nat := vs.map fun v => (v % p).toNat
          let spec : List Nat :=
            if isHash then Spec.Poseidon.hash P p.toNat red else Spec.Poseidon.permute P p.toNat red
          match prog s0 with
          | .ok (out, s) =>
            s!"{id}|{joinInts (out.map fun x => x.value)}|ncons={s.cons.length}|npriv={s.priv.length}|sdig={shapeDigest p s.cons}|odig={digest p (out.map fun x => LC.eval probe x.lc)}|wdig={digest p s.priv}|spec={joinNats spec}"
          | .error e => s!"{id}|err:{e.name}|spec={joinNats spec}"
    | _, _, _ => s!"{id}|bad"
  | _ => "bad-line"

def names (t : String) : List String := (t.splitOn ",").filter (· ≠ "")

/-- same fingerprint as `Props/C20.lean`: `[t, R_F, R_P, a]`, first round-constant row, first matrix row -/
def fingerprint (P : PoseidonParams) : List Nat :=
  [P.t, P.rF, P.rP, P.a] ++ P.roundConstants.headD [] ++ P.matrix.headD []

def handleParams (fields : List String) : String :=
  match fields with
  | [id, env, pre, unl, ipy] =>
    if ipy ≠ "0" && ipy ≠ "1" then s!"{id}|bad-config" else
    let unl := names unl
    let c : Select.Config :=
      { registry := Gen.backends
        preimported := names pre
        env := if env == "-" then none else some env
        loadable := fun m => !unl.contains m
        ipython := ipy == "1" }
    let name := match Select.select c with
      | .ok n _ _ _ => n
      | _ => "-"
    match Hash.paramsInUse c with
    | .params P => s!"{id}|params|{name}|{joinNats (fingerprint P)}"
    | .notImplemented => s!"{id}|notimplemented|{name}"
    | .runtimeFails => s!"{id}|runtimefails"
  | _ => "bad-line"

def parseBit (t : String) : Option (Bool × Int) :=
  if t.startsWith "s" then (t.drop 1).toInt?.map fun v => (true, v)
  else if t.startsWith "i" then (t.drop 1).toInt?.map fun v => (false, v)
  else none

def handleGgh (fields : List String) : String :=
  match fields with
  | [id, p, coefs, bits] =>
    match p.toInt?, parseInts coefs, mapOpt parseBit (names bits) with
    | some p, some coefs, some bits =>
      if p ≤ 0 then s!"{id}|bad"
      else
        let prog : M Hash.Total := do
          let bs ← mapM' (fun (b : Bool × Int) =>
            if b.1 then (do let x ← privVal b.2; pure (Hash.Bit.lc x)) else pure (Hash.Bit.int b.2)) bits
          Hash.gghHash coefs bs
        match prog { p := p, bitlength := 16 } with
        | .ok (t, s) =>
          let (kind, od) := match t with
            | .int _ => ("int", (0 : Int))
            | .lc x => ("lc", digest p [LC.eval probe x.lc])
          s!"{id}|{kind}|{t.value}|ncons={s.cons.length}|npriv={s.priv.length}|odig={od}"
        | .error e => s!"{id}|err:{e.name}"
    | _, _, _ => s!"{id}|bad"
  | _ => "bad-line"

end Pysnark.ProtoHash
