import PysnarkModel.Model.Hash
import PysnarkModel.Spec.Poseidon
/-!
# Line protocol for the Poseidon gadget
fields `[id, paramsKey, p, mode, inputs]`:
* `paramsKey`: a key of `Gen.poseidonTable` (`zkinterface`, `zkifbellman`, `zkifbulletproofs`, `nobackend`)
* `p`: the backend modulus
* `mode`: `permute` | `hash`
* `inputs`: comma-separated integers (possibly empty), each turned into a `PrivVal`
output `id|<comma-separated output values mod p>|ncons=<n>|spec=<comma-separated Spec outputs>`,
or `id|err:<PythonExceptionName>|spec=<…>` when the model raises, or `id|bad` on a parse failure.
-/
namespace Pysnark.ProtoHash
open Pysnark Pysnark.Gen

def mapOpt {α β : Type} (f : α → Option β) : List α → Option (List β)
  | [] => some []
  | a :: as =>
    match f a, mapOpt f as with
    | some b, some bs => some (b :: bs)
    | _, _ => none

def parseInts (s : String) : Option (List Int) :=
  if s = "" then some [] else mapOpt (fun x => x.toInt?) (s.splitOn ",")

def joinNats (l : List Nat) : String := ",".intercalate (l.map toString)
def joinInts (l : List Int) : String := ",".intercalate (l.map toString)

def handlePoseidon (fields : List String) : String :=
  match fields with
  | [id, key, p, mode, inputs] =>
    match poseidonTable.lookup key, p.toInt?, parseInts inputs with
    | some P, some p, some vs =>
      if p ≤ 0 then s!"{id}|bad"
      else
        let isHash? : Option Bool :=
          if mode = "permute" then some false else if mode = "hash" then some true else none
        match isHash? with
        | none => s!"{id}|bad"
        | some isHash =>
          let prog : M (List LinComb) := do
            let xs ← mapM' privVal vs
            if isHash then Hash.poseidonHash P xs else Hash.permute P xs
          let s0 : St := { p := p, bitlength := 16 }
          let red : List Nat := vs.map fun v => (v % p).toNat
          let spec : List Nat :=
            if isHash then Spec.Poseidon.hash P p.toNat red else Spec.Poseidon.permute P p.toNat red
          match prog s0 with
          | .ok (out, s) =>
            s!"{id}|{joinInts (out.map fun x => x.value % p)}|ncons={s.cons.length}|spec={joinNats spec}"
          | .error e => s!"{id}|err:{e.name}|spec={joinNats spec}"
    | _, _, _ => s!"{id}|bad"
  | _ => "bad-line"

end Pysnark.ProtoHash
