import PysnarkModel.Model.Basic
import PysnarkModel.Model.PyInt
import PysnarkModel.Model.Sig
/-!
# Line protocol for the backend linear-combination classes (C13)
`E|id|dict|<prefix expr>`  → the dict items in insertion order (Python keys)
`E|id|sig:<p>|<prefix expr>` → `Sig.__str__`
`I|id|<p>|<x>` → `fieldinverse`
-/
namespace Pysnark.ProtoLC
open Pysnark

def wireOfKey (k : Int) : Wire :=
  if k = 0 then .one else if k > 0 then .pub (k.toNat - 1) else .priv ((-k).toNat - 1)

inductive Res | d (l : LC) | s (l : SigLC)

/-- prefix parser with fuel; returns result and remaining tokens -/
def parse (sigP : Option Int) : Nat → List String → Option (Res × List String)
  | 0, _ => none
  | fuel+1, toks =>
    match toks with
    | "Z" :: r => some (match sigP with | none => .d LC.zero | some _ => .s SigLC.zero, r)
    | "O" :: r => some (match sigP with | none => .d LC.one | some _ => .s [(1, "one")], r)
    | "V" :: k :: r =>
      match sigP with
      | none => k.toInt?.map fun k => (.d [(wireOfKey k, 1)], r)
      | some _ => some (.s [(1, k)], r)
    | "A" :: r => do
      let (a, r) ← parse sigP fuel r
      let (b, r) ← parse sigP fuel r
      match a, b with
      | .d a, .d b => pure (.d (a.add b), r)
      | .s a, .s b => pure (.s (SigLC.add a b), r)
      | _, _ => none
    | "S" :: r => do
      let (a, r) ← parse sigP fuel r
      let (b, r) ← parse sigP fuel r
      match a, b, sigP with
      | .d a, .d b, _ => pure (.d (a.sub b), r)
      | .s a, .s b, some p => pure (.s (SigLC.sub p a b), r)
      | _, _, _ => none
    | "N" :: r => do
      let (a, r) ← parse sigP fuel r
      match a, sigP with
      | .d a, _ => pure (.d a.neg, r)
      | .s a, some p => pure (.s (SigLC.neg p a), r)
      | _, _ => none
    | "M" :: c :: r => do
      let c ← c.toInt?
      let (a, r) ← parse sigP fuel r
      match a, sigP with
      | .d a, _ => pure (.d (a.scale c), r)
      | .s a, some p => pure (.s (SigLC.scale p a c), r)
      | _, _ => none
    | _ => none

def showRes : Res → String
  | .d l => ",".intercalate (l.map fun kv => s!"{kv.1.key}:{kv.2}")
  | .s l => l.toStr

def handleExpr (fields : List String) : String :=
  match fields with
  | [id, kind, expr] =>
    let toks := (expr.splitOn " ").filter (· ≠ "")
    let sigP : Option (Option Int) :=
      if kind == "dict" then some none
      else match kind.splitOn ":" with
        | ["sig", p] => p.toInt?.map some
        | _ => none
    match sigP with
    | none => s!"{id}|bad-kind"
    | some sp =>
      match parse sp (toks.length + 1) toks with
      | some (r, []) => s!"{id}|{showRes r}"
      | _ => s!"{id}|bad-expr"
  | _ => "bad-line"

def handleInv (fields : List String) : String :=
  match fields with
  | [id, p, x] =>
    match p.toInt?, x.toInt? with
    | some p, some x =>
      match Py.invert x p with
      | some y => s!"{id}|{y}"
      | none => s!"{id}|ZeroDivisionError"
    | _, _ => s!"{id}|bad"
  | _ => "bad-line"

end Pysnark.ProtoLC
