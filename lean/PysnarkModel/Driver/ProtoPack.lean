import PysnarkModel.Model.Pack
/-!
# Compact schema syntax for the packers (C16)

`B` = `PackBool()`, `M<mod>` = `PackIntMod(mod)`, `L(s,s,…)` = `PackList([s, s, …])` (`L()` is the
empty list), `R<times>(s)` = `PackRepeat(s, times)`.  No spaces.
-/
namespace Pysnark.ProtoPack
open Pysnark

/-- digits to a natural, most significant first; `none` on a non-digit -/
def digitsAux : List Char → Nat → Nat × List Char
  | [], acc => (acc, [])
  | c :: cs, acc => if c.isDigit then digitsAux cs (acc * 10 + (c.toNat - '0'.toNat)) else (acc, c :: cs)

/-- at least one digit -/
def parseNat (cs : List Char) : Option (Nat × List Char) :=
  match cs with
  | c :: _ => if c.isDigit then some (digitsAux cs 0) else none
  | [] => none

mutual
/-- schema parser with fuel; returns the schema and the remaining input -/
def parseS : Nat → List Char → Option (Schema × List Char)
  | 0, _ => none
  | _+1, 'B' :: r => some (.bool, r)
  | _+1, 'M' :: r => do
    let (n, r) ← parseNat r
    some (.intMod n, r)
  | _+1, 'L' :: '(' :: ')' :: r => some (.list [], r)
  | f+1, 'L' :: '(' :: r => parseL f r []
  | f+1, 'R' :: r => do
    let (t, r) ← parseNat r
    match r with
    | '(' :: r => do
      let (s, r) ← parseS f r
      match r with
      | ')' :: r => some (.rep s t, r)
      | _ => none
    | _ => none
  | _+1, _ => none
/-- the elements of an `L(…)` after the opening parenthesis (at least one) -/
def parseL : Nat → List Char → List Schema → Option (Schema × List Char)
  | 0, _, _ => none
  | f+1, r, acc => do
    let (s, r) ← parseS f r
    match r with
    | ',' :: r => parseL f r (s :: acc)
    | ')' :: r => some (.list (s :: acc).reverse, r)
    | _ => none
end

/-- parse the compact schema syntax; the whole string must be consumed -/
def schema? (str : String) : Option Schema :=
  match parseS (str.length + 1) str.toList with
  | some (s, []) => some s
  | _ => none

/-- inverse: print a schema in the compact syntax -/
partial def showSchema : Schema → String
  | .bool => "B"
  | .intMod m => s!"M{m}"
  | .list ss => "L(" ++ ",".intercalate (ss.map showSchema) ++ ")"
  | .rep s t => s!"R{t}(" ++ showSchema s ++ ")"

end Pysnark.ProtoPack
