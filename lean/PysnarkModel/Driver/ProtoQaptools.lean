import PysnarkModel.Model.Qaptools
/-!
# Line protocol for the qaptools file writer
fields `[id, flags, p, deltas, ops]`:
* `flags`: `pp` = the code as it is (`Cfg.pinned`), else two characters `0`/`1`: `flushAtProve`, `unitCoeff`
* `deltas`: `d1,d2,d3` of context `main`
* `ops`: `;`-separated (possibly empty), each one of
  `p:<v>` | `u:<v>` | `c:<A>#<B>#<C>` | `e:<fn>:<d1>,<d2>,<d3>:<args>` | `l:<rndv>,<r2a>,<r2b>:<args>` |
  `g:` (no guard in effect) | `g:<value>~<lc>` (the guard now in effect) | `a` (the body on top of the stack raised)
  where a linear combination is a `,`-separated list of `coef@ctx/name` (possibly empty) and `<args>`
  is a `^`-separated list (possibly empty) of `K~value~lc`, `K` one of `L` (LinComb), `B`, `X`.
output `id|E=…|F=n|W=…|V=…|X=status|S=…|P=…|N=…` with lines separated by `;`:
`E` all lines written to the equation file, `F` how many of them are on disk when `prove()` reads the
file back, `W`/`V` wire and I/O file lines, `X` `ok` or the error of `qapsplit`, `S` schedule file,
`P` `^`-separated `fname=lines` per-function files, `N` `,`-separated `call=fname`, `I` `^`-separated
`fname=<digest input>`: the exact text MD5 is applied to for the signature of `fname` (`Qaptools.digestInput`).
-/
namespace Pysnark.ProtoQaptools
open Pysnark.Qaptools Pysnark.QapEq

def mapOpt {α β : Type} (f : α → Option β) : List α → Option (List β)
  | [] => some []
  | a :: as =>
    match f a, mapOpt f as with
    | some b, some bs => some (b :: bs)
    | _, _ => none

/-- `ctx/local`: the local part never contains `/` (it is a counter, `o_<n>`, `rnd<i>_<n>`, `delta<x>`, `onex`, `one`),
the context may (a function name with `/`), so the name is cut at its LAST `/` -/
def parseWire (s : String) : Option WireName :=
  match (s.splitOn "/").reverse with
  | l :: c :: cs => some ("/".intercalate (c :: cs).reverse, l)
  | _ => none

def parseTerm (s : String) : Option (Int × WireName) :=
  match s.splitOn "@" with
  | [c, w] =>
    match c.toInt?, parseWire w with
    | some c, some w => some (c, w)
    | _, _ => none
  | _ => none

def parseSig (s : String) : Option Sig :=
  if s = "" then some [] else mapOpt parseTerm (s.splitOn ",")

def parseKind (s : String) : Option Kind :=
  if s = "L" then some .lincomb else if s = "B" then some .bool else if s = "X" then some .fxp else none

def parseArg (s : String) : Option Arg :=
  match s.splitOn "~" with
  | [k, v, sg] =>
    match parseKind k, v.toInt?, parseSig sg with
    | some k, some v, some sg => some ⟨k, ⟨v, sg⟩⟩
    | _, _, _ => none
  | _ => none

def parseArgs (s : String) : Option (List Arg) :=
  if s = "" then some [] else mapOpt parseArg (s.splitOn "^")

def parse3 (s : String) : Option (Int × Int × Int) :=
  match s.splitOn "," with
  | [a, b, c] =>
    match a.toInt?, b.toInt?, c.toInt? with
    | some a, some b, some c => some (a, b, c)
    | _, _, _ => none
  | _ => none

def parseOp (s : String) : Option Op :=
  match s.splitOn ":" with
  | ["p", v] => v.toInt?.map .priv
  | ["u", v] => v.toInt?.map .pub
  | ["c", abc] =>
    match abc.splitOn "#" with
    | [a, b, c] =>
      match parseSig a, parseSig b, parseSig c with
      | some a, some b, some c => some (.con a b c)
      | _, _, _ => none
    | _ => none
  | ["e", fn, d, args] =>
    match parse3 d, parseArgs args with
    | some (d1, d2, d3), some args => some (.enter fn args d1 d2 d3)
    | _, _ => none
  | ["l", r, args] =>
    match parse3 r, parseArgs args with
    | some (a, b, c), some args => some (.leave args a b c)
    | _, _ => none
  | ["g", g] =>
    if g = "" then some (.guard none)
    else
      match g.splitOn "~" with
      | [v, sg] =>
        match v.toInt?, parseSig sg with
        | some v, some sg => some (.guard (some ⟨v, sg⟩))
        | _, _ => none
      | _ => none
  | ["a"] => some .abort
  | _ => none

def parseOps (s : String) : Option (List Op) :=
  if s = "" then some [] else mapOpt parseOp (s.splitOn ";")

def renderLines (ls : List Line) : String := ";".intercalate (ls.map Line.render)

def renderVals (ws : List (WireName × Int)) : String :=
  ";".intercalate (ws.map fun wv => wv.1.1 ++ "/" ++ wv.1.2 ++ ": " ++ toString wv.2)

/-- stand-in for the digest: the text MD5 is applied to (`Qaptools.digestInput`) -/
def preimage (q : List Line) : String := digestInput q

def errStr : SplitErr → String
  | .inconsistentContexts => "inconsistent-contexts"
  | .emptyBlock => "empty-block"
  | .inconsistentFunctions f => "inconsistent-functions:" ++ f
  | .malformed => "malformed"
  | .emptyMax => "empty-max"

def handleQap (fields : List String) : String :=
  match fields with
  | [id, flags, p, d, ops] =>
    match p.toInt?, parse3 d, parseOps ops with
    | some p, some (d1, d2, d3), some ops =>
      let fl := flags.toList
      let cfg : Cfg := if flags = "pp" then Cfg.pinned p else ⟨p, fl.getD 0 '0' == '1', fl.getD 1 '0' == '1'⟩
      let s := run cfg d1 d2 d3 ops
      let disk := onDisk cfg s
      let head := s!"{id}|E={renderLines s.eqs}|F={disk.length}|W={renderVals s.wires}|V={renderVals s.ios}"
      match proveText preimage cfg s with
      | .error e =>
        -- the schedule file holds what was written before the error
        s!"{head}|X={errStr e}|S=|P=|N=|I="
      | .ok out =>
        let files := "^".intercalate (out.files.map fun fq => fq.1 ++ "=" ++ renderLines fq.2)
        let fns := ",".intercalate (out.acc.fns.map fun cf => cf.1 ++ "=" ++ cf.2)
        let inputs := "^".intercalate (out.sigs.map fun fd => fd.1 ++ "=" ++ fd.2)
        s!"{head}|X=ok|S={renderLines out.acc.schedule}|P={files}|N={fns}|I={inputs}"
    | _, _, _ => s!"{id}|bad"
  | _ => "bad-line"

end Pysnark.ProtoQaptools
