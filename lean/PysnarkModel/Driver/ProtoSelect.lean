import PysnarkModel.Model.Select
import PysnarkModel.Gen.Constants
/-!
# Line protocol for backend selection (C19)
fields `[id, env, pre, unloadable, ipython]`: `env` = `-` for unset, else the value; `pre`,
`unloadable` = `,`-separated module names (possibly empty); `ipython` = 0/1; registry = `Gen.backends`
output `id|ok|<name>|<module>|unknown=<0/1>|loaderr=<,-separated modules>`
     | `id|importerror|<module>` | `id|nobackend|loaderr=<…>`
-/
namespace Pysnark.ProtoSelect
open Pysnark.Select

def names (t : String) : List String := (t.splitOn ",").filter (· ≠ "")

def handleSelect (fields : List String) : String :=
  match fields with
  | [id, env, pre, unl, ipy] =>
    if ipy ≠ "0" && ipy ≠ "1" then s!"{id}|bad-config" else
    let unl := names unl
    let c : Config :=
      { registry := Gen.backends
        preimported := names pre
        env := if env == "-" then none else some env
        loadable := fun m => !unl.contains m
        ipython := ipy == "1" }
    match select c with
    | .ok n m u errs => s!"{id}|ok|{n}|{m}|unknown={if u then 1 else 0}|loaderr={",".intercalate errs}"
    | .importError m => s!"{id}|importerror|{m}"
    | .noBackend errs => s!"{id}|nobackend|loaderr={",".intercalate errs}"
  | _ => "bad-line"

end Pysnark.ProtoSelect
