import PysnarkModel.Model.Snarkjs
/-!
# Line protocol for the snarkjs file writer
fields `[id, p, pubs, privs, cons]`:
* `pubs`, `privs`: comma-separated integers (possibly empty)
* `cons`: `;`-separated constraints (possibly empty), each `A#B#C`, an LC being comma-separated
  `key:coeff` pairs (possibly empty)
output `id|<hex of witness.wtns>|<hex of circuit.r1cs>` (lowercase hex)
-/
namespace Pysnark.ProtoSnarkjs
open Pysnark.Snarkjs

def hexDigit (n : Nat) : Char :=
  if n < 10 then Char.ofNat (48 + n) else Char.ofNat (87 + n)

def hexOfBytes (bs : List Nat) : String :=
  String.ofList (bs.flatMap fun b => [hexDigit (b / 16), hexDigit (b % 16)])

/-- all-or-nothing `List.map` into `Option` -/
def mapOpt {α β : Type} (f : α → Option β) : List α → Option (List β)
  | [] => some []
  | a :: as =>
    match f a, mapOpt f as with
    | some b, some bs => some (b :: bs)
    | _, _ => none

def parseInts (s : String) : Option (List Int) :=
  if s = "" then some [] else mapOpt (fun x => x.toInt?) (s.splitOn ",")

def parseTerm (s : String) : Option (Int × Int) :=
  match s.splitOn ":" with
  | [k, c] =>
    match k.toInt?, c.toInt? with
    | some k, some c => some (k, c)
    | _, _ => none
  | _ => none

def parseLC (s : String) : Option KLC :=
  if s = "" then some [] else mapOpt parseTerm (s.splitOn ",")

def parseCon (s : String) : Option (KLC × KLC × KLC) :=
  match s.splitOn "#" with
  | [a, b, c] =>
    match parseLC a, parseLC b, parseLC c with
    | some a, some b, some c => some (a, b, c)
    | _, _, _ => none
  | _ => none

def parseCons (s : String) : Option (List (KLC × KLC × KLC)) :=
  if s = "" then some [] else mapOpt parseCon (s.splitOn ";")

def handleSnarkjs (fields : List String) : String :=
  match fields with
  | [id, p, pubs, privs, cons] =>
    match p.toInt?, parseInts pubs, parseInts privs, parseCons cons with
    | some p, some pubs, some privs, some cons =>
      let t : Trace := ⟨p, pubs, privs, cons⟩
      s!"{id}|{hexOfBytes (encodeWtns t)}|{hexOfBytes (encodeR1cs t)}"
    | _, _, _, _ => s!"{id}|bad"
  | _ => "bad-line"

end Pysnark.ProtoSnarkjs
