import PysnarkModel.Model.Pack
import PysnarkModel.Model.Snark
import PysnarkModel.Driver.ProtoPack
import PysnarkModel.Driver.Proto
/-!
# Line protocol for packers (C16) and the @snark conversions (C17)
structured values: `i:5` int, `f:3:1` float 3/2^1, `L:5` PrivVal(5), `B:1` PrivValBool(1), `X:3:1` PrivValFxp(3/2^1),
`[a,b]` list, `(a,b)` tuple (no spaces)
`K|id|bl|schema|value`          → pack then unpack
`K|id|bl|schema|bits|U|p|ign`   → unpack only, on the given list of bits, field `p`, error checking off iff `ign` ≠ 0
`NI|id|res|value` / `NO|id|res|value` → snarkIn / snarkOut
`NI|id|res|value|guards` / `NO|…|guards` → the same inside `guarded(c1)(… guarded(ck)(…) …)`, `guards` a
comma-separated list of `L:g` (`PrivVal(g)`) / `B:g` (`PrivValBool(g)`), outermost first; the conditions are
created first, the value is built and converted inside the innermost region; the reply then also carries the
whole tracer state.  In NI/NO values `@k` stands for the k-th list/tuple completed so far in the value (the
SAME Python object on the implementation side; the model has no object identity: the same value again).
-/
namespace Pysnark.ProtoStruct
open Pysnark

/-- split a comma-separated sequence at nesting depth 0 -/
def splitTop (cs : List Char) : List (List Char) :=
  let rec go : List Char → Nat → List Char → List (List Char) → List (List Char)
    | [], _, cur, acc => (acc ++ [cur])
    | c :: r, d, cur, acc =>
      if (c == '[' || c == '(') then go r (d+1) (cur ++ [c]) acc
      else if (c == ']' || c == ')') then go r (d-1) (cur ++ [c]) acc
      else if c == ',' && d == 0 then go r d [] (acc ++ [cur])
      else go r d (cur ++ [c]) acc
  if cs.isEmpty then [] else go cs 0 [] []

/-- build the value, creating the secrets in traversal order -/
def build : Nat → List Char → M Val
  | 0, _ => raise .unmodelled
  | fuel+1, cs =>
    match cs with
    | '[' :: r => do
        let parts := splitTop r.dropLast
        let vs ← mapM' (build fuel) parts
        pure (.list vs)
    | '(' :: r => do
        let parts := splitTop r.dropLast
        let vs ← mapM' (build fuel) parts
        pure (.tuple vs)
    | _ =>
      match (String.ofList cs).splitOn ":" with
      | ["i", v] => match v.toInt? with | some v => pure (.int v) | none => raise .unmodelled
      | ["f", m, e] => match m.toInt?, e.toNat? with | some m, some e => pure (.flt m e) | _, _ => raise .unmodelled
      | ["L", v] => match v.toInt? with | some v => mkVal .priv (.int v) | none => raise .unmodelled
      | ["B", v] => match v.toInt? with | some v => mkVal .privb (.int v) | none => raise .unmodelled
      | ["X", m, e] => match m.toInt?, e.toNat? with | some m, some e => mkVal .privx (.flt m e) | _, _ => raise .unmodelled
      | _ => raise .unmodelled

def st0 (bl res : Nat) : St :=
  { p := 21888242871839275222246405745257275088548364400416034343698204186575808495617, bitlength := bl, resolution := res }

def handlePack (fields : List String) : String :=
  match fields with
  | [id, bl, sch, value] =>
    match bl.toNat?, ProtoPack.schema? sch with
    | some bl, some sch =>
      let m : M (Val × Val) := do
        let v ← build (value.length + 2) value.toList
        let bits ← packV sch v
        match bits with
        | .list bs => do let back ← unpackV sch bs 0; pure (bits, back)
        | _ => raise .unmodelled
      match m (st0 bl 8) with
      | .ok ((bits, back), s) => s!"{id}|ok|{sch.bitlen}|{Proto.valStr s.p bits}|{Proto.valStr s.p back}|ncons={s.cons.length}"
      | .error e => s!"{id}|err:{e.name}|{sch.bitlen}"
    | _, _ => s!"{id}|bad"
  | [id, bl, sch, value, "U", p, ign] =>
    -- unpack ONLY, applied to a caller-supplied list of bits (`L:b` = a raw secret `PrivVal(b)`, `B:b` a secret of the
    -- boolean type, `i:b` a plain int), over the field `p`, with error checking on (`ign` = 0) or off
    match bl.toNat?, ProtoPack.schema? sch, p.toInt?, ign.toNat? with
    | some bl, some sch, some p, some ign =>
      let m : M Val := do
        let v ← build (value.length + 2) value.toList
        match v with
        | .list bs => unpackV sch bs 0
        | _ => raise .unmodelled
      match m { st0 bl 8 with p := p, ignoreErrors := ign != 0 } with
      | .ok (back, s) =>
        s!"{id}|ok|{sch.bitlen}|{Proto.valStr s.p back}|NPRIV={s.priv.length}|CONS={" & ".intercalate (s.cons.map (Proto.consStr s.p))}"
      | .error e => s!"{id}|err:{e.name}|{sch.bitlen}"
    | _, _, _, _ => s!"{id}|bad"
  | _ => "bad-line"

/-- thread the list of completed containers through the parts of a list/tuple -/
def foldParts (f : List Val → List Char → M (Val × List Val)) :
    List Val → List (List Char) → M (List Val × List Val)
  | memo, [] => pure ([], memo)
  | memo, p :: ps => do
    let (v, m1) ← f memo p
    let (vs, m2) ← foldParts f m1 ps
    pure (v :: vs, m2)

/-- `build` with references to earlier containers: `@k` is the k-th list/tuple completed so far -/
def buildS : Nat → List Val → List Char → M (Val × List Val)
  | 0, _, _ => raise .unmodelled
  | fuel+1, memo, cs =>
    match cs with
    | '[' :: r => do
        let (vs, m) ← foldParts (buildS fuel) memo (splitTop r.dropLast)
        pure (.list vs, m ++ [.list vs])
    | '(' :: r => do
        let (vs, m) ← foldParts (buildS fuel) memo (splitTop r.dropLast)
        pure (.tuple vs, m ++ [.tuple vs])
    | '@' :: k =>
      match (String.ofList k).toNat? with
      | some k => match memo[k]? with
        | some v => pure (v, memo)
        | none => raise .unmodelled
      | none => raise .unmodelled
    | _ => do let v ← build 1 cs; pure (v, memo)

/-- the condition of one `guarded(...)`: `L:g` is `PrivVal(g)`, `B:g` is `PrivValBool(g)` -/
def guardCond (t : String) : M Val :=
  match t.splitOn ":" with
  | ["L", v] => match v.toInt? with | some v => mkVal .priv (.int v) | none => raise .unmodelled
  | ["B", v] => match v.toInt? with | some v => mkVal .privb (.int v) | none => raise .unmodelled
  | _ => raise .unmodelled

/-- `guarded(c1)(lambda: guarded(c2)(... m ...)())()`: `add_guard`, run, `restore_guard` (an exception ends the run) -/
def withGuards {α : Type} : List Val → M α → M α
  | [], m => m
  | c :: cs, m => do
    let bak ← addGuard c
    let a ← withGuards cs m
    restoreGuard bak
    pure a

def snarkLine (isIn : Bool) (id : String) (res : Nat) (value : String) (guards : List String) : String :=
  let m : M (Val × Nat) := do
    let conds ← mapM' guardCond guards
    withGuards conds (do
      let (v, _) ← buildS (value.length + 2) [] value.toList
      let s0 ← getSt
      let r ← if isIn then snarkIn v else snarkOut v
      pure (r, s0.pub.length))
  match m (st0 32 res) with
  | .ok ((r, np0), s) =>
    s!"{id}|ok|{Proto.valStr s.p r}|pubs={",".intercalate ((s.pub.drop np0).map toString)}|ncons={s.cons.length}|npriv={s.priv.length}"
      ++ (if guards.isEmpty then "" else "|" ++ Proto.stStr s)
  | .error e => s!"{id}|err:{e.name}"

def handleSnark (isIn : Bool) (fields : List String) : String :=
  match fields with
  | [id, res, value] =>
    match res.toNat? with
    | some res => snarkLine isIn id res value []
    | none => s!"{id}|bad"
  | [id, res, value, guards] =>
    match res.toNat? with
    | some res => snarkLine isIn id res value (guards.splitOn ",")
    | none => s!"{id}|bad"
  | _ => "bad-line"

end Pysnark.ProtoStruct
