import PysnarkModel.Model.Pack
import PysnarkModel.Model.Snark
import PysnarkModel.Driver.ProtoPack
import PysnarkModel.Driver.Proto
/-!
# Line protocol for packers (C16) and the @snark conversions (C17)
structured values: `i:5` int, `f:3:1` float 3/2^1, `L:5` PrivVal(5), `B:1` PrivValBool(1), `X:3:1` PrivValFxp(3/2^1),
`[a,b]` list, `(a,b)` tuple (no spaces)
`K|id|bl|schema|value`          → pack then unpack
`NI|id|res|value` / `NO|id|res|value` → snarkIn / snarkOut
-/
namespace Pysnark.ProtoStruct
open Pysnark

/-- split a comma-separated sequence at nesting depth 0 -/
def splitTop (cs : List Char) : List (List Char) :=
  let rec go : List Char → Nat → List Char → List (List Char) → List (List Char)
    | [], _, cur, acc => (acc ++ [cur])
    | c :: r, d, cur, acc =>
      if (c == '[' || c == '(') then go r (d+1) (cur ++ [c]) acc
      else if (c == ']' || c == ')') then go r (d-1) (cur ++ [c]) acc
      else if c == ',' && d == 0 then go r d [] (acc ++ [cur])
      else go r d (cur ++ [c]) acc
  if cs.isEmpty then [] else go cs 0 [] []

/-- build the value, creating the secrets in traversal order -/
def build : Nat → List Char → M Val
  | 0, _ => raise .unmodelled
  | fuel+1, cs =>
    match cs with
    | '[' :: r => do
        let parts := splitTop r.dropLast
        let vs ← mapM' (build fuel) parts
        pure (.list vs)
    | '(' :: r => do
        let parts := splitTop r.dropLast
        let vs ← mapM' (build fuel) parts
        pure (.tuple vs)
    | _ =>
      match (String.ofList cs).splitOn ":" with
      | ["i", v] => match v.toInt? with | some v => pure (.int v) | none => raise .unmodelled
      | ["f", m, e] => match m.toInt?, e.toNat? with | some m, some e => pure (.flt m e) | _, _ => raise .unmodelled
      | ["L", v] => match v.toInt? with | some v => mkVal .priv (.int v) | none => raise .unmodelled
      | ["B", v] => match v.toInt? with | some v => mkVal .privb (.int v) | none => raise .unmodelled
      | ["X", m, e] => match m.toInt?, e.toNat? with | some m, some e => mkVal .privx (.flt m e) | _, _ => raise .unmodelled
      | _ => raise .unmodelled

def st0 (bl res : Nat) : St :=
  { p := 21888242871839275222246405745257275088548364400416034343698204186575808495617, bitlength := bl, resolution := res }

def handlePack (fields : List String) : String :=
  match fields with
  | [id, bl, sch, value] =>
    match bl.toNat?, ProtoPack.schema? sch with
    | some bl, some sch =>
      let m : M (Val × Val) := do
        let v ← build (value.length + 2) value.toList
        let bits ← packV sch v
        match bits with
        | .list bs => do let back ← unpackV sch bs 0; pure (bits, back)
        | _ => raise .unmodelled
      match m (st0 bl 8) with
      | .ok ((bits, back), s) => s!"{id}|ok|{sch.bitlen}|{Proto.valStr s.p bits}|{Proto.valStr s.p back}|ncons={s.cons.length}"
      | .error e => s!"{id}|err:{e.name}|{sch.bitlen}"
    | _, _ => s!"{id}|bad"
  | _ => "bad-line"

def handleSnark (isIn : Bool) (fields : List String) : String :=
  match fields with
  | [id, res, value] =>
    match res.toNat? with
    | some res =>
      let m : M (Val × Nat × Nat) := do
        let v ← build (value.length + 2) value.toList
        let s0 ← getSt
        let r ← if isIn then snarkIn v else snarkOut v
        pure (r, s0.pub.length, s0.cons.length)
      match m (st0 32 res) with
      | .ok ((r, np0, _nc0), s) =>
        s!"{id}|ok|{Proto.valStr s.p r}|pubs={",".intercalate ((s.pub.drop np0).map toString)}|ncons={s.cons.length}|npriv={s.priv.length}"
      | .error e => s!"{id}|err:{e.name}"
    | none => s!"{id}|bad"
  | _ => "bad-line"

end Pysnark.ProtoStruct
