import PysnarkModel.Model.Zkif
import PysnarkModel.Driver.ProtoSnarkjs
/-!
# Line protocol for the zkinterface file writer
fields `[id, p, pubs, privs, cons]`, same syntax as `Driver/ProtoSnarkjs.lean`:
* `pubs`, `privs`: comma-separated integers (possibly empty)
* `cons`: `;`-separated constraints (possibly empty), each `A#B#C`, an LC being comma-separated
  `key:coeff` pairs (possibly empty)
output `id|<computation.zkif>|<circuit.zkif>`, a file being the concatenation (no separator) of its
messages rendered as
* `H(ids=1,2;vals=5,7;bl=32;free=5;max=<p-1>)`
* `W(ids=3,4;vals=3,11;bl=32)`
* `C(<lc>#<lc>#<lc>;…)` with an LC rendered as comma-separated `id:coeff` (empty LC = empty string)
-/
namespace Pysnark.ProtoZkif
open Pysnark.Snarkjs Pysnark.Zkif Pysnark.ProtoSnarkjs

def joinNats (l : List Nat) : String := ",".intercalate (l.map toString)

def lcStr (v : Vars) : String :=
  ",".intercalate ((v.ids.zip v.values).map fun ic => s!"{ic.1}:{ic.2}")

def conStr (c : Vars × Vars × Vars) : String := s!"{lcStr c.1}#{lcStr c.2.1}#{lcStr c.2.2}"

def msgStr : Msg → String
  | .header inst free max =>
    s!"H(ids={joinNats inst.ids};vals={joinNats inst.values};bl={inst.elemBytes};free={free};max={max})"
  | .witness a => s!"W(ids={joinNats a.ids};vals={joinNats a.values};bl={a.elemBytes})"
  | .constraints cs => s!"C({";".intercalate (cs.map conStr)})"

def fileStr (msgs : List Msg) : String := String.join (msgs.map msgStr)

def handleZkif (fields : List String) : String :=
  match fields with
  | [id, p, pubs, privs, cons] =>
    match p.toInt?, parseInts pubs, parseInts privs, parseCons cons with
    | some p, some pubs, some privs, some cons =>
      let t : Trace := ⟨p, pubs, privs, cons⟩
      s!"{id}|{fileStr (computationFile t)}|{fileStr (circuitFile t)}"
    | _, _, _, _ => s!"{id}|bad"
  | _ => "bad-line"

end Pysnark.ProtoZkif
