import PysnarkModel.Lemmas.Bits
import PysnarkModel.Lemmas.IteTag
import PysnarkModel.Lemmas.InvVal
/-!
# Secret-index array access (C15): values, run-time range check, in-circuit soundness

Part A: Python-level values (no invariant needed).  Part B: soundness against any assignment.
-/
namespace Pysnark

/-- the Python-level integer carried by a numeric value -/
def Val.ival : Val → Int
  | .int c => c
  | .lc x | .lcb x | .fxp x => x.value
  | _ => 0

/-- array elements covered by the theorems: plain ints and `LinComb`s -/
def Val.isNum : Val → Bool
  | .int _ | .lc _ => true
  | _ => false

@[simp] theorem Val.ival_int (c : Int) : (Val.int c).ival = c := rfl
@[simp] theorem Val.ival_lc (x : LinComb) : (Val.lc x).ival = x.value := rfl
@[simp] theorem Val.isNum_int (c : Int) : (Val.int c).isNum = true := rfl
@[simp] theorem Val.isNum_lc (x : LinComb) : (Val.lc x).isNum = true := rfl

/-! ## Part A — values -/

/-- `check_zero` returns the indicator of `value = 0` (no hypotheses) -/
theorem checkZero_value {x r : LinComb} {s s' : St} (h : checkZero x s = .ok (r, s')) :
    r.value = if x.value = 0 then 1 else 0 := by
  unfold checkZero at h
  obtain ⟨ret, s1, h1, h2⟩ := bind_ok.mp h
  obtain ⟨w, s2, _, h4⟩ := bind_ok.mp h2
  obtain ⟨wit, s3, _, h6⟩ := bind_ok.mp h4
  obtain ⟨u1, s4, _, h8⟩ := bind_ok.mp h6
  obtain ⟨u2, s5, _, h10⟩ := bind_ok.mp h8
  rw [mkBool_value h10, privVal_value h1]
  by_cases hx : x.value = 0 <;> simp [hx]

theorem eqLI_value {a r : LinComb} {c : Int} {s s' : St} (h : eqLI a c s = .ok (r, s')) :
    r.value = if a.value = c then 1 else 0 := by
  have := checkZero_value h
  rw [this]
  have e : (a.subI c).value = a.value - c := by
    simp [LinComb.subI, LinComb.addI, LinComb.add, LinComb.const]; ring
  rw [e]
  by_cases hx : a.value = c
  · simp [hx]
  · have : a.value - c ≠ 0 := fun h0 => hx (by omega)
    simp [hx, this]

theorem oneHot_value {item : LinComb} : ∀ (n i : Nat) {s s' : St} {rs : List LinComb},
    oneHot item i n s = .ok (rs, s') →
    rs.length = n ∧ ∀ (k : Nat) (hk : k < rs.length), rs[k].value = if item.value = ((i + k : Nat) : Int) then 1 else 0
  | 0, i, s, s', rs, h => by
    unfold oneHot at h
    obtain ⟨rfl, -⟩ := pure_ok.mp h
    exact ⟨rfl, fun k hk => by simp at hk⟩
  | n+1, i, s, s', rs, h => by
    unfold oneHot at h
    obtain ⟨c, s1, h1, h⟩ := bind_ok.mp h
    obtain ⟨rest, s2, h2, h⟩ := bind_ok.mp h
    obtain ⟨rfl, -⟩ := pure_ok.mp h
    obtain ⟨hl, hv⟩ := oneHot_value n (i+1) h2
    refine ⟨by simp [hl], ?_⟩
    intro k hk
    cases k with
    | zero => simpa using eqLI_value h1
    | succ k =>
      simp only [List.getElem_cons_succ]
      rw [hv k (by simpa using hk)]
      have : i + 1 + k = i + (k + 1) := by omega
      rw [this]

theorem arrayCheck_inv {item : LinComb} {n : Nat} {s s' : St} {u : Unit} (hi : s.ignoreErrors = false)
    (h : arrayCheck item n s = .ok (u, s')) : 0 ≤ item.value ∧ item.value < n ∧ s = s' := by
  unfold arrayCheck at h
  simp only [hi, Bool.not_false, Bool.true_and] at h
  split at h
  · cases h
  · rename_i hc
    simp only [Except.ok.injEq, Prod.mk.injEq] at h
    simp only [Bool.or_eq_true, decide_eq_true_eq, not_or, not_lt, ge_iff_le, not_le] at hc
    exact ⟨hc.1, hc.2, h.2⟩

theorem arrayCheck_reject {item : LinComb} {n : Nat} {s : St} (hi : s.ignoreErrors = false)
    (h : item.value < 0 ∨ item.value ≥ n) : arrayCheck item n s = .error .index := by
  unfold arrayCheck
  simp only [hi, Bool.not_false, Bool.true_and]
  rw [if_pos]
  simpa using h

/-- the selectors of a secret index: one per position, value `1` exactly at the index -/
theorem arrayIxs_value {it : LinComb} {n : Nat} {s s' : St} {ixs : List LinComb}
    (hi : s.ignoreErrors = false) (h : arrayIxs it n s = .ok (ixs, s')) :
    0 ≤ it.value ∧ it.value < n ∧ ixs.length = n ∧
    ∀ (k : Nat) (hk : k < ixs.length), ixs[k].value = if it.value = (k : Int) then 1 else 0 := by
  unfold arrayIxs at h
  obtain ⟨u, s0, h0, h⟩ := bind_ok.mp h
  obtain ⟨h0a, h0b, rfl⟩ := arrayCheck_inv hi h0
  obtain ⟨ixs', s1, h1, h⟩ := bind_ok.mp h
  obtain ⟨hl, hv⟩ := oneHot_value _ _ h1
  cases hsm : sumBools ixs' with
  | none => simp only [hsm] at h; exact (raise_ok.mp h).elim
  | some sm =>
    simp only [hsm] at h
    obtain ⟨one, s2, _, h⟩ := bind_ok.mp h
    obtain ⟨u3, s3, _, h⟩ := bind_ok.mp h
    obtain ⟨rfl, -⟩ := pure_ok.mp h
    refine ⟨h0a, h0b, hl, ?_⟩
    intro k hk
    rw [hv k hk]; simp

/-! ### `lin_comb` on values -/

/-- `Σ cᵢ.value · vᵢ` over the zipped list -/
def dotz : List (LinComb × Val) → Int
  | [] => 0
  | cv :: t => cv.1.value * cv.2.ival + dotz t

/-- sum of the integer values of a list of values -/
def sumv : List Val → Int
  | [] => 0
  | v :: t => v.ival + sumv t

def AllLc (ps : List Val) : Prop := ∀ p ∈ ps, ∃ y, p = Val.lc y

theorem mulLV_num {c : LinComb} {v r : Val} {s s' : St} (hv : v.isNum = true)
    (h : mulLV c v s = .ok (r, s')) : ∃ y, r = .lc y ∧ y.value = c.value * v.ival := by
  cases v with
  | int k =>
    unfold mulLV at h
    obtain ⟨rfl, -⟩ := pure_ok.mp h
    exact ⟨_, rfl, rfl⟩
  | lc y =>
    unfold mulLV at h
    obtain ⟨r1, s1, h1, h⟩ := bind_ok.mp h
    obtain ⟨rfl, -⟩ := pure_ok.mp h
    obtain ⟨rfl, -⟩ := mulLL_ok h1
    exact ⟨_, rfl, rfl⟩
  | _ => simp [Val.isNum] at hv

theorem mapM'_mulLV_num : ∀ (cvs : List (LinComb × Val)) {s s' : St} {ps : List Val},
    (∀ cv ∈ cvs, cv.2.isNum = true) →
    mapM' (fun (cv : LinComb × Val) => mulLV cv.1 cv.2) cvs s = .ok (ps, s') →
    AllLc ps ∧ sumv ps = dotz cvs
  | [], s, s', ps, _, h => by
    unfold mapM' at h
    obtain ⟨rfl, -⟩ := pure_ok.mp h
    exact ⟨fun p hp => by simp at hp, rfl⟩
  | cv :: cvs, s, s', ps, hn, h => by
    unfold mapM' at h
    obtain ⟨y, s1, h1, h⟩ := bind_ok.mp h
    obtain ⟨ys, s2, h2, h⟩ := bind_ok.mp h
    obtain ⟨rfl, -⟩ := pure_ok.mp h
    obtain ⟨z, rfl, hz⟩ := mulLV_num (hn cv List.mem_cons_self) h1
    obtain ⟨ha, hs⟩ := mapM'_mulLV_num cvs (fun c hc => hn c (List.mem_cons_of_mem _ hc)) h2
    refine ⟨?_, by simp [sumv, dotz, hz, hs]⟩
    intro p hp
    rcases List.mem_cons.mp hp with rfl | hp
    · exact ⟨z, rfl⟩
    · exact ha p hp

theorem foldlM_addV_lc : ∀ (ps : List Val) {a : LinComb} {r : Val} {s s' : St}, AllLc ps →
    ps.foldlM (fun acc x => addV acc x) (Val.lc a) s = .ok (r, s') →
    ∃ y, r = .lc y ∧ y.value = a.value + sumv ps
  | [], a, r, s, s', _, h => by
    rw [List.foldlM_nil] at h
    obtain ⟨rfl, -⟩ := pure_ok.mp h
    exact ⟨a, rfl, by simp [sumv]⟩
  | p :: ps, a, r, s, s', hp, h => by
    rw [List.foldlM_cons] at h
    obtain ⟨a1, s1, h1, h⟩ := bind_ok.mp h
    obtain ⟨b, rfl⟩ := hp p List.mem_cons_self
    unfold addV addLV at h1
    obtain ⟨rfl, -⟩ := pure_ok.mp h1
    obtain ⟨y, rfl, hy⟩ := foldlM_addV_lc ps (fun q hq => hp q (List.mem_cons_of_mem _ hq)) h
    refine ⟨y, rfl, ?_⟩
    rw [hy]; simp [sumv, LinComb.add]; ring

/-- value of `lin_comb(ixs, arr)` on numeric elements -/
theorem linComb_value {ixs : List LinComb} {arr : List Val} {r : Val} {s s' : St}
    (harr : ∀ v ∈ arr, v.isNum = true) (h : linComb ixs arr s = .ok (r, s')) :
    r.isNum = true ∧ r.ival = dotz (ixs.zip arr) ∧ (ixs.zip arr ≠ [] → ∃ y, r = .lc y) := by
  unfold linComb at h
  obtain ⟨prods, s1, h1, h⟩ := bind_ok.mp h
  obtain ⟨hall, hsum⟩ := mapM'_mulLV_num _ (by
    intro cv hcv
    exact harr _ (List.of_mem_zip hcv).2) h1
  cases prods with
  | nil =>
    simp only at h
    obtain ⟨rfl, -⟩ := pure_ok.mp h
    refine ⟨rfl, by rw [← hsum]; rfl, ?_⟩
    intro hne
    exfalso
    cases hz : ixs.zip arr with
    | nil => exact hne hz
    | cons cv t =>
      rw [hz] at h1
      unfold mapM' at h1
      obtain ⟨_, _, _, h1⟩ := bind_ok.mp h1
      obtain ⟨_, _, _, h1⟩ := bind_ok.mp h1
      obtain ⟨h1, -⟩ := pure_ok.mp h1
      cases h1
  | cons p ps =>
    simp only at h
    obtain ⟨first, s2, h2, h⟩ := bind_ok.mp h
    obtain ⟨b, rfl⟩ := hall p List.mem_cons_self
    unfold addV addLV at h2
    obtain ⟨rfl, -⟩ := pure_ok.mp h2
    obtain ⟨y, rfl, hy⟩ := foldlM_addV_lc ps (fun q hq => hall q (List.mem_cons_of_mem _ hq)) h
    refine ⟨rfl, ?_, fun _ => ⟨y, rfl⟩⟩
    rw [← hsum]
    simp [hy, sumv, LinComb.addI, LinComb.add, LinComb.const]

theorem dotz_zero : ∀ (ixs : List LinComb) (arr : List Val),
    (∀ (k : Nat) (hk : k < ixs.length), ixs[k].value = 0) → dotz (ixs.zip arr) = 0
  | [], _, _ => rfl
  | _ :: _, [], _ => rfl
  | c :: cs, a :: as, h => by
    have h0 := h 0 (by simp)
    simp only [List.getElem_cons_zero] at h0
    simp only [List.zip_cons_cons, dotz, h0, zero_mul, zero_add]
    refine dotz_zero cs as (fun k hk => ?_)
    have := h (k+1) (by simp only [List.length_cons]; omega)
    simpa only [List.getElem_cons_succ] using this

/-- a one-hot selector vector picks the selected element -/
theorem dotz_sel : ∀ (ixs : List LinComb) (arr : List Val) (j : Nat) (hj : j < arr.length),
    ixs.length = arr.length →
    (∀ (k : Nat) (hk : k < ixs.length), ixs[k].value = if k = j then 1 else 0) →
    dotz (ixs.zip arr) = arr[j].ival
  | [], [], j, hj, _, _ => by simp at hj
  | [], _ :: _, _, _, hl, _ => by simp at hl
  | _ :: _, [], _, _, hl, _ => by simp at hl
  | c :: cs, a :: as, j, hj, hl, h => by
    have h0 := h 0 (by simp)
    simp only [List.getElem_cons_zero] at h0
    have hs : ∀ (k : Nat) (hk : k < cs.length), cs[k].value = if k + 1 = j then 1 else 0 := by
      intro k hk
      have := h (k+1) (by simp only [List.length_cons]; omega)
      simpa only [List.getElem_cons_succ] using this
    simp only [List.zip_cons_cons, dotz]
    cases j with
    | zero =>
      rw [dotz_zero cs as (fun k hk => by rw [hs k hk]; simp)]
      simp at h0
      simp [h0]
    | succ j =>
      have h0' : c.value = 0 := by simpa using h0
      rw [h0', dotz_sel cs as j (by simpa using hj) (by simpa using hl)
        (fun k hk => by rw [hs k hk]; simp)]
      simp

/-! ### read -/

theorem toNat_sel {v : Int} (h0 : 0 ≤ v) (k : Nat) : (v = (k : Int)) ↔ k = v.toNat := by omega

/-- **secret-index read, values**: the index is in range and the value read is the element's -/
theorem arrayGet_value {arr : List Val} {it : LinComb} {r : Val} {s s' : St}
    (hi : s.ignoreErrors = false) (harr : ∀ v ∈ arr, v.isNum = true)
    (h : arrayGet arr (.lc it) s = .ok (r, s')) :
    0 ≤ it.value ∧ it.value < arr.length ∧ (∃ y, r = .lc y) ∧
    ∃ (hj : it.value.toNat < arr.length), r.ival = arr[it.value.toNat].ival := by
  unfold arrayGet at h
  simp only at h
  obtain ⟨ixs, s1, h1, h⟩ := bind_ok.mp h
  obtain ⟨h0, hn, hl, hv⟩ := arrayIxs_value hi h1
  obtain ⟨-, hval, hlc⟩ := linComb_value harr h
  have hj : it.value.toNat < arr.length := by omega
  refine ⟨h0, hn, hlc ?_, hj, ?_⟩
  · intro hz
    have := congrArg List.length hz
    rw [List.length_zip, hl, Nat.min_self] at this
    simp only [List.length_nil] at this
    omega
  · rw [hval]
    refine dotz_sel ixs arr _ hj hl (fun k hk => ?_)
    rw [hv k hk]
    by_cases hk' : k = it.value.toNat
    · simp [hk', Int.toNat_of_nonneg h0]
    · have : ¬ it.value = (k : Int) := fun e => hk' ((toNat_sel h0 k).mp e)
      simp [hk', this]

/-- out-of-range secret index: `IndexError` (error checks on), for reads and writes -/
theorem arrayGet_oob {arr : List Val} {it : LinComb} {s : St} (hi : s.ignoreErrors = false)
    (h : it.value < 0 ∨ it.value ≥ arr.length) : arrayGet arr (.lc it) s = .error .index := by
  unfold arrayGet arrayIxs
  simp only
  change M.bind (M.bind _ _) _ _ = _
  unfold M.bind
  rw [arrayCheck_reject hi h]

theorem arraySet_oob {arr : List Val} {it : LinComb} {v : Val} {s : St} (hi : s.ignoreErrors = false)
    (h : it.value < 0 ∨ it.value ≥ arr.length) : arraySet arr (.lc it) v s = .error .index := by
  unfold arraySet arrayIxs
  simp only
  change M.bind (M.bind _ _) _ _ = _
  unfold M.bind
  rw [arrayCheck_reject hi h]

/-! ### plain-int index: Python list semantics -/

theorem pyIndex_spec (n : Nat) (i : Int) :
    (0 ≤ i ∧ i < n → pyIndex n i = some i.toNat) ∧
    (i < 0 ∧ -i ≤ n → pyIndex n i = some (n - (-i).toNat)) ∧
    (i ≥ n ∨ i < -(n : Int) → pyIndex n i = Option.none) := by
  unfold pyIndex
  refine ⟨?_, ?_, ?_⟩
  · rintro ⟨h0, h1⟩; simp [h0, h1]
  · rintro ⟨h0, h1⟩
    have : ¬ (0 ≤ i) := by omega
    simp [this, h0, h1]
  · intro h
    rcases h with h | h
    · have a : ¬ (i < n) := by omega
      have b : ¬ (i < 0) := by omega
      simp [a, b]
    · have a : ¬ (0 ≤ i) := by omega
      have b : ¬ (-i ≤ n) := by omega
      simp [a, b]

theorem arrayGet_plain {arr : List Val} {i : Int} {s : St} :
    (∀ k, pyIndex arr.length i = some k → ∀ (hk : k < arr.length), arrayGet arr (.int i) s = .ok (arr[k], s)) ∧
    (pyIndex arr.length i = Option.none → arrayGet arr (.int i) s = .error .index) := by
  constructor
  · intro k hk hlt
    unfold arrayGet
    simp only [hk, List.getElem?_eq_getElem hlt]
    rfl
  · intro hk
    unfold arrayGet
    simp only [hk]
    rfl

theorem arraySet_plain {arr : List Val} {i : Int} {v : Val} {s : St} :
    (∀ k, pyIndex arr.length i = some k → arraySet arr (.int i) v s = .ok (arr.set k v, s)) ∧
    (pyIndex arr.length i = Option.none → arraySet arr (.int i) v s = .error .index) := by
  constructor
  · intro k hk
    unfold arraySet
    simp only [hk]
    rfl
  · intro hk
    unfold arraySet
    simp only [hk]
    rfl

/-! ### write -/

theorem subV_num {t f d : Val} {s s' : St} (ht : t.isNum = true) (hf : f.isNum = true)
    (h : subV t f s = .ok (d, s')) : d.isNum = true ∧ d.ival = t.ival - f.ival := by
  cases t <;> cases f <;> simp [Val.isNum] at ht hf
  · unfold subV at h
    obtain ⟨rfl, -⟩ := pure_ok.mp h
    exact ⟨rfl, rfl⟩
  · unfold subV at h
    obtain ⟨nb, s1, h1, h⟩ := bind_ok.mp h
    unfold negV at h1
    obtain ⟨rfl, -⟩ := pure_ok.mp h1
    unfold addV addLV at h
    obtain ⟨rfl, -⟩ := pure_ok.mp h
    exact ⟨rfl, by simp [LinComb.addI, LinComb.add, LinComb.neg, LinComb.const]; ring⟩
  · unfold subV at h
    obtain ⟨nb, s1, h1, h⟩ := bind_ok.mp h
    unfold negV at h1
    obtain ⟨rfl, -⟩ := pure_ok.mp h1
    unfold addV addLV at h
    obtain ⟨rfl, -⟩ := pure_ok.mp h
    exact ⟨rfl, by simp [LinComb.addI, LinComb.add, LinComb.const]; ring⟩
  · unfold subV at h
    obtain ⟨nb, s1, h1, h⟩ := bind_ok.mp h
    unfold negV at h1
    obtain ⟨rfl, -⟩ := pure_ok.mp h1
    unfold addV addLV at h
    obtain ⟨rfl, -⟩ := pure_ok.mp h
    exact ⟨rfl, by simp [LinComb.add, LinComb.neg]; ring⟩

theorem addV_num_lc {f r : Val} {y : LinComb} {s s' : St} (hf : f.isNum = true)
    (h : addV f (.lc y) s = .ok (r, s')) : ∃ z, r = .lc z ∧ z.value = f.ival + y.value := by
  cases f <;> simp [Val.isNum] at hf
  · unfold addV addLV at h
    obtain ⟨rfl, -⟩ := pure_ok.mp h
    exact ⟨_, rfl, by simp [LinComb.addI, LinComb.add, LinComb.const]; ring⟩
  · unfold addV addLV at h
    obtain ⟨rfl, -⟩ := pure_ok.mp h
    exact ⟨_, rfl, rfl⟩

/-- `if_then_else(c, t, f)` on numeric operands: value `f + c·(t − f)` -/
theorem ifThenElse_num {c : LinComb} {t f r : Val} {s s' : St} (ht : t.isNum = true) (hf : f.isNum = true)
    (h : ifThenElse (.lcb c) false t f s = .ok (r, s')) :
    r.isNum = true ∧ r.ival = f.ival + c.value * (t.ival - f.ival) := by
  have hsame : smallIntSame t f = true → t.ival = f.ival := by
    intro hs
    cases t <;> cases f <;> simp [smallIntSame, Val.isNum] at hs ht hf ⊢
    exact hs.1.1
  unfold ifThenElse at h
  simp only [Bool.false_or] at h
  split at h
  · rename_i hs
    obtain ⟨rfl, -⟩ := pure_ok.mp h
    exact ⟨ht, by rw [hsame hs]; ring⟩
  · unfold iteAux at h
    split at h
    · rename_i hs
      obtain ⟨rfl, -⟩ := pure_ok.mp h
      exact ⟨ht, by rw [hsame hs]; ring⟩
    · have key : ∀ {s0 s0' : St}, (do
          let f' ← (pure f : M Val)
          let d ← subV t f'
          let prod ← mulLV c d
          let ret ← addV f' prod
          iteTag t f' ret) s0 = .ok (r, s0') → r.isNum = true ∧ r.ival = f.ival + c.value * (t.ival - f.ival) := by
        intro s0 s0' hk
        obtain ⟨f', s1, h1, hk1⟩ := bind_ok.mp hk
        obtain ⟨hff, -⟩ := pure_ok.mp h1
        subst hff
        obtain ⟨d, s2, h2, hk2⟩ := bind_ok.mp hk1
        obtain ⟨prod, s3, h3, hk3⟩ := bind_ok.mp hk2
        obtain ⟨hd, hdv⟩ := subV_num ht hf h2
        obtain ⟨y, rfl, hy⟩ := mulLV_num hd h3
        obtain ⟨ret, s4, h4, hk4⟩ := bind_ok.mp hk3
        obtain ⟨z, rfl, hz⟩ := addV_num_lc hf h4
        -- numeric branches are not `LinCombBool`s: the value is returned as it is
        have hnb : ∀ g : Val, bothLcb t g = false := by intro g; cases t <;> simp [Val.isNum] at ht <;> rfl
        rw [iteTag_other _ (hnb _)] at hk4
        obtain ⟨rfl, -⟩ := pure_ok.mp hk4
        exact ⟨rfl, by simp [hz, hy, hdv]⟩
      cases t <;> simp [Val.isNum] at ht
      · exact key h
      · exact key h

theorem mapM'_index {α β : Type} {f : α → M β} {P : α → β → Prop}
    (hf : ∀ x s r s', f x s = .ok (r, s') → P x r) :
    ∀ (xs : List α) {s s' : St} {rs : List β}, mapM' f xs s = .ok (rs, s') →
      rs.length = xs.length ∧ ∀ (i : Nat) (h1 : i < xs.length) (h2 : i < rs.length), P xs[i] rs[i]
  | [], s, s', rs, h => by
    unfold mapM' at h
    obtain ⟨rfl, -⟩ := pure_ok.mp h
    exact ⟨rfl, fun i h1 => by simp at h1⟩
  | x :: xs, s, s', rs, h => by
    unfold mapM' at h
    obtain ⟨y, s1, h1, h⟩ := bind_ok.mp h
    obtain ⟨ys, s2, h2, h⟩ := bind_ok.mp h
    obtain ⟨rfl, -⟩ := pure_ok.mp h
    obtain ⟨hl, hp⟩ := mapM'_index hf xs h2
    refine ⟨by simp [hl], ?_⟩
    intro i hi1 hi2
    cases i with
    | zero => exact hf _ _ _ _ h1
    | succ i => exact hp i (by simpa using hi1) (by simpa using hi2)

/-- **secret-index write, values**: same length; the indexed element takes the new value, every
other element keeps its value -/
theorem arraySet_value {arr arr' : List Val} {it : LinComb} {v : Val} {s s' : St}
    (hi : s.ignoreErrors = false) (harr : ∀ a ∈ arr, a.isNum = true) (hv : v.isNum = true)
    (h : arraySet arr (.lc it) v s = .ok (arr', s')) :
    0 ≤ it.value ∧ it.value < arr.length ∧ arr'.length = arr.length ∧
    ∀ (j : Nat) (h1 : j < arr.length) (h2 : j < arr'.length),
      arr'[j].isNum = true ∧ arr'[j].ival = if (j : Int) = it.value then v.ival else arr[j].ival := by
  unfold arraySet at h
  simp only at h
  obtain ⟨ixs, s1, h1, h⟩ := bind_ok.mp h
  obtain ⟨h0, hn, hl, hvv⟩ := arrayIxs_value hi h1
  obtain ⟨hlen, hp⟩ := mapM'_index
    (P := fun (cv : LinComb × Val) (r : Val) => cv.2.isNum = true →
      r.isNum = true ∧ r.ival = cv.2.ival + cv.1.value * (v.ival - cv.2.ival))
    (fun cv s r s' hh hcv => ifThenElse_num hv hcv hh) _ h
  have hzl : (ixs.zip arr).length = arr.length := by simp [hl]
  refine ⟨h0, hn, by rw [hlen, hzl], ?_⟩
  intro j hj1 hj2
  have := hp j (by rw [hzl]; exact hj1) hj2
  simp only [List.getElem_zip] at this
  obtain ⟨hnum, hval⟩ := this (harr _ (List.getElem_mem hj1))
  refine ⟨hnum, ?_⟩
  rw [hval, hvv j (by rw [hl]; exact hj1)]
  by_cases e : (j : Int) = it.value
  · simp [e]
  · have : ¬ it.value = (j : Int) := fun e' => e e'.symm
    simp [e, this]

/-! ## Part B — soundness against an arbitrary assignment -/

/-- `s'` is `s` with private hints and constraints appended (the shape every unguarded gadget has) -/
def Ext (s s' : St) : Prop := ∃ hs cs, s' = s.ext hs cs

theorem Ext.refl (s : St) : Ext s s := ⟨[], [], by simp⟩
theorem Ext.trans {a b c : St} (h1 : Ext a b) (h2 : Ext b c) : Ext a c := by
  obtain ⟨hs, cs, rfl⟩ := h1
  obtain ⟨hs', cs', rfl⟩ := h2
  exact ⟨_, _, St.ext_ext _ _ _ _ _⟩
theorem Ext.p {s s' : St} (h : Ext s s') : s'.p = s.p := by obtain ⟨_, _, rfl⟩ := h; rfl
theorem Ext.guard {s s' : St} (h : Ext s s') : s'.guard = s.guard := by obtain ⟨_, _, rfl⟩ := h; rfl
theorem Ext.one {s s' : St} (h : Ext s s') : s'.one = s.one := by obtain ⟨_, _, rfl⟩ := h; rfl
theorem Ext.pub {s s' : St} (h : Ext s s') : s'.pub = s.pub := by obtain ⟨_, _, rfl⟩ := h; rfl

/-- the constraints of a sequential composition hold iff those of both parts do -/
theorem NewSat_split {s s1 s2 : St} (h1 : Ext s s1) (h2 : Ext s1 s2) {w : Wire → Int} :
    NewSat s s2 w ↔ NewSat s s1 w ∧ NewSat s1 s2 w := by
  obtain ⟨hs, cs, rfl⟩ := h1
  obtain ⟨hs', cs', rfl⟩ := h2
  rw [show NewSat (s.ext hs cs) ((s.ext hs cs).ext hs' cs') w ↔ _ from NewSat_ext, St.ext_ext,
    NewSat_ext, NewSat_ext]
  simp only [List.mem_append, St.ext_p]
  constructor
  · intro h; exact ⟨fun c hc => h c (Or.inl hc), fun c hc => h c (Or.inr hc)⟩
  · rintro ⟨ha, hb⟩ c (hc | hc)
    · exact ha c hc
    · exact hb c hc

section sound
variable {p : ℕ} [Fact p.Prime] {w : Wire → Int}

theorem oneHot_ext {item : LinComb} : ∀ (n i : Nat) {s s' : St} {rs : List LinComb},
    oneHot item i n s = .ok (rs, s') → Ext s s' ∧ rs.length = n ∧ ∀ r ∈ rs, r.lc.WF
  | 0, i, s, s', rs, h => by
    unfold oneHot at h
    obtain ⟨rfl, rfl⟩ := pure_ok' h
    exact ⟨Ext.refl _, rfl, by simp⟩
  | n+1, i, s, s', rs, h => by
    unfold oneHot at h
    obtain ⟨c, s1, h1, hk⟩ := bind_ok.mp h
    obtain ⟨rest, s2, h2, hk2⟩ := bind_ok.mp hk
    obtain ⟨rfl, rfl⟩ := pure_ok' hk2
    obtain ⟨rv, wv, hc, hs1⟩ := eqLI_ok h1
    obtain ⟨e2, hl, hwf⟩ := oneHot_ext n (i+1) h2
    refine ⟨Ext.trans ⟨_, _, hs1⟩ e2, by simp [hl], ?_⟩
    intro r hr
    rcases List.mem_cons.mp hr with rfl | hr
    · rw [hc]; exact WF_fw _ _
    · exact hwf r hr

/-- each selector is the indicator of `item = position`, whatever the prover does -/
theorem oneHot_sound {item : LinComb} (h1 : w .one = 1) (hx : item.lc.WF) :
    ∀ (n i : Nat) {s s' : St} {rs : List LinComb}, s.p = p →
    oneHot item i n s = .ok (rs, s') → NewSat s s' w →
    ∀ (k : Nat) (hk : k < rs.length),
      ev p w rs[k].lc = if ev p w item.lc = ((i + k : Nat) : ZMod p) then 1 else 0
  | 0, i, s, s', rs, _, h, _ => by
    unfold oneHot at h
    obtain ⟨rfl, -⟩ := pure_ok.mp h
    intro k hk; simp at hk
  | n+1, i, s, s', rs, hp, h, hw => by
    unfold oneHot at h
    obtain ⟨c, s1, hc1, hk⟩ := bind_ok.mp h
    obtain ⟨rest, s2, h2, hk2⟩ := bind_ok.mp hk
    obtain ⟨rfl, rfl⟩ := pure_ok' hk2
    have e1 : Ext s s1 := by obtain ⟨rv, wv, -, hs1⟩ := eqLI_ok hc1; exact ⟨_, _, hs1⟩
    obtain ⟨e2, -, -⟩ := oneHot_ext n (i+1) h2
    obtain ⟨hw1, hw2⟩ := (NewSat_split e1 e2).mp hw
    have hc := eqLI_sound hp hx hc1 h1 hw1
    have ih := oneHot_sound h1 hx n (i+1) (by rw [e1.p]; exact hp) h2 hw2
    intro k hk
    cases k with
    | zero => simpa using hc
    | succ k =>
      simp only [List.getElem_cons_succ]
      rw [ih k (by simpa using hk)]
      have : i + 1 + k = i + (k + 1) := by omega
      rw [this]

theorem foldl_add_WF : ∀ (bs : List LinComb) (acc : LinComb), acc.lc.WF → (∀ b ∈ bs, b.lc.WF) →
    (bs.foldl (fun acc x => x.add acc) acc).lc.WF
  | [], _, ha, _ => ha
  | b :: bs, acc, ha, hb => by
    simp only [List.foldl_cons]
    exact foldl_add_WF bs _ (LinComb.WF_add (hb b List.mem_cons_self) ha)
      (fun x hx => hb x (List.mem_cons_of_mem _ hx))

theorem ev_foldl_add : ∀ (bs : List LinComb) (acc : LinComb), acc.lc.WF → (∀ b ∈ bs, b.lc.WF) →
    ev p w (bs.foldl (fun acc x => x.add acc) acc).lc = ev p w acc.lc + (bs.map (fun b => ev p w b.lc)).sum
  | [], _, _, _ => by simp
  | b :: bs, acc, ha, hb => by
    have hb0 := hb b List.mem_cons_self
    simp only [List.foldl_cons, List.map_cons, List.sum_cons]
    rw [ev_foldl_add bs _ (LinComb.WF_add hb0 ha) (fun x hx => hb x (List.mem_cons_of_mem _ hx)),
      ev_add hb0 ha]
    ring

theorem sumBools_sound {bs : List LinComb} {sm : LinComb} (h1 : w .one = 1) (hb : ∀ b ∈ bs, b.lc.WF)
    (h : sumBools bs = some sm) : sm.lc.WF ∧ ev p w sm.lc = (bs.map (fun b => ev p w b.lc)).sum := by
  cases bs with
  | nil => cases h
  | cons b bs =>
    simp only [sumBools, Option.some.injEq] at h
    subst h
    have hb0 := hb b List.mem_cons_self
    have hbs : ∀ x ∈ bs, x.lc.WF := fun x hx => hb x (List.mem_cons_of_mem _ hx)
    refine ⟨foldl_add_WF bs _ (LinComb.WF_addI 0 hb0) hbs, ?_⟩
    rw [ev_foldl_add bs _ (LinComb.WF_addI 0 hb0) hbs, ev_addI h1 0 hb0]
    simp

theorem ensurelcI_ok {c : Int} {r : LinComb} {s s' : St} (h : ensurelcI c s = .ok (r, s')) :
    r = s.one.mulI c ∧ s = s' := by
  unfold ensurelcI at h
  simp only [Except.ok.injEq, Prod.mk.injEq] at h
  exact ⟨h.1.symm, h.2⟩

/-- emission shape of the selector computation -/
theorem arrayIxs_ext {it : LinComb} {n : Nat} {s s' : St} {ixs : List LinComb} (hg : s.guard = none)
    (h : arrayIxs it n s = .ok (ixs, s')) : Ext s s' ∧ ixs.length = n ∧ ∀ r ∈ ixs, r.lc.WF := by
  unfold arrayIxs at h
  obtain ⟨u, s0, h0, hk⟩ := bind_ok.mp h
  obtain rfl := arrayCheck_ok h0
  obtain ⟨ixs', s1, hoh, hk1⟩ := bind_ok.mp hk
  obtain ⟨e1, hl, hwf⟩ := oneHot_ext _ _ hoh
  cases hsm : sumBools ixs' with
  | none => simp only [hsm] at hk1; exact (raise_ok.mp hk1).elim
  | some sm =>
    simp only [hsm] at hk1
    obtain ⟨one, s2, h2, hk2⟩ := bind_ok.mp hk1
    obtain ⟨u3, s3, h3, hk3⟩ := bind_ok.mp hk2
    obtain ⟨rfl, rfl⟩ := pure_ok' hk3
    obtain ⟨rfl, rfl⟩ := ensurelcI_ok h2
    have := assertEq_ok (by rw [e1.guard]; exact hg) h3
    exact ⟨e1.trans ⟨_, _, this⟩, hl, hwf⟩

/-- **an out-of-range index cannot be proven**: whatever the prover assigns, if the constraints of
the selector computation hold then the index evaluates to some position `i < n`; and (for `n ≤ p`)
the selectors are exactly the indicator vector of `i` -/
theorem arrayIxs_sound {it : LinComb} {n : Nat} {s s' : St} {ixs : List LinComb} (hp : s.p = p)
    (hg : s.guard = none) (hone : s.one = oneSafe) (hit : it.lc.WF) (h1 : w .one = 1)
    (h : arrayIxs it n s = .ok (ixs, s')) (hw : NewSat s s' w) :
    ∃ i : Nat, i < n ∧ ev p w it.lc = (i : ZMod p) ∧
      (n ≤ p → ∀ (k : Nat) (hk : k < ixs.length), ev p w ixs[k].lc = if k = i then 1 else 0) := by
  unfold arrayIxs at h
  obtain ⟨u, s0, h0, hk⟩ := bind_ok.mp h
  obtain rfl := arrayCheck_ok h0
  obtain ⟨ixs', s1, hoh, hk1⟩ := bind_ok.mp hk
  obtain ⟨e1, hl, hwf⟩ := oneHot_ext _ _ hoh
  cases hsm : sumBools ixs' with
  | none => simp only [hsm] at hk1; exact (raise_ok.mp hk1).elim
  | some sm =>
    simp only [hsm] at hk1
    obtain ⟨one, s2, h2, hk2⟩ := bind_ok.mp hk1
    obtain ⟨u3, s3, h3, hk3⟩ := bind_ok.mp hk2
    obtain ⟨rfl, rfl⟩ := pure_ok' hk3
    obtain ⟨rfl, rfl⟩ := ensurelcI_ok h2
    have hg1 : s1.guard = none := by rw [e1.guard]; exact hg
    have e2 : Ext s1 s3 := ⟨_, _, assertEq_ok hg1 h3⟩
    obtain ⟨hw1, hw2⟩ := (NewSat_split e1 e2).mp hw
    have hsel := oneHot_sound (p := p) h1 hit _ 0 hp hoh hw1
    obtain ⟨hsmWF, hsmev⟩ := sumBools_sound (p := p) (w := w) h1 hwf hsm
    have hp1 : s1.p = p := by rw [e1.p]; exact hp
    have hone1 : s1.one = oneSafe := by rw [e1.one]; exact hone
    have heq := assertEq_sound hp1 hg1 hsmWF (LinComb.WF_mulI 1 (by rw [hone1]; exact LC.WF_one)) h3 hw2
    rw [hsmev, ev_mulI, hone1] at heq
    simp only [oneSafe, ev_one h1, Int.cast_one, mul_one] at heq
    -- some selector is nonzero, so the index is one of the positions
    have hex : ∃ i : Nat, i < n ∧ ev p w it.lc = (i : ZMod p) := by
      by_contra hne
      have hz : (ixs'.map (fun b => ev p w b.lc)).sum = 0 := by
        apply List.sum_eq_zero
        intro x hx
        obtain ⟨b, hb, rfl⟩ := List.mem_map.mp hx
        obtain ⟨k, hk, rfl⟩ := List.mem_iff_getElem.mp hb
        rw [hsel k hk, if_neg]
        intro e
        exact hne ⟨k, by rw [← hl]; exact hk, by simpa using e⟩
      rw [hz] at heq
      exact zero_ne_one heq
    obtain ⟨i, hi, hie⟩ := hex
    refine ⟨i, hi, hie, ?_⟩
    intro hnp k hk
    rw [hsel k hk, hie]
    simp only [Nat.zero_add]
    by_cases e : k = i
    · simp [e]
    · rw [if_neg e, if_neg]
      intro e'
      exact e (natCast_inj_lt (p := p) (by omega) (by omega) e').symm

/-! ### reading through the selectors -/

/-- the wire expression of an element (`[]` for plain values, which evaluate to `0` here) -/
def Val.lcOf : Val → LC
  | .lc y => y.lc
  | _ => []

def IsLcWF (v : Val) : Prop := ∃ y, v = Val.lc y ∧ y.lc.WF

/-- `Σ ev(cᵢ)·ev(vᵢ)` -/
def evdot (p : ℕ) (w : Wire → Int) : List (LinComb × Val) → ZMod p
  | [] => 0
  | cv :: t => ev p w cv.1.lc * ev p w cv.2.lcOf + evdot p w t

def evsum (p : ℕ) (w : Wire → Int) : List Val → ZMod p
  | [] => 0
  | v :: t => ev p w v.lcOf + evsum p w t

theorem mapM'_mulLV_sound : ∀ (cvs : List (LinComb × Val)) {s s' : St} {ps : List Val},
    (∀ cv ∈ cvs, IsLcWF cv.2) → s.p = p →
    mapM' (fun (cv : LinComb × Val) => mulLV cv.1 cv.2) cvs s = .ok (ps, s') →
    Ext s s' ∧ ps.length = cvs.length ∧ (∀ q ∈ ps, IsLcWF q) ∧
    (NewSat s s' w → evsum p w ps = evdot p w cvs)
  | [], s, s', ps, _, _, h => by
    unfold mapM' at h
    obtain ⟨rfl, rfl⟩ := pure_ok' h
    exact ⟨Ext.refl _, rfl, by simp, fun _ => rfl⟩
  | cv :: cvs, s, s', ps, hn, hp, h => by
    unfold mapM' at h
    obtain ⟨q, s1, hq, hk⟩ := bind_ok.mp h
    obtain ⟨qs, s2, h2, hk2⟩ := bind_ok.mp hk
    obtain ⟨rfl, rfl⟩ := pure_ok' hk2
    obtain ⟨y, hy, hyWF⟩ := hn cv List.mem_cons_self
    rw [hy] at hq
    unfold mulLV at hq
    obtain ⟨r1, s1', hm, hk3⟩ := bind_ok.mp hq
    obtain ⟨rfl, rfl⟩ := pure_ok' hk3
    have e1 : Ext s s1' := by obtain ⟨-, hs⟩ := mulLL_ok hm; exact ⟨_, _, hs⟩
    have hr1 : r1.lc.WF := by obtain ⟨hr, -⟩ := mulLL_ok hm; rw [hr]; exact WF_fw _ _
    obtain ⟨e2, hl, hall, hsnd⟩ := mapM'_mulLV_sound cvs
      (fun c hc => hn c (List.mem_cons_of_mem _ hc)) (by rw [e1.p]; exact hp) h2
    refine ⟨e1.trans e2, by simp [hl], ?_, ?_⟩
    · intro q hq'
      rcases List.mem_cons.mp hq' with rfl | hq'
      · exact ⟨r1, rfl, hr1⟩
      · exact hall q hq'
    · intro hw
      obtain ⟨hw1, hw2⟩ := (NewSat_split e1 e2).mp hw
      have := mulLL_sound hp hm hw1
      simp only [evsum, evdot, Val.lcOf, hy, this, hsnd hw2]

theorem foldlM_addV_sound : ∀ (ps : List Val) {a : LinComb} {r : Val} {s s' : St}, a.lc.WF →
    (∀ q ∈ ps, IsLcWF q) → ps.foldlM (fun acc x => addV acc x) (Val.lc a) s = .ok (r, s') →
    s' = s ∧ ∃ y, r = .lc y ∧ y.lc.WF ∧ ev p w y.lc = ev p w a.lc + evsum p w ps
  | [], a, r, s, s', ha, _, h => by
    rw [List.foldlM_nil] at h
    obtain ⟨rfl, rfl⟩ := pure_ok' h
    exact ⟨rfl, a, rfl, ha, by simp [evsum]⟩
  | q :: ps, a, r, s, s', ha, hq, h => by
    rw [List.foldlM_cons] at h
    obtain ⟨a1, s1, h1, hk⟩ := bind_ok.mp h
    obtain ⟨b, rfl, hb⟩ := hq q List.mem_cons_self
    unfold addV addLV at h1
    obtain ⟨rfl, rfl⟩ := pure_ok' h1
    obtain ⟨rfl, y, rfl, hy, hev⟩ := foldlM_addV_sound ps (LinComb.WF_add ha hb)
      (fun q' hq' => hq q' (List.mem_cons_of_mem _ hq')) hk
    refine ⟨rfl, y, rfl, hy, ?_⟩
    rw [hev, ev_add ha hb]
    simp only [evsum, Val.lcOf]; ring

theorem linComb_sound {ixs : List LinComb} {arr : List Val} {r : Val} {s s' : St} (hp : s.p = p)
    (h1 : w .one = 1) (harr : ∀ v ∈ arr, IsLcWF v) (hne : ixs.zip arr ≠ [])
    (h : linComb ixs arr s = .ok (r, s')) :
    Ext s s' ∧ ∃ y, r = .lc y ∧ y.lc.WF ∧ (NewSat s s' w → ev p w y.lc = evdot p w (ixs.zip arr)) := by
  unfold linComb at h
  obtain ⟨prods, s1, hm, hk⟩ := bind_ok.mp h
  obtain ⟨e1, hl, hall, hsnd⟩ := mapM'_mulLV_sound (p := p) (w := w) _ (by
    intro cv hcv
    exact harr _ (List.of_mem_zip hcv).2) hp hm
  cases prods with
  | nil =>
    exfalso
    apply hne
    exact List.eq_nil_of_length_eq_zero (by simpa using hl.symm)
  | cons q qs =>
    simp only at hk
    obtain ⟨first, s2, h2, hk2⟩ := bind_ok.mp hk
    obtain ⟨b, rfl, hb⟩ := hall q List.mem_cons_self
    unfold addV addLV at h2
    obtain ⟨rfl, rfl⟩ := pure_ok' h2
    obtain ⟨rfl, y, rfl, hy, hev⟩ := foldlM_addV_sound (p := p) (w := w) qs (LinComb.WF_addI 0 hb)
      (fun q' hq' => hall q' (List.mem_cons_of_mem _ hq')) hk2
    refine ⟨e1, y, rfl, hy, ?_⟩
    intro hw
    rw [hev, ev_addI h1 0 hb, ← hsnd hw]
    simp [evsum, Val.lcOf]

theorem evdot_zero : ∀ (ixs : List LinComb) (arr : List Val),
    (∀ (k : Nat) (hk : k < ixs.length), ev p w ixs[k].lc = 0) → evdot p w (ixs.zip arr) = 0
  | [], _, _ => rfl
  | _ :: _, [], _ => rfl
  | c :: cs, a :: as, h => by
    have h0 := h 0 (by simp)
    simp only [List.getElem_cons_zero] at h0
    simp only [List.zip_cons_cons, evdot, h0, zero_mul, zero_add]
    refine evdot_zero cs as (fun k hk => ?_)
    have := h (k+1) (by simp only [List.length_cons]; omega)
    simpa only [List.getElem_cons_succ] using this

theorem evdot_sel : ∀ (ixs : List LinComb) (arr : List Val) (j : Nat) (hj : j < arr.length),
    ixs.length = arr.length →
    (∀ (k : Nat) (hk : k < ixs.length), ev p w ixs[k].lc = if k = j then 1 else 0) →
    evdot p w (ixs.zip arr) = ev p w arr[j].lcOf
  | [], [], j, hj, _, _ => by simp at hj
  | [], _ :: _, _, _, hl, _ => by simp at hl
  | _ :: _, [], _, _, hl, _ => by simp at hl
  | c :: cs, a :: as, j, hj, hl, h => by
    have h0 := h 0 (by simp)
    simp only [List.getElem_cons_zero] at h0
    have hs : ∀ (k : Nat) (hk : k < cs.length), ev p w cs[k].lc = if k + 1 = j then 1 else 0 := by
      intro k hk
      have := h (k+1) (by simp only [List.length_cons]; omega)
      simpa only [List.getElem_cons_succ] using this
    simp only [List.zip_cons_cons, evdot]
    cases j with
    | zero =>
      rw [evdot_zero cs as (fun k hk => by rw [hs k hk]; simp)]
      simp at h0
      simp [h0]
    | succ j =>
      have h0' : ev p w c.lc = 0 := by simpa using h0
      rw [h0', evdot_sel cs as j (by simpa using hj) (by simpa using hl)
        (fun k hk => by rw [hs k hk]; simp)]
      simp

/-- **secret-index read, soundness**: under ANY assignment satisfying the emitted constraints the
index evaluates to a position `i` of the array and the result to the element at that position -/
theorem arrayGet_sound {arr : List Val} {it : LinComb} {r : Val} {s s' : St} (hp : s.p = p)
    (hg : s.guard = none) (hone : s.one = oneSafe) (hit : it.lc.WF) (harr : ∀ v ∈ arr, IsLcWF v)
    (hn : arr.length ≤ p) (h1 : w .one = 1)
    (h : arrayGet arr (.lc it) s = .ok (r, s')) (hw : NewSat s s' w) :
    ∃ (i : Nat) (hi : i < arr.length) (y : LinComb), ev p w it.lc = (i : ZMod p) ∧ r = .lc y ∧
      ev p w y.lc = ev p w arr[i].lcOf := by
  unfold arrayGet at h
  simp only at h
  obtain ⟨ixs, s1, hix, hk⟩ := bind_ok.mp h
  obtain ⟨e1, hl, hwf⟩ := arrayIxs_ext hg hix
  have hp1 : s1.p = p := by rw [e1.p]; exact hp
  have hne : ixs.zip arr ≠ [] := by
    intro hz
    have hzl := congrArg List.length hz
    rw [List.length_zip, hl, Nat.min_self] at hzl
    simp only [List.length_nil] at hzl
    -- the empty array raises in `arrayIxs`
    have : ixs = [] := List.eq_nil_of_length_eq_zero (by rw [hl]; exact hzl)
    subst this
    unfold arrayIxs at hix
    obtain ⟨u, s0, h0, hk0⟩ := bind_ok.mp hix
    obtain ⟨ixs', s1', hoh, hk1⟩ := bind_ok.mp hk0
    rw [hzl] at hoh
    unfold oneHot at hoh
    obtain ⟨rfl, -⟩ := pure_ok.mp hoh
    simp only [sumBools] at hk1
    exact (raise_ok.mp hk1).elim
  obtain ⟨e2, y, rfl, -, hev⟩ := linComb_sound (p := p) (w := w) hp1 h1 harr hne hk
  obtain ⟨hw1, hw2⟩ := (NewSat_split e1 e2).mp hw
  obtain ⟨i, hi, hie, hsel⟩ := arrayIxs_sound hp hg hone hit h1 hix hw1
  refine ⟨i, hi, y, hie, rfl, ?_⟩
  rw [hev hw2]
  exact evdot_sel ixs arr i hi hl (hsel hn)

end sound

end Pysnark
