import PysnarkModel.Lemmas.Array
import PysnarkModel.Lemmas.Values
import PysnarkModel.Spec.Array2D
/-!
# Two-dimensional array access (C15): Python-level values of the row operations

`Model/Array2D.lean`, value layer: what `lin_comb` over rows, the per-row `if_then_else` and the tuple-index read and
write compute, as statements about the integers carried (`Val.ival`).  No invariant is needed here; only that error
checking is on (`ignoreErrors = false`) where an index has to be in range.
-/
namespace Pysnark
namespace A2

/-- the Python-level integers of a row -/
def ivals (r : List Val) : List Int := r.map Val.ival
/-- rows covered by the theorems: plain ints and `LinComb`s -/
def NumRow (r : List Val) : Prop := ∀ v ∈ r, v.isNum = true

@[simp] theorem ivals_nil : ivals [] = [] := rfl
@[simp] theorem ivals_cons (v : Val) (r : List Val) : ivals (v :: r) = v.ival :: ivals r := rfl
@[simp] theorem ivals_length (r : List Val) : (ivals r).length = r.length := by simp [ivals]

theorem AllLc.num {r : List Val} (h : AllLc r) : NumRow r := by
  intro v hv
  obtain ⟨y, rfl⟩ := h v hv
  rfl

theorem NumRow.tail {v : Val} {r : List Val} (h : NumRow (v :: r)) : NumRow r :=
  fun x hx => h x (List.mem_cons_of_mem _ hx)
theorem NumRow.head {v : Val} {r : List Val} (h : NumRow (v :: r)) : v.isNum = true := h v List.mem_cons_self
theorem AllLc.tail {v : Val} {r : List Val} (h : AllLc (v :: r)) : AllLc r :=
  fun x hx => h x (List.mem_cons_of_mem _ hx)

/-! ## inversion of the list combinators -/

theorem mapM'_nil_ok {α β : Type} {f : α → M β} {s s' : St} {rs : List β}
    (h : mapM' f [] s = .ok (rs, s')) : rs = [] ∧ s' = s := by
  unfold mapM' at h
  exact pure_ok.mp h

theorem mapM'_cons_ok {α β : Type} {f : α → M β} {x : α} {xs : List α} {s s' : St} {rs : List β}
    (h : mapM' f (x :: xs) s = .ok (rs, s')) :
    ∃ y s1 ys, f x s = .ok (y, s1) ∧ mapM' f xs s1 = .ok (ys, s') ∧ rs = y :: ys := by
  unfold mapM' at h
  obtain ⟨y, s1, h1, h⟩ := bind_ok.mp h
  obtain ⟨ys, s2, h2, h⟩ := bind_ok.mp h
  obtain ⟨rfl, rfl⟩ := pure_ok.mp h
  exact ⟨y, s1, ys, h1, h2, rfl⟩

theorem zipWithM'_nil_ok {f : Val → Val → M Val} {ts gs : List Val} {s s' : St} {rs : List Val}
    (hn : ts = [] ∨ gs = []) (h : zipWithM' f ts gs s = .ok (rs, s')) : rs = [] ∧ s' = s := by
  rcases hn with rfl | rfl
  · unfold zipWithM' at h
    exact pure_ok.mp h
  · cases ts <;> (unfold zipWithM' at h; exact pure_ok.mp h)

theorem zipWithM'_cons_ok {f : Val → Val → M Val} {t g : Val} {ts gs : List Val} {s s' : St} {rs : List Val}
    (h : zipWithM' f (t :: ts) (g :: gs) s = .ok (rs, s')) :
    ∃ y s1 ys, f t g s = .ok (y, s1) ∧ zipWithM' f ts gs s1 = .ok (ys, s') ∧ rs = y :: ys := by
  unfold zipWithM' at h
  obtain ⟨y, s1, h1, h⟩ := bind_ok.mp h
  obtain ⟨ys, s2, h2, h⟩ := bind_ok.mp h
  obtain ⟨rfl, rfl⟩ := pure_ok.mp h
  exact ⟨y, s1, ys, h1, h2, rfl⟩

/-- element-wise value of a `mapM'` over a row -/
theorem mapM'_vals {f : Val → M Val} {g : Int → Int} {A C : Val → Prop}
    (hf : ∀ t s r s', A t → f t s = .ok (r, s') → C r ∧ r.ival = g t.ival ∧ Ext s s') :
    ∀ (ts : List Val) {s s' : St} {rs : List Val}, (∀ t ∈ ts, A t) → mapM' f ts s = .ok (rs, s') →
      (∀ r ∈ rs, C r) ∧ ivals rs = (ivals ts).map g ∧ Ext s s'
  | [], s, s', rs, _, h => by
    obtain ⟨rfl, rfl⟩ := mapM'_nil_ok h
    exact ⟨fun r hr => by simp at hr, rfl, Ext.refl _⟩
  | t :: ts, s, s', rs, ha, h => by
    obtain ⟨y, s1, ys, h1, h2, rfl⟩ := mapM'_cons_ok h
    obtain ⟨hc, hv, sm1⟩ := hf _ _ _ _ (ha t List.mem_cons_self) h1
    obtain ⟨hcs, hvs, sm2⟩ := mapM'_vals hf ts (fun x hx => ha x (List.mem_cons_of_mem _ hx)) h2
    refine ⟨?_, by simp [hv, hvs], sm1.trans sm2⟩
    intro r hr
    rcases List.mem_cons.mp hr with rfl | hr
    · exact hc
    · exact hcs r hr

/-- element-wise value of a `zipWithM'` over two rows -/
theorem zipWithM'_vals {f : Val → Val → M Val} {g : Int → Int → Int} {A B C : Val → Prop}
    (hf : ∀ t u s r s', A t → B u → f t u s = .ok (r, s') → C r ∧ r.ival = g t.ival u.ival ∧ Ext s s') :
    ∀ (ts us : List Val) {s s' : St} {rs : List Val}, (∀ t ∈ ts, A t) → (∀ u ∈ us, B u) →
      zipWithM' f ts us s = .ok (rs, s') →
      (∀ r ∈ rs, C r) ∧ ivals rs = List.zipWith g (ivals ts) (ivals us) ∧ Ext s s'
  | [], us, s, s', rs, _, _, h => by
    obtain ⟨rfl, rfl⟩ := zipWithM'_nil_ok (Or.inl rfl) h
    exact ⟨fun r hr => by simp at hr, by simp, Ext.refl _⟩
  | t :: ts, [], s, s', rs, _, _, h => by
    obtain ⟨rfl, rfl⟩ := zipWithM'_nil_ok (Or.inr rfl) h
    exact ⟨fun r hr => by simp at hr, by simp, Ext.refl _⟩
  | t :: ts, u :: us, s, s', rs, ha, hb, h => by
    obtain ⟨y, s1, ys, h1, h2, rfl⟩ := zipWithM'_cons_ok h
    obtain ⟨hc, hv, sm1⟩ := hf _ _ _ _ _ (ha t List.mem_cons_self) (hb u List.mem_cons_self) h1
    obtain ⟨hcs, hvs, sm2⟩ := zipWithM'_vals hf ts us (fun x hx => ha x (List.mem_cons_of_mem _ hx))
      (fun x hx => hb x (List.mem_cons_of_mem _ hx)) h2
    refine ⟨?_, by simp [hv, hvs], sm1.trans sm2⟩
    intro r hr
    rcases List.mem_cons.mp hr with rfl | hr
    · exact hc
    · exact hcs r hr

/-! ## integer rows -/

/-- `a + b` on integer rows (over `zip`) -/
def addI (a b : List Int) : List Int := List.zipWith (· + ·) a b
/-- `c * row` -/
def scaleI (c : Int) (r : List Int) : List Int := r.map (c * ·)
/-- `f + c * (t - f)` -/
def iteI (c : Int) (t f : List Int) : List Int := addI f (scaleI c (List.zipWith (· - ·) t f))

theorem scaleI_one (r : List Int) : scaleI 1 r = r := by simp [scaleI]

theorem addI_scale_zero : ∀ (acc r : List Int), acc.length = r.length → addI acc (scaleI 0 r) = acc
  | [], [], _ => rfl
  | [], _ :: _, h => by simp at h
  | _ :: _, [], h => by simp at h
  | a :: acc, x :: r, h => by
    have ih := addI_scale_zero acc r (by simpa using h)
    show (a + 0 * x) :: addI acc (scaleI 0 r) = a :: acc
    rw [ih]; simp

theorem scale_zero_addI : ∀ (r0 r : List Int), r0.length = r.length → addI (scaleI 0 r0) r = r
  | [], [], _ => rfl
  | [], _ :: _, h => by simp at h
  | _ :: _, [], h => by simp at h
  | a :: r0, x :: r, h => by
    have ih := scale_zero_addI r0 r (by simpa using h)
    show (0 * a + x) :: addI (scaleI 0 r0) r = x :: r
    rw [ih]; simp

theorem addI_length (a b : List Int) : (addI a b).length = min a.length b.length := by simp [addI]

theorem iteI_one : ∀ (t f : List Int), t.length = f.length → iteI 1 t f = t
  | [], [], _ => rfl
  | [], _ :: _, h => by simp at h
  | _ :: _, [], h => by simp at h
  | a :: t, x :: f, h => by
    have ih := iteI_one t f (by simpa using h)
    show (x + 1 * (a - x)) :: iteI 1 t f = a :: t
    rw [ih]; simp

theorem iteI_zero : ∀ (t f : List Int), t.length = f.length → iteI 0 t f = f
  | [], [], _ => rfl
  | [], _ :: _, h => by simp at h
  | _ :: _, [], h => by simp at h
  | a :: t, x :: f, h => by
    have ih := iteI_zero t f (by simpa using h)
    show (x + 0 * (a - x)) :: iteI 0 t f = x :: f
    rw [ih]; simp

/-- adding up rows scaled by selectors that are all zero changes nothing -/
theorem foldl_addI_zero (w : Nat) : ∀ (crs : List (Int × List Int)) (acc : List Int), acc.length = w →
    (∀ cr ∈ crs, cr.2.length = w) → (∀ cr ∈ crs, cr.1 = 0) →
    (crs.map fun cr => scaleI cr.1 cr.2).foldl addI acc = acc
  | [], _, _, _, _ => rfl
  | cr :: crs, acc, ha, hw, hz => by
    simp only [List.map_cons, List.foldl_cons]
    rw [hz cr List.mem_cons_self, addI_scale_zero acc cr.2 (by rw [ha, hw cr List.mem_cons_self])]
    exact foldl_addI_zero w crs acc ha (fun x hx => hw x (List.mem_cons_of_mem _ hx))
      (fun x hx => hz x (List.mem_cons_of_mem _ hx))

/-- adding up rows scaled by a one-hot selector vector adds the selected row -/
theorem foldl_addI_sel (w : Nat) : ∀ (crs : List (Int × List Int)) (acc : List Int) (i : Nat) (hi : i < crs.length),
    acc.length = w → (∀ cr ∈ crs, cr.2.length = w) →
    (∀ (k : Nat) (hk : k < crs.length), crs[k].1 = if k = i then 1 else 0) →
    (crs.map fun cr => scaleI cr.1 cr.2).foldl addI acc = addI acc crs[i].2
  | [], _, _, hi, _, _, _ => by simp at hi
  | cr :: crs, acc, 0, _, ha, hw, hs => by
    simp only [List.map_cons, List.foldl_cons, List.getElem_cons_zero]
    have h0 := hs 0 (by simp)
    simp only [List.getElem_cons_zero, if_true] at h0
    rw [h0, scaleI_one]
    refine foldl_addI_zero w crs _ ?_ (fun x hx => hw x (List.mem_cons_of_mem _ hx)) ?_
    · rw [addI_length, ha, hw cr List.mem_cons_self, Nat.min_self]
    · intro x hx
      obtain ⟨k, hk, rfl⟩ := List.mem_iff_getElem.mp hx
      have := hs (k+1) (by simp only [List.length_cons]; omega)
      simpa using this
  | cr :: crs, acc, i+1, hi, ha, hw, hs => by
    simp only [List.map_cons, List.foldl_cons, List.getElem_cons_succ]
    have h0 := hs 0 (by simp)
    simp only [List.getElem_cons_zero] at h0
    rw [h0, if_neg (by omega), addI_scale_zero acc cr.2 (by rw [ha, hw cr List.mem_cons_self])]
    refine foldl_addI_sel w crs acc i (by simpa using hi) ha (fun x hx => hw x (List.mem_cons_of_mem _ hx)) ?_
    intro k hk
    have := hs (k+1) (by simp only [List.length_cons]; omega)
    simpa using this

/-! ## the element operations, with the part of the state they leave alone -/

theorem Ext.same {s s' : St} (h : Ext s s') : Same s s' := by
  obtain ⟨hs, cs, rfl⟩ := h
  exact ⟨rfl, rfl, rfl, rfl, rfl, rfl⟩

theorem mulLV_num_ext {c : LinComb} {v r : Val} {s s' : St} (hv : v.isNum = true)
    (h : mulLV c v s = .ok (r, s')) : Ext s s' := by
  cases v with
  | int k =>
    unfold mulLV at h
    obtain ⟨-, rfl⟩ := pure_ok.mp h
    exact Ext.refl _
  | lc y =>
    unfold mulLV at h
    obtain ⟨r1, s1, h1, h⟩ := bind_ok.mp h
    obtain ⟨-, rfl⟩ := pure_ok.mp h
    exact ⟨_, _, (mulLL_ok h1).2⟩
  | _ => simp [Val.isNum] at hv

theorem mulLV_num_same {c : LinComb} {v r : Val} {s s' : St} (hv : v.isNum = true)
    (h : mulLV c v s = .ok (r, s')) : Same s s' := Ext.same (mulLV_num_ext hv h)

theorem addV_num_lc_st {f r : Val} {y : LinComb} {s s' : St} (hf : f.isNum = true)
    (h : addV f (.lc y) s = .ok (r, s')) : s' = s := by
  cases f <;> simp [Val.isNum] at hf
  · unfold addV addLV at h
    exact (pure_ok.mp h).2
  · unfold addV addLV at h
    exact (pure_ok.mp h).2

theorem subV_num_st {t f d : Val} {s s' : St} (ht : t.isNum = true) (hf : f.isNum = true)
    (h : subV t f s = .ok (d, s')) : s' = s := by
  cases t <;> cases f <;> simp [Val.isNum] at ht hf
  · unfold subV at h
    exact (pure_ok.mp h).2
  all_goals
    unfold subV at h
    obtain ⟨nb, s1, h1, h⟩ := bind_ok.mp h
    unfold negV at h1
    obtain ⟨rfl, rfl⟩ := pure_ok.mp h1
    unfold addV addLV at h
    exact (pure_ok.mp h).2

/-! ## the one-dimensional access leaves guard, error mode, `ONE`, sizes and modulus alone -/

theorem oneHot_same {item : LinComb} : ∀ (n i : Nat) {s s' : St} {rs : List LinComb},
    oneHot item i n s = .ok (rs, s') → Same s s'
  | 0, i, s, s', rs, h => by
    unfold oneHot at h
    obtain ⟨-, rfl⟩ := pure_ok.mp h
    exact Same.refl _
  | n+1, i, s, s', rs, h => by
    unfold oneHot at h
    obtain ⟨c, s1, h1, h⟩ := bind_ok.mp h
    obtain ⟨rest, s2, h2, h⟩ := bind_ok.mp h
    obtain ⟨-, rfl⟩ := pure_ok.mp h
    exact (eqLI_val h1).1.trans (oneHot_same n (i+1) h2)

theorem arrayIxs_same {it : LinComb} {n : Nat} {s s' : St} {ixs : List LinComb}
    (h : arrayIxs it n s = .ok (ixs, s')) : Same s s' := by
  unfold arrayIxs at h
  obtain ⟨u, s0, h0, h⟩ := bind_ok.mp h
  obtain rfl := arrayCheck_ok h0
  obtain ⟨ixs', s1, h1, h⟩ := bind_ok.mp h
  have sm1 := oneHot_same _ _ h1
  cases hsm : sumBools ixs' with
  | none => simp only [hsm] at h; exact (raise_ok.mp h).elim
  | some sm =>
    simp only [hsm] at h
    obtain ⟨one, s2, h2, h⟩ := bind_ok.mp h
    obtain ⟨u3, s3, h3, h⟩ := bind_ok.mp h
    obtain ⟨-, rfl⟩ := pure_ok.mp h
    obtain ⟨-, rfl⟩ := ensurelcI_ok h2
    unfold assertEq at h3
    split at h3
    · cases h3
    · exact sm1.trans (assertZero_val h3).1

theorem foldlM_addV_lc_st : ∀ (ps : List Val) {a : LinComb} {r : Val} {s s' : St}, AllLc ps →
    ps.foldlM (fun acc x => addV acc x) (Val.lc a) s = .ok (r, s') → s' = s
  | [], a, r, s, s', _, h => by
    rw [List.foldlM_nil] at h
    exact (pure_ok.mp h).2
  | p :: ps, a, r, s, s', hp, h => by
    rw [List.foldlM_cons] at h
    obtain ⟨a1, s1, h1, h⟩ := bind_ok.mp h
    obtain ⟨b, rfl⟩ := hp p List.mem_cons_self
    unfold addV addLV at h1
    obtain ⟨rfl, rfl⟩ := pure_ok.mp h1
    exact foldlM_addV_lc_st ps (fun q hq => hp q (List.mem_cons_of_mem _ hq)) h

theorem mapM'_mulLV_ext : ∀ (cvs : List (LinComb × Val)) {s s' : St} {ps : List Val},
    (∀ cv ∈ cvs, cv.2.isNum = true) →
    mapM' (fun (cv : LinComb × Val) => mulLV cv.1 cv.2) cvs s = .ok (ps, s') → Ext s s'
  | [], s, s', ps, _, h => by
    obtain ⟨-, rfl⟩ := mapM'_nil_ok h
    exact Ext.refl _
  | cv :: cvs, s, s', ps, hn, h => by
    obtain ⟨y, s1, ys, h1, h2, -⟩ := mapM'_cons_ok h
    exact (mulLV_num_ext (hn cv List.mem_cons_self) h1).trans
      (mapM'_mulLV_ext cvs (fun c hc => hn c (List.mem_cons_of_mem _ hc)) h2)

/-- `lin_comb` on a numeric array only appends wires and constraints -/
theorem linComb_ext {ixs : List LinComb} {arr : List Val} {r : Val} {s s' : St}
    (harr : NumRow arr) (h : linComb ixs arr s = .ok (r, s')) : Ext s s' := by
  unfold linComb at h
  obtain ⟨prods, s1, h1, h⟩ := bind_ok.mp h
  have hz : ∀ cv ∈ ixs.zip arr, cv.2.isNum = true := fun cv hcv => harr _ (List.of_mem_zip hcv).2
  obtain ⟨hall, -⟩ := mapM'_mulLV_num _ hz h1
  have sm1 := mapM'_mulLV_ext _ hz h1
  cases prods with
  | nil =>
    simp only at h
    obtain ⟨-, rfl⟩ := pure_ok.mp h
    exact sm1
  | cons p ps =>
    simp only at h
    obtain ⟨first, s2, h2, h⟩ := bind_ok.mp h
    obtain ⟨b, rfl⟩ := hall p List.mem_cons_self
    unfold addV addLV at h2
    obtain ⟨rfl, rfl⟩ := pure_ok.mp h2
    have := foldlM_addV_lc_st ps (fun q hq => hall q (List.mem_cons_of_mem _ hq)) h
    exact this ▸ sm1

theorem linComb_same {ixs : List LinComb} {arr : List Val} {r : Val} {s s' : St}
    (harr : NumRow arr) (h : linComb ixs arr s = .ok (r, s')) : Same s s' := Ext.same (linComb_ext harr h)

theorem arrayGet_same {arr : List Val} {item r : Val} {s s' : St} (harr : NumRow arr)
    (h : arrayGet arr item s = .ok (r, s')) : Same s s' := by
  unfold arrayGet at h
  split at h
  · rename_i i
    cases hk : pyIndex arr.length i with
    | none => simp only [hk] at h; exact (raise_ok.mp h).elim
    | some k =>
      simp only [hk] at h
      cases hv : arr[k]? with
      | none => simp only [hv] at h; exact (raise_ok.mp h).elim
      | some v =>
        simp only [hv] at h
        obtain ⟨-, rfl⟩ := pure_ok.mp h
        exact Same.refl _
  · obtain ⟨ixs, s1, h1, h⟩ := bind_ok.mp h
    exact (arrayIxs_same h1).trans (linComb_same harr h)
  · exact (raise_ok.mp h).elim

theorem ifThenElse_num_ext {c : LinComb} {t f r : Val} {s s' : St} (ht : t.isNum = true) (hf : f.isNum = true)
    (h : ifThenElse (.lcb c) false t f s = .ok (r, s')) : Ext s s' := by
  unfold ifThenElse at h
  simp only [Bool.false_or] at h
  split at h
  · obtain ⟨-, rfl⟩ := pure_ok.mp h
    exact Ext.refl _
  · unfold iteAux at h
    split at h
    · obtain ⟨-, rfl⟩ := pure_ok.mp h
      exact Ext.refl _
    · have key : ∀ {s0 s0' : St}, (do
          let f' ← (pure f : M Val)
          let d ← subV t f'
          let prod ← mulLV c d
          let ret ← addV f' prod
          iteTag t f' ret) s0 = .ok (r, s0') → Ext s0 s0' := by
        intro s0 s0' hk
        obtain ⟨f', s1, h1, hk1⟩ := bind_ok.mp hk
        obtain ⟨hff, rfl⟩ := pure_ok.mp h1
        subst hff
        obtain ⟨d, s2, h2, hk2⟩ := bind_ok.mp hk1
        obtain ⟨prod, s3, h3, hk3⟩ := bind_ok.mp hk2
        have e2 := subV_num_st ht hf h2
        obtain ⟨hd, -⟩ := subV_num ht hf h2
        have sm3 := mulLV_num_ext hd h3
        obtain ⟨y, rfl, -⟩ := mulLV_num hd h3
        obtain ⟨ret, s4, h4, hk4⟩ := bind_ok.mp hk3
        have e4 := addV_num_lc_st hf h4
        have hnb : ∀ g : Val, bothLcb t g = false := by intro g; cases t <;> simp [Val.isNum] at ht <;> rfl
        rw [iteTag_other _ (hnb _)] at hk4
        obtain ⟨-, rfl⟩ := pure_ok.mp hk4
        subst e2; subst e4
        exact sm3
      cases t <;> simp [Val.isNum] at ht
      · exact key h
      · exact key h

/-- the loop of a one-dimensional secret-index write only appends wires and constraints -/
theorem mapM'_ite_ext {v : Val} (hv : v.isNum = true) : ∀ (cvs : List (LinComb × Val)) {s0 s0' : St} {rs : List Val},
    (∀ cv ∈ cvs, cv.2.isNum = true) →
    mapM' (fun (cv : LinComb × Val) => ifThenElse (.lcb cv.1) false v cv.2) cvs s0 = .ok (rs, s0') → Ext s0 s0'
  | [], s0, s0', rs, _, hh => by
    obtain ⟨-, rfl⟩ := mapM'_nil_ok hh
    exact Ext.refl _
  | cv :: cvs, s0, s0', rs, hn, hh => by
    obtain ⟨y, s1', ys, hh1, hh2, -⟩ := mapM'_cons_ok hh
    exact (ifThenElse_num_ext hv (hn cv List.mem_cons_self) hh1).trans
      (mapM'_ite_ext hv cvs (fun c hc => hn c (List.mem_cons_of_mem _ hc)) hh2)

theorem arraySet_same {arr arr' : List Val} {item v : Val} {s s' : St} (harr : NumRow arr) (hv : v.isNum = true)
    (h : arraySet arr item v s = .ok (arr', s')) : Same s s' := by
  unfold arraySet at h
  split at h
  · rename_i i
    cases hk : pyIndex arr.length i with
    | none => simp only [hk] at h; exact (raise_ok.mp h).elim
    | some k =>
      simp only [hk] at h
      obtain ⟨-, rfl⟩ := pure_ok.mp h
      exact Same.refl _
  · obtain ⟨ixs, s1, h1, h⟩ := bind_ok.mp h
    exact (arrayIxs_same h1).trans
      (Ext.same (mapM'_ite_ext hv _ (fun cv hcv => harr _ (List.of_mem_zip hcv).2) h))
  · exact (raise_ok.mp h).elim

/-! ## the row operations -/

theorem scaleRow_value {c : LinComb} {row r : List Val} {s s' : St} (hn : NumRow row)
    (h : scaleRow c row s = .ok (r, s')) : AllLc r ∧ ivals r = scaleI c.value (ivals row) ∧ Ext s s' :=
  mapM'_vals (A := fun v => v.isNum = true) (C := fun v => ∃ y, v = Val.lc y) (g := fun x => c.value * x)
    (fun _ _ _ _ ht hh => by
      obtain ⟨y, rfl, hy⟩ := mulLV_num ht hh
      exact ⟨⟨y, rfl⟩, hy, mulLV_num_ext ht hh⟩) row hn h

theorem addZeroRow_value {p r : List Val} {s s' : St} (hp : AllLc p)
    (h : addZeroRow p s = .ok (r, s')) : AllLc r ∧ ivals r = ivals p ∧ Ext s s' := by
  have := mapM'_vals (f := fun v => addV v (.int 0)) (A := fun v => ∃ y, v = Val.lc y)
    (C := fun v => ∃ y, v = Val.lc y) (g := fun x => x)
    (fun _ _ _ _ ht hh => by
      obtain ⟨y, rfl⟩ := ht
      unfold addV addLV at hh
      obtain ⟨rfl, rfl⟩ := pure_ok.mp hh
      exact ⟨⟨_, rfl⟩, by simp [LinComb.addI, LinComb.add, LinComb.const], Ext.refl _⟩) p hp h
  exact ⟨this.1, by simpa using this.2.1, this.2.2⟩

theorem addRows_value {a b r : List Val} {s s' : St} (ha : NumRow a) (hb : AllLc b)
    (h : addRows a b s = .ok (r, s')) : AllLc r ∧ ivals r = addI (ivals a) (ivals b) ∧ Ext s s' := by
  unfold addRows at h
  split at h
  · exact zipWithM'_vals (A := fun v => v.isNum = true) (B := fun v => ∃ y, v = Val.lc y)
      (C := fun v => ∃ y, v = Val.lc y) (g := fun x y => x + y)
      (fun _ _ _ _ _ ht hu hh => by
        obtain ⟨y, rfl⟩ := hu
        have hst := addV_num_lc_st ht hh
        obtain ⟨z, rfl, hz⟩ := addV_num_lc ht hh
        exact ⟨⟨z, rfl⟩, hz, hst ▸ Ext.refl _⟩) a b ha hb h
  · exact (raise_ok.mp h).elim

theorem subRows_value {a b r : List Val} {s s' : St} (ha : NumRow a) (hb : NumRow b)
    (h : subRows a b s = .ok (r, s')) :
    NumRow r ∧ ivals r = List.zipWith (· - ·) (ivals a) (ivals b) ∧ Ext s s' := by
  unfold subRows at h
  split at h
  · exact zipWithM'_vals (A := fun v => v.isNum = true) (B := fun v => v.isNum = true)
      (C := fun v => v.isNum = true) (g := fun x y => x - y)
      (fun _ _ _ _ _ ht hu hh => by
        have hst := subV_num_st ht hu hh
        obtain ⟨h1, h2⟩ := subV_num ht hu hh
        exact ⟨h1, h2, hst ▸ Ext.refl _⟩) a b ha hb h
  · exact (raise_ok.mp h).elim

/-- operands of different lengths are refused, never zipped to the shorter one (`Array.__add__`, `Array.__sub__`) -/
theorem addRows_mismatch {a b : List Val} {s : St} (h : a.length ≠ b.length) : addRows a b s = .error .value := by
  unfold addRows
  rw [if_neg h]
  rfl

theorem subRows_mismatch {a b : List Val} {s : St} (h : a.length ≠ b.length) : subRows a b s = .error .value := by
  unfold subRows
  rw [if_neg h]
  rfl

/-- a completed `a + b` / `a - b` had operands of the same length -/
theorem addRows_ok_length {a b r : List Val} {s s' : St} (h : addRows a b s = .ok (r, s')) : a.length = b.length := by
  by_contra hne
  rw [addRows_mismatch hne] at h
  cases h

theorem subRows_ok_length {a b r : List Val} {s s' : St} (h : subRows a b s = .ok (r, s')) : a.length = b.length := by
  by_contra hne
  rw [subRows_mismatch hne] at h
  cases h

/-- `if_then_else(c, t, f)` on rows: element-wise `f + c·(t − f)` -/
theorem iteRow_value {c : LinComb} {t f r : List Val} {s s' : St} (ht : NumRow t) (hf : NumRow f)
    (h : iteRow c t f s = .ok (r, s')) :
    AllLc r ∧ ivals r = iteI c.value (ivals t) (ivals f) ∧ Ext s s' := by
  unfold iteRow at h
  obtain ⟨d, s1, h1, h⟩ := bind_ok.mp h
  obtain ⟨pr, s2, h2, h⟩ := bind_ok.mp h
  obtain ⟨hd, hdv, sm1⟩ := subRows_value ht hf h1
  obtain ⟨hp, hpv, sm2⟩ := scaleRow_value hd h2
  obtain ⟨hr, hrv, sm3⟩ := addRows_value hf hp h
  exact ⟨hr, by rw [hrv, hpv, hdv]; rfl, (sm1.trans sm2).trans sm3⟩

/-- the products of `lin_comb` over rows -/
theorem mapM'_scaleRow_value : ∀ (crs : List (LinComb × List Val)) {s s' : St} {ps : List (List Val)},
    (∀ cr ∈ crs, NumRow cr.2) →
    mapM' (fun (cr : LinComb × List Val) => scaleRow cr.1 cr.2) crs s = .ok (ps, s') →
    (∀ p ∈ ps, AllLc p) ∧ ps.map ivals = crs.map (fun cr => scaleI cr.1.value (ivals cr.2)) ∧ Ext s s'
  | [], s, s', ps, _, h => by
    obtain ⟨rfl, rfl⟩ := mapM'_nil_ok h
    exact ⟨fun p hp => by simp at hp, rfl, Ext.refl _⟩
  | cr :: crs, s, s', ps, hn, h => by
    obtain ⟨y, s1, ys, h1, h2, rfl⟩ := mapM'_cons_ok h
    obtain ⟨ha, hv, sm1⟩ := scaleRow_value (hn cr List.mem_cons_self) h1
    obtain ⟨has, hvs, sm2⟩ := mapM'_scaleRow_value crs (fun x hx => hn x (List.mem_cons_of_mem _ hx)) h2
    refine ⟨?_, by simp [hv, hvs], sm1.trans sm2⟩
    intro p hp
    rcases List.mem_cons.mp hp with rfl | hp
    · exact ha
    · exact has p hp

theorem foldlM_addRows_value : ∀ (ps : List (List Val)) {acc r : List Val} {s s' : St}, AllLc acc →
    (∀ p ∈ ps, AllLc p) → ps.foldlM (fun acc x => addRows acc x) acc s = .ok (r, s') →
    AllLc r ∧ ivals r = (ps.map ivals).foldl addI (ivals acc) ∧ Ext s s'
  | [], acc, r, s, s', ha, _, h => by
    rw [List.foldlM_nil] at h
    obtain ⟨rfl, rfl⟩ := pure_ok.mp h
    exact ⟨ha, rfl, Ext.refl _⟩
  | p :: ps, acc, r, s, s', ha, hp, h => by
    rw [List.foldlM_cons] at h
    obtain ⟨a1, s1, h1, h⟩ := bind_ok.mp h
    obtain ⟨ha1, hv1, sm1⟩ := addRows_value (AllLc.num ha) (hp p List.mem_cons_self) h1
    obtain ⟨hr, hv, sm2⟩ := foldlM_addRows_value ps ha1 (fun q hq => hp q (List.mem_cons_of_mem _ hq)) h
    exact ⟨hr, by rw [hv, hv1]; rfl, sm1.trans sm2⟩

/-- value of `lin_comb(ixs, rows)`: the first product plus the others, element-wise over `zip` -/
theorem linCombRows_value {ixs : List LinComb} {rows : List (List Val)} {r : List Val} {s s' : St}
    (hn : ∀ row ∈ rows, NumRow row) (h : linCombRows ixs rows s = .ok (r, s')) :
    AllLc r ∧ Ext s s' ∧ ∃ c0 r0 rest, ixs.zip rows = (c0, r0) :: rest ∧
      ivals r = (rest.map fun cr => scaleI cr.1.value (ivals cr.2)).foldl addI (scaleI c0.value (ivals r0)) := by
  unfold linCombRows at h
  obtain ⟨prods, s1, h1, h⟩ := bind_ok.mp h
  obtain ⟨hall, hv, sm1⟩ := mapM'_scaleRow_value _ (fun cr hcr => hn _ (List.of_mem_zip hcr).2) h1
  cases prods with
  | nil => exact (raise_ok.mp h).elim
  | cons p ps =>
    simp only at h
    obtain ⟨first, s2, h2, h⟩ := bind_ok.mp h
    obtain ⟨hf, hfv, sm2⟩ := addZeroRow_value (hall p List.mem_cons_self) h2
    obtain ⟨hr, hrv, sm3⟩ := foldlM_addRows_value ps hf (fun q hq => hall q (List.mem_cons_of_mem _ hq)) h
    cases hz : ixs.zip rows with
    | nil => rw [hz] at hv; simp at hv
    | cons cr rest =>
      rw [hz] at hv
      simp only [List.map_cons, List.cons.injEq] at hv
      refine ⟨hr, (sm1.trans sm2).trans sm3, cr.1, cr.2, rest, rfl, ?_⟩
      rw [hrv, hfv, hv.1, hv.2]

/-- the sum of rows scaled by a one-hot selector vector (first product, then the others added) is the selected row -/
theorem linComb_sel (w : Nat) (c0 : Int) (r0 : List Int) (rest : List (Int × List Int)) (i : Nat)
    (hi : i < ((c0, r0) :: rest).length) (hw : ∀ cr ∈ (c0, r0) :: rest, cr.2.length = w)
    (hs : ∀ (k : Nat) (hk : k < ((c0, r0) :: rest).length), ((c0, r0) :: rest)[k].1 = if k = i then 1 else 0) :
    (rest.map fun cr => scaleI cr.1 cr.2).foldl addI (scaleI c0 r0) = ((c0, r0) :: rest)[i].2 := by
  have hw0 : r0.length = w := hw (c0, r0) List.mem_cons_self
  have hwr : ∀ cr ∈ rest, cr.2.length = w := fun cr hcr => hw cr (List.mem_cons_of_mem _ hcr)
  have h00 := hs 0 (by simp)
  simp only [List.getElem_cons_zero] at h00
  cases i with
  | zero =>
    simp only [if_true] at h00
    rw [h00, scaleI_one, List.getElem_cons_zero]
    refine foldl_addI_zero w rest r0 hw0 hwr ?_
    intro cr hcr
    obtain ⟨k, hk, rfl⟩ := List.mem_iff_getElem.mp hcr
    have := hs (k+1) (by simp only [List.length_cons]; omega)
    simpa using this
  | succ j =>
    rw [h00, if_neg (by omega), List.getElem_cons_succ]
    have hj : j < rest.length := by simpa using hi
    rw [foldl_addI_sel w rest _ j hj (by simp [scaleI, hw0]) hwr ?_]
    · exact scale_zero_addI _ _ (by rw [hw0, hwr _ (List.getElem_mem hj)])
    · intro k hk
      have := hs (k+1) (by simp only [List.length_cons]; omega)
      simpa using this

/-- **a row read at a secret index is that row**, element by element (rows of equal length `w`) -/
theorem rowRead_value {rows : List (List Val)} {it : LinComb} {r : List Val} {s s' : St} {w : Nat}
    (hi : s.ignoreErrors = false) (hn : ∀ row ∈ rows, NumRow row) (hw : ∀ row ∈ rows, row.length = w)
    (h : rowRead rows it s = .ok (r, s')) :
    0 ≤ it.value ∧ it.value < rows.length ∧ AllLc r ∧ Same s s' ∧
    ∃ (hj : it.value.toNat < rows.length), ivals r = ivals rows[it.value.toNat] := by
  unfold rowRead at h
  obtain ⟨ixs, s1, h1, h⟩ := bind_ok.mp h
  obtain ⟨h0, hlt, hl, hv⟩ := arrayIxs_value hi h1
  obtain ⟨hr, sm2, c0, r0, rest, hz, hrv⟩ := linCombRows_value hn h
  have hj : it.value.toNat < rows.length := by omega
  refine ⟨h0, hlt, hr, (arrayIxs_same h1).trans (Ext.same sm2), hj, ?_⟩
  -- the zipped list as integer pairs
  have hcrs : (ixs.zip rows).map (fun cr => ((cr.1.value, ivals cr.2) : Int × List Int)) =
      (c0.value, ivals r0) :: rest.map (fun cr => ((cr.1.value, ivals cr.2) : Int × List Int)) := by
    rw [hz]; rfl
  have hcl : ((ixs.zip rows).map (fun cr => ((cr.1.value, ivals cr.2) : Int × List Int))).length = rows.length := by
    simp [hl]
  have hfold : (rest.map fun cr => scaleI cr.1.value (ivals cr.2)) =
      ((rest.map fun cr => ((cr.1.value, ivals cr.2) : Int × List Int)).map fun cr => scaleI cr.1 cr.2) := by
    simp [List.map_map, Function.comp_def]
  rw [hrv, hfold]
  have key := linComb_sel w c0.value (ivals r0) (rest.map fun cr => ((cr.1.value, ivals cr.2) : Int × List Int))
    it.value.toNat (by rw [← hcrs, hcl]; exact hj)
    (by
      rw [← hcrs]
      intro cr hcr
      obtain ⟨x, hx, rfl⟩ := List.mem_map.mp hcr
      simpa using hw _ (List.of_mem_zip hx).2)
    (by
      intro k hk
      have hk0 : k < ((ixs.zip rows).map (fun cr => ((cr.1.value, ivals cr.2) : Int × List Int))).length := by
        rw [hcrs]; exact hk
      have hk' : k < ixs.length := by rw [hl, ← hcl]; exact hk0
      have e : ((c0.value, ivals r0) :: rest.map (fun cr => ((cr.1.value, ivals cr.2) : Int × List Int)))[k] =
          ((ixs.zip rows).map (fun cr => ((cr.1.value, ivals cr.2) : Int × List Int)))[k] := by
        simp only [hcrs]
      rw [e]
      simp only [List.getElem_map, List.getElem_zip]
      rw [hv k hk']
      by_cases e : k = it.value.toNat
      · simp [e, Int.toNat_of_nonneg h0]
      · have : ¬ it.value = (k : Int) := fun e' => e ((toNat_sel h0 k).mp e')
        simp [e, this])
  rw [key]
  have e : ((c0.value, ivals r0) :: rest.map (fun cr => ((cr.1.value, ivals cr.2) : Int × List Int)))[it.value.toNat]'(by
        rw [← hcrs, hcl]; exact hj) =
      ((ixs.zip rows).map (fun cr => ((cr.1.value, ivals cr.2) : Int × List Int)))[it.value.toNat]'(by rw [hcl]; exact hj) := by
    simp only [hcrs]
  rw [e]
  simp

/-! ## the store loop -/

theorem rowsIte_value {vals : List Val} (hv : NumRow vals) : ∀ (l : List (LinComb × Bool × List Val))
    {res : List (List Val)} {s s' : St}, (∀ x ∈ l, NumRow x.2.2) → rowsIte vals l s = .ok (res, s') →
    (∀ r ∈ res, NumRow r) ∧ Ext s s' ∧
    res.map ivals = l.map (fun x => if x.2.1 then ivals x.2.2 else iteI x.1.value (ivals vals) (ivals x.2.2))
  | [], res, s, s', _, h => by
    unfold rowsIte at h
    obtain ⟨rfl, rfl⟩ := pure_ok.mp h
    exact ⟨fun r hr => by simp at hr, Ext.refl _, rfl⟩
  | (c, same, row) :: l, res, s, s', hn, h => by
    unfold rowsIte at h
    obtain ⟨r, s1, h1, h⟩ := bind_ok.mp h
    obtain ⟨rs, s2, h2, h⟩ := bind_ok.mp h
    obtain ⟨rfl, rfl⟩ := pure_ok.mp h
    obtain ⟨hrs, sm2, hvs⟩ := rowsIte_value hv l (fun x hx => hn x (List.mem_cons_of_mem _ hx)) h2
    have hrow : NumRow row := hn (c, same, row) List.mem_cons_self
    have h1' : NumRow r ∧ Ext s s1 ∧ ivals r = if same then ivals row else iteI c.value (ivals vals) (ivals row) := by
      cases same with
      | true =>
        simp only [if_true] at h1
        obtain ⟨rfl, rfl⟩ := pure_ok.mp h1
        exact ⟨hrow, Ext.refl _, by simp⟩
      | false =>
        simp only [Bool.false_eq_true, if_false] at h1
        obtain ⟨ha, hb, sm⟩ := iteRow_value hv hrow h1
        exact ⟨AllLc.num ha, sm, by simpa using hb⟩
    refine ⟨?_, h1'.2.1.trans sm2, by simp only [List.map_cons, h1'.2.2, hvs]⟩
    intro x hx
    rcases List.mem_cons.mp hx with rfl | hx
    · exact h1'.1
    · exact hrs x hx

/-- **a row stored at a secret index replaces exactly that row**: same number of rows; row `it.value` holds the stored
values, every other row the values it held (rows of equal length `w`; a row flagged as being the stored object holds
the stored values already) -/
theorem rowsWrite_value {rows : List (Bool × List Val)} {it : LinComb} {vals : List Val} {res : List (List Val)}
    {s s' : St} {w : Nat} (hi : s.ignoreErrors = false) (hv : NumRow vals) (hvw : vals.length = w)
    (hn : ∀ x ∈ rows, NumRow x.2) (hw : ∀ x ∈ rows, x.2.length = w)
    (hsame : ∀ x ∈ rows, x.1 = true → x.2 = vals) (h : rowsWrite rows it vals s = .ok (res, s')) :
    0 ≤ it.value ∧ it.value < rows.length ∧ res.length = rows.length ∧ (∀ r ∈ res, NumRow r) ∧ Same s s' ∧
    ∀ (k : Nat) (h1 : k < rows.length) (h2 : k < res.length),
      ivals res[k] = if k = it.value.toNat then ivals vals else ivals rows[k].2 := by
  unfold rowsWrite at h
  obtain ⟨ixs, s1, h1, h⟩ := bind_ok.mp h
  obtain ⟨h0, hlt, hl, hvv⟩ := arrayIxs_value hi h1
  obtain ⟨hnum, sm2, hmap⟩ := rowsIte_value hv (ixs.zip rows) (fun x hx => hn _ (List.of_mem_zip hx).2) h
  have hlen : res.length = rows.length := by
    have := congrArg List.length hmap
    simpa [hl] using this
  refine ⟨h0, hlt, hlen, hnum, (arrayIxs_same h1).trans (Ext.same sm2), ?_⟩
  intro k hk1 hk2
  have hk3 : k < ixs.length := by rw [hl]; exact hk1
  have e1 : (res.map ivals)[k]'(by simpa using hk2) = ivals res[k] := by simp
  rw [← e1]
  simp only [hmap, List.getElem_map, List.getElem_zip]
  have hrow := hw _ (List.getElem_mem hk1)
  by_cases hs : rows[k].1 = true
  · rw [if_pos hs, hsame _ (List.getElem_mem hk1) hs]
    simp
  · rw [if_neg hs, hvv k hk3]
    by_cases e : k = it.value.toNat
    · have : it.value = (k : Int) := by rw [e, Int.toNat_of_nonneg h0]
      rw [if_pos this, if_pos e, iteI_one _ _ (by simp [hvw, hrow])]
    · have : ¬ it.value = (k : Int) := fun e' => e ((toNat_sel h0 k).mp e')
      rw [if_neg this, if_neg e, iteI_zero _ _ (by simp [hvw, hrow])]

/-! ## agreement of one access with the list-of-lists reference -/

/-- the reference's view of an index value: secret (its Python-level integer) or plain -/
def absIdx : Val → SIx
  | .lc x => (true, x.value)
  | v => (false, v.ival)

theorem pos_plain {n : Nat} {i : Int} : pos n (false, i) = match pyIndex n i with | some k => .ok k | Option.none => .error .index := rfl

theorem pos_secret {n : Nat} {i : Int} (h0 : 0 ≤ i) (h1 : i < n) : pos n (true, i) = .ok i.toNat := by
  simp [pos, h0, h1]

theorem pos_lt {n : Nat} {ix : SIx} {k : Nat} (h : pos n ix = .ok k) : k < n := by
  obtain ⟨sec, i⟩ := ix
  cases sec with
  | true =>
    simp only [pos, if_true] at h
    split at h
    · rename_i hc
      cases h
      omega
    · cases h
  | false =>
    simp only [pos, Bool.false_eq_true, if_false] at h
    split at h
    · rename_i k' hk
      cases h
      unfold pyIndex at hk
      split at hk
      · rename_i hc
        simp only [Bool.and_eq_true, decide_eq_true_eq] at hc
        cases hk
        omega
      · split at hk
        · rename_i hc
          simp only [Bool.and_eq_true, decide_eq_true_eq] at hc
          cases hk
          omega
        · cases hk
    · cases h

theorem nth_ok {α : Type} {xs : List α} {k : Nat} (hk : k < xs.length) : nth xs k = .ok xs[k] := by
  simp [nth, List.getElem?_eq_getElem hk]

/-- **one-dimensional read, any index kind**: the position is the one list indexing selects, the value read is the
element's -/
theorem arrayGet_pos {arr : List Val} {item r : Val} {s s' : St} (hi : s.ignoreErrors = false)
    (harr : NumRow arr) (h : arrayGet arr item s = .ok (r, s')) :
    ∃ k, pos arr.length (absIdx item) = .ok k ∧ ∃ (hk : k < arr.length), r.ival = arr[k].ival ∧ r.isNum = true ∧
      Same s s' := by
  have hsm := arrayGet_same harr h
  cases item with
  | int i =>
    unfold arrayGet at h
    simp only at h
    cases hk : pyIndex arr.length i with
    | none => simp only [hk] at h; exact (raise_ok.mp h).elim
    | some k =>
      simp only [hk] at h
      cases hv : arr[k]? with
      | none => simp only [hv] at h; exact (raise_ok.mp h).elim
      | some v =>
        simp only [hv] at h
        obtain ⟨rfl, -⟩ := pure_ok.mp h
        obtain ⟨hlt, rfl⟩ := List.getElem?_eq_some_iff.mp hv
        exact ⟨k, by simp [absIdx, pos_plain, hk], hlt, rfl, harr _ (List.getElem_mem hlt), hsm⟩
  | lc it =>
    obtain ⟨h0, h1, ⟨y, rfl⟩, hj, hv⟩ := arrayGet_value hi harr h
    exact ⟨it.value.toNat, pos_secret h0 h1, hj, hv, rfl, hsm⟩
  | _ => unfold arrayGet at h; exact (raise_ok.mp h).elim

/-- **one-dimensional write, any index kind**: exactly the selected position takes the new value -/
theorem arraySet_pos {arr arr' : List Val} {item v : Val} {s s' : St} (hi : s.ignoreErrors = false)
    (harr : NumRow arr) (hv : v.isNum = true) (h : arraySet arr item v s = .ok (arr', s')) :
    ∃ k, pos arr.length (absIdx item) = .ok k ∧ k < arr.length ∧ NumRow arr' ∧
      ivals arr' = (ivals arr).set k v.ival ∧ Same s s' := by
  have hsm := arraySet_same harr hv h
  cases item with
  | int i =>
    unfold arraySet at h
    simp only at h
    cases hk : pyIndex arr.length i with
    | none => simp only [hk] at h; exact (raise_ok.mp h).elim
    | some k =>
      simp only [hk] at h
      obtain ⟨rfl, -⟩ := pure_ok.mp h
      have hp : pos arr.length (absIdx (.int i)) = .ok k := by simp [absIdx, pos_plain, hk]
      refine ⟨k, hp, pos_lt hp, ?_, by simp [ivals, List.map_set], hsm⟩
      intro x hx
      rcases List.mem_or_eq_of_mem_set hx with hx | rfl
      · exact harr x hx
      · exact hv
  | lc it =>
    obtain ⟨h0, h1, hl, hp⟩ := arraySet_value hi harr hv h
    refine ⟨it.value.toNat, pos_secret h0 h1, by omega, ?_, ?_, hsm⟩
    · intro x hx
      obtain ⟨k, hk, rfl⟩ := List.mem_iff_getElem.mp hx
      exact (hp k (by omega) hk).1
    · apply List.ext_getElem
      · simp [hl]
      · intro k hk1 hk2
        have hka : k < arr.length := by simpa [hl] using hk1
        have hkb : k < arr'.length := by simpa using hk1
        simp only [ivals, List.getElem_map, List.getElem_set]
        rw [(hp k hka hkb).2]
        by_cases e : (k : Int) = it.value
        · have : it.value.toNat = k := by omega
          simp [e, this]
        · have : ¬ it.value.toNat = k := by omega
          simp [e, this]
  | _ => unfold arraySet at h; exact (raise_ok.mp h).elim

/-- **a row read**, any index kind: the row list indexing selects, element by element -/
theorem rowGet_pos {rows : List (List Val)} {i : Val} {r : List Val} {s s' : St} {w : Nat}
    (hi : s.ignoreErrors = false) (hn : ∀ row ∈ rows, NumRow row) (hw : ∀ row ∈ rows, row.length = w)
    (h : rowGet rows i s = .ok (r, s')) :
    ∃ a, pos rows.length (absIdx i) = .ok a ∧ ∃ (ha : a < rows.length), ivals r = ivals rows[a] ∧ NumRow r ∧
      r.length = w ∧ Same s s' := by
  cases i with
  | int k =>
    unfold rowGet at h
    simp only at h
    cases hk : pyIndex rows.length k with
    | none => simp only [hk] at h; exact (raise_ok.mp h).elim
    | some n =>
      simp only [hk] at h
      cases hv : rows[n]? with
      | none => simp only [hv] at h; exact (raise_ok.mp h).elim
      | some v =>
        simp only [hv] at h
        obtain ⟨rfl, rfl⟩ := pure_ok.mp h
        obtain ⟨hlt, rfl⟩ := List.getElem?_eq_some_iff.mp hv
        exact ⟨n, by simp [absIdx, pos_plain, hk], hlt, rfl, hn _ (List.getElem_mem hlt), hw _ (List.getElem_mem hlt),
          Same.refl _⟩
  | lc it =>
    obtain ⟨h0, h1, hr, hsm, hj, hv⟩ := rowRead_value hi hn hw h
    refine ⟨it.value.toNat, pos_secret h0 h1, hj, hv, AllLc.num hr, ?_, hsm⟩
    have := congrArg List.length hv
    simpa [hw _ (List.getElem_mem hj)] using this
  | _ => unfold rowGet at h; exact (raise_ok.mp h).elim

/-! ## `a[i, j]` and `a[i, j] = v` against the list-of-lists reference -/

/-- the integers of a matrix -/
def imat (rows : List (List Val)) : List (List Int) := rows.map ivals

@[simp] theorem imat_length (rows : List (List Val)) : (imat rows).length = rows.length := by simp [imat]
@[simp] theorem imat_getElem (rows : List (List Val)) (k : Nat) (hk : k < (imat rows).length) :
    (imat rows)[k] = ivals (rows[k]'(by simpa using hk)) := by simp [imat]

theorem pGet_eq {m : List (List Int)} {i j : SIx} {a b : Nat} (ha : pos m.length i = .ok a) (ha' : a < m.length)
    (hb : pos m[a].length j = .ok b) (hb' : b < m[a].length) : pGet m i j = .ok m[a][b] := by
  simp only [pGet, ha, nth_ok ha', hb, nth_ok hb', bind, Except.bind]

theorem pSet_eq {m : List (List Int)} {i j : SIx} {a b : Nat} {x : Int} (ha : pos m.length i = .ok a)
    (ha' : a < m.length) (hb : pos m[a].length j = .ok b) : pSet m i j x = .ok (m.set a (m[a].set b x)) := by
  simp only [pSet, ha, nth_ok ha', hb, bind, Except.bind, pure, Except.pure]

/-- **reading `a[i, j]`** (each component a plain int or a secret): the model returns a value carrying exactly the
integer that `m[i][j]` gives on the list of lists — in particular both components are in range -/
theorem matGet_ref {rows : List (List Val)} {i j r : Val} {s s' : St} {w : Nat}
    (hi : s.ignoreErrors = false) (hn : ∀ row ∈ rows, NumRow row) (hw : ∀ row ∈ rows, row.length = w)
    (h : matGet rows i j s = .ok (r, s')) :
    pGet (imat rows) (absIdx i) (absIdx j) = .ok r.ival ∧ r.isNum = true ∧ Same s s' := by
  unfold matGet at h
  obtain ⟨r0, s1, h1, h⟩ := bind_ok.mp h
  obtain ⟨a, hpa, ha, hv0, hn0, hl0, sm1⟩ := rowGet_pos hi hn hw h1
  obtain ⟨b, hpb, hb, hvb, hnum, sm2⟩ := arrayGet_pos (sm1.ign_false hi) hn0 h
  refine ⟨?_, hnum, sm1.trans sm2⟩
  have hla : rows[a].length = r0.length := by rw [hl0, hw _ (List.getElem_mem ha)]
  rw [pGet_eq (a := a) (b := b) (by simpa using hpa) (by simpa using ha)
    (by simpa [hla] using hpb) (by simpa [hla] using hb)]
  congr 1
  rw [hvb]
  have : (ivals r0)[b]'(by simpa using hb) = (ivals rows[a])[b]'(by simpa [hla] using hb) := by simp only [hv0]
  simpa [ivals] using this.symm

/-- **writing `a[i, j] = v`**: the matrix the model ends with carries exactly the integers of `m[i][j] = v` on the
list of lists: that element replaced, every other element and the shape unchanged -/
theorem matSet_ref {rows res : List (List Val)} {i j v : Val} {s s' : St} {w : Nat}
    (hi : s.ignoreErrors = false) (hn : ∀ row ∈ rows, NumRow row) (hw : ∀ row ∈ rows, row.length = w)
    (hv : v.isNum = true) (h : matSet rows i j v s = .ok (res, s')) :
    pSet (imat rows) (absIdx i) (absIdx j) v.ival = .ok (imat res) ∧ (∀ row ∈ res, NumRow row) ∧
    (∀ row ∈ res, row.length = w) ∧ Same s s' := by
  cases i with
  | int k =>
    unfold matSet at h
    simp only at h
    cases hk : pyIndex rows.length k with
    | none => simp only [hk] at h; exact (raise_ok.mp h).elim
    | some n =>
      simp only [hk] at h
      cases hr : rows[n]? with
      | none => simp only [hr] at h; exact (raise_ok.mp h).elim
      | some r =>
        simp only [hr] at h
        obtain ⟨r', s1, h1, h⟩ := bind_ok.mp h
        obtain ⟨rfl, rfl⟩ := pure_ok.mp h
        obtain ⟨hlt, rfl⟩ := List.getElem?_eq_some_iff.mp hr
        obtain ⟨b, hpb, hb, hn', hv', sm⟩ := arraySet_pos hi (hn _ (List.getElem_mem hlt)) hv h1
        have hpa : pos (imat rows).length (absIdx (.int k)) = .ok n := by simp [absIdx, pos_plain, hk]
        have hl' : r'.length = w := by
          have := congrArg List.length hv'
          simpa [hw _ (List.getElem_mem hlt)] using this
        refine ⟨?_, ?_, ?_, sm⟩
        · rw [pSet_eq (a := n) (b := b) hpa (by simpa using hlt) (by simpa using hpb)]
          simp [imat, List.map_set, hv']
        · intro row hrow
          rcases List.mem_or_eq_of_mem_set hrow with hrow | rfl
          · exact hn row hrow
          · exact hn'
        · intro row hrow
          rcases List.mem_or_eq_of_mem_set hrow with hrow | rfl
          · exact hw row hrow
          · exact hl'
  | lc it =>
    unfold matSet at h
    simp only at h
    obtain ⟨r0, s1, h1, h⟩ := bind_ok.mp h
    obtain ⟨r', s2, h2, h⟩ := bind_ok.mp h
    obtain ⟨h0, hlt, hr0, sm1, hj, hv0⟩ := rowRead_value hi hn hw h1
    have hl0 : r0.length = w := by
      have := congrArg List.length hv0
      simpa [hw _ (List.getElem_mem hj)] using this
    obtain ⟨b, hpb, hb, hn', hv', sm2⟩ := arraySet_pos (sm1.ign_false hi) (AllLc.num hr0) hv h2
    have hl' : r'.length = w := by
      have := congrArg List.length hv'
      simpa [hl0] using this
    obtain ⟨-, -, hlen, hnum, sm3, hp⟩ := rowsWrite_value (w := w) ((sm1.trans sm2).ign_false hi) hn' hl'
      (by
        intro x hx
        obtain ⟨y, hy, rfl⟩ := List.mem_map.mp hx
        exact hn y hy)
      (by
        intro x hx
        obtain ⟨y, hy, rfl⟩ := List.mem_map.mp hx
        exact hw y hy)
      (by
        intro x hx hx1
        obtain ⟨y, hy, rfl⟩ := List.mem_map.mp hx
        simp at hx1) h
    have hlen' : res.length = rows.length := by simpa using hlen
    have hpa : pos (imat rows).length (absIdx (.lc it)) = .ok it.value.toNat := by
      simpa [absIdx] using pos_secret h0 hlt
    have hla : rows[it.value.toNat].length = r0.length := by rw [hl0, hw _ (List.getElem_mem hj)]
    refine ⟨?_, hnum, ?_, (sm1.trans sm2).trans sm3⟩
    · rw [pSet_eq (a := it.value.toNat) (b := b) hpa (by simpa using hj) (by simpa [hla] using hpb)]
      congr 1
      apply List.ext_getElem
      · simp [hlen']
      · intro k hk1 hk2
        have hka : k < rows.length := by simpa using hk1
        have hkb : k < res.length := by simpa using hk2
        have := hp k (by simpa using hka) hkb
        simp only [List.getElem_map] at this
        simp only [imat_getElem, List.getElem_set]
        rw [this, hv', hv0]
        by_cases e : it.value.toNat = k
        · subst e; simp
        · have e' : ¬ k = it.value.toNat := fun x => e x.symm
          simp [e, e']
    · intro row hrow
      obtain ⟨k, hk, rfl⟩ := List.mem_iff_getElem.mp hrow
      have hka : k < rows.length := by omega
      have := hp k (by simpa using hka) hk
      have hlen2 := congrArg List.length this
      simp only [List.getElem_map, ivals_length] at hlen2
      by_cases e : k = it.value.toNat
      · simpa [e, hl'] using hlen2
      · simpa [e, hw _ (List.getElem_mem hka)] using hlen2
  | _ => unfold matSet at h; exact (raise_ok.mp h).elim

/-- **a row read at a secret index equals that row**, element by element (`a[i]`, the `ArrayRow` contents) -/
theorem rowRead_ref {rows : List (List Val)} {it : LinComb} {r : List Val} {s s' : St} {w : Nat}
    (hi : s.ignoreErrors = false) (hn : ∀ row ∈ rows, NumRow row) (hw : ∀ row ∈ rows, row.length = w)
    (h : rowRead rows it s = .ok (r, s')) :
    ∃ (hj : it.value.toNat < rows.length), 0 ≤ it.value ∧ it.value < rows.length ∧ r.length = w ∧
      (∀ (b : Nat) (h1 : b < r.length) (h2 : b < rows[it.value.toNat].length),
        (∃ y, r[b] = .lc y) ∧ r[b].ival = rows[it.value.toNat][b].ival) ∧ Same s s' := by
  obtain ⟨h0, hlt, hr, sm, hj, hv⟩ := rowRead_value hi hn hw h
  have hl : r.length = w := by
    have := congrArg List.length hv
    simpa [hw _ (List.getElem_mem hj)] using this
  refine ⟨hj, h0, hlt, hl, ?_, sm⟩
  intro b h1 h2
  refine ⟨hr _ (List.getElem_mem h1), ?_⟩
  have : (ivals r)[b]'(by simpa using h1) = (ivals rows[it.value.toNat])[b]'(by simpa using h2) := by simp only [hv]
  simpa [ivals] using this

/-! ## out-of-range components raise -/

theorem rowRead_oob {rows : List (List Val)} {it : LinComb} {s : St} (hi : s.ignoreErrors = false)
    (h : it.value < 0 ∨ it.value ≥ rows.length) : rowRead rows it s = .error .index := by
  unfold rowRead arrayIxs
  change M.bind (M.bind _ _) _ _ = _
  unfold M.bind
  rw [arrayCheck_reject hi h]

theorem bind_error {α β : Type} {m : M α} {f : α → M β} {s : St} {e : Err} (h : m s = .error e) :
    (m >>= f) s = .error e := by
  change M.bind m f s = _
  unfold M.bind
  rw [h]

theorem bind_ok_eq {α β : Type} {m : M α} {f : α → M β} {s s1 : St} {a : α} (h : m s = .ok (a, s1)) :
    (m >>= f) s = f a s1 := by
  change M.bind m f s = _
  unfold M.bind
  rw [h]

/-- a secret ROW index outside the matrix: `IndexError`, for reads and writes -/
theorem mat_oob_row {rows : List (List Val)} {it : LinComb} {j v : Val} {s : St} (hi : s.ignoreErrors = false)
    (h : it.value < 0 ∨ it.value ≥ rows.length) :
    matGet rows (.lc it) j s = .error .index ∧ matSet rows (.lc it) j v s = .error .index := by
  constructor
  · unfold matGet rowGet
    exact bind_error (rowRead_oob hi h)
  · unfold matSet
    exact bind_error (rowRead_oob hi h)

/-- a secret COLUMN index outside the row selected by the first component: `IndexError`, for reads and writes -/
theorem mat_oob_col {rows : List (List Val)} {i v : Val} {jt : LinComb} {r0 : List Val} {s s1 : St}
    (h1 : rowGet rows i s = .ok (r0, s1)) (hi : s1.ignoreErrors = false)
    (h : jt.value < 0 ∨ jt.value ≥ r0.length) :
    matGet rows i (.lc jt) s = .error .index ∧ matSet rows i (.lc jt) v s = .error .index := by
  constructor
  · unfold matGet
    rw [bind_ok_eq h1]
    exact arrayGet_oob hi h
  · cases i with
    | int k =>
      unfold rowGet at h1
      simp only at h1
      unfold matSet
      simp only
      cases hk : pyIndex rows.length k with
      | none => simp only [hk] at h1; exact (raise_ok.mp h1).elim
      | some n =>
        simp only [hk] at h1 ⊢
        cases hr : rows[n]? with
        | none => simp only [hr] at h1; exact (raise_ok.mp h1).elim
        | some r =>
          simp only [hr] at h1 ⊢
          obtain ⟨rfl, rfl⟩ := pure_ok.mp h1
          exact bind_error (arraySet_oob hi h)
    | lc it =>
      unfold rowGet at h1
      simp only at h1
      unfold matSet
      simp only
      rw [bind_ok_eq h1]
      exact bind_error (arraySet_oob hi h)
    | _ => unfold rowGet at h1; exact (raise_ok.mp h1).elim

end A2
end Pysnark
