import PysnarkModel.Lemmas.Array2D
import PysnarkModel.Lemmas.Triple
import PysnarkModel.Lemmas.Bits
/-!
# Two-dimensional array histories (C15): the model against nested Python lists

`abs` forgets wires: every element becomes its Python-level integer, every index object its (secret?, value) pair.
`step_sim`: one event of `Model/Array2D.lean`, run with error checks on and no guard active, that completes in the
model completes in the reference semantics `Spec/Array2D.lean` (`sstep`) with the abstraction of the model's result;
`run_sim`: histories.  `WF`: every row object has the same length and holds plain ints or `LinComb`s; object numbers in
use exist.
-/
namespace Pysnark
namespace A2

def absRow (r : Row) : SRow := ⟨ivals r.arr, r.ro⟩

def absSlot : Slot → SSlot
  | .scalar v => .scalar v.ival
  | .row id => .row id

/-- the list-of-lists state a model state stands for -/
def abs (a : Mat) : SMat :=
  { heap := a.heap.map absRow, mat := a.mat,
    idx := a.idx.map (fun kv => (kv.1, absIdx kv.2)), vars := a.vars.map (fun kv => (kv.1, absSlot kv.2)) }

/-- **the matrix of the model as a list of lists of integers** -/
def Mat.matrix (a : Mat) : List (List Int) := imat a.contents

structure WF (w : Nat) (a : Mat) : Prop where
  num : ∀ r ∈ a.heap, NumRow r.arr
  width : ∀ r ∈ a.heap, r.arr.length = w
  matIn : ∀ id ∈ a.mat, id < a.heap.length
  varIn : ∀ kv ∈ a.vars, ∀ id, kv.2 = .row id → id < a.heap.length
  idxOk : ∀ kv ∈ a.idx, (∃ i, kv.2 = .int i) ∨ (∃ x, kv.2 = .lc x)

/-! ## abstraction commutes with the state operations -/

theorem abs_row (a : Mat) (id : Nat) : (abs a).row id = absRow (a.row id) := by
  simp only [SMat.row, Mat.row, abs, List.getD_eq_getElem?_getD, List.getElem?_map]
  cases a.heap[id]? <;> rfl

theorem abs_row_vals (a : Mat) (id : Nat) : ((abs a).row id).vals = ivals (a.row id).arr := by
  rw [abs_row]; rfl

theorem abs_row_ro (a : Mat) (id : Nat) : ((abs a).row id).ro = (a.row id).ro := by
  rw [abs_row]; rfl

theorem abs_matrix (a : Mat) : (abs a).matrix = a.matrix := by
  simp only [SMat.matrix, Mat.matrix, imat, Mat.contents, Mat.rows, List.map_map]
  apply List.map_congr_left
  intro id _
  simp [abs_row_vals]

theorem abs_alloc (a : Mat) (r : Row) :
    (a.alloc r).1 = ((abs a).alloc (absRow r)).1 ∧ abs (a.alloc r).2 = ((abs a).alloc (absRow r)).2 := by
  simp [Mat.alloc, SMat.alloc, abs]

theorem abs_setVar (a : Mat) (v : Nat) (x : Slot) : abs (a.setVar v x) = (abs a).setVar v (absSlot x) := by
  simp [Mat.setVar, SMat.setVar, abs]

theorem abs_setArr (a : Mat) (id : Nat) (arr : List Val) :
    abs (a.setArr id arr) = (abs a).setVals id (ivals arr) := by
  unfold Mat.setArr SMat.setVals
  rw [abs_row_ro]
  simp [abs, List.map_set, absRow]

theorem lookup_map {α β : Type} (f : α → β) : ∀ (l : List (Nat × α)) (k : Nat),
    lookup (l.map fun kv => (kv.1, f kv.2)) k = (lookup l k).map f
  | [], _ => rfl
  | (k', v) :: t, k => by
    simp only [List.map_cons, lookup]
    split
    · rfl
    · exact lookup_map f t k

theorem lookup_mem {α : Type} : ∀ {l : List (Nat × α)} {k : Nat} {v : α}, lookup l k = some v → (k, v) ∈ l
  | [], _, _, h => by simp [lookup] at h
  | (k', v') :: t, k, v, h => by
    simp only [lookup] at h
    split at h
    · rename_i e
      cases h
      subst e
      exact List.mem_cons_self
    · exact List.mem_cons_of_mem _ (lookup_mem h)

theorem row_mem {a : Mat} {id : Nat} (h : id < a.heap.length) : a.row id ∈ a.heap := by
  simp only [Mat.row, List.getD_eq_getElem?_getD, List.getElem?_eq_getElem h, Option.getD_some]
  exact List.getElem_mem h

theorem WF.rowNum {w : Nat} {a : Mat} (h : WF w a) {id : Nat} (hid : id < a.heap.length) : NumRow (a.row id).arr :=
  h.num _ (row_mem hid)
theorem WF.rowWidth {w : Nat} {a : Mat} (h : WF w a) {id : Nat} (hid : id < a.heap.length) :
    (a.row id).arr.length = w := h.width _ (row_mem hid)

theorem WF.contentsNum {w : Nat} {a : Mat} (h : WF w a) : ∀ row ∈ a.contents, NumRow row := by
  intro row hrow
  simp only [Mat.contents, Mat.rows, List.map_map, List.mem_map] at hrow
  obtain ⟨id, hid, rfl⟩ := hrow
  exact h.rowNum (h.matIn id hid)

theorem WF.contentsWidth {w : Nat} {a : Mat} (h : WF w a) : ∀ row ∈ a.contents, row.length = w := by
  intro row hrow
  simp only [Mat.contents, Mat.rows, List.map_map, List.mem_map] at hrow
  obtain ⟨id, hid, rfl⟩ := hrow
  exact h.rowWidth (h.matIn id hid)

theorem contents_length (a : Mat) : a.contents.length = a.mat.length := by simp [Mat.contents, Mat.rows]

theorem contents_getElem (a : Mat) (k : Nat) (hk : k < a.contents.length) :
    a.contents[k] = (a.row (a.mat[k]'(by simpa [contents_length] using hk))).arr := by
  simp [Mat.contents, Mat.rows]

/-- allocation keeps what exists -/
theorem WF.alloc {w : Nat} {a : Mat} (h : WF w a) {r : Row} (hn : NumRow r.arr) (hw : r.arr.length = w) :
    WF w (a.alloc r).2 where
  num := by
    intro x hx
    simp only [Mat.alloc, List.mem_append, List.mem_singleton] at hx
    rcases hx with hx | rfl
    · exact h.num x hx
    · exact hn
  width := by
    intro x hx
    simp only [Mat.alloc, List.mem_append, List.mem_singleton] at hx
    rcases hx with hx | rfl
    · exact h.width x hx
    · exact hw
  matIn := by
    intro id hid
    have := h.matIn id hid
    simp only [Mat.alloc, List.length_append, List.length_singleton]
    omega
  varIn := by
    intro kv hkv id hid
    have := h.varIn kv hkv id hid
    simp only [Mat.alloc, List.length_append, List.length_singleton]
    omega
  idxOk := h.idxOk

theorem alloc_row_old {a : Mat} {r : Row} {id : Nat} (hid : id < a.heap.length) : (a.alloc r).2.row id = a.row id := by
  simp [Mat.alloc, Mat.row, List.getD_eq_getElem?_getD, List.getElem?_append_left hid]

theorem alloc_row_new (a : Mat) (r : Row) : (a.alloc r).2.row (a.alloc r).1 = r := by
  simp [Mat.alloc, Mat.row, List.getD_eq_getElem?_getD]

theorem WF.setVarRow {w : Nat} {a : Mat} (h : WF w a) (v : Nat) {id : Nat} (hid : id < a.heap.length) :
    WF w (a.setVar v (.row id)) where
  num := h.num
  width := h.width
  matIn := h.matIn
  varIn := by
    intro kv hkv id' hid'
    simp only [Mat.setVar, List.mem_cons] at hkv
    rcases hkv with rfl | hkv
    · simp only [Slot.row.injEq] at hid'
      subst hid'
      exact hid
    · exact h.varIn kv hkv id' hid'
  idxOk := h.idxOk

theorem WF.setVarScalar {w : Nat} {a : Mat} (h : WF w a) (v : Nat) (x : Val) : WF w (a.setVar v (.scalar x)) where
  num := h.num
  width := h.width
  matIn := h.matIn
  varIn := by
    intro kv hkv id' hid'
    simp only [Mat.setVar, List.mem_cons] at hkv
    rcases hkv with rfl | hkv
    · cases hid'
    · exact h.varIn kv hkv id' hid'
  idxOk := h.idxOk

theorem WF.setArr {w : Nat} {a : Mat} (h : WF w a) (id : Nat) {arr : List Val} (hn : NumRow arr)
    (hw : arr.length = w) : WF w (a.setArr id arr) where
  num := by
    intro x hx
    simp only [Mat.setArr] at hx
    rcases List.mem_or_eq_of_mem_set hx with hx | rfl
    · exact h.num x hx
    · exact hn
  width := by
    intro x hx
    simp only [Mat.setArr] at hx
    rcases List.mem_or_eq_of_mem_set hx with hx | rfl
    · exact h.width x hx
    · exact hw
  matIn := by intro id' hid'; simpa [Mat.setArr] using h.matIn id' hid'
  varIn := by intro kv hkv id' hid'; simpa [Mat.setArr] using h.varIn kv hkv id' hid'
  idxOk := h.idxOk

theorem WF.setMat {w : Nat} {a : Mat} (h : WF w a) {m : List Nat} (hm : ∀ id ∈ m, id < a.heap.length) :
    WF w { a with mat := m } where
  num := h.num
  width := h.width
  matIn := hm
  varIn := h.varIn
  idxOk := h.idxOk

/-! ## index objects -/

theorem evalIx_sim {w : Nat} {a : Mat} {ix : Ix} {v : Val} {s s' : St} (hwf : WF w a)
    (h : evalIx a ix s = .ok (v, s')) :
    sIx (abs a) ix = .ok (absIdx v) ∧ Same s s' ∧ ((∃ i, v = .int i) ∨ (∃ x, v = .lc x)) := by
  cases ix with
  | p i =>
    unfold evalIx at h
    obtain ⟨rfl, rfl⟩ := pure_ok.mp h
    exact ⟨rfl, Same.refl _, Or.inl ⟨i, rfl⟩⟩
  | s i =>
    unfold evalIx at h
    obtain ⟨x, s1, h1, h⟩ := bind_ok.mp h
    obtain ⟨rfl, rfl⟩ := pure_ok.mp h
    obtain ⟨sm, hv⟩ := privVal_val h1
    exact ⟨by simp [sIx, absIdx, hv], sm, Or.inr ⟨x, rfl⟩⟩
  | n k =>
    unfold evalIx at h
    cases hl : lookup a.idx k with
    | none => simp only [hl] at h; exact (raise_ok.mp h).elim
    | some v' =>
      simp only [hl] at h
      obtain ⟨rfl, rfl⟩ := pure_ok.mp h
      refine ⟨?_, Same.refl _, hwf.idxOk _ (lookup_mem hl)⟩
      simp only [sIx, abs, lookup_map, hl, Option.map_some]

theorem slotRow_sim {w : Nat} {a : Mat} {v id : Nat} {s s' : St} (hwf : WF w a)
    (h : slotRow a v s = .ok (id, s')) : sSlotRow (abs a) v = .ok id ∧ s = s' ∧ id < a.heap.length := by
  unfold slotRow at h
  cases hl : lookup a.vars v with
  | none => simp only [hl] at h; exact (raise_ok.mp h).elim
  | some x =>
    cases x with
    | scalar y => simp only [hl] at h; exact (raise_ok.mp h).elim
    | row id' =>
      simp only [hl] at h
      obtain ⟨rfl, rfl⟩ := pure_ok.mp h
      refine ⟨?_, rfl, hwf.varIn _ (lookup_mem hl) _ rfl⟩
      simp only [sSlotRow, abs, lookup_map, hl, Option.map_some]
      rfl

/-! ## `m[i]` -/

theorem outerGet_sim {w : Nat} {a : Mat} {i : Val} {ref : RowRef} {s s' : St} (hi : s.ignoreErrors = false)
    (hwf : WF w a) (h : outerGet a i s = .ok (ref, s')) :
    ∃ k id, sOuterGet (abs a) (absIdx i) = .ok (k, id) ∧ a.mat[k]? = some id ∧ id < a.heap.length ∧ Same s s' ∧
      NumRow (a.deref ref) ∧ (a.deref ref).length = w ∧ ivals (a.deref ref) = ivals (a.row id).arr ∧
      (((absIdx i).1 = false ∧ ref = .obj id) ∨ ((absIdx i).1 = true ∧ ∃ arr, ref = .view arr)) := by
  cases i with
  | int n =>
    unfold outerGet at h
    simp only at h
    cases hk : pyIndex a.mat.length n with
    | none => simp only [hk] at h; exact (raise_ok.mp h).elim
    | some k =>
      simp only [hk] at h
      cases hm : a.mat[k]? with
      | none => simp only [hm] at h; exact (raise_ok.mp h).elim
      | some id =>
        simp only [hm] at h
        obtain ⟨rfl, rfl⟩ := pure_ok.mp h
        have hid : id < a.heap.length := hwf.matIn id (List.mem_of_getElem? hm)
        refine ⟨k, id, ?_, hm, hid, Same.refl _, hwf.rowNum hid, hwf.rowWidth hid, rfl, Or.inl ⟨rfl, rfl⟩⟩
        simp only [sOuterGet, abs, absIdx, Val.ival, pos_plain, hk, nth, hm, bind, Except.bind, pure, Except.pure]
  | lc it =>
    unfold outerGet at h
    simp only at h
    obtain ⟨r, s1, h1, h⟩ := bind_ok.mp h
    obtain ⟨rfl, rfl⟩ := pure_ok.mp h
    obtain ⟨h0, hlt, hr, sm, hj, hv⟩ := rowRead_value hi hwf.contentsNum hwf.contentsWidth h1
    have hlt' : it.value < a.mat.length := by simpa [contents_length] using hlt
    have hj' : it.value.toNat < a.mat.length := by simpa [contents_length] using hj
    have hid : a.mat[it.value.toNat] < a.heap.length := hwf.matIn _ (List.getElem_mem hj')
    refine ⟨it.value.toNat, a.mat[it.value.toNat], ?_, List.getElem?_eq_getElem hj', hid, sm, AllLc.num hr, ?_, ?_,
      Or.inr ⟨rfl, r, rfl⟩⟩
    · simp only [sOuterGet, abs, absIdx, pos_secret h0 hlt', nth, List.getElem?_eq_getElem hj', bind, Except.bind,
        pure, Except.pure]
    · have := congrArg List.length hv
      simpa [hwf.contentsWidth _ (List.getElem_mem hj), Mat.deref] using this
    · simp only [Mat.deref]
      rw [hv, contents_getElem]
  | _ => unfold outerGet at h; exact (raise_ok.mp h).elim

theorem hold_sim {w : Nat} {a : Mat} {i : SIx} {ref : RowRef} {id : Nat} (hwf : WF w a) (hid : id < a.heap.length)
    (hn : NumRow (a.deref ref)) (hw : (a.deref ref).length = w) (hv : ivals (a.deref ref) = ivals (a.row id).arr)
    (hk : (i.1 = false ∧ ref = .obj id) ∨ (i.1 = true ∧ ∃ arr, ref = .view arr)) :
    (a.hold ref).1 = ((abs a).hold i id).1 ∧ abs (a.hold ref).2 = ((abs a).hold i id).2 ∧ WF w (a.hold ref).2 ∧
      (a.hold ref).1 < (a.hold ref).2.heap.length ∧ (a.hold ref).2.mat = a.mat := by
  rcases hk with ⟨hi, rfl⟩ | ⟨hi, arr, rfl⟩
  · have e1 : a.hold (.obj id) = (id, a) := rfl
    have e2 : (abs a).hold i id = (id, abs a) := by simp [SMat.hold, hi]
    rw [e1, e2]
    exact ⟨rfl, rfl, hwf, hid, rfl⟩
  · have e1 : a.hold (.view arr) = a.alloc ⟨arr, true⟩ := rfl
    have e2 : (abs a).hold i id = (abs a).alloc ⟨((abs a).row id).vals, true⟩ := by simp [SMat.hold, hi]
    rw [e1, e2]
    simp only [Mat.deref] at hn hw hv
    have e := abs_alloc a ⟨arr, true⟩
    have : absRow ⟨arr, true⟩ = ⟨((abs a).row id).vals, true⟩ := by simp [absRow, abs_row_vals, hv]
    rw [this] at e
    exact ⟨e.1, e.2, hwf.alloc hn hw, by simp [Mat.alloc], rfl⟩

/-! ## `m[i] = row` -/

/-- a rebuilt row as the reference sees it -/
def trI (x : Nat × Bool × List Val) : Nat × Bool × List Int := (x.1, x.2.1, ivals x.2.2)

theorem rebuild_cons_same (a : Mat) (id : Nat) (c : List Val) (t : List (Nat × Bool × List Val)) :
    rebuild a ((id, true, c) :: t) = (id :: (rebuild a t).1, (rebuild a t).2) := by
  simp [rebuild]

theorem rebuild_cons_new (a : Mat) (id : Nat) (c : List Val) (t : List (Nat × Bool × List Val)) :
    rebuild a ((id, false, c) :: t) =
      ((a.alloc ⟨c, false⟩).1 :: (rebuild (a.alloc ⟨c, false⟩).2 t).1, (rebuild (a.alloc ⟨c, false⟩).2 t).2) := by
  simp [rebuild]

theorem sRebuild_cons_same (r : SMat) (id : Nat) (c : List Int) (t : List (Nat × Bool × List Int)) :
    sRebuild r ((id, true, c) :: t) = (id :: (sRebuild r t).1, (sRebuild r t).2) := by
  simp [sRebuild]

theorem sRebuild_cons_new (r : SMat) (id : Nat) (c : List Int) (t : List (Nat × Bool × List Int)) :
    sRebuild r ((id, false, c) :: t) =
      ((r.alloc ⟨c, false⟩).1 :: (sRebuild (r.alloc ⟨c, false⟩).2 t).1, (sRebuild (r.alloc ⟨c, false⟩).2 t).2) := by
  simp [sRebuild]

theorem rebuild_sim {w : Nat} : ∀ (l : List (Nat × Bool × List Val)) (a : Mat), WF w a →
    (∀ x ∈ l, x.1 < a.heap.length ∧ NumRow x.2.2 ∧ x.2.2.length = w) →
    (rebuild a l).1 = (sRebuild (abs a) (l.map trI)).1 ∧ abs (rebuild a l).2 = (sRebuild (abs a) (l.map trI)).2 ∧
    WF w (rebuild a l).2 ∧ (rebuild a l).2.mat = a.mat ∧ (rebuild a l).2.vars = a.vars ∧
    (rebuild a l).2.idx = a.idx ∧ a.heap.length ≤ (rebuild a l).2.heap.length ∧
    (∀ id ∈ (rebuild a l).1, id < (rebuild a l).2.heap.length)
  | [], a, hwf, _ =>
    ⟨rfl, rfl, hwf, rfl, rfl, rfl, Nat.le_refl _, fun id hid => by simp [rebuild] at hid⟩
  | (id, true, c) :: t, a, hwf, hl => by
    obtain ⟨h1, h2, h3, h4, h5, h6, h7, h8⟩ := rebuild_sim t a hwf (fun x hx => hl x (List.mem_cons_of_mem _ hx))
    rw [rebuild_cons_same]
    simp only [List.map_cons, trI]
    rw [sRebuild_cons_same]
    refine ⟨by simp only [h1], h2, h3, h4, h5, h6, h7, ?_⟩
    intro x hx
    rcases List.mem_cons.mp hx with rfl | hx
    · exact Nat.lt_of_lt_of_le (hl _ List.mem_cons_self).1 h7
    · exact h8 x hx
  | (id, false, c) :: t, a, hwf, hl => by
    obtain ⟨-, hc1, hc2⟩ := hl _ List.mem_cons_self
    have hwf1 : WF w (a.alloc ⟨c, false⟩).2 := hwf.alloc hc1 hc2
    have hlen : (a.alloc ⟨c, false⟩).2.heap.length = a.heap.length + 1 := by simp [Mat.alloc]
    obtain ⟨h1, h2, h3, h4, h5, h6, h7, h8⟩ := rebuild_sim t (a.alloc ⟨c, false⟩).2 hwf1 (fun x hx => by
      obtain ⟨p1, p2, p3⟩ := hl x (List.mem_cons_of_mem _ hx)
      exact ⟨by rw [hlen]; omega, p2, p3⟩)
    rw [rebuild_cons_new]
    simp only [List.map_cons, trI]
    rw [sRebuild_cons_new]
    have e := abs_alloc a ⟨c, false⟩
    have er : absRow ⟨c, false⟩ = ⟨ivals c, false⟩ := rfl
    rw [er] at e
    rw [e.2] at h1 h2
    refine ⟨by simp only [h1, e.1], h2, h3, h4, h5, h6, by omega, ?_⟩
    intro x hx
    rcases List.mem_cons.mp hx with rfl | hx
    · have : (a.alloc ⟨c, false⟩).1 = a.heap.length := rfl
      omega
    · exact h8 x hx

theorem enumFrom_length {α : Type} : ∀ (n : Nat) (l : List α), (enumFrom n l).length = l.length
  | _, [] => rfl
  | n, _ :: xs => by simp [enumFrom, enumFrom_length (n+1) xs]

theorem enumFrom_getElem {α : Type} : ∀ (n : Nat) (l : List α) (k : Nat) (hk : k < (enumFrom n l).length),
    (enumFrom n l)[k] = (n + k, l[k]'(by simpa [enumFrom_length] using hk))
  | _, [], k, hk => by simp [enumFrom] at hk
  | n, x :: xs, 0, _ => by simp [enumFrom]
  | n, x :: xs, k+1, hk => by
    simp only [enumFrom, List.getElem_cons_succ]
    rw [enumFrom_getElem (n+1) xs k (by simpa [enumFrom] using hk)]
    simp only [Prod.mk.injEq, and_true]
    omega

theorem outerSet_sim {w : Nat} {a a' : Mat} {i : Val} {vals : List Val} {oid : Option Nat} {s s' : St}
    (hi : s.ignoreErrors = false) (hwf : WF w a) (hv : NumRow vals) (hvw : vals.length = w)
    (hoid : ∀ id, oid = some id → id < a.heap.length ∧ (a.row id).arr = vals)
    (h : outerSet a i vals oid s = .ok (a', s')) :
    ∃ k, pos a.mat.length (absIdx i) = .ok k ∧ abs a' = sOuterSet (abs a) (absIdx i).1 k (ivals vals) oid ∧
      WF w a' ∧ Same s s' := by
  cases i with
  | int n =>
    unfold outerSet at h
    simp only at h
    cases hk : pyIndex a.mat.length n with
    | none => simp only [hk] at h; exact (raise_ok.mp h).elim
    | some k =>
      simp only [hk] at h
      have hp : pos a.mat.length (absIdx (.int n)) = .ok k := by simp [absIdx, pos_plain, hk]
      cases oid with
      | some id =>
        simp only at h
        obtain ⟨rfl, rfl⟩ := pure_ok.mp h
        refine ⟨k, hp, rfl, ?_, Same.refl _⟩
        refine hwf.setMat ?_
        intro x hx
        rcases List.mem_or_eq_of_mem_set hx with hx | rfl
        · exact hwf.matIn x hx
        · exact (hoid _ rfl).1
      | none =>
        simp only [Mat.alloc] at h
        obtain ⟨rfl, rfl⟩ := pure_ok.mp h
        refine ⟨k, hp, ?_, ?_, Same.refl _⟩
        · simp [abs, sOuterSet, absIdx, SMat.alloc, absRow]
        · have hwf1 := hwf.alloc (r := ⟨vals, false⟩) hv hvw
          refine WF.setMat (a := (a.alloc ⟨vals, false⟩).2) hwf1 ?_
          intro x hx
          simp only [Mat.alloc] at hx ⊢
          rcases List.mem_or_eq_of_mem_set hx with hx | rfl
          · have := hwf.matIn x hx
            simp only [List.length_append, List.length_singleton]
            omega
          · simp
  | lc it =>
    unfold outerSet at h
    simp only at h
    obtain ⟨news, s1, h1, h⟩ := bind_ok.mp h
    obtain ⟨rfl, rfl⟩ := pure_ok.mp h
    -- the rows as `rowsWrite` sees them
    have hfl : (a.mat.map fun id => (oid == some id, (a.row id).arr)).length = a.mat.length := by simp
    obtain ⟨h0, hlt, hlen, hnum, sm, hp⟩ := rowsWrite_value (w := w) hi hv hvw
      (by
        intro x hx
        obtain ⟨id, hid, rfl⟩ := List.mem_map.mp hx
        exact hwf.rowNum (hwf.matIn id hid))
      (by
        intro x hx
        obtain ⟨id, hid, rfl⟩ := List.mem_map.mp hx
        exact hwf.rowWidth (hwf.matIn id hid))
      (by
        intro x hx hx1
        obtain ⟨id, hid, rfl⟩ := List.mem_map.mp hx
        simp only [beq_iff_eq] at hx1
        exact (hoid id hx1).2) h1
    rw [hfl] at hlt hlen
    have hpos : pos a.mat.length (absIdx (.lc it)) = .ok it.value.toNat := by simpa [absIdx] using pos_secret h0 hlt
    -- the list handed to `rebuild`, position by position
    have hll : (a.mat.zip (((a.mat.map fun id => (oid == some id, (a.row id).arr)).zip news).map
        fun fn => (fn.1.1, fn.2))).length = a.mat.length := by simp [hlen]
    have hget : ∀ (k : Nat) (hk : k < a.mat.length),
        (a.mat.zip (((a.mat.map fun id => (oid == some id, (a.row id).arr)).zip news).map
          fun fn => (fn.1.1, fn.2)))[k]'(by rw [hll]; exact hk) =
        (a.mat[k], oid == some a.mat[k], news[k]'(by rw [hlen]; exact hk)) := by
      intro k hk
      simp
    have hnews : ∀ (k : Nat) (hk : k < a.mat.length),
        ivals (news[k]'(by rw [hlen]; exact hk)) =
          if k = it.value.toNat then ivals vals else ivals (a.row a.mat[k]).arr := by
      intro k hk
      have := hp k (by rw [hfl]; exact hk) (by rw [hlen]; exact hk)
      simpa using this
    obtain ⟨r1, r2, r3, r4, r5, r6, -, r8⟩ := rebuild_sim (w := w) _ a hwf (by
      intro x hx
      obtain ⟨k, hk, rfl⟩ := List.mem_iff_getElem.mp hx
      have hk' : k < a.mat.length := by rw [← hll]; exact hk
      rw [hget k hk']
      refine ⟨hwf.matIn _ (List.getElem_mem hk'), hnum _ (List.getElem_mem _), ?_⟩
      have := congrArg List.length (hnews k hk')
      by_cases e : k = it.value.toNat
      · simpa [e, hvw] using this
      · simpa [e, hwf.rowWidth (hwf.matIn _ (List.getElem_mem hk'))] using this)
    refine ⟨it.value.toNat, hpos, ?_, ?_, sm⟩
    · -- the abstraction of the rebuilt state
      have htr : (a.mat.zip (((a.mat.map fun id => (oid == some id, (a.row id).arr)).zip news).map
            fun fn => (fn.1.1, fn.2))).map trI =
          (enumFrom 0 (abs a).mat).map fun (kid : Nat × Nat) =>
            (kid.2, oid == some kid.2, if kid.1 = it.value.toNat then ivals vals else ((abs a).row kid.2).vals) := by
        apply List.ext_getElem
        · simp [hll, enumFrom_length, abs]
        · intro k hk1 hk2
          have hk' : k < a.mat.length := by simpa [hll] using hk1
          simp only [List.getElem_map]
          rw [hget k hk', enumFrom_getElem]
          simp only [trI, abs_row_vals, Nat.zero_add]
          rw [hnews k hk']
          rfl
      simp only [sOuterSet, absIdx, if_true]
      rw [← htr, ← r1, ← r2]
      rfl
    · refine WF.setMat (a := (rebuild a _).2) r3 r8
  | _ => unfold outerSet at h; exact (raise_ok.mp h).elim

/-! ## `row[j] = x` -/

theorem writeRow_sim {w : Nat} {a a' : Mat} {id : Nat} {j : Val} {x : Int} {s s' : St}
    (hi : s.ignoreErrors = false) (hwf : WF w a) (hid : id < a.heap.length)
    (h : writeRow a id j x s = .ok (a', s')) :
    sWriteRow (abs a) id (absIdx j) x = .ok (abs a') ∧ WF w a' ∧ Same s s' := by
  unfold writeRow at h
  by_cases hro : (a.row id).ro = true
  · simp only [hro, if_true] at h
    exact (raise_ok.mp h).elim
  · simp only [hro, Bool.false_eq_true, if_false] at h
    obtain ⟨arr', s1, h1, h⟩ := bind_ok.mp h
    obtain ⟨rfl, rfl⟩ := pure_ok.mp h
    obtain ⟨k, hp, hk, hn', hv', sm⟩ := arraySet_pos hi (hwf.rowNum hid) (v := .int x) rfl h1
    have hl' : arr'.length = w := by
      have := congrArg List.length hv'
      simpa [hwf.rowWidth hid] using this
    refine ⟨?_, hwf.setArr id hn' hl', sm⟩
    simp only [sWriteRow, abs_row_ro, hro, Bool.false_eq_true, if_false, abs_row_vals, ivals_length, hp, bind,
      Except.bind, pure, Except.pure, abs_setArr, hv', Val.ival_int]

/-! ## `m[i, j]` -/

theorem get2Core_sim {w : Nat} {a : Mat} {i j x : Val} {s s' : St} (hi : s.ignoreErrors = false) (hwf : WF w a)
    (h : get2Core a i j s = .ok (x, s')) :
    sGet2 (abs a) (absIdx i) (absIdx j) = .ok x.ival ∧ x.isNum = true ∧ Same s s' := by
  unfold get2Core at h
  obtain ⟨ref, s1, h1, h⟩ := bind_ok.mp h
  obtain ⟨k, id, hs, -, hid, sm1, hn, hw, hv, -⟩ := outerGet_sim hi hwf h1
  obtain ⟨l, hp, hl, hx, hnum, sm2⟩ := arrayGet_pos (sm1.ign_false hi) hn h
  refine ⟨?_, hnum, sm1.trans sm2⟩
  have hlen : ((abs a).row id).vals.length = (a.deref ref).length := by
    rw [abs_row_vals, ivals_length, hw, hwf.rowWidth hid]
  have hl' : l < ((abs a).row id).vals.length := by rw [hlen]; exact hl
  simp only [sGet2, hs, bind, Except.bind, hlen, hp, nth_ok hl']
  congr 1
  rw [hx]
  have : (ivals (a.deref ref))[l]'(by simpa using hl) = (ivals (a.row id).arr)[l]'(by
      rw [← abs_row_vals]; exact hl') := by simp only [hv]
  simp only [abs_row_vals]
  simpa [ivals] using this.symm

theorem arrayGet_num {arr : List Val} {item r : Val} {s s' : St} (harr : NumRow arr)
    (h : arrayGet arr item s = .ok (r, s')) : r.isNum = true := by
  unfold arrayGet at h
  split at h
  · rename_i i
    cases hk : pyIndex arr.length i with
    | none => simp only [hk] at h; exact (raise_ok.mp h).elim
    | some k =>
      simp only [hk] at h
      cases hv : arr[k]? with
      | none => simp only [hv] at h; exact (raise_ok.mp h).elim
      | some v =>
        simp only [hv] at h
        obtain ⟨rfl, -⟩ := pure_ok.mp h
        exact harr _ (List.mem_of_getElem? hv)
  · obtain ⟨ixs, s1, h1, h⟩ := bind_ok.mp h
    exact (linComb_value harr h).1
  · exact (raise_ok.mp h).elim

/-- whatever the error mode, what `m[i, j]` returns is a plain int or a `LinComb` -/
theorem get2Core_num {w : Nat} {a : Mat} {i j x : Val} {s s' : St} (hwf : WF w a)
    (h : get2Core a i j s = .ok (x, s')) : x.isNum = true := by
  unfold get2Core at h
  obtain ⟨ref, s1, h1, h⟩ := bind_ok.mp h
  refine arrayGet_num ?_ h
  unfold outerGet at h1
  split at h1
  · rename_i n
    cases hk : pyIndex a.mat.length n with
    | none => simp only [hk] at h1; exact (raise_ok.mp h1).elim
    | some k =>
      simp only [hk] at h1
      cases hm : a.mat[k]? with
      | none => simp only [hm] at h1; exact (raise_ok.mp h1).elim
      | some id =>
        simp only [hm] at h1
        obtain ⟨rfl, -⟩ := pure_ok.mp h1
        exact hwf.rowNum (hwf.matIn id (List.mem_of_getElem? hm))
  · obtain ⟨r, s2, h2, h1⟩ := bind_ok.mp h1
    obtain ⟨rfl, -⟩ := pure_ok.mp h1
    unfold rowRead at h2
    obtain ⟨ixs, s3, h3, h2⟩ := bind_ok.mp h2
    exact AllLc.num (linCombRows_value hwf.contentsNum h2).1
  · exact (raise_ok.mp h1).elim

/-! ## `guarded(cond)(thunk)()` at top level -/

theorem guardedM_top {α : Type} {c : LinComb} {m : M α} {r : α} {s s' : St} (hg : s.guard = none)
    (hi : s.ignoreErrors = false) (h : guardedM c m s = .ok (r, s')) :
    (c.value = 0 ∨ c.value = 1) ∧
    ∃ t2, m { s with guard := some c, ignoreErrors := (c.value == 0), one := c } = .ok (r, t2) ∧
      s' = { t2 with guard := none, ignoreErrors := false, one := s.one } := by
  unfold guardedM at h
  obtain ⟨bak, t1, h1, h⟩ := bind_ok.mp h
  obtain ⟨r', t2, h2, h⟩ := bind_ok.mp h
  obtain ⟨u, t3, h3, h⟩ := bind_ok.mp h
  obtain ⟨rfl, rfl⟩ := pure_ok.mp h
  unfold addGuard unwrapBoolCond addGuardCore at h1
  simp only [hg, hi, Bool.not_false, Bool.true_and, Bool.false_or] at h1
  split at h1
  · cases h1
  · rename_i hc
    simp only [Except.ok.injEq, Prod.mk.injEq] at h1
    obtain ⟨rfl, rfl⟩ := h1
    unfold restoreGuard at h3
    simp only [Except.ok.injEq, Prod.mk.injEq] at h3
    obtain ⟨-, rfl⟩ := h3
    refine ⟨?_, t2, h2, rfl⟩
    simp only [Bool.and_eq_true, bne_iff_ne, ne_eq, not_and, Decidable.not_not] at hc
    by_cases e : c.value = 0
    · exact Or.inl e
    · exact Or.inr (hc e)

/-- `if_then_else` on a numeric truth value and the plain `0`: `0 + c·(t − 0)` -/
theorem iteScalar_zero {c : LinComb} {t r : Val} {s s' : St} (ht : t.isNum = true)
    (h : iteScalar c t (.int 0) s = .ok (r, s')) : r.ival = c.value * t.ival ∧ Same s s' := by
  unfold iteScalar at h
  obtain ⟨f', s1, h1, h⟩ := bind_ok.mp h
  have hf' : f' = .int 0 ∧ s = s1 := by
    unfold coerceF at h1
    cases t <;> simp [Val.isNum] at ht <;> exact ⟨(pure_ok.mp h1).1, (pure_ok.mp h1).2.symm⟩
  obtain ⟨rfl, rfl⟩ := hf'
  obtain ⟨d, s2, h2, h⟩ := bind_ok.mp h
  obtain ⟨prod, s3, h3, h⟩ := bind_ok.mp h
  obtain ⟨ret, s4, h4, h⟩ := bind_ok.mp h
  have e2 := subV_num_st ht rfl h2
  obtain ⟨hd, hdv⟩ := subV_num ht rfl h2
  have sm3 := mulLV_num_same hd h3
  obtain ⟨y, rfl, hy⟩ := mulLV_num hd h3
  have e4 := addV_num_lc_st (f := .int 0) rfl h4
  obtain ⟨z, rfl, hz⟩ := addV_num_lc (f := .int 0) rfl h4
  have hnb : bothLcb t (.int 0) = false := by cases t <;> rfl
  rw [iteTag_other _ hnb] at h
  obtain ⟨rfl, rfl⟩ := pure_ok.mp h
  subst e2; subst e4
  refine ⟨?_, sm3⟩
  simp [hz, hy, hdv]

theorem privValBool_bool {v : Int} {r : LinComb} {s s' : St} (h : privValBool v s = .ok (r, s')) :
    v = 0 ∨ v = 1 := by
  unfold privValBool at h
  split at h
  · cases h
  · rename_i hb
    exact isBooleanValue_iff.mp (by simpa using hb)

/-! ## gathers -/

theorem gatherRows_sim {w : Nat} : ∀ (rs : List Ix) {a a1 : Mat} {ids : List Nat} {s s' : St},
    s.ignoreErrors = false → WF w a → gatherRows rs a s = .ok ((ids, a1), s') →
    sGather rs (abs a) = .ok (ids, abs a1) ∧ WF w a1 ∧ a1.mat = a.mat ∧ a1.idx = a.idx ∧ a1.vars = a.vars ∧
      (∀ id ∈ ids, id < a1.heap.length) ∧ a.heap.length ≤ a1.heap.length ∧ Same s s'
  | [], a, a1, ids, s, s', _, hwf, h => by
    unfold gatherRows at h
    obtain ⟨he, rfl⟩ := pure_ok.mp h
    cases he
    exact ⟨rfl, hwf, rfl, rfl, rfl, fun id hid => by simp at hid, Nat.le_refl _, Same.refl _⟩
  | sp :: t, a, a1, ids, s, s', hi, hwf, h => by
    unfold gatherRows at h
    obtain ⟨i, s1, h1, h⟩ := bind_ok.mp h
    obtain ⟨ref, s2, h2, h⟩ := bind_ok.mp h
    obtain ⟨hs1, sm1, -⟩ := evalIx_sim hwf h1
    obtain ⟨k, id, hs2, -, hid, sm2, hn, hw, hv, hk⟩ := outerGet_sim (sm1.ign_false hi) hwf h2
    obtain ⟨e1, e2, hwf', hlt, hm⟩ := hold_sim (i := absIdx i) hwf hid hn hw hv hk
    have hgrow : a.heap.length ≤ (a.hold ref).2.heap.length := by
      cases ref <;> simp [Mat.hold, Mat.alloc]
    have hidx : (a.hold ref).2.idx = a.idx ∧ (a.hold ref).2.vars = a.vars := by
      cases ref <;> simp [Mat.hold, Mat.alloc]
    -- the pair returned by `hold` is destructured by a `let`
    have h' : (do
        let (ids, a2) ← gatherRows t (a.hold ref).2
        pure ((a.hold ref).1 :: ids, a2)) s2 = .ok ((ids, a1), s') := h
    obtain ⟨⟨ids', a2⟩, s3, h3, h'⟩ := bind_ok.mp h'
    obtain ⟨he, rfl⟩ := pure_ok.mp h'
    cases he
    obtain ⟨g1, g2, g3, g4, g5, g6, g7, g8⟩ := gatherRows_sim t ((sm1.trans sm2).ign_false hi) hwf' h3
    refine ⟨?_, g2, g3.trans hm, g4.trans hidx.1, g5.trans hidx.2, ?_, Nat.le_trans hgrow g7,
      (sm1.trans sm2).trans g8⟩
    · simp only [sGather, hs1, hs2, bind, Except.bind, ← e1, ← e2, g1, pure, Except.pure]
    · intro x hx
      rcases List.mem_cons.mp hx with rfl | hx
      · exact Nat.lt_of_lt_of_le hlt g7
      · exact g6 x hx

/-! ## one event -/

theorem set_getElem?_self {α : Type} {l : List α} {k : Nat} {x : α} (h : l[k]? = some x) : l.set k x = l := by
  obtain ⟨hk, rfl⟩ := List.getElem?_eq_some_iff.mp h
  exact List.set_getElem_self hk

theorem pos_inj {n : Nat} {ix : SIx} {k k' : Nat} (h1 : pos n ix = .ok k) (h2 : pos n ix = .ok k') : k = k' := by
  rw [h1] at h2
  exact Except.ok.inj h2

theorem sOuterGet_pos {r : SMat} {i : SIx} {k id : Nat} (h : sOuterGet r i = .ok (k, id)) :
    pos r.mat.length i = .ok k ∧ r.mat[k]? = some id := by
  unfold sOuterGet at h
  cases hp : pos r.mat.length i with
  | error e => simp [hp, bind, Except.bind] at h
  | ok k' =>
    simp only [hp, bind, Except.bind] at h
    unfold nth at h
    cases hm : r.mat[k']? with
    | none => simp [hm] at h
    | some id' =>
      simp only [hm, pure, Except.pure, Except.ok.injEq, Prod.mk.injEq] at h
      obtain ⟨rfl, rfl⟩ := h
      exact ⟨rfl, hm⟩

/-- **one event**: if the model completes it (error checks on, no guard active) then so does the list-of-lists
semantics, on the abstraction of the model's state, with the abstraction of the model's result -/
theorem step_sim {w : Nat} {a a' : Mat} {e : Ev} {s s' : St} (hi : s.ignoreErrors = false) (hg : s.guard = none)
    (hwf : WF w a) (hev : e.okWidth w) (h : step a e s = .ok (a', s')) :
    sstep (abs a) e = .ok (abs a') ∧ WF w a' ∧ s'.ignoreErrors = false ∧ s'.guard = none := by
  cases e with
  | idx name sec i =>
    simp only [step] at h
    obtain ⟨v, s1, h1, h⟩ := bind_ok.mp h
    obtain ⟨rfl, hs'⟩ := pure_ok.mp h
    have hv : absIdx v = (sec, i) ∧ Same s s1 ∧ ((∃ i, v = .int i) ∨ (∃ x, v = .lc x)) := by
      cases sec with
      | true =>
        simp only [if_true] at h1
        obtain ⟨x, s2, h2, h1⟩ := bind_ok.mp h1
        obtain ⟨rfl, rfl⟩ := pure_ok.mp h1
        obtain ⟨sm, hx⟩ := privVal_val h2
        exact ⟨by simp [absIdx, hx], sm, Or.inr ⟨x, rfl⟩⟩
      | false =>
        simp only [Bool.false_eq_true, if_false] at h1
        obtain ⟨rfl, rfl⟩ := pure_ok.mp h1
        exact ⟨rfl, Same.refl _, Or.inl ⟨i, rfl⟩⟩
    obtain ⟨hv1, sm, hv2⟩ := hv
    rw [hs']
    refine ⟨?_, ?_, sm.ign_false hi, sm.guard_none hg⟩
    · simp only [sstep, abs, List.map_cons, hv1, pure, Except.pure]
    · exact { num := hwf.num, width := hwf.width, matIn := hwf.matIn, varIn := hwf.varIn,
              idxOk := by
                intro kv hkv
                rcases List.mem_cons.mp hkv with rfl | hkv
                · exact hv2
                · exact hwf.idxOk kv hkv }
  | row v r =>
    simp only [step] at h
    obtain ⟨i, s1, h1, h⟩ := bind_ok.mp h
    obtain ⟨ref, s2, h2, h⟩ := bind_ok.mp h
    obtain ⟨hs1, sm1, -⟩ := evalIx_sim hwf h1
    obtain ⟨k, id, hs2, -, hid, sm2, hn, hw, hv, hk⟩ := outerGet_sim (sm1.ign_false hi) hwf h2
    obtain ⟨e1, e2, hwf', hlt, -⟩ := hold_sim (i := absIdx i) hwf hid hn hw hv hk
    have h' : (pure ((a.hold ref).2.setVar v (.row (a.hold ref).1)) : M Mat) s2 = .ok (a', s') := h
    obtain ⟨rfl, rfl⟩ := pure_ok.mp h'
    refine ⟨?_, hwf'.setVarRow v hlt, (sm1.trans sm2).ign_false hi, (sm1.trans sm2).guard_none hg⟩
    simp only [sstep, hs1, hs2, bind, Except.bind, pure, Except.pure, abs_setVar, ← e1, ← e2, absSlot]
  | copy v src =>
    simp only [step] at h
    obtain ⟨id, s1, h1, h⟩ := bind_ok.mp h
    obtain ⟨hs1, rfl, hid⟩ := slotRow_sim hwf h1
    have h' : (pure ((a.alloc ⟨(a.row id).arr, false⟩).2.setVar v (.row (a.alloc ⟨(a.row id).arr, false⟩).1)) : M Mat) _
        = .ok (a', s') := h
    obtain ⟨rfl, rfl⟩ := pure_ok.mp h'
    have e := abs_alloc a ⟨(a.row id).arr, false⟩
    have er : absRow ⟨(a.row id).arr, false⟩ = ⟨((abs a).row id).vals, false⟩ := by simp [absRow, abs_row_vals]
    rw [er] at e
    refine ⟨?_, (hwf.alloc (r := ⟨(a.row id).arr, false⟩) (hwf.rowNum hid) (hwf.rowWidth hid)).setVarRow v (by simp [Mat.alloc]), hi, hg⟩
    simp only [sstep, hs1, bind, Except.bind, pure, Except.pure, abs_setVar, ← e.1, ← e.2, absSlot]
  | rowget v src c =>
    simp only [step] at h
    obtain ⟨id, s1, h1, h⟩ := bind_ok.mp h
    obtain ⟨hs1, rfl, hid⟩ := slotRow_sim hwf h1
    obtain ⟨j, s2, h2, h⟩ := bind_ok.mp h
    obtain ⟨x, s3, h3, h⟩ := bind_ok.mp h
    obtain ⟨rfl, rfl⟩ := pure_ok.mp h
    obtain ⟨hs2, sm2, -⟩ := evalIx_sim hwf h2
    obtain ⟨l, hp, hl, hx, -, sm3⟩ := arrayGet_pos (sm2.ign_false hi) (hwf.rowNum hid) h3
    refine ⟨?_, hwf.setVarScalar v x, (sm2.trans sm3).ign_false hi, (sm2.trans sm3).guard_none hg⟩
    have hl' : l < ((abs a).row id).vals.length := by rw [abs_row_vals, ivals_length]; exact hl
    simp only [sstep, hs1, hs2, bind, Except.bind, pure, Except.pure, abs_row_vals, ivals_length, hp, abs_setVar,
      absSlot]
    rw [nth_ok (by simpa using hl)]
    simp [ivals, hx]
  | get2 v r c =>
    simp only [step] at h
    obtain ⟨i, s1, h1, h⟩ := bind_ok.mp h
    obtain ⟨j, s2, h2, h⟩ := bind_ok.mp h
    obtain ⟨x, s3, h3, h⟩ := bind_ok.mp h
    obtain ⟨rfl, rfl⟩ := pure_ok.mp h
    obtain ⟨hs1, sm1, -⟩ := evalIx_sim hwf h1
    obtain ⟨hs2, sm2, -⟩ := evalIx_sim hwf h2
    have sm12 := sm1.trans sm2
    obtain ⟨hs3, -, sm3⟩ := get2Core_sim (sm12.ign_false hi) hwf h3
    refine ⟨?_, hwf.setVarScalar v x, (sm12.trans sm3).ign_false hi, (sm12.trans sm3).guard_none hg⟩
    simp only [sstep, hs1, hs2, hs3, bind, Except.bind, pure, Except.pure, abs_setVar, absSlot]
  | getrc v r c =>
    simp only [step] at h
    obtain ⟨i, s1, h1, h⟩ := bind_ok.mp h
    obtain ⟨ref, s2, h2, h⟩ := bind_ok.mp h
    obtain ⟨j, s3, h3, h⟩ := bind_ok.mp h
    obtain ⟨x, s4, h4, h⟩ := bind_ok.mp h
    obtain ⟨rfl, rfl⟩ := pure_ok.mp h
    obtain ⟨hs1, sm1, -⟩ := evalIx_sim hwf h1
    obtain ⟨hs3, sm3, -⟩ := evalIx_sim hwf h3
    -- `m[i][j]` is `m[i, j]` with the column index created after the row read
    have hcore : get2Core a i j s1 = (outerGet a i >>= fun ref => arrayGet (a.deref ref) j) s1 := rfl
    obtain ⟨k, id, hsg, -, hid, sm2, hn, hw, hv, -⟩ := outerGet_sim (sm1.ign_false hi) hwf h2
    have sm123 := (sm1.trans sm2).trans sm3
    obtain ⟨l, hp, hl, hx, -, sm4⟩ := arrayGet_pos (sm123.ign_false hi) hn h4
    refine ⟨?_, hwf.setVarScalar v x, (sm123.trans sm4).ign_false hi, (sm123.trans sm4).guard_none hg⟩
    have hlen : ((abs a).row id).vals.length = (a.deref ref).length := by
      rw [abs_row_vals, ivals_length, hw, hwf.rowWidth hid]
    have hl' : l < ((abs a).row id).vals.length := by rw [hlen]; exact hl
    simp only [sstep, hs1, hs3, sGet2, hsg, bind, Except.bind, pure, Except.pure, hlen, hp, nth_ok hl', abs_setVar,
      absSlot]
    congr 3
    rw [hx]
    have : (ivals (a.deref ref))[l]'(by simpa using hl) = (ivals (a.row id).arr)[l]'(by
        rw [← abs_row_vals]; exact hl') := by simp only [hv]
    simp only [abs_row_vals]
    simpa [ivals] using this.symm
  | bget v cnd r c =>
    simp only [step] at h
    obtain ⟨i, s1, h1, h⟩ := bind_ok.mp h
    obtain ⟨j, s2, h2, h⟩ := bind_ok.mp h
    obtain ⟨cb, s3, h3, h⟩ := bind_ok.mp h
    obtain ⟨tv, s4, h4, h⟩ := bind_ok.mp h
    obtain ⟨nc, s5, h5, h⟩ := bind_ok.mp h
    obtain ⟨fv, s6, h6, h⟩ := bind_ok.mp h
    obtain ⟨x, s7, h7, h⟩ := bind_ok.mp h
    obtain ⟨rfl, rfl⟩ := pure_ok.mp h
    obtain ⟨hs1, sm1, -⟩ := evalIx_sim hwf h1
    obtain ⟨hs2, sm2, -⟩ := evalIx_sim hwf h2
    obtain ⟨sm3, hcb, -⟩ := privValBool_val h3
    have hcnd := privValBool_bool h3
    have sm123 := (sm1.trans sm2).trans sm3
    have hi3 := sm123.ign_false hi
    have hg3 := sm123.guard_none hg
    obtain ⟨-, t2, ht, rfl⟩ := guardedM_top hg3 hi3 h4
    have hnum := get2Core_num hwf ht
    obtain ⟨sm5, -⟩ := boolNot_val h5
    have hi5 : s5.ignoreErrors = false := sm5.ign_false rfl
    have hg5 : s5.guard = none := sm5.guard_none rfl
    obtain ⟨-, t6, ht6, rfl⟩ := guardedM_top hg5 hi5 h6
    obtain ⟨rfl, -⟩ := pure_ok.mp ht6
    obtain ⟨hxv, sm7⟩ := iteScalar_zero hnum h7
    refine ⟨?_, hwf.setVarScalar v x, sm7.ign_false rfl, sm7.guard_none rfl⟩
    rcases hcnd with rfl | rfl
    · -- branch not taken
      have : x.ival = 0 := by rw [hxv, hcb]; simp
      simp only [sstep, hs1, hs2, bind, Except.bind, pure, Except.pure, abs_setVar, absSlot, this]
      rfl
    · have hi' : ({ s3 with guard := some cb, ignoreErrors := (cb.value == 0), one := cb } : St).ignoreErrors = false := by
        simp [hcb]
      obtain ⟨hs3, -, -⟩ := get2Core_sim hi' hwf ht
      have : x.ival = tv.ival := by rw [hxv, hcb]; simp
      simp only [sstep, hs1, hs2, hs3, bind, Except.bind, pure, Except.pure, abs_setVar, absSlot, this, if_true]
  | set1 v c x =>
    simp only [step] at h
    obtain ⟨id, s1, h1, h⟩ := bind_ok.mp h
    obtain ⟨hs1, rfl, hid⟩ := slotRow_sim hwf h1
    obtain ⟨j, s2, h2, h⟩ := bind_ok.mp h
    obtain ⟨hs2, sm2, -⟩ := evalIx_sim hwf h2
    obtain ⟨hs3, hwf', sm3⟩ := writeRow_sim (sm2.ign_false hi) hwf hid h
    refine ⟨?_, hwf', (sm2.trans sm3).ign_false hi, (sm2.trans sm3).guard_none hg⟩
    simp only [sstep, hs1, hs2, hs3, bind, Except.bind]
  | setchain k c x =>
    simp only [step] at h
    obtain ⟨ref, s1, h1, h⟩ := bind_ok.mp h
    obtain ⟨j, s2, h2, h⟩ := bind_ok.mp h
    obtain ⟨kk, id, hs1, -, hid, sm1, -, -, -, hk⟩ := outerGet_sim hi hwf h1
    obtain ⟨hs2, sm2, -⟩ := evalIx_sim hwf h2
    rcases hk with ⟨-, rfl⟩ | ⟨hsec, -⟩
    · simp only at h
      obtain ⟨hs3, hwf', sm3⟩ := writeRow_sim ((sm1.trans sm2).ign_false hi) hwf hid h
      refine ⟨?_, hwf', ((sm1.trans sm2).trans sm3).ign_false hi, ((sm1.trans sm2).trans sm3).guard_none hg⟩
      have e : absIdx (.int k) = (false, k) := rfl
      rw [e] at hs1
      simp only [sstep, hs1, hs2, hs3, bind, Except.bind]
    · simp [absIdx] at hsec
  | set2 r c x =>
    simp only [step] at h
    obtain ⟨i, s1, h1, h⟩ := bind_ok.mp h
    obtain ⟨j, s2, h2, h⟩ := bind_ok.mp h
    obtain ⟨ref, s3, h3, h⟩ := bind_ok.mp h
    obtain ⟨hs1, sm1, -⟩ := evalIx_sim hwf h1
    obtain ⟨hs2, sm2, -⟩ := evalIx_sim hwf h2
    have sm12 := sm1.trans sm2
    obtain ⟨k, id, hs3, hmk, hid, sm3, hn, hw, hv, hk⟩ := outerGet_sim (sm12.ign_false hi) hwf h3
    have sm123 := sm12.trans sm3
    have hlenv : ((abs a).row id).vals.length = w := by rw [abs_row_vals, ivals_length, hwf.rowWidth hid]
    obtain ⟨hpk, -⟩ := sOuterGet_pos hs3
    have hpk' : pos a.mat.length (absIdx i) = .ok k := hpk
    rcases hk with ⟨hsec, rfl⟩ | ⟨hsec, r0, rfl⟩
    · -- plain row index: the row object itself
      simp only at h
      by_cases hro : (a.row id).ro = true
      · simp only [hro, if_true] at h
        obtain ⟨arr', s4, h4, h⟩ := bind_ok.mp h
        obtain ⟨l, hp, hl, hn', hv', sm4⟩ := arraySet_pos (sm123.ign_false hi) (hwf.rowNum hid) (v := .int x) rfl h4
        have hl' : arr'.length = w := by
          have := congrArg List.length hv'
          simpa [hwf.rowWidth hid] using this
        obtain ⟨k', hp', habs, hwf', sm5⟩ := outerSet_sim ((sm123.trans sm4).ign_false hi) hwf hn' hl'
          (by intro id' h'; cases h') h
        obtain rfl := pos_inj hpk' hp'
        refine ⟨?_, hwf', ((sm123.trans sm4).trans sm5).ign_false hi, ((sm123.trans sm4).trans sm5).guard_none hg⟩
        simp only [sstep, hs1, hs2, hs3, bind, Except.bind, pure, Except.pure, ivals_length, hp, hsec,
          Bool.false_eq_true, if_false, abs_row_ro, hro, if_true, habs, hv', abs_row_vals, Val.ival_int]
      · simp only [hro, Bool.false_eq_true, if_false] at h
        obtain ⟨arr', s4, h4, h⟩ := bind_ok.mp h
        obtain ⟨l, hp, hl, hn', hv', sm4⟩ := arraySet_pos (sm123.ign_false hi) (hwf.rowNum hid) (v := .int x) rfl h4
        have hl' : arr'.length = w := by
          have := congrArg List.length hv'
          simpa [hwf.rowWidth hid] using this
        have hwf1 : WF w (a.setArr id arr') := hwf.setArr id hn' hl'
        have hrow1 : ((a.setArr id arr').row id).arr = arr' := by
          simp [Mat.setArr, Mat.row, List.getD_eq_getElem?_getD, hid]
        obtain ⟨k', hp', habs, hwf', sm5⟩ := outerSet_sim ((sm123.trans sm4).ign_false hi) hwf1 hn' hl'
          (by
            intro id' h'
            cases h'
            exact ⟨by simpa [Mat.setArr] using hid, hrow1⟩) h
        have hp'' : pos a.mat.length (absIdx i) = .ok k' := hp'
        obtain rfl := pos_inj hpk' hp''
        refine ⟨?_, hwf', ((sm123.trans sm4).trans sm5).ign_false hi, ((sm123.trans sm4).trans sm5).guard_none hg⟩
        have hmat : a.mat.set k id = a.mat := set_getElem?_self hmk
        simp only [sstep, hs1, hs2, hs3, bind, Except.bind, pure, Except.pure, ivals_length, hp, hsec,
          Bool.false_eq_true, if_false, abs_row_ro, hro, habs, sOuterSet, abs_setArr, hv', abs_row_vals, Val.ival_int]
        congr 1
        show _ = ({ (abs a).setVals id ((ivals (a.row id).arr).set l x) with mat := a.mat.set k id } : SMat)
        rw [hmat]
        rfl
    · -- secret row index: a snapshot, written, stored back through the selectors
      simp only at h
      simp only [Mat.deref] at hn hw hv
      obtain ⟨arr', s4, h4, h⟩ := bind_ok.mp h
      obtain ⟨l, hp, hl, hn', hv', sm4⟩ := arraySet_pos (sm123.ign_false hi) hn (v := .int x) rfl h4
      have hl' : arr'.length = w := by
        have := congrArg List.length hv'
        simpa [hw] using this
      obtain ⟨k', hp', habs, hwf', sm5⟩ := outerSet_sim ((sm123.trans sm4).ign_false hi) hwf hn' hl'
        (by intro id' h'; cases h') h
      obtain rfl := pos_inj hpk' hp'
      refine ⟨?_, hwf', ((sm123.trans sm4).trans sm5).ign_false hi, ((sm123.trans sm4).trans sm5).guard_none hg⟩
      have hp2 : pos (a.row id).arr.length (absIdx j) = .ok l := by rw [hwf.rowWidth hid, ← hw]; exact hp
      simp only [sstep, hs1, hs2, hs3, bind, Except.bind, pure, Except.pure, ivals_length, hp2, hsec, if_true, habs,
        hv', hv, abs_row_vals, Val.ival_int]
  | setrow r v =>
    simp only [step] at h
    obtain ⟨id, s1, h1, h⟩ := bind_ok.mp h
    obtain ⟨hs1, rfl, hid⟩ := slotRow_sim hwf h1
    obtain ⟨i, s2, h2, h⟩ := bind_ok.mp h
    obtain ⟨hs2, sm2, -⟩ := evalIx_sim hwf h2
    obtain ⟨k, hp, habs, hwf', sm3⟩ := outerSet_sim (sm2.ign_false hi) hwf (hwf.rowNum hid) (hwf.rowWidth hid)
      (by
        intro id' h'
        cases h'
        exact ⟨hid, rfl⟩) h
    refine ⟨?_, hwf', (sm2.trans sm3).ign_false hi, (sm2.trans sm3).guard_none hg⟩
    have hp' : pos (abs a).mat.length (absIdx i) = .ok k := hp
    simp only [sstep, hs1, hs2, hp', bind, Except.bind, pure, Except.pure, habs, abs_row_vals]
  | gather rs =>
    simp only [step] at h
    obtain ⟨⟨ids, a1⟩, s1, h1, h⟩ := bind_ok.mp h
    obtain ⟨rfl, rfl⟩ := pure_ok.mp h
    obtain ⟨g1, g2, -, -, -, g6, -, g8⟩ := gatherRows_sim rs hi hwf h1
    refine ⟨?_, g2.setMat g6, g8.ign_false hi, g8.guard_none hg⟩
    simp only [sstep, g1, bind, Except.bind, pure, Except.pure]
    rfl
  | newrow v vals =>
    simp only [step] at h
    have h' : (pure ((a.alloc ⟨vals.map Val.int, false⟩).2.setVar v (.row (a.alloc ⟨vals.map Val.int, false⟩).1)) : M Mat) s
        = .ok (a', s') := h
    obtain ⟨rfl, rfl⟩ := pure_ok.mp h'
    have e := abs_alloc a ⟨vals.map Val.int, false⟩
    have er : absRow ⟨vals.map Val.int, false⟩ = ⟨vals, false⟩ := by
      simp [absRow, ivals, List.map_map, Function.comp_def]
    rw [er] at e
    have hw : (vals.map Val.int).length = w := by
      have hev' : vals.length = w := hev
      simpa using hev'
    have hn : NumRow (vals.map Val.int) := by
      intro x hx
      obtain ⟨y, -, rfl⟩ := List.mem_map.mp hx
      rfl
    refine ⟨?_, (hwf.alloc (r := ⟨vals.map Val.int, false⟩) hn hw).setVarRow v (by simp [Mat.alloc]), hi, hg⟩
    simp only [sstep, pure, Except.pure, abs_setVar, ← e.1, ← e.2, absSlot]

/-- **histories**: for every sequence of events, if the model completes it then so does the list-of-lists semantics,
and the two end in corresponding states (in particular: the same matrix and the same values read) -/
theorem run_sim {w : Nat} : ∀ (es : List Ev) {a a' : Mat} {s s' : St}, s.ignoreErrors = false → s.guard = none →
    WF w a → (∀ e ∈ es, e.okWidth w) → run es a s = .ok (a', s') →
    srun es (abs a) = .ok (abs a') ∧ WF w a' ∧ s'.ignoreErrors = false ∧ s'.guard = none
  | [], a, a', s, s', hi, hg, hwf, _, h => by
    unfold run at h
    obtain ⟨rfl, rfl⟩ := pure_ok.mp h
    exact ⟨rfl, hwf, hi, hg⟩
  | e :: es, a, a', s, s', hi, hg, hwf, hev, h => by
    unfold run at h
    obtain ⟨a1, s1, h1, h⟩ := bind_ok.mp h
    obtain ⟨e1, hwf1, hi1, hg1⟩ := step_sim hi hg hwf (hev e List.mem_cons_self) h1
    obtain ⟨e2, hwf2, hi2, hg2⟩ := run_sim es hi1 hg1 hwf1 (fun e' he' => hev e' (List.mem_cons_of_mem _ he')) h
    refine ⟨?_, hwf2, hi2, hg2⟩
    simp only [srun, e1, bind, Except.bind, e2]

/-! ## the initial matrix -/

theorem initRow_sim {secret : Bool} : ∀ (r : List Int) {x : List Val} {s s' : St},
    initRow secret r s = .ok (x, s') → ivals x = r ∧ NumRow x ∧ Same s s'
  | [], x, s, s', h => by
    obtain ⟨rfl, rfl⟩ := mapM'_nil_ok h
    exact ⟨rfl, fun v hv => by simp at hv, Same.refl _⟩
  | v :: r, x, s, s', h => by
    obtain ⟨y, s1, ys, h1, h2, rfl⟩ := mapM'_cons_ok h
    obtain ⟨e2, n2, sm2⟩ := initRow_sim r h2
    have h1' : y.ival = v ∧ y.isNum = true ∧ Same s s1 := by
      cases secret with
      | true =>
        simp only [if_true] at h1
        obtain ⟨z, s2, hz, h1⟩ := bind_ok.mp h1
        obtain ⟨rfl, rfl⟩ := pure_ok.mp h1
        obtain ⟨sm, hv⟩ := privVal_val hz
        exact ⟨hv, rfl, sm⟩
      | false =>
        simp only [Bool.false_eq_true, if_false] at h1
        obtain ⟨rfl, rfl⟩ := pure_ok.mp h1
        exact ⟨rfl, rfl, Same.refl _⟩
    refine ⟨by simp [h1'.1, e2], ?_, h1'.2.2.trans sm2⟩
    intro z hz
    rcases List.mem_cons.mp hz with rfl | hz
    · exact h1'.2.1
    · exact n2 z hz

theorem initRows_sim {secret : Bool} {w : Nat} : ∀ (m : List (List Int)) {rows : List Row} {s s' : St},
    (∀ r ∈ m, r.length = w) → initRows secret m s = .ok (rows, s') →
    rows.map absRow = m.map (fun r => (⟨r, false⟩ : SRow)) ∧ (∀ r ∈ rows, NumRow r.arr ∧ r.arr.length = w) ∧ Same s s'
  | [], rows, s, s', _, h => by
    unfold initRows at h
    obtain ⟨rfl, rfl⟩ := pure_ok.mp h
    exact ⟨rfl, fun r hr => by simp at hr, Same.refl _⟩
  | r :: m, rows, s, s', hw, h => by
    unfold initRows at h
    obtain ⟨x, s1, h1, h⟩ := bind_ok.mp h
    obtain ⟨xs, s2, h2, h⟩ := bind_ok.mp h
    obtain ⟨rfl, rfl⟩ := pure_ok.mp h
    obtain ⟨e1, n1, sm1⟩ := initRow_sim r h1
    obtain ⟨e2, n2, sm2⟩ := initRows_sim m (fun r' hr' => hw r' (List.mem_cons_of_mem _ hr')) h2
    refine ⟨by simp [absRow, e1, e2], ?_, sm1.trans sm2⟩
    intro y hy
    rcases List.mem_cons.mp hy with rfl | hy
    · refine ⟨n1, ?_⟩
      have := congrArg List.length e1
      simpa [hw r List.mem_cons_self] using this
    · exact n2 y hy

/-- **the initial state**: `Array([Array([PrivVal(v) …]) …])` (or plain ints) stands for the list of lists it was built from -/
theorem init_sim {secret : Bool} {w : Nat} {m : List (List Int)} {a : Mat} {s s' : St}
    (hw : ∀ r ∈ m, r.length = w) (h : init secret m s = .ok (a, s')) :
    abs a = sinit m ∧ WF w a ∧ Same s s' := by
  unfold init at h
  obtain ⟨rows, s1, h1, h⟩ := bind_ok.mp h
  obtain ⟨rfl, rfl⟩ := pure_ok.mp h
  obtain ⟨e1, n1, sm1⟩ := initRows_sim m hw h1
  have hlen : rows.length = m.length := by
    have := congrArg List.length e1
    simpa using this
  refine ⟨?_, ?_, sm1⟩
  · simp only [abs, sinit, e1, hlen, List.map_nil]
  · exact { num := fun r hr => (n1 r hr).1, width := fun r hr => (n1 r hr).2,
            matIn := fun id hid => by simpa using hid,
            varIn := fun kv hkv => by simp at hkv,
            idxOk := fun kv hkv => by simp at hkv }

/-- a completed history is completed up to every intermediate point -/
theorem run_append : ∀ (es1 es2 : List Ev) {a a' : Mat} {s s' : St}, run (es1 ++ es2) a s = .ok (a', s') →
    ∃ a1 s1, run es1 a s = .ok (a1, s1) ∧ run es2 a1 s1 = .ok (a', s')
  | [], es2, a, a', s, s', h => ⟨a, s, rfl, h⟩
  | e :: es1, es2, a, a', s, s', h => by
    simp only [List.cons_append, run] at h
    obtain ⟨a0, s0, h0, h⟩ := bind_ok.mp h
    obtain ⟨a1, s1, h1, h2⟩ := run_append es1 es2 h
    refine ⟨a1, s1, ?_, h2⟩
    simp only [run]
    exact bind_ok.mpr ⟨a0, s0, h0, h1⟩

end A2
end Pysnark
