import PysnarkModel.Lemmas.InvVal
import PysnarkModel.Model.Array2D
/-!
# Two-dimensional array access (C15): the tracer invariant

Every row operation of `Model/Array2D.lean` preserves `Inv` (all constraints emitted so far hold on the recorded
witness) and returns rows whose elements are coherent with their wire expressions (`GoodV`).  Compositions of the
per-element lemmas of `Lemmas/InvVal.lean`.
-/
namespace Pysnark
namespace A2

/-- every element of the row is coherent in state `s` -/
def GoodRow (s : St) (r : List Val) : Prop := ∀ v ∈ r, GoodV s v

theorem GoodRow.mono {s s' : St} (h : s.le s') {r : List Val} (hr : GoodRow s r) : GoodRow s' r :=
  fun v hv => (hr v hv).mono h

theorem scaleRow_spec {s s' : St} {c : LinComb} {row r : List Val} (hinv : Inv s) (hc : Good s c)
    (hrow : GoodRow s row) (h : scaleRow c row s = .ok (r, s')) :
    s.le s' ∧ Frame s s' ∧ Inv s' ∧ GoodRow s' r := by
  obtain ⟨le1, f1, inv1, g1, -⟩ := mapM'_spec (fun v => mulLV c v)
    (fun s v => Good s c ∧ GoodV s v) (fun s r => GoodV s r)
    (fun s s' a hle _ ⟨x, y⟩ => ⟨x.mono hle, y.mono hle⟩) (fun s s' b hle _ x => x.mono hle)
    (fun s s' v r hinv ⟨hc, hv⟩ h => mulLV_spec hinv hc hv h)
    row s s' r hinv (fun v hv => ⟨hc, hrow v hv⟩) h
  exact ⟨le1, f1, inv1, g1⟩

theorem addZeroRow_spec {s s' : St} {row r : List Val} (hinv : Inv s)
    (hrow : GoodRow s row) (h : addZeroRow row s = .ok (r, s')) :
    s.le s' ∧ Frame s s' ∧ Inv s' ∧ GoodRow s' r := by
  obtain ⟨le1, f1, inv1, g1, -⟩ := mapM'_spec (fun v => addV v (.int 0))
    (fun s v => GoodV s v) (fun s r => GoodV s r)
    (fun s s' a hle _ x => x.mono hle) (fun s s' b hle _ x => x.mono hle)
    (fun s s' v r hinv hv h => addV_spec hinv hv GoodV_int h)
    row s s' r hinv hrow h
  exact ⟨le1, f1, inv1, g1⟩

theorem addRows_spec {s s' : St} {a b r : List Val} (hinv : Inv s) (ha : GoodRow s a) (hb : GoodRow s b)
    (h : addRows a b s = .ok (r, s')) : s.le s' ∧ Frame s s' ∧ Inv s' ∧ GoodRow s' r := by
  unfold addRows at h
  split at h
  · exact zipWithM'_spec addV (fun _ _ _ _ _ hinv ht hg h => addV_spec hinv ht hg h) a b s s' r hinv ha hb h
  · exact (raise_ok.mp h).elim

theorem subRows_spec {s s' : St} {a b r : List Val} (hinv : Inv s) (ha : GoodRow s a) (hb : GoodRow s b)
    (h : subRows a b s = .ok (r, s')) : s.le s' ∧ Frame s s' ∧ Inv s' ∧ GoodRow s' r := by
  unfold subRows at h
  split at h
  · exact zipWithM'_spec subV (fun _ _ _ _ _ hinv ht hg h => subV_spec hinv ht hg h) a b s s' r hinv ha hb h
  · exact (raise_ok.mp h).elim

theorem iteRow_spec {s s' : St} {c : LinComb} {t f r : List Val} (hinv : Inv s) (hc : Good s c)
    (ht : GoodRow s t) (hf : GoodRow s f) (h : iteRow c t f s = .ok (r, s')) :
    s.le s' ∧ Frame s s' ∧ Inv s' ∧ GoodRow s' r := by
  unfold iteRow at h
  obtain ⟨d, s1, h1, h⟩ := bind_ok.mp h
  obtain ⟨pr, s2, h2, h⟩ := bind_ok.mp h
  obtain ⟨le1, f1, inv1, g1⟩ := subRows_spec hinv ht hf h1
  obtain ⟨le2, f2, inv2, g2⟩ := scaleRow_spec inv1 (hc.mono le1) g1 h2
  obtain ⟨le3, f3, inv3, g3⟩ := addRows_spec inv2 (hf.mono (le1.trans le2)) g2 h
  exact ⟨(le1.trans le2).trans le3, (f1.trans f2).trans f3, inv3, g3⟩

theorem foldlM_addRows_spec : ∀ (ps : List (List Val)) {acc r : List Val} {s s' : St}, Inv s → GoodRow s acc →
    (∀ p ∈ ps, GoodRow s p) → ps.foldlM (fun acc x => addRows acc x) acc s = .ok (r, s') →
    s.le s' ∧ Frame s s' ∧ Inv s' ∧ GoodRow s' r
  | [], acc, r, s, s', hinv, hacc, _, h => by
    rw [List.foldlM_nil] at h
    obtain ⟨rfl, rfl⟩ := pure_ok' h
    exact ret_spec hinv hacc
  | p :: ps, acc, r, s, s', hinv, hacc, hps, h => by
    rw [List.foldlM_cons] at h
    obtain ⟨a1, s1, h1, h⟩ := bind_ok.mp h
    obtain ⟨le1, f1, inv1, g1⟩ := addRows_spec hinv hacc (hps p (List.mem_cons_self ..)) h1
    obtain ⟨le2, f2, inv2, g2⟩ := foldlM_addRows_spec ps inv1 g1
      (fun p' hp' => (hps p' (List.mem_cons_of_mem _ hp')).mono le1) h
    exact ⟨le1.trans le2, f1.trans f2, inv2, g2⟩

theorem linCombRows_spec {s s' : St} {ixs : List LinComb} {rows : List (List Val)} {r : List Val} (hinv : Inv s)
    (hixs : ∀ c ∈ ixs, Good s c) (hrows : ∀ row ∈ rows, GoodRow s row) (h : linCombRows ixs rows s = .ok (r, s')) :
    s.le s' ∧ Frame s s' ∧ Inv s' ∧ GoodRow s' r := by
  unfold linCombRows at h
  obtain ⟨prods, s1, h1, h⟩ := bind_ok.mp h
  obtain ⟨le1, f1, inv1, g1, -⟩ := mapM'_spec (fun (cr : LinComb × List Val) => scaleRow cr.1 cr.2)
    (fun s cr => Good s cr.1 ∧ GoodRow s cr.2) (fun s r => GoodRow s r)
    (fun s s' a hle _ ⟨x, y⟩ => ⟨x.mono hle, y.mono hle⟩) (fun s s' b hle _ x => x.mono hle)
    (fun s s' cr r hinv ⟨hc, hv⟩ h => scaleRow_spec hinv hc hv h)
    _ s s1 prods hinv (by
      intro ⟨c, v⟩ hmem
      obtain ⟨hc, hv⟩ := List.of_mem_zip hmem
      exact ⟨hixs c hc, hrows v hv⟩) h1
  cases prods with
  | nil => exact (raise_ok.mp h).elim
  | cons p ps =>
    simp only at h
    obtain ⟨first, s2, h2, h⟩ := bind_ok.mp h
    obtain ⟨le2, f2, inv2, g2⟩ := addZeroRow_spec inv1 (g1 p (List.mem_cons_self ..)) h2
    obtain ⟨le3, f3, inv3, g3⟩ := foldlM_addRows_spec ps inv2 g2
      (fun p' hp' => (g1 p' (List.mem_cons_of_mem _ hp')).mono le2) h
    exact ⟨(le1.trans le2).trans le3, (f1.trans f2).trans f3, inv3, g3⟩

theorem rowRead_spec {s s' : St} {rows : List (List Val)} {it : LinComb} {r : List Val} (hinv : Inv s)
    (hP : PrimeP s) (hit : Good s it) (hrows : ∀ row ∈ rows, GoodRow s row)
    (h : rowRead rows it s = .ok (r, s')) : s.le s' ∧ Frame s s' ∧ Inv s' ∧ GoodRow s' r := by
  unfold rowRead at h
  obtain ⟨ixs, s1, h1, h⟩ := bind_ok.mp h
  obtain ⟨le1, f1, inv1, g1⟩ := arrayIxs_spec hinv hP hit h1
  obtain ⟨le2, f2, inv2, g2⟩ := linCombRows_spec inv1 g1 (fun row hr => (hrows row hr).mono le1) h
  exact ⟨le1.trans le2, f1.trans f2, inv2, g2⟩

theorem rowsIte_spec {vals : List Val} : ∀ (l : List (LinComb × Bool × List Val)) {res : List (List Val)}
    {s s' : St}, Inv s → GoodRow s vals → (∀ x ∈ l, Good s x.1 ∧ GoodRow s x.2.2) →
    rowsIte vals l s = .ok (res, s') → s.le s' ∧ Frame s s' ∧ Inv s' ∧ ∀ r ∈ res, GoodRow s' r
  | [], res, s, s', hinv, _, _, h => by
    unfold rowsIte at h
    obtain ⟨rfl, rfl⟩ := pure_ok' h
    exact ret_spec hinv (by simp)
  | (c, same, row) :: l, res, s, s', hinv, hv, hl, h => by
    unfold rowsIte at h
    obtain ⟨r, s1, h1, h⟩ := bind_ok.mp h
    obtain ⟨rs, s2, h2, h⟩ := bind_ok.mp h
    obtain ⟨rfl, rfl⟩ := pure_ok' h
    obtain ⟨hc, hrow⟩ := hl (c, same, row) (List.mem_cons_self ..)
    have h1' : s.le s1 ∧ Frame s s1 ∧ Inv s1 ∧ GoodRow s1 r := by
      cases same with
      | true =>
        simp only [if_true] at h1
        obtain ⟨rfl, rfl⟩ := pure_ok' h1
        exact ret_spec hinv hrow
      | false =>
        simp only [Bool.false_eq_true, if_false] at h1
        exact iteRow_spec hinv hc hv hrow h1
    obtain ⟨le1, f1, inv1, g1⟩ := h1'
    obtain ⟨le2, f2, inv2, g2⟩ := rowsIte_spec l inv1 (hv.mono le1)
      (fun x hx => ⟨(hl x (List.mem_cons_of_mem _ hx)).1.mono le1, (hl x (List.mem_cons_of_mem _ hx)).2.mono le1⟩) h2
    refine ⟨le1.trans le2, f1.trans f2, inv2, ?_⟩
    intro x hx
    rcases List.mem_cons.mp hx with rfl | hx
    · exact g1.mono le2
    · exact g2 x hx

theorem rowsWrite_spec {s s' : St} {rows : List (Bool × List Val)} {it : LinComb} {vals : List Val}
    {res : List (List Val)} (hinv : Inv s) (hP : PrimeP s) (hit : Good s it) (hv : GoodRow s vals)
    (hrows : ∀ x ∈ rows, GoodRow s x.2) (h : rowsWrite rows it vals s = .ok (res, s')) :
    s.le s' ∧ Frame s s' ∧ Inv s' ∧ ∀ r ∈ res, GoodRow s' r := by
  unfold rowsWrite at h
  obtain ⟨ixs, s1, h1, h⟩ := bind_ok.mp h
  obtain ⟨le1, f1, inv1, g1⟩ := arrayIxs_spec hinv hP hit h1
  obtain ⟨le2, f2, inv2, g2⟩ := rowsIte_spec (ixs.zip rows) inv1 (hv.mono le1) (by
    intro ⟨c, x⟩ hmem
    obtain ⟨hc, hx⟩ := List.of_mem_zip hmem
    exact ⟨g1 c hc, (hrows x hx).mono le1⟩) h
  exact ⟨le1.trans le2, f1.trans f2, inv2, g2⟩

theorem rowGet_spec {s s' : St} {rows : List (List Val)} {i : Val} {r : List Val} (hinv : Inv s) (hP : PrimeP s)
    (hi : GoodV s i) (hrows : ∀ row ∈ rows, GoodRow s row) (h : rowGet rows i s = .ok (r, s')) :
    s.le s' ∧ Frame s s' ∧ Inv s' ∧ GoodRow s' r := by
  unfold rowGet at h
  split at h
  · rename_i k
    cases hk : pyIndex rows.length k with
    | none => simp only [hk] at h; exact (raise_ok.mp h).elim
    | some n =>
      simp only [hk] at h
      cases hv : rows[n]? with
      | none => simp only [hv] at h; exact (raise_ok.mp h).elim
      | some v =>
        simp only [hv] at h
        obtain ⟨rfl, rfl⟩ := pure_ok' h
        exact ret_spec hinv (hrows _ (List.mem_of_getElem? hv))
  · exact rowRead_spec hinv hP (GoodV_lc.mp hi) hrows h
  · exact (raise_ok.mp h).elim

/-- **reads keep the invariant**: after `a[i, j]` every emitted constraint holds on the recorded witness and the value
read is coherent with its wire expression -/
theorem matGet_spec {s s' : St} {rows : List (List Val)} {i j r : Val} (hinv : Inv s) (hP : PrimeP s)
    (hi : GoodV s i) (hj : GoodV s j) (hrows : ∀ row ∈ rows, GoodRow s row)
    (h : matGet rows i j s = .ok (r, s')) : s.le s' ∧ Frame s s' ∧ Inv s' ∧ GoodV s' r := by
  unfold matGet at h
  obtain ⟨r0, s1, h1, h⟩ := bind_ok.mp h
  obtain ⟨le1, f1, inv1, g1⟩ := rowGet_spec hinv hP hi hrows h1
  obtain ⟨le2, f2, inv2, g2⟩ := arrayGet_spec inv1 (hP.mono le1) g1 (hj.mono le1) h
  exact ⟨le1.trans le2, f1.trans f2, inv2, g2⟩

/-- **writes keep the invariant** -/
theorem matSet_spec {s s' : St} {rows res : List (List Val)} {i j v : Val} (hinv : Inv s) (hP : PrimeP s)
    (hi : GoodV s i) (hj : GoodV s j) (hv : GoodV s v) (hrows : ∀ row ∈ rows, GoodRow s row)
    (h : matSet rows i j v s = .ok (res, s')) : s.le s' ∧ Frame s s' ∧ Inv s' ∧ ∀ row ∈ res, GoodRow s' row := by
  unfold matSet at h
  split at h
  · rename_i k
    cases hk : pyIndex rows.length k with
    | none => simp only [hk] at h; exact (raise_ok.mp h).elim
    | some n =>
      simp only [hk] at h
      cases hr : rows[n]? with
      | none => simp only [hr] at h; exact (raise_ok.mp h).elim
      | some r =>
        simp only [hr] at h
        obtain ⟨r', s1, h1, h⟩ := bind_ok.mp h
        obtain ⟨rfl, rfl⟩ := pure_ok' h
        obtain ⟨le1, f1, inv1, g1⟩ := arraySet_spec hinv hP (hrows _ (List.mem_of_getElem? hr)) hj hv h1
        refine ⟨le1, f1, inv1, ?_⟩
        intro row hrow
        rcases List.mem_or_eq_of_mem_set hrow with hrow | rfl
        · exact (hrows row hrow).mono le1
        · exact g1
  · rename_i it
    obtain ⟨r0, s1, h1, h⟩ := bind_ok.mp h
    obtain ⟨r', s2, h2, h⟩ := bind_ok.mp h
    obtain ⟨le1, f1, inv1, g1⟩ := rowRead_spec hinv hP (GoodV_lc.mp hi) hrows h1
    obtain ⟨le2, f2, inv2, g2⟩ := arraySet_spec inv1 (hP.mono le1) g1 (hj.mono le1) (hv.mono le1) h2
    have le12 := le1.trans le2
    obtain ⟨le3, f3, inv3, g3⟩ := rowsWrite_spec inv2 (hP.mono le12) ((GoodV_lc.mp hi).mono le12) g2 (by
      intro x hx
      obtain ⟨y, hy, rfl⟩ := List.mem_map.mp hx
      exact (hrows y hy).mono le12) h
    exact ⟨le12.trans le3, (f1.trans f2).trans f3, inv3, g3⟩
  · exact (raise_ok.mp h).elim

end A2
end Pysnark
