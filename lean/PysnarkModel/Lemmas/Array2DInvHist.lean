import PysnarkModel.Lemmas.Array2DInv
import PysnarkModel.Lemmas.BranchInv
/-!
# Two-dimensional array histories (C15): satisfaction and coherence along every history

`step_inv` / `run_inv`: every event of `Model/Array2D.lean` (object level: handles, copies, stores, gathers, reads in
a branch) preserves the tracer invariant `Inv` — every constraint emitted so far holds on the recorded witness — and
`GoodMat`: every element of every row object, every index object and every value read is coherent with its wire
expression (`GoodV`).
-/
namespace Pysnark
namespace A2

structure GoodMat (s : St) (a : Mat) : Prop where
  rows : ∀ r ∈ a.heap, GoodRow s r.arr
  idx : ∀ kv ∈ a.idx, GoodV s kv.2
  vars : ∀ kv ∈ a.vars, ∀ v, kv.2 = .scalar v → GoodV s v

theorem GoodMat.mono {s s' : St} {a : Mat} (h : GoodMat s a) (hle : s.le s') : GoodMat s' a :=
  ⟨fun r hr => (h.rows r hr).mono hle, fun kv hkv => (h.idx kv hkv).mono hle,
   fun kv hkv v hv => (h.vars kv hkv v hv).mono hle⟩

theorem GoodMat.row {s : St} {a : Mat} (h : GoodMat s a) (id : Nat) : GoodRow s (a.row id).arr := by
  simp only [Mat.row, List.getD_eq_getElem?_getD]
  cases hr : a.heap[id]? with
  | none => intro v hv; simp at hv
  | some r => exact h.rows r (List.mem_of_getElem? hr)

theorem GoodMat.contents {s : St} {a : Mat} (h : GoodMat s a) : ∀ row ∈ a.contents, GoodRow s row := by
  intro row hrow
  simp only [Mat.contents, Mat.rows, List.map_map, List.mem_map] at hrow
  obtain ⟨id, -, rfl⟩ := hrow
  exact h.row id

theorem GoodMat.alloc {s : St} {a : Mat} (h : GoodMat s a) {r : Row} (hr : GoodRow s r.arr) :
    GoodMat s (a.alloc r).2 where
  rows := by
    intro x hx
    simp only [Mat.alloc, List.mem_append, List.mem_singleton] at hx
    rcases hx with hx | rfl
    · exact h.rows x hx
    · exact hr
  idx := h.idx
  vars := h.vars

theorem GoodMat.setArr {s : St} {a : Mat} (h : GoodMat s a) (id : Nat) {arr : List Val} (hr : GoodRow s arr) :
    GoodMat s (a.setArr id arr) where
  rows := by
    intro x hx
    simp only [Mat.setArr] at hx
    rcases List.mem_or_eq_of_mem_set hx with hx | rfl
    · exact h.rows x hx
    · exact hr
  idx := h.idx
  vars := h.vars

theorem GoodMat.setVarRow {s : St} {a : Mat} (h : GoodMat s a) (v id : Nat) : GoodMat s (a.setVar v (.row id)) where
  rows := h.rows
  idx := h.idx
  vars := by
    intro kv hkv x hx
    simp only [Mat.setVar, List.mem_cons] at hkv
    rcases hkv with rfl | hkv
    · cases hx
    · exact h.vars kv hkv x hx

theorem GoodMat.setVarScalar {s : St} {a : Mat} (h : GoodMat s a) (v : Nat) {x : Val} (hx : GoodV s x) :
    GoodMat s (a.setVar v (.scalar x)) where
  rows := h.rows
  idx := h.idx
  vars := by
    intro kv hkv y hy
    simp only [Mat.setVar, List.mem_cons] at hkv
    rcases hkv with rfl | hkv
    · simp only [Slot.scalar.injEq] at hy
      subst hy
      exact hx
    · exact h.vars kv hkv y hy

theorem GoodMat.setMat {s : St} {a : Mat} (h : GoodMat s a) (m : List Nat) : GoodMat s { a with mat := m } :=
  ⟨h.rows, h.idx, h.vars⟩

theorem lookup_mem' {α : Type} : ∀ {l : List (Nat × α)} {k : Nat} {v : α}, lookup l k = some v → (k, v) ∈ l
  | [], _, _, h => by simp [lookup] at h
  | (k', v') :: t, k, v, h => by
    simp only [lookup] at h
    split at h
    · rename_i e
      cases h
      subst e
      exact List.mem_cons_self
    · exact List.mem_cons_of_mem _ (lookup_mem' h)

theorem slotRow_ok {a : Mat} {v id : Nat} {s s' : St} (h : slotRow a v s = .ok (id, s')) : s = s' := by
  unfold slotRow at h
  cases hl : lookup a.vars v with
  | none => simp only [hl] at h; exact (raise_ok.mp h).elim
  | some x =>
    cases x with
    | scalar y => simp only [hl] at h; exact (raise_ok.mp h).elim
    | row id' =>
      simp only [hl] at h
      exact (pure_ok' h).2

theorem evalIx_inv {a : Mat} {ix : Ix} {v : Val} {s s' : St} (hinv : Inv s) (hgd : GoodMat s a)
    (h : evalIx a ix s = .ok (v, s')) : s.le s' ∧ Frame s s' ∧ Inv s' ∧ GoodV s' v := by
  cases ix with
  | p i =>
    unfold evalIx at h
    obtain ⟨rfl, rfl⟩ := pure_ok' h
    exact ret_spec hinv GoodV_int
  | s i =>
    unfold evalIx at h
    obtain ⟨x, s1, h1, h⟩ := bind_ok.mp h
    obtain ⟨rfl, rfl⟩ := pure_ok' h
    obtain ⟨le1, f1, inv1, g1, -⟩ := privVal_spec hinv h1
    exact ⟨le1, f1, inv1, GoodV_lc.mpr g1⟩
  | n k =>
    unfold evalIx at h
    cases hl : lookup a.idx k with
    | none => simp only [hl] at h; exact (raise_ok.mp h).elim
    | some v' =>
      simp only [hl] at h
      obtain ⟨rfl, rfl⟩ := pure_ok' h
      exact ret_spec hinv (hgd.idx _ (lookup_mem' hl))

theorem outerGet_inv {a : Mat} {i : Val} {ref : RowRef} {s s' : St} (hinv : Inv s) (hP : PrimeP s)
    (hgd : GoodMat s a) (hi : GoodV s i) (h : outerGet a i s = .ok (ref, s')) :
    s.le s' ∧ Frame s s' ∧ Inv s' ∧ GoodRow s' (a.deref ref) := by
  unfold outerGet at h
  split at h
  · rename_i n
    cases hk : pyIndex a.mat.length n with
    | none => simp only [hk] at h; exact (raise_ok.mp h).elim
    | some k =>
      simp only [hk] at h
      cases hm : a.mat[k]? with
      | none => simp only [hm] at h; exact (raise_ok.mp h).elim
      | some id =>
        simp only [hm] at h
        obtain ⟨rfl, rfl⟩ := pure_ok' h
        exact ret_spec hinv (hgd.row id)
  · obtain ⟨r, s1, h1, h⟩ := bind_ok.mp h
    obtain ⟨rfl, rfl⟩ := pure_ok' h
    exact rowRead_spec hinv hP (GoodV_lc.mp hi) hgd.contents h1
  · exact (raise_ok.mp h).elim

theorem hold_good {s : St} {a : Mat} {ref : RowRef} (hgd : GoodMat s a) (hr : GoodRow s (a.deref ref)) :
    GoodMat s (a.hold ref).2 := by
  cases ref with
  | obj id => exact hgd
  | view arr => exact hgd.alloc (r := ⟨arr, true⟩) hr

theorem rebuild_good {s : St} : ∀ (l : List (Nat × Bool × List Val)) (a : Mat), GoodMat s a →
    (∀ x ∈ l, GoodRow s x.2.2) → GoodMat s (rebuild a l).2
  | [], a, h, _ => h
  | (id, true, c) :: t, a, h, hl => by
    have : rebuild a ((id, true, c) :: t) = (id :: (rebuild a t).1, (rebuild a t).2) := by simp [rebuild]
    rw [this]
    exact rebuild_good t a h (fun x hx => hl x (List.mem_cons_of_mem _ hx))
  | (id, false, c) :: t, a, h, hl => by
    have : rebuild a ((id, false, c) :: t) =
        ((a.alloc ⟨c, false⟩).1 :: (rebuild (a.alloc ⟨c, false⟩).2 t).1, (rebuild (a.alloc ⟨c, false⟩).2 t).2) := by
      simp [rebuild]
    rw [this]
    exact rebuild_good t _ (h.alloc (r := ⟨c, false⟩) (hl _ List.mem_cons_self))
      (fun x hx => hl x (List.mem_cons_of_mem _ hx))

theorem outerSet_inv {a a' : Mat} {i : Val} {vals : List Val} {oid : Option Nat} {s s' : St} (hinv : Inv s)
    (hP : PrimeP s) (hgd : GoodMat s a) (hi : GoodV s i) (hv : GoodRow s vals)
    (h : outerSet a i vals oid s = .ok (a', s')) : s.le s' ∧ Frame s s' ∧ Inv s' ∧ GoodMat s' a' := by
  unfold outerSet at h
  split at h
  · rename_i n
    cases hk : pyIndex a.mat.length n with
    | none => simp only [hk] at h; exact (raise_ok.mp h).elim
    | some k =>
      simp only [hk] at h
      cases oid with
      | some id =>
        simp only at h
        obtain ⟨rfl, rfl⟩ := pure_ok' h
        exact ret_spec hinv (hgd.setMat _)
      | none =>
        simp only [Mat.alloc] at h
        obtain ⟨rfl, rfl⟩ := pure_ok' h
        exact ret_spec hinv ((hgd.alloc (r := ⟨vals, false⟩) hv).setMat _)
  · rename_i it
    obtain ⟨news, s1, h1, h⟩ := bind_ok.mp h
    obtain ⟨rfl, rfl⟩ := pure_ok' h
    obtain ⟨le1, f1, inv1, g1⟩ := rowsWrite_spec hinv hP (GoodV_lc.mp hi) hv (by
      intro x hx
      obtain ⟨id, -, rfl⟩ := List.mem_map.mp hx
      exact hgd.row id) h1
    refine ⟨le1, f1, inv1, ?_⟩
    refine GoodMat.setMat (a := (rebuild a _).2) (rebuild_good _ a (hgd.mono le1) ?_) _
    intro x hx
    obtain ⟨-, hx2⟩ := List.of_mem_zip hx
    obtain ⟨y, hy, hyx⟩ := List.mem_map.mp hx2
    rw [← hyx]
    exact g1 _ (List.of_mem_zip hy).2
  · exact (raise_ok.mp h).elim

theorem writeRow_inv {a a' : Mat} {id : Nat} {j : Val} {x : Int} {s s' : St} (hinv : Inv s) (hP : PrimeP s)
    (hgd : GoodMat s a) (hj : GoodV s j) (h : writeRow a id j x s = .ok (a', s')) :
    s.le s' ∧ Frame s s' ∧ Inv s' ∧ GoodMat s' a' := by
  unfold writeRow at h
  by_cases hro : (a.row id).ro = true
  · simp only [hro, if_true] at h
    exact (raise_ok.mp h).elim
  · simp only [hro, Bool.false_eq_true, if_false] at h
    obtain ⟨arr', s1, h1, h⟩ := bind_ok.mp h
    obtain ⟨rfl, rfl⟩ := pure_ok' h
    obtain ⟨le1, f1, inv1, g1⟩ := arraySet_spec hinv hP (hgd.row id) hj GoodV_int h1
    exact ⟨le1, f1, inv1, (hgd.mono le1).setArr id g1⟩

theorem get2Core_inv {a : Mat} {i j x : Val} {s s' : St} (hinv : Inv s) (hP : PrimeP s) (hgd : GoodMat s a)
    (hi : GoodV s i) (hj : GoodV s j) (h : get2Core a i j s = .ok (x, s')) :
    s.le s' ∧ Frame s s' ∧ Inv s' ∧ GoodV s' x := by
  unfold get2Core at h
  obtain ⟨ref, s1, h1, h⟩ := bind_ok.mp h
  obtain ⟨le1, f1, inv1, g1⟩ := outerGet_inv hinv hP hgd hi h1
  obtain ⟨le2, f2, inv2, g2⟩ := arrayGet_spec inv1 (hP.mono le1) g1 (hj.mono le1) h
  exact ⟨le1.trans le2, f1.trans f2, inv2, g2⟩

/-- `guarded(cond)(thunk)()` keeps the invariant when the thunk does -/
theorem guardedM_inv {α : Type} {c : LinComb} {m : M α} {r : α} {s s' : St} {Q : St → Prop}
    (hQ : ∀ t t', t.le t' → Q t → Q t') (hinv : Inv s) (hc : Good s c) (hcb : c.value = 0 ∨ c.value = 1)
    (hm : ∀ t t', s.le t → Inv t → m t = .ok (r, t') → t.le t' ∧ Inv t' ∧ Q t')
    (h : guardedM c m s = .ok (r, s')) : s.le s' ∧ Inv s' ∧ Q s' := by
  unfold guardedM at h
  obtain ⟨bak, s1, h1, h⟩ := bind_ok.mp h
  obtain ⟨a, s2, h2, h⟩ := bind_ok.mp h
  obtain ⟨u, s3, h3, h⟩ := bind_ok.mp h
  obtain ⟨rfl, rfl⟩ := pure_ok' h
  obtain ⟨le1, inv1, rfl⟩ := addGuard_lcb_inv hinv hc hcb h1
  obtain ⟨le2, inv2, q2⟩ := hm s1 s2 le1 inv1 h2
  obtain ⟨le3, inv3⟩ := restoreGuard_invT inv2 ((TripleOk.of_inv hinv).mono (le1.trans le2)) h3
  exact ⟨(le1.trans le2).trans le3, inv3, hQ _ _ le3 q2⟩

theorem gatherRows_inv : ∀ (rs : List Ix) {a a1 : Mat} {ids : List Nat} {s s' : St}, Inv s → PrimeP s →
    GoodMat s a → gatherRows rs a s = .ok ((ids, a1), s') → s.le s' ∧ Inv s' ∧ GoodMat s' a1
  | [], a, a1, ids, s, s', hinv, _, hgd, h => by
    unfold gatherRows at h
    obtain ⟨he, rfl⟩ := pure_ok' h
    cases he
    exact ⟨St.le.refl _, hinv, hgd⟩
  | sp :: t, a, a1, ids, s, s', hinv, hP, hgd, h => by
    unfold gatherRows at h
    obtain ⟨i, s1, h1, h⟩ := bind_ok.mp h
    obtain ⟨ref, s2, h2, h⟩ := bind_ok.mp h
    obtain ⟨le1, -, inv1, g1⟩ := evalIx_inv hinv hgd h1
    obtain ⟨le2, -, inv2, g2⟩ := outerGet_inv inv1 (hP.mono le1) (hgd.mono le1) g1 h2
    have h' : (do
        let (ids, a2) ← gatherRows t (a.hold ref).2
        pure ((a.hold ref).1 :: ids, a2)) s2 = .ok ((ids, a1), s') := h
    obtain ⟨⟨ids', a2⟩, s3, h3, h'⟩ := bind_ok.mp h'
    obtain ⟨he, rfl⟩ := pure_ok' h'
    cases he
    obtain ⟨le3, inv3, g3⟩ := gatherRows_inv t inv2 (hP.mono (le1.trans le2))
      (hold_good ((hgd.mono le1).mono le2) g2) h3
    exact ⟨(le1.trans le2).trans le3, inv3, g3⟩

/-- **one event keeps the invariant**: all constraints emitted so far hold on the recorded witness, all stored values
are coherent with their wire expressions -/
theorem step_inv {a a' : Mat} {e : Ev} {s s' : St} (hinv : Inv s) (hP : PrimeP s) (hgd : GoodMat s a)
    (h : step a e s = .ok (a', s')) : s.le s' ∧ Inv s' ∧ GoodMat s' a' := by
  cases e with
  | idx name sec i =>
    simp only [step] at h
    obtain ⟨v, s1, h1, h⟩ := bind_ok.mp h
    obtain ⟨rfl, hs'⟩ := pure_ok' h
    have hv : s.le s1 ∧ Inv s1 ∧ GoodV s1 v := by
      cases sec with
      | true =>
        simp only [if_true] at h1
        obtain ⟨x, s2, h2, h1⟩ := bind_ok.mp h1
        obtain ⟨rfl, rfl⟩ := pure_ok' h1
        obtain ⟨le1, -, inv1, g1, -⟩ := privVal_spec hinv h2
        exact ⟨le1, inv1, GoodV_lc.mpr g1⟩
      | false =>
        simp only [Bool.false_eq_true, if_false] at h1
        obtain ⟨rfl, rfl⟩ := pure_ok' h1
        exact ⟨St.le.refl _, hinv, GoodV_int⟩
    obtain ⟨le1, inv1, g1⟩ := hv
    rw [← hs']
    refine ⟨le1, inv1, ?_⟩
    exact { rows := (hgd.mono le1).rows, vars := (hgd.mono le1).vars,
            idx := by
              intro kv hkv
              rcases List.mem_cons.mp hkv with rfl | hkv
              · exact g1
              · exact (hgd.mono le1).idx kv hkv }
  | row v r =>
    simp only [step] at h
    obtain ⟨i, s1, h1, h⟩ := bind_ok.mp h
    obtain ⟨ref, s2, h2, h⟩ := bind_ok.mp h
    obtain ⟨le1, -, inv1, g1⟩ := evalIx_inv hinv hgd h1
    obtain ⟨le2, -, inv2, g2⟩ := outerGet_inv inv1 (hP.mono le1) (hgd.mono le1) g1 h2
    have h' : (pure ((a.hold ref).2.setVar v (.row (a.hold ref).1)) : M Mat) s2 = .ok (a', s') := h
    obtain ⟨rfl, rfl⟩ := pure_ok' h'
    exact ⟨le1.trans le2, inv2, (hold_good ((hgd.mono le1).mono le2) g2).setVarRow v _⟩
  | copy v src =>
    simp only [step] at h
    obtain ⟨id, s1, h1, h⟩ := bind_ok.mp h
    obtain rfl := slotRow_ok h1
    have h' : (pure ((a.alloc ⟨(a.row id).arr, false⟩).2.setVar v (.row (a.alloc ⟨(a.row id).arr, false⟩).1)) : M Mat) s
        = .ok (a', s') := h
    obtain ⟨rfl, rfl⟩ := pure_ok' h'
    exact ⟨St.le.refl _, hinv, (hgd.alloc (r := ⟨(a.row id).arr, false⟩) (hgd.row id)).setVarRow v _⟩
  | rowget v src c =>
    simp only [step] at h
    obtain ⟨id, s1, h1, h⟩ := bind_ok.mp h
    obtain rfl := slotRow_ok h1
    obtain ⟨j, s2, h2, h⟩ := bind_ok.mp h
    obtain ⟨x, s3, h3, h⟩ := bind_ok.mp h
    obtain ⟨rfl, rfl⟩ := pure_ok' h
    obtain ⟨le2, -, inv2, g2⟩ := evalIx_inv hinv hgd h2
    obtain ⟨le3, -, inv3, g3⟩ := arrayGet_spec inv2 (hP.mono le2) ((hgd.row id).mono le2) g2 h3
    exact ⟨le2.trans le3, inv3, ((hgd.mono le2).mono le3).setVarScalar v g3⟩
  | get2 v r c =>
    simp only [step] at h
    obtain ⟨i, s1, h1, h⟩ := bind_ok.mp h
    obtain ⟨j, s2, h2, h⟩ := bind_ok.mp h
    obtain ⟨x, s3, h3, h⟩ := bind_ok.mp h
    obtain ⟨rfl, rfl⟩ := pure_ok' h
    obtain ⟨le1, -, inv1, g1⟩ := evalIx_inv hinv hgd h1
    obtain ⟨le2, -, inv2, g2⟩ := evalIx_inv inv1 (hgd.mono le1) h2
    have le12 := le1.trans le2
    obtain ⟨le3, -, inv3, g3⟩ := get2Core_inv inv2 (hP.mono le12) (hgd.mono le12) (g1.mono le2) g2 h3
    exact ⟨le12.trans le3, inv3, ((hgd.mono le12).mono le3).setVarScalar v g3⟩
  | getrc v r c =>
    simp only [step] at h
    obtain ⟨i, s1, h1, h⟩ := bind_ok.mp h
    obtain ⟨ref, s2, h2, h⟩ := bind_ok.mp h
    obtain ⟨j, s3, h3, h⟩ := bind_ok.mp h
    obtain ⟨x, s4, h4, h⟩ := bind_ok.mp h
    obtain ⟨rfl, rfl⟩ := pure_ok' h
    obtain ⟨le1, -, inv1, g1⟩ := evalIx_inv hinv hgd h1
    obtain ⟨le2, -, inv2, g2⟩ := outerGet_inv inv1 (hP.mono le1) (hgd.mono le1) g1 h2
    have le12 := le1.trans le2
    obtain ⟨le3, -, inv3, g3⟩ := evalIx_inv inv2 (hgd.mono le12) h3
    obtain ⟨le4, -, inv4, g4⟩ := arrayGet_spec inv3 (hP.mono (le12.trans le3)) (g2.mono le3) g3 h4
    exact ⟨(le12.trans le3).trans le4, inv4, (((hgd.mono le12).mono le3).mono le4).setVarScalar v g4⟩
  | bget v cnd r c =>
    simp only [step] at h
    obtain ⟨i, s1, h1, h⟩ := bind_ok.mp h
    obtain ⟨j, s2, h2, h⟩ := bind_ok.mp h
    obtain ⟨cb, s3, h3, h⟩ := bind_ok.mp h
    obtain ⟨tv, s4, h4, h⟩ := bind_ok.mp h
    obtain ⟨nc, s5, h5, h⟩ := bind_ok.mp h
    obtain ⟨fv, s6, h6, h⟩ := bind_ok.mp h
    obtain ⟨x, s7, h7, h⟩ := bind_ok.mp h
    obtain ⟨rfl, rfl⟩ := pure_ok' h
    obtain ⟨le1, -, inv1, g1⟩ := evalIx_inv hinv hgd h1
    obtain ⟨le2, -, inv2, g2⟩ := evalIx_inv inv1 (hgd.mono le1) h2
    have le12 := le1.trans le2
    obtain ⟨le3, -, inv3, g3, hcv, hcnd⟩ := privValBool_spec inv2 h3
    have le123 := le12.trans le3
    have hcb : cb.value = 0 ∨ cb.value = 1 := by rw [hcv]; exact hcnd
    obtain ⟨le4, inv4, g4⟩ := guardedM_inv (Q := fun t => GoodV t tv) (fun t t' hle q => q.mono hle) inv3 g3 hcb
      (fun t t' hle hinvt ht => by
        obtain ⟨a1, -, a3, a4⟩ := get2Core_inv hinvt (hP.mono (le123.trans hle)) (hgd.mono (le123.trans hle))
          (g1.mono ((le2.trans le3).trans hle)) (g2.mono (le3.trans hle)) ht
        exact ⟨a1, a3, a4⟩) h4
    obtain ⟨le5, inv5, -, g5, hnb⟩ := boolNot_inv inv4 (hP.mono (le123.trans le4)) (g3.mono le4) h5
    obtain ⟨le6, inv6, g6⟩ := guardedM_inv (Q := fun t => GoodV t fv) (fun t t' hle q => q.mono hle) inv5 g5 hnb
      (fun t t' _ hinvt ht => by
        obtain ⟨rfl, rfl⟩ := pure_ok' ht
        exact ⟨St.le.refl _, hinvt, GoodV_int⟩) h6
    have le456 := (le4.trans le5).trans le6
    obtain ⟨le7, inv7, -, g7⟩ := iteScalar_inv inv6 (hP.mono (le123.trans le456)) (g3.mono le456)
      (g4.mono (le5.trans le6)) g6 h7
    exact ⟨(le123.trans le456).trans le7, inv7, (((hgd.mono le123).mono le456).mono le7).setVarScalar v g7⟩
  | set1 v c x =>
    simp only [step] at h
    obtain ⟨id, s1, h1, h⟩ := bind_ok.mp h
    obtain rfl := slotRow_ok h1
    obtain ⟨j, s2, h2, h⟩ := bind_ok.mp h
    obtain ⟨le2, -, inv2, g2⟩ := evalIx_inv hinv hgd h2
    obtain ⟨le3, -, inv3, g3⟩ := writeRow_inv inv2 (hP.mono le2) (hgd.mono le2) g2 h
    exact ⟨le2.trans le3, inv3, g3⟩
  | setchain k c x =>
    simp only [step] at h
    obtain ⟨ref, s1, h1, h⟩ := bind_ok.mp h
    obtain ⟨j, s2, h2, h⟩ := bind_ok.mp h
    obtain ⟨le1, -, inv1, -⟩ := outerGet_inv hinv hP hgd GoodV_int h1
    obtain ⟨le2, -, inv2, g2⟩ := evalIx_inv inv1 (hgd.mono le1) h2
    cases ref with
    | obj id =>
      simp only at h
      obtain ⟨le3, -, inv3, g3⟩ := writeRow_inv inv2 (hP.mono (le1.trans le2)) ((hgd.mono le1).mono le2) g2 h
      exact ⟨(le1.trans le2).trans le3, inv3, g3⟩
    | view arr => exact (raise_ok.mp h).elim
  | set2 r c x =>
    simp only [step] at h
    obtain ⟨i, s1, h1, h⟩ := bind_ok.mp h
    obtain ⟨j, s2, h2, h⟩ := bind_ok.mp h
    obtain ⟨ref, s3, h3, h⟩ := bind_ok.mp h
    obtain ⟨le1, -, inv1, g1⟩ := evalIx_inv hinv hgd h1
    obtain ⟨le2, -, inv2, g2⟩ := evalIx_inv inv1 (hgd.mono le1) h2
    have le12 := le1.trans le2
    obtain ⟨le3, -, inv3, g3⟩ := outerGet_inv inv2 (hP.mono le12) (hgd.mono le12) (g1.mono le2) h3
    have le123 := le12.trans le3
    have hgd3 := hgd.mono le123
    have hP3 := hP.mono le123
    cases ref with
    | obj id =>
      simp only at h
      by_cases hro : (a.row id).ro = true
      · simp only [hro, if_true] at h
        obtain ⟨arr', s4, h4, h⟩ := bind_ok.mp h
        obtain ⟨le4, -, inv4, g4⟩ := arraySet_spec inv3 hP3 (hgd3.row id) (g2.mono le3) GoodV_int h4
        obtain ⟨le5, -, inv5, g5⟩ := outerSet_inv inv4 (hP3.mono le4) (hgd3.mono le4) (g1.mono ((le2.trans le3).trans le4)) g4 h
        exact ⟨(le123.trans le4).trans le5, inv5, g5⟩
      · simp only [hro, Bool.false_eq_true, if_false] at h
        obtain ⟨arr', s4, h4, h⟩ := bind_ok.mp h
        obtain ⟨le4, -, inv4, g4⟩ := arraySet_spec inv3 hP3 (hgd3.row id) (g2.mono le3) GoodV_int h4
        obtain ⟨le5, -, inv5, g5⟩ := outerSet_inv inv4 (hP3.mono le4) ((hgd3.mono le4).setArr id g4)
          (g1.mono ((le2.trans le3).trans le4)) g4 h
        exact ⟨(le123.trans le4).trans le5, inv5, g5⟩
    | view r0 =>
      simp only at h
      obtain ⟨arr', s4, h4, h⟩ := bind_ok.mp h
      obtain ⟨le4, -, inv4, g4⟩ := arraySet_spec inv3 hP3 g3 (g2.mono le3) GoodV_int h4
      obtain ⟨le5, -, inv5, g5⟩ := outerSet_inv inv4 (hP3.mono le4) (hgd3.mono le4) (g1.mono ((le2.trans le3).trans le4)) g4 h
      exact ⟨(le123.trans le4).trans le5, inv5, g5⟩
  | setrow r v =>
    simp only [step] at h
    obtain ⟨id, s1, h1, h⟩ := bind_ok.mp h
    obtain rfl := slotRow_ok h1
    obtain ⟨i, s2, h2, h⟩ := bind_ok.mp h
    obtain ⟨le2, -, inv2, g2⟩ := evalIx_inv hinv hgd h2
    obtain ⟨le3, -, inv3, g3⟩ := outerSet_inv inv2 (hP.mono le2) (hgd.mono le2) g2 ((hgd.row id).mono le2) h
    exact ⟨le2.trans le3, inv3, g3⟩
  | gather rs =>
    simp only [step] at h
    obtain ⟨⟨ids, a1⟩, s1, h1, h⟩ := bind_ok.mp h
    obtain ⟨rfl, rfl⟩ := pure_ok' h
    obtain ⟨le1, inv1, g1⟩ := gatherRows_inv rs hinv hP hgd h1
    exact ⟨le1, inv1, g1.setMat _⟩
  | newrow v vals =>
    simp only [step] at h
    have h' : (pure ((a.alloc ⟨vals.map Val.int, false⟩).2.setVar v (.row (a.alloc ⟨vals.map Val.int, false⟩).1)) : M Mat) s
        = .ok (a', s') := h
    obtain ⟨rfl, rfl⟩ := pure_ok' h'
    refine ⟨St.le.refl _, hinv, (hgd.alloc (r := ⟨vals.map Val.int, false⟩) ?_).setVarRow v _⟩
    intro x hx
    obtain ⟨y, -, rfl⟩ := List.mem_map.mp hx
    exact GoodV_int

theorem run_inv : ∀ (es : List Ev) {a a' : Mat} {s s' : St}, Inv s → PrimeP s → GoodMat s a →
    run es a s = .ok (a', s') → s.le s' ∧ Inv s' ∧ GoodMat s' a'
  | [], a, a', s, s', hinv, _, hgd, h => by
    unfold run at h
    obtain ⟨rfl, rfl⟩ := pure_ok' h
    exact ⟨St.le.refl _, hinv, hgd⟩
  | e :: es, a, a', s, s', hinv, hP, hgd, h => by
    unfold run at h
    obtain ⟨a1, s1, h1, h⟩ := bind_ok.mp h
    obtain ⟨le1, inv1, g1⟩ := step_inv hinv hP hgd h1
    obtain ⟨le2, inv2, g2⟩ := run_inv es inv1 (hP.mono le1) g1 h
    exact ⟨le1.trans le2, inv2, g2⟩

/-- the initial matrix is coherent -/
theorem init_inv {secret : Bool} {m : List (List Int)} {a : Mat} {s s' : St} (hinv : Inv s)
    (h : init secret m s = .ok (a, s')) : s.le s' ∧ Frame s s' ∧ Inv s' ∧ GoodMat s' a := by
  have hrow : ∀ (r : List Int) {x : List Val} {t t' : St}, Inv t → initRow secret r t = .ok (x, t') →
      t.le t' ∧ Frame t t' ∧ Inv t' ∧ GoodRow t' x := by
    intro r x t t' hinvt hr
    obtain ⟨le1, f1, inv1, g1, -⟩ := mapM'_spec
      (fun v => if secret then (do let x ← privVal v; pure (Val.lc x)) else pure (Val.int v))
      (fun _ _ => True) (fun s r => GoodV s r)
      (fun _ _ _ _ _ _ => trivial) (fun s s' b hle _ x => x.mono hle)
      (fun s s' v r hinv _ h => by
        cases secret with
        | true =>
          simp only [if_true] at h
          obtain ⟨z, s2, hz, h⟩ := bind_ok.mp h
          obtain ⟨rfl, rfl⟩ := pure_ok' h
          obtain ⟨a1, a2, a3, a4, -⟩ := privVal_spec hinv hz
          exact ⟨a1, a2, a3, GoodV_lc.mpr a4⟩
        | false =>
          simp only [Bool.false_eq_true, if_false] at h
          obtain ⟨rfl, rfl⟩ := pure_ok' h
          exact ret_spec hinv GoodV_int)
      r t t' x hinvt (fun _ _ => trivial) hr
    exact ⟨le1, f1, inv1, g1⟩
  have hrows : ∀ (m : List (List Int)) {rows : List Row} {t t' : St}, Inv t → initRows secret m t = .ok (rows, t') →
      t.le t' ∧ Frame t t' ∧ Inv t' ∧ ∀ r ∈ rows, GoodRow t' r.arr := by
    intro m
    induction m with
    | nil =>
      intro rows t t' hinvt hr
      unfold initRows at hr
      obtain ⟨rfl, rfl⟩ := pure_ok' hr
      exact ret_spec hinvt (by simp)
    | cons r m ih =>
      intro rows t t' hinvt hr
      unfold initRows at hr
      obtain ⟨x, t1, h1, hr⟩ := bind_ok.mp hr
      obtain ⟨xs, t2, h2, hr⟩ := bind_ok.mp hr
      obtain ⟨rfl, rfl⟩ := pure_ok' hr
      obtain ⟨le1, f1, inv1, g1⟩ := hrow r hinvt h1
      obtain ⟨le2, f2, inv2, g2⟩ := ih inv1 h2
      refine ⟨le1.trans le2, f1.trans f2, inv2, ?_⟩
      intro y hy
      rcases List.mem_cons.mp hy with rfl | hy
      · exact g1.mono le2
      · exact g2 y hy
  unfold init at h
  obtain ⟨rows, s1, h1, h⟩ := bind_ok.mp h
  obtain ⟨rfl, rfl⟩ := pure_ok' h
  obtain ⟨le1, f1, inv1, g1⟩ := hrows m hinv h1
  exact ⟨le1, f1, inv1, ⟨g1, fun kv hkv => by simp at hkv, fun kv hkv => by simp at hkv⟩⟩

end A2
end Pysnark
