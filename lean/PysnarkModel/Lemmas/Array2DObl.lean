import PysnarkModel.Lemmas.OblVal
import PysnarkModel.Model.Array2D
/-!
# Two-dimensional array access (C15): the constraints do not depend on the index pair

Two runs of a row operation / of `a[i, j]` / of `a[i, j] = v` on matrices of the same shape (elements of the same
kind, any values), with index components of the same kind (plain components equal, secret ones ANY values), from
states of the same shape: same constraints emitted, results of the same shape (`Obl`, `Lemmas/Obl.lean`).
-/
namespace Pysnark
namespace A2

/-- rows of the same shape -/
abbrev RowRel (r1 r2 : List Val) : Prop := Forall2 ValRel r1 r2
/-- matrices of the same shape -/
abbrev MatRel (m1 m2 : List (List Val)) : Prop := Forall2 RowRel m1 m2

theorem scaleRow_obl {c1 c2 : LinComb} (hc : lcEq c1 c2) {r1 r2 : List Val} (hr : RowRel r1 r2) :
    Obl RowRel (scaleRow c1 r1) (scaleRow c2 r2) :=
  mapM'_obl hr (fun _ _ h => mulLV_obl hc h)

theorem addZeroRow_obl {r1 r2 : List Val} (hr : RowRel r1 r2) : Obl RowRel (addZeroRow r1) (addZeroRow r2) :=
  mapM'_obl hr (fun _ _ h => addV_obl h (.int 0))

theorem addRows_obl {a1 a2 b1 b2 : List Val} (ha : RowRel a1 a2) (hb : RowRel b1 b2) :
    Obl RowRel (addRows a1 b1) (addRows a2 b2) := by
  unfold addRows
  split
  · split
    · exact zipWithM'_obl (fun _ _ _ _ ht hg => addV_obl ht hg) ha hb
    · exact Obl.raiseR
  · exact Obl.raiseL

theorem subRows_obl {a1 a2 b1 b2 : List Val} (ha : RowRel a1 a2) (hb : RowRel b1 b2) :
    Obl RowRel (subRows a1 b1) (subRows a2 b2) := by
  unfold subRows
  split
  · split
    · exact zipWithM'_obl (fun _ _ _ _ ht hg => subV_obl ht hg) ha hb
    · exact Obl.raiseR
  · exact Obl.raiseL

theorem iteRow_obl {c1 c2 : LinComb} (hc : lcEq c1 c2) {t1 t2 f1 f2 : List Val} (ht : RowRel t1 t2)
    (hf : RowRel f1 f2) : Obl RowRel (iteRow c1 t1 f1) (iteRow c2 t2 f2) := by
  unfold iteRow
  refine Obl.bind (subRows_obl ht hf) (fun d1 d2 hd => ?_)
  refine Obl.bind (scaleRow_obl hc hd) (fun p1 p2 hp => ?_)
  exact addRows_obl hf hp

theorem foldlM_addRows_obl {ps1 ps2 : List (List Val)} (h : MatRel ps1 ps2) :
    ∀ {a1 a2 : List Val}, RowRel a1 a2 →
      Obl RowRel (ps1.foldlM (fun acc x => addRows acc x) a1) (ps2.foldlM (fun acc x => addRows acc x) a2) := by
  induction h with
  | nil => intro a1 a2 ha; simp only [List.foldlM_nil]; exact Obl.pure ha
  | cons hxy _ ih =>
    intro a1 a2 ha
    simp only [List.foldlM_cons]
    exact Obl.bind (addRows_obl ha hxy) (fun _ _ hr => ih hr)

theorem linCombRows_obl {ixs1 ixs2 : List LinComb} (hix : Forall2 lcEq ixs1 ixs2) {rows1 rows2 : List (List Val)}
    (hrows : MatRel rows1 rows2) : Obl RowRel (linCombRows ixs1 rows1) (linCombRows ixs2 rows2) := by
  unfold linCombRows
  refine Obl.bind (mapM'_obl (Q := RowRel) (Forall2.zip hix hrows) ?_) ?_
  · intro p q hpq
    exact scaleRow_obl hpq.1 hpq.2
  · intro ps1 ps2 hps
    cases hps with
    | nil => exact Obl.raiseL
    | cons hp hps' =>
      dsimp only
      exact Obl.bind (addZeroRow_obl hp) (fun _ _ hr => foldlM_addRows_obl hps' hr)

/-- **reading a row at a secret index** -/
theorem rowRead_obl {rows1 rows2 : List (List Val)} (hrows : MatRel rows1 rows2) {it1 it2 : LinComb}
    (hit : lcEq it1 it2) : Obl RowRel (rowRead rows1 it1) (rowRead rows2 it2) := by
  unfold rowRead
  rw [hrows.length_eq]
  exact Obl.bind (arrayIxs_obl hit _) (fun _ _ hix => linCombRows_obl hix hrows)

/-- the entries of the store loop: selectors of the same shape, the same identity flags, rows of the same shape -/
abbrev IteRel (x y : LinComb × Bool × List Val) : Prop := lcEq x.1 y.1 ∧ x.2.1 = y.2.1 ∧ RowRel x.2.2 y.2.2

theorem rowsIte_obl {v1 v2 : List Val} (hv : RowRel v1 v2) {l1 l2 : List (LinComb × Bool × List Val)}
    (hl : Forall2 IteRel l1 l2) : Obl MatRel (rowsIte v1 l1) (rowsIte v2 l2) := by
  induction hl with
  | nil => simp only [rowsIte]; exact Obl.pure .nil
  | @cons x y xs ys hxy _ ih =>
    obtain ⟨c1, same1, row1⟩ := x
    obtain ⟨c2, same2, row2⟩ := y
    obtain ⟨hc, hs, hr⟩ := hxy
    simp only at hc hs hr
    subst hs
    simp only [rowsIte]
    refine Obl.bind ?_ (fun r1 r2 hr' => Obl.bind ih (fun rs1 rs2 hrs => Obl.pure (.cons hr' hrs)))
    cases same1 with
    | true => simp only [if_true]; exact Obl.pure hr
    | false => simp only [Bool.false_eq_true, if_false]; exact iteRow_obl hc hv hr

theorem rowsWrite_obl {rows1 rows2 : List (Bool × List Val)}
    (hrows : Forall2 (fun x y => x.1 = y.1 ∧ RowRel x.2 y.2) rows1 rows2) {it1 it2 : LinComb} (hit : lcEq it1 it2)
    {v1 v2 : List Val} (hv : RowRel v1 v2) : Obl MatRel (rowsWrite rows1 it1 v1) (rowsWrite rows2 it2 v2) := by
  unfold rowsWrite
  rw [hrows.length_eq]
  refine Obl.bind (arrayIxs_obl hit _) (fun ixs1 ixs2 hix => ?_)
  refine rowsIte_obl hv ?_
  exact (Forall2.zip hix hrows).mono (fun p q h => ⟨h.1, h.2.1, h.2.2⟩)

theorem rowGet_obl {rows1 rows2 : List (List Val)} (hrows : MatRel rows1 rows2) {i1 i2 : Val} (hi : ValRel i1 i2) :
    Obl RowRel (rowGet rows1 i1) (rowGet rows2 i2) := by
  unfold rowGet
  cases hi with
  | int k =>
    dsimp only
    rw [hrows.length_eq]
    cases pyIndex rows2.length k with
    | none => exact Obl.raiseL
    | some n =>
      dsimp only
      cases h1 : rows1[n]? with
      | none => exact Obl.raiseL
      | some v1 =>
        cases h2 : rows2[n]? with
        | none => exact Obl.raiseR
        | some v2 => exact Obl.pure (hrows.getElem? n h1 h2)
  | lc h => exact rowRead_obl hrows h
  | _ => exact Obl.tyErrL

/-- **`a[i, j]`** -/
theorem matGet_obl {rows1 rows2 : List (List Val)} (hrows : MatRel rows1 rows2) {i1 i2 j1 j2 : Val}
    (hi : ValRel i1 i2) (hj : ValRel j1 j2) : Obl ValRel (matGet rows1 i1 j1) (matGet rows2 i2 j2) := by
  unfold matGet
  exact Obl.bind (rowGet_obl hrows hi) (fun _ _ hr => arrayGet_obl hr hj)

/-- **`a[i, j] = v`** -/
theorem matSet_obl {rows1 rows2 : List (List Val)} (hrows : MatRel rows1 rows2) {i1 i2 j1 j2 v1 v2 : Val}
    (hi : ValRel i1 i2) (hj : ValRel j1 j2) (hv : ValRel v1 v2) :
    Obl MatRel (matSet rows1 i1 j1 v1) (matSet rows2 i2 j2 v2) := by
  unfold matSet
  cases hi with
  | int k =>
    dsimp only
    rw [hrows.length_eq]
    cases pyIndex rows2.length k with
    | none => exact Obl.raiseL
    | some n =>
      dsimp only
      cases h1 : rows1[n]? with
      | none => exact Obl.raiseL
      | some r1 =>
        cases h2 : rows2[n]? with
        | none => exact Obl.raiseR
        | some r2 =>
          dsimp only
          exact Obl.bind (arraySet_obl (hrows.getElem? n h1 h2) hj hv) (fun _ _ hr => Obl.pure (hrows.set n hr))
  | lc h =>
    dsimp only
    refine Obl.bind (rowRead_obl hrows h) (fun r1 r2 hr => ?_)
    refine Obl.bind (arraySet_obl hr hj hv) (fun w1 w2 hw => ?_)
    exact rowsWrite_obl (Forall2.map (fun a b hab => ⟨rfl, hab⟩) hrows) h hw
  | _ => exact Obl.tyErrL

end A2
end Pysnark
