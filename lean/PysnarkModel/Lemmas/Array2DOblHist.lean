import PysnarkModel.Lemmas.Array2DObl
import PysnarkModel.Lemmas.BranchObl
/-!
# Two-dimensional array histories (C15): the constraints do not depend on the index values

Two histories of the same form — the same events on the same names, plain indices and written constants equal,
secret index values, branch conditions and secret matrix contents ARBITRARY — run from states of the same shape on
matrices of the same shape: after every event the two states have the same shape (same wires, the same constraints),
the same object structure and values of the same shape (`step_obl`, `run_obl`, `init_obl`).
-/
namespace Pysnark
namespace A2

structure RowObjRel (r1 r2 : Row) : Prop where
  arr : RowRel r1.arr r2.arr
  ro : r1.ro = r2.ro

inductive SlotRel : Slot → Slot → Prop
  | scalar {v1 v2 : Val} : ValRel v1 v2 → SlotRel (.scalar v1) (.scalar v2)
  | row (id : Nat) : SlotRel (.row id) (.row id)

/-- two object states of the same shape: the same objects, rows element-wise of the same kind -/
structure MatObjRel (a1 a2 : Mat) : Prop where
  heap : Forall2 RowObjRel a1.heap a2.heap
  mat : a1.mat = a2.mat
  idx : Forall2 (fun x y => x.1 = y.1 ∧ ValRel x.2 y.2) a1.idx a2.idx
  vars : Forall2 (fun x y => x.1 = y.1 ∧ SlotRel x.2 y.2) a1.vars a2.vars

/-- index specifications of the same form: plain values equal, fresh secret values arbitrary -/
inductive IxRel : Ix → Ix → Prop
  | p (i : Int) : IxRel (.p i) (.p i)
  | s (i1 i2 : Int) : IxRel (.s i1) (.s i2)
  | n (k : Nat) : IxRel (.n k) (.n k)

/-- events of the same form -/
inductive EvRel : Ev → Ev → Prop
  | idxS (name : Nat) (i1 i2 : Int) : EvRel (.idx name true i1) (.idx name true i2)
  | idxP (name : Nat) (i : Int) : EvRel (.idx name false i) (.idx name false i)
  | row (v : Nat) {r1 r2 : Ix} : IxRel r1 r2 → EvRel (.row v r1) (.row v r2)
  | copy (v src : Nat) : EvRel (.copy v src) (.copy v src)
  | rowget (v src : Nat) {c1 c2 : Ix} : IxRel c1 c2 → EvRel (.rowget v src c1) (.rowget v src c2)
  | get2 (v : Nat) {r1 r2 c1 c2 : Ix} : IxRel r1 r2 → IxRel c1 c2 → EvRel (.get2 v r1 c1) (.get2 v r2 c2)
  | getrc (v : Nat) {r1 r2 c1 c2 : Ix} : IxRel r1 r2 → IxRel c1 c2 → EvRel (.getrc v r1 c1) (.getrc v r2 c2)
  | bget (v : Nat) (b1 b2 : Int) {r1 r2 c1 c2 : Ix} : IxRel r1 r2 → IxRel c1 c2 →
      EvRel (.bget v b1 r1 c1) (.bget v b2 r2 c2)
  | set1 (v : Nat) {c1 c2 : Ix} (x : Int) : IxRel c1 c2 → EvRel (.set1 v c1 x) (.set1 v c2 x)
  | setchain (k : Int) {c1 c2 : Ix} (x : Int) : IxRel c1 c2 → EvRel (.setchain k c1 x) (.setchain k c2 x)
  | set2 {r1 r2 c1 c2 : Ix} (x : Int) : IxRel r1 r2 → IxRel c1 c2 → EvRel (.set2 r1 c1 x) (.set2 r2 c2 x)
  | setrow {r1 r2 : Ix} (v : Nat) : IxRel r1 r2 → EvRel (.setrow r1 v) (.setrow r2 v)
  | gather {rs1 rs2 : List Ix} : Forall2 IxRel rs1 rs2 → EvRel (.gather rs1) (.gather rs2)
  | newrow (v : Nat) (vals : List Int) : EvRel (.newrow v vals) (.newrow v vals)

inductive RefRel : RowRef → RowRef → Prop
  | obj (id : Nat) : RefRel (.obj id) (.obj id)
  | view {r1 r2 : List Val} : RowRel r1 r2 → RefRel (.view r1) (.view r2)

/-! ## pure parts -/

theorem lookup_rel {α : Type} {R : α → α → Prop} : ∀ {l1 l2 : List (Nat × α)},
    Forall2 (fun x y => x.1 = y.1 ∧ R x.2 y.2) l1 l2 → ∀ k, OptRel R (lookup l1 k) (lookup l2 k)
  | _, _, .nil, _ => .none
  | _, _, .cons (a := x) (b := y) hxy ht, k => by
    obtain ⟨k1, v1⟩ := x
    obtain ⟨k2, v2⟩ := y
    obtain ⟨hk, hv⟩ := hxy
    simp only at hk hv
    subst hk
    simp only [lookup]
    split
    · exact .some hv
    · exact lookup_rel ht k

theorem getD_rel {r1 r2 : List Row} (h : Forall2 RowObjRel r1 r2) (id : Nat) :
    RowObjRel (r1.getD id ⟨[], false⟩) (r2.getD id ⟨[], false⟩) := by
  induction h generalizing id with
  | nil => exact ⟨.nil, rfl⟩
  | cons hxy _ ih =>
    cases id with
    | zero => simpa using hxy
    | succ k => simpa using ih k

theorem MatObjRel.row {a1 a2 : Mat} (h : MatObjRel a1 a2) (id : Nat) : RowObjRel (a1.row id) (a2.row id) :=
  getD_rel h.heap id

theorem Forall2.map_same {α β : Type} {R : β → β → Prop} {f g : α → β} (l : List α) (h : ∀ x, R (f x) (g x)) :
    Forall2 R (l.map f) (l.map g) := by
  induction l with
  | nil => exact .nil
  | cons x xs ih => exact .cons (h x) ih

theorem MatObjRel.contents {a1 a2 : Mat} (h : MatObjRel a1 a2) : MatRel a1.contents a2.contents := by
  simp only [Mat.contents, Mat.rows, List.map_map, h.mat]
  exact Forall2.map_same _ (fun id => (h.row id).arr)

theorem MatObjRel.deref {a1 a2 : Mat} (h : MatObjRel a1 a2) {r1 r2 : RowRef} (hr : RefRel r1 r2) :
    RowRel (a1.deref r1) (a2.deref r2) := by
  cases hr with
  | obj id => exact (h.row id).arr
  | view hv => exact hv

theorem MatObjRel.alloc {a1 a2 : Mat} (h : MatObjRel a1 a2) {r1 r2 : Row} (hr : RowObjRel r1 r2) :
    (a1.alloc r1).1 = (a2.alloc r2).1 ∧ MatObjRel (a1.alloc r1).2 (a2.alloc r2).2 := by
  refine ⟨by simp [Mat.alloc, h.heap.length_eq], ?_⟩
  exact ⟨h.heap.append (.cons hr .nil), h.mat, h.idx, h.vars⟩

theorem MatObjRel.hold {a1 a2 : Mat} (h : MatObjRel a1 a2) {r1 r2 : RowRef} (hr : RefRel r1 r2) :
    (a1.hold r1).1 = (a2.hold r2).1 ∧ MatObjRel (a1.hold r1).2 (a2.hold r2).2 := by
  cases hr with
  | obj id => exact ⟨rfl, h⟩
  | view hv => exact h.alloc (r1 := ⟨_, true⟩) (r2 := ⟨_, true⟩) ⟨hv, rfl⟩

theorem MatObjRel.setVar {a1 a2 : Mat} (h : MatObjRel a1 a2) (v : Nat) {x1 x2 : Slot} (hx : SlotRel x1 x2) :
    MatObjRel (a1.setVar v x1) (a2.setVar v x2) :=
  ⟨h.heap, h.mat, h.idx, .cons ⟨rfl, hx⟩ h.vars⟩

theorem MatObjRel.setArr {a1 a2 : Mat} (h : MatObjRel a1 a2) (id : Nat) {r1 r2 : List Val} (hr : RowRel r1 r2) :
    MatObjRel (a1.setArr id r1) (a2.setArr id r2) :=
  ⟨h.heap.set id ⟨hr, (h.row id).ro⟩, h.mat, h.idx, h.vars⟩

theorem MatObjRel.setMat {a1 a2 : Mat} (h : MatObjRel a1 a2) (m : List Nat) :
    MatObjRel { a1 with mat := m } { a2 with mat := m } :=
  ⟨h.heap, rfl, h.idx, h.vars⟩

theorem rebuild_rel : ∀ {l1 l2 : List (Nat × Bool × List Val)},
    Forall2 (fun x y => x.1 = y.1 ∧ x.2.1 = y.2.1 ∧ RowRel x.2.2 y.2.2) l1 l2 → ∀ {a1 a2 : Mat}, MatObjRel a1 a2 →
    (rebuild a1 l1).1 = (rebuild a2 l2).1 ∧ MatObjRel (rebuild a1 l1).2 (rebuild a2 l2).2
  | _, _, .nil, _, _, h => ⟨rfl, h⟩
  | _, _, .cons (a := x) (b := y) hxy ht, a1, a2, h => by
    obtain ⟨id1, same1, c1⟩ := x
    obtain ⟨id2, same2, c2⟩ := y
    obtain ⟨hid, hs, hc⟩ := hxy
    simp only at hid hs hc
    subst hid; subst hs
    cases same1 with
    | true =>
      obtain ⟨e1, e2⟩ := rebuild_rel ht h
      simp only [rebuild, if_true]
      exact ⟨by rw [e1], e2⟩
    | false =>
      obtain ⟨e0, h0⟩ := h.alloc (r1 := ⟨c1, false⟩) (r2 := ⟨c2, false⟩) ⟨hc, rfl⟩
      obtain ⟨e1, e2⟩ := rebuild_rel ht h0
      simp only [rebuild, Bool.false_eq_true, if_false]
      exact ⟨by rw [e0, e1], e2⟩

theorem Forall2.zip3 {α β γ δ : Type} {R : α → β → Prop} {Q : γ → δ → Prop} {l1 : List α} {l2 : List β}
    (h : Forall2 R l1 l2) {m1 : List γ} {m2 : List δ} (hm : Forall2 Q m1 m2) :
    Forall2 (fun p q => R p.1 q.1 ∧ Q p.2 q.2) (l1.zip m1) (l2.zip m2) := Forall2.zip h hm

theorem forall2_eq_self {α : Type} (l : List α) : Forall2 Eq l l := by
  induction l with
  | nil => exact .nil
  | cons x xs ih => exact .cons rfl ih

/-! ## the monadic parts -/

theorem evalIx_obl {a1 a2 : Mat} (h : MatObjRel a1 a2) {x1 x2 : Ix} (hx : IxRel x1 x2) :
    Obl ValRel (evalIx a1 x1) (evalIx a2 x2) := by
  cases hx with
  | p i => exact Obl.pure (.int i)
  | s i1 i2 =>
    simp only [evalIx]
    exact Obl.bind (privVal_obl i1 i2) (fun _ _ hv => Obl.pure (.lc hv))
  | n k =>
    simp only [evalIx]
    have := lookup_rel h.idx k
    revert this
    generalize lookup a1.idx k = o1
    generalize lookup a2.idx k = o2
    intro this
    cases this with
    | none => exact Obl.raiseL
    | some hv => exact Obl.pure hv

theorem outerGet_obl {a1 a2 : Mat} (h : MatObjRel a1 a2) {i1 i2 : Val} (hi : ValRel i1 i2) :
    Obl RefRel (outerGet a1 i1) (outerGet a2 i2) := by
  unfold outerGet
  cases hi with
  | int k =>
    dsimp only
    rw [h.mat]
    cases pyIndex a2.mat.length k with
    | none => exact Obl.raiseL
    | some n =>
      dsimp only
      cases a2.mat[n]? with
      | none => exact Obl.raiseL
      | some id => exact Obl.pure (.obj id)
  | lc hl =>
    dsimp only
    exact Obl.bind (rowRead_obl h.contents hl) (fun _ _ hr => Obl.pure (.view hr))
  | _ => exact Obl.tyErrL

theorem outerSet_obl {a1 a2 : Mat} (h : MatObjRel a1 a2) {i1 i2 : Val} (hi : ValRel i1 i2) {v1 v2 : List Val}
    (hv : RowRel v1 v2) (oid : Option Nat) : Obl MatObjRel (outerSet a1 i1 v1 oid) (outerSet a2 i2 v2 oid) := by
  unfold outerSet
  cases hi with
  | int k =>
    dsimp only
    rw [h.mat]
    cases pyIndex a2.mat.length k with
    | none => exact Obl.raiseL
    | some n =>
      dsimp only
      cases oid with
      | some id =>
        dsimp only
        have := h.setMat (a2.mat.set n id)
        rw [← h.mat] at this
        simpa [h.mat] using Obl.pure this
      | none =>
        dsimp only
        obtain ⟨e0, h0⟩ := h.alloc (r1 := ⟨v1, false⟩) (r2 := ⟨v2, false⟩) ⟨hv, rfl⟩
        refine Obl.pure ?_
        have hm : (a1.alloc ⟨v1, false⟩).2.mat = (a2.alloc ⟨v2, false⟩).2.mat := h0.mat
        have := h0.setMat ((a2.alloc ⟨v2, false⟩).2.mat.set n (a2.alloc ⟨v2, false⟩).1)
        simpa [hm, e0] using this
  | lc hl =>
    dsimp only
    have hflags : Forall2 (fun x y => x.1 = y.1 ∧ RowRel x.2 y.2)
        (a1.mat.map fun id => (oid == some id, (a1.row id).arr))
        (a2.mat.map fun id => (oid == some id, (a2.row id).arr)) := by
      rw [h.mat]
      exact Forall2.map_same _ (fun id => ⟨rfl, (h.row id).arr⟩)
    refine Obl.bind (rowsWrite_obl hflags hl hv) (fun n1 n2 hn => ?_)
    have hl3 : Forall2 (fun x y => x.1 = y.1 ∧ x.2.1 = y.2.1 ∧ RowRel x.2.2 y.2.2)
        (a1.mat.zip (((a1.mat.map fun id => (oid == some id, (a1.row id).arr)).zip n1).map fun fn => (fn.1.1, fn.2)))
        (a2.mat.zip (((a2.mat.map fun id => (oid == some id, (a2.row id).arr)).zip n2).map fun fn => (fn.1.1, fn.2))) := by
      have hz := Forall2.zip hflags hn
      have hm := Forall2.map (Q := fun (x y : Bool × List Val) => x.1 = y.1 ∧ RowRel x.2 y.2)
        (f := fun (fn : (Bool × List Val) × List Val) => (fn.1.1, fn.2))
        (g := fun (fn : (Bool × List Val) × List Val) => (fn.1.1, fn.2))
        (fun a b hab => ⟨hab.1.1, hab.2⟩) hz
      have hmat : Forall2 Eq a1.mat a2.mat := by rw [h.mat]; exact forall2_eq_self _
      exact (Forall2.zip hmat hm).mono (fun p q hpq => ⟨hpq.1, hpq.2.1, hpq.2.2⟩)
    obtain ⟨e1, e2⟩ := rebuild_rel hl3 h
    refine Obl.pure ?_
    show MatObjRel { (rebuild a1 _).2 with mat := (rebuild a1 _).1 } { (rebuild a2 _).2 with mat := (rebuild a2 _).1 }
    rw [e1]
    exact e2.setMat _
  | _ => exact Obl.tyErrL

theorem slotRow_obl {a1 a2 : Mat} (h : MatObjRel a1 a2) (v : Nat) : Obl Eq (slotRow a1 v) (slotRow a2 v) := by
  unfold slotRow
  have := lookup_rel h.vars v
  revert this
  generalize lookup a1.vars v = o1
  generalize lookup a2.vars v = o2
  intro this
  cases this with
  | none => exact Obl.raiseL
  | some hv =>
    cases hv with
    | scalar _ => exact Obl.raiseL
    | row id => exact Obl.pure rfl

theorem writeRow_obl {a1 a2 : Mat} (h : MatObjRel a1 a2) (id : Nat) {j1 j2 : Val} (hj : ValRel j1 j2) (x : Int) :
    Obl MatObjRel (writeRow a1 id j1 x) (writeRow a2 id j2 x) := by
  unfold writeRow
  rw [(h.row id).ro]
  cases (a2.row id).ro with
  | true => simp only [if_true]; exact Obl.raiseL
  | false =>
    simp only [Bool.false_eq_true, if_false]
    exact Obl.bind (arraySet_obl (h.row id).arr hj (.int x)) (fun _ _ hr => Obl.pure (h.setArr id hr))

theorem get2Core_obl {a1 a2 : Mat} (h : MatObjRel a1 a2) {i1 i2 j1 j2 : Val} (hi : ValRel i1 i2)
    (hj : ValRel j1 j2) : Obl ValRel (get2Core a1 i1 j1) (get2Core a2 i2 j2) := by
  unfold get2Core
  exact Obl.bind (outerGet_obl h hi) (fun _ _ hr => arrayGet_obl (h.deref hr) hj)

theorem gatherRows_obl : ∀ {rs1 rs2 : List Ix}, Forall2 IxRel rs1 rs2 → ∀ {a1 a2 : Mat}, MatObjRel a1 a2 →
    Obl (fun x y => x.1 = y.1 ∧ MatObjRel x.2 y.2) (gatherRows rs1 a1) (gatherRows rs2 a2)
  | _, _, .nil, _, _, h => by
    simp only [gatherRows]
    exact Obl.pure ⟨rfl, h⟩
  | _, _, .cons hx ht, a1, a2, h => by
    simp only [gatherRows]
    refine Obl.bind (evalIx_obl h hx) (fun i1 i2 hi => ?_)
    refine Obl.bind (outerGet_obl h hi) (fun r1 r2 hr => ?_)
    obtain ⟨e1, e2⟩ := h.hold hr
    refine Obl.bind (gatherRows_obl ht e2) (fun p1 p2 hp => ?_)
    exact Obl.pure ⟨by rw [e1, hp.1], hp.2⟩

/-- **one event** -/
theorem step_obl {a1 a2 : Mat} (h : MatObjRel a1 a2) {e1 e2 : Ev} (he : EvRel e1 e2) :
    Obl MatObjRel (step a1 e1) (step a2 e2) := by
  cases he with
  | idxS name i1 i2 =>
    simp only [step, if_true]
    refine Obl.bind (Obl.bind (privVal_obl i1 i2) (fun _ _ hv => Obl.pure (ValRel.lc hv))) (fun v1 v2 hv => ?_)
    exact Obl.pure ⟨h.heap, h.mat, .cons ⟨rfl, hv⟩ h.idx, h.vars⟩
  | idxP name i =>
    simp only [step, Bool.false_eq_true, if_false]
    refine Obl.bind (Obl.pure (ValRel.int i)) (fun v1 v2 hv => ?_)
    exact Obl.pure ⟨h.heap, h.mat, .cons ⟨rfl, hv⟩ h.idx, h.vars⟩
  | row v hr =>
    simp only [step]
    refine Obl.bind (evalIx_obl h hr) (fun i1 i2 hi => ?_)
    refine Obl.bind (outerGet_obl h hi) (fun r1 r2 hrr => ?_)
    obtain ⟨e1, e2⟩ := h.hold hrr
    refine Obl.pure ?_
    rw [e1]
    exact e2.setVar v (.row _)
  | copy v src =>
    simp only [step]
    refine Obl.bind (slotRow_obl h src) (fun id1 id2 hid => ?_)
    subst hid
    obtain ⟨e1, e2⟩ := h.alloc (r1 := ⟨(a1.row id1).arr, false⟩) (r2 := ⟨(a2.row id1).arr, false⟩)
      ⟨(h.row id1).arr, rfl⟩
    refine Obl.pure ?_
    rw [e1]
    exact e2.setVar v (.row _)
  | rowget v src hc =>
    simp only [step]
    refine Obl.bind (slotRow_obl h src) (fun id1 id2 hid => ?_)
    subst hid
    refine Obl.bind (evalIx_obl h hc) (fun j1 j2 hj => ?_)
    refine Obl.bind (arrayGet_obl (h.row id1).arr hj) (fun x1 x2 hx => ?_)
    exact Obl.pure (h.setVar v (.scalar hx))
  | get2 v hr hc =>
    simp only [step]
    refine Obl.bind (evalIx_obl h hr) (fun i1 i2 hi => ?_)
    refine Obl.bind (evalIx_obl h hc) (fun j1 j2 hj => ?_)
    refine Obl.bind (get2Core_obl h hi hj) (fun x1 x2 hx => ?_)
    exact Obl.pure (h.setVar v (.scalar hx))
  | getrc v hr hc =>
    simp only [step]
    refine Obl.bind (evalIx_obl h hr) (fun i1 i2 hi => ?_)
    refine Obl.bind (outerGet_obl h hi) (fun r1 r2 hrr => ?_)
    refine Obl.bind (evalIx_obl h hc) (fun j1 j2 hj => ?_)
    refine Obl.bind (arrayGet_obl (h.deref hrr) hj) (fun x1 x2 hx => ?_)
    exact Obl.pure (h.setVar v (.scalar hx))
  | bget v b1 b2 hr hc =>
    simp only [step]
    refine Obl.bind (evalIx_obl h hr) (fun i1 i2 hi => ?_)
    refine Obl.bind (evalIx_obl h hc) (fun j1 j2 hj => ?_)
    refine Obl.bind (privValBool_obl b1 b2) (fun c1 c2 hcb => ?_)
    refine Obl.bind (guardedM_obl hcb (get2Core_obl h hi hj)) (fun t1 t2 ht => ?_)
    refine Obl.bind (boolNot_obl hcb) (fun n1 n2 hn => ?_)
    refine Obl.bind (guardedM_obl hn (Obl.pure (ValRel.int 0))) (fun f1 f2 hf => ?_)
    refine Obl.bind (iteScalar_obl hcb ht hf) (fun x1 x2 hx => ?_)
    exact Obl.pure (h.setVar v (.scalar hx))
  | set1 v x hc =>
    simp only [step]
    refine Obl.bind (slotRow_obl h v) (fun id1 id2 hid => ?_)
    subst hid
    refine Obl.bind (evalIx_obl h hc) (fun j1 j2 hj => ?_)
    exact writeRow_obl h id1 hj x
  | setchain k x hc =>
    simp only [step]
    refine Obl.bind (outerGet_obl h (.int k)) (fun r1 r2 hrr => ?_)
    refine Obl.bind (evalIx_obl h hc) (fun j1 j2 hj => ?_)
    cases hrr with
    | obj id => exact writeRow_obl h id hj x
    | view _ => exact Obl.raiseL
  | set2 x hr hc =>
    simp only [step]
    refine Obl.bind (evalIx_obl h hr) (fun i1 i2 hi => ?_)
    refine Obl.bind (evalIx_obl h hc) (fun j1 j2 hj => ?_)
    refine Obl.bind (outerGet_obl h hi) (fun r1 r2 hrr => ?_)
    cases hrr with
    | obj id =>
      dsimp only
      rw [(h.row id).ro]
      cases (a2.row id).ro with
      | true =>
        simp only [if_true]
        exact Obl.bind (arraySet_obl (h.row id).arr hj (.int x)) (fun _ _ hw => outerSet_obl h hi hw Option.none)
      | false =>
        simp only [Bool.false_eq_true, if_false]
        exact Obl.bind (arraySet_obl (h.row id).arr hj (.int x))
          (fun _ _ hw => outerSet_obl (h.setArr id hw) hi hw (some id))
    | view hv =>
      dsimp only
      exact Obl.bind (arraySet_obl hv hj (.int x)) (fun _ _ hw => outerSet_obl h hi hw Option.none)
  | setrow v hr =>
    simp only [step]
    refine Obl.bind (slotRow_obl h v) (fun id1 id2 hid => ?_)
    subst hid
    refine Obl.bind (evalIx_obl h hr) (fun i1 i2 hi => ?_)
    exact outerSet_obl h hi (h.row id1).arr (some id1)
  | gather hrs =>
    simp only [step]
    refine Obl.bind (gatherRows_obl hrs h) (fun p1 p2 hp => ?_)
    obtain ⟨ids1, b1⟩ := p1
    obtain ⟨ids2, b2⟩ := p2
    obtain ⟨e1, e2⟩ := hp
    simp only at e1 e2
    subst e1
    exact Obl.pure (e2.setMat ids1)
  | newrow v vals =>
    simp only [step]
    obtain ⟨e1, e2⟩ := h.alloc (r1 := ⟨vals.map Val.int, false⟩) (r2 := ⟨vals.map Val.int, false⟩)
      ⟨Forall2.map_same (f := Val.int) (g := Val.int) vals (fun x => ValRel.int x), rfl⟩
    refine Obl.pure ?_
    show MatObjRel ((a1.alloc ⟨vals.map Val.int, false⟩).2.setVar v (.row (a1.alloc ⟨vals.map Val.int, false⟩).1))
      ((a2.alloc ⟨vals.map Val.int, false⟩).2.setVar v (.row (a2.alloc ⟨vals.map Val.int, false⟩).1))
    rw [e1]
    exact e2.setVar v (.row _)

/-- **histories of the same form emit the same constraints**, whatever the secret index values, branch conditions
and secret contents -/
theorem run_obl : ∀ {es1 es2 : List Ev}, Forall2 EvRel es1 es2 → ∀ {a1 a2 : Mat}, MatObjRel a1 a2 →
    Obl MatObjRel (run es1 a1) (run es2 a2)
  | _, _, .nil, _, _, h => by simp only [run]; exact Obl.pure h
  | _, _, .cons he ht, a1, a2, h => by
    simp only [run]
    exact Obl.bind (step_obl h he) (fun _ _ h1 => run_obl ht h1)

theorem initRow_obl (secret : Bool) : ∀ {r1 r2 : List Int}, Forall2 (fun x y => secret = true ∨ x = y) r1 r2 →
    Obl RowRel (initRow secret r1) (initRow secret r2) := by
  intro r1 r2 h
  unfold initRow
  refine mapM'_obl h ?_
  intro x y hxy
  cases secret with
  | true =>
    simp only [if_true]
    exact Obl.bind (privVal_obl x y) (fun _ _ hv => Obl.pure (.lc hv))
  | false =>
    simp only [Bool.false_eq_true, if_false]
    rcases hxy with hxy | rfl
    · cases hxy
    · exact Obl.pure (.int x)

theorem initRows_obl (secret : Bool) : ∀ {m1 m2 : List (List Int)},
    Forall2 (Forall2 (fun x y => secret = true ∨ x = y)) m1 m2 →
    Obl (Forall2 RowObjRel) (initRows secret m1) (initRows secret m2)
  | _, _, .nil => by simp only [initRows]; exact Obl.pure .nil
  | _, _, .cons hr ht => by
    simp only [initRows]
    refine Obl.bind (initRow_obl secret hr) (fun x1 x2 hx => ?_)
    refine Obl.bind (initRows_obl secret ht) (fun xs1 xs2 hxs => ?_)
    exact Obl.pure (.cons ⟨hx, rfl⟩ hxs)

/-- two initial matrices of the same dimensions (secret: any contents; constant: the same contents) -/
theorem init_obl (secret : Bool) {m1 m2 : List (List Int)}
    (hm : Forall2 (Forall2 (fun x y => secret = true ∨ x = y)) m1 m2) :
    Obl MatObjRel (init secret m1) (init secret m2) := by
  unfold init
  refine Obl.bind (initRows_obl secret hm) (fun r1 r2 hr => ?_)
  refine Obl.pure ⟨hr, by simp [hr.length_eq], .nil, .nil⟩

end A2
end Pysnark
