import PysnarkModel.Spec.Array2D
import Mathlib.Data.List.Nodup
/-!
# Reference semantics (C15): histories of element accesses need no notion of object

`Spec/Array2D.lean` has two readings of a history: `sstep` on row OBJECTS and `pstep` directly on `List (List Int)`
for the events that go through the matrix (`Ev.direct`: index objects, `m[i,j]`, `m[i][j]`, reads in a branch,
`m[i,j] = x`).  Here: as long as the rows of the matrix are pairwise distinct writable objects (`Dist`: true of the
initial matrix, preserved by direct events), the two readings agree event by event — values read, matrix, and error
class included.  No model, no wires: plain list reasoning.
-/
namespace Pysnark
namespace A2

/-- the values read (scalar variables) -/
def scalars : List (Nat × SSlot) → List (Nat × Int)
  | [] => []
  | (k, .scalar x) :: t => (k, x) :: scalars t
  | (_, .row _) :: t => scalars t

/-- what a direct history can see of an object state: the matrix, the index objects, the values read -/
def proj (r : SMat) : PMat := ⟨r.matrix, r.idx, scalars r.vars⟩

/-- the rows of the matrix are pairwise distinct, existing, writable objects -/
structure Dist (r : SMat) : Prop where
  nodup : r.mat.Nodup
  inHeap : ∀ id ∈ r.mat, id < r.heap.length
  rw : ∀ id ∈ r.mat, (r.row id).ro = false

theorem matrix_length (r : SMat) : r.matrix.length = r.mat.length := by simp [SMat.matrix]

theorem nth_map {α β : Type} (f : α → β) (l : List α) (k : Nat) :
    nth (l.map f) k = (match nth l k with | .ok x => .ok (f x) | .error e => .error e) := by
  unfold nth
  simp only [List.getElem?_map]
  cases l[k]? <;> rfl

theorem sIx_proj (r : SMat) (ix : Ix) : pIx (proj r) ix = sIx r ix := by
  cases ix <;> rfl

/-- `m[i][j]` on the objects is `m[i][j]` on the list of lists -/
theorem sGet2_eq (r : SMat) (i j : SIx) : sGet2 r i j = pGet r.matrix i j := by
  unfold sGet2 pGet sOuterGet
  rw [matrix_length]
  cases hp : pos r.mat.length i with
  | error e => rfl
  | ok k =>
    simp only [bind, Except.bind, SMat.matrix, nth_map]
    cases hn : nth r.mat k with
    | error e => rfl
    | ok id => rfl

theorem nth_ok_iff {α : Type} {l : List α} {k : Nat} {x : α} : nth l k = .ok x ↔ l[k]? = some x := by
  unfold nth
  cases h : l[k]? with
  | none => simp
  | some y => simp

theorem row_set_self (r : SMat) (id : Nat) (v : List Int) (hid : id < r.heap.length) :
    (r.setVals id v).row id = ⟨v, (r.row id).ro⟩ := by
  simp [SMat.setVals, SMat.row, List.getD_eq_getElem?_getD, hid]

theorem row_set_other (r : SMat) (id id' : Nat) (v : List Int) (hne : id' ≠ id) :
    (r.setVals id v).row id' = r.row id' := by
  simp only [SMat.setVals, SMat.row, List.getD_eq_getElem?_getD]
  rw [List.getElem?_set_ne (by omega)]

/-- writing through one of pairwise distinct row objects replaces exactly that row of the matrix -/
theorem matrix_setVals {r : SMat} (hd : Dist r) {k id : Nat} (hk : r.mat[k]? = some id) (v : List Int) :
    (r.setVals id v).matrix = r.matrix.set k v := by
  obtain ⟨hlt, rfl⟩ := List.getElem?_eq_some_iff.mp hk
  apply List.ext_getElem
  · simp [SMat.matrix, SMat.setVals]
  · intro k' h1 h2
    have hk' : k' < r.mat.length := by simpa [SMat.matrix, SMat.setVals] using h1
    simp only [SMat.matrix, List.getElem_map, List.getElem_set]
    have hmat : (r.setVals r.mat[k] v).mat = r.mat := rfl
    simp only [hmat]
    by_cases e : k = k'
    · subst e
      simp [row_set_self r _ v (hd.inHeap _ (List.getElem_mem hlt))]
    · have hne : r.mat[k'] ≠ r.mat[k] := by
        intro h
        exact e ((List.Nodup.getElem_inj_iff hd.nodup).mp h).symm
      simp [e, row_set_other r _ _ v hne]

theorem Dist.setVals {r : SMat} (hd : Dist r) (id : Nat) (v : List Int) : Dist (r.setVals id v) where
  nodup := hd.nodup
  inHeap := by intro id' h; simpa [SMat.setVals] using hd.inHeap id' h
  rw := by
    intro id' h
    have h' : id' ∈ r.mat := h
    by_cases e : id' = id
    · subst e
      rw [row_set_self r _ v (hd.inHeap _ h')]
      exact hd.rw _ h'
    · rw [row_set_other r _ _ v e]
      exact hd.rw _ h'

/-- rebuilding with no row kept: one fresh writable object per row, in order -/
theorem sRebuild_fresh : ∀ (l : List (Nat × Bool × List Int)) (r : SMat), (∀ x ∈ l, x.2.1 = false) →
    sRebuild r l = (List.range' r.heap.length l.length,
      { r with heap := r.heap ++ l.map (fun x => (⟨x.2.2, false⟩ : SRow)) })
  | [], r, _ => by simp [sRebuild]
  | (id, same, c) :: t, r, h => by
    have hs : same = false := h (id, same, c) List.mem_cons_self
    subst hs
    have ih := sRebuild_fresh t (r.alloc ⟨c, false⟩).2 (fun x hx => h x (List.mem_cons_of_mem _ hx))
    simp only [sRebuild, Bool.false_eq_true, if_false, ih]
    simp [SMat.alloc, List.range'_succ]

theorem enumFrom_len {α : Type} : ∀ (n : Nat) (l : List α), (enumFrom n l).length = l.length
  | _, [] => rfl
  | n, _ :: xs => by simp [enumFrom, enumFrom_len (n+1) xs]

theorem enumFrom_get {α : Type} : ∀ (n : Nat) (l : List α) (k : Nat) (hk : k < (enumFrom n l).length),
    (enumFrom n l)[k] = (n + k, l[k]'(by simpa [enumFrom_len] using hk))
  | _, [], k, hk => by simp [enumFrom] at hk
  | n, x :: xs, 0, _ => by simp [enumFrom]
  | n, x :: xs, k+1, hk => by
    simp only [enumFrom, List.getElem_cons_succ]
    rw [enumFrom_get (n+1) xs k (by simpa [enumFrom] using hk)]
    simp only [Prod.mk.injEq, and_true]
    omega

/-- a store of fresh values at a secret row index: every row a fresh object, row `k` holding the stored values -/
theorem sOuterSet_secret (r : SMat) (k : Nat) (vals : List Int) :
    (sOuterSet r true k vals Option.none).matrix = r.matrix.set k vals ∧ Dist (sOuterSet r true k vals Option.none) ∧
    (sOuterSet r true k vals Option.none).idx = r.idx ∧ (sOuterSet r true k vals Option.none).vars = r.vars := by
  have hfresh := sRebuild_fresh ((enumFrom 0 r.mat).map fun (kid : Nat × Nat) =>
      (kid.2, (Option.none : Option Nat) == some kid.2, if kid.1 = k then vals else (r.row kid.2).vals)) r (by
    intro x hx
    obtain ⟨y, -, rfl⟩ := List.mem_map.mp hx
    rfl)
  simp only [sOuterSet, if_true, hfresh, List.length_map, enumFrom_len, List.map_map]
  refine ⟨?_, ?_, by trivial, by trivial⟩
  · apply List.ext_getElem
    · simp [SMat.matrix]
    · intro k' h1 h2
      have hk' : k' < r.mat.length := by simpa [SMat.matrix] using h1
      simp only [SMat.matrix, List.getElem_map, List.getElem_range', List.getElem_set, SMat.row,
        List.getD_eq_getElem?_getD]
      rw [List.getElem?_append_right (by omega)]
      simp only [Nat.add_sub_cancel_left, List.getElem?_map, Function.comp_def]
      rw [List.getElem?_eq_getElem (by simpa [enumFrom_len] using hk'), enumFrom_get]
      simp only [Option.map_some, Option.getD_some, Nat.zero_add]
      by_cases e : k' = k
      · simp [e]
      · have e' : ¬ k = k' := fun h => e h.symm
        simp [e, e']
  · refine ⟨List.nodup_range' 1, ?_, ?_⟩
    · intro id hid
      simp only [List.mem_range'_1] at hid
      simp only [List.length_append, List.length_map, enumFrom_len]
      omega
    · intro id hid
      simp only [List.mem_range'_1] at hid
      simp only [SMat.row, List.getD_eq_getElem?_getD]
      rw [List.getElem?_append_right (by omega)]
      have hlt : id - r.heap.length < (enumFrom 0 r.mat).length := by rw [enumFrom_len]; omega
      simp [List.getElem?_map, List.getElem?_eq_getElem hlt]

theorem pos_lt' {n : Nat} {ix : SIx} {k : Nat} (h : pos n ix = .ok k) : k < n := by
  obtain ⟨sec, i⟩ := ix
  cases sec with
  | true =>
    simp only [pos, if_true] at h
    split at h
    · cases h; omega
    · cases h
  | false =>
    simp only [pos, Bool.false_eq_true, if_false] at h
    split at h
    · rename_i k' hk
      cases h
      unfold pyIndex at hk
      split at hk
      · rename_i hc
        simp only [Bool.and_eq_true, decide_eq_true_eq] at hc
        cases hk; omega
      · split at hk
        · rename_i hc
          simp only [Bool.and_eq_true, decide_eq_true_eq] at hc
          cases hk; omega
        · cases hk
    · cases h

/-- **one direct event**: the object reading and the list-of-lists reading agree (result or error class), and the rows
stay pairwise distinct writable objects -/
theorem direct_step {r : SMat} {e : Ev} (hd : Dist r) (he : e.direct = true) :
    (match sstep r e with | .ok r' => .ok (proj r') | .error x => .error x) = pstep (proj r) e ∧
    (∀ r', sstep r e = .ok r' → Dist r') := by
  cases e with
  | idx name sec i => exact ⟨rfl, fun r' h => by cases h; exact ⟨hd.nodup, hd.inHeap, hd.rw⟩⟩
  | get2 v ri c =>
    simp only [sstep, pstep, sIx_proj, bind, Except.bind]
    cases sIx r ri with
    | error x => exact ⟨rfl, fun r' h => by cases h⟩
    | ok i =>
      cases sIx r c with
      | error x => exact ⟨rfl, fun r' h => by cases h⟩
      | ok j =>
        simp only [sGet2_eq, proj]
        generalize pGet r.matrix i j = g
        cases g with
        | error x => exact ⟨rfl, fun r' h => by cases h⟩
        | ok x => exact ⟨rfl, fun r' h => by cases h; exact ⟨hd.nodup, hd.inHeap, hd.rw⟩⟩
  | getrc v ri c =>
    simp only [sstep, pstep, sIx_proj, bind, Except.bind]
    cases sIx r ri with
    | error x => exact ⟨rfl, fun r' h => by cases h⟩
    | ok i =>
      cases sIx r c with
      | error x => exact ⟨rfl, fun r' h => by cases h⟩
      | ok j =>
        simp only [sGet2_eq, proj]
        generalize pGet r.matrix i j = g
        cases g with
        | error x => exact ⟨rfl, fun r' h => by cases h⟩
        | ok x => exact ⟨rfl, fun r' h => by cases h; exact ⟨hd.nodup, hd.inHeap, hd.rw⟩⟩
  | bget v cnd ri c =>
    simp only [sstep, pstep, sIx_proj, bind, Except.bind]
    cases sIx r ri with
    | error x => exact ⟨rfl, fun r' h => by cases h⟩
    | ok i =>
      cases sIx r c with
      | error x => exact ⟨rfl, fun r' h => by cases h⟩
      | ok j =>
        simp only [sGet2_eq, proj]
        by_cases h1 : cnd = 1
        · simp only [h1, if_true]
          generalize pGet r.matrix i j = g
          cases g with
          | error x => exact ⟨rfl, fun r' h => by cases h⟩
          | ok x => exact ⟨rfl, fun r' h => by cases h; exact ⟨hd.nodup, hd.inHeap, hd.rw⟩⟩
        · simp only [h1, if_false]
          by_cases h0 : cnd = 0
          · simp only [h0, if_true]
            exact ⟨rfl, fun r' h => by cases h; exact ⟨hd.nodup, hd.inHeap, hd.rw⟩⟩
          · simp only [h0, if_false]
            exact ⟨by trivial, fun r' h => by cases h⟩
  | set2 ri c x =>
    simp only [sstep, pstep, sIx_proj, bind, Except.bind]
    cases sIx r ri with
    | error x => exact ⟨rfl, fun r' h => by cases h⟩
    | ok i =>
      cases sIx r c with
      | error x => exact ⟨rfl, fun r' h => by cases h⟩
      | ok j =>
        simp only [pSet, sOuterGet, proj, matrix_length, bind, Except.bind]
        cases hp : pos r.mat.length i with
        | error e => exact ⟨rfl, fun r' h => by cases h⟩
        | ok k =>
          have hk : k < r.mat.length := pos_lt' hp
          have hn : nth r.mat k = .ok r.mat[k] := by simp [nth, List.getElem?_eq_getElem hk]
          have hnm : nth r.matrix k = .ok (r.row r.mat[k]).vals := by
            simp [nth, SMat.matrix, List.getElem?_eq_getElem hk]
          simp only [hn, hnm, pure, Except.pure]
          have hmem := List.getElem_mem hk
          cases hq : pos (r.row r.mat[k]).vals.length j with
          | error e => exact ⟨rfl, fun r' h => by cases h⟩
          | ok l =>
            simp only
            cases hsec : i.1 with
            | true =>
              obtain ⟨m1, m2, m3, m4⟩ := sOuterSet_secret r k ((r.row r.mat[k]).vals.set l x)
              simp only [if_true]
              refine ⟨?_, fun r' h => by cases h; exact m2⟩
              simp only [m1, m3, m4]
            | false =>
              simp only [Bool.false_eq_true, if_false, hd.rw _ hmem]
              refine ⟨?_, fun r' h => by cases h; exact hd.setVals _ _⟩
              simp only [matrix_setVals hd (List.getElem?_eq_getElem hk)]
              rfl
  | _ => simp [Ev.direct] at he

/-- **direct histories**: object reading = list-of-lists reading, whatever the history -/
theorem direct_run : ∀ (es : List Ev) {r : SMat}, Dist r → (∀ e ∈ es, e.direct = true) →
    (match srun es r with | .ok r' => .ok (proj r') | .error x => .error x) = prun es (proj r)
  | [], r, _, _ => rfl
  | e :: es, r, hd, he => by
    obtain ⟨h1, h2⟩ := direct_step hd (he e List.mem_cons_self)
    simp only [srun, prun, bind, Except.bind, ← h1]
    cases hs : sstep r e with
    | error x => rfl
    | ok r1 => exact direct_run es (h2 r1 hs) (fun e' he' => he e' (List.mem_cons_of_mem _ he'))

/-- the initial matrix: one fresh writable object per row -/
theorem sinit_dist (m : List (List Int)) : Dist (sinit m) where
  nodup := List.nodup_range
  inHeap := by intro id hid; simpa [sinit] using hid
  rw := by
    intro id hid
    have hid' : id < m.length := by simpa [sinit] using hid
    simp [sinit, SMat.row, List.getD_eq_getElem?_getD, hid']

theorem sinit_matrix (m : List (List Int)) : (sinit m).matrix = m := by
  apply List.ext_getElem
  · simp [SMat.matrix, sinit]
  · intro k h1 h2
    simp [SMat.matrix, sinit, SMat.row, List.getD_eq_getElem?_getD, h2]

end A2
end Pysnark
