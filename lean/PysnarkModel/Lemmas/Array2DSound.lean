import PysnarkModel.Lemmas.Array2D
/-!
# Two-dimensional array access (C15): an out-of-range component cannot be proven

For ANY assignment `w` (with `w one = 1`) satisfying the constraints that `a[i, j]` / `a[i, j] = v` emit — error checks
on or off — a secret row component evaluates to a row position and a secret column component to a column position.
From the one-dimensional `arrayIxs_sound` (`Lemmas/Array.lean`) and the fact that every part of the access only appends
wires and constraints (`Ext`).
-/
namespace Pysnark
namespace A2

theorem foldl_addI_length (w : Nat) : ∀ (ps : List (List Int)) (acc : List Int), acc.length = w →
    (∀ p ∈ ps, p.length = w) → (ps.foldl addI acc).length = w
  | [], _, ha, _ => ha
  | p :: ps, acc, ha, hp => by
    simp only [List.foldl_cons]
    exact foldl_addI_length w ps _ (by rw [addI_length, ha, hp p List.mem_cons_self, Nat.min_self])
      (fun q hq => hp q (List.mem_cons_of_mem _ hq))

/-- the row computed by `lin_comb` over rows of length `w` has length `w` -/
theorem linCombRows_length {ixs : List LinComb} {rows : List (List Val)} {r : List Val} {s s' : St} {w : Nat}
    (hn : ∀ row ∈ rows, NumRow row) (hw : ∀ row ∈ rows, row.length = w)
    (h : linCombRows ixs rows s = .ok (r, s')) : r.length = w := by
  obtain ⟨-, -, c0, r0, rest, hz, hv⟩ := linCombRows_value hn h
  have hmem : ∀ cr ∈ ixs.zip rows, cr.2.length = w := fun cr hcr => hw _ (List.of_mem_zip hcr).2
  rw [hz] at hmem
  have := congrArg List.length hv
  rw [foldl_addI_length w _ _ (by simp [scaleI, hmem (c0, r0) List.mem_cons_self])
    (by
      intro p hp
      obtain ⟨cr, hcr, rfl⟩ := List.mem_map.mp hp
      simp [scaleI, hmem cr (List.mem_cons_of_mem _ hcr)])] at this
  simpa using this

theorem rowRead_ext {rows : List (List Val)} {it : LinComb} {r : List Val} {s s' : St} {w : Nat}
    (hg : s.guard = none) (hn : ∀ row ∈ rows, NumRow row) (hw : ∀ row ∈ rows, row.length = w)
    (h : rowRead rows it s = .ok (r, s')) : Ext s s' ∧ AllLc r ∧ r.length = w := by
  unfold rowRead at h
  obtain ⟨ixs, s1, h1, h⟩ := bind_ok.mp h
  obtain ⟨e1, -, -⟩ := arrayIxs_ext hg h1
  obtain ⟨hr, e2, -⟩ := linCombRows_value hn h
  exact ⟨e1.trans e2, hr, linCombRows_length hn hw h⟩

theorem rowGet_ext {rows : List (List Val)} {i : Val} {r : List Val} {s s' : St} {w : Nat}
    (hg : s.guard = none) (hn : ∀ row ∈ rows, NumRow row) (hw : ∀ row ∈ rows, row.length = w)
    (h : rowGet rows i s = .ok (r, s')) : Ext s s' ∧ NumRow r ∧ r.length = w := by
  unfold rowGet at h
  split at h
  · rename_i k
    cases hk : pyIndex rows.length k with
    | none => simp only [hk] at h; exact (raise_ok.mp h).elim
    | some n =>
      simp only [hk] at h
      cases hv : rows[n]? with
      | none => simp only [hv] at h; exact (raise_ok.mp h).elim
      | some v =>
        simp only [hv] at h
        obtain ⟨rfl, rfl⟩ := pure_ok.mp h
        have := List.mem_of_getElem? hv
        exact ⟨Ext.refl _, hn _ this, hw _ this⟩
  · obtain ⟨e, hr, hl⟩ := rowRead_ext hg hn hw h
    exact ⟨e, AllLc.num hr, hl⟩
  · exact (raise_ok.mp h).elim

theorem arrayGet_ext {arr : List Val} {item r : Val} {s s' : St} (hg : s.guard = none) (harr : NumRow arr)
    (h : arrayGet arr item s = .ok (r, s')) : Ext s s' := by
  unfold arrayGet at h
  split at h
  · rename_i i
    cases hk : pyIndex arr.length i with
    | none => simp only [hk] at h; exact (raise_ok.mp h).elim
    | some k =>
      simp only [hk] at h
      cases hv : arr[k]? with
      | none => simp only [hv] at h; exact (raise_ok.mp h).elim
      | some v =>
        simp only [hv] at h
        obtain ⟨-, rfl⟩ := pure_ok.mp h
        exact Ext.refl _
  · obtain ⟨ixs, s1, h1, h⟩ := bind_ok.mp h
    exact (arrayIxs_ext hg h1).1.trans (linComb_ext harr h)
  · exact (raise_ok.mp h).elim

theorem arraySet_ext {arr arr' : List Val} {item v : Val} {s s' : St} (hg : s.guard = none) (harr : NumRow arr)
    (hv : v.isNum = true) (h : arraySet arr item v s = .ok (arr', s')) : Ext s s' := by
  unfold arraySet at h
  split at h
  · rename_i i
    cases hk : pyIndex arr.length i with
    | none => simp only [hk] at h; exact (raise_ok.mp h).elim
    | some k =>
      simp only [hk] at h
      obtain ⟨-, rfl⟩ := pure_ok.mp h
      exact Ext.refl _
  · obtain ⟨ixs, s1, h1, h⟩ := bind_ok.mp h
    exact (arrayIxs_ext hg h1).1.trans (mapM'_ite_ext hv _ (fun cv hcv => harr _ (List.of_mem_zip hcv).2) h)
  · exact (raise_ok.mp h).elim

theorem rowsWrite_ext {rows : List (Bool × List Val)} {it : LinComb} {vals : List Val} {res : List (List Val)}
    {s s' : St} (hg : s.guard = none) (hv : NumRow vals) (hn : ∀ x ∈ rows, NumRow x.2)
    (h : rowsWrite rows it vals s = .ok (res, s')) : Ext s s' := by
  unfold rowsWrite at h
  obtain ⟨ixs, s1, h1, h⟩ := bind_ok.mp h
  obtain ⟨-, e2, -⟩ := rowsIte_value hv (ixs.zip rows) (fun x hx => hn _ (List.of_mem_zip hx).2) h
  exact (arrayIxs_ext hg h1).1.trans e2

/-- a one-dimensional write at a secret index on a numeric array keeps the length and the kind of the elements,
whatever the error mode -/
theorem arraySet_shape {arr arr' : List Val} {it : LinComb} {v : Val} {s s' : St} (harr : NumRow arr)
    (hv : v.isNum = true) (h : arraySet arr (.lc it) v s = .ok (arr', s')) :
    arr'.length = arr.length ∧ NumRow arr' := by
  unfold arraySet at h
  simp only at h
  obtain ⟨ixs, s1, h1, h⟩ := bind_ok.mp h
  have hl : ixs.length = arr.length := by
    unfold arrayIxs at h1
    obtain ⟨u, s0, h0, h1⟩ := bind_ok.mp h1
    obtain ⟨ixs', s2, h2, h1⟩ := bind_ok.mp h1
    obtain ⟨hl, -⟩ := oneHot_value _ _ h2
    cases hsm : sumBools ixs' with
    | none => simp only [hsm] at h1; exact (raise_ok.mp h1).elim
    | some sm =>
      simp only [hsm] at h1
      obtain ⟨one, s3, h3, h1⟩ := bind_ok.mp h1
      obtain ⟨u3, s4, h4, h1⟩ := bind_ok.mp h1
      obtain ⟨rfl, -⟩ := pure_ok.mp h1
      exact hl
  obtain ⟨hlen, hp⟩ := mapM'_index
    (P := fun (cv : LinComb × Val) (r : Val) => cv.2.isNum = true → r.isNum = true)
    (fun cv s r s' hh hcv => (ifThenElse_num hv hcv hh).1) _ h
  have hzl : (ixs.zip arr).length = arr.length := by simp [hl]
  refine ⟨by rw [hlen, hzl], ?_⟩
  intro x hx
  obtain ⟨k, hk, rfl⟩ := List.mem_iff_getElem.mp hx
  have hk' : k < (ixs.zip arr).length := by rw [← hlen]; exact hk
  have := hp k hk' hk
  simp only [List.getElem_zip] at this
  exact this (harr _ (List.getElem_mem (by rw [← hzl]; exact hk')))

section sound
variable {p : ℕ} [Fact p.Prime] {wf : Wire → Int}

/-- **the ROW component of a read cannot be proven out of range** -/
theorem matGet_row_sound {rows : List (List Val)} {it : LinComb} {j r : Val} {s s' : St} {w : Nat} (hp : s.p = p)
    (hg : s.guard = none) (hone : s.one = oneSafe) (hit : it.lc.WF) (hn : ∀ row ∈ rows, NumRow row)
    (hw : ∀ row ∈ rows, row.length = w) (h1 : wf .one = 1)
    (h : matGet rows (.lc it) j s = .ok (r, s')) (hsat : NewSat s s' wf) :
    ∃ a : Nat, a < rows.length ∧ ev p wf it.lc = (a : ZMod p) := by
  unfold matGet rowGet at h
  simp only at h
  obtain ⟨r0, s1, hr, h⟩ := bind_ok.mp h
  have hr' := hr
  unfold rowRead at hr
  obtain ⟨ixs, sa, ha, hb⟩ := bind_ok.mp hr
  obtain ⟨ea, -, -⟩ := arrayIxs_ext hg ha
  obtain ⟨e1, hr0, -⟩ := rowRead_ext hg hn hw hr'
  obtain ⟨-, eb, -⟩ := linCombRows_value hn hb
  have e2 := arrayGet_ext (e1.guard.trans hg) (AllLc.num hr0) h
  obtain ⟨hw1, -⟩ := (NewSat_split ea (eb.trans e2)).mp hsat
  obtain ⟨a, hlt, hev, -⟩ := arrayIxs_sound hp hg hone hit h1 ha hw1
  exact ⟨a, hlt, hev⟩

/-- **the COLUMN component of a read cannot be proven out of range** -/
theorem matGet_col_sound {rows : List (List Val)} {i : Val} {jt : LinComb} {r : Val} {s s' : St} {w : Nat}
    (hp : s.p = p) (hg : s.guard = none) (hone : s.one = oneSafe) (hjt : jt.lc.WF)
    (hn : ∀ row ∈ rows, NumRow row) (hw : ∀ row ∈ rows, row.length = w) (h1 : wf .one = 1)
    (h : matGet rows i (.lc jt) s = .ok (r, s')) (hsat : NewSat s s' wf) :
    ∃ b : Nat, b < w ∧ ev p wf jt.lc = (b : ZMod p) := by
  unfold matGet at h
  obtain ⟨r0, s1, hr, h⟩ := bind_ok.mp h
  obtain ⟨e1, hn0, hl0⟩ := rowGet_ext hg hn hw hr
  have hg1 : s1.guard = none := e1.guard.trans hg
  have e2 := arrayGet_ext hg1 hn0 h
  obtain ⟨-, hsat2⟩ := (NewSat_split e1 e2).mp hsat
  unfold arrayGet at h
  simp only at h
  obtain ⟨ixs, sb, hb, hc⟩ := bind_ok.mp h
  obtain ⟨eb, -, -⟩ := arrayIxs_ext hg1 hb
  have ec := linComb_ext hn0 hc
  obtain ⟨hw1, -⟩ := (NewSat_split eb ec).mp hsat2
  obtain ⟨b, hlt, hev, -⟩ := arrayIxs_sound (e1.p.trans hp) hg1 (e1.one.trans hone) hjt h1 hb hw1
  exact ⟨b, hl0 ▸ hlt, hev⟩

/-- **the ROW component of a write cannot be proven out of range** -/
theorem matSet_row_sound {rows res : List (List Val)} {it : LinComb} {j v : Val} {s s' : St} {w : Nat} (hp : s.p = p)
    (hg : s.guard = none) (hone : s.one = oneSafe) (hit : it.lc.WF) (hn : ∀ row ∈ rows, NumRow row)
    (hw : ∀ row ∈ rows, row.length = w) (hv : v.isNum = true) (h1 : wf .one = 1)
    (h : matSet rows (.lc it) j v s = .ok (res, s')) (hsat : NewSat s s' wf) :
    ∃ a : Nat, a < rows.length ∧ ev p wf it.lc = (a : ZMod p) := by
  unfold matSet at h
  simp only at h
  obtain ⟨r0, s1, hr, h⟩ := bind_ok.mp h
  obtain ⟨r', s2, hs, h⟩ := bind_ok.mp h
  have hr' := hr
  unfold rowRead at hr
  obtain ⟨ixs, sa, ha, hb⟩ := bind_ok.mp hr
  obtain ⟨ea, -, -⟩ := arrayIxs_ext hg ha
  obtain ⟨e1, hr0, -⟩ := rowRead_ext hg hn hw hr'
  obtain ⟨-, eb, -⟩ := linCombRows_value hn hb
  have hg1 : s1.guard = none := e1.guard.trans hg
  have e2 := arraySet_ext hg1 (AllLc.num hr0) hv hs
  have hn' : NumRow r' := by
    cases j with
    | int k =>
      unfold arraySet at hs
      simp only at hs
      cases hk : pyIndex r0.length k with
      | none => simp only [hk] at hs; exact (raise_ok.mp hs).elim
      | some n =>
        simp only [hk] at hs
        obtain ⟨rfl, -⟩ := pure_ok.mp hs
        intro x hx
        rcases List.mem_or_eq_of_mem_set hx with hx | rfl
        · exact AllLc.num hr0 x hx
        · exact hv
    | lc jt => exact (arraySet_shape (AllLc.num hr0) hv hs).2
    | _ => unfold arraySet at hs; exact (raise_ok.mp hs).elim
  have e3 := rowsWrite_ext (e2.guard.trans hg1) hn' (by
    intro x hx
    obtain ⟨y, hy, rfl⟩ := List.mem_map.mp hx
    exact hn y hy) h
  obtain ⟨hw1, -⟩ := (NewSat_split ea ((eb.trans e2).trans e3)).mp hsat
  obtain ⟨a, hlt, hev, -⟩ := arrayIxs_sound hp hg hone hit h1 ha hw1
  exact ⟨a, hlt, hev⟩

/-- **the COLUMN component of a write cannot be proven out of range** -/
theorem matSet_col_sound {rows res : List (List Val)} {i v : Val} {jt : LinComb} {s s' : St} {w : Nat}
    (hp : s.p = p) (hg : s.guard = none) (hone : s.one = oneSafe) (hjt : jt.lc.WF)
    (hn : ∀ row ∈ rows, NumRow row) (hw : ∀ row ∈ rows, row.length = w) (hv : v.isNum = true) (h1 : wf .one = 1)
    (h : matSet rows i (.lc jt) v s = .ok (res, s')) (hsat : NewSat s s' wf) :
    ∃ b : Nat, b < w ∧ ev p wf jt.lc = (b : ZMod p) := by
  -- the column write `it[item[1:]] = value` on the row `r0` selected by the first component, from state `s1`
  have key : ∀ {r0 r' : List Val} {s1 s2 : St}, Ext s s1 → Ext s2 s' → NumRow r0 → r0.length = w →
      arraySet r0 (.lc jt) v s1 = .ok (r', s2) → ∃ b : Nat, b < w ∧ ev p wf jt.lc = (b : ZMod p) := by
    intro r0 r' s1 s2 e1 e3 hn0 hl0 hs
    have hg1 : s1.guard = none := e1.guard.trans hg
    have e2 := arraySet_ext hg1 hn0 hv hs
    obtain ⟨-, hsat2⟩ := (NewSat_split e1 (e2.trans e3)).mp hsat
    obtain ⟨hsat3, -⟩ := (NewSat_split e2 e3).mp hsat2
    unfold arraySet at hs
    simp only at hs
    obtain ⟨ixs, sb, hb, hc⟩ := bind_ok.mp hs
    obtain ⟨eb, -, -⟩ := arrayIxs_ext hg1 hb
    have ec := mapM'_ite_ext hv _ (fun cv hcv => hn0 _ (List.of_mem_zip hcv).2) hc
    obtain ⟨hw1, -⟩ := (NewSat_split eb ec).mp hsat3
    obtain ⟨b, hlt, hev, -⟩ := arrayIxs_sound (e1.p.trans hp) hg1 (e1.one.trans hone) hjt h1 hb hw1
    exact ⟨b, hl0 ▸ hlt, hev⟩
  unfold matSet at h
  split at h
  · rename_i k
    cases hk : pyIndex rows.length k with
    | none => simp only [hk] at h; exact (raise_ok.mp h).elim
    | some n =>
      simp only [hk] at h
      cases hr : rows[n]? with
      | none => simp only [hr] at h; exact (raise_ok.mp h).elim
      | some r =>
        simp only [hr] at h
        obtain ⟨r', s1, hs, h⟩ := bind_ok.mp h
        obtain ⟨-, rfl⟩ := pure_ok.mp h
        have := List.mem_of_getElem? hr
        exact key (Ext.refl _) (Ext.refl _) (hn _ this) (hw _ this) hs
  · rename_i it
    obtain ⟨r0, s1, hr, h⟩ := bind_ok.mp h
    obtain ⟨r', s2, hs, h⟩ := bind_ok.mp h
    obtain ⟨e1, hr0, hl0⟩ := rowRead_ext hg hn hw hr
    have hg1 : s1.guard = none := e1.guard.trans hg
    have e2 := arraySet_ext hg1 (AllLc.num hr0) hv hs
    have e3 := rowsWrite_ext (e2.guard.trans hg1) (arraySet_shape (AllLc.num hr0) hv hs).2 (by
      intro x hx
      obtain ⟨y, hy, rfl⟩ := List.mem_map.mp hx
      exact hn y hy) h
    exact key e1 e3 (AllLc.num hr0) hl0 hs
  · exact (raise_ok.mp h).elim

end sound

/-! ## rows of different lengths are refused, never zipped to the shorter one -/

theorem mapM'_length {α β : Type} {f : α → M β} : ∀ (xs : List α) {s s' : St} {rs : List β},
    mapM' f xs s = .ok (rs, s') → rs.length = xs.length
  | [], _, _, _, h => by obtain ⟨rfl, -⟩ := mapM'_nil_ok h; rfl
  | x :: xs, _, _, _, h => by
    obtain ⟨y, s1, ys, -, h2, rfl⟩ := mapM'_cons_ok h
    simp [mapM'_length xs h2]

theorem zipWithM'_length {f : Val → Val → M Val} : ∀ (ts gs : List Val) {s s' : St} {rs : List Val},
    zipWithM' f ts gs s = .ok (rs, s') → rs.length = min ts.length gs.length
  | [], gs, _, _, _, h => by obtain ⟨rfl, -⟩ := zipWithM'_nil_ok (Or.inl rfl) h; simp
  | t :: ts, [], _, _, _, h => by obtain ⟨rfl, -⟩ := zipWithM'_nil_ok (Or.inr rfl) h; simp
  | t :: ts, g :: gs, _, _, _, h => by
    obtain ⟨y, s1, ys, -, h2, rfl⟩ := zipWithM'_cons_ok h
    simp [zipWithM'_length ts gs h2]

theorem addRows_length {a b r : List Val} {s s' : St} (h : addRows a b s = .ok (r, s')) :
    a.length = b.length ∧ r.length = a.length := by
  have hl := addRows_ok_length h
  unfold addRows at h
  rw [if_pos hl] at h
  exact ⟨hl, by rw [zipWithM'_length _ _ h, hl, Nat.min_self]⟩

/-- a completed fold of `Array.__add__` over products: every product, and the result, had the length of the accumulator -/
theorem foldlM_addRows_length : ∀ (ps : List (List Val)) {acc r : List Val} {s s' : St},
    ps.foldlM (fun acc x => addRows acc x) acc s = .ok (r, s') → r.length = acc.length ∧ ∀ p ∈ ps, p.length = acc.length
  | [], _, _, _, _, h => by
    simp only [List.foldlM_nil] at h
    obtain ⟨rfl, -⟩ := pure_ok.mp h
    exact ⟨rfl, fun p hp => by cases hp⟩
  | q :: ps, acc, r, s, s', h => by
    rw [List.foldlM_cons] at h
    obtain ⟨a1, s1, h1, h2⟩ := bind_ok.mp h
    obtain ⟨hl, hr⟩ := addRows_length h1
    obtain ⟨e1, e2⟩ := foldlM_addRows_length ps h2
    refine ⟨by rw [e1, hr], fun p hp => ?_⟩
    rcases List.mem_cons.mp hp with rfl | hp
    · exact hl.symm
    · rw [e2 p hp, hr]

theorem mapM'_scaleRow_length : ∀ (crs : List (LinComb × List Val)) {s s' : St} {ps : List (List Val)},
    mapM' (fun (cr : LinComb × List Val) => scaleRow cr.1 cr.2) crs s = .ok (ps, s') →
    ps.map List.length = crs.map (fun cr => cr.2.length)
  | [], _, _, _, h => by obtain ⟨rfl, -⟩ := mapM'_nil_ok h; rfl
  | cr :: crs, _, _, _, h => by
    obtain ⟨y, s1, ys, h1, h2, rfl⟩ := mapM'_cons_ok h
    unfold scaleRow at h1
    simp [mapM'_length _ h1, mapM'_scaleRow_length crs h2]

/-- **a completed `lin_comb(ixs, rows)` over as many selectors as rows had rows of one length**: a ragged matrix is refused -/
theorem linCombRows_rect {ixs : List LinComb} {rows : List (List Val)} {r : List Val} {s s' : St}
    (hl : ixs.length = rows.length) (h : linCombRows ixs rows s = .ok (r, s')) :
    ∀ row ∈ rows, row.length = r.length := by
  unfold linCombRows at h
  obtain ⟨prods, s1, h1, h2⟩ := bind_ok.mp h
  have hlen := mapM'_scaleRow_length _ h1
  have hz : (ixs.zip rows).map (fun cr => cr.2.length) = rows.map List.length := by
    have := congrArg (List.map List.length) (List.map_snd_zip (l₁ := ixs) (l₂ := rows) (by omega))
    simpa [List.map_map, Function.comp_def] using this
  rw [hz] at hlen
  cases prods with
  | nil => exact (raise_ok.mp h2).elim
  | cons p ps =>
    simp only at h2
    obtain ⟨first, s2, h3, h4⟩ := bind_ok.mp h2
    have hf : first.length = p.length := by unfold addZeroRow at h3; exact mapM'_length _ h3
    obtain ⟨hr, hps⟩ := foldlM_addRows_length ps h4
    intro row hrow
    have hm : row.length ∈ rows.map List.length := List.mem_map.mpr ⟨row, hrow, rfl⟩
    rw [← hlen] at hm
    obtain ⟨q, hq, e⟩ := List.mem_map.mp hm
    rw [← e]
    rcases List.mem_cons.mp hq with rfl | hq
    · rw [hr, hf]
    · rw [hps q hq, hr]

/-- a completed row read at a secret index: the matrix was rectangular (every row has the length of the row returned) -/
theorem rowRead_rect {rows : List (List Val)} {it : LinComb} {r : List Val} {s s' : St} (hg : s.guard = none)
    (h : rowRead rows it s = .ok (r, s')) : ∀ row ∈ rows, row.length = r.length := by
  unfold rowRead at h
  obtain ⟨ixs, s1, h1, h2⟩ := bind_ok.mp h
  obtain ⟨-, hl, -⟩ := arrayIxs_ext hg h1
  exact linCombRows_rect hl h2

theorem iteRow_mismatch {c : LinComb} {t f : List Val} {s : St} (h : t.length ≠ f.length) :
    iteRow c t f s = .error .value := by
  unfold iteRow
  exact bind_error (subRows_mismatch h)

/-- `self[item] = value` for a secret `item`: a value whose length is not the width of the matrix is refused (the rows
are objects other than the value) -/
theorem rowsWrite_mismatch {rows : List (List Val)} {it : LinComb} {vals : List Val} {s : St} {w : Nat}
    (hg : s.guard = none) (hne : rows ≠ []) (hw : ∀ row ∈ rows, row.length = w) (hv : vals.length ≠ w) :
    ∀ x, rowsWrite (rows.map fun r => (false, r)) it vals s ≠ .ok x := by
  rintro ⟨res, s'⟩ h
  unfold rowsWrite at h
  obtain ⟨ixs, s1, h1, h2⟩ := bind_ok.mp h
  obtain ⟨-, hl, -⟩ := arrayIxs_ext hg h1
  cases rows with
  | nil => exact hne rfl
  | cons r0 rest =>
    cases ixs with
    | nil => simp at hl
    | cons c cs =>
      simp only [List.map_cons, List.zip_cons_cons] at h2
      unfold rowsIte at h2
      obtain ⟨x, s2, h3, -⟩ := bind_ok.mp h2
      simp only [Bool.false_eq_true, if_false] at h3
      rw [iteRow_mismatch (by rw [hw r0 List.mem_cons_self]; exact hv)] at h3
      cases h3

/-! ## empty dimensions: every index is outside -/

end A2

/-- the selector computation on a ZERO-LENGTH array never succeeds: `IndexError` with the error checks on; with them off
`sum([])` is the int `0`, which has no `assert_eq` (`AttributeError`) -/
theorem arrayIxs_empty {it : LinComb} {s : St} :
    arrayIxs it 0 s = .error (if s.ignoreErrors then .attribute else .index) := by
  unfold arrayIxs
  change M.bind (arrayCheck it 0) _ s = _
  unfold M.bind
  cases hi : s.ignoreErrors with
  | false =>
    rw [arrayCheck_reject hi (by omega)]
    rfl
  | true =>
    have : arrayCheck it 0 s = .ok ((), s) := by simp [arrayCheck, hi]
    rw [this]
    rfl

theorem arrayGet_empty {it : LinComb} {s : St} :
    arrayGet [] (.lc it) s = .error (if s.ignoreErrors then .attribute else .index) := by
  unfold arrayGet
  exact A2.bind_error arrayIxs_empty

theorem arraySet_empty {it : LinComb} {v : Val} {s : St} :
    arraySet [] (.lc it) v s = .error (if s.ignoreErrors then .attribute else .index) := by
  unfold arraySet
  exact A2.bind_error arrayIxs_empty

namespace A2

theorem rowRead_empty {it : LinComb} {s : St} :
    rowRead [] it s = .error (if s.ignoreErrors then .attribute else .index) := by
  unfold rowRead
  exact bind_error arrayIxs_empty

/-- the row selected by the first component (plain or secret, error checks on or off) in a matrix whose rows are all
empty is empty -/
theorem rowGet_empty {rows : List (List Val)} {i : Val} {r0 : List Val} {s s1 : St} (hr : ∀ row ∈ rows, row = [])
    (h : rowGet rows i s = .ok (r0, s1)) : r0 = [] := by
  have hn : ∀ row ∈ rows, NumRow row := fun row hrow => by rw [hr row hrow]; intro v hv; cases hv
  have hw : ∀ row ∈ rows, row.length = 0 := fun row hrow => by rw [hr row hrow]; rfl
  unfold rowGet at h
  split at h
  · rename_i k
    cases hk : pyIndex rows.length k with
    | none => simp only [hk] at h; exact (raise_ok.mp h).elim
    | some n =>
      simp only [hk] at h
      cases hv : rows[n]? with
      | none => simp only [hv] at h; exact (raise_ok.mp h).elim
      | some v =>
        simp only [hv] at h
        obtain ⟨rfl, rfl⟩ := pure_ok.mp h
        exact hr _ (List.mem_of_getElem? hv)
  · unfold rowRead at h
    obtain ⟨ixs, s2, -, h⟩ := bind_ok.mp h
    exact List.eq_nil_of_length_eq_zero (linCombRows_length hn hw h)
  · exact (raise_ok.mp h).elim

/-- `a[i, j]` and `a[i, j] = v` with a secret column component on a matrix whose rows are all empty never complete -/
theorem mat_empty_col {rows : List (List Val)} {i v : Val} {jt : LinComb} {s : St} (hr : ∀ row ∈ rows, row = []) :
    (∀ x, matGet rows i (.lc jt) s ≠ .ok x) ∧ (∀ x, matSet rows i (.lc jt) v s ≠ .ok x) := by
  constructor
  · rintro ⟨r, s'⟩ h
    unfold matGet at h
    obtain ⟨r0, s1, h1, h2⟩ := bind_ok.mp h
    rw [rowGet_empty hr h1, arrayGet_empty] at h2
    cases h2
  · rintro ⟨res, s'⟩ h
    cases i with
    | int k =>
      unfold matSet at h
      simp only at h
      cases hk : pyIndex rows.length k with
      | none => simp only [hk] at h; exact (raise_ok.mp h).elim
      | some n =>
        simp only [hk] at h
        cases hv : rows[n]? with
        | none => simp only [hv] at h; exact (raise_ok.mp h).elim
        | some r0 =>
          simp only [hv] at h
          obtain ⟨r', s1, h1, -⟩ := bind_ok.mp h
          rw [hr _ (List.mem_of_getElem? hv), arraySet_empty] at h1
          cases h1
    | lc it =>
      unfold matSet at h
      simp only at h
      obtain ⟨r0, s1, h1, h2⟩ := bind_ok.mp h
      have h1' : rowGet rows (.lc it) s = .ok (r0, s1) := by unfold rowGet; exact h1
      obtain ⟨r', s2, h3, -⟩ := bind_ok.mp h2
      rw [rowGet_empty hr h1', arraySet_empty] at h3
      cases h3
    | _ => unfold matSet at h; exact (raise_ok.mp h).elim

/-- a secret ROW component on a matrix without rows: refused, reads and writes -/
theorem mat_empty_row {it : LinComb} {j v : Val} {s : St} :
    matGet [] (.lc it) j s = .error (if s.ignoreErrors then .attribute else .index) ∧
    matSet [] (.lc it) j v s = .error (if s.ignoreErrors then .attribute else .index) := by
  constructor
  · unfold matGet rowGet
    exact bind_error rowRead_empty
  · unfold matSet
    exact bind_error rowRead_empty

end A2
end Pysnark
