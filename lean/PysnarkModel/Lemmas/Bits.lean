import PysnarkModel.Lemmas.Sound
import PysnarkModel.Lemmas.InvGadgets
/-!
# Value-level facts about `to_bits` / `from_bits` / `assert_positive` at a requested width (C16)

No invariant, no hypothesis on the guard: these are statements about the Python-level values only.
-/
namespace Pysnark

/-- the Python value of what `from_bits` returns (`none` is the plain int `0`) -/
def fbValue : Option LinComb → Int
  | none => 0
  | some y => y.value

/-! ## values of the fresh bits -/

theorem mkBool_value {x r : LinComb} {c : Bool} {s s' : St} (h : mkBool x c s = .ok (r, s')) : r = x := by
  unfold mkBool at h
  split at h
  · cases h
  · split at h
    · obtain ⟨u, s1, _, h2⟩ := bind_ok.mp h
      exact (pure_ok.mp h2).1
    · simp only [Except.ok.injEq, Prod.mk.injEq] at h
      exact h.1.symm

theorem privVal_value {v : Int} {r : LinComb} {s s' : St} (h : privVal v s = .ok (r, s')) : r.value = v := by
  obtain ⟨rfl, -⟩ := privVal_ok h; rfl

theorem privValBool_value {v : Int} {r : LinComb} {s s' : St} (h : privValBool v s = .ok (r, s')) :
    r.value = v := by
  unfold privValBool at h
  split at h
  · cases h
  · obtain ⟨x, s1, h1, h2⟩ := bind_ok.mp h
    rw [mkBool_value h2]
    exact privVal_value h1

theorem mapM'_privValBool_value : ∀ (vs : List Int) {s s' : St} {rs : List LinComb},
    mapM' privValBool vs s = .ok (rs, s') → rs.map (·.value) = vs
  | [], s, s', rs, h => by
    unfold mapM' at h
    obtain ⟨rfl, -⟩ := pure_ok.mp h
    rfl
  | v :: vs, s, s', rs, h => by
    unfold mapM' at h
    obtain ⟨y, s1, h1, h2⟩ := bind_ok.mp h
    obtain ⟨ys, s2, h3, h4⟩ := bind_ok.mp h2
    obtain ⟨rfl, -⟩ := pure_ok.mp h4
    simp [privValBool_value h1, mapM'_privValBool_value vs h3]

/-! ## the run-time check -/

theorem fitsNonneg_iff_Bits (v : Int) (n : Nat) : fitsNonneg v n = true ↔ 0 ≤ v ∧ v < 2 ^ n := by
  unfold fitsNonneg
  simp only [Bool.not_eq_true', Bool.or_eq_false_iff, decide_eq_false_iff_not, not_lt, gt_iff_lt]
  rw [bitLength_le_iff]
  constructor
  · rintro ⟨h0, h1⟩
    exact ⟨h0, (natAbs_lt_pow h1).2⟩
  · rintro ⟨h0, h1⟩
    refine ⟨h0, ?_⟩
    have : ((v.natAbs : Nat) : Int) < 2 ^ n := by rw [Int.natAbs_of_nonneg h0]; exact h1
    exact_mod_cast this

theorem fitsNonneg_false {v : Int} {n : Nat} (h : v < 0 ∨ 2 ^ n ≤ v) : fitsNonneg v n = false := by
  cases hf : fitsNonneg v n with
  | false => rfl
  | true =>
    obtain ⟨h0, h1⟩ := (fitsNonneg_iff_Bits v n).mp hf
    rcases h with h | h <;> omega

/-! ## `from_bits` on values -/

theorem fbValue_fromBits (bs : List LinComb) : fbValue (fromBits bs) = bitsVal (bs.map (·.value)) 0 := by
  cases bs with
  | nil => rfl
  | cons b bs =>
    simp only [fromBits, fbValue, fromBitsAux_value, LinComb.addI, LinComb.add, LinComb.mulI,
      LinComb.const, List.map_cons, bitsVal]
    ring

theorem fromBits_isSome_iff (bs : List LinComb) : (fromBits bs).isSome = true ↔ bs ≠ [] := by
  cases bs <;> simp [fromBits]

/-! ## `to_bits(n)`: what an accepted call returns (error checks on) -/

theorem toBits_value {x : LinComb} {bits : Option Nat} {s s' : St} {bs : List LinComb}
    (hi : s.ignoreErrors = false) (h : toBits x bits s = .ok (bs, s')) :
    0 ≤ x.value ∧ x.value < 2 ^ (bits.getD s.bitlength) ∧
    bs.map (·.value) = Py.bitsOf x.value (bits.getD s.bitlength) := by
  unfold toBits at h
  simp only [hi, Bool.not_false, Bool.true_and] at h
  split at h
  · cases h
  · rename_i hc
    simp only [Bool.not_eq_true', Bool.not_eq_false] at hc
    obtain ⟨h0, h1⟩ := (fitsNonneg_iff_Bits _ _).mp hc
    obtain ⟨bs1, s1, h2, h3⟩ := bind_ok.mp h
    obtain ⟨u, s2, _, h5⟩ := bind_ok.mp h3
    obtain ⟨rfl, -⟩ := pure_ok.mp h5
    exact ⟨h0, h1, mapM'_privValBool_value _ h2⟩

theorem toBits_reject {x : LinComb} {bits : Option Nat} {s : St} (hi : s.ignoreErrors = false)
    (h : x.value < 0 ∨ 2 ^ (bits.getD s.bitlength) ≤ x.value) : toBits x bits s = .error .assertion := by
  unfold toBits
  simp [hi, fitsNonneg_false h]

theorem assertPositive_reject {x : LinComb} {bits : Option Nat} {s : St} (hi : s.ignoreErrors = false)
    (h : x.value < 0 ∨ 2 ^ (bits.getD s.bitlength) ≤ x.value) :
    assertPositive x bits s = .error .assertion := by
  unfold assertPositive
  simp [hi, fitsNonneg_false h]

/-- an accepted `assert_positive(n)` (error checks on) means `0 ≤ value < 2^n` -/
theorem assertPositive_value {x : LinComb} {bits : Option Nat} {s s' : St} {u : Unit}
    (hi : s.ignoreErrors = false) (h : assertPositive x bits s = .ok (u, s')) :
    0 ≤ x.value ∧ x.value < 2 ^ (bits.getD s.bitlength) := by
  unfold assertPositive at h
  simp only [hi, Bool.not_false, Bool.true_and] at h
  split at h
  · cases h
  · rename_i hc
    simp only [Bool.not_eq_true', Bool.not_eq_false] at hc
    exact (fitsNonneg_iff_Bits _ _).mp hc

/-! ## acceptance: every in-range value is decomposed (no guard, checks on or off) -/

theorem bit_bool (v : Int) (i : Nat) : Py.bit v i = 0 ∨ Py.bit v i = 1 := by
  unfold Py.bit; omega

theorem privValBool_emit {v : Int} {s : St} (hg : s.guard = none) (hv : v = 0 ∨ v = 1) :
    privValBool v s = .ok (fw s.priv.length v, s.ext [v] [boolC (fw s.priv.length v)]) := by
  have hb : isBooleanValue v = true := by rcases hv with rfl | rfl <;> rfl
  have hmul : v * (-v + 1) = 0 := by rcases hv with rfl | rfl <;> rfl
  unfold privValBool
  simp only [hb, Bool.not_true, Bool.false_eq_true, if_false]
  change M.bind (privVal v) (fun x => mkBool x) s = _
  unfold M.bind
  rw [privVal_emit]
  simp only
  unfold mkBool
  simp only [fw_value, hb, Bool.not_true, Bool.false_eq_true, if_false, if_true]
  change M.bind (addConstraint _ _ _) _ _ = _
  unfold M.bind addConstraint
  simp only [St.ext_guard, hg]
  have : ((fw s.priv.length v).value * ((fw s.priv.length v).rsubI 1).value != LinComb.zero.value) = false := by
    simp [LinComb.rsubI, LinComb.addI, LinComb.add, LinComb.neg, LinComb.const, LinComb.zero, hmul]
  simp only [this, Bool.false_and, Bool.false_eq_true, if_false]
  rw [addConstraintUnsafe_emit]
  simp [boolC, pure, M.pure, LinComb.zero]

theorem mapM'_privValBool_emit : ∀ (vs : List Int) {s : St}, s.guard = none → (∀ v ∈ vs, v = 0 ∨ v = 1) →
    mapM' privValBool vs s = .ok (bitWires s.priv.length vs, s.ext vs (bitCons s.priv.length vs))
  | [], s, _, _ => by simp [mapM', bitWires, bitCons, pure, M.pure]
  | v :: vs, s, hg, hv => by
    unfold mapM'
    change M.bind _ _ _ = _
    unfold M.bind
    rw [privValBool_emit hg (hv v List.mem_cons_self)]
    simp only
    change M.bind _ _ _ = _
    unfold M.bind
    rw [mapM'_privValBool_emit vs (by simpa using hg) (fun v' h' => hv v' (List.mem_cons_of_mem _ h'))]
    simp [bitWires, bitCons, pure, M.pure]

theorem bitWires_values : ∀ (k : Nat) (vs : List Int), (bitWires k vs).map (·.value) = vs
  | _, [] => rfl
  | k, v :: vs => by simp [bitWires, bitWires_values (k+1) vs]

/-- **acceptance**: without a guard, every `0 ≤ v < 2^n` is decomposed by `to_bits(n)` -/
theorem toBits_accept {x : LinComb} {bits : Option Nat} {s : St} (hg : s.guard = none)
    (h0 : 0 ≤ x.value) (h1 : x.value < 2 ^ (bits.getD s.bitlength)) :
    ∃ bs s', toBits x bits s = .ok (bs, s') := by
  have hf : fitsNonneg x.value (bits.getD s.bitlength) = true := (fitsNonneg_iff_Bits _ _).mpr ⟨h0, h1⟩
  unfold toBits
  simp only [hf, Bool.not_true, Bool.and_false, Bool.false_eq_true, if_false]
  change ∃ bs s', M.bind _ _ _ = _
  unfold M.bind
  rw [mapM'_privValBool_emit _ hg (by
    intro v hv
    simp only [Py.bitsOf, List.mem_map, List.mem_range] at hv
    obtain ⟨i, -, rfl⟩ := hv
    exact bit_bool _ _)]
  simp only
  change ∃ bs s', M.bind _ _ _ = _
  unfold M.bind
  have hval : (x.subFB (fromBits (bitWires s.priv.length (Py.bitsOf x.value (bits.getD s.bitlength))))).value = 0 := by
    have e := fbValue_fromBits (bitWires s.priv.length (Py.bitsOf x.value (bits.getD s.bitlength)))
    rw [bitWires_values, bitsVal_bitsOf _ _ _ h0 h1] at e
    revert e
    cases fromBits (bitWires s.priv.length (Py.bitsOf x.value (bits.getD s.bitlength))) with
    | none => simp [fbValue, LinComb.subFB, LinComb.subI, LinComb.addI, LinComb.add, LinComb.const]; omega
    | some y => simp [fbValue, LinComb.subFB, LinComb.sub, LinComb.add, LinComb.neg]; omega
  unfold assertZero addConstraint
  simp only [St.ext_guard, hg, hval]
  simp [LinComb.zero, addConstraintUnsafe_emit, pure, M.pure]

end Pysnark
