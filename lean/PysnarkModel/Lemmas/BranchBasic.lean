import PysnarkModel.Spec.Native
import PysnarkModel.Lemmas.ValuesDispatch
/-!
# Block branching: dictionaries of tracked variables, inversion of the library layer, and the two
facts that hold for every run whatever the guards are (the stack of open contexts is back to
what it was after each statement; no variable is ever unbound)
-/
namespace Pysnark

/-! ## `Vals` as a partial function -/
namespace Vals

theorem get?_set (vs : Vals) (x y : Nat) (o : TVal) :
    (vs.set x o).get? y = if x = y then some o else vs.get? y := by
  induction vs with
  | nil => simp [set, get?]
  | cons kv t ih =>
    obtain ⟨k, p⟩ := kv
    simp only [set]
    by_cases hk : k = x
    · subst hk
      simp only [if_true, get?]
      by_cases hy : k = y <;> simp [hy]
    · simp only [hk, if_false, get?, ih]
      by_cases hy : k = y
      · subst hy
        have : ¬ x = k := fun h => hk h.symm
        simp [this]
      · simp [hy]

theorem get?_filter (p : Nat → Bool) (vs : Vals) (x : Nat) :
    Vals.get? (vs.filter (fun kv => p kv.1)) x = if p x then vs.get? x else none := by
  induction vs with
  | nil => simp [get?]
  | cons kv t ih =>
    obtain ⟨k, o⟩ := kv
    simp only [List.filter]
    by_cases hp : p k = true
    · simp only [hp, get?, ih]
      by_cases hk : k = x
      · subst hk; simp [hp]
      · simp [hk]
    · simp only [hp, get?, ih]
      by_cases hk : k = x
      · subst hk; simp [hp]
      · simp [hk]

theorem has_iff (vs : Vals) (x : Nat) : vs.has x = true ↔ ∃ o, vs.get? x = some o := by
  unfold has; exact Option.isSome_iff_exists

theorem has_false_iff (vs : Vals) (x : Nat) : vs.has x = false ↔ vs.get? x = none := by
  unfold has; cases vs.get? x <;> simp

theorem get?_removeAll (vs other : Vals) (x : Nat) :
    (vs.removeAll other).get? x = if other.has x then none else vs.get? x := by
  unfold removeAll
  rw [get?_filter (fun k => !other.has k)]
  cases other.has x <;> simp

theorem get?_setAll_aux (other : Vals) : ∀ (l : Vals) (acc : Vals) (x : Nat),
    (∀ kv ∈ l, ∃ o, other.get? kv.1 = some o) →
    (l.foldl (setFrom other) acc).get? x
      = bif l.any (fun kv => kv.1 == x) then other.get? x else acc.get? x
  | [], acc, x, _ => by simp
  | kv :: l, acc, x, h => by
    obtain ⟨o, ho⟩ := h kv (by simp)
    simp only [List.foldl_cons]
    rw [get?_setAll_aux other l _ x (fun kv' hkv' => h kv' (List.mem_cons_of_mem _ hkv'))]
    simp only [List.any_cons, setFrom, ho, get?_set]
    by_cases hk : kv.1 = x
    · subst hk; cases hl : l.any (fun kv' => kv'.1 == kv.1) <;> simp [ho]
    · have : (kv.1 == x) = false := by simpa using hk
      cases hl : l.any (fun kv => kv.1 == x) <;> simp [this, hk]

theorem mem_get? : ∀ (vs : Vals) (kv : Nat × TVal), kv ∈ vs → ∃ o, vs.get? kv.1 = some o
  | [], _, h => by cases h
  | (k, p) :: t, kv, h => by
    simp only [get?]
    by_cases hk : k = kv.1
    · exact ⟨p, by simp [hk]⟩
    · simp only [hk, if_false]
      rcases List.mem_cons.mp h with rfl | h
      · exact (hk rfl).elim
      · exact mem_get? t kv h

theorem any_key_iff : ∀ (vs : Vals) (x : Nat), vs.any (fun kv => kv.1 == x) = vs.has x
  | [], x => by simp [has, get?]
  | (k, p) :: t, x => by
    simp only [List.any_cons, has, get?]
    by_cases hk : k = x
    · simp [hk]
    · have : (k == x) = false := by simpa using hk
      simp only [this, Bool.false_or, hk, if_false]
      exact any_key_iff t x

theorem get?_setAll (vs other : Vals) (x : Nat) :
    (vs.setAll other).get? x = if other.has x then other.get? x else vs.get? x := by
  unfold setAll
  rw [get?_setAll_aux other other vs x (fun kv h => mem_get? other kv h), any_key_iff]
  cases other.has x <;> rfl

theorem get?_backup : ∀ (vs : Vals) (x : Nat), vs.backup.get? x = (vs.get? x).map TVal.dcopy
  | [], x => rfl
  | (k, o) :: t, x => by
    simp only [backup, get?]
    by_cases hk : k = x
    · simp [hk]
    · simp only [hk, if_false]; exact get?_backup t x

theorem has_backup (vs : Vals) (x : Nat) : vs.backup.has x = vs.has x := by
  unfold has; rw [get?_backup]; cases vs.get? x <;> rfl

end Vals
end Pysnark

namespace Pysnark

open Lean.Parser.Tactic in
/-- split `(m >>= f) s = .ok r` (hypothesis `h`) into the two runs; `h` becomes the second one (the
original is cleared, so that later substitutions cannot bring it back under the same name) -/
macro "obind " h:ident " with " x:rcasesPatLo ", " s:ident ", " h1:ident : tactic =>
  `(tactic| (have hb__ := bind_ok.mp $h; clear $h; obtain ⟨$x, $s, $h1, $h⟩ := hb__))

/-! ## inversion of the library layer -/

theorem restoreGuard_ok {bak : GuardBak} {s s' : St} {u : Unit} (h : restoreGuard bak s = .ok (u, s')) :
    s' = { s with guard := bak.guard, ignoreErrors := bak.ignoreErrors, one := bak.one } := by
  unfold restoreGuard at h
  simp only [Except.ok.injEq, Prod.mk.injEq] at h
  exact h.2.symm

theorem freshS_ok {v : Val} {n n' : Nat} {o : SVal} {s s' : St} (h : freshS v n s = .ok ((o, n'), s')) :
    SVal.ofVal v n = some o ∧ n' = n + 1 ∧ s' = s := by
  unfold freshS at h
  cases hv : SVal.ofVal v n with
  | none => simp only [hv] at h; exact (raise_ok.mp h).elim
  | some o' =>
    simp only [hv] at h
    obtain ⟨h1, rfl⟩ := pure_ok' h
    simp only [Prod.mk.injEq] at h1
    exact ⟨by rw [h1.1], h1.2.symm, rfl⟩

theorem mergeS_ok {c : LinComb} {t f r : SVal} {n n' : Nat} {s s' : St}
    (h : mergeS c t f n s = .ok ((r, n'), s')) :
    (SVal.sameObj t f = true ∧ t = f ∧ r = t ∧ n' = n ∧ s' = s) ∨
    (SVal.sameObj t f = false ∧ ∃ v, iteScalar c t.toVal f.toVal s = .ok (v, s') ∧ SVal.ofVal v n = some r ∧ n' = n + 1) := by
  unfold mergeS at h
  by_cases hid : SVal.sameObj t f = true
  · simp only [hid, if_true] at h
    by_cases hv : t = f
    · simp only [hv, if_true] at h
      obtain ⟨h1, rfl⟩ := pure_ok' h
      simp only [Prod.mk.injEq] at h1
      exact Or.inl ⟨hid, hv, by rw [← h1.1, hv], h1.2.symm, rfl⟩
    · simp only [hv, if_false] at h
      exact (raise_ok.mp h).elim
  · simp only [hid] at h
    obtain ⟨v, s1, h1, h2⟩ := bind_ok.mp h
    obtain ⟨h3, h4, rfl⟩ := freshS_ok h2
    exact Or.inr ⟨by simpa using hid, v, h1, h3, h4⟩

theorem mergeT_leaf_ok {c : LinComb} {a b : SVal} {r : TVal} {n n' : Nat} {s s' : St}
    (h : mergeT c (.leaf a) (.leaf b) n s = .ok ((r, n'), s')) :
    ∃ o, mergeS c a b n s = .ok ((o, n'), s') ∧ r = .leaf o := by
  unfold mergeT at h
  obtain ⟨⟨o, n1⟩, s1, h1, h2⟩ := bind_ok.mp h
  obtain ⟨h3, rfl⟩ := pure_ok' h2
  simp only [Prod.mk.injEq] at h3
  obtain ⟨rfl, rfl⟩ := h3
  exact ⟨o, h1, rfl⟩

theorem mergeT_node_ok {c : LinComb} {ts fs : List TVal} {r : TVal} {n n' : Nat} {s s' : St}
    (h : mergeT c (.node ts) (.node fs) n s = .ok ((r, n'), s')) :
    ∃ rs, mergeTL c ts fs n s = .ok ((rs, n'), s') ∧ r = .node rs := by
  unfold mergeT at h
  split at h
  case isFalse => exact (raise_ok.mp h).elim
  obtain ⟨⟨rs, n1⟩, s1, h1, h2⟩ := bind_ok.mp h
  obtain ⟨h3, rfl⟩ := pure_ok' h2
  simp only [Prod.mk.injEq] at h3
  obtain ⟨rfl, rfl⟩ := h3
  exact ⟨rs, h1, rfl⟩

/-- a completed merge of two lists: the lists had the same length -/
theorem mergeT_node_len {c : LinComb} {ts fs : List TVal} {r : TVal} {n n' : Nat} {s s' : St}
    (h : mergeT c (.node ts) (.node fs) n s = .ok ((r, n'), s')) : ts.length = fs.length := by
  unfold mergeT at h
  split at h
  case isTrue hl => exact hl
  case isFalse => exact (raise_ok.mp h).elim

/-- `if len(truev) != len(falsev): raise ValueError(…)`: in every state, before anything is merged -/
theorem mergeT_len_refused {c : LinComb} {ts fs : List TVal} (n : Nat) (s : St) (hl : ts.length ≠ fs.length) :
    mergeT c (.node ts) (.node fs) n s = .error .value := by
  unfold mergeT
  rw [if_neg hl]
  rfl

theorem mergeT_mixed_ok {c : LinComb} {t f r : TVal} {n n' : Nat} {s s' : St}
    (h : mergeT c t f n s = .ok ((r, n'), s')) :
    (∃ a b, t = .leaf a ∧ f = .leaf b) ∨ (∃ ts fs, t = .node ts ∧ f = .node fs) := by
  cases t with
  | leaf a => cases f with
    | leaf b => exact Or.inl ⟨a, b, rfl, rfl⟩
    | node fs => unfold mergeT at h; exact (raise_ok.mp h).elim
  | node ts => cases f with
    | leaf b => unfold mergeT at h; exact (raise_ok.mp h).elim
    | node fs => exact Or.inr ⟨ts, fs, rfl, rfl⟩

theorem mergeTL_nil_ok {c : LinComb} {rs : List TVal} {n n' : Nat} {s s' : St}
    (h : mergeTL c [] [] n s = .ok ((rs, n'), s')) : rs = [] ∧ n' = n ∧ s' = s := by
  unfold mergeTL at h
  obtain ⟨h1, rfl⟩ := pure_ok' h
  simp only [Prod.mk.injEq] at h1
  exact ⟨h1.1.symm, h1.2.symm, rfl⟩

theorem mergeTL_cons_ok {c : LinComb} {t f : TVal} {ts fs rs : List TVal} {n n' : Nat} {s s' : St}
    (h : mergeTL c (t :: ts) (f :: fs) n s = .ok ((rs, n'), s')) :
    ∃ r n1 s1 rs', mergeT c t f n s = .ok ((r, n1), s1) ∧ mergeTL c ts fs n1 s1 = .ok ((rs', n'), s') ∧ rs = r :: rs' := by
  unfold mergeTL at h
  obtain ⟨⟨r, n1⟩, s1, h1, h⟩ := bind_ok.mp h
  obtain ⟨⟨rs', n2⟩, s2, h2, h⟩ := bind_ok.mp h
  obtain ⟨h3, rfl⟩ := pure_ok' h
  simp only [Prod.mk.injEq] at h3
  obtain ⟨rfl, rfl⟩ := h3
  exact ⟨r, n1, s1, rs', h1, h2, rfl⟩

theorem mergeTL_len_ok {c : LinComb} {ts fs rs : List TVal} {n n' : Nat} {s s' : St}
    (h : mergeTL c ts fs n s = .ok ((rs, n'), s')) :
    (ts = [] ∧ fs = []) ∨ (∃ t ts' f fs', ts = t :: ts' ∧ fs = f :: fs') := by
  cases ts with
  | nil => cases fs with
    | nil => exact Or.inl ⟨rfl, rfl⟩
    | cons f fs' => unfold mergeTL at h; exact (raise_ok.mp h).elim
  | cons t ts' => cases fs with
    | nil => unfold mergeTL at h; exact (raise_ok.mp h).elim
    | cons f fs' => exact Or.inr ⟨t, ts', f, fs', rfl, rfl⟩

theorem mergeNodef_nil {c : LinComb} {vals : Vals} {n : Nat} :
    mergeNodef c vals [] n = pure ([], n) := rfl

theorem mergeNodef_cons_ok {c : LinComb} {vals rest : Vals} {x : Nat} {o : TVal} {n n' : Nat} {rs : Vals} {s s' : St}
    (h : mergeNodef c vals ((x, o) :: rest) n s = .ok ((rs, n'), s')) :
    ∃ t r n1 s1 rs', vals.get? x = some t ∧ mergeT c t o n s = .ok ((r, n1), s1) ∧
      mergeNodef c vals rest n1 s1 = .ok ((rs', n'), s') ∧ rs = (x, r) :: rs' := by
  unfold mergeNodef at h
  cases hx : vals.get? x with
  | none => simp only [hx] at h; exact (raise_ok.mp h).elim
  | some t =>
    simp only [hx] at h
    obtain ⟨⟨r, n1⟩, s1, h1, h⟩ := bind_ok.mp h
    obtain ⟨⟨rs', n2⟩, s2, h2, h⟩ := bind_ok.mp h
    obtain ⟨h3, rfl⟩ := pure_ok' h
    simp only [Prod.mk.injEq] at h3
    obtain ⟨rfl, rfl⟩ := h3
    exact ⟨t, r, n1, s1, rs', rfl, h1, h2, rfl⟩

theorem mergeBak_cons_ok {c : LinComb} {bak rest : Vals} {x : Nat} {t : TVal} {n n' : Nat} {rs : Vals} {s s' : St}
    (h : mergeBak c bak ((x, t) :: rest) n s = .ok ((rs, n'), s')) :
    ∃ f r n1 s1 rs', bak.get? x = some f ∧ mergeT c t f n s = .ok ((r, n1), s1) ∧
      mergeBak c bak rest n1 s1 = .ok ((rs', n'), s') ∧ rs = (x, r) :: rs' := by
  unfold mergeBak at h
  cases hx : bak.get? x with
  | none => simp only [hx] at h; exact (raise_ok.mp h).elim
  | some f =>
    simp only [hx] at h
    obtain ⟨⟨r, n1⟩, s1, h1, h⟩ := bind_ok.mp h
    obtain ⟨⟨rs', n2⟩, s2, h2, h⟩ := bind_ok.mp h
    obtain ⟨h3, rfl⟩ := pure_ok' h
    simp only [Prod.mk.injEq] at h3
    obtain ⟨rfl, rfl⟩ := h3
    exact ⟨f, r, n1, s1, rs', rfl, h1, h2, rfl⟩

/-- `BranchContext.exit()` step by step -/
theorem exit_ok {ctx ctx' : BCtx} {bv bv' : BV} {s s' : St} (h : ctx.exit bv s = .ok ((ctx', bv'), s')) :
    ∃ (s1 : St) (nd : Vals) (n1 : Nat) (s2 : St) (vals : Vals) (n2 : Nat), restoreGuard ctx.origguard s = .ok ((), s1) ∧
      ((ctx.nodefvals = none ∧ nd = bv.vals.filter (fun kv => !ctx.bak.has kv.1) ∧ n1 = bv.next ∧ s2 = s1) ∨
       (∃ nd0, ctx.nodefvals = some nd0 ∧ mergeNodef ctx.cond bv.vals nd0 bv.next s1 = .ok ((nd, n1), s2))) ∧
      mergeBak ctx.cond ctx.bak (bv.vals.removeAll nd) n1 s2 = .ok ((vals, n2), s') ∧
      ctx' = { ctx with nodefvals := some nd } ∧ bv' = ⟨vals, n2⟩ := by
  unfold BCtx.exit at h
  obtain ⟨u, s1, h1, h⟩ := bind_ok.mp h
  obtain ⟨⟨nd, n1⟩, s2, h2, h⟩ := bind_ok.mp h
  obtain ⟨⟨vals, n2⟩, s3, h3, h⟩ := bind_ok.mp h
  obtain ⟨h4, rfl⟩ := pure_ok' h
  simp only [Prod.mk.injEq] at h4
  obtain ⟨rfl, rfl⟩ := h4
  refine ⟨s1, nd, n1, s2, vals, n2, h1, ?_, h3, rfl, rfl⟩
  cases hn : ctx.nodefvals with
  | none =>
    simp only [hn] at h2
    obtain ⟨h5, rfl⟩ := pure_ok' h2
    simp only [Prod.mk.injEq] at h5
    exact Or.inl ⟨rfl, h5.1.symm, h5.2.symm, rfl⟩
  | some nd0 =>
    simp only [hn] at h2
    exact Or.inr ⟨nd0, rfl, h2⟩

theorem enter_ok {ctx ctx' : BCtx} {c : LinComb} {bv : BV} {s s' : St} (h : ctx.enter c bv s = .ok (ctx', s')) :
    ∃ og, addGuard (.lcb c) s = .ok (og, s') ∧ ctx' = { ctx with bak := bv.vals.backup, cond := c, origguard := og } := by
  unfold BCtx.enter at h
  obtain ⟨og, s1, h1, h⟩ := bind_ok.mp h
  obtain ⟨rfl, rfl⟩ := pure_ok' h
  exact ⟨og, h1, rfl⟩

theorem condLC_ok {v : Val} {c : LinComb} {s s' : St} (h : condLC v s = .ok (c, s')) : v = .lcb c ∧ s' = s := by
  unfold condLC at h
  cases v <;> first | exact (raise_ok.mp h).elim | skip
  obtain ⟨rfl, rfl⟩ := pure_ok' h
  exact ⟨rfl, rfl⟩

theorem andBB_ok {x y r : LinComb} {s s' : St} (h : andBB x y s = .ok (r, s')) :
    ∃ p s1, mulLL x y s = .ok (p, s1) ∧ mkBool p false s1 = .ok (r, s') := by
  unfold andBB at h
  exact bind_ok.mp h

theorem andBB_val {x y r : LinComb} {s s' : St} (h : andBB x y s = .ok (r, s')) :
    Same s s' ∧ r.value = x.value * y.value ∧ (r.value = 0 ∨ r.value = 1) := by
  obtain ⟨p, s1, h1, h2⟩ := andBB_ok h
  obtain ⟨sm1, v1⟩ := mulLL_val h1
  obtain ⟨sm2, rfl, hb⟩ := mkBool_val h2
  exact ⟨sm1.trans sm2, v1, hb⟩

theorem ifNew_ok {c : LinComb} {bv : BV} {ctx : BCtx} {s s' : St} (h : ifNew c bv s = .ok (ctx, s')) :
    ∃ ic s1 og, boolNot c s = .ok (ic, s1) ∧ addGuard (.lcb c) s1 = .ok (og, s') ∧
      ctx = { isIf := true, bak := bv.vals.backup, cond := c, icond := some ic, nodefvals := none, origguard := og } := by
  unfold ifNew at h
  obtain ⟨ic, s1, h1, h⟩ := bind_ok.mp h
  obtain ⟨og, h2, rfl⟩ := enter_ok h
  exact ⟨ic, s1, og, h1, h2, rfl⟩

theorem whileNew_ok {c : LinComb} {bv : BV} {ctx : BCtx} {s s' : St} (h : whileNew c bv s = .ok (ctx, s')) :
    ∃ og, addGuard (.lcb c) s = .ok (og, s') ∧
      ctx = { isIf := false, bak := bv.vals.backup, cond := c, icond := none, nodefvals := none, origguard := og } := by
  unfold whileNew at h
  obtain ⟨og, h2, rfl⟩ := enter_ok h
  exact ⟨og, h2, rfl⟩

theorem ifElif_ok {ctx ctx' : BCtx} {thunk : BV → M Val} {bv bv' : BV} {s s' : St}
    (h : ifElif ctx thunk bv s = .ok ((ctx', bv'), s')) :
    ∃ ctx1 s1 nw s2 ic nn s3 nwic s4 c s5 ctx2,
      ctx.exit bv s = .ok ((ctx1, bv'), s1) ∧ thunk bv' s1 = .ok (.lcb nw, s2) ∧ ctx1.icond = some ic ∧
      boolNot nw s2 = .ok (nn, s3) ∧ andBB ic nn s3 = .ok (nwic, s4) ∧ andBB ic nw s4 = .ok (c, s5) ∧
      ctx1.enter c bv' s5 = .ok (ctx2, s') ∧ ctx' = { ctx2 with icond := some nwic } := by
  unfold ifElif at h
  obtain ⟨⟨ctx1, bv1⟩, s1, h1, h⟩ := bind_ok.mp h
  obtain ⟨nwv, s2, h2, h⟩ := bind_ok.mp h
  obtain ⟨nw, s2', h3, h⟩ := bind_ok.mp h
  obtain ⟨hnw, hs2⟩ := condLC_ok h3
  cases hic : ctx1.icond with
  | none => simp only [hic] at h; exact (raise_ok.mp h).elim
  | some ic =>
    simp only [hic] at h
    obtain ⟨nn, s3, h4, h⟩ := bind_ok.mp h
    obtain ⟨nwic, s4, h5, h⟩ := bind_ok.mp h
    obtain ⟨c, s5, h6, h⟩ := bind_ok.mp h
    obtain ⟨ctx2, s6, h7, h⟩ := bind_ok.mp h
    obtain ⟨h8, hs6⟩ := pure_ok' h
    simp only [Prod.mk.injEq] at h8
    obtain ⟨hc', hb'⟩ := h8
    rw [hnw] at h2
    rw [hs2] at h4
    rw [hs6] at h7
    exact ⟨ctx1, s1, nw, s2, ic, nn, s3, nwic, s4, c, s5, ctx2, hb' ▸ h1, hb' ▸ h2, hic, h4, h5, h6, hb' ▸ h7, hc'.symm⟩

theorem ifElse_ok {ctx ctx' : BCtx} {bv bv' : BV} {s s' : St} (h : ifElse ctx bv s = .ok ((ctx', bv'), s')) :
    ∃ ctx1 s1 ic ctx2, ctx.exit bv s = .ok ((ctx1, bv'), s1) ∧ ctx1.icond = some ic ∧
      ctx1.enter ic bv' s1 = .ok (ctx2, s') ∧ ctx' = { ctx2 with icond := none } := by
  unfold ifElse at h
  obtain ⟨⟨ctx1, bv1⟩, s1, h1, h⟩ := bind_ok.mp h
  dsimp only at h
  cases hic : ctx1.icond with
  | none => simp only [hic] at h; exact (raise_ok.mp h).elim
  | some ic =>
    simp only [hic] at h
    obtain ⟨ctx2, s2, h2, h⟩ := bind_ok.mp h
    obtain ⟨h3, rfl⟩ := pure_ok' h
    simp only [Prod.mk.injEq] at h3
    obtain ⟨rfl, rfl⟩ := h3
    exact ⟨ctx1, s1, ic, ctx2, h1, hic, h2, rfl⟩

theorem ifEnd_ok {ctx : BCtx} {bv bv' : BV} {s s' : St} (h : ifEnd ctx bv s = .ok (bv', s')) :
    ∃ ctx1 bv1, ctx.exit bv s = .ok ((ctx1, bv1), s') ∧
      ((ctx1.nodefvals.getD []).isEmpty = true ∨ ctx1.icond = none) ∧
      bv' = { bv1 with vals := bv1.vals.setAll (ctx1.nodefvals.getD []) } := by
  unfold ifEnd at h
  obtain ⟨⟨ctx1, bv1⟩, s1, h1, h⟩ := bind_ok.mp h
  dsimp only at h
  split at h
  · exact (raise_ok.mp h).elim
  · rename_i hc
    obtain ⟨rfl, rfl⟩ := pure_ok' h
    refine ⟨ctx1, bv1, h1, ?_, rfl⟩
    simp only [Bool.and_eq_true, Bool.not_eq_true', not_and, Bool.not_eq_true] at hc
    cases he : (ctx1.nodefvals.getD []).isEmpty with
    | true => exact Or.inl rfl
    | false =>
      right
      have := hc he
      cases hi : ctx1.icond with
      | none => rfl
      | some ic => simp [hi] at this

theorem whileExit_ok {ctx ctx' : BCtx} {bv bv' : BV} {s s' : St} (h : whileExit ctx bv s = .ok ((ctx', bv'), s')) :
    ctx.exit bv s = .ok ((ctx', bv'), s') ∧ (ctx'.nodefvals.getD []).isEmpty = true := by
  unfold whileExit at h
  obtain ⟨⟨ctx1, bv1⟩, s1, h1, h⟩ := bind_ok.mp h
  dsimp only at h
  split at h
  · exact (raise_ok.mp h).elim
  · rename_i hc
    obtain ⟨h2, rfl⟩ := pure_ok' h
    simp only [Prod.mk.injEq] at h2
    obtain ⟨rfl, rfl⟩ := h2
    exact ⟨h1, by simpa using hc⟩

theorem whileNext_ok {ctx ctx' : BCtx} {nw : LinComb} {bv bv' : BV} {s s' : St}
    (h : whileNext ctx nw bv s = .ok ((ctx', bv'), s')) :
    ∃ ctx1 s1 c s2, whileExit ctx bv s = .ok ((ctx1, bv'), s1) ∧ andBB ctx1.cond nw s1 = .ok (c, s2) ∧
      ctx1.enter c bv' s2 = .ok (ctx', s') := by
  unfold whileNext at h
  obtain ⟨⟨ctx1, bv1⟩, s1, h1, h⟩ := bind_ok.mp h
  obtain ⟨c, s2, h2, h⟩ := bind_ok.mp h
  obtain ⟨ctx2, s3, h3, h⟩ := bind_ok.mp h
  obtain ⟨h4, rfl⟩ := pure_ok' h
  simp only [Prod.mk.injEq] at h4
  obtain ⟨rfl, rfl⟩ := h4
  exact ⟨ctx1, s1, c, s2, h1, h2, h3⟩

/-! ## module functions -/
theorem bIf_ok {cond : Val} {bs bs' : BSt} {s s' : St} (h : bIf cond bs s = .ok (bs', s')) :
    ∃ c ctx, cond = .lcb c ∧ ifNew c bs.bv s = .ok (ctx, s') ∧ bs' = { bs with stack := ctx :: bs.stack } := by
  unfold bIf at h
  obtain ⟨c, s1, h1, h3⟩ := bind_ok.mp h
  clear h
  obtain ⟨rfl, rfl⟩ := condLC_ok h1
  obtain ⟨ctx, s2, h2, h4⟩ := bind_ok.mp h3
  obtain ⟨rfl, rfl⟩ := pure_ok' h4
  exact ⟨c, ctx, rfl, h2, rfl⟩

theorem bWhilePush_ok {cond : Val} {bs bs' : BSt} {s s' : St} (h : bWhilePush cond bs s = .ok (bs', s')) :
    ∃ c ctx, cond = .lcb c ∧ whileNew c bs.bv s = .ok (ctx, s') ∧ bs' = { bs with stack := ctx :: bs.stack } := by
  unfold bWhilePush at h
  obtain ⟨c, s1, h1, h3⟩ := bind_ok.mp h
  clear h
  obtain ⟨rfl, rfl⟩ := condLC_ok h1
  obtain ⟨ctx, s2, h2, h4⟩ := bind_ok.mp h3
  obtain ⟨rfl, rfl⟩ := pure_ok' h4
  exact ⟨c, ctx, rfl, h2, rfl⟩

theorem bElif_ok {thunk : BV → M Val} {bs bs' : BSt} {s s' : St} (h : bElif thunk bs s = .ok (bs', s')) :
    ∃ ctx rest ctx' bv', bs.stack = ctx :: rest ∧ ctx.isIf = true ∧
      ifElif ctx thunk bs.bv s = .ok ((ctx', bv'), s') ∧ bs' = ⟨bv', ctx' :: rest⟩ := by
  unfold bElif at h
  cases hs : bs.stack with
  | nil => simp only [hs] at h; exact (raise_ok.mp h).elim
  | cons ctx rest =>
    simp only [hs] at h
    split at h
    · exact (raise_ok.mp h).elim
    · rename_i hi
      obtain ⟨⟨ctx', bv'⟩, s1, h1, h⟩ := bind_ok.mp h
      obtain ⟨rfl, rfl⟩ := pure_ok' h
      exact ⟨ctx, rest, ctx', bv', rfl, by simpa using hi, h1, rfl⟩

theorem bElse_ok {bs bs' : BSt} {s s' : St} (h : bElse bs s = .ok (bs', s')) :
    ∃ ctx rest ctx' bv', bs.stack = ctx :: rest ∧ ctx.isIf = true ∧
      ifElse ctx bs.bv s = .ok ((ctx', bv'), s') ∧ bs' = ⟨bv', ctx' :: rest⟩ := by
  unfold bElse at h
  cases hs : bs.stack with
  | nil => simp only [hs] at h; exact (raise_ok.mp h).elim
  | cons ctx rest =>
    simp only [hs] at h
    split at h
    · exact (raise_ok.mp h).elim
    · rename_i hi
      obtain ⟨⟨ctx', bv'⟩, s1, h1, h⟩ := bind_ok.mp h
      obtain ⟨rfl, rfl⟩ := pure_ok' h
      exact ⟨ctx, rest, ctx', bv', rfl, by simpa using hi, h1, rfl⟩

/-- `stack.pop().end()` (the same code for `_endif`, `_endwhile`, `_endfor`) -/
theorem bEnd_ok {bs bs' : BSt} {s s' : St} (h : bEndif bs s = .ok (bs', s') ∨ bEndwhile bs s = .ok (bs', s')) :
    ∃ ctx rest bv', bs.stack = ctx :: rest ∧ bs' = ⟨bv', rest⟩ ∧
      ((ctx.isIf = true ∧ ifEnd ctx bs.bv s = .ok (bv', s')) ∨
       (ctx.isIf = false ∧ ∃ ctx', whileExit ctx bs.bv s = .ok ((ctx', bv'), s'))) := by
  have h' : bEndif bs s = .ok (bs', s') := by
    rcases h with h | h
    · exact h
    · exact h
  unfold bEndif at h'
  cases hs : bs.stack with
  | nil => simp only [hs] at h'; exact (raise_ok.mp h').elim
  | cons ctx rest =>
    simp only [hs] at h'
    split at h'
    · rename_i hi
      obtain ⟨bv', s1, h1, h2⟩ := bind_ok.mp h'
      obtain ⟨rfl, rfl⟩ := pure_ok' h2
      exact ⟨ctx, rest, bv', rfl, rfl, Or.inl ⟨hi, h1⟩⟩
    · rename_i hi
      obtain ⟨⟨ctx', bv'⟩, s1, h1, h2⟩ := bind_ok.mp h'
      obtain ⟨rfl, rfl⟩ := pure_ok' h2
      exact ⟨ctx, rest, bv', rfl, rfl, Or.inr ⟨by simpa using hi, ctx', h1⟩⟩

theorem bWhileNext_ok {cond : Val} {bs bs' : BSt} {s s' : St} (h : bWhileNext cond bs s = .ok (bs', s')) :
    ∃ ctx rest c ctx' bv', bs.stack = ctx :: rest ∧ ctx.isIf = false ∧ cond = .lcb c ∧
      whileNext ctx c bs.bv s = .ok ((ctx', bv'), s') ∧ bs' = ⟨bv', ctx' :: rest⟩ := by
  unfold bWhileNext at h
  cases hs : bs.stack with
  | nil => simp only [hs] at h; exact (raise_ok.mp h).elim
  | cons ctx rest =>
    simp only [hs] at h
    split at h
    · exact (raise_ok.mp h).elim
    · rename_i hi
      obtain ⟨c, s1, h1, h3⟩ := bind_ok.mp h
      clear h
      obtain ⟨rfl, rfl⟩ := condLC_ok h1
      obtain ⟨⟨ctx', bv'⟩, s2, h2, h4⟩ := bind_ok.mp h3
      obtain ⟨rfl, rfl⟩ := pure_ok' h4
      exact ⟨ctx, rest, c, ctx', bv', rfl, by simpa using hi, rfl, h2, rfl⟩

theorem bBreakif_ok {cond : Val} {bs bs' : BSt} {s s' : St} (h : bBreakif cond bs s = .ok (bs', s')) :
    ∃ c nc s1, cond = .lcb c ∧ boolNot c s = .ok (nc, s1) ∧ bWhileNext (.lcb nc) bs s1 = .ok (bs', s') := by
  unfold bBreakif at h
  obtain ⟨c, s1, h1, h3⟩ := bind_ok.mp h
  clear h
  obtain ⟨rfl, rfl⟩ := condLC_ok h1
  obtain ⟨nc, s2, h2, h4⟩ := bind_ok.mp h3
  exact ⟨c, nc, s2, rfl, h2, h4⟩

end Pysnark
