import PysnarkModel.Lemmas.BranchValues
/-!
# Block branching: the state between the arms of an `if` chain and the rounds of a loop

A *pending* segment is a context that has been entered (`enter(cond)`), whose body has run, and
that has not been left yet.  Its condition value is 1 (the body ran under a true guard and the
variables are the native ones) or 0 (nothing is known about the variables, but the snapshot
taken at `enter` is intact).
-/
namespace Pysnark

theorem enter_live {r : Nat} {ctx ctx' : BCtx} {c : LinComb} {bv : BV} {s s1 : St} (hl : Live r s)
    (h : ctx.enter c bv s = .ok (ctx', s1)) :
    ctx' = { ctx with bak := bv.vals.backup, cond := c, origguard := ⟨s.guard, s.ignoreErrors, s.one⟩ } ∧
    LiveT ctx'.origguard ∧ (c.value = 1 → Live r s1) ∧ s1.resolution = r := by
  obtain ⟨og, hg, rfl⟩ := enter_ok h
  obtain ⟨rfl, _, hl1⟩ := addGuard_live hl hg
  exact ⟨rfl, hl.triple, hl1, (addGuard_res hg).trans hl.res⟩

theorem view_nil (r : Nat) (vals : Vals) (x : Nat) : view r [] vals x = vals.valOf r x := rfl

theorem view_congr {r : Nat} {nd nd' vals vals' : Vals} (h1 : ∀ x, nd'.valOf r x = nd.valOf r x)
    (h2 : ∀ x, vals'.valOf r x = vals.valOf r x) (x : Nat) : view r nd' vals' x = view r nd vals x := by
  unfold view; rw [h1 x, h2 x]

/-- the snapshot taken at `enter` stands for the same numbers as the variables -/
theorem RefV.backup {r : Nat} {vals : Vals} {E : NEnv} (h : RefV r vals E) : RefV r vals.backup E :=
  ⟨fun x => by rw [valOf_backup]; exact h.eq x, bok_backup h.bok⟩

theorem Disj.congr {nd nd' vals vals' : Vals} (hd : Disj nd vals) (h1 : ∀ x, nd'.has x = nd.has x)
    (h2 : ∀ x, vals'.has x = vals.has x) : Disj nd' vals' := fun x hx => by
  rw [h2 x]; exact hd x (by rw [← h1 x]; exact hx)

theorem has_of_valOf_eq {r : Nat} {a b : Vals} (h : ∀ x, a.valOf r x = b.valOf r x) (x : Nat) : a.has x = b.has x := by
  have := h x
  cases ha : a.has x with
  | true =>
    obtain ⟨v, hv⟩ := has_valOf r ha
    rw [hv] at this
    exact (valOf_some_has this.symm).symm
  | false =>
    rw [valOf_eq_none.mpr ha] at this
    exact (valOf_eq_none.mp this.symm).symm

/-! ## `if` chains -/

/-- pending segment of an `if` chain in which an arm has been taken (this one, or an earlier one);
`ET` is what the native program has after that arm -/
structure PendT (r : Nat) (ET : NEnv) (ctx : BCtx) (vals : Vals) : Prop where
  isIf : ctx.isIf = true
  og : LiveT ctx.origguard
  ic : ctx.icond = none ∨ ∃ ic, ctx.icond = some ic ∧ ic.value = 0
  seg : (ctx.cond.value = 1 ∧ RefV r vals ET) ∨
        (ctx.cond.value = 0 ∧ ∃ nd, ctx.nodefvals = some nd ∧ (∀ x, view r nd ctx.bak x = ET.valOf r x) ∧
          Disj nd ctx.bak ∧ (∀ x, ctx.bak.has x = true → vals.has x = true) ∧ nd.bok ∧ ctx.bak.bok)

/-- pending segment of an `if` chain in which no arm has been taken so far (this one included);
`E0` is what the native program had when it reached the `if` -/
structure PendO (r : Nat) (E0 : NEnv) (ctx : BCtx) (vals : Vals) : Prop where
  isIf : ctx.isIf = true
  og : LiveT ctx.origguard
  ic : ∃ ic, ctx.icond = some ic ∧ ic.value = 1
  cond : ctx.cond.value = 0
  bak : RefV r ctx.bak E0
  mono : ∀ x, ctx.bak.has x = true → vals.has x = true
  disj : ∀ nd0, ctx.nodefvals = some nd0 → Disj nd0 ctx.bak

/-- between two arms, an arm has been taken -/
structure BetT (r : Nat) (ET : NEnv) (ctx : BCtx) (vals : Vals) : Prop where
  isIf : ctx.isIf = true
  ic : ctx.icond = none ∨ ∃ ic, ctx.icond = some ic ∧ ic.value = 0
  nd : ∃ nd, ctx.nodefvals = some nd ∧ (∀ x, view r nd vals x = ET.valOf r x) ∧ Disj nd vals ∧ nd.bok ∧ vals.bok

/-- between two arms, no arm has been taken -/
structure BetO (r : Nat) (E0 : NEnv) (ctx : BCtx) (vals : Vals) : Prop where
  isIf : ctx.isIf = true
  ic : ∃ ic, ctx.icond = some ic ∧ ic.value = 1
  nd : ∃ nd, ctx.nodefvals = some nd ∧ Disj nd vals
  ref : RefV r vals E0

theorem PendT.mono {r : Nat} {ET : NEnv} {ctx : BCtx} {vals vals' : Vals} (hp : PendT r ET ctx vals)
    (hc : ctx.cond.value = 0) (h : ∀ x, vals.has x = true → vals'.has x = true) : PendT r ET ctx vals' := by
  refine ⟨hp.isIf, hp.og, hp.ic, ?_⟩
  rcases hp.seg with ⟨h1, _⟩ | ⟨h0, nd, hn, hv, hd, hm, hb⟩
  · rw [hc] at h1; cases h1
  · exact Or.inr ⟨h0, nd, hn, hv, hd, fun x hx => h x (hm x hx), hb⟩

theorem PendO.mono' {r : Nat} {E0 : NEnv} {ctx : BCtx} {vals vals' : Vals} (hp : PendO r E0 ctx vals)
    (h : ∀ x, vals.has x = true → vals'.has x = true) : PendO r E0 ctx vals' :=
  ⟨hp.isIf, hp.og, hp.ic, hp.cond, hp.bak, fun x hx => h x (hp.mono x hx), hp.disj⟩

theorem exit_pendT {r : Nat} {ET : NEnv} {ctx ctx' : BCtx} {bv bv' : BV} {s s' : St} (hp : PendT r ET ctx bv.vals)
    (hres : s.resolution = r) (h : ctx.exit bv s = .ok ((ctx', bv'), s')) : Live r s' ∧ BetT r ET ctx' bv'.vals := by
  obtain ⟨e1, _, _, e4, _, _⟩ := exit_struct h
  rcases hp.seg with ⟨h1, hr⟩ | ⟨h0, nd, hn, hv, hd, hm, hnb, hbb⟩
  · obtain ⟨hl, nd', hn', hview, hdisj, _, hbok⟩ := exit_live h1 hp.og hres h
    obtain ⟨b1, b2⟩ := hbok hr.bok
    exact ⟨hl, ⟨e1 ▸ hp.isIf, e4 ▸ hp.ic, nd', hn', fun x => (hview x).trans (hr.eq x), hdisj, b1, b2⟩⟩
  · obtain ⟨hl, nd', hn', hvals, hdisj, hndv, hbok⟩ :=
      exit_dead h0 hp.og hres hm (fun nd0 h0' => by rw [hn] at h0'; cases h0'; exact hd) h
    obtain ⟨hndv1, hndv2⟩ := hndv nd hn
    refine ⟨hl, ⟨e1 ▸ hp.isIf, e4 ▸ hp.ic, nd', hn', fun x => ?_, hdisj, hndv2 hnb, hbok hbb⟩⟩
    rw [view_congr hndv1 hvals x]; exact hv x

theorem exit_pendO {r : Nat} {E0 : NEnv} {ctx ctx' : BCtx} {bv bv' : BV} {s s' : St} (hp : PendO r E0 ctx bv.vals)
    (hres : s.resolution = r) (h : ctx.exit bv s = .ok ((ctx', bv'), s')) : Live r s' ∧ BetO r E0 ctx' bv'.vals := by
  obtain ⟨e1, _, _, e4, _, _⟩ := exit_struct h
  obtain ⟨hl, nd', hn', hvals, hdisj, _, hbok⟩ := exit_dead hp.cond hp.og hres hp.mono hp.disj h
  exact ⟨hl, ⟨e1 ▸ hp.isIf, e4 ▸ hp.ic, ⟨nd', hn', hdisj⟩, ⟨fun x => (hvals x).trans (hp.bak.eq x), hbok hp.bak.bok⟩⟩⟩

/-- `_endif()` after an arm was taken -/
theorem ifEnd_pendT {r : Nat} {ET : NEnv} {ctx : BCtx} {bv bv' : BV} {s s' : St} (hp : PendT r ET ctx bv.vals)
    (hres : s.resolution = r) (h : ifEnd ctx bv s = .ok (bv', s')) : Live r s' ∧ RefV r bv'.vals ET := by
  obtain ⟨ctx1, bv1, hx, _, rfl⟩ := ifEnd_ok h
  obtain ⟨hl, hb⟩ := exit_pendT hp hres hx
  obtain ⟨nd, hn, hv, _, hnb, hvb⟩ := hb.nd
  refine ⟨hl, ⟨fun x => ?_, ?_⟩⟩
  · simp only [hn, Option.getD_some]
    rw [valOf_setAll]; exact hv x
  · simp only [hn, Option.getD_some]
    exact hvb.setAll hnb

/-- `_endif()` when no arm was taken: nothing may have been bound inside the chain -/
theorem ifEnd_pendO {r : Nat} {E0 : NEnv} {ctx : BCtx} {bv bv' : BV} {s s' : St} (hp : PendO r E0 ctx bv.vals)
    (hres : s.resolution = r) (h : ifEnd ctx bv s = .ok (bv', s')) : Live r s' ∧ RefV r bv'.vals E0 := by
  obtain ⟨ctx1, bv1, hx, hchk, rfl⟩ := ifEnd_ok h
  obtain ⟨hl, hb⟩ := exit_pendO hp hres hx
  obtain ⟨nd, hn, _⟩ := hb.nd
  obtain ⟨ic, hic, _⟩ := hb.ic
  have hnil : nd = [] := by
    rcases hchk with he | hi
    · simp only [hn, Option.getD_some] at he
      exact List.isEmpty_iff.mp he
    · rw [hic] at hi; cases hi
  refine ⟨hl, ⟨fun x => ?_, ?_⟩⟩
  · simp only [hn, Option.getD_some, hnil]
    rw [valOf_setAll, view_nil]; exact hb.ref.eq x
  · simp only [hn, Option.getD_some, hnil]
    exact hb.ref.bok.setAll Vals.bok_nil

/-- `_else()` after an arm was taken: the else arm runs under a false guard -/
theorem ifElse_betT {r : Nat} {ET : NEnv} {ctx ctx' : BCtx} {bv bv' : BV} {s s' : St} (hp : PendT r ET ctx bv.vals)
    (hres : s.resolution = r) (h : ifElse ctx bv s = .ok ((ctx', bv'), s')) :
    PendT r ET ctx' bv'.vals ∧ ctx'.cond.value = 0 ∧ s'.resolution = r := by
  obtain ⟨ctx1, s1, ic, ctx2, hx, hic, hen, rfl⟩ := ifElse_ok h
  obtain ⟨hl, hb⟩ := exit_pendT hp hres hx
  obtain ⟨rfl, hlt, _, hres'⟩ := enter_live hl hen
  obtain ⟨nd, hn, hv, hd, hnb, hvb⟩ := hb.nd
  have hic0 : ic.value = 0 := by
    rcases hb.ic with h0 | ⟨ic', h1, h2⟩
    · rw [hic] at h0; cases h0
    · rw [hic] at h1; cases h1; exact h2
  refine ⟨⟨hb.isIf, hlt, Or.inl rfl, Or.inr ⟨hic0, nd, hn, ?_, ?_, ?_, hnb, bok_backup hvb⟩⟩, hic0, hres'⟩
  · intro x
    rw [view_congr (fun _ => rfl) (valOf_backup r bv'.vals) x]; exact hv x
  · intro x hx; show Vals.has bv'.vals.backup x = false; rw [Vals.has_backup]; exact hd x hx
  · intro x hx; rw [← Vals.has_backup]; exact hx

/-- `_else()` when no arm was taken: the else arm runs under a true guard; afterwards it is the
taken arm -/
theorem ifElse_betO {r : Nat} {E0 : NEnv} {ctx ctx' : BCtx} {bv bv' : BV} {s s' : St} (hp : PendO r E0 ctx bv.vals)
    (hres : s.resolution = r) (h : ifElse ctx bv s = .ok ((ctx', bv'), s')) :
    Live r s' ∧ RefV r bv'.vals E0 ∧ ctx'.isIf = true ∧ LiveT ctx'.origguard ∧ ctx'.icond = none ∧ ctx'.cond.value = 1 := by
  obtain ⟨ctx1, s1, ic, ctx2, hx, hic, hen, rfl⟩ := ifElse_ok h
  obtain ⟨hl, hb⟩ := exit_pendO hp hres hx
  obtain ⟨rfl, hlt, hl1, _⟩ := enter_live hl hen
  obtain ⟨ic', h1, h2⟩ := hb.ic
  rw [hic] at h1; cases h1
  exact ⟨hl1 h2, hb.ref, hb.isIf, hlt, rfl, h2⟩

/-- `_elif(c)` after an arm was taken -/
theorem ifElif_betT {r : Nat} {ET : NEnv} {env : BEnv} {c : BCond} {ctx ctx' : BCtx}
    {bv bv' : BV} {s s' : St} (hp : PendT r ET ctx bv.vals) (hres : s.resolution = r)
    (h : ifElif ctx (fun bv => evalC env bv c) bv s = .ok ((ctx', bv'), s')) :
    PendT r ET ctx' bv'.vals ∧ ctx'.cond.value = 0 ∧ s'.resolution = r := by
  obtain ⟨ctx1, s1, nw, s2, ic, nn, s3, nwic, s4, cc, s5, ctx2, hx, hth, hic, hnn, hnwic, hcc, hen, rfl⟩ := ifElif_ok h
  obtain ⟨hl, hb⟩ := exit_pendT hp hres hx
  have sm2 := evalC_same hth
  obtain ⟨sm3, _, _⟩ := boolNot_val hnn
  obtain ⟨sm4, v4, _⟩ := andBB_val hnwic
  obtain ⟨sm5, v5, _⟩ := andBB_val hcc
  have hl5 : Live r s5 := (((hl.same sm2).same sm3).same sm4).same sm5
  obtain ⟨rfl, hlt, _, hres'⟩ := enter_live hl5 hen
  obtain ⟨nd, hn, hv, hd, hnb, hvb⟩ := hb.nd
  have hic0 : ic.value = 0 := by
    rcases hb.ic with h0 | ⟨ic', h1, h2⟩
    · rw [hic] at h0; cases h0
    · rw [hic] at h1; cases h1; exact h2
  have hcc0 : cc.value = 0 := by rw [v5, hic0]; ring
  refine ⟨⟨hb.isIf, hlt, Or.inr ⟨nwic, rfl, by rw [v4, hic0]; ring⟩, Or.inr ⟨hcc0, nd, hn, ?_, ?_, ?_, hnb, bok_backup hvb⟩⟩, hcc0, hres'⟩
  · intro x
    rw [view_congr (fun _ => rfl) (valOf_backup r bv'.vals) x]; exact hv x
  · intro x hx; show Vals.has bv'.vals.backup x = false; rw [Vals.has_backup]; exact hd x hx
  · intro x hx; rw [← Vals.has_backup]; exact hx

/-- `_elif(c)` when no arm was taken: `c` is evaluated on the variables the native program has -/
theorem ifElif_betO {r : Nat} {E0 : NEnv} {env : BEnv} {nc : NCtx} (hi : RefI r env nc) {c : BCond} {ctx ctx' : BCtx}
    {bv bv' : BV} {s s' : St} (hp : PendO r E0 ctx bv.vals) (hres : s.resolution = r)
    (h : ifElif ctx (fun bv => evalC env bv c) bv s = .ok ((ctx', bv'), s')) :
    ∃ b, nEvalC nc E0 c = .ok b ∧ RefV r bv'.vals E0 ∧
      (b = true → Live r s' ∧ ctx'.isIf = true ∧ LiveT ctx'.origguard ∧ ctx'.cond.value = 1 ∧
        ∃ ic, ctx'.icond = some ic ∧ ic.value = 0) ∧
      (b = false → PendO r E0 ctx' bv'.vals) ∧ s'.resolution = r := by
  obtain ⟨ctx1, s1, nw, s2, ic, nn, s3, nwic, s4, cc, s5, ctx2, hx, hth, hic, hnn, hnwic, hcc, hen, rfl⟩ := ifElif_ok h
  obtain ⟨hl, hb⟩ := exit_pendO hp hres hx
  obtain ⟨sm2, b, hnat, hvr⟩ := evalC_live hi hb.ref hl hth
  have vr := hvr nw rfl
  obtain ⟨sm3, v3, _⟩ := boolNot_val hnn
  obtain ⟨sm4, v4, _⟩ := andBB_val hnwic
  obtain ⟨sm5, v5, _⟩ := andBB_val hcc
  have hl5 : Live r s5 := (((hl.same sm2).same sm3).same sm4).same sm5
  obtain ⟨rfl, hlt, hl1, hres'⟩ := enter_live hl5 hen
  obtain ⟨ic', h1, h2⟩ := hb.ic
  rw [hic] at h1; cases h1
  obtain ⟨nd, hn, hd⟩ := hb.nd
  refine ⟨b, hnat, hb.ref, ?_, ?_, hres'⟩
  · intro hbt
    subst hbt
    simp only [if_true] at vr
    have hcv : cc.value = 1 := by rw [v5, h2, vr]; ring
    exact ⟨hl1 hcv, hb.isIf, hlt, hcv, nwic, rfl, by rw [v4, h2, v3, vr]; ring⟩
  · intro hbf
    subst hbf
    simp only [Bool.false_eq_true, if_false] at vr
    have hcv : cc.value = 0 := by rw [v5, h2, vr]; ring
    refine ⟨hb.isIf, hlt, ⟨nwic, rfl, by rw [v4, h2, v3, vr]; ring⟩, hcv, hb.ref.backup, ?_, ?_⟩
    · intro x hx; rw [← Vals.has_backup]; exact hx
    · intro nd0 h0 x hx
      rw [hn] at h0; cases h0
      show Vals.has bv'.vals.backup x = false
      rw [Vals.has_backup]; exact hd x hx

/-- `_if(c)` from a live state -/
theorem ifNew_live {r : Nat} {c : LinComb} {bv : BV} {ctx : BCtx} {s s' : St} (hl : Live r s) (h : ifNew c bv s = .ok (ctx, s')) :
    ctx.isIf = true ∧ LiveT ctx.origguard ∧ ctx.bak = bv.vals.backup ∧ ctx.cond = c ∧ ctx.nodefvals = none ∧
    (∃ ic, ctx.icond = some ic ∧ ic.value = 1 - c.value) ∧ (c.value = 1 → Live r s') ∧ BoolLC c ∧ s'.resolution = r := by
  obtain ⟨ic, s1, og, hn, hg, rfl⟩ := ifNew_ok h
  obtain ⟨sm, v, hb⟩ := boolNot_val hn
  obtain ⟨rfl, _, hl1⟩ := addGuard_live (hl.same sm) hg
  exact ⟨rfl, (hl.same sm).triple, rfl, rfl, rfl, ⟨ic, rfl, v⟩, hl1, hb, (addGuard_res hg).trans (hl.same sm).res⟩

end Pysnark
