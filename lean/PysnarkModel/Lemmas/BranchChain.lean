import PysnarkModel.Lemmas.BranchValues
/-!
# Block branching: the state between the arms of an `if` chain and the rounds of a loop

A *pending* segment is a context that has been entered (`enter(cond)`), whose body has run, and
that has not been left yet.  Its condition value is 1 (the body ran under a true guard and the
variables are the native ones) or 0 (nothing is known about the variables, but the snapshot
taken at `enter` is intact).
-/
namespace Pysnark

theorem enter_live {ctx ctx' : BCtx} {c : LinComb} {bv : BV} {s s1 : St} (hl : Live s)
    (h : ctx.enter c bv s = .ok (ctx', s1)) :
    ctx' = { ctx with bak := bv.vals, cond := c, origguard := ⟨s.guard, s.ignoreErrors, s.one⟩ } ∧
    LiveT ctx'.origguard ∧ (c.value = 1 → Live s1) := by
  obtain ⟨og, hg, rfl⟩ := enter_ok h
  obtain ⟨rfl, hl1⟩ := addGuard_live hl hg
  exact ⟨rfl, hl.triple, hl1⟩

theorem view_nil (vals : Vals) (x : Nat) : view [] vals x = vals.valOf x := rfl

theorem view_congr {nd nd' vals vals' : Vals} (h1 : ∀ x, nd'.valOf x = nd.valOf x)
    (h2 : ∀ x, vals'.valOf x = vals.valOf x) (x : Nat) : view nd' vals' x = view nd vals x := by
  unfold view; rw [h1 x, h2 x]

theorem Disj.congr {nd nd' vals vals' : Vals} (hd : Disj nd vals) (h1 : ∀ x, nd'.has x = nd.has x)
    (h2 : ∀ x, vals'.has x = vals.has x) : Disj nd' vals' := fun x hx => by
  rw [h2 x]; exact hd x (by rw [← h1 x]; exact hx)

theorem has_of_valOf_eq {a b : Vals} (h : ∀ x, a.valOf x = b.valOf x) (x : Nat) : a.has x = b.has x := by
  have := h x
  cases ha : a.has x with
  | true =>
    obtain ⟨v, hv⟩ := has_valOf ha
    rw [hv] at this
    exact (valOf_some_has this.symm).symm
  | false =>
    rw [valOf_eq_none.mpr ha] at this
    exact (valOf_eq_none.mp this.symm).symm

/-! ## `if` chains -/

/-- pending segment of an `if` chain in which an arm has been taken (this one, or an earlier one);
`ET` is what the native program has after that arm -/
structure PendT (ET : NEnv) (ctx : BCtx) (vals : Vals) : Prop where
  isIf : ctx.isIf = true
  og : LiveT ctx.origguard
  ic : ctx.icond = none ∨ ∃ ic, ctx.icond = some ic ∧ ic.value = 0
  seg : (ctx.cond.value = 1 ∧ RefV vals ET) ∨
        (ctx.cond.value = 0 ∧ ∃ nd, ctx.nodefvals = some nd ∧ (∀ x, view nd ctx.bak x = ET.get? x) ∧
          Disj nd ctx.bak ∧ ∀ x, ctx.bak.has x = true → vals.has x = true)

/-- pending segment of an `if` chain in which no arm has been taken so far (this one included);
`E0` is what the native program had when it reached the `if` -/
structure PendO (E0 : NEnv) (ctx : BCtx) (vals : Vals) : Prop where
  isIf : ctx.isIf = true
  og : LiveT ctx.origguard
  ic : ∃ ic, ctx.icond = some ic ∧ ic.value = 1
  cond : ctx.cond.value = 0
  bak : RefV ctx.bak E0
  mono : ∀ x, ctx.bak.has x = true → vals.has x = true
  disj : ∀ nd0, ctx.nodefvals = some nd0 → Disj nd0 ctx.bak

/-- between two arms, an arm has been taken -/
structure BetT (ET : NEnv) (ctx : BCtx) (vals : Vals) : Prop where
  isIf : ctx.isIf = true
  ic : ctx.icond = none ∨ ∃ ic, ctx.icond = some ic ∧ ic.value = 0
  nd : ∃ nd, ctx.nodefvals = some nd ∧ (∀ x, view nd vals x = ET.get? x) ∧ Disj nd vals

/-- between two arms, no arm has been taken -/
structure BetO (E0 : NEnv) (ctx : BCtx) (vals : Vals) : Prop where
  isIf : ctx.isIf = true
  ic : ∃ ic, ctx.icond = some ic ∧ ic.value = 1
  nd : ∃ nd, ctx.nodefvals = some nd ∧ Disj nd vals
  ref : RefV vals E0

theorem PendT.mono {ET : NEnv} {ctx : BCtx} {vals vals' : Vals} (hp : PendT ET ctx vals)
    (hc : ctx.cond.value = 0) (h : ∀ x, vals.has x = true → vals'.has x = true) : PendT ET ctx vals' := by
  refine ⟨hp.isIf, hp.og, hp.ic, ?_⟩
  rcases hp.seg with ⟨h1, _⟩ | ⟨h0, nd, hn, hv, hd, hm⟩
  · rw [hc] at h1; cases h1
  · exact Or.inr ⟨h0, nd, hn, hv, hd, fun x hx => h x (hm x hx)⟩

theorem PendO.mono' {E0 : NEnv} {ctx : BCtx} {vals vals' : Vals} (hp : PendO E0 ctx vals)
    (h : ∀ x, vals.has x = true → vals'.has x = true) : PendO E0 ctx vals' :=
  ⟨hp.isIf, hp.og, hp.ic, hp.cond, hp.bak, fun x hx => h x (hp.mono x hx), hp.disj⟩

theorem exit_pendT {ET : NEnv} {ctx ctx' : BCtx} {bv bv' : BV} {s s' : St} (hp : PendT ET ctx bv.vals)
    (h : ctx.exit bv s = .ok ((ctx', bv'), s')) : Live s' ∧ BetT ET ctx' bv'.vals := by
  obtain ⟨e1, _, _, e4, _, _⟩ := exit_struct h
  rcases hp.seg with ⟨h1, hr⟩ | ⟨h0, nd, hn, hv, hd, hm⟩
  · obtain ⟨hl, nd', hn', hview, hdisj, _⟩ := exit_live h1 hp.og h
    exact ⟨hl, ⟨e1 ▸ hp.isIf, e4 ▸ hp.ic, nd', hn', fun x => (hview x).trans (hr x), hdisj⟩⟩
  · obtain ⟨hl, nd', hn', hvals, hdisj, hndv⟩ :=
      exit_dead h0 hp.og hm (fun nd0 h0' => by rw [hn] at h0'; cases h0'; exact hd) h
    refine ⟨hl, ⟨e1 ▸ hp.isIf, e4 ▸ hp.ic, nd', hn', fun x => ?_, hdisj⟩⟩
    rw [view_congr (hndv nd hn) hvals x]; exact hv x

theorem exit_pendO {E0 : NEnv} {ctx ctx' : BCtx} {bv bv' : BV} {s s' : St} (hp : PendO E0 ctx bv.vals)
    (h : ctx.exit bv s = .ok ((ctx', bv'), s')) : Live s' ∧ BetO E0 ctx' bv'.vals := by
  obtain ⟨e1, _, _, e4, _, _⟩ := exit_struct h
  obtain ⟨hl, nd', hn', hvals, hdisj, _⟩ := exit_dead hp.cond hp.og hp.mono hp.disj h
  exact ⟨hl, ⟨e1 ▸ hp.isIf, e4 ▸ hp.ic, ⟨nd', hn', hdisj⟩, fun x => (hvals x).trans (hp.bak x)⟩⟩

/-- `_endif()` after an arm was taken -/
theorem ifEnd_pendT {ET : NEnv} {ctx : BCtx} {bv bv' : BV} {s s' : St} (hp : PendT ET ctx bv.vals)
    (h : ifEnd ctx bv s = .ok (bv', s')) : Live s' ∧ RefV bv'.vals ET := by
  obtain ⟨ctx1, bv1, hx, _, rfl⟩ := ifEnd_ok h
  obtain ⟨hl, hb⟩ := exit_pendT hp hx
  obtain ⟨nd, hn, hv, _⟩ := hb.nd
  refine ⟨hl, fun x => ?_⟩
  simp only [hn, Option.getD_some]
  rw [valOf_setAll]; exact hv x

/-- `_endif()` when no arm was taken: nothing may have been bound inside the chain -/
theorem ifEnd_pendO {E0 : NEnv} {ctx : BCtx} {bv bv' : BV} {s s' : St} (hp : PendO E0 ctx bv.vals)
    (h : ifEnd ctx bv s = .ok (bv', s')) : Live s' ∧ RefV bv'.vals E0 := by
  obtain ⟨ctx1, bv1, hx, hchk, rfl⟩ := ifEnd_ok h
  obtain ⟨hl, hb⟩ := exit_pendO hp hx
  obtain ⟨nd, hn, _⟩ := hb.nd
  obtain ⟨ic, hic, _⟩ := hb.ic
  have hnil : nd = [] := by
    rcases hchk with he | hi
    · simp only [hn, Option.getD_some] at he
      exact List.isEmpty_iff.mp he
    · rw [hic] at hi; cases hi
  refine ⟨hl, fun x => ?_⟩
  simp only [hn, Option.getD_some, hnil]
  rw [valOf_setAll, view_nil]; exact hb.ref x

/-- `_else()` after an arm was taken: the else arm runs under a false guard -/
theorem ifElse_betT {ET : NEnv} {ctx ctx' : BCtx} {bv bv' : BV} {s s' : St} (hp : PendT ET ctx bv.vals)
    (h : ifElse ctx bv s = .ok ((ctx', bv'), s')) : PendT ET ctx' bv'.vals := by
  obtain ⟨ctx1, s1, ic, ctx2, hx, hic, hen, rfl⟩ := ifElse_ok h
  obtain ⟨hl, hb⟩ := exit_pendT hp hx
  obtain ⟨rfl, hlt, _⟩ := enter_live hl hen
  obtain ⟨nd, hn, hv, hd⟩ := hb.nd
  have hic0 : ic.value = 0 := by
    rcases hb.ic with h0 | ⟨ic', h1, h2⟩
    · rw [hic] at h0; cases h0
    · rw [hic] at h1; cases h1; exact h2
  exact ⟨hb.isIf, hlt, Or.inl rfl, Or.inr ⟨hic0, nd, hn, hv, hd, fun x hx => hx⟩⟩

/-- `_else()` when no arm was taken: the else arm runs under a true guard; afterwards it is the
taken arm -/
theorem ifElse_betO {E0 : NEnv} {ctx ctx' : BCtx} {bv bv' : BV} {s s' : St} (hp : PendO E0 ctx bv.vals)
    (h : ifElse ctx bv s = .ok ((ctx', bv'), s')) :
    Live s' ∧ RefV bv'.vals E0 ∧ ctx'.isIf = true ∧ LiveT ctx'.origguard ∧ ctx'.icond = none ∧ ctx'.cond.value = 1 := by
  obtain ⟨ctx1, s1, ic, ctx2, hx, hic, hen, rfl⟩ := ifElse_ok h
  obtain ⟨hl, hb⟩ := exit_pendO hp hx
  obtain ⟨rfl, hlt, hl1⟩ := enter_live hl hen
  obtain ⟨ic', h1, h2⟩ := hb.ic
  rw [hic] at h1; cases h1
  exact ⟨hl1 h2, hb.ref, hb.isIf, hlt, rfl, h2⟩

/-- `_elif(c)` after an arm was taken -/
theorem ifElif_betT {ET : NEnv} {env : BEnv} {nc : NCtx} (hi : RefI env nc) {c : BCond} {ctx ctx' : BCtx}
    {bv bv' : BV} {s s' : St} (hp : PendT ET ctx bv.vals)
    (h : ifElif ctx (fun bv => evalC env bv c) bv s = .ok ((ctx', bv'), s')) : PendT ET ctx' bv'.vals := by
  obtain ⟨ctx1, s1, nw, s2, ic, nn, s3, nwic, s4, cc, s5, ctx2, hx, hth, hic, hnn, hnwic, hcc, hen, rfl⟩ := ifElif_ok h
  obtain ⟨hl, hb⟩ := exit_pendT hp hx
  obtain ⟨sm2, _, _, _⟩ := evalC_live_any hi hl hth
  obtain ⟨sm3, _, _⟩ := boolNot_val hnn
  obtain ⟨sm4, v4, _⟩ := andBB_val hnwic
  obtain ⟨sm5, v5, _⟩ := andBB_val hcc
  have hl5 : Live s5 := (((hl.same sm2).same sm3).same sm4).same sm5
  obtain ⟨rfl, hlt, _⟩ := enter_live hl5 hen
  obtain ⟨nd, hn, hv, hd⟩ := hb.nd
  have hic0 : ic.value = 0 := by
    rcases hb.ic with h0 | ⟨ic', h1, h2⟩
    · rw [hic] at h0; cases h0
    · rw [hic] at h1; cases h1; exact h2
  refine ⟨hb.isIf, hlt, Or.inr ⟨nwic, rfl, by rw [v4, hic0]; ring⟩, Or.inr ⟨?_, nd, hn, hv, hd, fun x hx => hx⟩⟩
  show cc.value = 0
  rw [v5, hic0]; ring

/-- `_elif(c)` when no arm was taken: `c` is evaluated on the variables the native program has -/
theorem ifElif_betO {E0 : NEnv} {env : BEnv} {nc : NCtx} (hi : RefI env nc) {c : BCond} {ctx ctx' : BCtx}
    {bv bv' : BV} {s s' : St} (hp : PendO E0 ctx bv.vals)
    (h : ifElif ctx (fun bv => evalC env bv c) bv s = .ok ((ctx', bv'), s')) :
    ∃ b, nEvalC nc E0 c = .ok b ∧ RefV bv'.vals E0 ∧
      (b = true → Live s' ∧ ctx'.isIf = true ∧ LiveT ctx'.origguard ∧ ctx'.cond.value = 1 ∧
        ∃ ic, ctx'.icond = some ic ∧ ic.value = 0) ∧
      (b = false → PendO E0 ctx' bv'.vals) := by
  obtain ⟨ctx1, s1, nw, s2, ic, nn, s3, nwic, s4, cc, s5, ctx2, hx, hth, hic, hnn, hnwic, hcc, hen, rfl⟩ := ifElif_ok h
  obtain ⟨hl, hb⟩ := exit_pendO hp hx
  obtain ⟨sm2, b, r, hnat, hr, vr⟩ := evalC_live hi hb.ref hl hth
  cases hr
  obtain ⟨sm3, v3, _⟩ := boolNot_val hnn
  obtain ⟨sm4, v4, _⟩ := andBB_val hnwic
  obtain ⟨sm5, v5, _⟩ := andBB_val hcc
  have hl5 : Live s5 := (((hl.same sm2).same sm3).same sm4).same sm5
  obtain ⟨rfl, hlt, hl1⟩ := enter_live hl5 hen
  obtain ⟨ic', h1, h2⟩ := hb.ic
  rw [hic] at h1; cases h1
  obtain ⟨nd, hn, hd⟩ := hb.nd
  refine ⟨b, hnat, hb.ref, ?_, ?_⟩
  · intro hbt
    subst hbt
    simp only [if_true] at vr
    have hcv : cc.value = 1 := by rw [v5, h2, vr]; ring
    exact ⟨hl1 hcv, hb.isIf, hlt, hcv, nwic, rfl, by rw [v4, h2, v3, vr]; ring⟩
  · intro hbf
    subst hbf
    simp only [Bool.false_eq_true, if_false] at vr
    have hcv : cc.value = 0 := by rw [v5, h2, vr]; ring
    exact ⟨hb.isIf, hlt, ⟨nwic, rfl, by rw [v4, h2, v3, vr]; ring⟩, hcv, hb.ref, fun x hx => hx,
      fun nd0 h0 => by rw [hn] at h0; cases h0; exact hd⟩

/-- `_if(c)` from a live state -/
theorem ifNew_live {c : LinComb} {bv : BV} {ctx : BCtx} {s s' : St} (hl : Live s) (h : ifNew c bv s = .ok (ctx, s')) :
    ctx.isIf = true ∧ LiveT ctx.origguard ∧ ctx.bak = bv.vals ∧ ctx.cond = c ∧ ctx.nodefvals = none ∧
    (∃ ic, ctx.icond = some ic ∧ ic.value = 1 - c.value) ∧ (c.value = 1 → Live s') := by
  obtain ⟨ic, s1, og, hn, hg, rfl⟩ := ifNew_ok h
  obtain ⟨sm, v, _⟩ := boolNot_val hn
  obtain ⟨rfl, hl1⟩ := addGuard_live (hl.same sm) hg
  exact ⟨rfl, (hl.same sm).triple, rfl, rfl, rfl, ⟨ic, rfl, v⟩, hl1⟩

end Pysnark
