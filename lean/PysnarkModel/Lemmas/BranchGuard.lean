import PysnarkModel.Lemmas.BranchStruct
/-!
# Block branching: every completed statement leaves the guard triple as it found it

(active guard, error-suppression flag, `LinComb.ONE`), whatever the conditions are: a context saves
the triple when it is entered (`add_guard` hands it back), restores it when it is left, and
nothing in between two `enter`s of the same context touches it.
-/
namespace Pysnark

def GuardBak.triple (og : GuardBak) : Triple := ⟨og.guard, og.ignoreErrors, og.one⟩

theorem Same.triple {s s' : St} (h : Same s s') : s'.triple = s.triple := by
  simp only [St.triple, h.guard, h.ign, h.one]

theorem restoreGuard_triple {og : GuardBak} {s s' : St} {u : Unit} (h : restoreGuard og s = .ok (u, s')) :
    s'.triple = og.triple := by
  rw [restoreGuard_ok h]; rfl

theorem exit_triple {ctx ctx' : BCtx} {bv bv' : BV} {s s' : St} (h : ctx.exit bv s = .ok ((ctx', bv'), s')) :
    s'.triple = ctx.origguard.triple ∧ ctx'.origguard = ctx.origguard := by
  obtain ⟨s1, nd, n1, s2, vals, n2, hr, hnd, hb, rfl, _⟩ := exit_ok h
  refine ⟨?_, rfl⟩
  have r2 : s2.triple = s1.triple := by
    rcases hnd with ⟨_, _, _, rfl⟩ | ⟨nd0, _, hm⟩
    · rfl
    · exact (mergeNodef_same hm).triple
  rw [(mergeBak_same hb).triple, r2, restoreGuard_triple hr]

theorem enter_triple {ctx ctx' : BCtx} {c : LinComb} {bv : BV} {s s' : St} (h : ctx.enter c bv s = .ok (ctx', s')) :
    ctx'.origguard.triple = s.triple := by
  obtain ⟨og, hg, rfl⟩ := enter_ok h
  exact addGuard_bak hg

/-- the context on top of the stack remembers the triple `T` -/
def TopG (T : Triple) (stk : List BCtx) (bs : BSt) : Prop :=
  ∃ ctx, bs.stack = ctx :: stk ∧ ctx.origguard.triple = T

theorem TopG.push {cond : Val} {bs bs' : BSt} {s s' : St}
    (h : bIf cond bs s = .ok (bs', s') ∨ bWhilePush cond bs s = .ok (bs', s')) : TopG s.triple bs.stack bs' := by
  rcases h with h | h
  · obtain ⟨c, ctx, _, hn, rfl⟩ := bIf_ok h
    unfold ifNew at hn
    obtain ⟨ic, s1, h1, h2⟩ := bind_ok.mp hn
    exact ⟨ctx, rfl, by rw [enter_triple h2, (boolNot_val h1).1.triple]⟩
  · obtain ⟨c, ctx, _, hn, rfl⟩ := bWhilePush_ok h
    unfold whileNew at hn
    exact ⟨ctx, rfl, enter_triple hn⟩

theorem TopG.whileNext {T : Triple} {stk : List BCtx} {bs bs' : BSt} {cond : Val} {s s' : St}
    (hd : TopG T stk bs) (h : bWhileNext cond bs s = .ok (bs', s')) : TopG T stk bs' := by
  obtain ⟨ctx0, hs0, hc⟩ := hd
  obtain ⟨ctx, rest, c, ctx', bv', hs, _, _, hw, rfl⟩ := bWhileNext_ok h
  rw [hs0] at hs; cases hs
  obtain ⟨ctx1, s1, c1, s2, he, ha, hen⟩ := whileNext_ok hw
  obtain ⟨hx, _⟩ := whileExit_ok he
  obtain ⟨ht, hog⟩ := exit_triple hx
  exact ⟨ctx', rfl, by rw [enter_triple hen, (andBB_val ha).1.triple, ht, hc]⟩

theorem TopG.breakStep {T : Triple} {stk : List BCtx} {env : BEnv} {brk : Option BCond} {bs bs' : BSt} {s s' : St}
    (hd : TopG T stk bs) (h : breakStep env brk bs s = .ok (bs', s')) : TopG T stk bs' := by
  unfold Pysnark.breakStep at h
  cases brk with
  | none =>
    obtain ⟨rfl, rfl⟩ := pure_ok' h
    exact hd
  | some bc =>
    obtain ⟨bcv, t4, _, h⟩ := bind_ok.mp h
    obtain ⟨cb, nc, t5, _, _, h⟩ := bBreakif_ok h
    exact hd.whileNext h

theorem TopG.end_ {T : Triple} {stk : List BCtx} {bs bs' : BSt} {s s' : St}
    (hd : TopG T stk bs) (h : bEndif bs s = .ok (bs', s') ∨ bEndwhile bs s = .ok (bs', s')) : s'.triple = T := by
  obtain ⟨ctx0, hs0, hc⟩ := hd
  obtain ⟨ctx, rest, bv', hs, rfl, hcase⟩ := bEnd_ok h
  rw [hs0] at hs; cases hs
  rcases hcase with ⟨_, he⟩ | ⟨_, ctx', he⟩
  · obtain ⟨ctx1, bv1, hx, _, _⟩ := ifEnd_ok he
    rw [(exit_triple hx).1, hc]
  · rw [(exit_triple (whileExit_ok he).1).1, hc]

/-- a nested statement leaves the stack as it found it: the context on top is still the one that
remembers `T` -/
theorem TopG.struct {T : Triple} {stk : List BCtx} {bs bs' : BSt} (hd : TopG T stk bs) (hst : bs'.stack = bs.stack) :
    TopG T stk bs' := by
  obtain ⟨ctx, hs, hc⟩ := hd
  exact ⟨ctx, by rw [hst, hs], hc⟩

theorem guardedM_triple {α : Type} {c : LinComb} {m : M α} {a : α} {s s' : St}
    (h : guardedM c m s = .ok (a, s')) : s'.triple = s.triple := by
  unfold guardedM at h
  obtain ⟨bak, s1, h1, h⟩ := bind_ok.mp h
  obtain ⟨b, s2, h2, h⟩ := bind_ok.mp h
  obtain ⟨u, s3, h3, h⟩ := bind_ok.mp h
  obtain ⟨_, rfl⟩ := pure_ok' h
  rw [restoreGuard_triple h3]
  exact addGuard_bak h1

theorem execIfRest_triple {T : Triple} : ∀ (rest : BIfRest) (env : BEnv) (bs bs' : BSt) (s s' : St) (stk : List BCtx),
    TopG T stk bs → execIfRest env rest bs s = .ok (bs', s') → s'.triple = T
  | .endif, env, bs, bs', s, s', stk, hd, h => by
    unfold execIfRest at h
    exact hd.end_ (Or.inl h)
  | .els b, env, bs, bs', s, s', stk, hd, h => by
    unfold execIfRest at h
    obtain ⟨bs1, s1, h1, h3⟩ := bind_ok.mp h
    obtain ⟨bs2, s2, h2, h4⟩ := bind_ok.mp h3
    clear h h3
    obtain ⟨ctx0, hs0, hc⟩ := hd
    obtain ⟨ctx, rest, ctx', bv', hs, _, he, rfl⟩ := bElse_ok h1
    rw [hs0] at hs; cases hs
    obtain ⟨ctx1, t1, ic, ctx2, hx, _, hen, rfl⟩ := ifElse_ok he
    have hd1 : TopG T stk ⟨bv', { ctx2 with icond := none } :: stk⟩ :=
      ⟨_, rfl, by show ctx2.origguard.triple = T; rw [enter_triple hen, (exit_triple hx).1, hc]⟩
    obtain ⟨⟨hst, _⟩, _⟩ := execBlock_struct b env _ bs2 s1 s2 h2
    exact (hd1.struct hst).end_ (Or.inl h4)
  | .elif c b rest, env, bs, bs', s, s', stk, hd, h => by
    unfold execIfRest at h
    obtain ⟨bs1, s1, h1, h3⟩ := bind_ok.mp h
    obtain ⟨bs2, s2, h2, h4⟩ := bind_ok.mp h3
    clear h h3
    obtain ⟨ctx0, hs0, hc⟩ := hd
    obtain ⟨ctx, rest', ctx', bv', hs, _, he, rfl⟩ := bElif_ok h1
    rw [hs0] at hs; cases hs
    obtain ⟨ctx1, t1, nw, t2, ic, nn, t3, nwic, t4, cc, t5, ctx2, hx, hth, _, hnn, hnwic, hcc, hen, rfl⟩ := ifElif_ok he
    have hd1 : TopG T stk ⟨bv', { ctx2 with icond := some nwic } :: stk⟩ :=
      ⟨_, rfl, by
        show ctx2.origguard.triple = T
        rw [enter_triple hen, (andBB_val hcc).1.triple, (andBB_val hnwic).1.triple, (boolNot_val hnn).1.triple,
          (evalC_same hth).triple, (exit_triple hx).1, hc]⟩
    obtain ⟨⟨hst, _⟩, _⟩ := execBlock_struct b env _ bs2 s1 s2 h2
    exact execIfRest_triple rest env bs2 bs' s2 s' stk (hd1.struct hst) h4

/-- **guard state restored**: after every completed statement the guard triple is what it was -/
theorem execStmt_triple : ∀ (st : BStmt) (env : BEnv) (bs bs' : BSt) (s s' : St),
    execStmt env st bs s = .ok (bs', s') → s'.triple = s.triple
  | .assign x e, env, bs, bs', s, s', h => by
    unfold execStmt at h
    obtain ⟨⟨t, n⟩, s1, h1, h2⟩ := bind_ok.mp h
    obtain ⟨_, rfl⟩ := bindT_struct h2
    exact (evalE_same e h1).triple
  | .setitem x path e, env, bs, bs', s, s', h => by
    unfold execStmt at h
    obtain ⟨⟨t, n⟩, s1, h1, h2⟩ := bind_ok.mp h
    dsimp only at h2
    cases hg : bs.bv.vals.get? x with
    | none => simp only [hg] at h2; exact (raise_ok.mp h2).elim
    | some old =>
      simp only [hg] at h2
      cases hs : old.set path t with
      | none => simp only [hs] at h2; exact (raise_ok.mp h2).elim
      | some new =>
        simp only [hs] at h2
        obtain ⟨_, rfl⟩ := bindT_struct h2
        exact (evalE_same e h1).triple
  | .sel x c t f, env, bs, bs', s, s', h => by
    unfold execStmt at h
    obind h with cv, s1, h1
    obind h with ⟨tv, n1⟩, s2, h2
    obind h with ⟨fv, n2⟩, s3, h3
    obind h with cl, s4, h4
    obtain ⟨_, hs4⟩ := condLC_ok h4
    obind h with ⟨r, n3⟩, s5, h5
    obtain ⟨_, rfl⟩ := bindT_struct h
    rw [(mergeT_same h5).triple, hs4, (evalE_same f h3).triple, (evalE_same t h2).triple, (evalC_same h1).triple]
  | .ite x c t f, env, bs, bs', s, s', h => by
    unfold execStmt at h
    obind h with cv, s1, h1
    obind h with cl, s2, h2
    obtain ⟨_, hs2⟩ := condLC_ok h2
    obind h with ⟨r, n3⟩, s3, h3
    obtain ⟨_, rfl⟩ := bindT_struct h
    unfold iteThunks at h3
    obtain ⟨⟨tv, n1⟩, t1, k1, h3⟩ := bind_ok.mp h3
    obtain ⟨nc, t2, k2, h3⟩ := bind_ok.mp h3
    obtain ⟨⟨fv, n2⟩, t3, k3, h3⟩ := bind_ok.mp h3
    rw [(iteVals_same h3).triple, guardedM_triple k3, (boolNot_val k2).1.triple, guardedM_triple k1, hs2,
      (evalC_same h1).triple]
  | .ifs c body rest, env, bs, bs', s, s', h => by
    unfold execStmt at h
    obtain ⟨cv, s1, h0, h⟩ := bind_ok.mp h
    obtain ⟨bs1, s2, h1, h⟩ := bind_ok.mp h
    obtain ⟨bs2, s3, h2, h⟩ := bind_ok.mp h
    have hd := TopG.push (Or.inl h1)
    obtain ⟨⟨hst, _⟩, _⟩ := execBlock_struct body env bs1 bs2 s2 s3 h2
    rw [execIfRest_triple rest env bs2 bs' s3 s' _ (hd.struct hst) h, (evalC_same h0).triple]
  | .forr lv bound mx body, env, bs, bs', s, s', h => by
    unfold execStmt at h
    obtain ⟨stop, s1, h0, h⟩ := bind_ok.mp h
    cases stop <;> first | exact (raise_ok.mp h).elim | skip
    dsimp only at h
    obtain ⟨c0, s2, hc0, h⟩ := bind_ok.mp h
    obtain ⟨bs1, s3, h1, h⟩ := bind_ok.mp h
    obtain ⟨bs2, s4, h2, h⟩ := bind_ok.mp h
    obtain ⟨bs3, s5, h3, h⟩ := bind_ok.mp h
    have hd := TopG.push (Or.inr h1)
    obtain ⟨⟨hst, _⟩, _⟩ := execBlock_struct body _ bs1 bs2 s3 s4 h2
    have hd3 : TopG s2.triple bs.stack bs3 := by
      refine iterM_inv (fun b _ => TopG s2.triple bs.stack b) _ ?_ _ _ _ _ _ _ (hd.struct hst) h3
      intro i b t b' t' hp hstep
      unfold forRound at hstep
      obtain ⟨cc, t1, _, hstep⟩ := bind_ok.mp hstep
      obtain ⟨b1, t2, hw, hstep⟩ := bind_ok.mp hstep
      obtain ⟨⟨hst', _⟩, _⟩ := execBlock_struct body _ b1 b' t2 t' hstep
      exact (hp.whileNext hw).struct hst'
    rw [hd3.end_ (Or.inr h), (cmpV_int_all (x := .int 0) (y := .lc _) trivial trivial hc0).1.triple, (evalC_same h0).triple]
  | .whil c mx body brk, env, bs, bs', s, s', h => by
    unfold execStmt at h
    obtain ⟨c0, s1, h0, h⟩ := bind_ok.mp h
    obtain ⟨bs1, s2, h1, h⟩ := bind_ok.mp h
    obtain ⟨bs2, s3, h2, h⟩ := bind_ok.mp h
    have hd := TopG.push (Or.inr h1)
    have hd2 : TopG s1.triple bs.stack bs2 := by
      refine iterM_inv (fun b _ => TopG s1.triple bs.stack b) _ ?_ _ _ _ _ _ _ hd h2
      intro i b t b' t' hp hstep
      unfold whileRound at hstep
      obtain ⟨b1, t1, hb, hstep⟩ := bind_ok.mp hstep
      obtain ⟨b2, t2, hbr, hstep⟩ := bind_ok.mp hstep
      obtain ⟨cn, t3, _, hstep⟩ := bind_ok.mp hstep
      obtain ⟨⟨hst', _⟩, _⟩ := execBlock_struct body env b b1 t t1 hb
      exact ((hp.struct hst').breakStep hbr).whileNext hstep
    rw [hd2.end_ (Or.inr h), (evalC_same h0).triple]

theorem execBlock_triple : ∀ (b : BBlock) (env : BEnv) (bs bs' : BSt) (s s' : St),
    execBlock env b bs s = .ok (bs', s') → s'.triple = s.triple
  | .nil, env, bs, bs', s, s', h => by
    unfold execBlock at h
    obtain ⟨_, rfl⟩ := pure_ok' h
    rfl
  | .cons st rest, env, bs, bs', s, s', h => by
    unfold execBlock at h
    obtain ⟨bs1, s1, h1, h2⟩ := bind_ok.mp h
    rw [execBlock_triple rest env bs1 bs' s1 s' h2, execStmt_triple st env bs bs1 s s1 h1]

end Pysnark
