import PysnarkModel.Lemmas.BranchTree
import PysnarkModel.Lemmas.InvRun
/-!
# Block branching keeps the tracer invariant

`Inv` (every recorded constraint holds on the recorded witness; the guard state is consistent) and
the coherence of every object the program can reach are preserved by every function of the library
layer and therefore by every structured program — including nested blocks, where the effective
guard is the bitwise AND of the enclosing guard and the condition.
-/
namespace Pysnark

/-! ## nested guards: the value of `guard & cond` -/
theorem bitsVal_zero_br : ∀ (l : List Int) (i : Nat), (∀ x ∈ l, x = 0) → bitsVal l i = 0
  | [], _, _ => rfl
  | b :: bs, i, h => by
    simp only [bitsVal, h b (by simp), zero_mul, zero_add]
    exact bitsVal_zero_br bs (i+1) (fun x hx => h x (List.mem_cons_of_mem _ hx))

theorem bitsOf_zero_br (n : Nat) : ∀ x ∈ Py.bitsOf 0 n, x = 0 := by
  intro x hx
  simp only [Py.bitsOf, List.mem_map, List.mem_range] at hx
  obtain ⟨i, _, rfl⟩ := hx
  simp [Py.bit]

/-- `a & b` on secret integers when `a` is 0, with or without error suppression -/
theorem andLL_zero {s s' : St} {a b : LinComb} {o : Option LinComb} (ha : a.value = 0)
    (h : andLL a b s = .ok (o, s')) : valFB o = 0 := by
  unfold andLL at h
  obtain ⟨ab, s1, h1, h⟩ := bind_ok.mp h
  obtain ⟨bb, s2, h2, h⟩ := bind_ok.mp h
  obtain ⟨res, s3, h3, h⟩ := bind_ok.mp h
  obtain ⟨rfl, rfl⟩ := pure_ok' h
  obtain ⟨_, va, _⟩ := toBits_val h1
  obtain ⟨_, vr⟩ := mapM'_val (fun xy : LinComb × LinComb => mulBB xy.1 xy.2) (fun xy => xy.1.value * xy.2.value)
    (fun _ => True) (fun _ _ _ _ => trivial) (fun xy s s' r _ h => mulBB_val h) _ trivial h3
  rw [valFB_fromBits, vr, map_zip_values (· * ·), va, ha]
  apply bitsVal_zero_br
  intro x hx
  obtain ⟨i, hi, rfl⟩ := List.getElem_of_mem hx
  simp only [List.getElem_zipWith]
  have : (Py.bitsOf 0 (Option.none.getD s.bitlength))[i]'(by simp only [List.length_zipWith] at hi; omega) = 0 :=
    bitsOf_zero_br _ _ (List.getElem_mem _)
  rw [this, zero_mul]

/-- saved guard triple that can be reinstalled in any later state -/
structure TripleOk (s : St) (og : GuardBak) : Prop where
  oneNone : og.guard = none → og.one = oneSafe
  oneSome : ∀ g, og.guard = some g → og.one = g
  guardGood : ∀ g, og.guard = some g → Good s g ∧ (g.value = 0 ∨ g.value = 1)
  ign : og.ignoreErrors = true ↔ ∃ g, og.guard = some g ∧ g.value = 0

theorem TripleOk.of_inv {s : St} (h : Inv s) : TripleOk s ⟨s.guard, s.ignoreErrors, s.one⟩ :=
  ⟨h.oneNone, h.oneSome, h.guardGood, h.ign⟩

theorem TripleOk.mono {s s' : St} {og : GuardBak} (h : TripleOk s og) (hle : s.le s') : TripleOk s' og :=
  ⟨h.oneNone, h.oneSome, fun g hg => ⟨(h.guardGood g hg).1.mono hle, (h.guardGood g hg).2⟩, h.ign⟩

theorem TripleOk.init (s : St) : TripleOk s ⟨none, false, oneSafe⟩ :=
  { oneNone := fun _ => rfl
    oneSome := fun g hg => by cases hg
    guardGood := fun g hg => by cases hg
    ign := by simp }

theorem restoreGuard_invT {s s' : St} {og : GuardBak} {u : Unit} (hinv : Inv s) (ht : TripleOk s og)
    (h : restoreGuard og s = .ok (u, s')) : s.le s' ∧ Inv s' := by
  rw [restoreGuard_ok h]
  have hle : s.le { s with guard := og.guard, ignoreErrors := og.ignoreErrors, one := og.one } :=
    ⟨List.prefix_refl _, List.prefix_refl _, List.prefix_refl _, rfl⟩
  refine ⟨hle, ?_⟩
  exact {
    sat := fun c hc => (hinv.sat c hc).mono hle (hinv.consOk c hc)
    consOk := fun c hc => by
      obtain ⟨a, b, d⟩ := hinv.consOk c hc
      exact ⟨a.mono hle, b.mono hle, d.mono hle⟩
    oneNone := ht.oneNone
    oneSome := ht.oneSome
    guardGood := fun g hg => ⟨(ht.guardGood g hg).1.mono hle, (ht.guardGood g hg).2⟩
    ign := ht.ign }

/-- `add_guard(cond)` for a boolean-valued condition, at any nesting depth -/
theorem addGuard_lcb_inv {s s1 : St} {c : LinComb} {og : GuardBak} (hinv : Inv s) (hc : Good s c)
    (hcb : c.value = 0 ∨ c.value = 1) (h : addGuard (.lcb c) s = .ok (og, s1)) :
    s.le s1 ∧ Inv s1 ∧ og = ⟨s.guard, s.ignoreErrors, s.one⟩ := by
  have hb := addGuard_bak h
  simp only [St.triple, Triple.mk.injEq] at hb
  have hog : og = ⟨s.guard, s.ignoreErrors, s.one⟩ := by cases og; simp only [GuardBak.mk.injEq]; exact hb
  suffices hkey : s.le s1 ∧ Inv s1 from ⟨hkey.1, hkey.2, hog⟩
  clear hog hb
  cases hg : s.guard with
  | none =>
    obtain ⟨le1, inv1, _⟩ := addGuard_spec hinv hg (by simpa [GoodV] using hc) h
    exact ⟨le1, inv1⟩
  | some g =>
    obtain ⟨gg, gv⟩ := hinv.guardGood g hg
    unfold addGuard unwrapBoolCond addGuardCore at h
    simp only [hg] at h
    split at h
    · cases h
    · split at h
      · cases h
      · rename_i g' s' hand
        simp only [Except.ok.injEq, Prod.mk.injEq] at h
        obtain ⟨_, rfl⟩ := h
        -- `g & c` through the bit decomposition
        unfold bwLV at hand
        simp only at hand
        obtain ⟨o, t1, hand1, hand2⟩ := bind_ok.mp hand
        obtain ⟨ho, rfl⟩ := pure_ok' hand2
        obtain ⟨le1, f1, inv1, go⟩ := andLL_spec hinv gg hc hand1
        have hog' : o = some g' := by
          cases o with
          | none => simp [ofFB] at ho
          | some r => simp only [ofFB, Val.lc.injEq] at ho; rw [ho]
        have gg' : Good t1 g' := go g' hog'
        have hval : g'.value = g.value * c.value := by
          cases hi : s.ignoreErrors with
          | true =>
            have g0 := (hinv.ign_of_guard hg).mp hi
            have := andLL_zero g0 hand1
            rw [hog'] at this
            simp only [valFB] at this
            rw [this, g0]; ring
          | false =>
            obtain ⟨_, _, _, _, _, hv⟩ := andLL_val hi hand1
            rw [hog'] at hv
            simp only [valFB] at hv
            rw [hv]
            rcases gv with g0 | g1 <;> rcases hcb with c0 | c1 <;> simp [*]
        have hle : s.le { t1 with guard := some g', ignoreErrors := t1.ignoreErrors || c.value == 0, one := g' } :=
          ⟨le1.pub, le1.priv, le1.cons, le1.p⟩
        have hle1 : t1.le { t1 with guard := some g', ignoreErrors := t1.ignoreErrors || c.value == 0, one := g' } :=
          ⟨List.prefix_refl _, List.prefix_refl _, List.prefix_refl _, rfl⟩
        refine ⟨hle, ?_⟩
        exact {
          sat := fun c' hc' => (inv1.sat c' hc').mono hle1 (inv1.consOk c' hc')
          consOk := fun c' hc' => by
            obtain ⟨a, b, d⟩ := inv1.consOk c' hc'
            exact ⟨a.mono hle1, b.mono hle1, d.mono hle1⟩
          oneNone := fun hn => by cases hn
          oneSome := fun g'' hg'' => by simp only [Option.some.injEq] at hg''; exact hg''
          guardGood := fun g'' hg'' => by
            simp only [Option.some.injEq] at hg''
            subst hg''
            refine ⟨gg'.mono hle1, ?_⟩
            rw [hval]
            rcases gv with g0 | g1 <;> rcases hcb with c0 | c1 <;> simp [*]
          ign := by
            simp only [Option.some.injEq, exists_eq_left', f1.ign, Bool.or_eq_true, beq_iff_eq]
            rw [hinv.ign_of_guard hg, hval]
            constructor
            · rintro (g0 | c0) <;> simp [*]
            · intro hz
              rcases gv with g0 | g1
              · exact Or.inl g0
              · right; rw [g1] at hz; simpa using hz }
      · cases h


/-! ## coherence of everything the program can reach -/

/-- a scalar whose `LinComb` is coherent; a `LinCombBool` moreover holds 0 or 1 -/
def GoodS (s : St) : SVal → Prop
  | .pub _ => True
  | .sc .bool l _ => Good s l ∧ BoolLC l
  | .sc _ l _ => Good s l

def GoodT (s : St) (t : TVal) : Prop := t.AllP (GoodS s)

def GoodVals (s : St) (vs : Vals) : Prop := ∀ kv ∈ vs, GoodT s kv.2

structure GoodCtx (s : St) (c : BCtx) : Prop where
  bak : GoodVals s c.bak
  cond : Good s c.cond ∧ BoolLC c.cond
  icond : ∀ ic, c.icond = some ic → Good s ic ∧ BoolLC ic
  nd : ∀ nd, c.nodefvals = some nd → GoodVals s nd
  og : TripleOk s c.origguard

structure GoodB (s : St) (bs : BSt) : Prop where
  vals : GoodVals s bs.bv.vals
  stack : ∀ c ∈ bs.stack, GoodCtx s c

structure GoodE (s : St) (env : BEnv) : Prop where
  inputs : ∀ o ∈ env.inputs, GoodS s o
  finputs : ∀ o ∈ env.finputs, GoodS s o

theorem GoodS.mono {s s' : St} (hle : s.le s') {o : SVal} (h : GoodS s o) : GoodS s' o := by
  cases o with
  | pub c => trivial
  | sc k l id =>
    cases k
    · exact Good.mono hle h
    · exact ⟨Good.mono hle h.1, h.2⟩
    · exact Good.mono hle h

theorem GoodT.mono {s s' : St} {t : TVal} (h : GoodT s t) (hle : s.le s') : GoodT s' t :=
  PTree.AllP.mono (fun _ ho => GoodS.mono hle ho) h

theorem GoodVals.mono {s s' : St} {vs : Vals} (h : GoodVals s vs) (hle : s.le s') : GoodVals s' vs :=
  fun kv hkv => (h kv hkv).mono hle

theorem GoodCtx.mono {s s' : St} {c : BCtx} (h : GoodCtx s c) (hle : s.le s') : GoodCtx s' c :=
  ⟨h.bak.mono hle, ⟨h.cond.1.mono hle, h.cond.2⟩, fun ic hic => ⟨(h.icond ic hic).1.mono hle, (h.icond ic hic).2⟩,
    fun nd hnd => (h.nd nd hnd).mono hle, h.og.mono hle⟩

theorem GoodB.mono {s s' : St} {bs : BSt} (h : GoodB s bs) (hle : s.le s') : GoodB s' bs :=
  ⟨h.vals.mono hle, fun c hc => (h.stack c hc).mono hle⟩

theorem GoodE.mono {s s' : St} {env : BEnv} (h : GoodE s env) (hle : s.le s') : GoodE s' env :=
  ⟨fun o ho => GoodS.mono hle (h.inputs o ho), fun o ho => GoodS.mono hle (h.finputs o ho)⟩

theorem GoodS.toVal {s : St} {o : SVal} (h : GoodS s o) : GoodV s o.toVal := by
  cases o with
  | pub c => simp [SVal.toVal, GoodV]
  | sc k l id =>
    cases k
    · simpa [GoodV, GoodS, SVal.toVal] using h
    · simpa [GoodV, GoodS, SVal.toVal] using h.1
    · simpa [GoodV, GoodS, SVal.toVal] using h

/-- a new object around a coherent result; a boolean result must hold 0 or 1 -/
theorem GoodS.ofVal {s : St} {v : Val} {n : Nat} {o : SVal} (ho : SVal.ofVal v n = some o) (hv : GoodV s v)
    (hb : ∀ l, v = .lcb l → BoolLC l) : GoodS s o := by
  cases v <;> simp only [SVal.ofVal, Option.some.injEq] at ho <;> first | subst ho | cases ho
  · trivial
  · simpa [GoodV, GoodS] using hv
  · exact ⟨by simpa [GoodV] using hv, hb _ rfl⟩
  · simpa [GoodV, GoodS] using hv

theorem GoodS.dcopy {s : St} {o : SVal} (h : GoodS s o) : GoodS s o.dcopy := by
  cases o with
  | pub c => trivial
  | sc k l id => cases k <;> exact h

theorem GoodT.dcopy {s : St} {t : TVal} (h : GoodT s t) : GoodT s t.dcopy :=
  PTree.AllP.map (fun _ ho => GoodS.dcopy ho) h

theorem GoodVals.get? {s : St} : ∀ {vs : Vals}, GoodVals s vs → ∀ {x : Nat} {o : TVal}, vs.get? x = some o → GoodT s o
  | [], _, x, o, h => by simp [Vals.get?] at h
  | (k, p) :: t, hg, x, o, h => by
    simp only [Vals.get?] at h
    by_cases hk : k = x
    · simp only [hk, if_true, Option.some.injEq] at h
      subst h
      exact hg (k, p) (by simp)
    · simp only [hk, if_false] at h
      exact GoodVals.get? (fun kv hkv => hg kv (List.mem_cons_of_mem _ hkv)) h

theorem GoodVals.set {s : St} : ∀ {vs : Vals}, GoodVals s vs → ∀ (x : Nat) {o : TVal}, GoodT s o → GoodVals s (vs.set x o)
  | [], _, x, o, ho => by
    intro kv hkv
    simp only [Vals.set, List.mem_singleton] at hkv
    subst hkv; exact ho
  | (k, p) :: t, hg, x, o, ho => by
    simp only [Vals.set]
    by_cases hk : k = x
    · simp only [hk, if_true]
      intro kv hkv
      rcases List.mem_cons.mp hkv with rfl | hkv
      · exact ho
      · exact hg kv (List.mem_cons_of_mem _ hkv)
    · simp only [hk, if_false]
      intro kv hkv
      rcases List.mem_cons.mp hkv with rfl | hkv
      · exact hg (k, p) (by simp)
      · exact GoodVals.set (fun kv' hkv' => hg kv' (List.mem_cons_of_mem _ hkv')) x ho kv hkv

theorem GoodVals.filter {s : St} {vs : Vals} (h : GoodVals s vs) (p : Nat × TVal → Bool) : GoodVals s (vs.filter p) :=
  fun kv hkv => h kv (List.mem_filter.mp hkv).1

theorem GoodVals.setAll_aux {s : St} {other : Vals} (ho : GoodVals s other) : ∀ (l : Vals) {acc : Vals},
    GoodVals s acc → GoodVals s (l.foldl (Vals.setFrom other) acc)
  | [], acc, ha => ha
  | kv :: l, acc, ha => by
    simp only [List.foldl_cons]
    refine GoodVals.setAll_aux ho l ?_
    unfold Vals.setFrom
    cases hg : other.get? kv.1 with
    | none => exact ha
    | some o => exact ha.set _ (ho.get? hg)

theorem GoodVals.setAll {s : St} {vs other : Vals} (hv : GoodVals s vs) (ho : GoodVals s other) :
    GoodVals s (vs.setAll other) := GoodVals.setAll_aux ho other hv

theorem GoodVals.backup {s : St} : ∀ {vs : Vals}, GoodVals s vs → GoodVals s vs.backup
  | [], _ => fun kv hkv => by cases hkv
  | (k, p) :: t, hg => by
    simp only [Vals.backup]
    intro kv hkv
    rcases List.mem_cons.mp hkv with rfl | hkv
    · exact (hg (k, p) (by simp)).dcopy
    · exact GoodVals.backup (fun kv' hkv' => hg kv' (List.mem_cons_of_mem _ hkv')) kv hkv

/-- the shape of the specifications below: more state, invariant kept, and `Q` of the result -/
def Spec (s s' : St) (Q : Prop) : Prop := s.le s' ∧ Inv s' ∧ PrimeP s' ∧ Q

theorem Spec.refl {s : St} {Q : Prop} (hinv : Inv s) (hP : PrimeP s) (hq : Q) : Spec s s Q :=
  ⟨St.le.refl _, hinv, hP, hq⟩

/-! ## merges -/
theorem iteScalar_inv {c : LinComb} {t f r : Val} {s s' : St} (hinv : Inv s) (hP : PrimeP s)
    (hc : Good s c) (ht : GoodV s t) (hf : GoodV s f) (h : iteScalar c t f s = .ok (r, s')) :
    Spec s s' (GoodV s' r) := by
  unfold iteScalar at h
  obind h with f', s1, h1
  have hf' : s.le s1 ∧ Inv s1 ∧ GoodV s1 f' := by
    unfold coerceF at h1
    cases t <;> simp only at h1
    all_goals first
      | (obtain ⟨rfl, rfl⟩ := pure_ok' h1; exact ⟨St.le.refl _, hinv, hf⟩)
      | (obtain ⟨y, s0, h0, h1⟩ := bind_ok.mp h1
         obtain ⟨rfl, rfl⟩ := pure_ok' h1
         obtain ⟨le0, _, inv0, gy⟩ := ensurefxp_spec hinv hf h0
         exact ⟨le0, inv0, by simpa [GoodV] using gy⟩)
  obtain ⟨le1, inv1, gf'⟩ := hf'
  obind h with d, s2, h2
  obtain ⟨le2, _, inv2, gd⟩ := subV_spec inv1 (GoodV.mono le1 _ ht) gf' h2
  obind h with p, s3, h3
  obtain ⟨le3, _, inv3, gp⟩ := mulLV_spec inv2 (hc.mono (le1.trans le2)) gd h3
  obind h with ret, s4, h4
  obtain ⟨le4, _, inv4, gret⟩ := addV_spec inv3 (GoodV.mono (le2.trans le3) _ gf') gp h4
  obtain ⟨le5, _, inv5, gr⟩ := iteTag_spec inv4 gret h
  have le := (((le1.trans le2).trans le3).trans le4).trans le5
  exact ⟨le, inv5, hP.mono le, gr⟩

theorem mergeS_inv {c : LinComb} {t f r : SVal} {n n' : Nat} {s s' : St} (hinv : Inv s) (hP : PrimeP s)
    (hc : Good s c) (ht : GoodS s t) (hf : GoodS s f) (h : mergeS c t f n s = .ok ((r, n'), s')) :
    Spec s s' (GoodS s' r) := by
  rcases mergeS_ok h with ⟨_, _, rfl, _, rfl⟩ | ⟨_, v, hv, ho, _⟩
  · exact Spec.refl hinv hP ht
  · obtain ⟨le1, inv1, hP1, g1⟩ := iteScalar_inv hinv hP hc ht.toVal hf.toVal hv
    obtain ⟨_, _, hk, _⟩ := iteScalar_rep t.toVal_isS f.toVal_isS hv
    exact ⟨le1, inv1, hP1, GoodS.ofVal ho g1 hk⟩

mutual
theorem mergeT_inv {c : LinComb} : ∀ {t f r : TVal} {n n' : Nat} {s s' : St}, Inv s → PrimeP s → Good s c →
    GoodT s t → GoodT s f → mergeT c t f n s = .ok ((r, n'), s') → Spec s s' (GoodT s' r)
  | .leaf a, .leaf b, r, n, n', s, s', hinv, hP, hc, ht, hf, h => by
    obtain ⟨o, ho, rfl⟩ := mergeT_leaf_ok h
    simp only [GoodT, PTree.AllP_leaf] at ht hf ⊢
    exact mergeS_inv hinv hP hc ht hf ho
  | .node ts, .node fs, r, n, n', s, s', hinv, hP, hc, ht, hf, h => by
    obtain ⟨rs, hrs, rfl⟩ := mergeT_node_ok h
    simp only [GoodT, PTree.AllP_node] at ht hf ⊢
    exact mergeTL_inv hinv hP hc ht hf hrs
  | .node ts, .leaf b, r, n, n', s, s', _, _, _, _, _, h => by unfold mergeT at h; exact (raise_ok.mp h).elim
  | .leaf a, .node fs, r, n, n', s, s', _, _, _, _, _, h => by unfold mergeT at h; exact (raise_ok.mp h).elim
theorem mergeTL_inv {c : LinComb} : ∀ {ts fs rs : List TVal} {n n' : Nat} {s s' : St}, Inv s → PrimeP s → Good s c →
    (∀ t ∈ ts, GoodT s t) → (∀ f ∈ fs, GoodT s f) → mergeTL c ts fs n s = .ok ((rs, n'), s') →
    Spec s s' (∀ r ∈ rs, GoodT s' r)
  | [], [], rs, n, n', s, s', hinv, hP, _, _, _, h => by
    obtain ⟨rfl, _, rfl⟩ := mergeTL_nil_ok h
    exact Spec.refl hinv hP (fun r hr => by cases hr)
  | t :: ts, f :: fs, rs, n, n', s, s', hinv, hP, hc, ht, hf, h => by
    obtain ⟨r, n1, s1, rs', h1, h2, rfl⟩ := mergeTL_cons_ok h
    obtain ⟨le1, inv1, hP1, g1⟩ := mergeT_inv hinv hP hc (ht t (by simp)) (hf f (by simp)) h1
    obtain ⟨le2, inv2, hP2, g2⟩ := mergeTL_inv inv1 hP1 (hc.mono le1)
      (fun x hx => (ht x (List.mem_cons_of_mem _ hx)).mono le1) (fun x hx => (hf x (List.mem_cons_of_mem _ hx)).mono le1) h2
    refine ⟨le1.trans le2, inv2, hP2, ?_⟩
    intro x hx
    rcases List.mem_cons.mp hx with rfl | hx
    · exact g1.mono le2
    · exact g2 x hx
  | [], _ :: _, rs, n, n', s, s', _, _, _, _, _, h => by unfold mergeTL at h; exact (raise_ok.mp h).elim
  | _ :: _, [], rs, n, n', s, s', _, _, _, _, _, h => by unfold mergeTL at h; exact (raise_ok.mp h).elim
end

theorem mergeNodef_inv {c : LinComb} {vals : Vals} : ∀ {nd rs : Vals} {n n' : Nat} {s s' : St}, Inv s → PrimeP s →
    Good s c → GoodVals s vals → GoodVals s nd → mergeNodef c vals nd n s = .ok ((rs, n'), s') →
    Spec s s' (GoodVals s' rs)
  | [], rs, n, n', s, s', hinv, hP, _, _, _, h => by
    unfold mergeNodef at h
    obtain ⟨h1, rfl⟩ := pure_ok' h
    simp only [Prod.mk.injEq] at h1
    rw [← h1.1]
    exact Spec.refl hinv hP (fun kv hkv => by cases hkv)
  | (y, o) :: rest, rs, n, n', s, s', hinv, hP, hc, hv, hnd, h => by
    obtain ⟨t, r, n1, s1, rs', ht, hm, h3, rfl⟩ := mergeNodef_cons_ok h
    obtain ⟨le1, inv1, hP1, g1⟩ := mergeT_inv hinv hP hc (hv.get? ht) (hnd (y, o) (by simp)) hm
    obtain ⟨le2, inv2, hP2, g2⟩ := mergeNodef_inv inv1 hP1 (hc.mono le1) (hv.mono le1)
      (fun kv hkv => (hnd kv (List.mem_cons_of_mem _ hkv)).mono le1) h3
    refine ⟨le1.trans le2, inv2, hP2, ?_⟩
    intro kv hkv
    rcases List.mem_cons.mp hkv with rfl | hkv
    · exact g1.mono le2
    · exact g2 kv hkv

theorem mergeBak_inv {c : LinComb} {bak : Vals} : ∀ {vals rs : Vals} {n n' : Nat} {s s' : St}, Inv s → PrimeP s →
    Good s c → GoodVals s bak → GoodVals s vals → mergeBak c bak vals n s = .ok ((rs, n'), s') →
    Spec s s' (GoodVals s' rs)
  | [], rs, n, n', s, s', hinv, hP, _, _, _, h => by
    unfold mergeBak at h
    obtain ⟨h1, rfl⟩ := pure_ok' h
    simp only [Prod.mk.injEq] at h1
    rw [← h1.1]
    exact Spec.refl hinv hP (fun kv hkv => by cases hkv)
  | (y, t) :: rest, rs, n, n', s, s', hinv, hP, hc, hb, hv, h => by
    obtain ⟨f, r, n1, s1, rs', hf, hm, h3, rfl⟩ := mergeBak_cons_ok h
    obtain ⟨le1, inv1, hP1, g1⟩ := mergeT_inv hinv hP hc (hv (y, t) (by simp)) (hb.get? hf) hm
    obtain ⟨le2, inv2, hP2, g2⟩ := mergeBak_inv inv1 hP1 (hc.mono le1) (hb.mono le1)
      (fun kv hkv => (hv kv (List.mem_cons_of_mem _ hkv)).mono le1) h3
    refine ⟨le1.trans le2, inv2, hP2, ?_⟩
    intro kv hkv
    rcases List.mem_cons.mp hkv with rfl | hkv
    · exact g1.mono le2
    · exact g2 kv hkv

/-! ## contexts -/
theorem exit_inv {ctx ctx' : BCtx} {bv bv' : BV} {s s' : St} (hinv : Inv s) (hP : PrimeP s) (hc : GoodCtx s ctx)
    (hv : GoodVals s bv.vals) (h : ctx.exit bv s = .ok ((ctx', bv'), s')) :
    Spec s s' (GoodCtx s' ctx' ∧ GoodVals s' bv'.vals) := by
  obtain ⟨s1, nd, n1, s2, vals, n2, hr, hnd, hb, rfl, rfl⟩ := exit_ok h
  obtain ⟨le1, inv1⟩ := restoreGuard_invT hinv hc.og hr
  have hP1 := hP.mono le1
  have hc1 := hc.mono le1
  have hv1 := hv.mono le1
  have hndS : Spec s1 s2 (GoodVals s2 nd) := by
    rcases hnd with ⟨_, rfl, _, rfl⟩ | ⟨nd0, hn0, hm⟩
    · exact Spec.refl inv1 hP1 (hv1.filter _)
    · exact mergeNodef_inv inv1 hP1 hc1.cond.1 hv1 (hc1.nd nd0 hn0) hm
  obtain ⟨le2, inv2, hP2, gnd⟩ := hndS
  have hc2 := hc1.mono le2
  obtain ⟨le3, inv3, hP3, gv⟩ := mergeBak_inv inv2 hP2 hc2.cond.1 hc2.bak ((hv1.mono le2).filter _) hb
  have hc3 := hc2.mono le3
  exact ⟨(le1.trans le2).trans le3, inv3, hP3,
    ⟨hc3.bak, hc3.cond, hc3.icond, fun nd' hn' => by cases hn'; exact gnd.mono le3, hc3.og⟩, gv⟩

theorem enter_inv {ctx ctx' : BCtx} {c : LinComb} {bv : BV} {s s' : St} (hinv : Inv s) (hP : PrimeP s)
    (hc : GoodCtx s ctx) (hcc : Good s c ∧ BoolLC c) (hv : GoodVals s bv.vals)
    (h : ctx.enter c bv s = .ok (ctx', s')) : Spec s s' (GoodCtx s' ctx') := by
  obtain ⟨og, hg, rfl⟩ := enter_ok h
  obtain ⟨le1, inv1, rfl⟩ := addGuard_lcb_inv hinv hcc.1 hcc.2 hg
  have hc1 := hc.mono le1
  exact ⟨le1, inv1, hP.mono le1, ⟨(hv.mono le1).backup, ⟨hcc.1.mono le1, hcc.2⟩, hc1.icond, hc1.nd, (TripleOk.of_inv hinv).mono le1⟩⟩

theorem andBB_inv {x y r : LinComb} {s s' : St} (hinv : Inv s) (hP : PrimeP s) (hx : Good s x) (hy : Good s y)
    (h : andBB x y s = .ok (r, s')) : Spec s s' (Good s' r ∧ BoolLC r) := by
  obtain ⟨p, s1, h1, h2⟩ := andBB_ok h
  obtain ⟨le1, _, inv1, g1⟩ := mulLL_spec' hinv hx hy h1
  obtain ⟨le2, _, inv2, rfl, hb⟩ := mkBool_spec inv1 g1 h2
  exact ⟨le1.trans le2, inv2, hP.mono (le1.trans le2), g1.mono le2, hb⟩

theorem boolNot_inv {b r : LinComb} {s s' : St} (hinv : Inv s) (hP : PrimeP s) (hb : Good s b)
    (h : boolNot b s = .ok (r, s')) : Spec s s' (Good s' r ∧ BoolLC r) := by
  obtain ⟨le1, _, inv1, g1⟩ := boolNot_spec hinv hb h
  obtain ⟨_, v, hbv⟩ := boolNot_val h
  exact ⟨le1, inv1, hP.mono le1, g1, by unfold BoolLC; rw [v]; rcases hbv with h0 | h1 <;> simp [*]⟩

theorem GoodCtx.init {s : St} {c : LinComb} (hc : Good s c ∧ BoolLC c) (isIf : Bool) (ic : Option LinComb)
    (hic : ∀ i, ic = some i → Good s i ∧ BoolLC i) :
    GoodCtx s { isIf := isIf, bak := [], cond := c, icond := ic, nodefvals := none, origguard := ⟨none, false, oneSafe⟩ } :=
  ⟨fun kv hkv => (by cases hkv), hc, hic, fun nd hn => (by cases hn), TripleOk.init s⟩

theorem ifNew_inv {c : LinComb} {bv : BV} {ctx : BCtx} {s s' : St} (hinv : Inv s) (hP : PrimeP s)
    (hc : Good s c ∧ BoolLC c) (hv : GoodVals s bv.vals) (h : ifNew c bv s = .ok (ctx, s')) :
    Spec s s' (GoodCtx s' ctx) := by
  unfold ifNew at h
  obtain ⟨ic, s1, h1, h2⟩ := bind_ok.mp h
  obtain ⟨le1, inv1, hP1, gic⟩ := boolNot_inv hinv hP hc.1 h1
  have hc1 : Good s1 c ∧ BoolLC c := ⟨hc.1.mono le1, hc.2⟩
  obtain ⟨le2, inv2, hP2, g2⟩ := enter_inv inv1 hP1
    (GoodCtx.init hc1 true (some ic) (fun i hi => by cases hi; exact gic)) hc1 (hv.mono le1) h2
  exact ⟨le1.trans le2, inv2, hP2, g2⟩

theorem whileNew_inv {c : LinComb} {bv : BV} {ctx : BCtx} {s s' : St} (hinv : Inv s) (hP : PrimeP s)
    (hc : Good s c ∧ BoolLC c) (hv : GoodVals s bv.vals) (h : whileNew c bv s = .ok (ctx, s')) :
    Spec s s' (GoodCtx s' ctx) := by
  unfold whileNew at h
  exact enter_inv hinv hP (GoodCtx.init hc false none (fun i hi => by cases hi)) hc hv h

theorem whileExit_inv {ctx ctx' : BCtx} {bv bv' : BV} {s s' : St} (hinv : Inv s) (hP : PrimeP s) (hc : GoodCtx s ctx)
    (hv : GoodVals s bv.vals) (h : whileExit ctx bv s = .ok ((ctx', bv'), s')) :
    Spec s s' (GoodCtx s' ctx' ∧ GoodVals s' bv'.vals) :=
  exit_inv hinv hP hc hv (whileExit_ok h).1

theorem whileNext_inv {ctx ctx' : BCtx} {nw : LinComb} {bv bv' : BV} {s s' : St} (hinv : Inv s) (hP : PrimeP s)
    (hc : GoodCtx s ctx) (hn : Good s nw) (hv : GoodVals s bv.vals)
    (h : whileNext ctx nw bv s = .ok ((ctx', bv'), s')) :
    Spec s s' (GoodCtx s' ctx' ∧ GoodVals s' bv'.vals) := by
  obtain ⟨ctx1, s1, c, s2, he, hc', hen⟩ := whileNext_ok h
  obtain ⟨le1, inv1, hP1, gc1, gv1⟩ := whileExit_inv hinv hP hc hv he
  obtain ⟨le2, inv2, hP2, gc⟩ := andBB_inv inv1 hP1 gc1.cond.1 (hn.mono le1) hc'
  obtain ⟨le3, inv3, hP3, gc3⟩ := enter_inv inv2 hP2 (gc1.mono le2) gc (gv1.mono le2) hen
  exact ⟨(le1.trans le2).trans le3, inv3, hP3, gc3, (gv1.mono le2).mono le3⟩

theorem ifEnd_inv {ctx : BCtx} {bv bv' : BV} {s s' : St} (hinv : Inv s) (hP : PrimeP s) (hc : GoodCtx s ctx)
    (hv : GoodVals s bv.vals) (h : ifEnd ctx bv s = .ok (bv', s')) : Spec s s' (GoodVals s' bv'.vals) := by
  obtain ⟨ctx1, bv1, hx, _, rfl⟩ := ifEnd_ok h
  obtain ⟨le1, inv1, hP1, gc1, gv1⟩ := exit_inv hinv hP hc hv hx
  refine ⟨le1, inv1, hP1, gv1.setAll ?_⟩
  cases hn : ctx1.nodefvals with
  | none => exact fun kv hkv => by cases hkv
  | some nd => exact gc1.nd nd hn

theorem ifElse_inv {ctx ctx' : BCtx} {bv bv' : BV} {s s' : St} (hinv : Inv s) (hP : PrimeP s) (hc : GoodCtx s ctx)
    (hv : GoodVals s bv.vals) (h : ifElse ctx bv s = .ok ((ctx', bv'), s')) :
    Spec s s' (GoodCtx s' ctx' ∧ GoodVals s' bv'.vals) := by
  obtain ⟨ctx1, s1, ic, ctx2, hx, hic, hen, rfl⟩ := ifElse_ok h
  obtain ⟨le1, inv1, hP1, gc1, gv1⟩ := exit_inv hinv hP hc hv hx
  obtain ⟨le2, inv2, hP2, gc2⟩ := enter_inv inv1 hP1 gc1 (gc1.icond ic hic) gv1 hen
  exact ⟨le1.trans le2, inv2, hP2, ⟨gc2.bak, gc2.cond, fun i hi => (by cases hi), gc2.nd, gc2.og⟩, gv1.mono le2⟩

theorem ifElif_inv {ctx ctx' : BCtx} {thunk : BV → M Val} {bv bv' : BV} {s s' : St} (hinv : Inv s) (hP : PrimeP s)
    (hc : GoodCtx s ctx) (hv : GoodVals s bv.vals)
    (hth : ∀ bv0 t t' v, Inv t → PrimeP t → GoodVals t bv0.vals → s.le t → thunk bv0 t = .ok (v, t') → Spec t t' (GoodV t' v))
    (h : ifElif ctx thunk bv s = .ok ((ctx', bv'), s')) :
    Spec s s' (GoodCtx s' ctx' ∧ GoodVals s' bv'.vals) := by
  obtain ⟨ctx1, s1, nw, s2, ic, nn, s3, nwic, s4, cc, s5, ctx2, hx, ht, hic, hnn, hnwic, hcc, hen, rfl⟩ := ifElif_ok h
  obtain ⟨le1, inv1, hP1, gc1, gv1⟩ := exit_inv hinv hP hc hv hx
  obtain ⟨le2, inv2, hP2, gnw⟩ := hth _ _ _ _ inv1 hP1 gv1 le1 ht
  simp only [GoodV] at gnw
  obtain ⟨le3, inv3, hP3, gnn⟩ := boolNot_inv inv2 hP2 gnw hnn
  have gic := (gc1.icond ic hic).1.mono (le2.trans le3)
  obtain ⟨le4, inv4, hP4, gnwic⟩ := andBB_inv inv3 hP3 gic gnn.1 hnwic
  obtain ⟨le5, inv5, hP5, gcc⟩ := andBB_inv inv4 hP4 (gic.mono le4) ((gnw.mono le3).mono le4) hcc
  have le25 := ((le2.trans le3).trans le4).trans le5
  obtain ⟨le6, inv6, hP6, gc6⟩ := enter_inv inv5 hP5 (gc1.mono le25) gcc (gv1.mono le25) hen
  exact ⟨(le1.trans le25).trans le6, inv6, hP6,
    ⟨gc6.bak, gc6.cond, fun i hi => by cases hi; exact ⟨(gnwic.1.mono le5).mono le6, gnwic.2⟩, gc6.nd, gc6.og⟩,
    (gv1.mono le25).mono le6⟩


/-! ## expressions -/
theorem GoodE.get {s : St} {env : BEnv} (h : GoodE s env) {i : Nat} {o : SVal} (hi : env.inputs[i]? = some o) :
    GoodS s o := h.inputs o (List.mem_of_getElem? hi)

theorem GoodE.fget {s : St} {env : BEnv} (h : GoodE s env) {i : Nat} {o : SVal} (hi : env.finputs[i]? = some o) :
    GoodS s o := h.finputs o (List.mem_of_getElem? hi)

/-- a binary operator on coherent scalars -/
theorem binS_inv {op : Val → Val → M Val} {ok : Val → Val → Bool} {x y t : TVal} {n n' : Nat} {s s' : St}
    (hP : PrimeP s) (hx : GoodT s x) (hy : GoodT s y)
    (hop : ∀ (a b : SVal) v t', GoodS s a → GoodS s b → ok a.toVal b.toVal = true → op a.toVal b.toVal s = .ok (v, t') →
      s.le t' ∧ Inv t' ∧ GoodV t' v ∧ ∀ l, v = .lcb l → BoolLC l)
    (h : binS op ok x y n s = .ok ((t, n'), s')) : Spec s s' (GoodT s' t) := by
  obtain ⟨a, b, v, o, rfl, rfl, hok, hrun, ho, rfl, _⟩ := binS_ok h
  simp only [GoodT, PTree.AllP_leaf] at hx hy ⊢
  obtain ⟨le1, inv1, gv, hb⟩ := hop a b v s' hx hy hok hrun
  exact ⟨le1, inv1, hP.mono le1, GoodS.ofVal ho gv hb⟩

mutual
theorem evalE_inv {env : BEnv} {vals : Vals} : ∀ (e : BExpr) {n n' : Nat} {t : TVal} {s s' : St}, Inv s → PrimeP s →
    GoodE s env → GoodVals s vals → evalE env vals e n s = .ok ((t, n'), s') → Spec s s' (GoodT s' t)
  | .var x, n, n', t, s, s', hinv, hP, _, hv, h => by
    unfold evalE at h
    cases hg : vals.get? x with
    | none => simp only [hg] at h; exact (raise_ok.mp h).elim
    | some o =>
      simp only [hg] at h
      obtain ⟨h1, rfl⟩ := pure_ok' h
      simp only [Prod.mk.injEq] at h1
      obtain ⟨rfl, _⟩ := h1
      exact Spec.refl hinv hP (hv.get? hg)
  | .inp i, n, n', t, s, s', hinv, hP, he, _, h => by
    unfold evalE at h
    cases hg : env.inputs[i]? with
    | none => simp only [hg] at h; exact (raise_ok.mp h).elim
    | some o =>
      simp only [hg] at h
      obtain ⟨h1, rfl⟩ := pure_ok' h
      simp only [Prod.mk.injEq] at h1
      obtain ⟨rfl, _⟩ := h1
      exact Spec.refl hinv hP (by simp only [GoodT, PTree.AllP_leaf]; exact he.get hg)
  | .finp i, n, n', t, s, s', hinv, hP, he, _, h => by
    unfold evalE at h
    cases hg : env.finputs[i]? with
    | none => simp only [hg] at h; exact (raise_ok.mp h).elim
    | some o =>
      simp only [hg] at h
      obtain ⟨h1, rfl⟩ := pure_ok' h
      simp only [Prod.mk.injEq] at h1
      obtain ⟨rfl, _⟩ := h1
      exact Spec.refl hinv hP (by simp only [GoodT, PTree.AllP_leaf]; exact he.fget hg)
  | .const c, n, n', t, s, s', hinv, hP, _, _, h => by
    unfold evalE at h
    obtain ⟨h1, rfl⟩ := pure_ok' h
    simp only [Prod.mk.injEq] at h1
    obtain ⟨rfl, _⟩ := h1
    exact Spec.refl hinv hP (by simp only [GoodT, PTree.AllP_leaf]; trivial)
  | .loopvar w, n, n', t, s, s', hinv, hP, _, _, h => by
    unfold evalE at h
    cases hg : lookupLv env.lvs w with
    | none => simp only [hg] at h; exact (raise_ok.mp h).elim
    | some k =>
      simp only [hg] at h
      obtain ⟨h1, rfl⟩ := pure_ok' h
      simp only [Prod.mk.injEq] at h1
      obtain ⟨rfl, _⟩ := h1
      exact Spec.refl hinv hP (by simp only [GoodT, PTree.AllP_leaf]; trivial)
  | .add a b, n, n', t, s, s', hinv, hP, he, hv, h => by
    unfold evalE at h
    obind h with ⟨x, n1⟩, s1, h1
    obind h with ⟨y, n2⟩, s2, h2
    obtain ⟨le1, inv1, hP1, gx⟩ := evalE_inv a hinv hP he hv h1
    obtain ⟨le2, inv2, hP2, gy⟩ := evalE_inv b inv1 hP1 (he.mono le1) (hv.mono le1) h2
    obtain ⟨le3, inv3, hP3, gr⟩ := binS_inv hP2 (gx.mono le2) gy
      (fun p q v t' gp gq _ hrun => by
        obtain ⟨l, _, i, g⟩ := addV_spec inv2 gp.toVal gq.toVal hrun
        exact ⟨l, i, g, fun w hw => ((addV_rep p.toVal_isS q.toVal_isS hrun).2.2.1 w hw).elim⟩) h
    exact ⟨(le1.trans le2).trans le3, inv3, hP3, gr⟩
  | .sub a b, n, n', t, s, s', hinv, hP, he, hv, h => by
    unfold evalE at h
    obind h with ⟨x, n1⟩, s1, h1
    obind h with ⟨y, n2⟩, s2, h2
    obtain ⟨le1, inv1, hP1, gx⟩ := evalE_inv a hinv hP he hv h1
    obtain ⟨le2, inv2, hP2, gy⟩ := evalE_inv b inv1 hP1 (he.mono le1) (hv.mono le1) h2
    obtain ⟨le3, inv3, hP3, gr⟩ := binS_inv hP2 (gx.mono le2) gy
      (fun p q v t' gp gq _ hrun => by
        obtain ⟨l, _, i, g⟩ := subV_spec inv2 gp.toVal gq.toVal hrun
        exact ⟨l, i, g, fun w hw => ((subV_rep p.toVal_isS q.toVal_isS hrun).2.2.1 w hw).elim⟩) h
    exact ⟨(le1.trans le2).trans le3, inv3, hP3, gr⟩
  | .mul a b, n, n', t, s, s', hinv, hP, he, hv, h => by
    unfold evalE at h
    obind h with ⟨x, n1⟩, s1, h1
    obind h with ⟨y, n2⟩, s2, h2
    obtain ⟨le1, inv1, hP1, gx⟩ := evalE_inv a hinv hP he hv h1
    obtain ⟨le2, inv2, hP2, gy⟩ := evalE_inv b inv1 hP1 (he.mono le1) (hv.mono le1) h2
    obtain ⟨le3, inv3, hP3, gr⟩ := binS_inv hP2 (gx.mono le2) gy
      (fun p q v t' gp gq hok hrun => by
        obtain ⟨l, _, i, g⟩ := mulV_spec inv2 gp.toVal gq.toVal hrun
        exact ⟨l, i, g, fun w hw => ((mulV_rep p.toVal_isS q.toVal_isS hok hrun).2.2.1 w hw).elim⟩) h
    exact ⟨(le1.trans le2).trans le3, inv3, hP3, gr⟩
  | .cmp op a b, n, n', t, s, s', hinv, hP, he, hv, h => by
    unfold evalE at h
    obind h with ⟨x, n1⟩, s1, h1
    obind h with ⟨y, n2⟩, s2, h2
    obtain ⟨le1, inv1, hP1, gx⟩ := evalE_inv a hinv hP he hv h1
    obtain ⟨le2, inv2, hP2, gy⟩ := evalE_inv b inv1 hP1 (he.mono le1) (hv.mono le1) h2
    obtain ⟨le3, inv3, hP3, gr⟩ := binS_inv hP2 (gx.mono le2) gy
      (fun p q v t' gp gq hok hrun => by
        obtain ⟨l, _, i, g⟩ := cmpV_spec inv2 hP2 gp.toVal gq.toVal hrun
        obtain ⟨_, w, hw, hb, _⟩ := cmpV_rep hok hrun
        exact ⟨l, i, g, fun w' hw' => by rw [hw] at hw'; cases hw'; exact hb⟩) h
    exact ⟨(le1.trans le2).trans le3, inv3, hP3, gr⟩
  | .not a, n, n', t, s, s', hinv, hP, he, hv, h => by
    unfold evalE at h
    obind h with ⟨x, n1⟩, s1, h1
    obtain ⟨le1, inv1, hP1, gx⟩ := evalE_inv a hinv hP he hv h1
    obtain ⟨l, id, r, rfl, hn, rfl, _⟩ := notS_ok h
    simp only [GoodT, PTree.AllP_leaf] at gx ⊢
    obtain ⟨le2, _, inv2, gr⟩ := boolNot_spec inv1 gx.1 hn
    obtain ⟨_, vr, hb⟩ := boolNot_val hn
    refine ⟨le1.trans le2, inv2, hP1.mono le2, gr, ?_⟩
    unfold BoolLC; rw [vr]; rcases hb with h0 | h1 <;> simp [*]
  | .and a b, n, n', t, s, s', hinv, hP, he, hv, h => by
    unfold evalE at h
    obind h with ⟨x, n1⟩, s1, h1
    obind h with ⟨y, n2⟩, s2, h2
    obtain ⟨le1, inv1, hP1, gx⟩ := evalE_inv a hinv hP he hv h1
    obtain ⟨le2, inv2, hP2, gy⟩ := evalE_inv b inv1 hP1 (he.mono le1) (hv.mono le1) h2
    obtain ⟨le3, inv3, hP3, gr⟩ := binS_inv hP2 (gx.mono le2) gy
      (fun p q v t' gp gq hok hrun => by
        obtain ⟨l, _, i, g⟩ := bwV_spec inv2 gp.toVal gq.toVal hrun
        obtain ⟨lx, ly, hx', hy'⟩ := bothBool_ok hok
        rw [hx', hy'] at hrun
        obtain ⟨_, w, hw, hb, _⟩ := bwV_bool (Or.inl rfl) hrun
        exact ⟨l, i, g, fun w' hw' => by rw [hw] at hw'; cases hw'; exact hb⟩) h
    exact ⟨(le1.trans le2).trans le3, inv3, hP3, gr⟩
  | .or a b, n, n', t, s, s', hinv, hP, he, hv, h => by
    unfold evalE at h
    obind h with ⟨x, n1⟩, s1, h1
    obind h with ⟨y, n2⟩, s2, h2
    obtain ⟨le1, inv1, hP1, gx⟩ := evalE_inv a hinv hP he hv h1
    obtain ⟨le2, inv2, hP2, gy⟩ := evalE_inv b inv1 hP1 (he.mono le1) (hv.mono le1) h2
    obtain ⟨le3, inv3, hP3, gr⟩ := binS_inv hP2 (gx.mono le2) gy
      (fun p q v t' gp gq hok hrun => by
        obtain ⟨l, _, i, g⟩ := bwV_spec inv2 gp.toVal gq.toVal hrun
        obtain ⟨lx, ly, hx', hy'⟩ := bothBool_ok hok
        rw [hx', hy'] at hrun
        obtain ⟨_, w, hw, hb, _⟩ := bwV_bool (Or.inr rfl) hrun
        exact ⟨l, i, g, fun w' hw' => by rw [hw] at hw'; cases hw'; exact hb⟩) h
    exact ⟨(le1.trans le2).trans le3, inv3, hP3, gr⟩
  | .list es, n, n', t, s, s', hinv, hP, he, hv, h => by
    unfold evalE at h
    obind h with ⟨ts, n1⟩, s1, h1
    obtain ⟨h2, rfl⟩ := pure_ok' h
    simp only [Prod.mk.injEq] at h2
    obtain ⟨rfl, _⟩ := h2
    obtain ⟨le1, inv1, hP1, g1⟩ := evalEs_inv es hinv hP he hv h1
    exact ⟨le1, inv1, hP1, by simp only [GoodT, PTree.AllP_node]; exact g1⟩
  | .item e i, n, n', t, s, s', hinv, hP, he, hv, h => by
    unfold evalE at h
    obind h with ⟨u, n1⟩, s1, h1
    obtain ⟨le1, inv1, hP1, g1⟩ := evalE_inv e hinv hP he hv h1
    cases u with
    | leaf a => exact (raise_ok.mp h).elim
    | node ts =>
      dsimp only at h
      cases hg : ts[i]? with
      | none => simp only [hg] at h; exact (raise_ok.mp h).elim
      | some w =>
        simp only [hg] at h
        obtain ⟨h2, rfl⟩ := pure_ok' h
        simp only [Prod.mk.injEq] at h2
        obtain ⟨rfl, _⟩ := h2
        simp only [GoodT, PTree.AllP_node] at g1
        exact ⟨le1, inv1, hP1, g1 w (List.mem_of_getElem? hg)⟩
theorem evalEs_inv {env : BEnv} {vals : Vals} : ∀ (es : BExprs) {n n' : Nat} {ts : List TVal} {s s' : St}, Inv s → PrimeP s →
    GoodE s env → GoodVals s vals → evalEs env vals es n s = .ok ((ts, n'), s') → Spec s s' (∀ t ∈ ts, GoodT s' t)
  | .nil, n, n', ts, s, s', hinv, hP, _, _, h => by
    unfold evalEs at h
    obtain ⟨h1, rfl⟩ := pure_ok' h
    simp only [Prod.mk.injEq] at h1
    obtain ⟨rfl, _⟩ := h1
    exact Spec.refl hinv hP (fun t ht => by cases ht)
  | .cons e es, n, n', ts, s, s', hinv, hP, he, hv, h => by
    unfold evalEs at h
    obind h with ⟨u, n1⟩, s1, h1
    obind h with ⟨us, n2⟩, s2, h2
    obtain ⟨h3, rfl⟩ := pure_ok' h
    simp only [Prod.mk.injEq] at h3
    obtain ⟨rfl, _⟩ := h3
    obtain ⟨le1, inv1, hP1, g1⟩ := evalE_inv e hinv hP he hv h1
    obtain ⟨le2, inv2, hP2, g2⟩ := evalEs_inv es inv1 hP1 (he.mono le1) (hv.mono le1) h2
    refine ⟨le1.trans le2, inv2, hP2, ?_⟩
    intro t ht
    rcases List.mem_cons.mp ht with rfl | ht
    · exact g1.mono le2
    · exact g2 t ht
end

/-- a condition: coherent, and a boolean holds 0 or 1 -/
theorem evalC_inv {env : BEnv} {bv : BV} {c : BCond} {s s' : St} {v : Val} (hinv : Inv s) (hP : PrimeP s)
    (he : GoodE s env) (hv : GoodVals s bv.vals) (h : evalC env bv c s = .ok (v, s')) :
    Spec s s' (GoodV s' v ∧ ∀ r, v = .lcb r → Good s' r ∧ BoolLC r) := by
  obtain ⟨o, n', he', rfl⟩ := evalC_ok h
  obtain ⟨le1, inv1, hP1, g1⟩ := evalE_inv c hinv hP he hv he'
  simp only [GoodT, PTree.AllP_leaf] at g1
  refine ⟨le1, inv1, hP1, g1.toVal, fun r hr => ?_⟩
  obtain ⟨id, rfl⟩ := SVal.toVal_lcb hr
  exact g1

/-! ## module functions -/
/-- invariant of a run: from `s0` on, more state; tracer invariant; everything reachable coherent -/
structure RunInv (s0 : St) (bs : BSt) (s : St) : Prop where
  le : s0.le s
  inv : Inv s
  prime : PrimeP s
  good : GoodB s bs

theorem RunInv.step {s0 : St} {bs bs' : BSt} {s s' : St} (h : RunInv s0 bs s)
    (hs : Spec s s' (GoodB s' bs')) : RunInv s0 bs' s' :=
  ⟨h.le.trans hs.1, hs.2.1, hs.2.2.1, hs.2.2.2⟩

theorem GoodB.push {s : St} {bs : BSt} {ctx : BCtx} (h : GoodB s bs) (hc : GoodCtx s ctx) :
    GoodB s { bs with stack := ctx :: bs.stack } :=
  ⟨h.vals, fun c hc' => by
    rcases List.mem_cons.mp hc' with rfl | hc'
    · exact hc
    · exact h.stack c hc'⟩

theorem bIf_inv {c : LinComb} {bs bs' : BSt} {s s' : St} (hinv : Inv s) (hP : PrimeP s) (hg : GoodB s bs)
    (hc : Good s c) (h : bIf (.lcb c) bs s = .ok (bs', s')) : Spec s s' (GoodB s' bs') := by
  obtain ⟨c', ctx, hc', hn, rfl⟩ := bIf_ok h
  cases hc'
  have hb : BoolLC c := by
    obtain ⟨ic, s1, og, hnot, _, _⟩ := ifNew_ok hn
    exact (boolNot_val hnot).2.2
  obtain ⟨le1, inv1, hP1, gc⟩ := ifNew_inv hinv hP ⟨hc, hb⟩ hg.vals hn
  exact ⟨le1, inv1, hP1, (hg.mono le1).push gc⟩

theorem bWhilePush_inv {c : LinComb} {bs bs' : BSt} {s s' : St} (hinv : Inv s) (hP : PrimeP s) (hg : GoodB s bs)
    (hc : Good s c ∧ BoolLC c) (h : bWhilePush (.lcb c) bs s = .ok (bs', s')) : Spec s s' (GoodB s' bs') := by
  obtain ⟨c', ctx, hc', hn, rfl⟩ := bWhilePush_ok h
  cases hc'
  obtain ⟨le1, inv1, hP1, gc⟩ := whileNew_inv hinv hP hc hg.vals hn
  exact ⟨le1, inv1, hP1, (hg.mono le1).push gc⟩

theorem GoodB.top {s : St} {bs : BSt} {ctx : BCtx} {rest : List BCtx} (h : GoodB s bs) (hs : bs.stack = ctx :: rest) :
    GoodCtx s ctx ∧ ∀ c ∈ rest, GoodCtx s c := by
  refine ⟨h.stack ctx (by rw [hs]; simp), fun c hc => h.stack c (by rw [hs]; exact List.mem_cons_of_mem _ hc)⟩

theorem GoodB.mk' {s : St} {bv : BV} {ctx : BCtx} {rest : List BCtx} (hv : GoodVals s bv.vals) (hc : GoodCtx s ctx)
    (hr : ∀ c ∈ rest, GoodCtx s c) : GoodB s ⟨bv, ctx :: rest⟩ :=
  ⟨hv, fun c hc' => by
    rcases List.mem_cons.mp hc' with rfl | hc'
    · exact hc
    · exact hr c hc'⟩

theorem bElif_inv {env : BEnv} {c : BCond} {bs bs' : BSt} {s s' : St} (hinv : Inv s) (hP : PrimeP s)
    (he : GoodE s env) (hg : GoodB s bs) (h : bElif (fun bv => evalC env bv c) bs s = .ok (bs', s')) :
    Spec s s' (GoodB s' bs') := by
  obtain ⟨ctx, rest, ctx', bv', hs, _, hel, rfl⟩ := bElif_ok h
  obtain ⟨gc, gr⟩ := hg.top hs
  obtain ⟨le1, inv1, hP1, gc1, gv1⟩ := ifElif_inv hinv hP gc hg.vals
    (fun bv0 t t' v it pt gt lt ht => by
      obtain ⟨a, b, c', gr', _⟩ := evalC_inv it pt (he.mono lt) gt ht
      exact ⟨a, b, c', gr'⟩) hel
  exact ⟨le1, inv1, hP1, GoodB.mk' gv1 gc1 (fun c hc => (gr c hc).mono le1)⟩

theorem bElse_inv {bs bs' : BSt} {s s' : St} (hinv : Inv s) (hP : PrimeP s) (hg : GoodB s bs)
    (h : bElse bs s = .ok (bs', s')) : Spec s s' (GoodB s' bs') := by
  obtain ⟨ctx, rest, ctx', bv', hs, _, hel, rfl⟩ := bElse_ok h
  obtain ⟨gc, gr⟩ := hg.top hs
  obtain ⟨le1, inv1, hP1, gc1, gv1⟩ := ifElse_inv hinv hP gc hg.vals hel
  exact ⟨le1, inv1, hP1, GoodB.mk' gv1 gc1 (fun c hc => (gr c hc).mono le1)⟩

theorem bEnd_inv {bs bs' : BSt} {s s' : St} (hinv : Inv s) (hP : PrimeP s) (hg : GoodB s bs)
    (h : bEndif bs s = .ok (bs', s') ∨ bEndwhile bs s = .ok (bs', s')) : Spec s s' (GoodB s' bs') := by
  obtain ⟨ctx, rest, bv', hs, rfl, hcase⟩ := bEnd_ok h
  obtain ⟨gc, gr⟩ := hg.top hs
  rcases hcase with ⟨_, he⟩ | ⟨_, ctx', he⟩
  · obtain ⟨le1, inv1, hP1, gv1⟩ := ifEnd_inv hinv hP gc hg.vals he
    exact ⟨le1, inv1, hP1, ⟨gv1, fun c hc => (gr c hc).mono le1⟩⟩
  · obtain ⟨le1, inv1, hP1, _, gv1⟩ := whileExit_inv hinv hP gc hg.vals he
    exact ⟨le1, inv1, hP1, ⟨gv1, fun c hc => (gr c hc).mono le1⟩⟩

theorem bWhileNext_inv {c : LinComb} {bs bs' : BSt} {s s' : St} (hinv : Inv s) (hP : PrimeP s) (hg : GoodB s bs)
    (hc : Good s c) (h : bWhileNext (.lcb c) bs s = .ok (bs', s')) : Spec s s' (GoodB s' bs') := by
  obtain ⟨ctx, rest, c', ctx', bv', hs, _, hc', hw, rfl⟩ := bWhileNext_ok h
  cases hc'
  obtain ⟨gc, gr⟩ := hg.top hs
  obtain ⟨le1, inv1, hP1, gc1, gv1⟩ := whileNext_inv hinv hP gc hc hg.vals hw
  exact ⟨le1, inv1, hP1, GoodB.mk' gv1 gc1 (fun c hc => (gr c hc).mono le1)⟩

theorem bBreakif_inv {c : LinComb} {bs bs' : BSt} {s s' : St} (hinv : Inv s) (hP : PrimeP s) (hg : GoodB s bs)
    (hc : Good s c) (h : bBreakif (.lcb c) bs s = .ok (bs', s')) : Spec s s' (GoodB s' bs') := by
  obtain ⟨c', nc, s1, hc', hn, hw⟩ := bBreakif_ok h
  cases hc'
  obtain ⟨le1, inv1, hP1, gn, _⟩ := boolNot_inv hinv hP hc hn
  obtain ⟨le2, inv2, hP2, g2⟩ := bWhileNext_inv inv1 hP1 (hg.mono le1) gn hw
  exact ⟨le1.trans le2, inv2, hP2, g2⟩

/-! ## statements -/
theorem bindT_inv {x : Nat} {t : TVal} {n : Nat} {bs bs' : BSt} {s s' : St} (hinv : Inv s) (hP : PrimeP s) (hg : GoodB s bs)
    (ht : GoodT s t) (h : bindT x t n bs s = .ok (bs', s')) : Spec s s' (GoodB s' bs') := by
  obtain ⟨_, rfl, rfl⟩ := bindT_ok h
  exact Spec.refl hinv hP ⟨hg.vals.set x ht, hg.stack⟩

theorem guardedE_inv {env : BEnv} {vals : Vals} {c : LinComb} {e : BExpr} {n n' : Nat} {t : TVal} {s s' : St} (hinv : Inv s)
    (hP : PrimeP s) (he : GoodE s env) (hv : GoodVals s vals) (hc : Good s c ∧ BoolLC c)
    (h : guardedM c (evalE env vals e n) s = .ok ((t, n'), s')) : Spec s s' (GoodT s' t) := by
  unfold guardedM at h
  obtain ⟨bak, s1, h1, h⟩ := bind_ok.mp h
  obtain ⟨⟨a, m⟩, s2, h2, h⟩ := bind_ok.mp h
  obtain ⟨u, s3, h3, h⟩ := bind_ok.mp h
  obtain ⟨h4, rfl⟩ := pure_ok' h
  simp only [Prod.mk.injEq] at h4
  obtain ⟨rfl, rfl⟩ := h4
  obtain ⟨le1, inv1, rfl⟩ := addGuard_lcb_inv hinv hc.1 hc.2 h1
  obtain ⟨le2, inv2, hP2, ga⟩ := evalE_inv e inv1 (hP.mono le1) (he.mono le1) (hv.mono le1) h2
  obtain ⟨le3, inv3⟩ := restoreGuard_invT inv2 ((TripleOk.of_inv hinv).mono (le1.trans le2)) h3
  exact ⟨(le1.trans le2).trans le3, inv3, hP2.mono le3, ga.mono le3⟩

theorem iteVals_inv {c : LinComb} {tv fv r : TVal} {n n' : Nat} {s s' : St} (hinv : Inv s) (hP : PrimeP s)
    (hc : Good s c) (ht : GoodT s tv) (hf : GoodT s fv) (h : iteVals c tv fv n s = .ok ((r, n'), s')) :
    Spec s s' (GoodT s' r) := by
  unfold iteVals at h
  split at h
  · rename_i a b
    obtain ⟨v, s1, h1, h⟩ := bind_ok.mp h
    obtain ⟨⟨o, n1⟩, s2, h2, h⟩ := bind_ok.mp h
    obtain ⟨h3, rfl⟩ := pure_ok' h
    simp only [Prod.mk.injEq] at h3
    obtain ⟨rfl, _⟩ := h3
    obtain ⟨ho, _, rfl⟩ := freshS_ok h2
    simp only [GoodT, PTree.AllP_leaf] at ht hf ⊢
    obtain ⟨le1, inv1, hP1, g1⟩ := iteScalar_inv hinv hP hc ht.toVal hf.toVal h1
    obtain ⟨_, _, hk, _⟩ := iteScalar_rep a.toVal_isS b.toVal_isS h1
    exact ⟨le1, inv1, hP1, GoodS.ofVal ho g1 hk⟩
  · exact mergeT_inv hinv hP hc ht hf h

theorem iteThunks_inv {env : BEnv} {vals : Vals} {c : LinComb} {t f : BExpr} {n n' : Nat} {r : TVal} {s s' : St} (hinv : Inv s)
    (hP : PrimeP s) (he : GoodE s env) (hv : GoodVals s vals) (hc : Good s c)
    (h : iteThunks c (evalE env vals t) (evalE env vals f) n s = .ok ((r, n'), s')) : Spec s s' (GoodT s' r) := by
  unfold iteThunks at h
  obtain ⟨⟨tv, n1⟩, s1, h1, h⟩ := bind_ok.mp h
  obtain ⟨nc, s2, h2, h⟩ := bind_ok.mp h
  obtain ⟨⟨fv, n2⟩, s3, h3, h⟩ := bind_ok.mp h
  have hb : BoolLC c := (boolNot_val h2).2.2
  obtain ⟨le1, inv1, hP1, gt⟩ := guardedE_inv hinv hP he hv ⟨hc, hb⟩ h1
  obtain ⟨le2, inv2, hP2, gn⟩ := boolNot_inv inv1 hP1 (hc.mono le1) h2
  have le12 := le1.trans le2
  obtain ⟨le3, inv3, hP3, gf⟩ := guardedE_inv inv2 hP2 (he.mono le12) (hv.mono le12) gn h3
  obtain ⟨le4, inv4, hP4, gr⟩ := iteVals_inv inv3 hP3 (hc.mono (le12.trans le3)) ((gt.mono le2).mono le3) gf h
  exact ⟨(le12.trans le3).trans le4, inv4, hP4, gr⟩

theorem iterM_runInv {s0 : St} {f : Nat → BSt → M BSt}
    (hf : ∀ i b t b' t', RunInv s0 b t → f i b t = .ok (b', t') → RunInv s0 b' t') (n i : Nat) {b b' : BSt}
    {t t' : St} (hp : RunInv s0 b t) (h : iterM n f i b t = .ok (b', t')) : RunInv s0 b' t' :=
  iterM_inv (fun b t => RunInv s0 b t) f hf n i b t b' t' hp h

theorem evalC_runInv {s0 : St} {env : BEnv} (he : GoodE s0 env) {c : BCond} {bs : BSt} {s s' : St} {v : Val}
    (hr : RunInv s0 bs s) (h : evalC env bs.bv c s = .ok (v, s')) :
    RunInv s0 bs s' ∧ GoodV s' v ∧ ∀ r, v = .lcb r → Good s' r ∧ BoolLC r := by
  obtain ⟨le1, inv1, hP1, hq⟩ := evalC_inv hr.inv hr.prime (he.mono hr.le) hr.good.vals h
  exact ⟨⟨hr.le.trans le1, inv1, hP1, hr.good.mono le1⟩, hq⟩

theorem breakStep_runInv {s0 : St} {env : BEnv} (he : GoodE s0 env) {brk : Option BCond} {bs bs' : BSt} {s s' : St}
    (hr : RunInv s0 bs s) (h : breakStep env brk bs s = .ok (bs', s')) : RunInv s0 bs' s' := by
  unfold breakStep at h
  cases brk with
  | none => obtain ⟨rfl, rfl⟩ := pure_ok' h; exact hr
  | some bc =>
    obtain ⟨v, s1, h1, h2⟩ := bind_ok.mp h
    obtain ⟨hr1, _, hq⟩ := evalC_runInv he hr h1
    obtain ⟨cb, _, _, hcb, _, _⟩ := bBreakif_ok h2
    subst hcb
    exact hr1.step (bBreakif_inv hr1.inv hr1.prime hr1.good (hq cb rfl).1 h2)

theorem whileRound_runInv {s0 : St} {env : BEnv} (he : GoodE s0 env) {body : BSt → M BSt}
    (hbody : ∀ b t b' t', RunInv s0 b t → body b t = .ok (b', t') → RunInv s0 b' t') {c : BCond}
    {brk : Option BCond} {bs bs' : BSt} {s s' : St} (hr : RunInv s0 bs s)
    (h : whileRound env body c brk bs s = .ok (bs', s')) : RunInv s0 bs' s' := by
  unfold whileRound at h
  obtain ⟨b1, t1, h1, h⟩ := bind_ok.mp h
  obtain ⟨b2, t2, h2, h⟩ := bind_ok.mp h
  obtain ⟨cn, t3, h3, h⟩ := bind_ok.mp h
  have r1 := hbody _ _ _ _ hr h1
  have r2 := breakStep_runInv he r1 h2
  obtain ⟨r3, _, hq⟩ := evalC_runInv he r2 h3
  obtain ⟨_, _, cl, _, _, _, _, hcl, _, _⟩ := bWhileNext_ok h
  subst hcl
  exact r3.step (bWhileNext_inv r3.inv r3.prime r3.good (hq cl rfl).1 h)

theorem neCmp_runInv {s0 : St} {ix : Nat} {st : LinComb} {bs : BSt} {s s' : St} {v : Val} (hr : RunInv s0 bs s)
    (hst : Good s st) (h : cmpV .ne (.int ix) (.lc st) s = .ok (v, s')) :
    RunInv s0 bs s' ∧ ∃ r, v = .lcb r ∧ Good s' r ∧ BoolLC r := by
  obtain ⟨le1, _, inv1, gr⟩ := cmpV_spec hr.inv hr.prime (a := .int ix) (b := .lc st) (by simp [GoodV]) (by simpa [GoodV] using hst) h
  obtain ⟨_, r, rfl, hb, _⟩ := cmpV_int_all (x := .int ix) (y := .lc st) trivial trivial h
  exact ⟨⟨hr.le.trans le1, inv1, hr.prime.mono le1, hr.good.mono le1⟩, r, rfl, by simpa [GoodV] using gr, hb⟩

theorem forRound_runInv {s0 : St} {env : BEnv} {lv : Nat} {st : LinComb} (hst : Good s0 st)
    {body : BEnv → BSt → M BSt}
    (hbody : ∀ env' b t b' t', env'.inputs = env.inputs → env'.finputs = env.finputs → RunInv s0 b t →
      body env' b t = .ok (b', t') → RunInv s0 b' t')
    {ix : Nat} {bs bs' : BSt} {s s' : St} (hr : RunInv s0 bs s)
    (h : forRound env lv (.lc st) body ix bs s = .ok (bs', s')) : RunInv s0 bs' s' := by
  unfold forRound at h
  obtain ⟨c, t1, h1, ha⟩ := bind_ok.mp h
  obtain ⟨b1, t2, h2, h3⟩ := bind_ok.mp ha
  clear h ha
  obtain ⟨r1, r, rfl, gr, _⟩ := neCmp_runInv hr (hst.mono hr.le) h1
  have r2 := r1.step (bWhileNext_inv r1.inv r1.prime r1.good gr h2)
  exact hbody { env with lvs := (lv, (ix : Int)) :: env.lvs } _ _ _ _ rfl rfl r2 h3

mutual
theorem execStmt_runInv : ∀ (st : BStmt) (s0 : St) (env : BEnv) (bs bs' : BSt) (s s' : St), GoodE s0 env →
    RunInv s0 bs s → execStmt env st bs s = .ok (bs', s') → RunInv s0 bs' s'
  | .assign x e, s0, env, bs, bs', s, s', he, hr, h => by
    unfold execStmt at h
    obtain ⟨⟨t, n⟩, s1, h1, h2⟩ := bind_ok.mp h
    obtain ⟨le1, inv1, hP1, gv⟩ := evalE_inv e hr.inv hr.prime (he.mono hr.le) hr.good.vals h1
    have r1 : RunInv s0 bs s1 := ⟨hr.le.trans le1, inv1, hP1, hr.good.mono le1⟩
    exact r1.step (bindT_inv inv1 hP1 r1.good gv h2)
  | .setitem x path e, s0, env, bs, bs', s, s', he, hr, h => by
    unfold execStmt at h
    obtain ⟨⟨t, n⟩, s1, h1, h2⟩ := bind_ok.mp h
    obtain ⟨le1, inv1, hP1, gv⟩ := evalE_inv e hr.inv hr.prime (he.mono hr.le) hr.good.vals h1
    have r1 : RunInv s0 bs s1 := ⟨hr.le.trans le1, inv1, hP1, hr.good.mono le1⟩
    dsimp only at h2
    cases hg : bs.bv.vals.get? x with
    | none => simp only [hg] at h2; exact (raise_ok.mp h2).elim
    | some old =>
      simp only [hg] at h2
      cases hs : old.set path t with
      | none => simp only [hs] at h2; exact (raise_ok.mp h2).elim
      | some new =>
        simp only [hs] at h2
        exact r1.step (bindT_inv inv1 hP1 r1.good (PTree.AllP_of_set path hs (r1.good.vals.get? hg) gv) h2)
  | .sel x c t f, s0, env, bs, bs', s, s', he, hr, h => by
    unfold execStmt at h
    obind h with cv, s1, h1
    obind h with ⟨tv, n1⟩, s2, h2
    obind h with ⟨fv, n2⟩, s3, h3
    obind h with cl, s4, h4
    obtain ⟨hcl, hs4⟩ := condLC_ok h4
    subst hs4
    obind h with ⟨o, n3⟩, s5, h5
    obtain ⟨r1, _, hq⟩ := evalC_runInv he hr h1
    obtain ⟨le2, inv2, hP2, gt⟩ := evalE_inv t r1.inv r1.prime (he.mono r1.le) r1.good.vals h2
    have r2 : RunInv s0 bs s2 := ⟨r1.le.trans le2, inv2, hP2, r1.good.mono le2⟩
    obtain ⟨le3, inv3, hP3, gf⟩ := evalE_inv f r2.inv r2.prime (he.mono r2.le) r2.good.vals h3
    have r3 : RunInv s0 bs s4 := ⟨r2.le.trans le3, inv3, hP3, r2.good.mono le3⟩
    obtain ⟨le5, inv5, hP5, go⟩ := mergeT_inv inv3 hP3 (((hq cl hcl).1.mono le2).mono le3) (gt.mono le3) gf h5
    have r5 : RunInv s0 bs s5 := ⟨r3.le.trans le5, inv5, hP5, r3.good.mono le5⟩
    exact r5.step (bindT_inv inv5 hP5 r5.good go h)
  | .ite x c t f, s0, env, bs, bs', s, s', he, hr, h => by
    unfold execStmt at h
    obind h with cv, s1, h1
    obind h with cl, s2, h2
    obtain ⟨hcl, hs2⟩ := condLC_ok h2
    subst hs2
    obind h with ⟨o, n3⟩, s3, h3
    obtain ⟨r1, _, hq⟩ := evalC_runInv he hr h1
    obtain ⟨le3, inv3, hP3, gr⟩ := iteThunks_inv r1.inv r1.prime (he.mono r1.le) r1.good.vals (hq cl hcl).1 h3
    have r3 : RunInv s0 bs s3 := ⟨r1.le.trans le3, inv3, hP3, r1.good.mono le3⟩
    exact r3.step (bindT_inv inv3 hP3 r3.good gr h)
  | .ifs c body rest, s0, env, bs, bs', s, s', he, hr, h => by
    unfold execStmt at h
    obtain ⟨cv, s1, h1, ha⟩ := bind_ok.mp h
    obtain ⟨bs1, s2, h2, hb⟩ := bind_ok.mp ha
    obtain ⟨bs2, s3, h3, h4⟩ := bind_ok.mp hb
    clear h ha hb
    obtain ⟨r1, _, hq⟩ := evalC_runInv he hr h1
    obtain ⟨cl, _, hcl, _, _⟩ := bIf_ok h2
    subst hcl
    have r2 := r1.step (bIf_inv r1.inv r1.prime r1.good (hq cl rfl).1 h2)
    have r3 := execBlock_runInv body s0 env bs1 bs2 s2 s3 he r2 h3
    exact execIfRest_runInv rest s0 env bs2 bs' s3 s' he r3 h4
  | .forr lv bound mx body, s0, env, bs, bs', s, s', he, hr, h => by
    unfold execStmt at h
    obtain ⟨stop, s1, h1, ha⟩ := bind_ok.mp h
    clear h
    obtain ⟨le1, inv1, hP1, gst, -⟩ := evalC_inv hr.inv hr.prime (he.mono hr.le) hr.good.vals h1
    cases stop <;> first | exact (raise_ok.mp ha).elim | skip
    rename_i st
    dsimp only at ha
    obtain ⟨c0, s2, h2, hb⟩ := bind_ok.mp ha
    obtain ⟨bs1, s3, h3, hc⟩ := bind_ok.mp hb
    obtain ⟨bs2, s4, h4, hd⟩ := bind_ok.mp hc
    obtain ⟨bs3, s5, h5, h6⟩ := bind_ok.mp hd
    clear ha hb hc hd
    have gst' : Good s1 st := by simpa [GoodV] using gst
    -- restart the run at `s1`, where the bound is a coherent value
    have he1 : GoodE s1 env := he.mono (hr.le.trans le1)
    have q0 : RunInv s1 bs s1 := ⟨St.le.refl _, inv1, hP1, hr.good.mono le1⟩
    obtain ⟨q1, r, rfl, gr, hb⟩ := neCmp_runInv (ix := 0) q0 gst' h2
    have q2 := q1.step (bWhilePush_inv q1.inv q1.prime q1.good ⟨gr, hb⟩ h3)
    have q3 := execBlock_runInv body s1 { env with lvs := (lv, 0) :: env.lvs } bs1 bs2 s3 s4 ⟨he1.inputs, he1.finputs⟩ q2 h4
    have q4 : RunInv s1 bs3 s5 := iterM_runInv (fun i b t b' t' hp hs =>
      forRound_runInv (env := env) gst' (fun env' b t b' t' henv hfenv hp' hs' =>
        execBlock_runInv body s1 env' b b' t t' ⟨by rw [henv]; exact he1.inputs, by rw [hfenv]; exact he1.finputs⟩ hp' hs') hp hs) _ _ q3 h5
    have q5 := q4.step (bEnd_inv q4.inv q4.prime q4.good (Or.inr h6))
    exact ⟨(hr.le.trans le1).trans q5.le, q5.inv, q5.prime, q5.good⟩
  | .whil c mx body brk, s0, env, bs, bs', s, s', he, hr, h => by
    unfold execStmt at h
    obtain ⟨c0, s1, h1, ha⟩ := bind_ok.mp h
    obtain ⟨bs1, s2, h2, hb⟩ := bind_ok.mp ha
    obtain ⟨bs2, s3, h3, h4⟩ := bind_ok.mp hb
    clear h ha hb
    obtain ⟨r1, _, hq⟩ := evalC_runInv he hr h1
    obtain ⟨cl, _, hcl, _, _⟩ := bWhilePush_ok h2
    subst hcl
    have r2 := r1.step (bWhilePush_inv r1.inv r1.prime r1.good (hq cl rfl) h2)
    have r3 : RunInv s0 bs2 s3 := iterM_runInv (fun i b t b' t' hp hs =>
      whileRound_runInv he (fun b t b' t' hp' hs' => execBlock_runInv body s0 env b b' t t' he hp' hs') hp hs) _ _ r2 h3
    exact r3.step (bEnd_inv r3.inv r3.prime r3.good (Or.inr h4))

theorem execBlock_runInv : ∀ (b : BBlock) (s0 : St) (env : BEnv) (bs bs' : BSt) (s s' : St), GoodE s0 env →
    RunInv s0 bs s → execBlock env b bs s = .ok (bs', s') → RunInv s0 bs' s'
  | .nil, s0, env, bs, bs', s, s', he, hr, h => by
    unfold execBlock at h
    obtain ⟨rfl, rfl⟩ := pure_ok' h
    exact hr
  | .cons st rest, s0, env, bs, bs', s, s', he, hr, h => by
    unfold execBlock at h
    obtain ⟨bs1, s1, h1, h2⟩ := bind_ok.mp h
    exact execBlock_runInv rest s0 env bs1 bs' s1 s' he (execStmt_runInv st s0 env bs bs1 s s1 he hr h1) h2

theorem execIfRest_runInv : ∀ (r : BIfRest) (s0 : St) (env : BEnv) (bs bs' : BSt) (s s' : St), GoodE s0 env →
    RunInv s0 bs s → execIfRest env r bs s = .ok (bs', s') → RunInv s0 bs' s'
  | .endif, s0, env, bs, bs', s, s', he, hr, h => by
    unfold execIfRest at h
    exact hr.step (bEnd_inv hr.inv hr.prime hr.good (Or.inl h))
  | .els b, s0, env, bs, bs', s, s', he, hr, h => by
    unfold execIfRest at h
    obtain ⟨bs1, s1, h1, ha⟩ := bind_ok.mp h
    obtain ⟨bs2, s2, h2, h3⟩ := bind_ok.mp ha
    have r1 := hr.step (bElse_inv hr.inv hr.prime hr.good h1)
    have r2 := execBlock_runInv b s0 env bs1 bs2 s1 s2 he r1 h2
    exact r2.step (bEnd_inv r2.inv r2.prime r2.good (Or.inl h3))
  | .elif c b rest, s0, env, bs, bs', s, s', he, hr, h => by
    unfold execIfRest at h
    obtain ⟨bs1, s1, h1, ha⟩ := bind_ok.mp h
    obtain ⟨bs2, s2, h2, h3⟩ := bind_ok.mp ha
    have r1 := hr.step (bElif_inv hr.inv hr.prime (he.mono hr.le) hr.good h1)
    have r2 := execBlock_runInv b s0 env bs1 bs2 s1 s2 he r1 h2
    exact execIfRest_runInv rest s0 env bs2 bs' s2 s' he r2 h3
end

/-! ## a complete run -/
theorem setupLeaf_inv {a : ILeaf} {n n' : Nat} {o : SVal} {s s' : St} (hinv : Inv s) (hP : PrimeP s)
    (h : setupLeaf a n s = .ok ((o, n'), s')) : Spec s s' (GoodS s' o) := by
  cases a with
  | int v =>
    simp only [setupLeaf] at h
    obtain ⟨l, s1, h1, h⟩ := bind_ok.mp h
    obtain ⟨h2, rfl⟩ := pure_ok' h
    simp only [Prod.mk.injEq] at h2
    obtain ⟨rfl, _⟩ := h2
    obtain ⟨le1, _, inv1, g1, _⟩ := privVal_spec hinv h1
    exact ⟨le1, inv1, hP.mono le1, g1⟩
  | bool v =>
    simp only [setupLeaf] at h
    obtain ⟨l, s1, h1, h⟩ := bind_ok.mp h
    obtain ⟨b, s2, h2, h⟩ := bind_ok.mp h
    obtain ⟨le1, _, inv1, g1, _⟩ := privVal_spec hinv h1
    obtain ⟨le2, _, inv2, g2⟩ := cmpV_spec inv1 (hP.mono le1) (a := .lc l) (b := .int 1) (by simpa [GoodV] using g1) (by simp [GoodV]) h2
    obtain ⟨_, c, rfl, hb, _⟩ := cmpV_int_all (x := .lc l) (y := .int 1) trivial trivial h2
    dsimp only at h
    obtain ⟨h3, rfl⟩ := pure_ok' h
    simp only [Prod.mk.injEq] at h3
    obtain ⟨rfl, _⟩ := h3
    exact ⟨le1.trans le2, inv2, hP.mono (le1.trans le2), by simpa [GoodV] using g2, hb⟩
  | fxp m e =>
    simp only [setupLeaf] at h
    obtain ⟨w, s1, h1, h⟩ := bind_ok.mp h
    obtain ⟨le1, _, inv1, g1⟩ := mkVal_spec hinv h1
    obtain ⟨_, x, rfl, _, _⟩ := mkVal_privx_val h1
    dsimp only at h
    obtain ⟨h3, rfl⟩ := pure_ok' h
    simp only [Prod.mk.injEq] at h3
    obtain ⟨rfl, _⟩ := h3
    exact ⟨le1, inv1, hP.mono le1, by simpa [GoodV, GoodS] using g1⟩

mutual
theorem setupT_inv : ∀ (v : IVal) {n n' : Nat} {t : TVal} {s s' : St}, Inv s → PrimeP s →
    setupT v n s = .ok ((t, n'), s') → Spec s s' (GoodT s' t)
  | .leaf a, n, n', t, s, s', hinv, hP, h => by
    unfold setupT at h
    obtain ⟨⟨o, n1⟩, s1, h1, h⟩ := bind_ok.mp h
    obtain ⟨h2, rfl⟩ := pure_ok' h
    simp only [Prod.mk.injEq] at h2
    obtain ⟨rfl, _⟩ := h2
    simp only [GoodT, PTree.AllP_leaf]
    exact setupLeaf_inv hinv hP h1
  | .node vs, n, n', t, s, s', hinv, hP, h => by
    unfold setupT at h
    obtain ⟨⟨ts, n1⟩, s1, h1, h⟩ := bind_ok.mp h
    obtain ⟨h2, rfl⟩ := pure_ok' h
    simp only [Prod.mk.injEq] at h2
    obtain ⟨rfl, _⟩ := h2
    simp only [GoodT, PTree.AllP_node]
    exact setupTL_inv vs hinv hP h1
theorem setupTL_inv : ∀ (vs : List IVal) {n n' : Nat} {ts : List TVal} {s s' : St}, Inv s → PrimeP s →
    setupTL vs n s = .ok ((ts, n'), s') → Spec s s' (∀ t ∈ ts, GoodT s' t)
  | [], n, n', ts, s, s', hinv, hP, h => by
    unfold setupTL at h
    obtain ⟨h2, rfl⟩ := pure_ok' h
    simp only [Prod.mk.injEq] at h2
    obtain ⟨rfl, _⟩ := h2
    exact Spec.refl hinv hP (fun t ht => by cases ht)
  | v :: vs, n, n', ts, s, s', hinv, hP, h => by
    unfold setupTL at h
    obtain ⟨⟨t, n1⟩, s1, h1, h⟩ := bind_ok.mp h
    obtain ⟨⟨ts', n2⟩, s2, h2, h⟩ := bind_ok.mp h
    obtain ⟨h3, rfl⟩ := pure_ok' h
    simp only [Prod.mk.injEq] at h3
    obtain ⟨rfl, _⟩ := h3
    obtain ⟨le1, inv1, hP1, g1⟩ := setupT_inv v hinv hP h1
    obtain ⟨le2, inv2, hP2, g2⟩ := setupTL_inv vs inv1 hP1 h2
    refine ⟨le1.trans le2, inv2, hP2, ?_⟩
    intro x hx
    rcases List.mem_cons.mp hx with rfl | hx
    · exact g1.mono le2
    · exact g2 x hx
end

theorem setupVars_inv : ∀ (init : List (Nat × IVal)) {bv bv' : BV} {s s' : St}, Inv s → PrimeP s → GoodVals s bv.vals →
    setupVars init bv s = .ok (bv', s') → Spec s s' (GoodVals s' bv'.vals)
  | [], bv, bv', s, s', hinv, hP, hv, h => by
    unfold setupVars at h
    obtain ⟨rfl, rfl⟩ := pure_ok' h
    exact Spec.refl hinv hP hv
  | (x, v) :: rest, bv, bv', s, s', hinv, hP, hv, h => by
    unfold setupVars at h
    obtain ⟨⟨t, n⟩, s1, h1, h2⟩ := bind_ok.mp h
    obtain ⟨le1, inv1, hP1, g1⟩ := setupT_inv v hinv hP h1
    obtain ⟨le2, inv2, hP2, g2⟩ := setupVars_inv rest (bv := ⟨bv.vals.set x t, n⟩) inv1 hP1 ((hv.mono le1).set x g1) h2
    exact ⟨le1.trans le2, inv2, hP2, g2⟩

theorem setupInputs_inv : ∀ (ls : List ILeaf) {n n' : Nat} {os : List SVal} {s s' : St}, Inv s → PrimeP s →
    setupInputs ls n s = .ok ((os, n'), s') → Spec s s' (∀ o ∈ os, GoodS s' o)
  | [], n, n', os, s, s', hinv, hP, h => by
    unfold setupInputs at h
    obtain ⟨h2, rfl⟩ := pure_ok' h
    simp only [Prod.mk.injEq] at h2
    obtain ⟨rfl, _⟩ := h2
    exact Spec.refl hinv hP (fun o ho => by cases ho)
  | a :: rest, n, n', os, s, s', hinv, hP, h => by
    unfold setupInputs at h
    obtain ⟨⟨o, n1⟩, s1, h1, h⟩ := bind_ok.mp h
    obtain ⟨⟨os', n2⟩, s2, h2, h⟩ := bind_ok.mp h
    obtain ⟨h3, rfl⟩ := pure_ok' h
    simp only [Prod.mk.injEq] at h3
    obtain ⟨rfl, _⟩ := h3
    obtain ⟨le1, inv1, hP1, g1⟩ := setupLeaf_inv hinv hP h1
    obtain ⟨le2, inv2, hP2, g2⟩ := setupInputs_inv rest inv1 hP1 h2
    refine ⟨le1.trans le2, inv2, hP2, ?_⟩
    intro o' ho'
    rcases List.mem_cons.mp ho' with rfl | ho'
    · exact GoodS.mono le2 g1
    · exact g2 o' ho'

/-- every completed run of a structured program keeps the tracer invariant -/
theorem runBlockT_inv {init : List (Nat × IVal)} {inputs : List Int} {finputs : List (Int × Nat)} {prog : BBlock}
    {bs : BSt} {s s' : St} (hinv : Inv s) (hP : PrimeP s) (h : runBlockT init inputs finputs prog s = .ok (bs, s')) :
    s.le s' ∧ Inv s' ∧ GoodB s' bs := by
  unfold runBlockT at h
  obtain ⟨bv, s1, h1, h⟩ := bind_ok.mp h
  obtain ⟨⟨inp, n1⟩, s2, h2, h⟩ := bind_ok.mp h
  obtain ⟨⟨finp, n2⟩, s3, h3, h⟩ := bind_ok.mp h
  obtain ⟨le1, inv1, hP1, g1⟩ := setupVars_inv init (bv := {}) hinv hP (fun kv hkv => by cases hkv) h1
  obtain ⟨le2, inv2, hP2, g2⟩ := setupInputs_inv _ inv1 hP1 h2
  obtain ⟨le3, inv3, hP3, g3⟩ := setupInputs_inv _ inv2 hP2 h3
  have r := execBlock_runInv prog s3 { inputs := inp, finputs := finp } _ bs s3 s'
    ⟨fun o ho => GoodS.mono le3 (g2 o ho), g3⟩
    ⟨St.le.refl _, inv3, hP3, ⟨(g1.mono le2).mono le3, fun c hc => by cases hc⟩⟩ h
  exact ⟨((le1.trans le2).trans le3).trans r.le, r.inv, r.good⟩

theorem GoodT.coh {s : St} {t : TVal} (h : GoodT s t) : CohT s t := by
  refine PTree.AllP.mono (fun o ho => ?_) h
  cases o with
  | pub c => trivial
  | sc k l id => cases k <;> first | exact ho.2 | exact ho.1.2

theorem GoodT.bok {s : St} {t : TVal} (h : GoodT s t) : t.bok = true := by
  unfold TVal.bok
  have : ∀ (u : TVal), PTree.AllP (GoodS s) u → PTree.all SVal.bok u = true := by
    intro u
    induction u using PTree.rec (motive_2 := fun ts => PTree.AllPL (GoodS s) ts → ts.all (PTree.all SVal.bok) = true) with
    | leaf a =>
      intro ha
      simp only [PTree.AllP] at ha
      simp only [PTree.all_leaf]
      cases a with
      | pub c => rfl
      | sc k l id =>
        cases k
        · rfl
        · exact SVal.bok_bool ha.2
        · rfl
    | node ts ih =>
      intro ha
      simp only [PTree.AllP] at ha
      simp only [PTree.all_node]
      exact ih ha
    | nil => rfl
    | cons u us ihu ihus =>
      rename_i ha
      simp only [PTree.AllPL] at ha
      simp only [List.all_cons, ihu ha.1, ihus ha.2, Bool.and_self]
  exact this t h


end Pysnark
