import PysnarkModel.Lemmas.BranchLive
import PysnarkModel.Lemmas.InvRun
/-!
# Block branching keeps the tracer invariant

`Inv` (every recorded constraint holds on the recorded witness; the guard state is consistent) and
the coherence of every object the program can reach are preserved by every function of the library
layer and therefore by every structured program — including nested blocks, where the effective
guard is the bitwise AND of the enclosing guard and the condition.
-/
namespace Pysnark

/-! ## nested guards: the value of `guard & cond` -/
theorem bitsVal_zero_br : ∀ (l : List Int) (i : Nat), (∀ x ∈ l, x = 0) → bitsVal l i = 0
  | [], _, _ => rfl
  | b :: bs, i, h => by
    simp only [bitsVal, h b (by simp), zero_mul, zero_add]
    exact bitsVal_zero_br bs (i+1) (fun x hx => h x (List.mem_cons_of_mem _ hx))

theorem bitsOf_zero_br (n : Nat) : ∀ x ∈ Py.bitsOf 0 n, x = 0 := by
  intro x hx
  simp only [Py.bitsOf, List.mem_map, List.mem_range] at hx
  obtain ⟨i, _, rfl⟩ := hx
  simp [Py.bit]

/-- `a & b` on secret integers when `a` is 0, with or without error suppression -/
theorem andLL_zero {s s' : St} {a b : LinComb} {o : Option LinComb} (ha : a.value = 0)
    (h : andLL a b s = .ok (o, s')) : valFB o = 0 := by
  unfold andLL at h
  obtain ⟨ab, s1, h1, h⟩ := bind_ok.mp h
  obtain ⟨bb, s2, h2, h⟩ := bind_ok.mp h
  obtain ⟨res, s3, h3, h⟩ := bind_ok.mp h
  obtain ⟨rfl, rfl⟩ := pure_ok' h
  obtain ⟨_, va, _⟩ := toBits_val h1
  obtain ⟨_, vr⟩ := mapM'_val (fun xy : LinComb × LinComb => mulBB xy.1 xy.2) (fun xy => xy.1.value * xy.2.value)
    (fun _ => True) (fun _ _ _ _ => trivial) (fun xy s s' r _ h => mulBB_val h) _ trivial h3
  rw [valFB_fromBits, vr, map_zip_values (· * ·), va, ha]
  apply bitsVal_zero_br
  intro x hx
  obtain ⟨i, hi, rfl⟩ := List.getElem_of_mem hx
  simp only [List.getElem_zipWith]
  have : (Py.bitsOf 0 (Option.none.getD s.bitlength))[i]'(by simp only [List.length_zipWith] at hi; omega) = 0 :=
    bitsOf_zero_br _ _ (List.getElem_mem _)
  rw [this, zero_mul]

/-- saved guard triple that can be reinstalled in any later state -/
structure TripleOk (s : St) (og : GuardBak) : Prop where
  oneNone : og.guard = none → og.one = oneSafe
  oneSome : ∀ g, og.guard = some g → og.one = g
  guardGood : ∀ g, og.guard = some g → Good s g ∧ (g.value = 0 ∨ g.value = 1)
  ign : og.ignoreErrors = true ↔ ∃ g, og.guard = some g ∧ g.value = 0

theorem TripleOk.of_inv {s : St} (h : Inv s) : TripleOk s ⟨s.guard, s.ignoreErrors, s.one⟩ :=
  ⟨h.oneNone, h.oneSome, h.guardGood, h.ign⟩

theorem TripleOk.mono {s s' : St} {og : GuardBak} (h : TripleOk s og) (hle : s.le s') : TripleOk s' og :=
  ⟨h.oneNone, h.oneSome, fun g hg => ⟨(h.guardGood g hg).1.mono hle, (h.guardGood g hg).2⟩, h.ign⟩

theorem TripleOk.init (s : St) : TripleOk s ⟨none, false, oneSafe⟩ :=
  { oneNone := fun _ => rfl
    oneSome := fun g hg => by cases hg
    guardGood := fun g hg => by cases hg
    ign := by simp }

theorem restoreGuard_invT {s s' : St} {og : GuardBak} {u : Unit} (hinv : Inv s) (ht : TripleOk s og)
    (h : restoreGuard og s = .ok (u, s')) : s.le s' ∧ Inv s' := by
  rw [restoreGuard_ok h]
  have hle : s.le { s with guard := og.guard, ignoreErrors := og.ignoreErrors, one := og.one } :=
    ⟨List.prefix_refl _, List.prefix_refl _, List.prefix_refl _, rfl⟩
  refine ⟨hle, ?_⟩
  exact {
    sat := fun c hc => (hinv.sat c hc).mono hle (hinv.consOk c hc)
    consOk := fun c hc => by
      obtain ⟨a, b, d⟩ := hinv.consOk c hc
      exact ⟨a.mono hle, b.mono hle, d.mono hle⟩
    oneNone := ht.oneNone
    oneSome := ht.oneSome
    guardGood := fun g hg => ⟨(ht.guardGood g hg).1.mono hle, (ht.guardGood g hg).2⟩
    ign := ht.ign }

/-- `add_guard(cond)` for a boolean-valued condition, at any nesting depth -/
theorem addGuard_lcb_inv {s s1 : St} {c : LinComb} {og : GuardBak} (hinv : Inv s) (hc : Good s c)
    (hcb : c.value = 0 ∨ c.value = 1) (h : addGuard (.lcb c) s = .ok (og, s1)) :
    s.le s1 ∧ Inv s1 ∧ og = ⟨s.guard, s.ignoreErrors, s.one⟩ := by
  have hb := addGuard_bak h
  simp only [St.triple, Triple.mk.injEq] at hb
  have hog : og = ⟨s.guard, s.ignoreErrors, s.one⟩ := by cases og; simp only [GuardBak.mk.injEq]; exact hb
  suffices hkey : s.le s1 ∧ Inv s1 from ⟨hkey.1, hkey.2, hog⟩
  clear hog hb
  cases hg : s.guard with
  | none =>
    obtain ⟨le1, inv1, _⟩ := addGuard_spec hinv hg (by simpa [GoodV] using hc) h
    exact ⟨le1, inv1⟩
  | some g =>
    obtain ⟨gg, gv⟩ := hinv.guardGood g hg
    unfold addGuard unwrapBoolCond addGuardCore at h
    simp only [hg] at h
    split at h
    · cases h
    · split at h
      · cases h
      · rename_i g' s' hand
        simp only [Except.ok.injEq, Prod.mk.injEq] at h
        obtain ⟨_, rfl⟩ := h
        -- `g & c` through the bit decomposition
        unfold bwLV at hand
        simp only at hand
        obtain ⟨o, t1, hand1, hand2⟩ := bind_ok.mp hand
        obtain ⟨ho, rfl⟩ := pure_ok' hand2
        obtain ⟨le1, f1, inv1, go⟩ := andLL_spec hinv gg hc hand1
        have hog' : o = some g' := by
          cases o with
          | none => simp [ofFB] at ho
          | some r => simp only [ofFB, Val.lc.injEq] at ho; rw [ho]
        have gg' : Good t1 g' := go g' hog'
        have hval : g'.value = g.value * c.value := by
          cases hi : s.ignoreErrors with
          | true =>
            have g0 := (hinv.ign_of_guard hg).mp hi
            have := andLL_zero g0 hand1
            rw [hog'] at this
            simp only [valFB] at this
            rw [this, g0]; ring
          | false =>
            obtain ⟨_, _, _, _, _, hv⟩ := andLL_val hi hand1
            rw [hog'] at hv
            simp only [valFB] at hv
            rw [hv]
            rcases gv with g0 | g1 <;> rcases hcb with c0 | c1 <;> simp [*]
        have hle : s.le { t1 with guard := some g', ignoreErrors := t1.ignoreErrors || c.value == 0, one := g' } :=
          ⟨le1.pub, le1.priv, le1.cons, le1.p⟩
        have hle1 : t1.le { t1 with guard := some g', ignoreErrors := t1.ignoreErrors || c.value == 0, one := g' } :=
          ⟨List.prefix_refl _, List.prefix_refl _, List.prefix_refl _, rfl⟩
        refine ⟨hle, ?_⟩
        exact {
          sat := fun c' hc' => (inv1.sat c' hc').mono hle1 (inv1.consOk c' hc')
          consOk := fun c' hc' => by
            obtain ⟨a, b, d⟩ := inv1.consOk c' hc'
            exact ⟨a.mono hle1, b.mono hle1, d.mono hle1⟩
          oneNone := fun hn => by cases hn
          oneSome := fun g'' hg'' => by simp only [Option.some.injEq] at hg''; exact hg''
          guardGood := fun g'' hg'' => by
            simp only [Option.some.injEq] at hg''
            subst hg''
            refine ⟨gg'.mono hle1, ?_⟩
            rw [hval]
            rcases gv with g0 | g1 <;> rcases hcb with c0 | c1 <;> simp [*]
          ign := by
            simp only [Option.some.injEq, exists_eq_left', f1.ign, Bool.or_eq_true, beq_iff_eq]
            rw [hinv.ign_of_guard hg, hval]
            constructor
            · rintro (g0 | c0) <;> simp [*]
            · intro hz
              rcases gv with g0 | g1
              · exact Or.inl g0
              · right; rw [g1] at hz; simpa using hz }
      · cases h


/-! ## coherence of everything the program can reach -/
def BoolLC (c : LinComb) : Prop := c.value = 0 ∨ c.value = 1

def GoodVals (s : St) (vs : Vals) : Prop := ∀ kv ∈ vs, Good s kv.2.v

structure GoodCtx (s : St) (c : BCtx) : Prop where
  bak : GoodVals s c.bak
  cond : Good s c.cond ∧ BoolLC c.cond
  icond : ∀ ic, c.icond = some ic → Good s ic ∧ BoolLC ic
  nd : ∀ nd, c.nodefvals = some nd → GoodVals s nd
  og : TripleOk s c.origguard

structure GoodB (s : St) (bs : BSt) : Prop where
  vals : GoodVals s bs.bv.vals
  stack : ∀ c ∈ bs.stack, GoodCtx s c

def GoodE (s : St) (env : BEnv) : Prop := ∀ o ∈ env.inputs, Good s o.v

theorem GoodVals.mono {s s' : St} {vs : Vals} (h : GoodVals s vs) (hle : s.le s') : GoodVals s' vs :=
  fun kv hkv => (h kv hkv).mono hle

theorem GoodCtx.mono {s s' : St} {c : BCtx} (h : GoodCtx s c) (hle : s.le s') : GoodCtx s' c :=
  ⟨h.bak.mono hle, ⟨h.cond.1.mono hle, h.cond.2⟩, fun ic hic => ⟨(h.icond ic hic).1.mono hle, (h.icond ic hic).2⟩,
    fun nd hnd => (h.nd nd hnd).mono hle, h.og.mono hle⟩

theorem GoodB.mono {s s' : St} {bs : BSt} (h : GoodB s bs) (hle : s.le s') : GoodB s' bs :=
  ⟨h.vals.mono hle, fun c hc => (h.stack c hc).mono hle⟩

theorem GoodE.mono {s s' : St} {env : BEnv} (h : GoodE s env) (hle : s.le s') : GoodE s' env :=
  fun o ho => (h o ho).mono hle

theorem GoodVals.get? {s : St} : ∀ {vs : Vals}, GoodVals s vs → ∀ {x : Nat} {o : Obj}, vs.get? x = some o → Good s o.v
  | [], _, x, o, h => by simp [Vals.get?] at h
  | (k, p) :: t, hg, x, o, h => by
    simp only [Vals.get?] at h
    by_cases hk : k = x
    · simp only [hk, if_true, Option.some.injEq] at h
      subst h
      exact hg (k, p) (by simp)
    · simp only [hk, if_false] at h
      exact GoodVals.get? (fun kv hkv => hg kv (List.mem_cons_of_mem _ hkv)) h

theorem GoodVals.set {s : St} : ∀ {vs : Vals}, GoodVals s vs → ∀ (x : Nat) {o : Obj}, Good s o.v → GoodVals s (vs.set x o)
  | [], _, x, o, ho => by
    intro kv hkv
    simp only [Vals.set, List.mem_singleton] at hkv
    subst hkv; exact ho
  | (k, p) :: t, hg, x, o, ho => by
    simp only [Vals.set]
    by_cases hk : k = x
    · simp only [hk, if_true]
      intro kv hkv
      rcases List.mem_cons.mp hkv with rfl | hkv
      · exact ho
      · exact hg kv (List.mem_cons_of_mem _ hkv)
    · simp only [hk, if_false]
      intro kv hkv
      rcases List.mem_cons.mp hkv with rfl | hkv
      · exact hg (k, p) (by simp)
      · exact GoodVals.set (fun kv' hkv' => hg kv' (List.mem_cons_of_mem _ hkv')) x ho kv hkv

theorem GoodVals.filter {s : St} {vs : Vals} (h : GoodVals s vs) (p : Nat × Obj → Bool) : GoodVals s (vs.filter p) :=
  fun kv hkv => h kv (List.mem_filter.mp hkv).1

theorem GoodVals.setAll_aux {s : St} {other : Vals} (ho : GoodVals s other) : ∀ (l : Vals) {acc : Vals},
    GoodVals s acc → GoodVals s (l.foldl (Vals.setFrom other) acc)
  | [], acc, ha => ha
  | kv :: l, acc, ha => by
    simp only [List.foldl_cons]
    refine GoodVals.setAll_aux ho l ?_
    unfold Vals.setFrom
    cases hg : other.get? kv.1 with
    | none => exact ha
    | some o => exact ha.set _ (ho.get? hg)

theorem GoodVals.setAll {s : St} {vs other : Vals} (hv : GoodVals s vs) (ho : GoodVals s other) :
    GoodVals s (vs.setAll other) := GoodVals.setAll_aux ho other hv

/-- the shape of the specifications below: more state, invariant kept, and `Q` of the result -/
def Spec (s s' : St) (Q : Prop) : Prop := s.le s' ∧ Inv s' ∧ PrimeP s' ∧ Q

theorem Spec.refl {s : St} {Q : Prop} (hinv : Inv s) (hP : PrimeP s) (hq : Q) : Spec s s Q :=
  ⟨St.le.refl _, hinv, hP, hq⟩

/-! ## merges -/
theorem mergeObj_inv {c : LinComb} {t f r : Obj} {n n' : Nat} {s s' : St} (hinv : Inv s) (hP : PrimeP s)
    (hc : Good s c) (ht : Good s t.v) (hf : Good s f.v) (h : mergeObj c t f n s = .ok ((r, n'), s')) :
    Spec s s' (Good s' r.v) := by
  rcases mergeObj_ok h with ⟨_, _, rfl, _, rfl⟩ | ⟨_, l, hl, rfl, _⟩
  · exact Spec.refl hinv hP ht
  · obtain ⟨le1, _, inv1, g1⟩ := iteLLL_spec hinv hc ht hf hl
    exact ⟨le1, inv1, hP.mono le1, g1⟩

theorem mergeNodef_inv {c : LinComb} {vals : Vals} : ∀ {nd rs : Vals} {n n' : Nat} {s s' : St}, Inv s → PrimeP s →
    Good s c → GoodVals s vals → GoodVals s nd → mergeNodef c vals nd n s = .ok ((rs, n'), s') →
    Spec s s' (GoodVals s' rs)
  | [], rs, n, n', s, s', hinv, hP, _, _, _, h => by
    unfold mergeNodef at h
    obtain ⟨h1, rfl⟩ := pure_ok' h
    simp only [Prod.mk.injEq] at h1
    rw [← h1.1]
    exact Spec.refl hinv hP (fun kv hkv => by cases hkv)
  | (y, o) :: rest, rs, n, n', s, s', hinv, hP, hc, hv, hnd, h => by
    obtain ⟨t, r, n1, s1, rs', ht, hm, h3, rfl⟩ := mergeNodef_cons_ok h
    obtain ⟨le1, inv1, hP1, g1⟩ := mergeObj_inv hinv hP hc (hv.get? ht) (hnd (y, o) (by simp)) hm
    obtain ⟨le2, inv2, hP2, g2⟩ := mergeNodef_inv inv1 hP1 (hc.mono le1) (hv.mono le1)
      (fun kv hkv => (hnd kv (List.mem_cons_of_mem _ hkv)).mono le1) h3
    refine ⟨le1.trans le2, inv2, hP2, ?_⟩
    intro kv hkv
    rcases List.mem_cons.mp hkv with rfl | hkv
    · exact g1.mono le2
    · exact g2 kv hkv

theorem mergeBak_inv {c : LinComb} {bak : Vals} : ∀ {vals rs : Vals} {n n' : Nat} {s s' : St}, Inv s → PrimeP s →
    Good s c → GoodVals s bak → GoodVals s vals → mergeBak c bak vals n s = .ok ((rs, n'), s') →
    Spec s s' (GoodVals s' rs)
  | [], rs, n, n', s, s', hinv, hP, _, _, _, h => by
    unfold mergeBak at h
    obtain ⟨h1, rfl⟩ := pure_ok' h
    simp only [Prod.mk.injEq] at h1
    rw [← h1.1]
    exact Spec.refl hinv hP (fun kv hkv => by cases hkv)
  | (y, t) :: rest, rs, n, n', s, s', hinv, hP, hc, hb, hv, h => by
    obtain ⟨f, r, n1, s1, rs', hf, hm, h3, rfl⟩ := mergeBak_cons_ok h
    obtain ⟨le1, inv1, hP1, g1⟩ := mergeObj_inv hinv hP hc (hv (y, t) (by simp)) (hb.get? hf) hm
    obtain ⟨le2, inv2, hP2, g2⟩ := mergeBak_inv inv1 hP1 (hc.mono le1) (hb.mono le1)
      (fun kv hkv => (hv kv (List.mem_cons_of_mem _ hkv)).mono le1) h3
    refine ⟨le1.trans le2, inv2, hP2, ?_⟩
    intro kv hkv
    rcases List.mem_cons.mp hkv with rfl | hkv
    · exact g1.mono le2
    · exact g2 kv hkv

/-! ## contexts -/
theorem exit_inv {ctx ctx' : BCtx} {bv bv' : BV} {s s' : St} (hinv : Inv s) (hP : PrimeP s) (hc : GoodCtx s ctx)
    (hv : GoodVals s bv.vals) (h : ctx.exit bv s = .ok ((ctx', bv'), s')) :
    Spec s s' (GoodCtx s' ctx' ∧ GoodVals s' bv'.vals) := by
  obtain ⟨s1, nd, n1, s2, vals, n2, hr, hnd, hb, rfl, rfl⟩ := exit_ok h
  obtain ⟨le1, inv1⟩ := restoreGuard_invT hinv hc.og hr
  have hP1 := hP.mono le1
  have hc1 := hc.mono le1
  have hv1 := hv.mono le1
  have hndS : Spec s1 s2 (GoodVals s2 nd) := by
    rcases hnd with ⟨_, rfl, _, rfl⟩ | ⟨nd0, hn0, hm⟩
    · exact Spec.refl inv1 hP1 (hv1.filter _)
    · exact mergeNodef_inv inv1 hP1 hc1.cond.1 hv1 (hc1.nd nd0 hn0) hm
  obtain ⟨le2, inv2, hP2, gnd⟩ := hndS
  have hc2 := hc1.mono le2
  obtain ⟨le3, inv3, hP3, gv⟩ := mergeBak_inv inv2 hP2 hc2.cond.1 hc2.bak ((hv1.mono le2).filter _) hb
  have hc3 := hc2.mono le3
  exact ⟨(le1.trans le2).trans le3, inv3, hP3,
    ⟨hc3.bak, hc3.cond, hc3.icond, fun nd' hn' => by cases hn'; exact gnd.mono le3, hc3.og⟩, gv⟩

theorem enter_inv {ctx ctx' : BCtx} {c : LinComb} {bv : BV} {s s' : St} (hinv : Inv s) (hP : PrimeP s)
    (hc : GoodCtx s ctx) (hcc : Good s c ∧ BoolLC c) (hv : GoodVals s bv.vals)
    (h : ctx.enter c bv s = .ok (ctx', s')) : Spec s s' (GoodCtx s' ctx') := by
  obtain ⟨og, hg, rfl⟩ := enter_ok h
  obtain ⟨le1, inv1, rfl⟩ := addGuard_lcb_inv hinv hcc.1 hcc.2 hg
  have hc1 := hc.mono le1
  exact ⟨le1, inv1, hP.mono le1, ⟨hv.mono le1, ⟨hcc.1.mono le1, hcc.2⟩, hc1.icond, hc1.nd, (TripleOk.of_inv hinv).mono le1⟩⟩

theorem andBB_inv {x y r : LinComb} {s s' : St} (hinv : Inv s) (hP : PrimeP s) (hx : Good s x) (hy : Good s y)
    (h : andBB x y s = .ok (r, s')) : Spec s s' (Good s' r ∧ BoolLC r) := by
  obtain ⟨p, s1, h1, h2⟩ := andBB_ok h
  obtain ⟨le1, _, inv1, g1⟩ := mulLL_spec' hinv hx hy h1
  obtain ⟨le2, _, inv2, rfl, hb⟩ := mkBool_spec inv1 g1 h2
  exact ⟨le1.trans le2, inv2, hP.mono (le1.trans le2), g1.mono le2, hb⟩

theorem boolNot_inv {b r : LinComb} {s s' : St} (hinv : Inv s) (hP : PrimeP s) (hb : Good s b)
    (h : boolNot b s = .ok (r, s')) : Spec s s' (Good s' r ∧ BoolLC r) := by
  obtain ⟨le1, _, inv1, g1⟩ := boolNot_spec hinv hb h
  obtain ⟨_, v, hbv⟩ := boolNot_val h
  exact ⟨le1, inv1, hP.mono le1, g1, by unfold BoolLC; rw [v]; rcases hbv with h0 | h1 <;> simp [*]⟩

theorem GoodCtx.init {s : St} {c : LinComb} (hc : Good s c ∧ BoolLC c) (isIf : Bool) (ic : Option LinComb)
    (hic : ∀ i, ic = some i → Good s i ∧ BoolLC i) :
    GoodCtx s { isIf := isIf, bak := [], cond := c, icond := ic, nodefvals := none, origguard := ⟨none, false, oneSafe⟩ } :=
  ⟨fun kv hkv => (by cases hkv), hc, hic, fun nd hn => (by cases hn), TripleOk.init s⟩

theorem ifNew_inv {c : LinComb} {bv : BV} {ctx : BCtx} {s s' : St} (hinv : Inv s) (hP : PrimeP s)
    (hc : Good s c ∧ BoolLC c) (hv : GoodVals s bv.vals) (h : ifNew c bv s = .ok (ctx, s')) :
    Spec s s' (GoodCtx s' ctx) := by
  unfold ifNew at h
  obtain ⟨ic, s1, h1, h2⟩ := bind_ok.mp h
  obtain ⟨le1, inv1, hP1, gic⟩ := boolNot_inv hinv hP hc.1 h1
  have hc1 : Good s1 c ∧ BoolLC c := ⟨hc.1.mono le1, hc.2⟩
  obtain ⟨le2, inv2, hP2, g2⟩ := enter_inv inv1 hP1
    (GoodCtx.init hc1 true (some ic) (fun i hi => by cases hi; exact gic)) hc1 (hv.mono le1) h2
  exact ⟨le1.trans le2, inv2, hP2, g2⟩

theorem whileNew_inv {c : LinComb} {bv : BV} {ctx : BCtx} {s s' : St} (hinv : Inv s) (hP : PrimeP s)
    (hc : Good s c ∧ BoolLC c) (hv : GoodVals s bv.vals) (h : whileNew c bv s = .ok (ctx, s')) :
    Spec s s' (GoodCtx s' ctx) := by
  unfold whileNew at h
  exact enter_inv hinv hP (GoodCtx.init hc false none (fun i hi => by cases hi)) hc hv h

theorem whileExit_inv {ctx ctx' : BCtx} {bv bv' : BV} {s s' : St} (hinv : Inv s) (hP : PrimeP s) (hc : GoodCtx s ctx)
    (hv : GoodVals s bv.vals) (h : whileExit ctx bv s = .ok ((ctx', bv'), s')) :
    Spec s s' (GoodCtx s' ctx' ∧ GoodVals s' bv'.vals) :=
  exit_inv hinv hP hc hv (whileExit_ok h).1

theorem whileNext_inv {ctx ctx' : BCtx} {nw : LinComb} {bv bv' : BV} {s s' : St} (hinv : Inv s) (hP : PrimeP s)
    (hc : GoodCtx s ctx) (hn : Good s nw) (hv : GoodVals s bv.vals)
    (h : whileNext ctx nw bv s = .ok ((ctx', bv'), s')) :
    Spec s s' (GoodCtx s' ctx' ∧ GoodVals s' bv'.vals) := by
  obtain ⟨ctx1, s1, c, s2, he, hc', hen⟩ := whileNext_ok h
  obtain ⟨le1, inv1, hP1, gc1, gv1⟩ := whileExit_inv hinv hP hc hv he
  obtain ⟨le2, inv2, hP2, gc⟩ := andBB_inv inv1 hP1 gc1.cond.1 (hn.mono le1) hc'
  obtain ⟨le3, inv3, hP3, gc3⟩ := enter_inv inv2 hP2 (gc1.mono le2) gc (gv1.mono le2) hen
  exact ⟨(le1.trans le2).trans le3, inv3, hP3, gc3, (gv1.mono le2).mono le3⟩

theorem ifEnd_inv {ctx : BCtx} {bv bv' : BV} {s s' : St} (hinv : Inv s) (hP : PrimeP s) (hc : GoodCtx s ctx)
    (hv : GoodVals s bv.vals) (h : ifEnd ctx bv s = .ok (bv', s')) : Spec s s' (GoodVals s' bv'.vals) := by
  obtain ⟨ctx1, bv1, hx, _, rfl⟩ := ifEnd_ok h
  obtain ⟨le1, inv1, hP1, gc1, gv1⟩ := exit_inv hinv hP hc hv hx
  refine ⟨le1, inv1, hP1, gv1.setAll ?_⟩
  cases hn : ctx1.nodefvals with
  | none => exact fun kv hkv => by cases hkv
  | some nd => exact gc1.nd nd hn

theorem ifElse_inv {ctx ctx' : BCtx} {bv bv' : BV} {s s' : St} (hinv : Inv s) (hP : PrimeP s) (hc : GoodCtx s ctx)
    (hv : GoodVals s bv.vals) (h : ifElse ctx bv s = .ok ((ctx', bv'), s')) :
    Spec s s' (GoodCtx s' ctx' ∧ GoodVals s' bv'.vals) := by
  obtain ⟨ctx1, s1, ic, ctx2, hx, hic, hen, rfl⟩ := ifElse_ok h
  obtain ⟨le1, inv1, hP1, gc1, gv1⟩ := exit_inv hinv hP hc hv hx
  obtain ⟨le2, inv2, hP2, gc2⟩ := enter_inv inv1 hP1 gc1 (gc1.icond ic hic) gv1 hen
  exact ⟨le1.trans le2, inv2, hP2, ⟨gc2.bak, gc2.cond, fun i hi => (by cases hi), gc2.nd, gc2.og⟩, gv1.mono le2⟩

theorem ifElif_inv {ctx ctx' : BCtx} {thunk : BV → M Val} {bv bv' : BV} {s s' : St} (hinv : Inv s) (hP : PrimeP s)
    (hc : GoodCtx s ctx) (hv : GoodVals s bv.vals)
    (hth : ∀ bv0 t t' v, Inv t → PrimeP t → GoodVals t bv0.vals → s.le t → thunk bv0 t = .ok (v, t') → Spec t t' (GoodV t' v))
    (h : ifElif ctx thunk bv s = .ok ((ctx', bv'), s')) :
    Spec s s' (GoodCtx s' ctx' ∧ GoodVals s' bv'.vals) := by
  obtain ⟨ctx1, s1, nw, s2, ic, nn, s3, nwic, s4, cc, s5, ctx2, hx, ht, hic, hnn, hnwic, hcc, hen, rfl⟩ := ifElif_ok h
  obtain ⟨le1, inv1, hP1, gc1, gv1⟩ := exit_inv hinv hP hc hv hx
  obtain ⟨le2, inv2, hP2, gnw⟩ := hth _ _ _ _ inv1 hP1 gv1 le1 ht
  simp only [GoodV] at gnw
  obtain ⟨le3, inv3, hP3, gnn⟩ := boolNot_inv inv2 hP2 gnw hnn
  have gic := (gc1.icond ic hic).1.mono (le2.trans le3)
  obtain ⟨le4, inv4, hP4, gnwic⟩ := andBB_inv inv3 hP3 gic gnn.1 hnwic
  obtain ⟨le5, inv5, hP5, gcc⟩ := andBB_inv inv4 hP4 (gic.mono le4) ((gnw.mono le3).mono le4) hcc
  have le25 := ((le2.trans le3).trans le4).trans le5
  obtain ⟨le6, inv6, hP6, gc6⟩ := enter_inv inv5 hP5 (gc1.mono le25) gcc (gv1.mono le25) hen
  exact ⟨(le1.trans le25).trans le6, inv6, hP6,
    ⟨gc6.bak, gc6.cond, fun i hi => by cases hi; exact ⟨(gnwic.1.mono le5).mono le6, gnwic.2⟩, gc6.nd, gc6.og⟩,
    (gv1.mono le25).mono le6⟩


/-! ## conditions are boolean-valued whatever the guard is -/
theorem checkPositive_bool {s s' : St} {x r : LinComb} {bits : Option Nat}
    (h : checkPositive x bits s = .ok (r, s')) : BoolLC r := by
  unfold checkPositive at h
  rw [getSt_bind] at h
  obtain ⟨⟨retv, bitvs⟩, s1, h1, h⟩ := bind_ok.mp h
  dsimp only at h
  obtain ⟨ret, s2, h2, h⟩ := bind_ok.mp h
  obtain ⟨bs, s3, h3, h⟩ := bind_ok.mp h
  obtain ⟨u, s4, h4, h⟩ := bind_ok.mp h
  obtain ⟨rfl, rfl⟩ := pure_ok' h
  obtain ⟨_, v2, hb⟩ := privValBool_val h2
  unfold BoolLC; rw [v2]; exact hb

section
variable {s s' : St} {a : LinComb} {o v : Val}

theorem checkPositiveV_lc_bool {d : LinComb} (h : checkPositiveV (.lc d) s = .ok (v, s')) :
    ∃ r, v = .lcb r ∧ BoolLC r := by
  unfold checkPositiveV at h
  obtain ⟨r, s1, h1, h⟩ := bind_ok.mp h
  obtain ⟨rfl, rfl⟩ := pure_ok' h
  exact ⟨r, rfl, checkPositive_bool h1⟩

theorem cmpLV_int_bool {op : Cmp} (ho : IsIntV o) (h : cmpLV op a o s = .ok (v, s')) :
    ∃ r, v = .lcb r ∧ BoolLC r := by
  unfold cmpLV at h
  cases op <;> simp only at h
  · obtain ⟨d, s1, h1, h⟩ := bind_ok.mp h
    obtain ⟨rfl, d1, rfl, _⟩ := rsubLV_val ho h1
    obtain ⟨d', s2, h2, h⟩ := bind_ok.mp h
    obtain ⟨rfl, d2, rfl, _⟩ := subLV_val (o := .int 1) trivial h2
    exact checkPositiveV_lc_bool h
  · obtain ⟨d, s1, h1, h⟩ := bind_ok.mp h
    obtain ⟨rfl, d1, rfl, _⟩ := rsubLV_val ho h1
    exact checkPositiveV_lc_bool h
  · obtain ⟨d, s1, h1, h⟩ := bind_ok.mp h
    obtain ⟨rfl, d1, rfl, _⟩ := subLV_val ho h1
    obtain ⟨_, r, rfl, vr⟩ := checkZeroV_lc_val h
    exact ⟨r, rfl, by unfold BoolLC; rw [vr]; split <;> simp⟩
  · obtain ⟨d, s1, h1, h⟩ := bind_ok.mp h
    obtain ⟨rfl, d1, rfl, _⟩ := subLV_val ho h1
    obtain ⟨_, r, rfl, vr⟩ := checkNonzeroV_lc_val h
    exact ⟨r, rfl, by unfold BoolLC; rw [vr]; split <;> simp⟩
  · obtain ⟨d, s1, h1, h⟩ := bind_ok.mp h
    obtain ⟨rfl, d1, rfl, _⟩ := subLV_val ho h1
    obtain ⟨d', s2, h2, h⟩ := bind_ok.mp h
    obtain ⟨rfl, d2, rfl, _⟩ := subLV_val (o := .int 1) trivial h2
    exact checkPositiveV_lc_bool h
  · obtain ⟨d, s1, h1, h⟩ := bind_ok.mp h
    obtain ⟨rfl, d1, rfl, _⟩ := subLV_val ho h1
    exact checkPositiveV_lc_bool h

theorem cmpV_int_bool {op : Cmp} {x y : Val} (hx : IsIntV x) (hy : IsIntV y)
    (h : cmpV op x y s = .ok (v, s')) : ∃ r, v = .lcb r ∧ BoolLC r := by
  unfold cmpV at h
  cases x <;> simp only [IsIntV] at hx <;> simp only at h
  · cases y <;> simp only [IsIntV] at hy <;> simp only at h
    · exact (raise_ok.mp h).elim
    · exact cmpLV_int_bool (o := .int _) trivial h
  · exact cmpLV_int_bool hy h
end

/-! ## expressions -/
theorem GoodE.get {s : St} {env : BEnv} (h : GoodE s env) {i : Nat} {o : Obj} (hi : env.inputs[i]? = some o) :
    Good s o.v := h o (List.mem_of_getElem? hi)

theorem evalE_inv {env : BEnv} {bv : BV} : ∀ (e : BExpr) {s s' : St} {v : Val}, Inv s → PrimeP s → GoodE s env →
    GoodVals s bv.vals → evalE env bv e s = .ok (v, s') → Spec s s' (GoodV s' v ∧ IsIntV v)
  | .var x, s, s', v, hinv, hP, _, hv, h => by
    unfold evalE at h
    cases hg : bv.vals.get? x with
    | none => simp only [hg] at h; exact (raise_ok.mp h).elim
    | some o =>
      simp only [hg] at h
      obtain ⟨rfl, rfl⟩ := pure_ok' h
      exact Spec.refl hinv hP ⟨by simpa [GoodV] using hv.get? hg, trivial⟩
  | .inp i, s, s', v, hinv, hP, he, _, h => by
    unfold evalE at h
    cases hg : env.inputs[i]? with
    | none => simp only [hg] at h; exact (raise_ok.mp h).elim
    | some o =>
      simp only [hg] at h
      obtain ⟨rfl, rfl⟩ := pure_ok' h
      exact Spec.refl hinv hP ⟨by simpa [GoodV] using he.get hg, trivial⟩
  | .const c, s, s', v, hinv, hP, _, _, h => by
    unfold evalE at h
    obtain ⟨rfl, rfl⟩ := pure_ok' h
    exact Spec.refl hinv hP ⟨by simp, trivial⟩
  | .loopvar w, s, s', v, hinv, hP, _, _, h => by
    unfold evalE at h
    cases hg : lookupLv env.lvs w with
    | none => simp only [hg] at h; exact (raise_ok.mp h).elim
    | some k =>
      simp only [hg] at h
      obtain ⟨rfl, rfl⟩ := pure_ok' h
      exact Spec.refl hinv hP ⟨by simp, trivial⟩
  | .add a b, s, s', v, hinv, hP, he, hv, h => by
    unfold evalE at h
    obtain ⟨x, s1, h1, h⟩ := bind_ok.mp h
    obtain ⟨y, s2, h2, h⟩ := bind_ok.mp h
    obtain ⟨le1, inv1, hP1, gx, kx⟩ := evalE_inv a hinv hP he hv h1
    obtain ⟨le2, inv2, hP2, gy, ky⟩ := evalE_inv b inv1 hP1 (he.mono le1) (hv.mono le1) h2
    obtain ⟨le3, _, inv3, gr⟩ := addV_spec inv2 (gx.mono le2) gy h
    exact ⟨(le1.trans le2).trans le3, inv3, hP2.mono le3, gr, (addV_int_val kx ky h).2.1⟩
  | .sub a b, s, s', v, hinv, hP, he, hv, h => by
    unfold evalE at h
    obtain ⟨x, s1, h1, h⟩ := bind_ok.mp h
    obtain ⟨y, s2, h2, h⟩ := bind_ok.mp h
    obtain ⟨le1, inv1, hP1, gx, kx⟩ := evalE_inv a hinv hP he hv h1
    obtain ⟨le2, inv2, hP2, gy, ky⟩ := evalE_inv b inv1 hP1 (he.mono le1) (hv.mono le1) h2
    obtain ⟨le3, _, inv3, gr⟩ := subV_spec inv2 (gx.mono le2) gy h
    exact ⟨(le1.trans le2).trans le3, inv3, hP2.mono le3, gr, (subV_int_val kx ky h).2.1⟩
  | .mul a b, s, s', v, hinv, hP, he, hv, h => by
    unfold evalE at h
    obtain ⟨x, s1, h1, h⟩ := bind_ok.mp h
    obtain ⟨y, s2, h2, h⟩ := bind_ok.mp h
    obtain ⟨le1, inv1, hP1, gx, kx⟩ := evalE_inv a hinv hP he hv h1
    obtain ⟨le2, inv2, hP2, gy, ky⟩ := evalE_inv b inv1 hP1 (he.mono le1) (hv.mono le1) h2
    obtain ⟨le3, _, inv3, gr⟩ := mulV_spec inv2 (gx.mono le2) gy h
    exact ⟨(le1.trans le2).trans le3, inv3, hP2.mono le3, gr, (mulV_int_val kx ky h).2.1⟩

theorem evalC_inv {env : BEnv} {bv : BV} {c : BCond} {s s' : St} {v : Val} (hinv : Inv s) (hP : PrimeP s)
    (he : GoodE s env) (hv : GoodVals s bv.vals) (h : evalC env bv c s = .ok (v, s')) :
    Spec s s' (∃ r, v = .lcb r ∧ Good s' r ∧ BoolLC r) := by
  unfold evalC at h
  obtain ⟨x, s1, h1, h⟩ := bind_ok.mp h
  obtain ⟨y, s2, h2, h⟩ := bind_ok.mp h
  obtain ⟨le1, inv1, hP1, gx, kx⟩ := evalE_inv c.lhs hinv hP he hv h1
  obtain ⟨le2, inv2, hP2, gy, ky⟩ := evalE_inv c.rhs inv1 hP1 (he.mono le1) (hv.mono le1) h2
  obtain ⟨le3, _, inv3, gr⟩ := cmpV_spec inv2 hP2 (gx.mono le2) gy h
  obtain ⟨r, rfl, hb⟩ := cmpV_int_bool kx ky h
  exact ⟨(le1.trans le2).trans le3, inv3, hP2.mono le3, r, rfl, by simpa [GoodV] using gr, hb⟩


/-! ## module functions -/
/-- invariant of a run: from `s0` on, more state; tracer invariant; everything reachable coherent -/
structure RunInv (s0 : St) (bs : BSt) (s : St) : Prop where
  le : s0.le s
  inv : Inv s
  prime : PrimeP s
  good : GoodB s bs

theorem RunInv.step {s0 : St} {bs bs' : BSt} {s s' : St} (h : RunInv s0 bs s)
    (hs : Spec s s' (GoodB s' bs')) : RunInv s0 bs' s' :=
  ⟨h.le.trans hs.1, hs.2.1, hs.2.2.1, hs.2.2.2⟩

theorem GoodB.push {s : St} {bs : BSt} {ctx : BCtx} (h : GoodB s bs) (hc : GoodCtx s ctx) :
    GoodB s { bs with stack := ctx :: bs.stack } :=
  ⟨h.vals, fun c hc' => by
    rcases List.mem_cons.mp hc' with rfl | hc'
    · exact hc
    · exact h.stack c hc'⟩

theorem bIf_inv {c : LinComb} {bs bs' : BSt} {s s' : St} (hinv : Inv s) (hP : PrimeP s) (hg : GoodB s bs)
    (hc : Good s c) (h : bIf (.lcb c) bs s = .ok (bs', s')) : Spec s s' (GoodB s' bs') := by
  obtain ⟨c', ctx, hc', hn, rfl⟩ := bIf_ok h
  cases hc'
  have hb : BoolLC c := by
    obtain ⟨ic, s1, og, hnot, _, _⟩ := ifNew_ok hn
    exact (boolNot_val hnot).2.2
  obtain ⟨le1, inv1, hP1, gc⟩ := ifNew_inv hinv hP ⟨hc, hb⟩ hg.vals hn
  exact ⟨le1, inv1, hP1, (hg.mono le1).push gc⟩

theorem bWhilePush_inv {c : LinComb} {bs bs' : BSt} {s s' : St} (hinv : Inv s) (hP : PrimeP s) (hg : GoodB s bs)
    (hc : Good s c ∧ BoolLC c) (h : bWhilePush (.lcb c) bs s = .ok (bs', s')) : Spec s s' (GoodB s' bs') := by
  obtain ⟨c', ctx, hc', hn, rfl⟩ := bWhilePush_ok h
  cases hc'
  obtain ⟨le1, inv1, hP1, gc⟩ := whileNew_inv hinv hP hc hg.vals hn
  exact ⟨le1, inv1, hP1, (hg.mono le1).push gc⟩

theorem GoodB.top {s : St} {bs : BSt} {ctx : BCtx} {rest : List BCtx} (h : GoodB s bs) (hs : bs.stack = ctx :: rest) :
    GoodCtx s ctx ∧ ∀ c ∈ rest, GoodCtx s c := by
  refine ⟨h.stack ctx (by rw [hs]; simp), fun c hc => h.stack c (by rw [hs]; exact List.mem_cons_of_mem _ hc)⟩

theorem GoodB.mk' {s : St} {bv : BV} {ctx : BCtx} {rest : List BCtx} (hv : GoodVals s bv.vals) (hc : GoodCtx s ctx)
    (hr : ∀ c ∈ rest, GoodCtx s c) : GoodB s ⟨bv, ctx :: rest⟩ :=
  ⟨hv, fun c hc' => by
    rcases List.mem_cons.mp hc' with rfl | hc'
    · exact hc
    · exact hr c hc'⟩

theorem bElif_inv {env : BEnv} {c : BCond} {bs bs' : BSt} {s s' : St} (hinv : Inv s) (hP : PrimeP s)
    (he : GoodE s env) (hg : GoodB s bs) (h : bElif (fun bv => evalC env bv c) bs s = .ok (bs', s')) :
    Spec s s' (GoodB s' bs') := by
  obtain ⟨ctx, rest, ctx', bv', hs, _, hel, rfl⟩ := bElif_ok h
  obtain ⟨gc, gr⟩ := hg.top hs
  obtain ⟨le1, inv1, hP1, gc1, gv1⟩ := ifElif_inv hinv hP gc hg.vals
    (fun bv0 t t' v it pt gt lt ht => by
      obtain ⟨a, b, c', r, rfl, gr', _⟩ := evalC_inv it pt (he.mono lt) gt ht
      exact ⟨a, b, c', by simpa [GoodV] using gr'⟩) hel
  exact ⟨le1, inv1, hP1, GoodB.mk' gv1 gc1 (fun c hc => (gr c hc).mono le1)⟩

theorem bElse_inv {bs bs' : BSt} {s s' : St} (hinv : Inv s) (hP : PrimeP s) (hg : GoodB s bs)
    (h : bElse bs s = .ok (bs', s')) : Spec s s' (GoodB s' bs') := by
  obtain ⟨ctx, rest, ctx', bv', hs, _, hel, rfl⟩ := bElse_ok h
  obtain ⟨gc, gr⟩ := hg.top hs
  obtain ⟨le1, inv1, hP1, gc1, gv1⟩ := ifElse_inv hinv hP gc hg.vals hel
  exact ⟨le1, inv1, hP1, GoodB.mk' gv1 gc1 (fun c hc => (gr c hc).mono le1)⟩

theorem bEnd_inv {bs bs' : BSt} {s s' : St} (hinv : Inv s) (hP : PrimeP s) (hg : GoodB s bs)
    (h : bEndif bs s = .ok (bs', s') ∨ bEndwhile bs s = .ok (bs', s')) : Spec s s' (GoodB s' bs') := by
  obtain ⟨ctx, rest, bv', hs, rfl, hcase⟩ := bEnd_ok h
  obtain ⟨gc, gr⟩ := hg.top hs
  rcases hcase with ⟨_, he⟩ | ⟨_, ctx', he⟩
  · obtain ⟨le1, inv1, hP1, gv1⟩ := ifEnd_inv hinv hP gc hg.vals he
    exact ⟨le1, inv1, hP1, ⟨gv1, fun c hc => (gr c hc).mono le1⟩⟩
  · obtain ⟨le1, inv1, hP1, _, gv1⟩ := whileExit_inv hinv hP gc hg.vals he
    exact ⟨le1, inv1, hP1, ⟨gv1, fun c hc => (gr c hc).mono le1⟩⟩

theorem bWhileNext_inv {c : LinComb} {bs bs' : BSt} {s s' : St} (hinv : Inv s) (hP : PrimeP s) (hg : GoodB s bs)
    (hc : Good s c) (h : bWhileNext (.lcb c) bs s = .ok (bs', s')) : Spec s s' (GoodB s' bs') := by
  obtain ⟨ctx, rest, c', ctx', bv', hs, _, hc', hw, rfl⟩ := bWhileNext_ok h
  cases hc'
  obtain ⟨gc, gr⟩ := hg.top hs
  obtain ⟨le1, inv1, hP1, gc1, gv1⟩ := whileNext_inv hinv hP gc hc hg.vals hw
  exact ⟨le1, inv1, hP1, GoodB.mk' gv1 gc1 (fun c hc => (gr c hc).mono le1)⟩

theorem bBreakif_inv {c : LinComb} {bs bs' : BSt} {s s' : St} (hinv : Inv s) (hP : PrimeP s) (hg : GoodB s bs)
    (hc : Good s c) (h : bBreakif (.lcb c) bs s = .ok (bs', s')) : Spec s s' (GoodB s' bs') := by
  obtain ⟨c', nc, s1, hc', hn, hw⟩ := bBreakif_ok h
  cases hc'
  obtain ⟨le1, inv1, hP1, gn, _⟩ := boolNot_inv hinv hP hc hn
  obtain ⟨le2, inv2, hP2, g2⟩ := bWhileNext_inv inv1 hP1 (hg.mono le1) gn hw
  exact ⟨le1.trans le2, inv2, hP2, g2⟩

/-! ## statements -/
theorem bindNew_inv {x : Nat} {v : Val} {bs bs' : BSt} {s s' : St} (hinv : Inv s) (hP : PrimeP s) (hg : GoodB s bs)
    (hv : GoodV s v) (h : bindNew x v bs s = .ok (bs', s')) : Spec s s' (GoodB s' bs') := by
  unfold bindNew at h
  cases v <;> first | exact (raise_ok.mp h).elim | skip
  obtain ⟨rfl, rfl⟩ := pure_ok' h
  exact Spec.refl hinv hP ⟨hg.vals.set x (by simpa [GoodV] using hv), hg.stack⟩

theorem leafObj_good {s : St} {env : BEnv} {bv : BV} {e : BExpr} {o : Obj} (he : GoodE s env) (hv : GoodVals s bv.vals)
    (h : leafObj env bv e = some o) : Good s o.v := by
  cases e <;> simp only [leafObj] at h <;> try (cases h)
  · exact hv.get? h
  · exact he.get h

theorem bindVar_inv {env : BEnv} {x : Nat} {e : BExpr} {v : Val} {bs bs' : BSt} {s s' : St} (hinv : Inv s)
    (hP : PrimeP s) (he : GoodE s env) (hg : GoodB s bs) (hv : GoodV s v)
    (h : bindVar env x e v bs s = .ok (bs', s')) : Spec s s' (GoodB s' bs') := by
  unfold bindVar at h
  cases hl : leafObj env bs.bv e with
  | some o =>
    simp only [hl] at h
    obtain ⟨rfl, rfl⟩ := pure_ok' h
    exact Spec.refl hinv hP ⟨hg.vals.set x (leafObj_good he hg.vals hl), hg.stack⟩
  | none =>
    simp only [hl] at h
    exact bindNew_inv hinv hP hg hv h

theorem guardedE_inv {env : BEnv} {bv : BV} {c : LinComb} {e : BExpr} {v : Val} {s s' : St} (hinv : Inv s)
    (hP : PrimeP s) (he : GoodE s env) (hv : GoodVals s bv.vals) (hc : Good s c ∧ BoolLC c)
    (h : guardedM c (evalE env bv e) s = .ok (v, s')) : Spec s s' (GoodV s' v) := by
  unfold guardedM at h
  obtain ⟨bak, s1, h1, h⟩ := bind_ok.mp h
  obtain ⟨a, s2, h2, h⟩ := bind_ok.mp h
  obtain ⟨u, s3, h3, h⟩ := bind_ok.mp h
  obtain ⟨rfl, rfl⟩ := pure_ok' h
  obtain ⟨le1, inv1, rfl⟩ := addGuard_lcb_inv hinv hc.1 hc.2 h1
  obtain ⟨le2, inv2, hP2, ga, _⟩ := evalE_inv e inv1 (hP.mono le1) (he.mono le1) (hv.mono le1) h2
  obtain ⟨le3, inv3⟩ := restoreGuard_invT inv2 ((TripleOk.of_inv hinv).mono (le1.trans le2)) h3
  exact ⟨(le1.trans le2).trans le3, inv3, hP2.mono le3, ga.mono le3⟩

theorem iteThunks_inv {env : BEnv} {bv : BV} {c : LinComb} {t f : BExpr} {r : Val} {s s' : St} (hinv : Inv s)
    (hP : PrimeP s) (he : GoodE s env) (hv : GoodVals s bv.vals) (hc : Good s c)
    (h : iteThunks c (evalE env bv t) (evalE env bv f) s = .ok (r, s')) : Spec s s' (GoodV s' r) := by
  unfold iteThunks at h
  obtain ⟨tv, s1, h1, h⟩ := bind_ok.mp h
  obtain ⟨nc, s2, h2, h⟩ := bind_ok.mp h
  obtain ⟨fv, s3, h3, h⟩ := bind_ok.mp h
  obtain ⟨d, s4, h4, h⟩ := bind_ok.mp h
  obtain ⟨pr, s5, h5, h⟩ := bind_ok.mp h
  have hb : BoolLC c := (boolNot_val h2).2.2
  obtain ⟨le1, inv1, hP1, gt⟩ := guardedE_inv hinv hP he hv ⟨hc, hb⟩ h1
  obtain ⟨le2, inv2, hP2, gn⟩ := boolNot_inv inv1 hP1 (hc.mono le1) h2
  have le12 := le1.trans le2
  obtain ⟨le3, inv3, hP3, gf⟩ := guardedE_inv inv2 hP2 (he.mono le12) (hv.mono le12) gn h3
  obtain ⟨le4, _, inv4, gd⟩ := subV_spec inv3 ((gt.mono le2).mono le3) gf h4
  have le14 := (le12.trans le3).trans le4
  obtain ⟨le5, _, inv5, gp⟩ := mulLV_spec inv4 (hc.mono le14) gd h5
  obtain ⟨le6, _, inv6, gr⟩ := addV_spec inv5 ((gf.mono le4).mono le5) gp h
  exact ⟨(le14.trans le5).trans le6, inv6, hP3.mono ((le4.trans le5).trans le6), gr⟩

theorem iterM_runInv {s0 : St} {f : Nat → BSt → M BSt}
    (hf : ∀ i b t b' t', RunInv s0 b t → f i b t = .ok (b', t') → RunInv s0 b' t') (n i : Nat) {b b' : BSt}
    {t t' : St} (hp : RunInv s0 b t) (h : iterM n f i b t = .ok (b', t')) : RunInv s0 b' t' :=
  iterM_inv (fun b t => RunInv s0 b t) f hf n i b t b' t' hp h

theorem evalC_runInv {s0 : St} {env : BEnv} (he : GoodE s0 env) {c : BCond} {bs : BSt} {s s' : St} {v : Val}
    (hr : RunInv s0 bs s) (h : evalC env bs.bv c s = .ok (v, s')) :
    RunInv s0 bs s' ∧ ∃ r, v = .lcb r ∧ Good s' r ∧ BoolLC r := by
  obtain ⟨le1, inv1, hP1, hq⟩ := evalC_inv hr.inv hr.prime (he.mono hr.le) hr.good.vals h
  exact ⟨⟨hr.le.trans le1, inv1, hP1, hr.good.mono le1⟩, hq⟩

theorem breakStep_runInv {s0 : St} {env : BEnv} (he : GoodE s0 env) {brk : Option BCond} {bs bs' : BSt} {s s' : St}
    (hr : RunInv s0 bs s) (h : breakStep env brk bs s = .ok (bs', s')) : RunInv s0 bs' s' := by
  unfold breakStep at h
  cases brk with
  | none => obtain ⟨rfl, rfl⟩ := pure_ok' h; exact hr
  | some bc =>
    obtain ⟨v, s1, h1, h2⟩ := bind_ok.mp h
    obtain ⟨hr1, r, rfl, gr, _⟩ := evalC_runInv he hr h1
    exact hr1.step (bBreakif_inv hr1.inv hr1.prime hr1.good gr h2)

theorem whileRound_runInv {s0 : St} {env : BEnv} (he : GoodE s0 env) {body : BSt → M BSt}
    (hbody : ∀ b t b' t', RunInv s0 b t → body b t = .ok (b', t') → RunInv s0 b' t') {c : BCond}
    {brk : Option BCond} {bs bs' : BSt} {s s' : St} (hr : RunInv s0 bs s)
    (h : whileRound env body c brk bs s = .ok (bs', s')) : RunInv s0 bs' s' := by
  unfold whileRound at h
  obtain ⟨b1, t1, h1, h⟩ := bind_ok.mp h
  obtain ⟨b2, t2, h2, h⟩ := bind_ok.mp h
  obtain ⟨cn, t3, h3, h⟩ := bind_ok.mp h
  have r1 := hbody _ _ _ _ hr h1
  have r2 := breakStep_runInv he r1 h2
  obtain ⟨r3, r, rfl, gr, _⟩ := evalC_runInv he r2 h3
  exact r3.step (bWhileNext_inv r3.inv r3.prime r3.good gr h)

theorem neCmp_runInv {s0 : St} {ix : Nat} {st : LinComb} {bs : BSt} {s s' : St} {v : Val} (hr : RunInv s0 bs s)
    (hst : Good s st) (h : cmpV .ne (.int ix) (.lc st) s = .ok (v, s')) :
    RunInv s0 bs s' ∧ ∃ r, v = .lcb r ∧ Good s' r ∧ BoolLC r := by
  obtain ⟨le1, _, inv1, gr⟩ := cmpV_spec hr.inv hr.prime (a := .int ix) (b := .lc st) (by simp) (by simpa [GoodV] using hst) h
  obtain ⟨r, rfl, hb⟩ := cmpV_int_bool (x := .int ix) (y := .lc st) trivial trivial h
  exact ⟨⟨hr.le.trans le1, inv1, hr.prime.mono le1, hr.good.mono le1⟩, r, rfl, by simpa [GoodV] using gr, hb⟩

theorem forRound_runInv {s0 : St} {env : BEnv} {lv : Nat} {st : LinComb} (hst : Good s0 st)
    {body : BEnv → BSt → M BSt}
    (hbody : ∀ env' b t b' t', env'.inputs = env.inputs → RunInv s0 b t → body env' b t = .ok (b', t') → RunInv s0 b' t')
    {ix : Nat} {bs bs' : BSt} {s s' : St} (hr : RunInv s0 bs s)
    (h : forRound env lv (.lc st) body ix bs s = .ok (bs', s')) : RunInv s0 bs' s' := by
  unfold forRound at h
  obtain ⟨c, t1, h1, ha⟩ := bind_ok.mp h
  obtain ⟨b1, t2, h2, h3⟩ := bind_ok.mp ha
  clear h ha
  obtain ⟨r1, r, rfl, gr, _⟩ := neCmp_runInv hr (hst.mono hr.le) h1
  have r2 := r1.step (bWhileNext_inv r1.inv r1.prime r1.good gr h2)
  exact hbody { env with lvs := (lv, (ix : Int)) :: env.lvs } _ _ _ _ rfl r2 h3

mutual
theorem execStmt_runInv : ∀ (st : BStmt) (s0 : St) (env : BEnv) (bs bs' : BSt) (s s' : St), GoodE s0 env →
    RunInv s0 bs s → execStmt env st bs s = .ok (bs', s') → RunInv s0 bs' s'
  | .assign x e, s0, env, bs, bs', s, s', he, hr, h => by
    unfold execStmt at h
    obtain ⟨v, s1, h1, h2⟩ := bind_ok.mp h
    obtain ⟨le1, inv1, hP1, gv, _⟩ := evalE_inv e hr.inv hr.prime (he.mono hr.le) hr.good.vals h1
    have r1 : RunInv s0 bs s1 := ⟨hr.le.trans le1, inv1, hP1, hr.good.mono le1⟩
    exact r1.step (bindVar_inv inv1 hP1 (he.mono r1.le) r1.good gv h2)
  | .ite x c t f, s0, env, bs, bs', s, s', he, hr, h => by
    unfold execStmt at h
    obtain ⟨cv, s1, h1, ha⟩ := bind_ok.mp h
    obtain ⟨cl, s2, h2, hb⟩ := bind_ok.mp ha
    obtain ⟨r, s3, h3, h4⟩ := bind_ok.mp hb
    clear h ha hb
    obtain ⟨r1, rc, hcv, grc, _⟩ := evalC_runInv he hr h1
    subst hcv
    obtain ⟨hcl, rfl⟩ := condLC_ok h2
    cases hcl
    obtain ⟨le3, inv3, hP3, gr⟩ := iteThunks_inv r1.inv r1.prime (he.mono r1.le) r1.good.vals grc h3
    have r3 : RunInv s0 bs s3 := ⟨r1.le.trans le3, inv3, hP3, r1.good.mono le3⟩
    exact r3.step (bindNew_inv inv3 hP3 r3.good gr h4)
  | .ifs c body rest, s0, env, bs, bs', s, s', he, hr, h => by
    unfold execStmt at h
    obtain ⟨cv, s1, h1, ha⟩ := bind_ok.mp h
    obtain ⟨bs1, s2, h2, hb⟩ := bind_ok.mp ha
    obtain ⟨bs2, s3, h3, h4⟩ := bind_ok.mp hb
    clear h ha hb
    obtain ⟨r1, rc, hcv, grc, _⟩ := evalC_runInv he hr h1
    subst hcv
    have r2 := r1.step (bIf_inv r1.inv r1.prime r1.good grc h2)
    have r3 := execBlock_runInv body s0 env bs1 bs2 s2 s3 he r2 h3
    exact execIfRest_runInv rest s0 env bs2 bs' s3 s' he r3 h4
  | .forr lv bound mx body, s0, env, bs, bs', s, s', he, hr, h => by
    unfold execStmt at h
    obtain ⟨stop, s1, h1, ha⟩ := bind_ok.mp h
    clear h
    obtain ⟨le1, inv1, hP1, gst, -⟩ := evalE_inv bound hr.inv hr.prime (he.mono hr.le) hr.good.vals h1
    cases stop <;> first | exact (raise_ok.mp ha).elim | skip
    rename_i st
    dsimp only at ha
    obtain ⟨c0, s2, h2, hb⟩ := bind_ok.mp ha
    obtain ⟨bs1, s3, h3, hc⟩ := bind_ok.mp hb
    obtain ⟨bs2, s4, h4, hd⟩ := bind_ok.mp hc
    obtain ⟨bs3, s5, h5, h6⟩ := bind_ok.mp hd
    clear ha hb hc hd
    have gst' : Good s1 st := by simpa [GoodV] using gst
    -- restart the run at `s1`, where the bound is a coherent value
    have he1 : GoodE s1 env := he.mono (hr.le.trans le1)
    have q0 : RunInv s1 bs s1 := ⟨St.le.refl _, inv1, hP1, hr.good.mono le1⟩
    obtain ⟨q1, r, rfl, gr, hb⟩ := neCmp_runInv (ix := 0) q0 gst' h2
    have q2 := q1.step (bWhilePush_inv q1.inv q1.prime q1.good ⟨gr, hb⟩ h3)
    have q3 := execBlock_runInv body s1 { env with lvs := (lv, 0) :: env.lvs } bs1 bs2 s3 s4 he1 q2 h4
    have q4 : RunInv s1 bs3 s5 := iterM_runInv (fun i b t b' t' hp hs =>
      forRound_runInv (env := env) gst' (fun env' b t b' t' henv hp' hs' =>
        execBlock_runInv body s1 env' b b' t t' (by unfold GoodE; rw [henv]; exact he1) hp' hs') hp hs) _ _ q3 h5
    have q5 := q4.step (bEnd_inv q4.inv q4.prime q4.good (Or.inr h6))
    exact ⟨(hr.le.trans le1).trans q5.le, q5.inv, q5.prime, q5.good⟩
  | .whil c mx body brk, s0, env, bs, bs', s, s', he, hr, h => by
    unfold execStmt at h
    obtain ⟨c0, s1, h1, ha⟩ := bind_ok.mp h
    obtain ⟨bs1, s2, h2, hb⟩ := bind_ok.mp ha
    obtain ⟨bs2, s3, h3, h4⟩ := bind_ok.mp hb
    clear h ha hb
    obtain ⟨r1, rc, hcv, grc, hbc⟩ := evalC_runInv he hr h1
    subst hcv
    have r2 := r1.step (bWhilePush_inv r1.inv r1.prime r1.good ⟨grc, hbc⟩ h2)
    have r3 : RunInv s0 bs2 s3 := iterM_runInv (fun i b t b' t' hp hs =>
      whileRound_runInv he (fun b t b' t' hp' hs' => execBlock_runInv body s0 env b b' t t' he hp' hs') hp hs) _ _ r2 h3
    exact r3.step (bEnd_inv r3.inv r3.prime r3.good (Or.inr h4))

theorem execBlock_runInv : ∀ (b : BBlock) (s0 : St) (env : BEnv) (bs bs' : BSt) (s s' : St), GoodE s0 env →
    RunInv s0 bs s → execBlock env b bs s = .ok (bs', s') → RunInv s0 bs' s'
  | .nil, s0, env, bs, bs', s, s', he, hr, h => by
    unfold execBlock at h
    obtain ⟨rfl, rfl⟩ := pure_ok' h
    exact hr
  | .cons st rest, s0, env, bs, bs', s, s', he, hr, h => by
    unfold execBlock at h
    obtain ⟨bs1, s1, h1, h2⟩ := bind_ok.mp h
    exact execBlock_runInv rest s0 env bs1 bs' s1 s' he (execStmt_runInv st s0 env bs bs1 s s1 he hr h1) h2

theorem execIfRest_runInv : ∀ (r : BIfRest) (s0 : St) (env : BEnv) (bs bs' : BSt) (s s' : St), GoodE s0 env →
    RunInv s0 bs s → execIfRest env r bs s = .ok (bs', s') → RunInv s0 bs' s'
  | .endif, s0, env, bs, bs', s, s', he, hr, h => by
    unfold execIfRest at h
    exact hr.step (bEnd_inv hr.inv hr.prime hr.good (Or.inl h))
  | .els b, s0, env, bs, bs', s, s', he, hr, h => by
    unfold execIfRest at h
    obtain ⟨bs1, s1, h1, ha⟩ := bind_ok.mp h
    obtain ⟨bs2, s2, h2, h3⟩ := bind_ok.mp ha
    have r1 := hr.step (bElse_inv hr.inv hr.prime hr.good h1)
    have r2 := execBlock_runInv b s0 env bs1 bs2 s1 s2 he r1 h2
    exact r2.step (bEnd_inv r2.inv r2.prime r2.good (Or.inl h3))
  | .elif c b rest, s0, env, bs, bs', s, s', he, hr, h => by
    unfold execIfRest at h
    obtain ⟨bs1, s1, h1, ha⟩ := bind_ok.mp h
    obtain ⟨bs2, s2, h2, h3⟩ := bind_ok.mp ha
    have r1 := hr.step (bElif_inv hr.inv hr.prime (he.mono hr.le) hr.good h1)
    have r2 := execBlock_runInv b s0 env bs1 bs2 s1 s2 he r1 h2
    exact execIfRest_runInv rest s0 env bs2 bs' s2 s' he r2 h3
end

/-! ## a complete run -/
theorem setupVars_inv : ∀ (init : List (Nat × Int)) {bv bv' : BV} {s s' : St}, Inv s → PrimeP s → GoodVals s bv.vals →
    setupVars init bv s = .ok (bv', s') → Spec s s' (GoodVals s' bv'.vals ∧ Frame s s')
  | [], bv, bv', s, s', hinv, hP, hv, h => by
    unfold setupVars at h
    obtain ⟨rfl, rfl⟩ := pure_ok' h
    exact Spec.refl hinv hP ⟨hv, Frame.refl _⟩
  | (x, v) :: rest, bv, bv', s, s', hinv, hP, hv, h => by
    unfold setupVars at h
    obtain ⟨l, s1, h1, h2⟩ := bind_ok.mp h
    obtain ⟨le1, f1, inv1, g1, _⟩ := privVal_spec hinv h1
    obtain ⟨le2, inv2, hP2, g2, f2⟩ := setupVars_inv rest inv1 (hP.mono le1) ((hv.mono le1).set x g1) h2
    exact ⟨le1.trans le2, inv2, hP2, g2, f1.trans f2⟩

theorem setupInputs_inv : ∀ (inputs : List Int) {n : Nat} {os : List Obj} {s s' : St}, Inv s → PrimeP s →
    setupInputs inputs n s = .ok (os, s') → Spec s s' ((∀ o ∈ os, Good s' o.v) ∧ Frame s s')
  | [], n, os, s, s', hinv, hP, h => by
    unfold setupInputs at h
    obtain ⟨rfl, rfl⟩ := pure_ok' h
    exact Spec.refl hinv hP ⟨fun o ho => (by cases ho), Frame.refl _⟩
  | v :: rest, n, os, s, s', hinv, hP, h => by
    unfold setupInputs at h
    obtain ⟨l, s1, h1, h⟩ := bind_ok.mp h
    obtain ⟨os', s2, h2, h⟩ := bind_ok.mp h
    obtain ⟨rfl, rfl⟩ := pure_ok' h
    obtain ⟨le1, f1, inv1, g1, _⟩ := privVal_spec hinv h1
    obtain ⟨le2, inv2, hP2, g2, f2⟩ := setupInputs_inv rest inv1 (hP.mono le1) h2
    refine ⟨le1.trans le2, inv2, hP2, ?_, f1.trans f2⟩
    intro o ho
    rcases List.mem_cons.mp ho with rfl | ho
    · exact g1.mono le2
    · exact g2 o ho

/-- every completed run of a structured program keeps the tracer invariant -/
theorem runBlock_inv {init : List (Nat × Int)} {inputs : List Int} {prog : BBlock} {bs : BSt} {s s' : St}
    (hinv : Inv s) (hP : PrimeP s) (h : runBlock init inputs prog s = .ok (bs, s')) :
    s.le s' ∧ Inv s' ∧ GoodB s' bs := by
  unfold runBlock at h
  obtain ⟨bv, s1, h1, h⟩ := bind_ok.mp h
  obtain ⟨inp, s2, h2, h⟩ := bind_ok.mp h
  obtain ⟨le1, inv1, hP1, g1, _⟩ := setupVars_inv init hinv hP (fun kv hkv => by cases hkv) h1
  obtain ⟨le2, inv2, hP2, g2, _⟩ := setupInputs_inv inputs inv1 hP1 h2
  have r := execBlock_runInv prog s2 { inputs := inp } _ bs s2 s' g2
    ⟨St.le.refl _, inv2, hP2, ⟨g1.mono le2, fun c hc => by cases hc⟩⟩ h
  exact ⟨(le1.trans le2).trans r.le, r.inv, r.good⟩

end Pysnark
