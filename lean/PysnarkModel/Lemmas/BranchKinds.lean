import PysnarkModel.Lemmas.BranchUntouched
/-!
# Block branching: a variable that a statement does not assign keeps its TYPES

A tracked variable that a statement does not assign comes out of it with the kinds it went in with:
secret integers stay `LinComb`s, booleans stay `LinCombBool`s, fixed-point numbers stay
`LinCombFxp`s, lists element-wise — whatever the conditions are and whichever way the guards go.
The merge at a block exit selects between the variable and its snapshot, two values of the same
kinds; `if_then_else` returns that kind (for two booleans since the repair of finding
C09-boolean-demoted: `LinCombBool(ret, False)`).  So a tracked boolean can be used as the condition of
a later block (`condVar_after`).
-/
namespace Pysnark

namespace PTree
variable {α β γ : Type}

theorem map_map (f : α → β) (g : β → γ) (t : PTree α) : (t.map f).map g = t.map (g ∘ f) := by
  induction t using PTree.rec (motive_2 := fun ts => (ts.map (PTree.map f)).map (PTree.map g) = ts.map (PTree.map (g ∘ f))) with
  | leaf a => simp only [map_leaf, Function.comp]
  | node ts ih => simp only [map_node, ih]
  | nil => rfl
  | cons t ts iht ihts => simp only [List.map_cons, iht, ihts]

theorem all_map (f : α → β) (p : β → Bool) (t : PTree α) : (t.map f).all p = t.all (p ∘ f) := by
  induction t using PTree.rec (motive_2 := fun ts => (ts.map (PTree.map f)).all (PTree.all p) = ts.all (PTree.all (p ∘ f))) with
  | leaf a => simp only [map_leaf, all_leaf, Function.comp]
  | node ts ih => simp only [map_node, all_node, ih]
  | nil => rfl
  | cons t ts iht ihts => simp only [List.map_cons, List.all_cons, iht, ihts]
end PTree

/-! ## kinds of scalars and values -/
theorem SVal.kind_dcopy (o : SVal) : o.dcopy.kind = o.kind := by
  cases o with
  | pub c => rfl
  | sc k l id => cases k <;> rfl

theorem TVal.kinds_dcopy (t : TVal) : t.dcopy.kinds = t.kinds := by
  unfold TVal.dcopy TVal.kinds
  rw [PTree.map_map]
  congr 1
  funext o
  exact SVal.kind_dcopy o

/-- a value of secrets: every scalar has one of the library's types -/
def KTree.sec (k : KTree) : Bool := k.all Option.isSome

theorem TVal.isSecret_kinds (t : TVal) : t.isSecret = t.kinds.sec := by
  unfold TVal.isSecret TVal.kinds KTree.sec
  rw [PTree.all_map]
  congr 1
  funext o
  cases o <;> rfl

theorem Vals.kindOf_isSome (vs : Vals) (x : Nat) : (vs.kindOf x).isSome = vs.has x := by
  unfold Vals.kindOf Vals.has
  cases vs.get? x <;> rfl

theorem Vals.kindOf_backup (vs : Vals) (x : Nat) : vs.backup.kindOf x = vs.kindOf x := by
  unfold Vals.kindOf
  rw [Vals.get?_backup]
  cases vs.get? x with
  | none => rfl
  | some t => simp only [Option.map_some, TVal.kinds_dcopy]

/-! ## the scalar arm of `if_then_else` keeps the common kind of its branches -/
theorem iteScalar_lc {c x y : LinComb} {v : Val} {s s' : St} (h : iteScalar c (.lc x) (.lc y) s = .ok (v, s')) :
    ∃ z, v = .lc z := by
  unfold iteScalar at h
  obtain ⟨f', s1, h1, h⟩ := bind_ok.mp h
  simp only [coerceF] at h1
  obtain ⟨rfl, rfl⟩ := pure_ok' h1
  obtain ⟨d, s2, h2, h⟩ := bind_ok.mp h
  unfold subV at h2
  obtain ⟨nb, s3, h3, h2⟩ := bind_ok.mp h2
  unfold negV at h3
  obtain ⟨rfl, rfl⟩ := pure_ok' h3
  unfold addV addLV at h2
  obtain ⟨rfl, rfl⟩ := pure_ok' h2
  obtain ⟨pr, s4, h4, h⟩ := bind_ok.mp h
  unfold mulLV at h4
  obtain ⟨z, s5, h5, h4⟩ := bind_ok.mp h4
  obtain ⟨rfl, rfl⟩ := pure_ok' h4
  obtain ⟨ret, s6, h6, h⟩ := bind_ok.mp h
  unfold addV addLV at h6
  obtain ⟨rfl, rfl⟩ := pure_ok' h6
  rw [iteTag_other _ rfl] at h
  obtain ⟨rfl, rfl⟩ := pure_ok' h
  exact ⟨_, rfl⟩

theorem iteScalar_fxp {c x y : LinComb} {v : Val} {s s' : St} (h : iteScalar c (.fxp x) (.fxp y) s = .ok (v, s')) :
    ∃ z, v = .fxp z := by
  unfold iteScalar at h
  obtain ⟨f', s1, h1, h⟩ := bind_ok.mp h
  simp only [coerceF] at h1
  obtain ⟨y', s0, h0, h1⟩ := bind_ok.mp h1
  obtain ⟨rfl, rfl⟩ := pure_ok' h1
  obtain ⟨d, s2, h2, h⟩ := bind_ok.mp h
  unfold subV at h2
  obtain ⟨nb, s3, h3, h2⟩ := bind_ok.mp h2
  unfold negV at h3
  obtain ⟨rfl, rfl⟩ := pure_ok' h3
  unfold addV addXV at h2
  obtain ⟨r, s7, h7, h2⟩ := bind_ok.mp h2
  obtain ⟨rfl, rfl⟩ := pure_ok' h2
  obtain ⟨pr, s4, h4, h⟩ := bind_ok.mp h
  unfold mulLV at h4
  obtain ⟨z, s5, h5, h4⟩ := bind_ok.mp h4
  obtain ⟨rfl, rfl⟩ := pure_ok' h4
  obtain ⟨ret, s6, h6, h⟩ := bind_ok.mp h
  unfold addV addXV at h6
  obtain ⟨r', s8, h8, h6⟩ := bind_ok.mp h6
  obtain ⟨rfl, rfl⟩ := pure_ok' h6
  rw [iteTag_other _ rfl] at h
  obtain ⟨rfl, rfl⟩ := pure_ok' h
  exact ⟨_, rfl⟩

/-- two booleans: a boolean (the repaired behaviour) -/
theorem iteScalar_lcb {c x y : LinComb} {v : Val} {s s' : St} (h : iteScalar c (.lcb x) (.lcb y) s = .ok (v, s')) :
    ∃ z, v = .lcb z := by
  rw [iteScalar_bb] at h
  obtain ⟨pr, _, _, _, rfl, _⟩ := iteBB_ok h
  exact ⟨_, rfl⟩

theorem mergeS_kind {c : LinComb} {t f r : SVal} {n n' : Nat} {s s' : St} (hs : t.isSecret = true)
    (hk : f.kind = t.kind) (h : mergeS c t f n s = .ok ((r, n'), s')) : r.kind = t.kind := by
  rcases mergeS_ok h with ⟨_, _, rfl, _, _⟩ | ⟨_, v, hv, ho, _⟩
  · rfl
  · cases t with
    | pub c => cases hs
    | sc k l id =>
      cases f with
      | pub c => cases hk
      | sc k' l' id' =>
        simp only [SVal.kind, Option.some.injEq] at hk
        subst hk
        cases k' with
        | int =>
          obtain ⟨z, rfl⟩ := iteScalar_lc hv
          simp only [SVal.ofVal, Option.some.injEq] at ho
          subst ho; rfl
        | bool =>
          obtain ⟨z, rfl⟩ := iteScalar_lcb hv
          simp only [SVal.ofVal, Option.some.injEq] at ho
          subst ho; rfl
        | fxp =>
          obtain ⟨z, rfl⟩ := iteScalar_fxp hv
          simp only [SVal.ofVal, Option.some.injEq] at ho
          subst ho; rfl

mutual
/-- merging two values of the same kinds gives a value of these kinds -/
theorem mergeT_kinds {c : LinComb} : ∀ {t f r : TVal} {n n' : Nat} {s s' : St}, t.isSecret = true →
    f.kinds = t.kinds → mergeT c t f n s = .ok ((r, n'), s') → r.kinds = t.kinds
  | .leaf a, .leaf b, r, n, n', s, s', hs, hk, h => by
    obtain ⟨o, ho, rfl⟩ := mergeT_leaf_ok h
    simp only [TVal.isSecret, PTree.all_leaf] at hs
    simp only [TVal.kinds, PTree.map_leaf, PTree.leaf.injEq] at hk ⊢
    exact mergeS_kind hs hk ho
  | .node ts, .node fs, r, n, n', s, s', hs, hk, h => by
    obtain ⟨rs, hrs, rfl⟩ := mergeT_node_ok h
    simp only [TVal.isSecret, PTree.all_node] at hs
    simp only [TVal.kinds, PTree.map_node, PTree.node.injEq] at hk ⊢
    exact mergeTL_kinds hs hk hrs
  | .node ts, .leaf b, r, n, n', s, s', _, _, h => by unfold mergeT at h; exact (raise_ok.mp h).elim
  | .leaf a, .node fs, r, n, n', s, s', _, _, h => by unfold mergeT at h; exact (raise_ok.mp h).elim
theorem mergeTL_kinds {c : LinComb} : ∀ {ts fs rs : List TVal} {n n' : Nat} {s s' : St},
    ts.all (PTree.all SVal.isSecret) = true → fs.map (PTree.map SVal.kind) = ts.map (PTree.map SVal.kind) →
    mergeTL c ts fs n s = .ok ((rs, n'), s') → rs.map (PTree.map SVal.kind) = ts.map (PTree.map SVal.kind)
  | [], [], rs, n, n', s, s', _, _, h => by
    obtain ⟨rfl, _, _⟩ := mergeTL_nil_ok h
    rfl
  | t :: ts, f :: fs, rs, n, n', s, s', hs, hk, h => by
    obtain ⟨r, n1, s1, rs', h1, h2, rfl⟩ := mergeTL_cons_ok h
    simp only [List.all_cons, Bool.and_eq_true] at hs
    simp only [List.map_cons, List.cons.injEq] at hk ⊢
    exact ⟨mergeT_kinds (t := t) hs.1 hk.1 h1, mergeTL_kinds hs.2 hk.2 h2⟩
  | [], _ :: _, rs, n, n', s, s', _, hk, _ => by simp at hk
  | _ :: _, [], rs, n, n', s, s', _, hk, _ => by simp at hk
end

theorem mergeBak_kinds {c : LinComb} {bak : Vals} {x : Nat} : ∀ {vals rs : Vals} {n n' : Nat} {s s' : St},
    mergeBak c bak vals n s = .ok ((rs, n'), s') → bak.kindOf x = vals.kindOf x →
    (∀ t, vals.get? x = some t → t.isSecret = true) → rs.kindOf x = vals.kindOf x
  | [], rs, n, n', s, s', h, _, _ => by
    unfold mergeBak at h
    obtain ⟨h1, _⟩ := pure_ok' h
    simp only [Prod.mk.injEq] at h1
    rw [← h1.1]
  | (y, t) :: rest, rs, n, n', s, s', h, hx, hst => by
    obtain ⟨f, r, n1, s1, rs', hf, hm, h3, rfl⟩ := mergeBak_cons_ok h
    by_cases hy : y = x
    · subst hy
      simp only [Vals.kindOf, Vals.get?, if_true, Option.map_some, Option.some.injEq] at hx hst ⊢
      rw [hf] at hx
      simp only [Option.map_some, Option.some.injEq] at hx
      exact mergeT_kinds (hst t rfl) hx hm
    · simp only [Vals.kindOf, Vals.get?, hy, if_false] at hx hst ⊢
      exact mergeBak_kinds h3 hx hst

/-! ## the chain of open contexts -/

/-- the variable `x` has the kinds `o` (or is unbound), had them at the last `enter`, is not among
the names first bound inside the statement, and holds secrets -/
structure ChainK (x : Nat) (o : Option KTree) (ctx : BCtx) (vals : Vals) : Prop where
  vals : vals.kindOf x = o
  bak : ctx.bak.kindOf x = o
  nd : ∀ nd, ctx.nodefvals = some nd → nd.has x = false
  sec : ∀ k, o = some k → k.sec = true

theorem sec_of_kindOf {vals : Vals} {x : Nat} {o : Option KTree} (hv : vals.kindOf x = o)
    (hs : ∀ k, o = some k → k.sec = true) : ∀ t, vals.get? x = some t → t.isSecret = true := by
  intro t ht
  rw [TVal.isSecret_kinds]
  apply hs
  rw [← hv]
  simp only [Vals.kindOf, ht, Option.map_some]

/-- a variable that holds secrets: its kinds are all types of the library -/
theorem kindOf_sec {vals : Vals} {x : Nat} (hs : ∀ t, vals.get? x = some t → t.isSecret = true) :
    ∀ k, vals.kindOf x = some k → k.sec = true := by
  intro k hk
  unfold Vals.kindOf at hk
  cases hg : vals.get? x with
  | none => simp [hg] at hk
  | some t =>
    simp only [hg, Option.map_some, Option.some.injEq] at hk
    rw [← hk, ← TVal.isSecret_kinds]
    exact hs t hg

theorem ChainK.exit {x : Nat} {o : Option KTree} {ctx ctx' : BCtx} {bv bv' : BV} {s s' : St}
    (hd : ChainK x o ctx bv.vals) (h : ctx.exit bv s = .ok ((ctx', bv'), s')) :
    bv'.vals.kindOf x = o ∧ ∀ nd, ctx'.nodefvals = some nd → nd.has x = false := by
  obtain ⟨s1, nd, n1, s2, vals, n2, _, hnd, hb, rfl, rfl⟩ := exit_ok h
  have hndx : nd.has x = false := by
    rcases hnd with ⟨_, rfl, _, _⟩ | ⟨nd0, hn0, hm⟩
    · rw [has_filter_bak, ← Vals.kindOf_isSome, ← Vals.kindOf_isSome, hd.vals, hd.bak]
      cases o <;> rfl
    · rw [mergeNodef_has hm x]; exact hd.nd nd0 hn0
  refine ⟨?_, fun nd' hn' => by cases hn'; exact hndx⟩
  have hget : (bv.vals.removeAll nd).get? x = bv.vals.get? x := by
    rw [Vals.get?_removeAll, hndx]; rfl
  have hrm : (bv.vals.removeAll nd).kindOf x = o := by
    unfold Vals.kindOf; rw [hget]; exact hd.vals
  rw [mergeBak_kinds hb (by rw [hrm, hd.bak]) (by rw [hget]; exact sec_of_kindOf hd.vals hd.sec), hrm]

theorem ChainK.enter {x : Nat} {o : Option KTree} {ctx ctx' : BCtx} {c : LinComb} {bv : BV} {s s' : St}
    (hv : bv.vals.kindOf x = o) (hn : ∀ nd, ctx.nodefvals = some nd → nd.has x = false)
    (hst : ∀ k, o = some k → k.sec = true)
    (h : ctx.enter c bv s = .ok (ctx', s')) : ChainK x o ctx' bv.vals := by
  obtain ⟨_, hb, _, _, hnd⟩ := enter_struct h
  refine ⟨hv, ?_, fun nd h' => hn nd (hnd ▸ h'), hst⟩
  rw [hb, Vals.kindOf_backup, hv]

def TopK (x : Nat) (o : Option KTree) (stk : List BCtx) (bs : BSt) : Prop :=
  ∃ ctx, bs.stack = ctx :: stk ∧ ChainK x o ctx bs.bv.vals

theorem TopK.whileNext {x : Nat} {o : Option KTree} {stk : List BCtx} {bs bs' : BSt} {cond : Val} {s s' : St}
    (hd : TopK x o stk bs) (h : bWhileNext cond bs s = .ok (bs', s')) : TopK x o stk bs' := by
  obtain ⟨ctx0, hs0, hc⟩ := hd
  obtain ⟨ctx, rest, c, ctx', bv', hs, _, _, hw, rfl⟩ := bWhileNext_ok h
  rw [hs0] at hs; cases hs
  obtain ⟨ctx1, s1, c1, s2, he, _, hen⟩ := whileNext_ok hw
  obtain ⟨hx, _⟩ := whileExit_ok he
  obtain ⟨hv, hn⟩ := hc.exit hx
  exact ⟨ctx', rfl, ChainK.enter hv hn hc.sec hen⟩

theorem TopK.breakStep {x : Nat} {o : Option KTree} {stk : List BCtx} {env : BEnv} {brk : Option BCond}
    {bs bs' : BSt} {s s' : St} (hd : TopK x o stk bs) (h : breakStep env brk bs s = .ok (bs', s')) :
    TopK x o stk bs' := by
  unfold Pysnark.breakStep at h
  cases brk with
  | none =>
    obtain ⟨rfl, rfl⟩ := pure_ok' h
    exact hd
  | some bc =>
    obtain ⟨bcv, t4, _, h⟩ := bind_ok.mp h
    obtain ⟨cb, nc, t5, _, _, h⟩ := bBreakif_ok h
    exact hd.whileNext h

theorem TopK.end_ {x : Nat} {o : Option KTree} {stk : List BCtx} {bs bs' : BSt} {s s' : St}
    (hd : TopK x o stk bs) (h : bEndif bs s = .ok (bs', s') ∨ bEndwhile bs s = .ok (bs', s')) :
    bs'.bv.vals.kindOf x = o := by
  obtain ⟨ctx0, hs0, hc⟩ := hd
  obtain ⟨ctx, rest, bv', hs, rfl, hcase⟩ := bEnd_ok h
  rw [hs0] at hs; cases hs
  rcases hcase with ⟨_, he⟩ | ⟨_, ctx', he⟩
  · obtain ⟨ctx1, bv1, hx, _, rfl⟩ := ifEnd_ok he
    obtain ⟨hv, hn⟩ := hc.exit hx
    obtain ⟨_, _, _, _, _, nd, hnd, _⟩ := exit_struct hx
    simp only [hnd, Option.getD_some]
    unfold Vals.kindOf
    rw [Vals.get?_setAll, hn nd hnd]
    exact hv
  · obtain ⟨hx, _⟩ := whileExit_ok he
    exact (hc.exit hx).1

theorem TopK.push {x : Nat} {bs bs' : BSt} {cond : Val} {s s' : St}
    (hst : ∀ k, bs.bv.vals.kindOf x = some k → k.sec = true)
    (h : bIf cond bs s = .ok (bs', s') ∨ bWhilePush cond bs s = .ok (bs', s')) :
    TopK x (bs.bv.vals.kindOf x) bs.stack bs' := by
  rcases h with h | h
  · obtain ⟨c, ctx, _, hn, rfl⟩ := bIf_ok h
    obtain ⟨ic, s1, og, _, _, rfl⟩ := ifNew_ok hn
    exact ⟨_, rfl, ⟨rfl, Vals.kindOf_backup _ _, (fun nd h' => by cases h'), hst⟩⟩
  · obtain ⟨c, ctx, _, hn, rfl⟩ := bWhilePush_ok h
    obtain ⟨og, _, rfl⟩ := whileNew_ok hn
    exact ⟨_, rfl, ⟨rfl, Vals.kindOf_backup _ _, (fun nd h' => by cases h'), hst⟩⟩

theorem bindT_kinds {x y : Nat} {t : TVal} {n : Nat} {bs bs' : BSt} {s s' : St} (hxy : (y == x) = false)
    (h : bindT y t n bs s = .ok (bs', s')) : bs'.bv.vals.kindOf x = bs.bv.vals.kindOf x := by
  unfold Vals.kindOf
  rw [bindT_untouched hxy h]

/-! ## statements -/
mutual
theorem execStmt_kinds : ∀ (st : BStmt) (x : Nat) (env : BEnv) (bs bs' : BSt) (s s' : St),
    st.assigns x = false → (∀ k, bs.bv.vals.kindOf x = some k → k.sec = true) →
    execStmt env st bs s = .ok (bs', s') → bs'.bv.vals.kindOf x = bs.bv.vals.kindOf x
  | .assign y e, x, env, bs, bs', s, s', hx, _, h => by
    unfold execStmt at h
    obtain ⟨⟨t, n⟩, s1, _, h2⟩ := bind_ok.mp h
    exact bindT_kinds (by simpa [BStmt.assigns] using hx) h2
  | .setitem y path e, x, env, bs, bs', s, s', hx, _, h => by
    unfold execStmt at h
    obtain ⟨⟨t, n⟩, s1, _, h2⟩ := bind_ok.mp h
    dsimp only at h2
    cases hg : bs.bv.vals.get? y with
    | none => simp only [hg] at h2; exact (raise_ok.mp h2).elim
    | some old =>
      simp only [hg] at h2
      cases hs : old.set path t with
      | none => simp only [hs] at h2; exact (raise_ok.mp h2).elim
      | some new =>
        simp only [hs] at h2
        exact bindT_kinds (by simpa [BStmt.assigns] using hx) h2
  | .sel y c t f, x, env, bs, bs', s, s', hx, _, h => by
    unfold execStmt at h
    obtain ⟨cv, s1, _, h⟩ := bind_ok.mp h
    obtain ⟨⟨tv, n1⟩, s2, _, h⟩ := bind_ok.mp h
    obtain ⟨⟨fv, n2⟩, s3, _, h⟩ := bind_ok.mp h
    obtain ⟨cl, s4, _, h⟩ := bind_ok.mp h
    obtain ⟨⟨r, n3⟩, s5, _, h⟩ := bind_ok.mp h
    exact bindT_kinds (by simpa [BStmt.assigns] using hx) h
  | .ite y c t f, x, env, bs, bs', s, s', hx, _, h => by
    unfold execStmt at h
    obtain ⟨cv, s1, _, h⟩ := bind_ok.mp h
    obtain ⟨cl, s2, _, h⟩ := bind_ok.mp h
    obtain ⟨⟨r, n3⟩, s3, _, h⟩ := bind_ok.mp h
    exact bindT_kinds (by simpa [BStmt.assigns] using hx) h
  | .ifs c body rest, x, env, bs, bs', s, s', hx, hstab, h => by
    unfold execStmt at h
    simp only [BStmt.assigns, Bool.or_eq_false_iff] at hx
    obtain ⟨cv, s1, _, h⟩ := bind_ok.mp h
    obtain ⟨bs1, s2, h1, h⟩ := bind_ok.mp h
    obtain ⟨bs2, s3, h2, h⟩ := bind_ok.mp h
    obtain ⟨ctx, hs1, hc⟩ := TopK.push (x := x) hstab (Or.inl h1)
    obtain ⟨⟨hst, _⟩, _⟩ := execBlock_struct body env bs1 bs2 s2 s3 h2
    have hb := execBlock_kinds body x env bs1 bs2 s2 s3 hx.1 (by rw [hc.vals]; exact hstab) h2
    have htop : TopK x (bs.bv.vals.kindOf x) bs.stack bs2 := ⟨ctx, by rw [hst, hs1], ⟨hb.trans hc.vals, hc.bak, hc.nd, hc.sec⟩⟩
    exact execIfRest_kinds rest x env bs2 bs' s3 s' _ _ hx.2 htop h
  | .forr lv bound mx body, x, env, bs, bs', s, s', hx, hstab, h => by
    unfold execStmt at h
    simp only [BStmt.assigns] at hx
    obtain ⟨stop, s1, _, h⟩ := bind_ok.mp h
    cases stop <;> first | exact (raise_ok.mp h).elim | skip
    dsimp only at h
    obtain ⟨c0, s2, _, h⟩ := bind_ok.mp h
    obtain ⟨bs1, s3, h1, h⟩ := bind_ok.mp h
    obtain ⟨bs2, s4, h2, h⟩ := bind_ok.mp h
    obtain ⟨bs3, s5, h3, h⟩ := bind_ok.mp h
    obtain ⟨ctx, hs1, hc⟩ := TopK.push (x := x) hstab (Or.inr h1)
    obtain ⟨⟨hst, _⟩, _⟩ := execBlock_struct body _ bs1 bs2 s3 s4 h2
    have hb := execBlock_kinds body x _ bs1 bs2 s3 s4 hx (by rw [hc.vals]; exact hstab) h2
    have htop : TopK x (bs.bv.vals.kindOf x) bs.stack bs2 := ⟨ctx, by rw [hst, hs1], ⟨hb.trans hc.vals, hc.bak, hc.nd, hc.sec⟩⟩
    have htop3 : TopK x (bs.bv.vals.kindOf x) bs.stack bs3 := by
      refine iterM_inv (fun b _ => TopK x (bs.bv.vals.kindOf x) bs.stack b) _ ?_ _ _ _ _ _ _ htop h3
      intro i b t b' t' hp hstep
      unfold forRound at hstep
      obtain ⟨cc, t1, _, hstep⟩ := bind_ok.mp hstep
      obtain ⟨b1, t2, hw, hstep⟩ := bind_ok.mp hstep
      obtain ⟨ctx1, hs', hc'⟩ := hp.whileNext hw
      obtain ⟨⟨hst', _⟩, _⟩ := execBlock_struct body _ b1 b' t2 t' hstep
      have hb' := execBlock_kinds body x _ b1 b' t2 t' hx (by rw [hc'.vals]; exact hstab) hstep
      exact ⟨ctx1, by rw [hst', hs'], ⟨hb'.trans hc'.vals, hc'.bak, hc'.nd, hc'.sec⟩⟩
    exact htop3.end_ (Or.inr h)
  | .whil c mx body brk, x, env, bs, bs', s, s', hx, hstab, h => by
    unfold execStmt at h
    simp only [BStmt.assigns] at hx
    obtain ⟨c0, s1, _, h⟩ := bind_ok.mp h
    obtain ⟨bs1, s2, h1, h⟩ := bind_ok.mp h
    obtain ⟨bs2, s3, h2, h⟩ := bind_ok.mp h
    have htop := TopK.push (x := x) hstab (Or.inr h1)
    have htop2 : TopK x (bs.bv.vals.kindOf x) bs.stack bs2 := by
      refine iterM_inv (fun b _ => TopK x (bs.bv.vals.kindOf x) bs.stack b) _ ?_ _ _ _ _ _ _ htop h2
      intro i b t b' t' hp hstep
      unfold whileRound at hstep
      obtain ⟨b1, t1, hb, hstep⟩ := bind_ok.mp hstep
      obtain ⟨b2, t2, hbr, hstep⟩ := bind_ok.mp hstep
      obtain ⟨cn, t3, _, hstep⟩ := bind_ok.mp hstep
      obtain ⟨ctx1, hs', hc'⟩ := hp
      obtain ⟨⟨hst', _⟩, _⟩ := execBlock_struct body env b b1 t t1 hb
      have hb' := execBlock_kinds body x env b b1 t t1 hx (by rw [hc'.vals]; exact hstab) hb
      have hp1 : TopK x (bs.bv.vals.kindOf x) bs.stack b1 := ⟨ctx1, by rw [hst', hs'], ⟨hb'.trans hc'.vals, hc'.bak, hc'.nd, hc'.sec⟩⟩
      exact (hp1.breakStep hbr).whileNext hstep
    exact htop2.end_ (Or.inr h)

theorem execBlock_kinds : ∀ (b : BBlock) (x : Nat) (env : BEnv) (bs bs' : BSt) (s s' : St),
    b.assigns x = false → (∀ k, bs.bv.vals.kindOf x = some k → k.sec = true) →
    execBlock env b bs s = .ok (bs', s') → bs'.bv.vals.kindOf x = bs.bv.vals.kindOf x
  | .nil, x, env, bs, bs', s, s', _, _, h => by
    unfold execBlock at h
    obtain ⟨rfl, rfl⟩ := pure_ok' h
    rfl
  | .cons st rest, x, env, bs, bs', s, s', hx, hstab, h => by
    unfold execBlock at h
    simp only [BBlock.assigns, Bool.or_eq_false_iff] at hx
    obtain ⟨bs1, s1, h1, h2⟩ := bind_ok.mp h
    have e1 := execStmt_kinds st x env bs bs1 s s1 hx.1 hstab h1
    rw [execBlock_kinds rest x env bs1 bs' s1 s' hx.2 (by rw [e1]; exact hstab) h2, e1]

theorem execIfRest_kinds : ∀ (rest : BIfRest) (x : Nat) (env : BEnv) (bs bs' : BSt) (s s' : St)
    (o : Option KTree) (stk : List BCtx), rest.assigns x = false → TopK x o stk bs →
    execIfRest env rest bs s = .ok (bs', s') → bs'.bv.vals.kindOf x = o
  | .endif, x, env, bs, bs', s, s', o, stk, _, hd, h => by
    unfold execIfRest at h
    exact hd.end_ (Or.inl h)
  | .els b, x, env, bs, bs', s, s', o, stk, hx, hd, h => by
    unfold execIfRest at h
    simp only [BIfRest.assigns] at hx
    obtain ⟨bs1, s1, h1, h3⟩ := bind_ok.mp h
    obtain ⟨bs2, s2, h2, h4⟩ := bind_ok.mp h3
    clear h h3
    obtain ⟨ctx0, hs0, hc⟩ := hd
    obtain ⟨ctx, rest, ctx', bv', hs, _, he, rfl⟩ := bElse_ok h1
    rw [hs0] at hs; cases hs
    obtain ⟨ctx1, t1, ic, ctx2, hx', _, hen, rfl⟩ := ifElse_ok he
    obtain ⟨hv, hn⟩ := hc.exit hx'
    have hc2 := ChainK.enter hv hn hc.sec hen
    obtain ⟨⟨hst, _⟩, _⟩ := execBlock_struct b env _ bs2 s1 s2 h2
    have hb := execBlock_kinds b x env _ bs2 s1 s2 hx (by rw [hc2.vals]; exact hc.sec) h2
    have htop : TopK x o stk bs2 := ⟨_, hst, ⟨hb.trans hc2.vals, hc2.bak, hc2.nd, hc2.sec⟩⟩
    exact htop.end_ (Or.inl h4)
  | .elif c b rest, x, env, bs, bs', s, s', o, stk, hx, hd, h => by
    unfold execIfRest at h
    simp only [BIfRest.assigns, Bool.or_eq_false_iff] at hx
    obtain ⟨bs1, s1, h1, h3⟩ := bind_ok.mp h
    obtain ⟨bs2, s2, h2, h4⟩ := bind_ok.mp h3
    clear h h3
    obtain ⟨ctx0, hs0, hc⟩ := hd
    obtain ⟨ctx, rest', ctx', bv', hs, _, he, rfl⟩ := bElif_ok h1
    rw [hs0] at hs; cases hs
    obtain ⟨ctx1, t1, nw, t2, ic, nn, t3, nwic, t4, cc, t5, ctx2, hx', _, _, _, _, _, hen, rfl⟩ := ifElif_ok he
    obtain ⟨hv, hn⟩ := hc.exit hx'
    have hc2 := ChainK.enter hv hn hc.sec hen
    obtain ⟨⟨hst, _⟩, _⟩ := execBlock_struct b env _ bs2 s1 s2 h2
    have hb := execBlock_kinds b x env _ bs2 s1 s2 hx.1 (by rw [hc2.vals]; exact hc.sec) h2
    have htop : TopK x o stk bs2 := ⟨_, hst, ⟨hb.trans hc2.vals, hc2.bak, hc2.nd, hc2.sec⟩⟩
    exact execIfRest_kinds rest x env bs2 bs' s2 s' o stk hx.2 htop h4
end

/-- a tracked boolean is a value `_if` / `_while` / `if_then_else` accept as a condition -/
theorem evalC_var_bool {env : BEnv} {bv : BV} {x : Nat} (s : St)
    (h : bv.vals.kindOf x = some (.leaf (some .bool))) :
    ∃ l, evalC env bv (.var x) s = .ok (.lcb l, s) ∧ condLC (.lcb l) s = .ok (l, s) := by
  unfold Vals.kindOf at h
  cases hg : bv.vals.get? x with
  | none => simp [hg] at h
  | some t =>
    simp only [hg, Option.map_some, Option.some.injEq] at h
    obtain ⟨o, rfl, ho⟩ := PTree.map_leaf_inv h
    cases o with
    | pub c => cases ho
    | sc k l id =>
      simp only [SVal.kind, Option.some.injEq] at ho
      subst ho
      refine ⟨l, ?_, rfl⟩
      unfold evalC evalE
      simp only [hg]
      rfl

/-! ## the initial bindings -/
theorem setupLeaf_kind {a : ILeaf} {n n' : Nat} {o : SVal} {s s' : St}
    (h : setupLeaf a n s = .ok ((o, n'), s')) : o.kind = some a.kind := by
  cases a with
  | int v =>
    unfold setupLeaf at h
    obtain ⟨l, s1, _, h⟩ := bind_ok.mp h
    obtain ⟨h1, _⟩ := pure_ok' h
    simp only [Prod.mk.injEq] at h1
    rw [← h1.1]; rfl
  | bool v =>
    unfold setupLeaf at h
    obtain ⟨l, s1, _, h⟩ := bind_ok.mp h
    obtain ⟨b, s2, _, h⟩ := bind_ok.mp h
    cases b <;> first | exact (raise_ok.mp h).elim | skip
    obtain ⟨h1, _⟩ := pure_ok' h
    simp only [Prod.mk.injEq] at h1
    rw [← h1.1]; rfl
  | fxp m e =>
    unfold setupLeaf at h
    obtain ⟨r, s1, _, h⟩ := bind_ok.mp h
    cases r <;> first | exact (raise_ok.mp h).elim | skip
    obtain ⟨h1, _⟩ := pure_ok' h
    simp only [Prod.mk.injEq] at h1
    rw [← h1.1]; rfl

mutual
theorem setupT_kinds : ∀ (v : IVal) {n n' : Nat} {t : TVal} {s s' : St},
    setupT v n s = .ok ((t, n'), s') → t.kinds = v.kinds
  | .leaf a, n, n', t, s, s', h => by
    unfold setupT at h
    obtain ⟨⟨o, n1⟩, s1, h1, h⟩ := bind_ok.mp h
    obtain ⟨h2, _⟩ := pure_ok' h
    simp only [Prod.mk.injEq] at h2
    rw [← h2.1]
    simp only [TVal.kinds, IVal.kinds, PTree.map_leaf, setupLeaf_kind h1]
  | .node vs, n, n', t, s, s', h => by
    unfold setupT at h
    obtain ⟨⟨rs, n1⟩, s1, h1, h⟩ := bind_ok.mp h
    obtain ⟨h2, _⟩ := pure_ok' h
    simp only [Prod.mk.injEq] at h2
    rw [← h2.1]
    simp only [TVal.kinds, IVal.kinds, PTree.map_node, PTree.node.injEq]
    exact setupTL_kinds vs h1
theorem setupTL_kinds : ∀ (vs : List IVal) {n n' : Nat} {ts : List TVal} {s s' : St},
    setupTL vs n s = .ok ((ts, n'), s') →
    ts.map (PTree.map SVal.kind) = vs.map (PTree.map (fun a => some a.kind))
  | [], n, n', ts, s, s', h => by
    unfold setupTL at h
    obtain ⟨h1, _⟩ := pure_ok' h
    simp only [Prod.mk.injEq] at h1
    rw [← h1.1]; rfl
  | v :: vs, n, n', ts, s, s', h => by
    unfold setupTL at h
    obtain ⟨⟨r, n1⟩, s1, h1, h⟩ := bind_ok.mp h
    obtain ⟨⟨rs, n2⟩, s2, h2, h⟩ := bind_ok.mp h
    obtain ⟨h3, _⟩ := pure_ok' h
    simp only [Prod.mk.injEq] at h3
    rw [← h3.1]
    simp only [List.map_cons, List.cons.injEq]
    exact ⟨setupT_kinds v h1, setupTL_kinds vs h2⟩
end

theorem IVal.kinds_sec (v : IVal) : v.kinds.sec = true := by
  unfold IVal.kinds KTree.sec
  rw [PTree.all_map]
  induction v using PTree.rec (motive_2 := fun ts => ts.all (PTree.all (Option.isSome ∘ fun a : ILeaf => some a.kind)) = true) with
  | leaf a => simp only [PTree.all_leaf, Function.comp, Option.isSome_some]
  | node ts ih => simp only [PTree.all_node, ih]
  | nil => rfl
  | cons t ts iht ihts => simp only [List.all_cons, iht, ihts, Bool.and_self]

/-- the tracked variables after the initial bindings have the kinds they were created with -/
theorem setupVars_kinds (x : Nat) : ∀ (init : List (Nat × IVal)) {bv bv' : BV} {s s' : St},
    setupVars init bv s = .ok (bv', s') → bv'.vals.kindOf x = initKinds init x (bv.vals.kindOf x)
  | [], bv, bv', s, s', h => by
    unfold setupVars at h
    obtain ⟨rfl, rfl⟩ := pure_ok' h
    rfl
  | (y, v) :: rest, bv, bv', s, s', h => by
    unfold setupVars at h
    obtain ⟨⟨t, n⟩, s1, h1, h⟩ := bind_ok.mp h
    rw [setupVars_kinds x rest h]
    simp only [initKinds]
    congr 1
    unfold Vals.kindOf
    simp only [Vals.get?_set]
    by_cases hy : y = x
    · simp only [hy, if_true, Option.map_some, setupT_kinds v h1]
    · simp only [hy, if_false]

theorem initKinds_sec (x : Nat) : ∀ (init : List (Nat × IVal)) (acc : Option KTree),
    (∀ k, acc = some k → k.sec = true) → ∀ k, initKinds init x acc = some k → k.sec = true
  | [], acc, hacc, k, h => hacc k h
  | (y, v) :: rest, acc, hacc, k, h => by
    simp only [initKinds] at h
    refine initKinds_sec x rest _ ?_ k h
    intro k' hk'
    by_cases hy : y = x
    · simp only [hy, if_true, Option.some.injEq] at hk'
      rw [← hk']; exact IVal.kinds_sec v
    · simp only [hy, if_false] at hk'
      exact hacc k' hk'

/-- **whole runs**: a variable that the program never assigns ends with the kinds of its initial value -/
theorem runBlockT_kinds {init : List (Nat × IVal)} {inputs : List Int} {finputs : List (Int × Nat)} {prog : BBlock}
    {bs : BSt} {s0 s : St} (h : runBlockT init inputs finputs prog s0 = .ok (bs, s)) (x : Nat)
    (hx : prog.assigns x = false) : bs.bv.vals.kindOf x = initKinds init x none := by
  unfold runBlockT at h
  obtain ⟨bv, s1, h1, h⟩ := bind_ok.mp h
  obtain ⟨⟨inp, n1⟩, s2, h2, h⟩ := bind_ok.mp h
  obtain ⟨⟨finp, n2⟩, s3, h3, h⟩ := bind_ok.mp h
  have hk : bv.vals.kindOf x = initKinds init x none := setupVars_kinds x init h1
  have hsec : ∀ k, bv.vals.kindOf x = some k → k.sec = true := by
    intro k hk'
    rw [hk] at hk'
    exact initKinds_sec x init none (fun _ h' => by cases h') k hk'
  rw [execBlock_kinds prog x _ _ bs s3 s hx hsec h]
  exact hk

end Pysnark
