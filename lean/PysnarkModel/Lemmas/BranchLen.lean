import PysnarkModel.Lemmas.BranchBasic
/-!
# `if_then_else` on lists: a length mismatch is refused, a completed merge keeps every length

The repaired behaviour of finding C09-list-length-truncated.  `if_then_else` compares `len(truev)`
and `len(falsev)` before it merges anything (`ValueError`); before the repair it went through `zip`,
which silently kept the first `min(len)` elements.

* `mergeT_len_refused` (in `BranchBasic`), `mergeBak_len_refused`, `exit_len_refused`,
  `sel_len_refused`: refusal, in every state and under every guard, at the value level, at a block
  exit (an arm / a loop round rebound a tracked list to a list of another length) and for the
  statement `_.x = if_then_else(c, t, f)`.
* `mergeT_skel`, `mergeBak_skel`, `exit_skel`: a merge that completes returns a value with the
  list structure (all lengths, at every nesting depth) of BOTH operands: nothing is ever dropped.
-/
namespace Pysnark

theorem bind_eq_of_ok {α β} {m : M α} {f : α → M β} {s s' : St} {a : α} (h : m s = .ok (a, s')) :
    (m >>= f) s = f a s' := by
  change M.bind m f s = _
  unfold M.bind
  rw [h]

theorem bind_eq_of_error {α β} {m : M α} {f : α → M β} {s : St} {e : Err} (h : m s = .error e) :
    (m >>= f) s = .error e := by
  change M.bind m f s = _
  unfold M.bind
  rw [h]

/-- the list structure of a value: every scalar forgotten, every length kept -/
def PTree.skel {α : Type} (t : PTree α) : PTree Unit := t.map (fun _ => ())
def PTree.skelL {α : Type} (ts : List (PTree α)) : List (PTree Unit) := PTree.mapL (fun _ => ()) ts

theorem PTree.skel_leaf {α : Type} (a : α) : (PTree.leaf a).skel = .leaf () := by
  unfold PTree.skel PTree.map; rfl
theorem PTree.skel_node {α : Type} (ts : List (PTree α)) : (PTree.node ts).skel = .node (PTree.skelL ts) := by
  unfold PTree.skel PTree.skelL; rw [PTree.map]
theorem PTree.skelL_nil {α : Type} : PTree.skelL ([] : List (PTree α)) = [] := by
  unfold PTree.skelL PTree.mapL; rfl
theorem PTree.skelL_cons {α : Type} (t : PTree α) (ts : List (PTree α)) :
    PTree.skelL (t :: ts) = t.skel :: PTree.skelL ts := by
  unfold PTree.skelL PTree.skel; rw [PTree.mapL]

theorem PTree.skelL_length {α : Type} : ∀ (ts : List (PTree α)), (PTree.skelL ts).length = ts.length
  | [] => by rw [PTree.skelL_nil]; rfl
  | t :: ts => by rw [PTree.skelL_cons, List.length_cons, List.length_cons, PTree.skelL_length ts]

/-- equal list structure: equal length (at the top; the same holds below by `skel_node`) -/
theorem PTree.skel_node_length {α β : Type} {ts : List (PTree α)} {us : List (PTree β)}
    (h : (PTree.node ts).skel = (PTree.node us).skel) : ts.length = us.length := by
  rw [PTree.skel_node, PTree.skel_node] at h
  have h' := congrArg (fun t => match t with | PTree.node l => l.length | PTree.leaf _ => 0) h
  simp only [PTree.skelL_length] at h'
  exact h'

mutual
/-- **never truncated**: a completed `if_then_else(cond, truev, falsev)` returns a value of the
list structure of `truev`, and `falsev` had that structure too -/
theorem mergeT_skel {c : LinComb} : ∀ {t f r : TVal} {n n' : Nat} {s s' : St},
    mergeT c t f n s = .ok ((r, n'), s') → r.skel = t.skel ∧ f.skel = t.skel
  | .leaf a, .leaf b, r, n, n', s, s', h => by
    obtain ⟨o, _, rfl⟩ := mergeT_leaf_ok h
    simp only [PTree.skel_leaf, and_self]
  | .node ts, .node fs, r, n, n', s, s', h => by
    obtain ⟨rs, hrs, rfl⟩ := mergeT_node_ok h
    obtain ⟨h1, h2⟩ := mergeTL_skel hrs
    simp only [PTree.skel_node, h1, h2, and_self]
  | .node ts, .leaf b, r, n, n', s, s', h => by unfold mergeT at h; exact (raise_ok.mp h).elim
  | .leaf a, .node fs, r, n, n', s, s', h => by unfold mergeT at h; exact (raise_ok.mp h).elim
theorem mergeTL_skel {c : LinComb} : ∀ {ts fs rs : List TVal} {n n' : Nat} {s s' : St},
    mergeTL c ts fs n s = .ok ((rs, n'), s') → PTree.skelL rs = PTree.skelL ts ∧ PTree.skelL fs = PTree.skelL ts
  | [], [], rs, n, n', s, s', h => by
    obtain ⟨rfl, _, _⟩ := mergeTL_nil_ok h
    exact ⟨rfl, rfl⟩
  | t :: ts, f :: fs, rs, n, n', s, s', h => by
    obtain ⟨r, n1, s1, rs', h1, h2, rfl⟩ := mergeTL_cons_ok h
    obtain ⟨a1, a2⟩ := mergeT_skel h1
    obtain ⟨b1, b2⟩ := mergeTL_skel h2
    simp only [PTree.skelL_cons, a1, a2, b1, b2, and_self]
  | [], _ :: _, rs, n, n', s, s', h => by unfold mergeTL at h; exact (raise_ok.mp h).elim
  | _ :: _, [], rs, n, n', s, s', h => by unfold mergeTL at h; exact (raise_ok.mp h).elim
end

/-- the result of a completed merge of two lists has the length of both -/
theorem mergeT_node_length {c : LinComb} {ts fs : List TVal} {r : TVal} {n n' : Nat} {s s' : St}
    (h : mergeT c (.node ts) (.node fs) n s = .ok ((r, n'), s')) :
    ∃ rs, r = .node rs ∧ rs.length = ts.length ∧ rs.length = fs.length := by
  obtain ⟨rs, _, rfl⟩ := mergeT_node_ok h
  have hl := mergeT_node_len h
  obtain ⟨h1, _⟩ := mergeT_skel h
  have := PTree.skel_node_length h1
  exact ⟨rs, rfl, this, this.trans hl⟩

/-! ## the merge at a block exit -/

/-- the merge of the tracked variables with their snapshot: every variable comes out with the list
structure it has in the arm, which is the list structure of its snapshot -/
theorem mergeBak_skel {c : LinComb} {bak : Vals} : ∀ {vs rs : Vals} {n n' : Nat} {s s' : St},
    mergeBak c bak vs n s = .ok ((rs, n'), s') → ∀ x r, rs.get? x = some r →
    ∃ t f, vs.get? x = some t ∧ bak.get? x = some f ∧ r.skel = t.skel ∧ f.skel = t.skel
  | [], rs, n, n', s, s', h, x, r, hx => by
    unfold mergeBak at h
    obtain ⟨h1, _⟩ := pure_ok' h
    simp only [Prod.mk.injEq] at h1
    rw [← h1.1] at hx
    simp only [Vals.get?] at hx
    cases hx
  | (y, t) :: rest, rs, n, n', s, s', h, x, r, hx => by
    obtain ⟨f, r0, n1, s1, rs', hf, h1, h2, rfl⟩ := mergeBak_cons_ok h
    simp only [Vals.get?] at hx ⊢
    by_cases hy : y = x
    · simp only [hy, if_true] at hx ⊢
      cases hx
      obtain ⟨a1, a2⟩ := mergeT_skel h1
      exact ⟨t, f, rfl, hy ▸ hf, a1, a2⟩
    · simp only [hy, if_false] at hx ⊢
      exact mergeBak_skel h2 x r hx

/-- the first variable (in dictionary order) whose value in the arm and whose snapshot are lists of
different lengths stops the merge with `ValueError`, whatever the state is -/
theorem mergeBak_len_refused {c : LinComb} {bak rest : Vals} {x : Nat} {ts fs : List TVal} (n : Nat) (s : St)
    (hb : bak.get? x = some (.node fs)) (hl : ts.length ≠ fs.length) :
    mergeBak c bak ((x, .node ts) :: rest) n s = .error .value := by
  unfold mergeBak
  simp only [hb]
  rw [bind_eq_of_error (mergeT_len_refused n s hl)]

/-- `BranchContext.exit()` that completes: every tracked variable that is merged with its snapshot
leaves the block with the list structure it had in the arm AND the one it had before the block -/
theorem exit_skel {ctx ctx' : BCtx} {bv bv' : BV} {s s' : St} (h : ctx.exit bv s = .ok ((ctx', bv'), s'))
    (x : Nat) (r : TVal) (hx : bv'.vals.get? x = some r) :
    ∃ t f, bv.vals.get? x = some t ∧ ctx.bak.get? x = some f ∧ r.skel = t.skel ∧ r.skel = f.skel := by
  obtain ⟨s1, nd, n1, s2, vals, n2, _, _, hm, _, rfl⟩ := exit_ok h
  obtain ⟨t, f, ht, hf, a1, a2⟩ := mergeBak_skel hm x r hx
  rw [Vals.get?_removeAll] at ht
  split at ht
  · cases ht
  · exact ⟨t, f, ht, hf, a1, a1.trans a2.symm⟩

/-- a block exit at which some tracked list was rebound to a list of another length is refused:
`restore_guard` has run (the guard of THIS block is gone), nothing has been merged for that variable,
the run ends with `ValueError`.  Stated for the first variable of the dictionary that is merged with
its snapshot, in a first arm / loop round (`nodefvals is None`) in which every variable was bound
before the block. -/
theorem exit_len_refused {ctx : BCtx} {bv : BV} {s s1 : St} {x : Nat} {ts fs : List TVal} {rest : Vals}
    (hg : restoreGuard ctx.origguard s = .ok ((), s1)) (hn : ctx.nodefvals = none)
    (hv : bv.vals = (x, .node ts) :: rest) (hall : ∀ kv ∈ bv.vals, ctx.bak.has kv.1 = true)
    (hb : ctx.bak.get? x = some (.node fs)) (hl : ts.length ≠ fs.length) :
    ctx.exit bv s = .error .value := by
  have hnd : bv.vals.filter (fun kv => !ctx.bak.has kv.1) = [] := by
    rw [List.filter_eq_nil_iff]
    intro kv hkv
    simp only [hall kv hkv, Bool.not_true, Bool.false_eq_true, not_false_eq_true]
  have hrm : bv.vals.removeAll [] = bv.vals := by
    unfold Vals.removeAll
    rw [List.filter_eq_self]
    intro kv _
    rfl
  unfold BCtx.exit
  rw [bind_eq_of_ok hg]
  simp only [hn, hnd]
  rw [bind_eq_of_ok (a := (([] : Vals), bv.next)) (s' := s1) rfl]
  rw [hrm, hv]
  rw [bind_eq_of_error (mergeBak_len_refused bv.next s1 hb hl)]

/-- `_.x = if_then_else(c, t, f)` on two evaluated lists of different lengths is refused
(`ValueError`), whatever the guard, the condition and the elements are -/
theorem sel_len_refused {env : BEnv} {x : Nat} {c : BCond} {t f : BExpr} {bs : BSt} {s s1 s2 s3 : St} {cl : LinComb}
    {ts fs : List TVal} {n1 n2 : Nat}
    (hc : evalC env bs.bv c s = .ok (.lcb cl, s1))
    (ht : evalE env bs.bv.vals t bs.bv.next s1 = .ok ((.node ts, n1), s2))
    (hf : evalE env bs.bv.vals f n1 s2 = .ok ((.node fs, n2), s3))
    (hl : ts.length ≠ fs.length) :
    execStmt env (.sel x c t f) bs s = .error .value := by
  have hcl : condLC (.lcb cl) s3 = .ok (cl, s3) := rfl
  unfold execStmt
  rw [bind_eq_of_ok hc]
  simp only []
  rw [bind_eq_of_ok ht]
  simp only []
  rw [bind_eq_of_ok hf]
  simp only []
  rw [bind_eq_of_ok hcl]
  rw [bind_eq_of_error (mergeT_len_refused n2 s3 hl)]

end Pysnark
