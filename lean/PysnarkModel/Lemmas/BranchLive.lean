import PysnarkModel.Lemmas.BranchBasic
import PysnarkModel.Lemmas.FxpValues
import PysnarkModel.Lemmas.Triple
import PysnarkModel.Lemmas.IteTag
/-!
# Block branching: what the operators return, whatever the guard is and while it is true

`Live r s`: no guard or a guard whose value is 1, error suppression off, resolution `r`.  In that
mode every gadget returns what Python computes on the plain values (or raises).  Every operator of
the statement language leaves the configuration part of the state alone (`Same`) whatever the guard
is, and every `LinCombBool` it creates holds 0 or 1 (the constructor checks that without looking at
the guard).  Values are read through `rep`: the number in units of `2^-r`.
-/
namespace Pysnark

structure Live (r : Nat) (s : St) : Prop where
  guard : s.isGuard = true
  ign : s.ignoreErrors = false
  res : s.resolution = r

/-- a saved guard triple that is live -/
def LiveT (og : GuardBak) : Prop :=
  (match og.guard with | none => true | some g => g.value == 1) = true ∧ og.ignoreErrors = false

theorem Live.same {r : Nat} {s s' : St} (h : Live r s) (sm : Same s s') : Live r s' := by
  refine ⟨?_, sm.ign.trans h.ign, sm.res.trans h.res⟩
  have := h.guard
  unfold St.isGuard at *
  rw [sm.guard]; exact this

theorem Live.triple {r : Nat} {s : St} (h : Live r s) : LiveT ⟨s.guard, s.ignoreErrors, s.one⟩ := ⟨h.guard, h.ign⟩

theorem Live.of_restore {r : Nat} {og : GuardBak} {s s' : St} {u : Unit} (hl : LiveT og) (hr : s.resolution = r)
    (h : restoreGuard og s = .ok (u, s')) : Live r s' := by
  rw [restoreGuard_ok h]; exact ⟨hl.1, hl.2, hr⟩

theorem restoreGuard_res {og : GuardBak} {s s' : St} {u : Unit} (h : restoreGuard og s = .ok (u, s')) :
    s'.resolution = s.resolution := by
  rw [restoreGuard_ok h]

def BoolLC (c : LinComb) : Prop := c.value = 0 ∨ c.value = 1

/-! ## `check_positive` and the comparisons -/
theorem checkPositive_all {s s' : St} {x r : LinComb} {bits : Option Nat}
    (h : checkPositive x bits s = .ok (r, s')) :
    Same s s' ∧ BoolLC r ∧ ∀ {q : Nat}, Live q s → r.value = (if x.value ≥ 0 then 1 else 0) := by
  unfold checkPositive at h
  rw [getSt_bind] at h
  obtain ⟨⟨retv, bitvs⟩, s1, h1, h⟩ := bind_ok.mp h
  obtain ⟨hhint, rfl⟩ := liftE_ok' h1
  dsimp only at h
  obtain ⟨ret, s2, h2, h⟩ := bind_ok.mp h
  obtain ⟨bs, s3, h3, h⟩ := bind_ok.mp h
  obtain ⟨u, s4, h4, h⟩ := bind_ok.mp h
  obtain ⟨rfl, rfl⟩ := pure_ok' h
  obtain ⟨sm2, v2, hb⟩ := privValBool_val h2
  obtain ⟨sm3, -, -⟩ := mapM'_privValBool_val _ h3
  have sm4 := addConstraint_same h4
  refine ⟨(sm2.trans sm3).trans sm4, by unfold BoolLC; rw [v2]; exact hb, ?_⟩
  intro q hl
  unfold checkPositiveHint at hhint
  simp only [hl.guard, hl.ign, Bool.true_and, decide_eq_true_eq] at hhint
  split at hhint
  · simp only [Except.ok.injEq, Prod.mk.injEq] at hhint
    obtain ⟨hr, -⟩ := hhint
    rw [v2, ← hr]
  · simp at hhint

theorem checkPositiveV_lc_all {s s' : St} {d : LinComb} {v : Val}
    (h : checkPositiveV (.lc d) s = .ok (v, s')) :
    Same s s' ∧ ∃ r, v = .lcb r ∧ BoolLC r ∧ ∀ {q : Nat}, Live q s → r.value = if d.value ≥ 0 then 1 else 0 := by
  unfold checkPositiveV at h
  obtain ⟨r, s1, h1, h⟩ := bind_ok.mp h
  obtain ⟨rfl, rfl⟩ := pure_ok' h
  obtain ⟨sm, hb, vr⟩ := checkPositive_all h1
  exact ⟨sm, r, rfl, hb, vr⟩

theorem boolLC_ite {p : Prop} [Decidable p] {r : LinComb} (h : r.value = if p then 1 else 0) : BoolLC r := by
  unfold BoolLC; rw [h]; split <;> simp

section
variable {s s' : St} {a : LinComb} {o v : Val}

theorem cmpLV_int_all {op : Cmp} (ho : IsIntV o) (h : cmpLV op a o s = .ok (v, s')) :
    Same s s' ∧ ∃ r, v = .lcb r ∧ BoolLC r ∧ ∀ {q : Nat}, Live q s → r.value = cmpSem op a.value (ival o) := by
  unfold cmpLV at h
  cases op <;> simp only at h
  · obtain ⟨d, s1, h1, h⟩ := bind_ok.mp h
    obtain ⟨rfl, d1, rfl, vd1⟩ := rsubLV_val ho h1
    obtain ⟨d', s2, h2, h⟩ := bind_ok.mp h
    obtain ⟨rfl, d2, rfl, vd2⟩ := subLV_val (o := .int 1) trivial h2
    obtain ⟨sm, r, rfl, hb, vr⟩ := checkPositiveV_lc_all h
    refine ⟨sm, r, rfl, hb, fun hl => ?_⟩
    rw [vr hl, vd2, vd1, show ival (Val.int 1) = 1 from rfl]; simp only [cmpSem]
    split <;> split <;> first | rfl | omega
  · obtain ⟨d, s1, h1, h⟩ := bind_ok.mp h
    obtain ⟨rfl, d1, rfl, vd1⟩ := rsubLV_val ho h1
    obtain ⟨sm, r, rfl, hb, vr⟩ := checkPositiveV_lc_all h
    refine ⟨sm, r, rfl, hb, fun hl => ?_⟩
    rw [vr hl, vd1]; simp only [cmpSem]
    split <;> split <;> first | rfl | omega
  · obtain ⟨d, s1, h1, h⟩ := bind_ok.mp h
    obtain ⟨rfl, d1, rfl, vd1⟩ := subLV_val ho h1
    obtain ⟨sm, r, rfl, vr⟩ := checkZeroV_lc_val h
    refine ⟨sm, r, rfl, boolLC_ite vr, fun _ => ?_⟩
    rw [vr, vd1]; simp only [cmpSem]
    split <;> split <;> first | rfl | omega
  · obtain ⟨d, s1, h1, h⟩ := bind_ok.mp h
    obtain ⟨rfl, d1, rfl, vd1⟩ := subLV_val ho h1
    obtain ⟨sm, r, rfl, vr⟩ := checkNonzeroV_lc_val h
    refine ⟨sm, r, rfl, ?_, fun _ => ?_⟩
    · unfold BoolLC; rw [vr]; split <;> simp
    · rw [vr, vd1]; simp only [cmpSem]
      split <;> split <;> first | rfl | omega
  · obtain ⟨d, s1, h1, h⟩ := bind_ok.mp h
    obtain ⟨rfl, d1, rfl, vd1⟩ := subLV_val ho h1
    obtain ⟨d', s2, h2, h⟩ := bind_ok.mp h
    obtain ⟨rfl, d2, rfl, vd2⟩ := subLV_val (o := .int 1) trivial h2
    obtain ⟨sm, r, rfl, hb, vr⟩ := checkPositiveV_lc_all h
    refine ⟨sm, r, rfl, hb, fun hl => ?_⟩
    rw [vr hl, vd2, vd1, show ival (Val.int 1) = 1 from rfl]; simp only [cmpSem]
    split <;> split <;> first | rfl | omega
  · obtain ⟨d, s1, h1, h⟩ := bind_ok.mp h
    obtain ⟨rfl, d1, rfl, vd1⟩ := subLV_val ho h1
    obtain ⟨sm, r, rfl, hb, vr⟩ := checkPositiveV_lc_all h
    refine ⟨sm, r, rfl, hb, fun hl => ?_⟩
    rw [vr hl, vd1]; simp only [cmpSem]
    split <;> split <;> first | rfl | omega

/-- `cmpV` on two integer-kind operands: both plain is outside the model, otherwise Python's answer -/
theorem cmpV_int_all {op : Cmp} {x y : Val} (hx : IsIntV x) (hy : IsIntV y)
    (h : cmpV op x y s = .ok (v, s')) :
    Same s s' ∧ ∃ r, v = .lcb r ∧ BoolLC r ∧ ∀ {q : Nat}, Live q s → r.value = cmpSem op (ival x) (ival y) := by
  unfold cmpV at h
  cases x <;> simp only [IsIntV] at hx <;> simp only at h
  · cases y <;> simp only [IsIntV] at hy <;> simp only at h
    · exact (raise_ok.mp h).elim
    · obtain ⟨sm, r, rfl, hb, vr⟩ := cmpLV_int_all (o := .int _) trivial h
      exact ⟨sm, r, rfl, hb, fun hl => by rw [vr hl, cmpSem_mirror]; rfl⟩
  · cases y <;> simp only [IsIntV] at hy <;> simp only at h <;> exact cmpLV_int_all trivial h
end

/-- two `LinComb`s compared through the gadgets (`LinCombFxp.__lt__` … after `_ensurefxp`) -/
theorem cmpLL_all {s s' : St} {op : Cmp} {x y r : LinComb} (h : cmpLL op x y s = .ok (r, s')) :
    Same s s' ∧ BoolLC r ∧ ∀ {q : Nat}, Live q s → r.value = cmpSem op x.value y.value := by
  cases op <;> simp only [cmpLL, cmpSem, ltLL, leLL, gtLL, geLL, eqLL, neLL] at h ⊢
  · obtain ⟨sm, hb, vr⟩ := checkPositive_all h
    refine ⟨sm, hb, fun hl => ?_⟩
    rw [vr hl]; simp only [subI_value, sub_value]
    split <;> split <;> first | rfl | omega
  · obtain ⟨sm, hb, vr⟩ := checkPositive_all h
    refine ⟨sm, hb, fun hl => ?_⟩
    rw [vr hl]; simp only [sub_value]
    split <;> split <;> first | rfl | omega
  · obtain ⟨sm, vr⟩ := checkZero_val h
    refine ⟨sm, boolLC_ite vr, fun _ => ?_⟩
    rw [vr]; simp only [sub_value]
    split <;> split <;> first | rfl | omega
  · obtain ⟨sm, vr⟩ := checkNonzero_val h
    refine ⟨sm, ?_, fun _ => ?_⟩
    · unfold BoolLC; rw [vr]; split <;> simp
    · rw [vr]; simp only [sub_value]
      split <;> split <;> first | rfl | omega
  · obtain ⟨sm, hb, vr⟩ := checkPositive_all h
    refine ⟨sm, hb, fun hl => ?_⟩
    rw [vr hl]; simp only [subI_value, sub_value]
    split <;> split <;> first | rfl | omega
  · obtain ⟨sm, hb, vr⟩ := checkPositive_all h
    refine ⟨sm, hb, fun hl => ?_⟩
    rw [vr hl]; simp only [sub_value]
    split <;> split <;> first | rfl | omega

theorem cmpSem_cmpB (op : Cmp) (x y : Int) : cmpSem op x y = if cmpB op x y then 1 else 0 := by
  cases op <;> simp only [cmpSem, cmpB, decide_eq_true_eq] <;> split <;> simp_all

theorem cmpSem_scale (op : Cmp) (x y : Int) (k : Nat) : cmpSem op (x * 2 ^ k) (y * 2 ^ k) = cmpSem op x y := by
  have hp : (0 : Int) < 2 ^ k := by positivity
  cases op <;> simp only [cmpSem]
  · simp only [Int.mul_lt_mul_right hp]
  · simp only [Int.mul_le_mul_right hp]
  · simp only [Int.mul_eq_mul_right_iff hp.ne']
  · simp only [ne_eq, Int.mul_eq_mul_right_iff hp.ne']
  · simp only [gt_iff_lt, Int.mul_lt_mul_right hp]
  · simp only [ge_iff_le, Int.mul_le_mul_right hp]

/-! ## scalars and their numbers -/

/-- what a scalar of the statement language is at the level of the operator dispatch -/
def Val.isS : Val → Prop
  | .int _ | .lc _ | .lcb _ | .fxp _ => True
  | _ => False

theorem SVal.toVal_isS (o : SVal) : o.toVal.isS := by
  cases o with
  | pub c => trivial
  | sc k l id => cases k <;> trivial

theorem SVal.den_eq_rep (r : Nat) (o : SVal) : o.den r = rep r o.toVal := by
  cases o with
  | pub c => rfl
  | sc k l id => cases k <;> rfl

theorem isS_of_IsIntV {v : Val} (h : IsIntV v) : v.isS := by
  cases v <;> simp only [IsIntV] at h <;> trivial

theorem rep_of_IsIntV {v : Val} (h : IsIntV v) (r : Nat) : rep r v = ival v * 2 ^ r := by
  cases v <;> simp only [IsIntV] at h <;> rfl

section
variable {s s' : St} {a b r : Val}

theorem negV_rep (ha : a.isS) (h : negV a s = .ok (r, s')) :
    s' = s ∧ r.isS ∧ (∀ l, r ≠ .lcb l) ∧ ∀ q, rep q r = -rep q a := by
  cases a <;> simp only [Val.isS] at ha <;> simp only [negV] at h <;>
    (obtain ⟨rfl, rfl⟩ := pure_ok' h
     refine ⟨rfl, trivial, (fun l hl => by cases hl), fun q => ?_⟩
     simp only [rep, neg_value]
     try ring)

theorem addV_rep (ha : a.isS) (hb : b.isS) (h : addV a b s = .ok (r, s')) :
    s' = s ∧ r.isS ∧ (∀ l, r ≠ .lcb l) ∧ rep s.resolution r = rep s.resolution a + rep s.resolution b := by
  cases a <;> simp only [Val.isS] at ha <;> cases b <;> simp only [Val.isS] at hb <;>
    simp only [addV, addLV, addXV] at h <;> (try rw [getRes_bind] at h) <;>
    (obtain ⟨rfl, rfl⟩ := pure_ok' h
     refine ⟨rfl, trivial, (fun l hl => by cases hl), ?_⟩
     simp only [rep, add_value, addI_value, mulI_value]
     try ring)

theorem subV_rep (ha : a.isS) (hb : b.isS) (h : subV a b s = .ok (r, s')) :
    s' = s ∧ r.isS ∧ (∀ l, r ≠ .lcb l) ∧ rep s.resolution r = rep s.resolution a - rep s.resolution b := by
  by_cases hint : (∃ c d, a = .int c ∧ b = .int d)
  · obtain ⟨c, d, rfl, rfl⟩ := hint
    simp only [subV] at h
    obtain ⟨rfl, rfl⟩ := pure_ok' h
    refine ⟨rfl, trivial, (fun l hl => by cases hl), ?_⟩
    simp only [rep]; ring
  · have h' : (do let nb ← negV b; addV a nb : M Val) s = .ok (r, s') := by
      unfold subV at h
      split at h
      · exact (hint ⟨_, _, rfl, rfl⟩).elim
      · exact h
    obtain ⟨nb, s1, h1, h2⟩ := bind_ok.mp h'
    obtain ⟨rfl, hnb, -, vnb⟩ := negV_rep hb h1
    obtain ⟨rfl, hr, hk, vr⟩ := addV_rep ha hnb h2
    exact ⟨rfl, hr, hk, by rw [vr, vnb]; ring⟩

/-- `LinCombBool.__mul__` / `LinComb.__mul__`: the number of the product, whatever the kind of the
other factor -/
theorem mulLV_rep {x : LinComb} (hb : b.isS) (h : mulLV x b s = .ok (r, s')) :
    Same s s' ∧ r.isS ∧ (∀ l, r ≠ .lcb l) ∧ ∀ q, rep q r = x.value * rep q b := by
  cases b <;> simp only [Val.isS] at hb <;> simp only [mulLV] at h
  · obtain ⟨rfl, rfl⟩ := pure_ok' h
    exact ⟨Same.refl _, trivial, (fun l hl => by cases hl), fun q => by simp only [rep, mulI_value]; ring⟩
  all_goals
    obtain ⟨z, s1, h1, h⟩ := bind_ok.mp h
    obtain ⟨rfl, rfl⟩ := pure_ok' h
    obtain ⟨sm, vz⟩ := mulLL_val h1
    exact ⟨sm, trivial, (fun l hl => by cases hl), fun q => by simp only [rep, vz]; ring⟩

theorem mulXV_rep {x : LinComb} (hb : b.isS) (hk : ∀ y, b ≠ .fxp y) (h : mulXV x b s = .ok (r, s')) :
    Same s s' ∧ r.isS ∧ (∀ l, r ≠ .lcb l) ∧ ∀ q, rep q r * 2 ^ q = x.value * rep q b := by
  cases b <;> simp only [Val.isS] at hb <;> simp only [mulXV] at h <;> rw [getRes_bind] at h
  · obtain ⟨rfl, rfl⟩ := pure_ok' h
    exact ⟨Same.refl _, trivial, (fun l hl => by cases hl), fun q => by simp only [rep, mulI_value]; ring⟩
  · obtain ⟨z, s1, h1, h⟩ := bind_ok.mp h
    obtain ⟨rfl, rfl⟩ := pure_ok' h
    obtain ⟨sm, vz⟩ := mulLL_val h1
    exact ⟨sm, trivial, (fun l hl => by cases hl), fun q => by simp only [rep, vz]; ring⟩
  · obtain ⟨z, s1, h1, h⟩ := bind_ok.mp h
    obtain ⟨rfl, rfl⟩ := pure_ok' h
    obtain ⟨sm, vz⟩ := mulLL_val h1
    exact ⟨sm, trivial, (fun l hl => by cases hl), fun q => by simp only [rep, vz]; ring⟩
  · exact (hk _ rfl).elim

theorem mulV_rep (ha : a.isS) (hb : b.isS) (hok : mulOK a b = true) (h : mulV a b s = .ok (r, s')) :
    Same s s' ∧ r.isS ∧ (∀ l, r ≠ .lcb l) ∧ ∀ q, rep q r * 2 ^ q = rep q a * rep q b := by
  cases a <;> simp only [Val.isS] at ha <;> simp only [mulV] at h
  · -- plain int on the left
    cases b <;> simp only [Val.isS] at hb <;> simp only at h
    · obtain ⟨rfl, rfl⟩ := pure_ok' h
      exact ⟨Same.refl _, trivial, (fun l hl => by cases hl), fun q => by simp only [rep]; ring⟩
    · obtain ⟨sm, hr, hk, vr⟩ := mulLV_rep (b := .int _) trivial h
      exact ⟨sm, hr, hk, fun q => by rw [vr q]; simp only [rep]; ring⟩
    · obtain ⟨sm, hr, hk, vr⟩ := mulLV_rep (b := .int _) trivial h
      exact ⟨sm, hr, hk, fun q => by rw [vr q]; simp only [rep]; ring⟩
    · obtain ⟨sm, hr, hk, vr⟩ := mulXV_rep (b := .int _) trivial (fun y hy => by cases hy) h
      exact ⟨sm, hr, hk, fun q => by rw [vr q]; simp only [rep]; ring⟩
  · obtain ⟨sm, hr, hk, vr⟩ := mulLV_rep hb h
    exact ⟨sm, hr, hk, fun q => by rw [vr q]; simp only [rep]; ring⟩
  · obtain ⟨sm, hr, hk, vr⟩ := mulLV_rep hb h
    exact ⟨sm, hr, hk, fun q => by rw [vr q]; simp only [rep]; ring⟩
  · have hk : ∀ y, b ≠ .fxp y := by
      intro y hy; subst hy; simp [mulOK] at hok
    obtain ⟨sm, hr, hk', vr⟩ := mulXV_rep hb hk h
    exact ⟨sm, hr, hk', fun q => by rw [vr q]; simp only [rep]⟩
end

/-- the comparisons the statement language admits: Python's answer on the numbers -/
theorem cmpV_rep {s s' : St} {op : Cmp} {a b v : Val} (hok : cmpOK a b = true) (h : cmpV op a b s = .ok (v, s')) :
    Same s s' ∧ ∃ l, v = .lcb l ∧ BoolLC l ∧
      ∀ {q : Nat}, Live q s → l.value = cmpSem op (rep q a) (rep q b) := by
  cases a <;> cases b <;> first | exact (Bool.false_ne_true hok).elim | skip
  -- int / lc, lc / int, lc / lc
  any_goals
    (obtain ⟨sm, l, rfl, hb, vl⟩ := cmpV_int_all (by trivial) (by trivial) h
     refine ⟨sm, l, rfl, hb, fun {q} hl => ?_⟩
     rw [vl hl]
     simp only [rep, ival]
     rw [cmpSem_scale])
  -- a plain int on the left of a fixed-point number: the reflected method
  · simp only [cmpV] at h
    obtain ⟨z, s1, h1, h⟩ := bind_ok.mp h
    obtain ⟨l, s2, h2, h⟩ := bind_ok.mp h
    obtain ⟨rfl, rfl⟩ := pure_ok' h
    obtain ⟨rfl, vz⟩ := ensurefxp_val h1
    obtain ⟨sm, hb, vl⟩ := cmpLL_all h2
    refine ⟨sm, l, rfl, hb, fun {q} hl => ?_⟩
    rw [vl hl, vz, cmpSem_mirror, hl.res]
    simp only [rep]
  -- a fixed-point number on the left
  all_goals
    (simp only [cmpV] at h
     obtain ⟨z, s1, h1, h⟩ := bind_ok.mp h
     obtain ⟨l, s2, h2, h⟩ := bind_ok.mp h
     obtain ⟨rfl, rfl⟩ := pure_ok' h
     obtain ⟨rfl, vz⟩ := ensurefxp_val h1
     obtain ⟨sm, hb, vl⟩ := cmpLL_all h2
     refine ⟨sm, l, rfl, hb, fun {q} hl => ?_⟩
     rw [vl hl, vz, hl.res]
     simp only [rep])

/-- `a & b`, `a | b` on two booleans -/
theorem bwV_bool {s s' : St} {op : BW} {x y : LinComb} {v : Val} (hop : op = .and ∨ op = .or)
    (h : bwV op (.lcb x) (.lcb y) s = .ok (v, s')) :
    Same s s' ∧ ∃ l, v = .lcb l ∧ BoolLC l ∧
      l.value = (match op with | .and => x.value * y.value | _ => x.value + y.value - x.value * y.value) := by
  rcases hop with rfl | rfl
  · simp only [bwV, bwBV, ensurebool] at h
    obtain ⟨y', s0, h0, h⟩ := bind_ok.mp h
    obtain ⟨rfl, rfl⟩ := pure_ok' h0
    obtain ⟨p, s1, h1, h⟩ := bind_ok.mp h
    obtain ⟨l, s2, h2, h⟩ := bind_ok.mp h
    obtain ⟨rfl, rfl⟩ := pure_ok' h
    obtain ⟨sm1, vp⟩ := mulLL_val h1
    obtain ⟨sm2, rfl, hb⟩ := mkBool_val h2
    exact ⟨sm1.trans sm2, _, rfl, hb, vp⟩
  · simp only [bwV, bwBV, ensurebool] at h
    obtain ⟨y', s0, h0, h⟩ := bind_ok.mp h
    obtain ⟨rfl, rfl⟩ := pure_ok' h0
    obtain ⟨p, s1, h1, h⟩ := bind_ok.mp h
    obtain ⟨l, s2, h2, h⟩ := bind_ok.mp h
    obtain ⟨rfl, rfl⟩ := pure_ok' h
    obtain ⟨sm1, vp⟩ := mulLL_val h1
    obtain ⟨sm2, rfl, hb⟩ := mkBool_val h2
    exact ⟨sm1.trans sm2, _, rfl, hb, by simp only [sub_value, add_value, vp]⟩

/-- `iteScalar` on two booleans is one multiplication followed by `LinCombBool(ret, False)` -/
theorem iteScalar_bb (c x y : LinComb) : iteScalar c (.lcb x) (.lcb y) = iteBB c x y := by
  rw [← iteScalarArm_bb]
  rfl

/-- the scalar arm of `if_then_else`: `falsev + cond * (truev - falsev)` on the numbers; the result
is a `LinCombBool` exactly when both branches are, and then it holds 0 or 1 (the constructor tests it) -/
theorem iteScalar_rep {s s' : St} {c : LinComb} {t f r : Val} (ht : t.isS) (hf : f.isS)
    (h : iteScalar c t f s = .ok (r, s')) :
    Same s s' ∧ r.isS ∧ (∀ l, r = .lcb l → BoolLC l) ∧
      rep s.resolution r = rep s.resolution f + c.value * (rep s.resolution t - rep s.resolution f) ∧
      ((∃ l, r = .lcb l) ↔ bothLcb t f = true) := by
  by_cases hbb : bothLcb t f = true
  · cases t <;> cases f <;> simp only [bothLcb, reduceCtorEq] at hbb
    rename_i x y
    rw [iteScalar_bb] at h
    obtain ⟨pr, s1, h1, h2, rfl, hb⟩ := iteBB_ok h
    obtain ⟨sm1, vp⟩ := mulLL_val h1
    obtain ⟨sm2, -, -⟩ := mkBool_val h2
    refine ⟨sm1.trans sm2, trivial, fun l hl => ?_, ?_, ⟨fun _ => rfl, fun _ => ⟨_, rfl⟩⟩⟩
    · cases hl; exact hb
    · simp only [rep, add_value, vp, neg_value]; ring
  unfold iteScalar at h
  obtain ⟨f', s1, h1, k1⟩ := bind_ok.mp h
  clear h
  have hf' : s1 = s ∧ f'.isS ∧ rep s.resolution f' = rep s.resolution f ∧ bothLcb t f' = false := by
    unfold coerceF at h1
    cases t <;> simp only at h1
    all_goals first
      | (obtain ⟨rfl, rfl⟩ := pure_ok' h1; exact ⟨rfl, hf, rfl, by simpa using hbb⟩)
      | (obtain ⟨y, s0, h0, h1⟩ := bind_ok.mp h1
         obtain ⟨rfl, rfl⟩ := pure_ok' h1
         obtain ⟨rfl, vy⟩ := ensurefxp_val h0
         exact ⟨rfl, trivial, vy, rfl⟩)
  obtain ⟨hs1, hfs, vf', hnb⟩ := hf'
  rw [hs1] at k1
  clear h1 hs1
  obtain ⟨d, s2, h2, k2⟩ := bind_ok.mp k1
  clear k1
  obtain ⟨hs2, hd, -, vd⟩ := subV_rep ht hfs h2
  rw [hs2] at k2
  clear h2 hs2
  obtain ⟨p, s3, h3, k3⟩ := bind_ok.mp k2
  clear k2
  obtain ⟨sm, hp, -, vp⟩ := mulLV_rep hd h3
  obtain ⟨ret, s4, h4, k4⟩ := bind_ok.mp k3
  clear k3
  obtain ⟨hs3, hr, hk, vr⟩ := addV_rep hfs hp h4
  -- not two booleans: the value is returned as it is
  rw [iteTag_other _ hnb] at k4
  obtain ⟨rfl, rfl⟩ := pure_ok' k4
  rw [hs3]
  refine ⟨sm, hr, fun l hl => (hk l hl).elim, ?_, ⟨fun ⟨l, hl⟩ => (hk l hl).elim, fun hb => absurd hb hbb⟩⟩
  rw [sm.res] at vr
  rw [vr, vp, vd, vf']

/-! ## `add_guard` -/
theorem andLL_same {s s' : St} {a b : LinComb} {o : Option LinComb} (h : andLL a b s = .ok (o, s')) : Same s s' := by
  unfold andLL at h
  obtain ⟨ab, s1, h1, h⟩ := bind_ok.mp h
  obtain ⟨bb, s2, h2, h⟩ := bind_ok.mp h
  obtain ⟨res, s3, h3, h⟩ := bind_ok.mp h
  obtain ⟨rfl, rfl⟩ := pure_ok' h
  obtain ⟨sm1, -, -⟩ := toBits_val h1
  obtain ⟨sm2, -, -⟩ := toBits_val h2
  obtain ⟨sm3, -⟩ := mapM'_val (fun xy : LinComb × LinComb => mulBB xy.1 xy.2) (fun xy => xy.1.value * xy.2.value)
    (fun _ => True) (fun _ _ _ _ => trivial) (fun xy s s' r _ h => mulBB_val h) _ trivial h3
  exact (sm1.trans sm2).trans sm3

/-- `add_guard` on a boolean condition changes the guard triple and nothing else of the configuration -/
theorem addGuard_res {c : LinComb} {s s1 : St} {og : GuardBak} (h : addGuard (.lcb c) s = .ok (og, s1)) :
    s1.resolution = s.resolution := by
  unfold addGuard unwrapBoolCond addGuardCore at h
  simp only at h
  split at h
  · cases h
  · cases hg : s.guard with
    | none =>
      simp only [hg, Except.ok.injEq, Prod.mk.injEq] at h
      obtain ⟨_, rfl⟩ := h
      rfl
    | some g =>
      simp only [hg] at h
      split at h
      · cases h
      · rename_i g' t hand
        simp only [Except.ok.injEq, Prod.mk.injEq] at h
        obtain ⟨_, rfl⟩ := h
        unfold bwLV at hand
        simp only at hand
        obtain ⟨o, t1, hand1, hand2⟩ := bind_ok.mp hand
        obtain ⟨_, rfl⟩ := pure_ok' hand2
        exact (andLL_same hand1).res
      · cases h

theorem addGuard_live {r : Nat} {c : LinComb} {s s1 : St} {og : GuardBak} (hl : Live r s)
    (h : addGuard (.lcb c) s = .ok (og, s1)) :
    og = ⟨s.guard, s.ignoreErrors, s.one⟩ ∧ BoolLC c ∧ (c.value = 1 → Live r s1) := by
  have hb := addGuard_bak h
  simp only [St.triple, Triple.mk.injEq] at hb
  have hres := addGuard_res h
  refine ⟨by cases og; simp only [GuardBak.mk.injEq]; exact hb, ?_⟩
  unfold addGuard unwrapBoolCond addGuardCore at h
  simp only at h
  split at h
  · cases h
  · rename_i hchk
    have hcb : BoolLC c := by
      simp only [hl.ign, Bool.not_false, Bool.true_and, Bool.and_eq_true, bne_iff_ne, ne_eq, not_and, Decidable.not_not] at hchk
      unfold BoolLC
      by_cases h0 : c.value = 0
      · exact Or.inl h0
      · exact Or.inr (hchk h0)
    refine ⟨hcb, fun hc => ?_⟩
    cases hg : s.guard with
    | none =>
      simp only [hg, Except.ok.injEq, Prod.mk.injEq] at h
      obtain ⟨_, rfl⟩ := h
      exact ⟨by simp [St.isGuard, hc], by simp [hl.ign, hc], hl.res⟩
    | some g =>
      simp only [hg] at h
      have hg1 : g.value = 1 := by
        have := hl.guard; unfold St.isGuard at this; rw [hg] at this; simpa using this
      split at h
      · cases h
      · rename_i g' t hand
        simp only [Except.ok.injEq, Prod.mk.injEq] at h
        obtain ⟨_, rfl⟩ := h
        obtain ⟨sm, _, _, hv⟩ := bwLV_lc_val (op := .and) hl.ign hand
        have hv' : g'.value = 1 := by
          simp only [Val.num, bwSem, hg1, hc] at hv
          rw [hv]; rfl
        exact ⟨by simp [St.isGuard, hv'], by simp [sm.ign, hl.ign, hc], by rw [← hl.res]; exact hres⟩
      · cases h

end Pysnark
