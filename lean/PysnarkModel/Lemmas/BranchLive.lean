import PysnarkModel.Lemmas.BranchStruct
import PysnarkModel.Lemmas.Triple
/-!
# Block branching: values computed while the effective guard is true

`Live s`: no guard or a guard whose value is 1, and error suppression off.  In that mode every gadget
returns what Python computes on the plain values (or raises).  Generalises the `Plain` lemmas of
`Lemmas/Values.lean` / `ValuesDispatch.lean` from "no guard" to "guard value 1".
-/
namespace Pysnark

def Live (s : St) : Prop := s.isGuard = true ∧ s.ignoreErrors = false

/-- a saved guard triple that is live -/
def LiveT (og : GuardBak) : Prop :=
  (match og.guard with | none => true | some g => g.value == 1) = true ∧ og.ignoreErrors = false

theorem Live.same {s s' : St} (h : Live s) (sm : Same s s') : Live s' := by
  unfold Live St.isGuard at *
  rw [sm.guard, sm.ign]; exact h

theorem Live.triple {s : St} (h : Live s) : LiveT ⟨s.guard, s.ignoreErrors, s.one⟩ := h

theorem Live.of_restore {og : GuardBak} {s s' : St} {u : Unit} (hl : LiveT og)
    (h : restoreGuard og s = .ok (u, s')) : Live s' := by
  rw [restoreGuard_ok h]; exact hl

/-! ## `check_positive` and the comparisons under a true guard -/
theorem checkPositive_val_live {s s' : St} {x r : LinComb} {bits : Option Nat} (hl : Live s)
    (h : checkPositive x bits s = .ok (r, s')) :
    Same s s' ∧ r.value = (if x.value ≥ 0 then 1 else 0) := by
  unfold checkPositive at h
  rw [getSt_bind] at h
  obtain ⟨⟨retv, bitvs⟩, s1, h1, h⟩ := bind_ok.mp h
  obtain ⟨hhint, rfl⟩ := liftE_ok' h1
  dsimp only at h
  obtain ⟨ret, s2, h2, h⟩ := bind_ok.mp h
  obtain ⟨bs, s3, h3, h⟩ := bind_ok.mp h
  obtain ⟨u, s4, h4, h⟩ := bind_ok.mp h
  obtain ⟨rfl, rfl⟩ := pure_ok' h
  obtain ⟨sm2, v2, -⟩ := privValBool_val h2
  obtain ⟨sm3, -, -⟩ := mapM'_privValBool_val _ h3
  have sm4 := addConstraint_same h4
  unfold checkPositiveHint at hhint
  simp only [hl.1, hl.2, Bool.true_and, decide_eq_true_eq] at hhint
  split at hhint
  · simp only [Except.ok.injEq, Prod.mk.injEq] at hhint
    obtain ⟨hr, -⟩ := hhint
    exact ⟨(sm2.trans sm3).trans sm4, by rw [v2, ← hr]⟩
  · simp at hhint

theorem checkPositiveV_lc_live {s s' : St} {d : LinComb} {v : Val} (hl : Live s)
    (h : checkPositiveV (.lc d) s = .ok (v, s')) :
    Same s s' ∧ ∃ r, v = .lcb r ∧ r.value = if d.value ≥ 0 then 1 else 0 := by
  unfold checkPositiveV at h
  obtain ⟨r, s1, h1, h⟩ := bind_ok.mp h
  obtain ⟨rfl, rfl⟩ := pure_ok' h
  obtain ⟨sm, vr⟩ := checkPositive_val_live hl h1
  exact ⟨sm, r, rfl, vr⟩

section
variable {s s' : St} {a : LinComb} {o v : Val}

theorem cmpLV_int_live {op : Cmp} (hl : Live s) (ho : IsIntV o) (h : cmpLV op a o s = .ok (v, s')) :
    Same s s' ∧ ∃ r, v = .lcb r ∧ r.value = cmpSem op a.value (ival o) := by
  unfold cmpLV at h
  cases op <;> simp only at h
  · obtain ⟨d, s1, h1, h⟩ := bind_ok.mp h
    obtain ⟨rfl, d1, rfl, vd1⟩ := rsubLV_val ho h1
    obtain ⟨d', s2, h2, h⟩ := bind_ok.mp h
    obtain ⟨rfl, d2, rfl, vd2⟩ := subLV_val (o := .int 1) trivial h2
    obtain ⟨sm, r, rfl, vr⟩ := checkPositiveV_lc_live hl h
    refine ⟨sm, r, rfl, ?_⟩
    rw [vr, vd2, vd1, show ival (Val.int 1) = 1 from rfl]; simp only [cmpSem]
    split <;> split <;> first | rfl | omega
  · obtain ⟨d, s1, h1, h⟩ := bind_ok.mp h
    obtain ⟨rfl, d1, rfl, vd1⟩ := rsubLV_val ho h1
    obtain ⟨sm, r, rfl, vr⟩ := checkPositiveV_lc_live hl h
    refine ⟨sm, r, rfl, ?_⟩
    rw [vr, vd1]; simp only [cmpSem]
    split <;> split <;> first | rfl | omega
  · obtain ⟨d, s1, h1, h⟩ := bind_ok.mp h
    obtain ⟨rfl, d1, rfl, vd1⟩ := subLV_val ho h1
    obtain ⟨sm, r, rfl, vr⟩ := checkZeroV_lc_val h
    refine ⟨sm, r, rfl, ?_⟩
    rw [vr, vd1]; simp only [cmpSem]
    split <;> split <;> first | rfl | omega
  · obtain ⟨d, s1, h1, h⟩ := bind_ok.mp h
    obtain ⟨rfl, d1, rfl, vd1⟩ := subLV_val ho h1
    obtain ⟨sm, r, rfl, vr⟩ := checkNonzeroV_lc_val h
    refine ⟨sm, r, rfl, ?_⟩
    rw [vr, vd1]; simp only [cmpSem]
    split <;> split <;> first | rfl | omega
  · obtain ⟨d, s1, h1, h⟩ := bind_ok.mp h
    obtain ⟨rfl, d1, rfl, vd1⟩ := subLV_val ho h1
    obtain ⟨d', s2, h2, h⟩ := bind_ok.mp h
    obtain ⟨rfl, d2, rfl, vd2⟩ := subLV_val (o := .int 1) trivial h2
    obtain ⟨sm, r, rfl, vr⟩ := checkPositiveV_lc_live hl h
    refine ⟨sm, r, rfl, ?_⟩
    rw [vr, vd2, vd1, show ival (Val.int 1) = 1 from rfl]; simp only [cmpSem]
    split <;> split <;> first | rfl | omega
  · obtain ⟨d, s1, h1, h⟩ := bind_ok.mp h
    obtain ⟨rfl, d1, rfl, vd1⟩ := subLV_val ho h1
    obtain ⟨sm, r, rfl, vr⟩ := checkPositiveV_lc_live hl h
    refine ⟨sm, r, rfl, ?_⟩
    rw [vr, vd1]; simp only [cmpSem]
    split <;> split <;> first | rfl | omega

/-- `cmpV` on two integer-kind operands: both plain is outside the model, otherwise Python's answer -/
theorem cmpV_int_live {op : Cmp} {x y : Val} (hl : Live s) (hx : IsIntV x) (hy : IsIntV y)
    (h : cmpV op x y s = .ok (v, s')) :
    Same s s' ∧ ∃ r, v = .lcb r ∧ r.value = cmpSem op (ival x) (ival y) := by
  unfold cmpV at h
  cases x <;> simp only [IsIntV] at hx <;> simp only at h
  · cases y <;> simp only [IsIntV] at hy <;> simp only at h
    · exact (raise_ok.mp h).elim
    · obtain ⟨sm, r, rfl, vr⟩ := cmpLV_int_live hl (o := .int _) trivial h
      exact ⟨sm, r, rfl, by rw [vr, cmpSem_mirror]; rfl⟩
  · exact cmpLV_int_live hl hy h
end

theorem cmpSem_cmpB (op : Cmp) (x y : Int) : cmpSem op x y = if cmpB op x y then 1 else 0 := by
  cases op <;> simp only [cmpSem, cmpB, decide_eq_true_eq] <;> split <;> simp_all

/-! ## `+`, `-`, `*` on integer-kind operands (no guard dependence) -/
section
variable {s s' : St} {a b r : Val}

theorem addV_int_val (ha : IsIntV a) (hb : IsIntV b) (h : addV a b s = .ok (r, s')) :
    s' = s ∧ IsIntV r ∧ ival r = ival a + ival b := by
  unfold addV at h
  cases a <;> simp only [IsIntV] at ha <;> cases b <;> simp only [IsIntV] at hb <;> simp only at h
  · obtain ⟨rfl, rfl⟩ := pure_ok' h; exact ⟨rfl, trivial, rfl⟩
  · obtain ⟨rfl, z, rfl, vz⟩ := addLV_int_val (o := .int _) trivial h
    exact ⟨rfl, trivial, by simp only [ival, vz]; ring⟩
  · obtain ⟨rfl, z, rfl, vz⟩ := addLV_int_val (o := .int _) trivial h
    exact ⟨rfl, trivial, by simp only [ival, vz]⟩
  · obtain ⟨rfl, z, rfl, vz⟩ := addLV_int_val (o := .lc _) trivial h
    exact ⟨rfl, trivial, by simp only [ival, vz]⟩

theorem negV_int_val (ha : IsIntV a) (h : negV a s = .ok (r, s')) :
    s' = s ∧ IsIntV r ∧ ival r = - ival a := by
  unfold negV at h
  cases a <;> simp only [IsIntV] at ha <;> simp only at h
  all_goals (obtain ⟨rfl, rfl⟩ := pure_ok' h; exact ⟨rfl, trivial, rfl⟩)

theorem subV_int_val (ha : IsIntV a) (hb : IsIntV b) (h : subV a b s = .ok (r, s')) :
    s' = s ∧ IsIntV r ∧ ival r = ival a - ival b := by
  unfold subV at h
  cases a <;> simp only [IsIntV] at ha <;> cases b <;> simp only [IsIntV] at hb <;> simp only at h
  · obtain ⟨rfl, rfl⟩ := pure_ok' h; exact ⟨rfl, trivial, rfl⟩
  all_goals
    obtain ⟨nb, s1, h1, h2⟩ := bind_ok.mp h
    obtain ⟨rfl, hnb, vnb⟩ := negV_int_val (by trivial) h1
    obtain ⟨rfl, hr, vr⟩ := addV_int_val (by trivial) hnb h2
    exact ⟨rfl, hr, by rw [vr, vnb]; simp only [ival]; ring⟩

theorem mulV_int_val (ha : IsIntV a) (hb : IsIntV b) (h : mulV a b s = .ok (r, s')) :
    Same s s' ∧ IsIntV r ∧ ival r = ival a * ival b := by
  unfold mulV at h
  cases a <;> simp only [IsIntV] at ha <;> cases b <;> simp only [IsIntV] at hb <;> simp only at h
  · obtain ⟨rfl, rfl⟩ := pure_ok' h; exact ⟨Same.refl _, trivial, rfl⟩
  · obtain ⟨sm, z, rfl, vz⟩ := mulLV_int_val (o := .int _) trivial h
    exact ⟨sm, trivial, by simp only [ival, vz]; ring⟩
  · obtain ⟨sm, z, rfl, vz⟩ := mulLV_int_val (o := .int _) trivial h
    exact ⟨sm, trivial, by simp only [ival, vz]⟩
  · obtain ⟨sm, z, rfl, vz⟩ := mulLV_int_val (o := .lc _) trivial h
    exact ⟨sm, trivial, by simp only [ival, vz]⟩
end

/-! ## `add_guard` on a boolean condition under a true guard -/
theorem addGuard_live {c : LinComb} {s s1 : St} {og : GuardBak} (hl : Live s)
    (h : addGuard (.lcb c) s = .ok (og, s1)) :
    og = ⟨s.guard, s.ignoreErrors, s.one⟩ ∧ (c.value = 1 → Live s1) := by
  have hb := addGuard_bak h
  simp only [St.triple, Triple.mk.injEq] at hb
  refine ⟨by cases og; simp only [GuardBak.mk.injEq]; exact hb, ?_⟩
  intro hc
  unfold addGuard unwrapBoolCond addGuardCore at h
  simp only at h
  split at h
  · cases h
  · cases hg : s.guard with
    | none =>
      simp only [hg, Except.ok.injEq, Prod.mk.injEq] at h
      obtain ⟨_, rfl⟩ := h
      exact ⟨by simp [St.isGuard, hc], by simp [hl.2, hc]⟩
    | some g =>
      simp only [hg] at h
      have hg1 : g.value = 1 := by
        have := hl.1; unfold St.isGuard at this; rw [hg] at this; simpa using this
      split at h
      · cases h
      · rename_i g' s' hand
        simp only [Except.ok.injEq, Prod.mk.injEq] at h
        obtain ⟨_, rfl⟩ := h
        obtain ⟨sm, _, _, hv⟩ := bwLV_lc_val (op := .and) hl.2 hand
        have hv' : g'.value = 1 := by
          simp only [Val.num, bwSem, hg1, hc] at hv
          rw [hv]; rfl
        exact ⟨by simp [St.isGuard, hv'], by simp [sm.ign, hl.2, hc]⟩
      · cases h

end Pysnark
