import PysnarkModel.Lemmas.BranchChain
/-!
# Block branching: `while` and `for` loops compute what the native loops compute

A loop keeps one `WhileContext` whose condition is the conjunction of all loop tests so far (and
of the negated break conditions).  While that conjunction is 1 the rounds run under a true guard
and follow the native loop; once it is 0 every later round runs under a false guard and the
variables stay what the native loop ended with.
-/
namespace Pysnark

/-- a round in progress, the loop is still running natively; `E`: the native variables -/
structure LoopRun (r : Nat) (E : NEnv) (ctx : BCtx) (vals : Vals) (s : St) : Prop where
  isIf : ctx.isIf = false
  og : LiveT ctx.origguard
  cond : ctx.cond.value = 1
  live : Live r s
  ref : RefV r vals E
  nd : ∀ nd0, ctx.nodefvals = some nd0 → nd0 = []

/-- a round in progress, the native loop has ended with `EF` -/
structure LoopStop (r : Nat) (EF : NEnv) (ctx : BCtx) (vals : Vals) : Prop where
  isIf : ctx.isIf = false
  og : LiveT ctx.origguard
  cond : ctx.cond.value = 0
  bak : RefV r ctx.bak EF
  mono : ∀ x, ctx.bak.has x = true → vals.has x = true
  nd : ∀ nd0, ctx.nodefvals = some nd0 → nd0 = []

theorem LoopStop.mono' {r : Nat} {EF : NEnv} {ctx : BCtx} {vals vals' : Vals} (hp : LoopStop r EF ctx vals)
    (h : ∀ x, vals.has x = true → vals'.has x = true) : LoopStop r EF ctx vals' :=
  ⟨hp.isIf, hp.og, hp.cond, hp.bak, fun x hx => h x (hp.mono x hx), hp.nd⟩

theorem whileExit_run {r : Nat} {E : NEnv} {ctx ctx1 : BCtx} {bv bv1 : BV} {s s1 : St} (hp : LoopRun r E ctx bv.vals s)
    (h : whileExit ctx bv s = .ok ((ctx1, bv1), s1)) :
    Live r s1 ∧ RefV r bv1.vals E ∧ ctx1.isIf = false ∧ ctx1.cond.value = 1 ∧ ctx1.nodefvals = some [] := by
  obtain ⟨hx, hemp⟩ := whileExit_ok h
  obtain ⟨e1, _, e3, _, _, _⟩ := exit_struct hx
  obtain ⟨hl, nd, hn, hv, _, _, hbok⟩ := exit_live hp.cond hp.og hp.live.res hx
  have hnil : nd = [] := by
    simp only [hn, Option.getD_some] at hemp
    exact List.isEmpty_iff.mp hemp
  subst hnil
  exact ⟨hl, ⟨fun x => ((view_nil r _ x).symm.trans (hv x)).trans (hp.ref.eq x), (hbok hp.ref.bok).2⟩,
    e1 ▸ hp.isIf, e3 ▸ hp.cond, hn⟩

theorem whileExit_stop {r : Nat} {EF : NEnv} {ctx ctx1 : BCtx} {bv bv1 : BV} {s s1 : St} (hp : LoopStop r EF ctx bv.vals)
    (hres : s.resolution = r) (h : whileExit ctx bv s = .ok ((ctx1, bv1), s1)) :
    Live r s1 ∧ RefV r bv1.vals EF ∧ ctx1.isIf = false ∧ ctx1.cond.value = 0 ∧ ctx1.nodefvals = some [] := by
  obtain ⟨hx, hemp⟩ := whileExit_ok h
  obtain ⟨e1, _, e3, _, _, _⟩ := exit_struct hx
  obtain ⟨hl, nd, hn, hv, _, _, hbok⟩ := exit_dead hp.cond hp.og hres hp.mono
    (fun nd0 h0 => by rw [hp.nd nd0 h0]; intro x hx; simp [Vals.has, Vals.get?] at hx) hx
  have hnil : nd = [] := by
    simp only [hn, Option.getD_some] at hemp
    exact List.isEmpty_iff.mp hemp
  subst hnil
  exact ⟨hl, ⟨fun x => (hv x).trans (hp.bak.eq x), hbok hp.bak.bok⟩, e1 ▸ hp.isIf, e3 ▸ hp.cond, hn⟩

/-- `_while(nw)` in a running loop: the loop goes on iff `nw` -/
theorem whileNext_run {r : Nat} {E : NEnv} {ctx ctx' : BCtx} {nw : LinComb} {bv bv' : BV} {s s' : St}
    (hp : LoopRun r E ctx bv.vals s) (h : whileNext ctx nw bv s = .ok ((ctx', bv'), s')) :
    (nw.value = 1 → LoopRun r E ctx' bv'.vals s') ∧ (nw.value = 0 → LoopStop r E ctx' bv'.vals) ∧ s'.resolution = r := by
  obtain ⟨ctx1, s1, c, s2, he, hc, hen⟩ := whileNext_ok h
  obtain ⟨hl, hr, hif, hcv, hnd⟩ := whileExit_run hp he
  obtain ⟨sm, vc, _⟩ := andBB_val hc
  obtain ⟨rfl, hlt, hl1, hres⟩ := enter_live (hl.same sm) hen
  refine ⟨?_, ?_, hres⟩
  · intro h1
    have : c.value = 1 := by rw [vc, hcv, h1]; rfl
    exact ⟨hif, hlt, this, hl1 this, hr, fun nd0 h0 => by rw [hnd] at h0; cases h0; rfl⟩
  · intro h0
    have : c.value = 0 := by rw [vc, hcv, h0]; rfl
    exact ⟨hif, hlt, this, hr.backup, fun x hx => by rw [← Vals.has_backup]; exact hx,
      fun nd0 h0 => by rw [hnd] at h0; cases h0; rfl⟩

/-- `_while(nw)` in a loop that has ended: it stays ended -/
theorem whileNext_stop {r : Nat} {EF : NEnv} {ctx ctx' : BCtx} {nw : LinComb} {bv bv' : BV} {s s' : St}
    (hp : LoopStop r EF ctx bv.vals) (hres : s.resolution = r) (h : whileNext ctx nw bv s = .ok ((ctx', bv'), s')) :
    LoopStop r EF ctx' bv'.vals ∧ s'.resolution = r := by
  obtain ⟨ctx1, s1, c, s2, he, hc, hen⟩ := whileNext_ok h
  obtain ⟨hl, hr, hif, hcv, hnd⟩ := whileExit_stop hp hres he
  obtain ⟨sm, vc, _⟩ := andBB_val hc
  obtain ⟨rfl, hlt, _, hres'⟩ := enter_live (hl.same sm) hen
  have : c.value = 0 := by rw [vc, hcv]; ring
  exact ⟨⟨hif, hlt, this, hr.backup, fun x hx => by rw [← Vals.has_backup]; exact hx,
    fun nd0 h0 => by rw [hnd] at h0; cases h0; rfl⟩, hres'⟩

/-- `WhileContext(c)` from a live state -/
theorem whileNew_live {r : Nat} {E : NEnv} {c : LinComb} {bv : BV} {ctx : BCtx} {s s' : St} (hl : Live r s) (hr : RefV r bv.vals E)
    (h : whileNew c bv s = .ok (ctx, s')) :
    (c.value = 1 → LoopRun r E ctx bv.vals s') ∧ (c.value = 0 → LoopStop r E ctx bv.vals) ∧ BoolLC c ∧ s'.resolution = r := by
  obtain ⟨og, hg, rfl⟩ := whileNew_ok h
  obtain ⟨rfl, hcb, hl1⟩ := addGuard_live hl hg
  exact ⟨fun h1 => ⟨rfl, hl.triple, h1, hl1 h1, hr, fun nd0 h0 => by cases h0⟩,
    fun h0 => ⟨rfl, hl.triple, h0, hr.backup, fun x hx => by rw [← Vals.has_backup]; exact hx, fun nd0 h0 => by cases h0⟩,
    hcb, (addGuard_res hg).trans hl.res⟩

/-! ## with the stack -/
/-- the context on top of the stack is a loop in one of the two states -/
def TopRun (r : Nat) (E : NEnv) (stk : List BCtx) (bs : BSt) (s : St) : Prop :=
  ∃ ctx, bs.stack = ctx :: stk ∧ LoopRun r E ctx bs.bv.vals s
def TopStop (r : Nat) (EF : NEnv) (stk : List BCtx) (bs : BSt) (s : St) : Prop :=
  (∃ ctx, bs.stack = ctx :: stk ∧ LoopStop r EF ctx bs.bv.vals) ∧ s.resolution = r

theorem bWhileNext_run {r : Nat} {E : NEnv} {stk : List BCtx} {bs bs' : BSt} {cond : Val} {s s' : St}
    (hp : TopRun r E stk bs s) (h : bWhileNext cond bs s = .ok (bs', s')) :
    ∃ nw, cond = .lcb nw ∧ (nw.value = 1 → TopRun r E stk bs' s') ∧ (nw.value = 0 → TopStop r E stk bs' s') := by
  obtain ⟨ctx0, hs0, hr⟩ := hp
  obtain ⟨ctx, rest, c, ctx', bv', hs, _, hc, hw, rfl⟩ := bWhileNext_ok h
  rw [hs0] at hs; cases hs
  obtain ⟨a, b, hres⟩ := whileNext_run hr hw
  exact ⟨c, hc, fun h1 => ⟨ctx', rfl, a h1⟩, fun h0 => ⟨⟨ctx', rfl, b h0⟩, hres⟩⟩

theorem bWhileNext_stop {r : Nat} {EF : NEnv} {stk : List BCtx} {bs bs' : BSt} {cond : Val} {s s' : St}
    (hp : TopStop r EF stk bs s) (h : bWhileNext cond bs s = .ok (bs', s')) : TopStop r EF stk bs' s' := by
  obtain ⟨⟨ctx0, hs0, hr⟩, hres⟩ := hp
  obtain ⟨ctx, rest, c, ctx', bv', hs, _, _, hw, rfl⟩ := bWhileNext_ok h
  rw [hs0] at hs; cases hs
  obtain ⟨a, b⟩ := whileNext_stop hr hres hw
  exact ⟨⟨ctx', rfl, a⟩, b⟩

theorem bEndwhile_run {r : Nat} {E : NEnv} {stk : List BCtx} {bs bs' : BSt} {s s' : St} (hp : TopRun r E stk bs s)
    (h : bEndwhile bs s = .ok (bs', s')) : Live r s' ∧ RefV r bs'.bv.vals E := by
  obtain ⟨ctx0, hs0, hr⟩ := hp
  obtain ⟨ctx, rest, bv', hs, rfl, hcase⟩ := bEnd_ok (Or.inr h)
  rw [hs0] at hs; cases hs
  rcases hcase with ⟨hi, _⟩ | ⟨_, ctx', he⟩
  · rw [hr.isIf] at hi; cases hi
  · obtain ⟨hl, hv, _⟩ := whileExit_run hr he
    exact ⟨hl, hv⟩

theorem bEndwhile_stop {r : Nat} {EF : NEnv} {stk : List BCtx} {bs bs' : BSt} {s s' : St} (hp : TopStop r EF stk bs s)
    (h : bEndwhile bs s = .ok (bs', s')) : Live r s' ∧ RefV r bs'.bv.vals EF := by
  obtain ⟨⟨ctx0, hs0, hr⟩, hres⟩ := hp
  obtain ⟨ctx, rest, bv', hs, rfl, hcase⟩ := bEnd_ok (Or.inr h)
  rw [hs0] at hs; cases hs
  rcases hcase with ⟨hi, _⟩ | ⟨_, ctx', he⟩
  · rw [hr.isIf] at hi; cases hi
  · obtain ⟨hl, hv, _⟩ := whileExit_stop hr hres he
    exact ⟨hl, hv⟩

theorem bWhilePush_live {r : Nat} {E : NEnv} {bs bs' : BSt} {cond : Val} {s s' : St} (hl : Live r s) (hr : RefV r bs.bv.vals E)
    (h : bWhilePush cond bs s = .ok (bs', s')) :
    ∃ c, cond = .lcb c ∧ BoolLC c ∧ (c.value = 1 → TopRun r E bs.stack bs' s') ∧ (c.value = 0 → TopStop r E bs.stack bs' s') := by
  obtain ⟨c', ctx, hc, hn, rfl⟩ := bWhilePush_ok h
  obtain ⟨a, b, hcb, hres⟩ := whileNew_live hl hr hn
  exact ⟨c', hc, hcb, fun h1 => ⟨ctx, rfl, a h1⟩, fun h0 => ⟨⟨ctx, rfl, b h0⟩, hres⟩⟩

/-- what is assumed of the body of a loop (instantiated with the induction hypotheses) -/
structure BodyOk (r : Nat) (bodyT : BSt → M BSt) (bodyN : NEnv → NM NEnv) : Prop where
  live : ∀ bs s bs' s' E, Live r s → RefV r bs.bv.vals E → bodyT bs s = .ok (bs', s') → Post r (bodyN E) bs'.bv.vals s'
  struct : ∀ bs s bs' s', bodyT bs s = .ok (bs', s') → Struct bs bs' s s'

theorem TopStop.body {r : Nat} {EF : NEnv} {stk : List BCtx} {bs bs' : BSt} {s s' : St} {bodyT : BSt → M BSt}
    {bodyN : NEnv → NM NEnv} (hb : BodyOk r bodyT bodyN) (hp : TopStop r EF stk bs s)
    (h : bodyT bs s = .ok (bs', s')) : TopStop r EF stk bs' s' := by
  obtain ⟨⟨ctx, hs, hr⟩, hres⟩ := hp
  obtain ⟨⟨hst, hdom⟩, hr'⟩ := hb.struct _ _ _ _ h
  exact ⟨⟨ctx, by rw [hst, hs], hr.mono' hdom⟩, hr'.trans hres⟩

/-! ## `while` -/

/-- what is left of the native loop when the test of the current round was true; `n` rounds left -/
def nWhileRun (cond : NEnv → NM Bool) (body : NEnv → NM NEnv) (brk : NEnv → NM Bool) : Nat → NEnv → NM NEnv
  | 0, e => .ok e
  | n+1, e => do
    let e ← body e
    let b ← brk e
    if b then pure e else nWhile cond body brk n e

theorem nWhile_eq (cond : NEnv → NM Bool) (body : NEnv → NM NEnv) (brk : NEnv → NM Bool) (n : Nat) (e : NEnv) :
    nWhile cond body brk n e = (do let c ← cond e; if c then nWhileRun cond body brk n e else pure e) := by
  cases n with
  | zero =>
    simp only [nWhile, nWhileRun]
    cases cond e with
    | error x => rfl
    | ok c => cases c <;> rfl
  | succ n => rfl

/-- the outcome of the rounds: a loop on top of the stack, still running with the native result
so far, or ended with the native result -/
def LoopPost (r : Nat) (res : NM NEnv) (stk : List BCtx) (bs : BSt) (s : St) : Prop :=
  match res with
  | .ok E => TopRun r E stk bs s ∨ TopStop r E stk bs s
  | .error x => ErrOk x

theorem breakStep_stop {r : Nat} {EF : NEnv} {stk : List BCtx} {env : BEnv} {brk : Option BCond} {bs bs' : BSt} {s s' : St}
    (hp : TopStop r EF stk bs s) (h : breakStep env brk bs s = .ok (bs', s')) : TopStop r EF stk bs' s' := by
  unfold breakStep at h
  cases brk with
  | none => obtain ⟨rfl, rfl⟩ := pure_ok' h; exact hp
  | some bc =>
    obtain ⟨bcv, t4, h1, h⟩ := bind_ok.mp h
    obtain ⟨cb, nc, t5, _, hn, h⟩ := bBreakif_ok h
    have hp' : TopStop r EF stk bs t5 := ⟨hp.1, by rw [(boolNot_val hn).1.res, (evalC_same h1).res]; exact hp.2⟩
    exact bWhileNext_stop hp' h

theorem whileRound_stop {r : Nat} {EF : NEnv} {stk : List BCtx} {env : BEnv} {bodyT : BSt → M BSt} {bodyN : NEnv → NM NEnv}
    (hb : BodyOk r bodyT bodyN) {c : BCond} {brk : Option BCond} {bs bs' : BSt} {s s' : St}
    (hp : TopStop r EF stk bs s) (h : whileRound env bodyT c brk bs s = .ok (bs', s')) : TopStop r EF stk bs' s' := by
  unfold whileRound at h
  obtain ⟨b1, t1, h1, h⟩ := bind_ok.mp h
  obtain ⟨b2, t2, h2, h⟩ := bind_ok.mp h
  obtain ⟨cn, t3, h3, h⟩ := bind_ok.mp h
  have hp2 := breakStep_stop (hp.body hb h1) h2
  have hp3 : TopStop r EF stk b2 t3 := ⟨hp2.1, by rw [(evalC_same h3).res]; exact hp2.2⟩
  exact bWhileNext_stop hp3 h

theorem while_iter_stop {r : Nat} {EF : NEnv} {stk : List BCtx} {env : BEnv} {bodyT : BSt → M BSt} {bodyN : NEnv → NM NEnv}
    (hb : BodyOk r bodyT bodyN) {c : BCond} {brk : Option BCond} (n i : Nat) {bs bs' : BSt} {s s' : St}
    (hp : TopStop r EF stk bs s)
    (h : iterM n (fun _ bs => whileRound env bodyT c brk bs) i bs s = .ok (bs', s')) : TopStop r EF stk bs' s' :=
  iterM_inv (fun b t => TopStop r EF stk b t) _ (fun _ _ _ _ _ hp' hs => whileRound_stop hb hp' hs) n i bs s bs' s' hp h

/-- `_breakif(brk)` in a running loop -/
theorem breakStep_run {r : Nat} {E : NEnv} {stk : List BCtx} {env : BEnv} {nc : NCtx} (hi : RefI r env nc) {brk : Option BCond}
    {bs bs' : BSt} {s s' : St} (hp : TopRun r E stk bs s) (h : breakStep env brk bs s = .ok (bs', s')) :
    ∃ b, nBrk nc brk E = .ok b ∧ (b = false → TopRun r E stk bs' s') ∧ (b = true → TopStop r E stk bs' s') := by
  unfold breakStep at h
  cases brk with
  | none =>
    obtain ⟨rfl, rfl⟩ := pure_ok' h
    exact ⟨false, rfl, fun _ => hp, fun hb => by cases hb⟩
  | some bc =>
    obtain ⟨bcv, t1, h1, h⟩ := bind_ok.mp h
    obtain ⟨cb, nc', t2, hcb, hnot, h⟩ := bBreakif_ok h
    obtain ⟨ctx, hs, hr⟩ := hp
    obtain ⟨sm1, b, hnat, hvr⟩ := evalC_live hi hr.ref hr.live h1
    have vr := hvr cb hcb
    obtain ⟨sm2, v2, _⟩ := boolNot_val hnot
    have hp2 : TopRun r E stk bs t2 := ⟨ctx, hs, ⟨hr.isIf, hr.og, hr.cond, (hr.live.same sm1).same sm2, hr.ref, hr.nd⟩⟩
    obtain ⟨nw, hnw, a1, a0⟩ := bWhileNext_run hp2 h
    cases hnw
    refine ⟨b, hnat, ?_, ?_⟩
    · intro hb; subst hb
      exact a1 (by rw [v2, vr]; rfl)
    · intro hb; subst hb
      exact a0 (by rw [v2, vr]; rfl)

theorem while_iter_run {r : Nat} {stk : List BCtx} {env : BEnv} {nc : NCtx} (hi : RefI r env nc) {bodyT : BSt → M BSt}
    {bodyN : NEnv → NM NEnv} (hb : BodyOk r bodyT bodyN) {c : BCond} {brk : Option BCond} :
    ∀ (n i : Nat) {E : NEnv} {bs bs' : BSt} {s s' : St}, TopRun r E stk bs s →
      iterM n (fun _ bs => whileRound env bodyT c brk bs) i bs s = .ok (bs', s') →
      LoopPost r (nWhileRun (fun e => nEvalC nc e c) bodyN (nBrk nc brk) n E) stk bs' s'
  | 0, i, E, bs, bs', s, s', hp, h => by
    unfold iterM at h
    obtain ⟨rfl, rfl⟩ := pure_ok' h
    exact Or.inl hp
  | n+1, i, E, bs, bs', s, s', hp, h => by
    unfold iterM at h
    obtain ⟨b3, t3, hround, hrest⟩ := bind_ok.mp h
    unfold whileRound at hround
    obtain ⟨b1, t1, h1, hround⟩ := bind_ok.mp hround
    obtain ⟨b2, t2, h2, hround⟩ := bind_ok.mp hround
    obtain ⟨cn, t4, h4, hround⟩ := bind_ok.mp hround
    obtain ⟨ctx, hs, hr⟩ := hp
    have hbody := hb.live _ _ _ _ E hr.live hr.ref h1
    obtain ⟨⟨hst, _⟩, _⟩ := hb.struct _ _ _ _ h1
    simp only [nWhileRun]
    cases hN : bodyN E with
    | error x =>
      rw [hN] at hbody
      exact hbody
    | ok E1 =>
      rw [hN] at hbody
      obtain ⟨hl1, hr1⟩ := hbody
      have hp1 : TopRun r E1 stk b1 t1 := ⟨ctx, by rw [hst, hs], ⟨hr.isIf, hr.og, hr.cond, hl1, hr1, hr.nd⟩⟩
      obtain ⟨bb, hbrk, hgo, hstop⟩ := breakStep_run hi hp1 h2
      show LoopPost r (do let b ← nBrk nc brk E1; if b then pure E1 else nWhile _ bodyN (nBrk nc brk) n E1) stk bs' s'
      rw [hbrk]
      cases bb with
      | true =>
        have hp2 := hstop rfl
        have hp2' : TopStop r E1 stk b2 t4 := ⟨hp2.1, by rw [(evalC_same h4).res]; exact hp2.2⟩
        have hp3 := bWhileNext_stop hp2' hround
        exact Or.inr (while_iter_stop hb n (i+1) hp3 hrest)
      | false =>
        obtain ⟨ctx2, hs2, hr2⟩ := hgo rfl
        obtain ⟨sm4, b4, hnat4, hv4⟩ := evalC_live hi hr2.ref hr2.live h4
        have hp2' : TopRun r E1 stk b2 t4 := ⟨ctx2, hs2, ⟨hr2.isIf, hr2.og, hr2.cond, hr2.live.same sm4, hr2.ref, hr2.nd⟩⟩
        obtain ⟨nw, hnw, a1, a0⟩ := bWhileNext_run hp2' hround
        have v4 := hv4 nw hnw
        show LoopPost r (nWhile _ bodyN (nBrk nc brk) n E1) stk bs' s'
        rw [nWhile_eq]
        simp only [hnat4]
        cases b4 with
        | true => exact while_iter_run hi hb n (i+1) (a1 (by rw [v4]; rfl)) hrest
        | false => exact Or.inr (while_iter_stop hb n (i+1) (a0 (by rw [v4]; rfl)) hrest)

/-- a whole `while` statement -/
theorem while_stmt {r : Nat} {env : BEnv} {nc : NCtx} (hi : RefI r env nc) {bodyT : BSt → M BSt}
    {bodyN : NEnv → NM NEnv} (hb : BodyOk r bodyT bodyN) {c : BCond} {brk : Option BCond} {mx : Nat}
    {E : NEnv} {bs bs' : BSt} {s s' : St} (hl : Live r s) (hr : RefV r bs.bv.vals E)
    (h : (do let c0 ← evalC env bs.bv c
             let bs ← bWhilePush c0 bs
             let bs ← iterM mx (fun _ bs => whileRound env bodyT c brk bs) 0 bs
             bEndwhile bs) s = .ok (bs', s')) :
    Post r (nWhile (fun e => nEvalC nc e c) bodyN (nBrk nc brk) mx E) bs'.bv.vals s' := by
  obtain ⟨c0, s1, h1, ha⟩ := bind_ok.mp h
  obtain ⟨bs1, s2, h2, hb'⟩ := bind_ok.mp ha
  obtain ⟨bs2, s3, h3, hend⟩ := bind_ok.mp hb'
  clear h ha hb'
  obtain ⟨sm1, b, hnat, hvr⟩ := evalC_live hi hr hl h1
  obtain ⟨cl, hcl, _, a1, a0⟩ := bWhilePush_live (hl.same sm1) hr h2
  have vr := hvr cl hcl
  rw [nWhile_eq]
  simp only [hnat]
  cases b with
  | false =>
    have := while_iter_stop hb mx 0 (a0 (by rw [vr]; rfl)) h3
    obtain ⟨x, y⟩ := bEndwhile_stop this hend
    exact ⟨x, y⟩
  | true =>
    have hpost := while_iter_run hi hb mx 0 (a1 (by rw [vr]; rfl)) h3
    show Post r (nWhileRun _ bodyN (nBrk nc brk) mx E) bs'.bv.vals s'
    cases hN : nWhileRun (fun e => nEvalC nc e c) bodyN (nBrk nc brk) mx E with
    | error x =>
      rw [hN] at hpost
      exact hpost
    | ok EF =>
      rw [hN] at hpost
      rcases hpost with hrun | hstop
      · obtain ⟨x, y⟩ := bEndwhile_run hrun hend; exact ⟨x, y⟩
      · obtain ⟨x, y⟩ := bEndwhile_stop hstop hend; exact ⟨x, y⟩

end Pysnark

namespace Pysnark

/-! ## `for` -/

theorem nIter_succ (n : Nat) (f : Nat → NEnv → NM NEnv) (i : Nat) (e : NEnv) :
    nIter (n+1) f i e = (do let e ← f i e; nIter n f (i+1) e) := rfl

theorem neCmp_live {r : Nat} {ix : Nat} {st : LinComb} {v : Val} {s s' : St} (hl : Live r s)
    (h : cmpV .ne (.int ix) (.lc st) s = .ok (v, s')) :
    Same s s' ∧ ∃ l, v = .lcb l ∧ l.value = if (ix : Int) = st.value then 0 else 1 := by
  obtain ⟨sm, l, rfl, _, vl⟩ := cmpV_int_all (x := .int ix) (y := .lc st) trivial trivial h
  refine ⟨sm, l, rfl, ?_⟩
  rw [vl hl]; simp only [cmpSem, ival]
  by_cases hq : (ix : Int) = st.value <;> simp [hq]

theorem forRound_stop {r : Nat} {EF : NEnv} {stk : List BCtx} {env : BEnv} {lv : Nat} {st : LinComb}
    {body : BEnv → BSt → M BSt} {bodyN : Nat → NEnv → NM NEnv}
    (hb : ∀ ix : Nat, BodyOk r (body { env with lvs := (lv, (ix : Int)) :: env.lvs }) (bodyN ix))
    {ix : Nat} {bs bs' : BSt} {s s' : St} (hp : TopStop r EF stk bs s)
    (h : forRound env lv (.lc st) body ix bs s = .ok (bs', s')) : TopStop r EF stk bs' s' := by
  unfold forRound at h
  obtain ⟨c, t1, h1, h⟩ := bind_ok.mp h
  obtain ⟨b1, t2, h2, h⟩ := bind_ok.mp h
  have hp' : TopStop r EF stk bs t1 :=
    ⟨hp.1, by rw [(cmpV_int_all (x := .int ix) (y := .lc st) trivial trivial h1).1.res]; exact hp.2⟩
  exact (bWhileNext_stop hp' h2).body (hb ix) h

theorem for_iter_stop {r : Nat} {EF : NEnv} {stk : List BCtx} {env : BEnv} {lv : Nat} {st : LinComb}
    {body : BEnv → BSt → M BSt} {bodyN : Nat → NEnv → NM NEnv}
    (hb : ∀ ix : Nat, BodyOk r (body { env with lvs := (lv, (ix : Int)) :: env.lvs }) (bodyN ix))
    (n i : Nat) {bs bs' : BSt} {s s' : St} (hp : TopStop r EF stk bs s)
    (h : iterM n (forRound env lv (.lc st) body) i bs s = .ok (bs', s')) : TopStop r EF stk bs' s' :=
  iterM_inv (fun b t => TopStop r EF stk b t) _ (fun _ _ _ _ _ hp' hs => forRound_stop hb hp' hs) n i bs s bs' s' hp h

theorem TopRun.body {r : Nat} {E : NEnv} {stk : List BCtx} {bs bs' : BSt} {s s' : St} {bodyT : BSt → M BSt}
    {bodyN : NEnv → NM NEnv} (hb : BodyOk r bodyT bodyN) (hp : TopRun r E stk bs s)
    (h : bodyT bs s = .ok (bs', s')) :
    match bodyN E with
    | .ok E1 => TopRun r E1 stk bs' s'
    | .error x => ErrOk x := by
  obtain ⟨ctx, hs, hr⟩ := hp
  have hbody := hb.live _ _ _ _ E hr.live hr.ref h
  obtain ⟨⟨hst, _⟩, _⟩ := hb.struct _ _ _ _ h
  cases hN : bodyN E with
  | error x =>
    rw [hN] at hbody
    exact hbody
  | ok E1 =>
    rw [hN] at hbody
    exact ⟨ctx, by rw [hst, hs], ⟨hr.isIf, hr.og, hr.cond, hbody.1, hbody.2, hr.nd⟩⟩

theorem for_iter_run {r : Nat} {stk : List BCtx} {env : BEnv} {lv : Nat} {st : LinComb}
    {body : BEnv → BSt → M BSt} {bodyN : Nat → NEnv → NM NEnv}
    (hb : ∀ ix : Nat, BodyOk r (body { env with lvs := (lv, (ix : Int)) :: env.lvs }) (bodyN ix)) :
    ∀ (n ix : Nat) {E : NEnv} {bs bs' : BSt} {s s' : St}, TopRun r E stk bs s → (ix : Int) ≤ st.value →
      st.value ≤ ((ix + n : Nat) : Int) →
      iterM n (forRound env lv (.lc st) body) ix bs s = .ok (bs', s') →
      LoopPost r (nIter (st.value.toNat - ix) bodyN ix E) stk bs' s'
  | 0, ix, E, bs, bs', s, s', hp, h1, h2, h => by
    unfold iterM at h
    obtain ⟨rfl, rfl⟩ := pure_ok' h
    have : st.value.toNat - ix = 0 := by omega
    rw [this]
    exact Or.inl hp
  | n+1, ix, E, bs, bs', s, s', hp, h1, h2, h => by
    unfold iterM at h
    obtain ⟨b3, t3, hround, hrest⟩ := bind_ok.mp h
    unfold forRound at hround
    obtain ⟨c, t1, hc, hround⟩ := bind_ok.mp hround
    obtain ⟨b1, t2, hw, hbody⟩ := bind_ok.mp hround
    obtain ⟨ctx, hs, hr⟩ := hp
    obtain ⟨sm, l, rfl, vr⟩ := neCmp_live hr.live hc
    have hp' : TopRun r E stk bs t1 := ⟨ctx, hs, ⟨hr.isIf, hr.og, hr.cond, hr.live.same sm, hr.ref, hr.nd⟩⟩
    obtain ⟨nw, hnw, a1, a0⟩ := bWhileNext_run hp' hw
    cases hnw
    by_cases heq : (ix : Int) = st.value
    · -- the native loop has made all its rounds
      have hz : st.value.toNat - ix = 0 := by omega
      rw [hz]
      have hstop := (a0 (by rw [vr]; simp [heq])).body (hb ix) hbody
      exact Or.inr (for_iter_stop hb n (ix+1) hstop hrest)
    · have hk : st.value.toNat - ix = (st.value.toNat - (ix+1)) + 1 := by omega
      rw [hk, nIter_succ]
      have hrun := (a1 (by rw [vr]; simp [heq])).body (hb ix) hbody
      cases hN : bodyN ix E with
      | error x =>
        rw [hN] at hrun
        exact hrun
      | ok E1 =>
        rw [hN] at hrun
        exact for_iter_run hb n (ix+1) hrun (by push_cast; omega) (by push_cast at h2 ⊢; omega) hrest

/-- a whole `for` statement whose bound is inside its cap -/
theorem for_stmt {r : Nat} {env : BEnv} {lv : Nat} {st : LinComb} {mx : Nat}
    {body : BEnv → BSt → M BSt} {bodyN : Nat → NEnv → NM NEnv}
    (hb0 : BodyOk r (body { env with lvs := (lv, 0) :: env.lvs }) (bodyN 0))
    (hb : ∀ ix : Nat, BodyOk r (body { env with lvs := (lv, (ix : Int)) :: env.lvs }) (bodyN ix))
    {E : NEnv} {bs bs' : BSt} {s s' : St} (hl : Live r s) (hr : RefV r bs.bv.vals E)
    (hcap : 0 ≤ st.value ∧ st.value ≤ mx)
    (h : (do let c0 ← cmpV .ne (.int 0) (.lc st)
             let bs ← bWhilePush c0 bs
             let bs ← body { env with lvs := (lv, 0) :: env.lvs } bs
             let bs ← iterM (mx - 1) (forRound env lv (.lc st) body) 1 bs
             bEndwhile bs) s = .ok (bs', s')) :
    Post r (nIter st.value.toNat bodyN 0 E) bs'.bv.vals s' := by
  obtain ⟨c0, s1, h1, ha⟩ := bind_ok.mp h
  obtain ⟨bs1, s2, h2, hb'⟩ := bind_ok.mp ha
  obtain ⟨bs2, s3, h3, hc'⟩ := bind_ok.mp hb'
  obtain ⟨bs3, s4, h4, hend⟩ := bind_ok.mp hc'
  clear h ha hb' hc'
  obtain ⟨sm, l, rfl, vr⟩ := neCmp_live (ix := 0) hl h1
  obtain ⟨cl, hcl, _, a1, a0⟩ := bWhilePush_live (hl.same sm) hr h2
  cases hcl
  by_cases heq : ((0 : Nat) : Int) = st.value
  · have hz : st.value.toNat = 0 := by omega
    rw [hz]
    have hstop := (a0 (by rw [vr, if_pos heq])).body hb0 h3
    obtain ⟨x, y⟩ := bEndwhile_stop (for_iter_stop hb (mx - 1) 1 hstop h4) hend
    exact ⟨x, y⟩
  · have hk : st.value.toNat = (st.value.toNat - 1) + 1 := by omega
    rw [hk, nIter_succ]
    have hrun := (a1 (by rw [vr, if_neg heq])).body hb0 h3
    cases hN : bodyN 0 E with
    | error x =>
      rw [hN] at hrun
      exact hrun
    | ok E1 =>
      rw [hN] at hrun
      have hpost := for_iter_run hb (mx - 1) 1 hrun (by omega) (by omega) h4
      show Post r (nIter (st.value.toNat - 1) bodyN (0+1) E1) bs'.bv.vals s'
      cases hF : nIter (st.value.toNat - 1) bodyN (0+1) E1 with
      | error x =>
        rw [show (0 + 1 : Nat) = 1 from rfl] at hF
        rw [hF] at hpost
        exact hpost
      | ok EF =>
        rw [show (0 + 1 : Nat) = 1 from rfl] at hF
        rw [hF] at hpost
        rcases hpost with hrun' | hstop'
        · obtain ⟨x, y⟩ := bEndwhile_run hrun' hend; exact ⟨x, y⟩
        · obtain ⟨x, y⟩ := bEndwhile_stop hstop' hend; exact ⟨x, y⟩

end Pysnark
