import PysnarkModel.Lemmas.BranchChain
/-!
# Block branching: `while` and `for` loops compute what the native loops compute

A loop keeps one `WhileContext` whose condition is the conjunction of all loop tests so far (and
of the negated break conditions).  While that conjunction is 1 the rounds run under a true guard
and follow the native loop; once it is 0 every later round runs under a false guard and the
variables stay what the native loop ended with.
-/
namespace Pysnark

/-- a round in progress, the loop is still running natively; `E`: the native variables -/
structure LoopRun (E : NEnv) (ctx : BCtx) (vals : Vals) (s : St) : Prop where
  isIf : ctx.isIf = false
  og : LiveT ctx.origguard
  cond : ctx.cond.value = 1
  live : Live s
  ref : RefV vals E
  nd : ∀ nd0, ctx.nodefvals = some nd0 → nd0 = []

/-- a round in progress, the native loop has ended with `EF` -/
structure LoopStop (EF : NEnv) (ctx : BCtx) (vals : Vals) : Prop where
  isIf : ctx.isIf = false
  og : LiveT ctx.origguard
  cond : ctx.cond.value = 0
  bak : RefV ctx.bak EF
  mono : ∀ x, ctx.bak.has x = true → vals.has x = true
  nd : ∀ nd0, ctx.nodefvals = some nd0 → nd0 = []

theorem LoopStop.mono' {EF : NEnv} {ctx : BCtx} {vals vals' : Vals} (hp : LoopStop EF ctx vals)
    (h : ∀ x, vals.has x = true → vals'.has x = true) : LoopStop EF ctx vals' :=
  ⟨hp.isIf, hp.og, hp.cond, hp.bak, fun x hx => h x (hp.mono x hx), hp.nd⟩

theorem whileExit_run {E : NEnv} {ctx ctx1 : BCtx} {bv bv1 : BV} {s s1 : St} (hp : LoopRun E ctx bv.vals s)
    (h : whileExit ctx bv s = .ok ((ctx1, bv1), s1)) :
    Live s1 ∧ RefV bv1.vals E ∧ ctx1.isIf = false ∧ ctx1.cond.value = 1 ∧ ctx1.nodefvals = some [] := by
  obtain ⟨hx, hemp⟩ := whileExit_ok h
  obtain ⟨e1, _, e3, _, _, _⟩ := exit_struct hx
  obtain ⟨hl, nd, hn, hv, _, _⟩ := exit_live hp.cond hp.og hx
  have hnil : nd = [] := by
    simp only [hn, Option.getD_some] at hemp
    exact List.isEmpty_iff.mp hemp
  subst hnil
  exact ⟨hl, fun x => ((view_nil _ x).symm.trans (hv x)).trans (hp.ref x), e1 ▸ hp.isIf, e3 ▸ hp.cond, hn⟩

theorem whileExit_stop {EF : NEnv} {ctx ctx1 : BCtx} {bv bv1 : BV} {s s1 : St} (hp : LoopStop EF ctx bv.vals)
    (h : whileExit ctx bv s = .ok ((ctx1, bv1), s1)) :
    Live s1 ∧ RefV bv1.vals EF ∧ ctx1.isIf = false ∧ ctx1.cond.value = 0 ∧ ctx1.nodefvals = some [] := by
  obtain ⟨hx, hemp⟩ := whileExit_ok h
  obtain ⟨e1, _, e3, _, _, _⟩ := exit_struct hx
  obtain ⟨hl, nd, hn, hv, _, _⟩ := exit_dead hp.cond hp.og hp.mono
    (fun nd0 h0 => by rw [hp.nd nd0 h0]; intro x hx; simp [Vals.has, Vals.get?] at hx) hx
  have hnil : nd = [] := by
    simp only [hn, Option.getD_some] at hemp
    exact List.isEmpty_iff.mp hemp
  subst hnil
  exact ⟨hl, fun x => (hv x).trans (hp.bak x), e1 ▸ hp.isIf, e3 ▸ hp.cond, hn⟩

/-- `_while(nw)` in a running loop: the loop goes on iff `nw` -/
theorem whileNext_run {E : NEnv} {ctx ctx' : BCtx} {nw : LinComb} {bv bv' : BV} {s s' : St}
    (hp : LoopRun E ctx bv.vals s) (h : whileNext ctx nw bv s = .ok ((ctx', bv'), s')) :
    (nw.value = 1 → LoopRun E ctx' bv'.vals s') ∧ (nw.value = 0 → LoopStop E ctx' bv'.vals) := by
  obtain ⟨ctx1, s1, c, s2, he, hc, hen⟩ := whileNext_ok h
  obtain ⟨hl, hr, hif, hcv, hnd⟩ := whileExit_run hp he
  obtain ⟨sm, vc, _⟩ := andBB_val hc
  obtain ⟨rfl, hlt, hl1⟩ := enter_live (hl.same sm) hen
  constructor
  · intro h1
    have : c.value = 1 := by rw [vc, hcv, h1]; rfl
    exact ⟨hif, hlt, this, hl1 this, hr, fun nd0 h0 => by rw [hnd] at h0; cases h0; rfl⟩
  · intro h0
    have : c.value = 0 := by rw [vc, hcv, h0]; rfl
    exact ⟨hif, hlt, this, hr, fun x hx => hx, fun nd0 h0 => by rw [hnd] at h0; cases h0; rfl⟩

/-- `_while(nw)` in a loop that has ended: it stays ended -/
theorem whileNext_stop {EF : NEnv} {ctx ctx' : BCtx} {nw : LinComb} {bv bv' : BV} {s s' : St}
    (hp : LoopStop EF ctx bv.vals) (h : whileNext ctx nw bv s = .ok ((ctx', bv'), s')) :
    LoopStop EF ctx' bv'.vals := by
  obtain ⟨ctx1, s1, c, s2, he, hc, hen⟩ := whileNext_ok h
  obtain ⟨hl, hr, hif, hcv, hnd⟩ := whileExit_stop hp he
  obtain ⟨sm, vc, _⟩ := andBB_val hc
  obtain ⟨rfl, hlt, _⟩ := enter_live (hl.same sm) hen
  have : c.value = 0 := by rw [vc, hcv]; ring
  exact ⟨hif, hlt, this, hr, fun x hx => hx, fun nd0 h0 => by rw [hnd] at h0; cases h0; rfl⟩

/-- `WhileContext(c)` from a live state -/
theorem whileNew_live {E : NEnv} {c : LinComb} {bv : BV} {ctx : BCtx} {s s' : St} (hl : Live s) (hr : RefV bv.vals E)
    (h : whileNew c bv s = .ok (ctx, s')) :
    (c.value = 1 → LoopRun E ctx bv.vals s') ∧ (c.value = 0 → LoopStop E ctx bv.vals) := by
  obtain ⟨og, hg, rfl⟩ := whileNew_ok h
  obtain ⟨rfl, hl1⟩ := addGuard_live hl hg
  exact ⟨fun h1 => ⟨rfl, hl.triple, h1, hl1 h1, hr, fun nd0 h0 => by cases h0⟩,
    fun h0 => ⟨rfl, hl.triple, h0, hr, fun x hx => hx, fun nd0 h0 => by cases h0⟩⟩

/-! ## with the stack -/
/-- the context on top of the stack is a loop in one of the two states -/
def TopRun (E : NEnv) (stk : List BCtx) (bs : BSt) (s : St) : Prop :=
  ∃ ctx, bs.stack = ctx :: stk ∧ LoopRun E ctx bs.bv.vals s
def TopStop (EF : NEnv) (stk : List BCtx) (bs : BSt) : Prop :=
  ∃ ctx, bs.stack = ctx :: stk ∧ LoopStop EF ctx bs.bv.vals

theorem bWhileNext_run {E : NEnv} {stk : List BCtx} {bs bs' : BSt} {nw : LinComb} {s s' : St}
    (hp : TopRun E stk bs s) (h : bWhileNext (.lcb nw) bs s = .ok (bs', s')) :
    (nw.value = 1 → TopRun E stk bs' s') ∧ (nw.value = 0 → TopStop E stk bs') := by
  obtain ⟨ctx0, hs0, hr⟩ := hp
  obtain ⟨ctx, rest, c, ctx', bv', hs, _, hc, hw, rfl⟩ := bWhileNext_ok h
  rw [hs0] at hs; cases hs; cases hc
  obtain ⟨a, b⟩ := whileNext_run hr hw
  exact ⟨fun h1 => ⟨ctx', rfl, a h1⟩, fun h0 => ⟨ctx', rfl, b h0⟩⟩

theorem bWhileNext_stop {EF : NEnv} {stk : List BCtx} {bs bs' : BSt} {cond : Val} {s s' : St}
    (hp : TopStop EF stk bs) (h : bWhileNext cond bs s = .ok (bs', s')) : TopStop EF stk bs' := by
  obtain ⟨ctx0, hs0, hr⟩ := hp
  obtain ⟨ctx, rest, c, ctx', bv', hs, _, _, hw, rfl⟩ := bWhileNext_ok h
  rw [hs0] at hs; cases hs
  exact ⟨ctx', rfl, whileNext_stop hr hw⟩

theorem bEndwhile_run {E : NEnv} {stk : List BCtx} {bs bs' : BSt} {s s' : St} (hp : TopRun E stk bs s)
    (h : bEndwhile bs s = .ok (bs', s')) : Live s' ∧ RefV bs'.bv.vals E := by
  obtain ⟨ctx0, hs0, hr⟩ := hp
  obtain ⟨ctx, rest, bv', hs, rfl, hcase⟩ := bEnd_ok (Or.inr h)
  rw [hs0] at hs; cases hs
  rcases hcase with ⟨hi, _⟩ | ⟨_, ctx', he⟩
  · rw [hr.isIf] at hi; cases hi
  · obtain ⟨hl, hv, _⟩ := whileExit_run hr he
    exact ⟨hl, hv⟩

theorem bEndwhile_stop {EF : NEnv} {stk : List BCtx} {bs bs' : BSt} {s s' : St} (hp : TopStop EF stk bs)
    (h : bEndwhile bs s = .ok (bs', s')) : Live s' ∧ RefV bs'.bv.vals EF := by
  obtain ⟨ctx0, hs0, hr⟩ := hp
  obtain ⟨ctx, rest, bv', hs, rfl, hcase⟩ := bEnd_ok (Or.inr h)
  rw [hs0] at hs; cases hs
  rcases hcase with ⟨hi, _⟩ | ⟨_, ctx', he⟩
  · rw [hr.isIf] at hi; cases hi
  · obtain ⟨hl, hv, _⟩ := whileExit_stop hr he
    exact ⟨hl, hv⟩

theorem bWhilePush_live {E : NEnv} {bs bs' : BSt} {c : LinComb} {s s' : St} (hl : Live s) (hr : RefV bs.bv.vals E)
    (h : bWhilePush (.lcb c) bs s = .ok (bs', s')) :
    (c.value = 1 → TopRun E bs.stack bs' s') ∧ (c.value = 0 → TopStop E bs.stack bs') := by
  obtain ⟨c', ctx, hc, hn, rfl⟩ := bWhilePush_ok h
  cases hc
  obtain ⟨a, b⟩ := whileNew_live hl hr hn
  exact ⟨fun h1 => ⟨ctx, rfl, a h1⟩, fun h0 => ⟨ctx, rfl, b h0⟩⟩

/-- what is assumed of the body of a loop (instantiated with the induction hypotheses) -/
structure BodyOk (bodyT : BSt → M BSt) (bodyN : NEnv → NM NEnv) : Prop where
  live : ∀ bs s bs' s' E, Live s → RefV bs.bv.vals E → bodyT bs s = .ok (bs', s') → Post (bodyN E) bs'.bv.vals s'
  struct : ∀ bs s bs' s', bodyT bs s = .ok (bs', s') →
    bs'.stack = bs.stack ∧ ∀ x, bs.bv.vals.has x = true → bs'.bv.vals.has x = true

theorem TopStop.body {EF : NEnv} {stk : List BCtx} {bs bs' : BSt} {s s' : St} {bodyT : BSt → M BSt}
    {bodyN : NEnv → NM NEnv} (hb : BodyOk bodyT bodyN) (hp : TopStop EF stk bs)
    (h : bodyT bs s = .ok (bs', s')) : TopStop EF stk bs' := by
  obtain ⟨ctx, hs, hr⟩ := hp
  obtain ⟨hst, hdom⟩ := hb.struct _ _ _ _ h
  exact ⟨ctx, by rw [hst, hs], hr.mono' hdom⟩

/-! ## `while` -/

/-- what is left of the native loop when the test of the current round was true; `n` rounds left -/
def nWhileRun (cond : NEnv → NM Bool) (body : NEnv → NM NEnv) (brk : NEnv → NM Bool) : Nat → NEnv → NM NEnv
  | 0, e => .ok e
  | n+1, e => do
    let e ← body e
    let b ← brk e
    if b then pure e else nWhile cond body brk n e

theorem nWhile_eq (cond : NEnv → NM Bool) (body : NEnv → NM NEnv) (brk : NEnv → NM Bool) (n : Nat) (e : NEnv) :
    nWhile cond body brk n e = (do let c ← cond e; if c then nWhileRun cond body brk n e else pure e) := by
  cases n with
  | zero =>
    simp only [nWhile, nWhileRun]
    cases cond e with
    | error x => rfl
    | ok c => cases c <;> rfl
  | succ n => rfl

/-- the outcome of the rounds: a loop on top of the stack, still running with the native result
so far, or ended with the native result -/
def LoopPost (r : NM NEnv) (stk : List BCtx) (bs : BSt) (s : St) : Prop :=
  match r with
  | .ok E => TopRun E stk bs s ∨ TopStop E stk bs
  | .error .uncapped => True
  | .error .name => False

theorem breakStep_stop {EF : NEnv} {stk : List BCtx} {env : BEnv} {brk : Option BCond} {bs bs' : BSt} {s s' : St}
    (hp : TopStop EF stk bs) (h : breakStep env brk bs s = .ok (bs', s')) : TopStop EF stk bs' := by
  unfold breakStep at h
  cases brk with
  | none => obtain ⟨rfl, rfl⟩ := pure_ok' h; exact hp
  | some bc =>
    obtain ⟨bcv, t4, _, h⟩ := bind_ok.mp h
    obtain ⟨cb, nc, t5, _, _, h⟩ := bBreakif_ok h
    exact bWhileNext_stop hp h

theorem whileRound_stop {EF : NEnv} {stk : List BCtx} {env : BEnv} {bodyT : BSt → M BSt} {bodyN : NEnv → NM NEnv}
    (hb : BodyOk bodyT bodyN) {c : BCond} {brk : Option BCond} {bs bs' : BSt} {s s' : St}
    (hp : TopStop EF stk bs) (h : whileRound env bodyT c brk bs s = .ok (bs', s')) : TopStop EF stk bs' := by
  unfold whileRound at h
  obtain ⟨b1, t1, h1, h⟩ := bind_ok.mp h
  obtain ⟨b2, t2, h2, h⟩ := bind_ok.mp h
  obtain ⟨cn, t3, _, h⟩ := bind_ok.mp h
  exact bWhileNext_stop (breakStep_stop (hp.body hb h1) h2) h

theorem while_iter_stop {EF : NEnv} {stk : List BCtx} {env : BEnv} {bodyT : BSt → M BSt} {bodyN : NEnv → NM NEnv}
    (hb : BodyOk bodyT bodyN) {c : BCond} {brk : Option BCond} (n i : Nat) {bs bs' : BSt} {s s' : St}
    (hp : TopStop EF stk bs)
    (h : iterM n (fun _ bs => whileRound env bodyT c brk bs) i bs s = .ok (bs', s')) : TopStop EF stk bs' :=
  iterM_inv (fun b _ => TopStop EF stk b) _ (fun _ _ _ _ _ hp' hs => whileRound_stop hb hp' hs) n i bs s bs' s' hp h

/-- `_breakif(brk)` in a running loop -/
theorem breakStep_run {E : NEnv} {stk : List BCtx} {env : BEnv} {nc : NCtx} (hi : RefI env nc) {brk : Option BCond}
    {bs bs' : BSt} {s s' : St} (hp : TopRun E stk bs s) (h : breakStep env brk bs s = .ok (bs', s')) :
    ∃ b, nBrk nc brk E = .ok b ∧ (b = false → TopRun E stk bs' s') ∧ (b = true → TopStop E stk bs') := by
  unfold breakStep at h
  cases brk with
  | none =>
    obtain ⟨rfl, rfl⟩ := pure_ok' h
    exact ⟨false, rfl, fun _ => hp, fun hb => by cases hb⟩
  | some bc =>
    obtain ⟨bcv, t1, h1, h⟩ := bind_ok.mp h
    obtain ⟨cb, nc', t2, hcb, hnot, h⟩ := bBreakif_ok h
    obtain ⟨ctx, hs, hr⟩ := hp
    obtain ⟨sm1, b, r, hnat, hr', vr⟩ := evalC_live hi hr.ref hr.live h1
    rw [hcb] at hr'; cases hr'
    obtain ⟨sm2, v2, _⟩ := boolNot_val hnot
    have hp2 : TopRun E stk bs t2 := ⟨ctx, hs, ⟨hr.isIf, hr.og, hr.cond, (hr.live.same sm1).same sm2, hr.ref, hr.nd⟩⟩
    obtain ⟨a1, a0⟩ := bWhileNext_run hp2 h
    refine ⟨b, hnat, ?_, ?_⟩
    · intro hb; subst hb
      exact a1 (by rw [v2, vr]; rfl)
    · intro hb; subst hb
      exact a0 (by rw [v2, vr]; rfl)

theorem while_iter_run {stk : List BCtx} {env : BEnv} {nc : NCtx} (hi : RefI env nc) {bodyT : BSt → M BSt}
    {bodyN : NEnv → NM NEnv} (hb : BodyOk bodyT bodyN) {c : BCond} {brk : Option BCond} :
    ∀ (n i : Nat) {E : NEnv} {bs bs' : BSt} {s s' : St}, TopRun E stk bs s →
      iterM n (fun _ bs => whileRound env bodyT c brk bs) i bs s = .ok (bs', s') →
      LoopPost (nWhileRun (fun e => nEvalC nc e c) bodyN (nBrk nc brk) n E) stk bs' s'
  | 0, i, E, bs, bs', s, s', hp, h => by
    unfold iterM at h
    obtain ⟨rfl, rfl⟩ := pure_ok' h
    exact Or.inl hp
  | n+1, i, E, bs, bs', s, s', hp, h => by
    unfold iterM at h
    obtain ⟨b3, t3, hround, hrest⟩ := bind_ok.mp h
    unfold whileRound at hround
    obtain ⟨b1, t1, h1, hround⟩ := bind_ok.mp hround
    obtain ⟨b2, t2, h2, hround⟩ := bind_ok.mp hround
    obtain ⟨cn, t4, h4, hround⟩ := bind_ok.mp hround
    obtain ⟨ctx, hs, hr⟩ := hp
    have hbody := hb.live _ _ _ _ E hr.live hr.ref h1
    obtain ⟨hst, _⟩ := hb.struct _ _ _ _ h1
    simp only [nWhileRun]
    cases hN : bodyN E with
    | error x =>
      rw [hN] at hbody
      cases x with
      | name => exact hbody.elim
      | uncapped => trivial
    | ok E1 =>
      rw [hN] at hbody
      obtain ⟨hl1, hr1⟩ := hbody
      have hp1 : TopRun E1 stk b1 t1 := ⟨ctx, by rw [hst, hs], ⟨hr.isIf, hr.og, hr.cond, hl1, hr1, hr.nd⟩⟩
      obtain ⟨bb, hbrk, hgo, hstop⟩ := breakStep_run hi hp1 h2
      show LoopPost (do let b ← nBrk nc brk E1; if b then pure E1 else nWhile _ bodyN (nBrk nc brk) n E1) stk bs' s'
      rw [hbrk]
      cases bb with
      | true =>
        have hp3 := bWhileNext_stop (hstop rfl) hround
        exact Or.inr (while_iter_stop hb n (i+1) hp3 hrest)
      | false =>
        obtain ⟨ctx2, hs2, hr2⟩ := hgo rfl
        obtain ⟨sm4, b4, r4, hnat4, hcn, v4⟩ := evalC_live hi hr2.ref hr2.live h4
        subst hcn
        have hp2' : TopRun E1 stk b2 t4 := ⟨ctx2, hs2, ⟨hr2.isIf, hr2.og, hr2.cond, hr2.live.same sm4, hr2.ref, hr2.nd⟩⟩
        obtain ⟨a1, a0⟩ := bWhileNext_run hp2' hround
        show LoopPost (nWhile _ bodyN (nBrk nc brk) n E1) stk bs' s'
        rw [nWhile_eq]
        simp only [hnat4]
        cases b4 with
        | true => exact while_iter_run hi hb n (i+1) (a1 (by rw [v4]; rfl)) hrest
        | false => exact Or.inr (while_iter_stop hb n (i+1) (a0 (by rw [v4]; rfl)) hrest)

/-- a whole `while` statement -/
theorem while_stmt {env : BEnv} {nc : NCtx} (hi : RefI env nc) {bodyT : BSt → M BSt}
    {bodyN : NEnv → NM NEnv} (hb : BodyOk bodyT bodyN) {c : BCond} {brk : Option BCond} {mx : Nat}
    {E : NEnv} {bs bs' : BSt} {s s' : St} (hl : Live s) (hr : RefV bs.bv.vals E)
    (h : (do let c0 ← evalC env bs.bv c
             let bs ← bWhilePush c0 bs
             let bs ← iterM mx (fun _ bs => whileRound env bodyT c brk bs) 0 bs
             bEndwhile bs) s = .ok (bs', s')) :
    Post (nWhile (fun e => nEvalC nc e c) bodyN (nBrk nc brk) mx E) bs'.bv.vals s' := by
  obtain ⟨c0, s1, h1, ha⟩ := bind_ok.mp h
  obtain ⟨bs1, s2, h2, hb'⟩ := bind_ok.mp ha
  obtain ⟨bs2, s3, h3, hend⟩ := bind_ok.mp hb'
  clear h ha hb'
  obtain ⟨sm1, b, r, hnat, hc0, vr⟩ := evalC_live hi hr hl h1
  subst hc0
  obtain ⟨a1, a0⟩ := bWhilePush_live (hl.same sm1) hr h2
  rw [nWhile_eq]
  simp only [hnat]
  cases b with
  | false =>
    have := while_iter_stop hb mx 0 (a0 (by rw [vr]; rfl)) h3
    obtain ⟨x, y⟩ := bEndwhile_stop this hend
    exact ⟨x, y⟩
  | true =>
    have hpost := while_iter_run hi hb mx 0 (a1 (by rw [vr]; rfl)) h3
    show Post (nWhileRun _ bodyN (nBrk nc brk) mx E) bs'.bv.vals s'
    cases hN : nWhileRun (fun e => nEvalC nc e c) bodyN (nBrk nc brk) mx E with
    | error x =>
      rw [hN] at hpost
      cases x with
      | name => exact hpost.elim
      | uncapped => trivial
    | ok EF =>
      rw [hN] at hpost
      rcases hpost with hrun | hstop
      · obtain ⟨x, y⟩ := bEndwhile_run hrun hend; exact ⟨x, y⟩
      · obtain ⟨x, y⟩ := bEndwhile_stop hstop hend; exact ⟨x, y⟩

end Pysnark

namespace Pysnark

/-! ## `for` -/

theorem nIter_succ (n : Nat) (f : Nat → NEnv → NM NEnv) (i : Nat) (e : NEnv) :
    nIter (n+1) f i e = (do let e ← f i e; nIter n f (i+1) e) := rfl

theorem neCmp_live {ix : Nat} {st : LinComb} {v : Val} {s s' : St} (hl : Live s)
    (h : cmpV .ne (.int ix) (.lc st) s = .ok (v, s')) :
    Same s s' ∧ ∃ r, v = .lcb r ∧ r.value = if (ix : Int) = st.value then 0 else 1 := by
  obtain ⟨sm, r, rfl, vr⟩ := cmpV_int_live hl (x := .int ix) (y := .lc st) trivial trivial h
  refine ⟨sm, r, rfl, ?_⟩
  rw [vr]; simp only [cmpSem, ival]
  by_cases hq : (ix : Int) = st.value <;> simp [hq]

theorem forRound_stop {EF : NEnv} {stk : List BCtx} {env : BEnv} {lv : Nat} {stop : Val}
    {body : BEnv → BSt → M BSt} {bodyN : Nat → NEnv → NM NEnv}
    (hb : ∀ ix : Nat, BodyOk (body { env with lvs := (lv, (ix : Int)) :: env.lvs }) (bodyN ix))
    {ix : Nat} {bs bs' : BSt} {s s' : St} (hp : TopStop EF stk bs)
    (h : forRound env lv stop body ix bs s = .ok (bs', s')) : TopStop EF stk bs' := by
  unfold forRound at h
  obtain ⟨c, t1, _, h⟩ := bind_ok.mp h
  obtain ⟨b1, t2, h2, h⟩ := bind_ok.mp h
  exact (bWhileNext_stop hp h2).body (hb ix) h

theorem for_iter_stop {EF : NEnv} {stk : List BCtx} {env : BEnv} {lv : Nat} {stop : Val}
    {body : BEnv → BSt → M BSt} {bodyN : Nat → NEnv → NM NEnv}
    (hb : ∀ ix : Nat, BodyOk (body { env with lvs := (lv, (ix : Int)) :: env.lvs }) (bodyN ix))
    (n i : Nat) {bs bs' : BSt} {s s' : St} (hp : TopStop EF stk bs)
    (h : iterM n (forRound env lv stop body) i bs s = .ok (bs', s')) : TopStop EF stk bs' :=
  iterM_inv (fun b _ => TopStop EF stk b) _ (fun _ _ _ _ _ hp' hs => forRound_stop hb hp' hs) n i bs s bs' s' hp h

theorem TopRun.body {E : NEnv} {stk : List BCtx} {bs bs' : BSt} {s s' : St} {bodyT : BSt → M BSt}
    {bodyN : NEnv → NM NEnv} (hb : BodyOk bodyT bodyN) (hp : TopRun E stk bs s)
    (h : bodyT bs s = .ok (bs', s')) :
    match bodyN E with
    | .ok E1 => TopRun E1 stk bs' s'
    | .error .uncapped => True
    | .error .name => False := by
  obtain ⟨ctx, hs, hr⟩ := hp
  have hbody := hb.live _ _ _ _ E hr.live hr.ref h
  obtain ⟨hst, _⟩ := hb.struct _ _ _ _ h
  cases hN : bodyN E with
  | error x =>
    rw [hN] at hbody
    cases x with
    | name => exact hbody.elim
    | uncapped => trivial
  | ok E1 =>
    rw [hN] at hbody
    exact ⟨ctx, by rw [hst, hs], ⟨hr.isIf, hr.og, hr.cond, hbody.1, hbody.2, hr.nd⟩⟩

theorem for_iter_run {stk : List BCtx} {env : BEnv} {lv : Nat} {st : LinComb}
    {body : BEnv → BSt → M BSt} {bodyN : Nat → NEnv → NM NEnv}
    (hb : ∀ ix : Nat, BodyOk (body { env with lvs := (lv, (ix : Int)) :: env.lvs }) (bodyN ix)) :
    ∀ (n ix : Nat) {E : NEnv} {bs bs' : BSt} {s s' : St}, TopRun E stk bs s → (ix : Int) ≤ st.value →
      st.value ≤ ((ix + n : Nat) : Int) →
      iterM n (forRound env lv (.lc st) body) ix bs s = .ok (bs', s') →
      LoopPost (nIter (st.value.toNat - ix) bodyN ix E) stk bs' s'
  | 0, ix, E, bs, bs', s, s', hp, h1, h2, h => by
    unfold iterM at h
    obtain ⟨rfl, rfl⟩ := pure_ok' h
    have : st.value.toNat - ix = 0 := by omega
    rw [this]
    exact Or.inl hp
  | n+1, ix, E, bs, bs', s, s', hp, h1, h2, h => by
    unfold iterM at h
    obtain ⟨b3, t3, hround, hrest⟩ := bind_ok.mp h
    unfold forRound at hround
    obtain ⟨c, t1, hc, hround⟩ := bind_ok.mp hround
    obtain ⟨b1, t2, hw, hbody⟩ := bind_ok.mp hround
    obtain ⟨ctx, hs, hr⟩ := hp
    obtain ⟨sm, r, rfl, vr⟩ := neCmp_live hr.live hc
    have hp' : TopRun E stk bs t1 := ⟨ctx, hs, ⟨hr.isIf, hr.og, hr.cond, hr.live.same sm, hr.ref, hr.nd⟩⟩
    obtain ⟨a1, a0⟩ := bWhileNext_run hp' hw
    by_cases heq : (ix : Int) = st.value
    · -- the native loop has made all its rounds
      have hz : st.value.toNat - ix = 0 := by omega
      rw [hz]
      have hstop := (a0 (by rw [vr]; simp [heq])).body (hb ix) hbody
      exact Or.inr (for_iter_stop hb n (ix+1) hstop hrest)
    · have hk : st.value.toNat - ix = (st.value.toNat - (ix+1)) + 1 := by omega
      rw [hk, nIter_succ]
      have hrun := (a1 (by rw [vr]; simp [heq])).body (hb ix) hbody
      cases hN : bodyN ix E with
      | error x =>
        rw [hN] at hrun
        cases x with
        | name => exact hrun.elim
        | uncapped => trivial
      | ok E1 =>
        rw [hN] at hrun
        exact for_iter_run hb n (ix+1) hrun (by push_cast; omega) (by push_cast at h2 ⊢; omega) hrest

/-- a whole `for` statement whose bound is inside its cap -/
theorem for_stmt {env : BEnv} {lv : Nat} {st : LinComb} {mx : Nat}
    {body : BEnv → BSt → M BSt} {bodyN : Nat → NEnv → NM NEnv}
    (hb0 : BodyOk (body { env with lvs := (lv, 0) :: env.lvs }) (bodyN 0))
    (hb : ∀ ix : Nat, BodyOk (body { env with lvs := (lv, (ix : Int)) :: env.lvs }) (bodyN ix))
    {E : NEnv} {bs bs' : BSt} {s s' : St} (hl : Live s) (hr : RefV bs.bv.vals E)
    (hcap : 0 ≤ st.value ∧ st.value ≤ mx)
    (h : (do let c0 ← cmpV .ne (.int 0) (.lc st)
             let bs ← bWhilePush c0 bs
             let bs ← body { env with lvs := (lv, 0) :: env.lvs } bs
             let bs ← iterM (mx - 1) (forRound env lv (.lc st) body) 1 bs
             bEndwhile bs) s = .ok (bs', s')) :
    Post (nIter st.value.toNat bodyN 0 E) bs'.bv.vals s' := by
  obtain ⟨c0, s1, h1, ha⟩ := bind_ok.mp h
  obtain ⟨bs1, s2, h2, hb'⟩ := bind_ok.mp ha
  obtain ⟨bs2, s3, h3, hc'⟩ := bind_ok.mp hb'
  obtain ⟨bs3, s4, h4, hend⟩ := bind_ok.mp hc'
  clear h ha hb' hc'
  obtain ⟨sm, r, rfl, vr⟩ := neCmp_live (ix := 0) hl h1
  obtain ⟨a1, a0⟩ := bWhilePush_live (hl.same sm) hr h2
  by_cases heq : ((0 : Nat) : Int) = st.value
  · have hz : st.value.toNat = 0 := by omega
    rw [hz]
    have hstop := (a0 (by rw [vr, if_pos heq])).body hb0 h3
    obtain ⟨x, y⟩ := bEndwhile_stop (for_iter_stop hb (mx - 1) 1 hstop h4) hend
    exact ⟨x, y⟩
  · have hk : st.value.toNat = (st.value.toNat - 1) + 1 := by omega
    rw [hk, nIter_succ]
    have hrun := (a1 (by rw [vr, if_neg heq])).body hb0 h3
    cases hN : bodyN 0 E with
    | error x =>
      rw [hN] at hrun
      cases x with
      | name => exact hrun.elim
      | uncapped => trivial
    | ok E1 =>
      rw [hN] at hrun
      have hpost := for_iter_run hb (mx - 1) 1 hrun (by omega) (by omega) h4
      show Post (nIter (st.value.toNat - 1) bodyN (0+1) E1) bs'.bv.vals s'
      cases hF : nIter (st.value.toNat - 1) bodyN (0+1) E1 with
      | error x =>
        rw [show (0 + 1 : Nat) = 1 from rfl] at hF
        rw [hF] at hpost
        cases x with
        | name => exact hpost.elim
        | uncapped => trivial
      | ok EF =>
        rw [show (0 + 1 : Nat) = 1 from rfl] at hF
        rw [hF] at hpost
        rcases hpost with hrun' | hstop'
        · obtain ⟨x, y⟩ := bEndwhile_run hrun' hend; exact ⟨x, y⟩
        · obtain ⟨x, y⟩ := bEndwhile_stop hstop' hend; exact ⟨x, y⟩

end Pysnark
