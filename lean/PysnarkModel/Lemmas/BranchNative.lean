import PysnarkModel.Lemmas.BranchUntouched
import PysnarkModel.Lemmas.BranchRun
/-!
# The reference semantics: a variable that a statement does not assign keeps its value

(`Spec/Native.lean`, by induction over the statement), and what that says about the traced run:
an untouched tracked variable of ANY kind ends with the number it had, although booleans and
fixed-point numbers come out of the merges as new objects.
-/
namespace Pysnark

theorem nIter_untouched {x : Nat} {f : Nat → NEnv → NM NEnv}
    (hf : ∀ i E E', f i E = .ok E' → E'.get? x = E.get? x) :
    ∀ (n i : Nat) {E E' : NEnv}, nIter n f i E = .ok E' → E'.get? x = E.get? x
  | 0, i, E, E', h => by simp only [nIter, Except.ok.injEq] at h; rw [h]
  | n+1, i, E, E', h => by
    simp only [nIter] at h
    cases h1 : f i E with
    | error e => rw [h1] at h; cases h
    | ok E1 =>
      rw [h1] at h
      simp only [ok_bind] at h
      rw [nIter_untouched hf n (i+1) h, hf i E E1 h1]

theorem nWhile_untouched {x : Nat} {cond brk : NEnv → NM Bool} {body : NEnv → NM NEnv}
    (hb : ∀ E E', body E = .ok E' → E'.get? x = E.get? x) :
    ∀ (n : Nat) {E E' : NEnv}, nWhile cond body brk n E = .ok E' → E'.get? x = E.get? x
  | 0, E, E', h => by
    simp only [nWhile] at h
    cases hc : cond E with
    | error e => rw [hc] at h; cases h
    | ok c => rw [hc] at h; simp only [ok_bind, pure, Except.pure, Except.ok.injEq] at h; rw [h]
  | n+1, E, E', h => by
    simp only [nWhile] at h
    cases hc : cond E with
    | error e => rw [hc] at h; cases h
    | ok c =>
      rw [hc] at h
      simp only [ok_bind] at h
      cases c with
      | false => simp only [Bool.false_eq_true, if_false, pure, Except.pure, Except.ok.injEq] at h; rw [h]
      | true =>
        simp only [if_true] at h
        cases h1 : body E with
        | error e => rw [h1] at h; cases h
        | ok E1 =>
          rw [h1] at h
          simp only [ok_bind] at h
          cases h2 : brk E1 with
          | error e => rw [h2] at h; cases h
          | ok b =>
            rw [h2] at h
            simp only [ok_bind] at h
            cases b with
            | true => simp only [if_true, pure, Except.pure, Except.ok.injEq] at h; rw [← h]; exact hb E E1 h1
            | false =>
              simp only [Bool.false_eq_true, if_false] at h
              rw [nWhile_untouched hb n h, hb E E1 h1]

theorem nset_untouched {x y : Nat} {E : NEnv} {v : NVal} (hxy : (y == x) = false) : (E.set y v).get? x = E.get? x := by
  have : ¬ y = x := by simpa using hxy
  simp only [NEnv.get?_set, this, if_false]

mutual
theorem nStmt_untouched : ∀ (st : BStmt) (x : Nat) (nc : NCtx) (E E' : NEnv), st.assigns x = false →
    nStmt nc st E = .ok E' → E'.get? x = E.get? x
  | .assign y e, x, nc, E, E', hx, h => by
    simp only [nStmt] at h
    cases hv : nEvalE nc E e with
    | error err => rw [hv] at h; cases h
    | ok v =>
      rw [hv] at h
      simp only [ok_bind, pure, Except.pure, Except.ok.injEq] at h
      rw [← h]; exact nset_untouched (by simpa [BStmt.assigns] using hx)
  | .setitem y path e, x, nc, E, E', hx, h => by
    simp only [nStmt] at h
    cases hv : nEvalE nc E e with
    | error err => rw [hv] at h; cases h
    | ok v =>
      rw [hv] at h
      simp only [ok_bind] at h
      cases ho : nGet (E.get? y) with
      | error err => rw [ho] at h; cases h
      | ok old =>
        rw [ho] at h
        simp only [ok_bind] at h
        cases hn : nGet (old.set path v) with
        | error err => rw [hn] at h; cases h
        | ok new =>
          rw [hn] at h
          simp only [ok_bind, pure, Except.pure, Except.ok.injEq] at h
          rw [← h]; exact nset_untouched (by simpa [BStmt.assigns] using hx)
  | .sel y c t f, x, nc, E, E', hx, h => by
    simp only [nStmt] at h
    cases hc : nEvalC nc E c with
    | error err => rw [hc] at h; cases h
    | ok b =>
      rw [hc] at h
      simp only [ok_bind] at h
      have key : ∀ e : BExpr, (do let v ← nEvalE nc E e; pure (E.set y v) : NM NEnv) = .ok E' → E'.get? x = E.get? x := by
        intro e he
        cases hv : nEvalE nc E e with
        | error err => rw [hv] at he; cases he
        | ok v =>
          rw [hv] at he
          simp only [ok_bind, pure, Except.pure, Except.ok.injEq] at he
          rw [← he]; exact nset_untouched (by simpa [BStmt.assigns] using hx)
      cases b with
      | true => simp only [if_true] at h; exact key t h
      | false => simp only [Bool.false_eq_true, if_false] at h; exact key f h
  | .ite y c t f, x, nc, E, E', hx, h => by
    simp only [nStmt] at h
    cases hc : nEvalC nc E c with
    | error err => rw [hc] at h; cases h
    | ok b =>
      rw [hc] at h
      simp only [ok_bind] at h
      have key : ∀ e : BExpr, (do let v ← nEvalE nc E e; pure (E.set y v) : NM NEnv) = .ok E' → E'.get? x = E.get? x := by
        intro e he
        cases hv : nEvalE nc E e with
        | error err => rw [hv] at he; cases he
        | ok v =>
          rw [hv] at he
          simp only [ok_bind, pure, Except.pure, Except.ok.injEq] at he
          rw [← he]; exact nset_untouched (by simpa [BStmt.assigns] using hx)
      cases b with
      | true => simp only [if_true] at h; exact key t h
      | false => simp only [Bool.false_eq_true, if_false] at h; exact key f h
  | .ifs c body rest, x, nc, E, E', hx, h => by
    simp only [BStmt.assigns, Bool.or_eq_false_iff] at hx
    simp only [nStmt] at h
    cases hc : nEvalC nc E c with
    | error err => rw [hc] at h; cases h
    | ok b =>
      rw [hc] at h
      simp only [ok_bind] at h
      cases b with
      | true => simp only [if_true] at h; exact nBlock_untouched body x nc E E' hx.1 h
      | false => simp only [Bool.false_eq_true, if_false] at h; exact nIfRest_untouched rest x nc E E' hx.2 h
  | .forr lv bound mx body, x, nc, E, E', hx, h => by
    simp only [BStmt.assigns] at hx
    simp only [nStmt] at h
    cases hv : nEvalE nc E bound with
    | error err => rw [hv] at h; cases h
    | ok v =>
      rw [hv] at h
      simp only [ok_bind] at h
      cases hb : nBound nc.res v with
      | error err => rw [hb] at h; cases h
      | ok b =>
        rw [hb] at h
        simp only [ok_bind] at h
        split at h
        · exact nIter_untouched (fun i E1 E2 hh => nBlock_untouched body x _ E1 E2 hx hh) _ _ h
        · cases h
  | .whil c mx body brk, x, nc, E, E', hx, h => by
    simp only [BStmt.assigns] at hx
    simp only [nStmt] at h
    exact nWhile_untouched (fun E1 E2 hh => nBlock_untouched body x nc E1 E2 hx hh) mx h
theorem nBlock_untouched : ∀ (b : BBlock) (x : Nat) (nc : NCtx) (E E' : NEnv), b.assigns x = false →
    nBlock nc b E = .ok E' → E'.get? x = E.get? x
  | .nil, x, nc, E, E', _, h => by simp only [nBlock, Except.ok.injEq] at h; rw [h]
  | .cons st rest, x, nc, E, E', hx, h => by
    simp only [BBlock.assigns, Bool.or_eq_false_iff] at hx
    simp only [nBlock] at h
    cases h1 : nStmt nc st E with
    | error err => rw [h1] at h; cases h
    | ok E1 =>
      rw [h1] at h
      simp only [ok_bind] at h
      rw [nBlock_untouched rest x nc E1 E' hx.2 h, nStmt_untouched st x nc E E1 hx.1 h1]
theorem nIfRest_untouched : ∀ (r : BIfRest) (x : Nat) (nc : NCtx) (E E' : NEnv), r.assigns x = false →
    nIfRest nc r E = .ok E' → E'.get? x = E.get? x
  | .endif, x, nc, E, E', _, h => by simp only [nIfRest, Except.ok.injEq] at h; rw [h]
  | .els b, x, nc, E, E', hx, h => by
    simp only [BIfRest.assigns] at hx
    simp only [nIfRest] at h
    exact nBlock_untouched b x nc E E' hx h
  | .elif c b rest, x, nc, E, E', hx, h => by
    simp only [BIfRest.assigns, Bool.or_eq_false_iff] at hx
    simp only [nIfRest] at h
    cases hc : nEvalC nc E c with
    | error err => rw [hc] at h; cases h
    | ok t =>
      rw [hc] at h
      simp only [ok_bind] at h
      cases t with
      | true => simp only [if_true] at h; exact nBlock_untouched b x nc E E' hx.1 h
      | false => simp only [Bool.false_eq_true, if_false] at h; exact nIfRest_untouched rest x nc E E' hx.2 h
end

/-- a tracked variable of any kind that a statement (run under a true guard) does not assign ends
with the number it had, and tracked booleans still hold 0 or 1 -/
theorem execStmt_untouched_value {r : Nat} (st : BStmt) (x : Nat) (env : BEnv) (nc : NCtx) (bs bs' : BSt) (s s' : St)
    (E : NEnv) (hx : st.assigns x = false) (hi : RefI r env nc) (hl : Live r s) (hr : RefV r bs.bv.vals E)
    (h : execStmt env st bs s = .ok (bs', s')) :
    match nStmt nc st E with
    | .ok _ => bs'.bv.vals.valOf r x = bs.bv.vals.valOf r x ∧ bs'.bv.vals.bok
    | .error _ => True := by
  have hp := execStmt_ref st env nc bs bs' s s' E hi hl hr h
  cases hN : nStmt nc st E with
  | error e => trivial
  | ok E' =>
    rw [hN] at hp
    refine ⟨?_, hp.2.bok⟩
    rw [hp.2.eq x, hr.eq x]
    unfold NEnv.valOf
    rw [nStmt_untouched st x nc E E' hx hN]

end Pysnark
