import PysnarkModel.Lemmas.BranchStruct
import PysnarkModel.Lemmas.OblRun
/-!
# Block branching: the constraints emitted do not depend on the values

Two runs of the same structured program from states of the same shape, with tracked variables and
inputs of the same shape (same names, same wire expressions, same object identities; any values),
that both complete, end in states of the same shape.  Relational rule + one lemma per function of
the library layer (`Lemmas/Obl*.lean`).
-/
namespace Pysnark

/-- same wire expression, same identity (values free) -/
def ObjRel (o1 o2 : Obj) : Prop := lcEq o1.v o2.v ∧ o1.id = o2.id

def ValsRel (v1 v2 : Vals) : Prop := Forall2 (fun a b => a.1 = b.1 ∧ ObjRel a.2 b.2) v1 v2

structure CtxRel (c1 c2 : BCtx) : Prop where
  isIf : c1.isIf = c2.isIf
  bak : ValsRel c1.bak c2.bak
  cond : lcEq c1.cond c2.cond
  icond : OptRel lcEq c1.icond c2.icond
  nodefvals : OptRel ValsRel c1.nodefvals c2.nodefvals
  origguard : GuardBakRel c1.origguard c2.origguard

structure BVRel (b1 b2 : BV) : Prop where
  vals : ValsRel b1.vals b2.vals
  next : b1.next = b2.next

structure BStRel (b1 b2 : BSt) : Prop where
  bv : BVRel b1.bv b2.bv
  stack : Forall2 CtxRel b1.stack b2.stack

structure EnvRel (e1 e2 : BEnv) : Prop where
  inputs : Forall2 ObjRel e1.inputs e2.inputs
  lvs : e1.lvs = e2.lvs

theorem optRel_elim {α : Type} {R : α → α → Prop} {o1 o2 : Option α} (h : OptRel R o1 o2) :
    (o1 = Option.none ∧ o2 = Option.none) ∨ ∃ a b, o1 = Option.some a ∧ o2 = Option.some b ∧ R a b := by
  cases h with
  | none => exact Or.inl ⟨rfl, rfl⟩
  | some hab => exact Or.inr ⟨_, _, rfl, rfl, hab⟩

/-- `if c then m else raise e` with value-dependent `c`: when both runs complete, both took `m` -/
theorem Obl.iteElseRaise {α} {R : α → α → Prop} {c1 c2 : Prop} [Decidable c1] [Decidable c2] {e1 e2 : Err}
    {b1 b2 : M α} (hb : Obl R b1 b2) : Obl R (if c1 then b1 else raise e1) (if c2 then b2 else raise e2) := by
  split
  · split
    · exact hb
    · exact Obl.raiseR
  · exact Obl.raiseL

/-! ## dictionaries -/
theorem ValsRel.get? : ∀ {v1 v2 : Vals}, ValsRel v1 v2 → ∀ x, OptRel ObjRel (v1.get? x) (v2.get? x)
  | _, _, .nil, _ => .none
  | _, _, .cons (a := a) (b := b) hab ht, x => by
    obtain ⟨k1, o1⟩ := a; obtain ⟨k2, o2⟩ := b
    obtain ⟨hk, ho⟩ := hab
    simp only at hk
    subst hk
    simp only [Vals.get?]
    by_cases h : k1 = x
    · simp only [h, if_true]; exact .some ho
    · simp only [h, if_false]; exact ValsRel.get? ht x

theorem ValsRel.has {v1 v2 : Vals} (h : ValsRel v1 v2) (x : Nat) : v1.has x = v2.has x := by
  unfold Vals.has
  rcases optRel_elim (h.get? x) with ⟨e1, e2⟩ | ⟨a, b, e1, e2, _⟩ <;> rw [e1, e2] <;> rfl

theorem ValsRel.set : ∀ {v1 v2 : Vals}, ValsRel v1 v2 → ∀ (x : Nat) {o1 o2 : Obj}, ObjRel o1 o2 →
    ValsRel (v1.set x o1) (v2.set x o2)
  | _, _, .nil, x, o1, o2, ho => .cons ⟨rfl, ho⟩ .nil
  | _, _, .cons (a := a) (b := b) hab ht, x, o1, o2, ho => by
    obtain ⟨k1, p1⟩ := a; obtain ⟨k2, p2⟩ := b
    obtain ⟨hk, hp⟩ := hab
    simp only at hk
    subst hk
    simp only [Vals.set]
    by_cases h : k1 = x
    · simp only [h, if_true]; exact .cons ⟨rfl, ho⟩ ht
    · simp only [h, if_false]; exact .cons ⟨rfl, hp⟩ (ValsRel.set ht x ho)

theorem ValsRel.filter {p1 p2 : Nat → Bool} (hp : ∀ k, p1 k = p2 k) : ∀ {v1 v2 : Vals}, ValsRel v1 v2 →
    ValsRel (v1.filter (fun kv => p1 kv.1)) (v2.filter (fun kv => p2 kv.1))
  | _, _, .nil => .nil
  | _, _, .cons (a := a) (b := b) hab ht => by
    obtain ⟨hk, ho⟩ := hab
    simp only [List.filter]
    rw [← hk, hp]
    cases p2 a.1
    · exact ValsRel.filter hp ht
    · exact .cons ⟨hk, ho⟩ (ValsRel.filter hp ht)

theorem ValsRel.removeAll {v1 v2 o1 o2 : Vals} (hv : ValsRel v1 v2) (ho : ValsRel o1 o2) :
    ValsRel (v1.removeAll o1) (v2.removeAll o2) :=
  ValsRel.filter (p1 := fun k => !o1.has k) (p2 := fun k => !o2.has k) (fun k => by simp only [ho.has k]) hv

theorem ValsRel.setAll_aux {o1 o2 : Vals} (ho : ValsRel o1 o2) : ∀ {l1 l2 : Vals}, ValsRel l1 l2 →
    ∀ {a1 a2 : Vals}, ValsRel a1 a2 → ValsRel (l1.foldl (Vals.setFrom o1) a1) (l2.foldl (Vals.setFrom o2) a2)
  | _, _, .nil, _, _, ha => ha
  | _, _, .cons (a := a) (b := b) hab ht, a1, a2, ha => by
    simp only [List.foldl_cons]
    refine ValsRel.setAll_aux ho ht ?_
    unfold Vals.setFrom
    rw [← hab.1]
    rcases optRel_elim (ho.get? a.1) with ⟨e1, e2⟩ | ⟨p, q, e1, e2, hpq⟩
    · rw [e1, e2]; exact ha
    · rw [e1, e2]; exact ha.set _ hpq

theorem ValsRel.setAll {v1 v2 o1 o2 : Vals} (hv : ValsRel v1 v2) (ho : ValsRel o1 o2) :
    ValsRel (v1.setAll o1) (v2.setAll o2) := ValsRel.setAll_aux ho ho hv

theorem ValsRel.isEmpty {v1 v2 : Vals} (h : ValsRel v1 v2) : v1.isEmpty = v2.isEmpty := by
  cases h <;> rfl

/-! ## merges -/
def PairNRel {α : Type} (R : α → α → Prop) (p q : α × Nat) : Prop := R p.1 q.1 ∧ p.2 = q.2

theorem mergeObj_obl {c1 c2 : LinComb} (hc : lcEq c1 c2) {t1 t2 f1 f2 : Obj} (ht : ObjRel t1 t2) (hf : ObjRel f1 f2)
    (n : Nat) : Obl (PairNRel ObjRel) (mergeObj c1 t1 f1 n) (mergeObj c2 t2 f2 n) := by
  unfold mergeObj
  rw [ht.2, hf.2]
  by_cases hid : t2.id = f2.id
  · simp only [hid, if_true]
    exact Obl.iteElseRaise (Obl.pure ⟨ht, rfl⟩)
  · simp only [hid, if_false]
    refine Obl.bind (iteLLL_obl hc ht.1 hf.1) (fun r1 r2 hr => ?_)
    exact Obl.pure ⟨⟨hr, rfl⟩, rfl⟩

theorem mergeNodef_obl {c1 c2 : LinComb} (hc : lcEq c1 c2) {v1 v2 : Vals} (hv : ValsRel v1 v2) :
    ∀ {nd1 nd2 : Vals}, ValsRel nd1 nd2 → ∀ n, Obl (PairNRel ValsRel) (mergeNodef c1 v1 nd1 n) (mergeNodef c2 v2 nd2 n)
  | _, _, .nil, n => Obl.pure ⟨.nil, rfl⟩
  | _, _, .cons (a := a) (b := b) hab ht, n => by
    obtain ⟨k1, o1⟩ := a; obtain ⟨k2, o2⟩ := b
    obtain ⟨hk, ho⟩ := hab
    simp only at hk ho
    subst hk
    unfold mergeNodef
    rcases optRel_elim (hv.get? k1) with ⟨e1, e2⟩ | ⟨p, q, e1, e2, hg⟩
    · simp only [e1]; exact Obl.raiseL
    · simp only [e1, e2]
      refine Obl.bind (mergeObj_obl hc hg ho n) (fun r1 r2 hr => ?_)
      obtain ⟨hr1, hr2⟩ := hr
      rw [hr2]
      refine Obl.bind (mergeNodef_obl hc hv ht _) (fun q1 q2 hq => ?_)
      exact Obl.pure ⟨.cons ⟨rfl, hr1⟩ hq.1, hq.2⟩

theorem mergeBak_obl {c1 c2 : LinComb} (hc : lcEq c1 c2) {b1 b2 : Vals} (hb : ValsRel b1 b2) :
    ∀ {v1 v2 : Vals}, ValsRel v1 v2 → ∀ n, Obl (PairNRel ValsRel) (mergeBak c1 b1 v1 n) (mergeBak c2 b2 v2 n)
  | _, _, .nil, n => Obl.pure ⟨.nil, rfl⟩
  | _, _, .cons (a := a) (b := b) hab ht, n => by
    obtain ⟨k1, o1⟩ := a; obtain ⟨k2, o2⟩ := b
    obtain ⟨hk, ho⟩ := hab
    simp only at hk ho
    subst hk
    unfold mergeBak
    rcases optRel_elim (hb.get? k1) with ⟨e1, e2⟩ | ⟨p, q, e1, e2, hg⟩
    · simp only [e1]; exact Obl.raiseL
    · simp only [e1, e2]
      refine Obl.bind (mergeObj_obl hc ho hg n) (fun r1 r2 hr => ?_)
      obtain ⟨hr1, hr2⟩ := hr
      rw [hr2]
      refine Obl.bind (mergeBak_obl hc hb ht _) (fun q1 q2 hq => ?_)
      exact Obl.pure ⟨.cons ⟨rfl, hr1⟩ hq.1, hq.2⟩

/-! ## contexts -/
def CBRel (p q : BCtx × BV) : Prop := CtxRel p.1 q.1 ∧ BVRel p.2 q.2

theorem enter_obl {c1 c2 : BCtx} (hctx : CtxRel c1 c2) {n1 n2 : LinComb} (hn : lcEq n1 n2) {b1 b2 : BV}
    (hb : BVRel b1 b2) : Obl CtxRel (c1.enter n1 b1) (c2.enter n2 b2) := by
  unfold BCtx.enter
  refine Obl.bind (addGuard_obl (ValRel.lcb hn)) (fun og1 og2 hog => ?_)
  exact Obl.pure ⟨hctx.isIf, hb.vals, hn, hctx.icond, hctx.nodefvals, hog⟩

theorem exit_obl {c1 c2 : BCtx} (hctx : CtxRel c1 c2) {b1 b2 : BV} (hb : BVRel b1 b2) :
    Obl CBRel (c1.exit b1) (c2.exit b2) := by
  unfold BCtx.exit
  refine Obl.bind (restoreGuard_obl hctx.origguard) (fun _ _ _ => ?_)
  have hfirst : Obl (PairNRel ValsRel)
      (match c1.nodefvals with
        | none => pure (b1.vals.filter (fun kv => !c1.bak.has kv.1), b1.next)
        | some nd => mergeNodef c1.cond b1.vals nd b1.next)
      (match c2.nodefvals with
        | none => pure (b2.vals.filter (fun kv => !c2.bak.has kv.1), b2.next)
        | some nd => mergeNodef c2.cond b2.vals nd b2.next) := by
    rcases optRel_elim hctx.nodefvals with ⟨e1, e2⟩ | ⟨p, q, e1, e2, hpq⟩
    · rw [e1, e2]
      refine Obl.pure ⟨?_, hb.next⟩
      exact ValsRel.filter (p1 := fun k => !c1.bak.has k) (p2 := fun k => !c2.bak.has k)
        (fun k => by simp only [hctx.bak.has k]) hb.vals
    · rw [e1, e2, hb.next]
      exact mergeNodef_obl hctx.cond hb.vals hpq _
  refine Obl.bind hfirst (fun p1 p2 hp => ?_)
  obtain ⟨nd1, m1⟩ := p1; obtain ⟨nd2, m2⟩ := p2
  obtain ⟨hnd, hm⟩ := hp
  simp only at hnd hm
  subst hm
  refine Obl.bind (mergeBak_obl hctx.cond hctx.bak (hb.vals.removeAll hnd) _) (fun q1 q2 hq => ?_)
  obtain ⟨v1, k1⟩ := q1; obtain ⟨v2, k2⟩ := q2
  obtain ⟨hv, hk⟩ := hq
  exact Obl.pure ⟨⟨hctx.isIf, hctx.bak, hctx.cond, hctx.icond, .some hnd, hctx.origguard⟩, ⟨hv, hk⟩⟩

theorem andBB_obl {x1 x2 y1 y2 : LinComb} (hx : lcEq x1 x2) (hy : lcEq y1 y2) : Obl lcEq (andBB x1 y1) (andBB x2 y2) := by
  unfold andBB
  exact Obl.bind (mulLL_obl hx hy) (fun p1 p2 hp => mkBool_obl hp false)

theorem condLC_obl {v1 v2 : Val} (hv : ValRel v1 v2) : Obl lcEq (condLC v1) (condLC v2) := by
  unfold condLC
  cases hv <;> first | exact Obl.raiseL | skip
  rename_i h
  exact Obl.pure h

def guardBakRel_init : GuardBakRel ⟨none, false, oneSafe⟩ ⟨none, false, oneSafe⟩ := ⟨rfl, rfl⟩

theorem ifNew_obl {c1 c2 : LinComb} (hc : lcEq c1 c2) {b1 b2 : BV} (hb : BVRel b1 b2) :
    Obl CtxRel (ifNew c1 b1) (ifNew c2 b2) := by
  unfold ifNew
  refine Obl.bind (boolNot_obl hc) (fun i1 i2 hi => ?_)
  refine enter_obl ?_ hc hb
  exact ⟨rfl, .nil, hc, .some hi, .none, guardBakRel_init⟩

theorem whileNew_obl {c1 c2 : LinComb} (hc : lcEq c1 c2) {b1 b2 : BV} (hb : BVRel b1 b2) :
    Obl CtxRel (whileNew c1 b1) (whileNew c2 b2) := by
  unfold whileNew
  refine enter_obl ?_ hc hb
  exact ⟨rfl, .nil, hc, .none, .none, guardBakRel_init⟩

theorem ifElif_obl {c1 c2 : BCtx} (hctx : CtxRel c1 c2) {th1 th2 : BV → M Val}
    (hth : ∀ b1 b2, BVRel b1 b2 → Obl ValRel (th1 b1) (th2 b2)) {b1 b2 : BV} (hb : BVRel b1 b2) :
    Obl CBRel (ifElif c1 th1 b1) (ifElif c2 th2 b2) := by
  unfold ifElif
  refine Obl.bind (exit_obl hctx hb) (fun p1 p2 hp => ?_)
  obtain ⟨x1, y1⟩ := p1; obtain ⟨x2, y2⟩ := p2
  obtain ⟨hx, hy⟩ := hp
  simp only at hx hy ⊢
  refine Obl.bind (hth _ _ hy) (fun v1 v2 hv => ?_)
  refine Obl.bind (condLC_obl hv) (fun n1 n2 hn => ?_)
  rcases optRel_elim hx.icond with ⟨e1, e2⟩ | ⟨i1, i2, e1, e2, hi⟩
  · rw [e1]; exact Obl.raiseL
  · rw [e1, e2]
    simp only
    refine Obl.bind (boolNot_obl hn) (fun nn1 nn2 hnn => ?_)
    refine Obl.bind (andBB_obl hi hnn) (fun w1 w2 hw => ?_)
    refine Obl.bind (andBB_obl hi hn) (fun k1 k2 hk => ?_)
    refine Obl.bind (enter_obl hx hk hy) (fun z1 z2 hz => ?_)
    exact Obl.pure ⟨⟨hz.isIf, hz.bak, hz.cond, .some hw, hz.nodefvals, hz.origguard⟩, hy⟩

theorem ifElse_obl {c1 c2 : BCtx} (hctx : CtxRel c1 c2) {b1 b2 : BV} (hb : BVRel b1 b2) :
    Obl CBRel (ifElse c1 b1) (ifElse c2 b2) := by
  unfold ifElse
  refine Obl.bind (exit_obl hctx hb) (fun p1 p2 hp => ?_)
  obtain ⟨x1, y1⟩ := p1; obtain ⟨x2, y2⟩ := p2
  obtain ⟨hx, hy⟩ := hp
  simp only at hx hy ⊢
  rcases optRel_elim hx.icond with ⟨e1, e2⟩ | ⟨i1, i2, e1, e2, hi⟩
  · rw [e1]; exact Obl.raiseL
  · rw [e1, e2]
    simp only
    refine Obl.bind (enter_obl hx hi hy) (fun z1 z2 hz => ?_)
    exact Obl.pure ⟨⟨hz.isIf, hz.bak, hz.cond, .none, hz.nodefvals, hz.origguard⟩, hy⟩

theorem optRel_getD {o1 o2 : Option Vals} (h : OptRel ValsRel o1 o2) : ValsRel (o1.getD []) (o2.getD []) := by
  cases h with
  | none => exact .nil
  | some h => exact h

theorem optRel_isSome {α : Type} {R : α → α → Prop} {o1 o2 : Option α} (h : OptRel R o1 o2) : o1.isSome = o2.isSome := by
  cases h <;> rfl

theorem ifEnd_obl {c1 c2 : BCtx} (hctx : CtxRel c1 c2) {b1 b2 : BV} (hb : BVRel b1 b2) :
    Obl BVRel (ifEnd c1 b1) (ifEnd c2 b2) := by
  unfold ifEnd
  refine Obl.bind (exit_obl hctx hb) (fun p1 p2 hp => ?_)
  obtain ⟨x1, y1⟩ := p1; obtain ⟨x2, y2⟩ := p2
  obtain ⟨hx, hy⟩ := hp
  simp only at hx hy ⊢
  have hnd := optRel_getD hx.nodefvals
  rw [hnd.isEmpty, optRel_isSome hx.icond]
  refine Obl.iteRaise ?_
  exact Obl.pure ⟨hy.vals.setAll hnd, hy.next⟩

theorem whileExit_obl {c1 c2 : BCtx} (hctx : CtxRel c1 c2) {b1 b2 : BV} (hb : BVRel b1 b2) :
    Obl CBRel (whileExit c1 b1) (whileExit c2 b2) := by
  unfold whileExit
  refine Obl.bind (exit_obl hctx hb) (fun p1 p2 hp => ?_)
  obtain ⟨x1, y1⟩ := p1; obtain ⟨x2, y2⟩ := p2
  obtain ⟨hx, hy⟩ := hp
  simp only at hx hy ⊢
  rw [(optRel_getD hx.nodefvals).isEmpty]
  refine Obl.iteRaise ?_
  exact Obl.pure ⟨hx, hy⟩

theorem whileNext_obl {c1 c2 : BCtx} (hctx : CtxRel c1 c2) {n1 n2 : LinComb} (hn : lcEq n1 n2) {b1 b2 : BV}
    (hb : BVRel b1 b2) : Obl CBRel (whileNext c1 n1 b1) (whileNext c2 n2 b2) := by
  unfold whileNext
  refine Obl.bind (whileExit_obl hctx hb) (fun p1 p2 hp => ?_)
  obtain ⟨x1, y1⟩ := p1; obtain ⟨x2, y2⟩ := p2
  obtain ⟨hx, hy⟩ := hp
  simp only at hx hy ⊢
  refine Obl.bind (andBB_obl hx.cond hn) (fun k1 k2 hk => ?_)
  refine Obl.bind (enter_obl hx hk hy) (fun z1 z2 hz => ?_)
  exact Obl.pure ⟨hz, hy⟩

/-! ## module functions -/
theorem forall2_cases {α β : Type} {R : α → β → Prop} {l1 : List α} {l2 : List β} (h : Forall2 R l1 l2) :
    (l1 = [] ∧ l2 = []) ∨ ∃ a b t1 t2, l1 = a :: t1 ∧ l2 = b :: t2 ∧ R a b ∧ Forall2 R t1 t2 := by
  cases h with
  | nil => exact Or.inl ⟨rfl, rfl⟩
  | cons hab ht => exact Or.inr ⟨_, _, _, _, rfl, rfl, hab, ht⟩

theorem bIf_obl {v1 v2 : Val} (hv : ValRel v1 v2) {b1 b2 : BSt} (hb : BStRel b1 b2) : Obl BStRel (bIf v1 b1) (bIf v2 b2) := by
  unfold bIf
  refine Obl.bind (condLC_obl hv) (fun c1 c2 hc => ?_)
  refine Obl.bind (ifNew_obl hc hb.bv) (fun x1 x2 hx => ?_)
  exact Obl.pure ⟨hb.bv, .cons hx hb.stack⟩

theorem bWhilePush_obl {v1 v2 : Val} (hv : ValRel v1 v2) {b1 b2 : BSt} (hb : BStRel b1 b2) :
    Obl BStRel (bWhilePush v1 b1) (bWhilePush v2 b2) := by
  unfold bWhilePush
  refine Obl.bind (condLC_obl hv) (fun c1 c2 hc => ?_)
  refine Obl.bind (whileNew_obl hc hb.bv) (fun x1 x2 hx => ?_)
  exact Obl.pure ⟨hb.bv, .cons hx hb.stack⟩

theorem bElif_obl {th1 th2 : BV → M Val} (hth : ∀ b1 b2, BVRel b1 b2 → Obl ValRel (th1 b1) (th2 b2))
    {b1 b2 : BSt} (hb : BStRel b1 b2) : Obl BStRel (bElif th1 b1) (bElif th2 b2) := by
  unfold bElif
  rcases forall2_cases hb.stack with ⟨e1, e2⟩ | ⟨x1, x2, t1, t2, e1, e2, hc, ht⟩
  · rw [e1]; exact Obl.raiseL
  · rw [e1, e2]
    simp only
    rw [hc.isIf]
    refine Obl.iteRaise ?_
    refine Obl.bind (ifElif_obl hc hth hb.bv) (fun p1 p2 hp => ?_)
    exact Obl.pure ⟨hp.2, .cons hp.1 ht⟩

theorem bElse_obl {b1 b2 : BSt} (hb : BStRel b1 b2) : Obl BStRel (bElse b1) (bElse b2) := by
  unfold bElse
  rcases forall2_cases hb.stack with ⟨e1, e2⟩ | ⟨x1, x2, t1, t2, e1, e2, hc, ht⟩
  · rw [e1]; exact Obl.raiseL
  · rw [e1, e2]
    simp only
    rw [hc.isIf]
    refine Obl.iteRaise ?_
    refine Obl.bind (ifElse_obl hc hb.bv) (fun p1 p2 hp => ?_)
    exact Obl.pure ⟨hp.2, .cons hp.1 ht⟩

theorem bEndif_obl {b1 b2 : BSt} (hb : BStRel b1 b2) : Obl BStRel (bEndif b1) (bEndif b2) := by
  unfold bEndif
  rcases forall2_cases hb.stack with ⟨e1, e2⟩ | ⟨x1, x2, t1, t2, e1, e2, hc, ht⟩
  · rw [e1]; exact Obl.raiseL
  · rw [e1, e2]
    simp only
    rw [hc.isIf]
    refine Obl.ite ?_ ?_
    · refine Obl.bind (ifEnd_obl hc hb.bv) (fun p1 p2 hp => ?_)
      exact Obl.pure ⟨hp, ht⟩
    · refine Obl.bind (whileExit_obl hc hb.bv) (fun p1 p2 hp => ?_)
      exact Obl.pure ⟨hp.2, ht⟩

theorem bEndwhile_obl {b1 b2 : BSt} (hb : BStRel b1 b2) : Obl BStRel (bEndwhile b1) (bEndwhile b2) :=
  bEndif_obl hb

theorem bWhileNext_obl {v1 v2 : Val} (hv : ValRel v1 v2) {b1 b2 : BSt} (hb : BStRel b1 b2) :
    Obl BStRel (bWhileNext v1 b1) (bWhileNext v2 b2) := by
  unfold bWhileNext
  rcases forall2_cases hb.stack with ⟨e1, e2⟩ | ⟨x1, x2, t1, t2, e1, e2, hc, ht⟩
  · rw [e1]; exact Obl.raiseL
  · rw [e1, e2]
    simp only
    rw [hc.isIf]
    refine Obl.iteRaise ?_
    refine Obl.bind (condLC_obl hv) (fun c1 c2 hcc => ?_)
    refine Obl.bind (whileNext_obl hc hcc hb.bv) (fun p1 p2 hp => ?_)
    exact Obl.pure ⟨hp.2, .cons hp.1 ht⟩

theorem bBreakif_obl {v1 v2 : Val} (hv : ValRel v1 v2) {b1 b2 : BSt} (hb : BStRel b1 b2) :
    Obl BStRel (bBreakif v1 b1) (bBreakif v2 b2) := by
  unfold bBreakif
  refine Obl.bind (condLC_obl hv) (fun c1 c2 hc => ?_)
  refine Obl.bind (boolNot_obl hc) (fun n1 n2 hn => ?_)
  exact bWhileNext_obl (ValRel.lcb hn) hb


/-! ## expressions -/
theorem forall2_getElem? {α : Type} {R : α → α → Prop} : ∀ {l1 l2 : List α}, Forall2 R l1 l2 → ∀ i : Nat,
    OptRel R l1[i]? l2[i]?
  | _, _, .nil, i => by simp only [List.getElem?_nil]; exact .none
  | _, _, .cons hab ht, 0 => by simp only [List.getElem?_cons_zero]; exact .some hab
  | _, _, .cons hab ht, i+1 => by simp only [List.getElem?_cons_succ]; exact forall2_getElem? ht i

theorem evalE_obl {e1 e2 : BEnv} (he : EnvRel e1 e2) {b1 b2 : BV} (hb : BVRel b1 b2) :
    ∀ e : BExpr, Obl ValRel (evalE e1 b1 e) (evalE e2 b2 e)
  | .var x => by
    unfold evalE
    rcases optRel_elim (hb.vals.get? x) with ⟨h1, h2⟩ | ⟨p, q, h1, h2, hpq⟩
    · rw [h1]; exact Obl.raiseL
    · rw [h1, h2]; exact Obl.pure (ValRel.lc hpq.1)
  | .inp i => by
    unfold evalE
    rcases optRel_elim (forall2_getElem? he.inputs i) with ⟨h1, h2⟩ | ⟨p, q, h1, h2, hpq⟩
    · rw [h1]; exact Obl.raiseL
    · rw [h1, h2]; exact Obl.pure (ValRel.lc hpq.1)
  | .const c => by
    unfold evalE
    exact Obl.pure (ValRel.int c)
  | .loopvar v => by
    unfold evalE
    rw [he.lvs]
    cases lookupLv e2.lvs v with
    | none => exact Obl.raiseL
    | some k => exact Obl.pure (ValRel.int k)
  | .add a b => by
    unfold evalE
    exact Obl.bind (evalE_obl he hb a) (fun x1 x2 hx => Obl.bind (evalE_obl he hb b) (fun y1 y2 hy => addV_obl hx hy))
  | .sub a b => by
    unfold evalE
    exact Obl.bind (evalE_obl he hb a) (fun x1 x2 hx => Obl.bind (evalE_obl he hb b) (fun y1 y2 hy => subV_obl hx hy))
  | .mul a b => by
    unfold evalE
    exact Obl.bind (evalE_obl he hb a) (fun x1 x2 hx => Obl.bind (evalE_obl he hb b) (fun y1 y2 hy => mulV_obl hx hy))

theorem evalC_obl {e1 e2 : BEnv} (he : EnvRel e1 e2) {b1 b2 : BV} (hb : BVRel b1 b2) (c : BCond) :
    Obl ValRel (evalC e1 b1 c) (evalC e2 b2 c) := by
  unfold evalC
  exact Obl.bind (evalE_obl he hb c.lhs) (fun x1 x2 hx => Obl.bind (evalE_obl he hb c.rhs) (fun y1 y2 hy => cmpV_obl c.op hx hy))

theorem leafObj_rel {e1 e2 : BEnv} (he : EnvRel e1 e2) {b1 b2 : BV} (hb : BVRel b1 b2) (e : BExpr) :
    OptRel ObjRel (leafObj e1 b1 e) (leafObj e2 b2 e) := by
  cases e <;> simp only [leafObj]
  · exact hb.vals.get? _
  · exact forall2_getElem? he.inputs _
  all_goals exact .none

theorem bindNew_obl (x : Nat) {v1 v2 : Val} (hv : ValRel v1 v2) {b1 b2 : BSt} (hb : BStRel b1 b2) :
    Obl BStRel (bindNew x v1 b1) (bindNew x v2 b2) := by
  unfold bindNew
  cases hv <;> first | exact Obl.raiseL | skip
  rename_i l1 l2 h
  rw [hb.bv.next]
  exact Obl.pure ⟨⟨hb.bv.vals.set x ⟨h, rfl⟩, by simp only [hb.bv.next]⟩, hb.stack⟩

theorem bindVar_obl {e1 e2 : BEnv} (he : EnvRel e1 e2) (x : Nat) (e : BExpr) {v1 v2 : Val} (hv : ValRel v1 v2)
    {b1 b2 : BSt} (hb : BStRel b1 b2) : Obl BStRel (bindVar e1 x e v1 b1) (bindVar e2 x e v2 b2) := by
  unfold bindVar
  rcases optRel_elim (leafObj_rel he hb.bv e) with ⟨h1, h2⟩ | ⟨p, q, h1, h2, hpq⟩
  · rw [h1, h2]; exact bindNew_obl x hv hb
  · rw [h1, h2]; exact Obl.pure ⟨⟨hb.bv.vals.set x hpq, hb.bv.next⟩, hb.stack⟩

theorem guardedM_obl {α : Type} {R : α → α → Prop} {c1 c2 : LinComb} (hc : lcEq c1 c2) {m1 m2 : M α}
    (hm : Obl R m1 m2) : Obl R (guardedM c1 m1) (guardedM c2 m2) := by
  unfold guardedM
  refine Obl.bind (addGuard_obl (ValRel.lcb hc)) (fun og1 og2 hog => ?_)
  refine Obl.bind hm (fun a1 a2 ha => ?_)
  refine Obl.bind (restoreGuard_obl hog) (fun _ _ _ => ?_)
  exact Obl.pure ha

theorem iteThunks_obl {c1 c2 : LinComb} (hc : lcEq c1 c2) {t1 t2 f1 f2 : M Val} (ht : Obl ValRel t1 t2)
    (hf : Obl ValRel f1 f2) : Obl ValRel (iteThunks c1 t1 f1) (iteThunks c2 t2 f2) := by
  unfold iteThunks
  refine Obl.bind (guardedM_obl hc ht) (fun tv1 tv2 htv => ?_)
  refine Obl.bind (boolNot_obl hc) (fun n1 n2 hn => ?_)
  refine Obl.bind (guardedM_obl hn hf) (fun fv1 fv2 hfv => ?_)
  refine Obl.bind (subV_obl htv hfv) (fun d1 d2 hd => ?_)
  refine Obl.bind (mulLV_obl hc hd) (fun p1 p2 hp => ?_)
  exact addV_obl hfv hp

theorem iterM_obl {β : Type} {R : β → β → Prop} {f1 f2 : Nat → β → M β}
    (hf : ∀ i b1 b2, R b1 b2 → Obl R (f1 i b1) (f2 i b2)) :
    ∀ (n i : Nat) {b1 b2 : β}, R b1 b2 → Obl R (iterM n f1 i b1) (iterM n f2 i b2)
  | 0, i, b1, b2, hb => Obl.pure hb
  | n+1, i, b1, b2, hb => by
    unfold iterM
    exact Obl.bind (hf i b1 b2 hb) (fun x1 x2 hx => iterM_obl hf n (i+1) hx)

theorem breakStep_obl {e1 e2 : BEnv} (he : EnvRel e1 e2) (brk : Option BCond) {b1 b2 : BSt} (hb : BStRel b1 b2) :
    Obl BStRel (breakStep e1 brk b1) (breakStep e2 brk b2) := by
  unfold breakStep
  cases brk with
  | none => exact Obl.pure hb
  | some bc => exact Obl.bind (evalC_obl he hb.bv bc) (fun v1 v2 hv => bBreakif_obl hv hb)

theorem whileRound_obl {e1 e2 : BEnv} (he : EnvRel e1 e2) {body1 body2 : BSt → M BSt}
    (hbody : ∀ b1 b2, BStRel b1 b2 → Obl BStRel (body1 b1) (body2 b2)) (c : BCond) (brk : Option BCond)
    {b1 b2 : BSt} (hb : BStRel b1 b2) : Obl BStRel (whileRound e1 body1 c brk b1) (whileRound e2 body2 c brk b2) := by
  unfold whileRound
  refine Obl.bind (hbody _ _ hb) (fun x1 x2 hx => ?_)
  refine Obl.bind (breakStep_obl he brk hx) (fun y1 y2 hy => ?_)
  refine Obl.bind (evalC_obl he hy.bv c) (fun v1 v2 hv => ?_)
  exact bWhileNext_obl hv hy

theorem EnvRel.push {e1 e2 : BEnv} (he : EnvRel e1 e2) (lv : Nat) (k : Int) :
    EnvRel { e1 with lvs := (lv, k) :: e1.lvs } { e2 with lvs := (lv, k) :: e2.lvs } :=
  ⟨he.inputs, by simp only [he.lvs]⟩

theorem forRound_obl {e1 e2 : BEnv} (he : EnvRel e1 e2) (lv : Nat) {st1 st2 : Val} (hst : ValRel st1 st2)
    {body1 body2 : BEnv → BSt → M BSt}
    (hbody : ∀ x1 x2, EnvRel x1 x2 → ∀ b1 b2, BStRel b1 b2 → Obl BStRel (body1 x1 b1) (body2 x2 b2))
    (ix : Nat) {b1 b2 : BSt} (hb : BStRel b1 b2) :
    Obl BStRel (forRound e1 lv st1 body1 ix b1) (forRound e2 lv st2 body2 ix b2) := by
  unfold forRound
  refine Obl.bind (cmpV_obl .ne (ValRel.int _) hst) (fun v1 v2 hv => ?_)
  refine Obl.bind (bWhileNext_obl hv hb) (fun y1 y2 hy => ?_)
  exact hbody _ _ (he.push lv ix) _ _ hy

mutual
theorem execStmt_obl : ∀ (st : BStmt) {e1 e2 : BEnv}, EnvRel e1 e2 → ∀ {b1 b2 : BSt}, BStRel b1 b2 →
    Obl BStRel (execStmt e1 st b1) (execStmt e2 st b2)
  | .assign x e, e1, e2, he, b1, b2, hb => by
    unfold execStmt
    exact Obl.bind (evalE_obl he hb.bv e) (fun v1 v2 hv => bindVar_obl he x e hv hb)
  | .ite x c t f, e1, e2, he, b1, b2, hb => by
    unfold execStmt
    refine Obl.bind (evalC_obl he hb.bv c) (fun v1 v2 hv => ?_)
    refine Obl.bind (condLC_obl hv) (fun c1 c2 hc => ?_)
    refine Obl.bind (iteThunks_obl hc (evalE_obl he hb.bv t) (evalE_obl he hb.bv f)) (fun r1 r2 hr => ?_)
    exact bindNew_obl x hr hb
  | .ifs c body rest, e1, e2, he, b1, b2, hb => by
    unfold execStmt
    refine Obl.bind (evalC_obl he hb.bv c) (fun v1 v2 hv => ?_)
    refine Obl.bind (bIf_obl hv hb) (fun x1 x2 hx => ?_)
    refine Obl.bind (execBlock_obl body he hx) (fun y1 y2 hy => ?_)
    exact execIfRest_obl rest he hy
  | .forr lv bound mx body, e1, e2, he, b1, b2, hb => by
    unfold execStmt
    refine Obl.bind (evalE_obl he hb.bv bound) (fun s1 s2 hs => ?_)
    cases hs <;> first | exact Obl.raiseL | skip
    rename_i l1 l2 hl
    dsimp only
    refine Obl.bind (cmpV_obl .ne (ValRel.int _) (ValRel.lc hl)) (fun v1 v2 hv => ?_)
    refine Obl.bind (bWhilePush_obl hv hb) (fun x1 x2 hx => ?_)
    refine Obl.bind (execBlock_obl body (he.push lv 0) hx) (fun y1 y2 hy => ?_)
    refine Obl.bind (iterM_obl (fun i p1 p2 hp => forRound_obl he lv (ValRel.lc hl)
      (fun x1 x2 hxe q1 q2 hq => execBlock_obl body hxe hq) i hp) _ _ hy) (fun z1 z2 hz => ?_)
    exact bEndwhile_obl hz
  | .whil c mx body brk, e1, e2, he, b1, b2, hb => by
    unfold execStmt
    refine Obl.bind (evalC_obl he hb.bv c) (fun v1 v2 hv => ?_)
    refine Obl.bind (bWhilePush_obl hv hb) (fun x1 x2 hx => ?_)
    refine Obl.bind (iterM_obl (fun i p1 p2 hp => whileRound_obl he
      (fun q1 q2 hq => execBlock_obl body he hq) c brk hp) _ _ hx) (fun z1 z2 hz => ?_)
    exact bEndwhile_obl hz

theorem execBlock_obl : ∀ (b : BBlock) {e1 e2 : BEnv}, EnvRel e1 e2 → ∀ {b1 b2 : BSt}, BStRel b1 b2 →
    Obl BStRel (execBlock e1 b b1) (execBlock e2 b b2)
  | .nil, e1, e2, he, b1, b2, hb => by
    unfold execBlock
    exact Obl.pure hb
  | .cons st rest, e1, e2, he, b1, b2, hb => by
    unfold execBlock
    exact Obl.bind (execStmt_obl st he hb) (fun x1 x2 hx => execBlock_obl rest he hx)

theorem execIfRest_obl : ∀ (r : BIfRest) {e1 e2 : BEnv}, EnvRel e1 e2 → ∀ {b1 b2 : BSt}, BStRel b1 b2 →
    Obl BStRel (execIfRest e1 r b1) (execIfRest e2 r b2)
  | .endif, e1, e2, he, b1, b2, hb => by
    unfold execIfRest
    exact bEndif_obl hb
  | .els b, e1, e2, he, b1, b2, hb => by
    unfold execIfRest
    refine Obl.bind (bElse_obl hb) (fun x1 x2 hx => ?_)
    refine Obl.bind (execBlock_obl b he hx) (fun y1 y2 hy => ?_)
    exact bEndif_obl hy
  | .elif c b rest, e1, e2, he, b1, b2, hb => by
    unfold execIfRest
    refine Obl.bind (bElif_obl (fun p1 p2 hp => evalC_obl he hp c) hb) (fun x1 x2 hx => ?_)
    refine Obl.bind (execBlock_obl b he hx) (fun y1 y2 hy => ?_)
    exact execIfRest_obl rest he hy
end

/-! ## a complete run -/
theorem setupVars_obl : ∀ {i1 i2 : List (Nat × Int)}, Forall2 (fun a b => a.1 = b.1) i1 i2 → ∀ {b1 b2 : BV},
    BVRel b1 b2 → Obl BVRel (setupVars i1 b1) (setupVars i2 b2)
  | _, _, .nil, b1, b2, hb => Obl.pure hb
  | _, _, .cons (a := a) (b := b) hab ht, b1, b2, hb => by
    obtain ⟨k1, v1⟩ := a; obtain ⟨k2, v2⟩ := b
    simp only at hab
    subst hab
    unfold setupVars
    refine Obl.bind (privVal_obl v1 v2) (fun l1 l2 hl => ?_)
    rw [hb.next]
    exact setupVars_obl ht ⟨hb.vals.set k1 ⟨hl, rfl⟩, by simp only [hb.next]⟩

theorem setupInputs_obl : ∀ {i1 i2 : List Int}, i1.length = i2.length → ∀ n,
    Obl (Forall2 ObjRel) (setupInputs i1 n) (setupInputs i2 n)
  | [], [], _, n => Obl.pure .nil
  | [], _ :: _, h, n => by simp at h
  | _ :: _, [], h, n => by simp at h
  | v1 :: r1, v2 :: r2, h, n => by
    unfold setupInputs
    refine Obl.bind (privVal_obl v1 v2) (fun l1 l2 hl => ?_)
    refine Obl.bind (setupInputs_obl (by simpa using h) (n+1)) (fun o1 o2 ho => ?_)
    exact Obl.pure (.cons ⟨hl, rfl⟩ ho)

theorem runBlock_obl {i1 i2 : List (Nat × Int)} (hi : Forall2 (fun a b => a.1 = b.1) i1 i2) {in1 in2 : List Int}
    (hin : in1.length = in2.length) (prog : BBlock) :
    Obl BStRel (runBlock i1 in1 prog) (runBlock i2 in2 prog) := by
  unfold runBlock
  refine Obl.bind (setupVars_obl hi ⟨.nil, rfl⟩) (fun b1 b2 hb => ?_)
  rw [hb.next]
  refine Obl.bind (setupInputs_obl hin _) (fun o1 o2 ho => ?_)
  refine execBlock_obl prog (e1 := { inputs := o1 }) (e2 := { inputs := o2 }) ⟨ho, rfl⟩ ?_
  refine ⟨⟨hb.vals, ?_⟩, .nil⟩
  show b2.next + o1.length = b2.next + o2.length
  rw [ho.length_eq]

end Pysnark
