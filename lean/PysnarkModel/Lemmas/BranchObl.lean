import PysnarkModel.Lemmas.BranchTree
import PysnarkModel.Lemmas.OblRun
/-!
# Block branching: the constraints emitted do not depend on the values

Two runs of the same structured program from states of the same shape, with tracked variables and
inputs of the same shape (same names, same wire expressions, same object identities; any values),
that both complete, end in states of the same shape.  Relational rule + one lemma per function of
the library layer (`Lemmas/Obl*.lean`).
-/
namespace Pysnark

/-- scalars of the same shape: equal plain ints; same kind, same wire expression, same identity
(the values of secrets are free) -/
def SRel : SVal → SVal → Prop
  | .pub a, .pub b => a = b
  | .sc k1 l1 i1, .sc k2 l2 i2 => k1 = k2 ∧ lcEq l1 l2 ∧ i1 = i2
  | _, _ => False

mutual
/-- values of the same shape: the same nesting, related scalars -/
def TvRel : TVal → TVal → Prop
  | .leaf a, .leaf b => SRel a b
  | .node ts, .node us => TvRelL ts us
  | _, _ => False
def TvRelL : List TVal → List TVal → Prop
  | [], [] => True
  | t :: ts, u :: us => TvRel t u ∧ TvRelL ts us
  | _, _ => False
end

/-- the former name: tracked objects of the same shape -/
abbrev ObjRel := TvRel

def ValsRel (v1 v2 : Vals) : Prop := Forall2 (fun a b => a.1 = b.1 ∧ TvRel a.2 b.2) v1 v2

structure CtxRel (c1 c2 : BCtx) : Prop where
  isIf : c1.isIf = c2.isIf
  bak : ValsRel c1.bak c2.bak
  cond : lcEq c1.cond c2.cond
  icond : OptRel lcEq c1.icond c2.icond
  nodefvals : OptRel ValsRel c1.nodefvals c2.nodefvals
  origguard : GuardBakRel c1.origguard c2.origguard

structure BVRel (b1 b2 : BV) : Prop where
  vals : ValsRel b1.vals b2.vals
  next : b1.next = b2.next

structure BStRel (b1 b2 : BSt) : Prop where
  bv : BVRel b1.bv b2.bv
  stack : Forall2 CtxRel b1.stack b2.stack

structure EnvRel (e1 e2 : BEnv) : Prop where
  inputs : Forall2 SRel e1.inputs e2.inputs
  finputs : Forall2 SRel e1.finputs e2.finputs
  lvs : e1.lvs = e2.lvs

theorem optRel_elim {α : Type} {R : α → α → Prop} {o1 o2 : Option α} (h : OptRel R o1 o2) :
    (o1 = Option.none ∧ o2 = Option.none) ∨ ∃ a b, o1 = Option.some a ∧ o2 = Option.some b ∧ R a b := by
  cases h with
  | none => exact Or.inl ⟨rfl, rfl⟩
  | some hab => exact Or.inr ⟨_, _, rfl, rfl, hab⟩

/-! ## dictionaries -/
theorem ValsRel.get? : ∀ {v1 v2 : Vals}, ValsRel v1 v2 → ∀ x, OptRel ObjRel (v1.get? x) (v2.get? x)
  | _, _, .nil, _ => .none
  | _, _, .cons (a := a) (b := b) hab ht, x => by
    obtain ⟨k1, o1⟩ := a; obtain ⟨k2, o2⟩ := b
    obtain ⟨hk, ho⟩ := hab
    simp only at hk
    subst hk
    simp only [Vals.get?]
    by_cases h : k1 = x
    · simp only [h, if_true]; exact .some ho
    · simp only [h, if_false]; exact ValsRel.get? ht x

theorem ValsRel.has {v1 v2 : Vals} (h : ValsRel v1 v2) (x : Nat) : v1.has x = v2.has x := by
  unfold Vals.has
  rcases optRel_elim (h.get? x) with ⟨e1, e2⟩ | ⟨a, b, e1, e2, _⟩ <;> rw [e1, e2] <;> rfl

theorem ValsRel.set : ∀ {v1 v2 : Vals}, ValsRel v1 v2 → ∀ (x : Nat) {o1 o2 : TVal}, ObjRel o1 o2 →
    ValsRel (v1.set x o1) (v2.set x o2)
  | _, _, .nil, x, o1, o2, ho => .cons ⟨rfl, ho⟩ .nil
  | _, _, .cons (a := a) (b := b) hab ht, x, o1, o2, ho => by
    obtain ⟨k1, p1⟩ := a; obtain ⟨k2, p2⟩ := b
    obtain ⟨hk, hp⟩ := hab
    simp only at hk
    subst hk
    simp only [Vals.set]
    by_cases h : k1 = x
    · simp only [h, if_true]; exact .cons ⟨rfl, ho⟩ ht
    · simp only [h, if_false]; exact .cons ⟨rfl, hp⟩ (ValsRel.set ht x ho)

theorem ValsRel.filter {p1 p2 : Nat → Bool} (hp : ∀ k, p1 k = p2 k) : ∀ {v1 v2 : Vals}, ValsRel v1 v2 →
    ValsRel (v1.filter (fun kv => p1 kv.1)) (v2.filter (fun kv => p2 kv.1))
  | _, _, .nil => .nil
  | _, _, .cons (a := a) (b := b) hab ht => by
    obtain ⟨hk, ho⟩ := hab
    simp only [List.filter]
    rw [← hk, hp]
    cases p2 a.1
    · exact ValsRel.filter hp ht
    · exact .cons ⟨hk, ho⟩ (ValsRel.filter hp ht)

theorem ValsRel.removeAll {v1 v2 o1 o2 : Vals} (hv : ValsRel v1 v2) (ho : ValsRel o1 o2) :
    ValsRel (v1.removeAll o1) (v2.removeAll o2) :=
  ValsRel.filter (p1 := fun k => !o1.has k) (p2 := fun k => !o2.has k) (fun k => by simp only [ho.has k]) hv

theorem ValsRel.setAll_aux {o1 o2 : Vals} (ho : ValsRel o1 o2) : ∀ {l1 l2 : Vals}, ValsRel l1 l2 →
    ∀ {a1 a2 : Vals}, ValsRel a1 a2 → ValsRel (l1.foldl (Vals.setFrom o1) a1) (l2.foldl (Vals.setFrom o2) a2)
  | _, _, .nil, _, _, ha => ha
  | _, _, .cons (a := a) (b := b) hab ht, a1, a2, ha => by
    simp only [List.foldl_cons]
    refine ValsRel.setAll_aux ho ht ?_
    unfold Vals.setFrom
    rw [← hab.1]
    rcases optRel_elim (ho.get? a.1) with ⟨e1, e2⟩ | ⟨p, q, e1, e2, hpq⟩
    · rw [e1, e2]; exact ha
    · rw [e1, e2]; exact ha.set _ hpq

theorem ValsRel.setAll {v1 v2 o1 o2 : Vals} (hv : ValsRel v1 v2) (ho : ValsRel o1 o2) :
    ValsRel (v1.setAll o1) (v2.setAll o2) := ValsRel.setAll_aux ho ho hv

theorem ValsRel.isEmpty {v1 v2 : Vals} (h : ValsRel v1 v2) : v1.isEmpty = v2.isEmpty := by
  cases h <;> rfl

theorem forall2_getElem? {α : Type} {R : α → α → Prop} : ∀ {l1 l2 : List α}, Forall2 R l1 l2 → ∀ i : Nat,
    OptRel R l1[i]? l2[i]?
  | _, _, .nil, i => by simp only [List.getElem?_nil]; exact .none
  | _, _, .cons hab ht, 0 => by simp only [List.getElem?_cons_zero]; exact .some hab
  | _, _, .cons hab ht, i+1 => by simp only [List.getElem?_cons_succ]; exact forall2_getElem? ht i

theorem forall2_set {α : Type} {R : α → α → Prop} : ∀ {l1 l2 : List α}, Forall2 R l1 l2 → ∀ (i : Nat) {a b : α},
    R a b → Forall2 R (l1.set i a) (l2.set i b)
  | _, _, .nil, i, a, b, _ => by simp only [List.set_nil]; exact .nil
  | _, _, .cons hab ht, 0, a, b, h => by simp only [List.set_cons_zero]; exact .cons h ht
  | _, _, .cons hab ht, i+1, a, b, h => by simp only [List.set_cons_succ]; exact .cons hab (forall2_set ht i h)

/-! ## scalars and trees of the same shape -/
theorem SRel.toVal {a b : SVal} (h : SRel a b) : ValRel a.toVal b.toVal := by
  cases a with
  | pub x => cases b with
    | pub y => simp only [SRel] at h; subst h; exact ValRel.int x
    | sc _ _ _ => exact h.elim
  | sc k l i => cases b with
    | pub y => exact h.elim
    | sc k' l' i' =>
      obtain ⟨rfl, hl, _⟩ := h
      cases k
      · exact ValRel.lc hl
      · exact ValRel.lcb hl
      · exact ValRel.fxp hl

theorem SRel.sameObj {t1 t2 f1 f2 : SVal} (ht : SRel t1 t2) (hf : SRel f1 f2) : t1.sameObj f1 = t2.sameObj f2 := by
  cases t1 <;> cases t2 <;> simp only [SRel] at ht <;> cases f1 <;> cases f2 <;> simp only [SRel] at hf
  all_goals (try subst ht)
  all_goals (try subst hf)
  all_goals (try (obtain ⟨_, _, rfl⟩ := ht))
  all_goals (try (obtain ⟨_, _, rfl⟩ := hf))
  all_goals first
    | rfl
    | (cases ‹Option ℕ› <;> first | rfl | (cases ‹Option ℕ› <;> rfl))

theorem SRel.isSecret {a b : SVal} (h : SRel a b) : a.isSecret = b.isSecret := by
  cases a <;> cases b <;> first | rfl | exact h.elim

theorem SRel.dcopy {a b : SVal} (h : SRel a b) : SRel a.dcopy b.dcopy := by
  cases a with
  | pub x => cases b with
    | pub y => exact h
    | sc _ _ _ => exact h.elim
  | sc k l i => cases b with
    | pub y => exact h.elim
    | sc k' l' i' =>
      obtain ⟨rfl, hl, rfl⟩ := h
      cases k <;> exact ⟨rfl, hl, rfl⟩

theorem SRel.ofVal {v1 v2 : Val} (hv : ValRel v1 v2) (n : Nat) : OptRel SRel (SVal.ofVal v1 n) (SVal.ofVal v2 n) := by
  cases hv <;> simp only [SVal.ofVal] <;> first
    | exact .none
    | exact .some rfl
    | (rename_i h; exact .some ⟨rfl, h, rfl⟩)

theorem TvRel.leaf_iff {a b : SVal} : TvRel (.leaf a) (.leaf b) ↔ SRel a b := by simp only [TvRel]
theorem TvRel.node_iff {ts us : List TVal} : TvRel (.node ts) (.node us) ↔ TvRelL ts us := by simp only [TvRel]

theorem TvRelL_iff : ∀ {ts us : List TVal}, TvRelL ts us ↔ Forall2 TvRel ts us
  | [], [] => ⟨fun _ => .nil, fun _ => by simp only [TvRelL]⟩
  | [], _ :: _ => ⟨fun h => by simp only [TvRelL] at h, fun h => by cases h⟩
  | _ :: _, [] => ⟨fun h => by simp only [TvRelL] at h, fun h => by cases h⟩
  | t :: ts, u :: us => by
    simp only [TvRelL]
    constructor
    · rintro ⟨h1, h2⟩; exact .cons h1 (TvRelL_iff.mp h2)
    · intro h; cases h with | cons h1 h2 => exact ⟨h1, TvRelL_iff.mpr h2⟩

mutual
theorem TvRel.isSecret : ∀ {t u : TVal}, TvRel t u → t.isSecret = u.isSecret
  | .leaf a, .leaf b, h => by
    simp only [TvRel] at h
    simp only [TVal.isSecret, PTree.all_leaf, h.isSecret]
  | .node ts, .node us, h => by
    simp only [TvRel] at h
    have := TvRelL.isSecret h
    simp only [TVal.isSecret, PTree.all] at this ⊢
    exact this
  | .leaf _, .node _, h => by simp only [TvRel] at h
  | .node _, .leaf _, h => by simp only [TvRel] at h
theorem TvRelL.isSecret : ∀ {ts us : List TVal}, TvRelL ts us → PTree.allL SVal.isSecret ts = PTree.allL SVal.isSecret us
  | [], [], _ => rfl
  | t :: ts, u :: us, h => by
    simp only [TvRelL] at h
    have h1 := TvRel.isSecret h.1
    have h2 := TvRelL.isSecret h.2
    simp only [TVal.isSecret] at h1
    simp only [PTree.allL, h1, h2]
  | [], _ :: _, h => by simp only [TvRelL] at h
  | _ :: _, [], h => by simp only [TvRelL] at h
end

mutual
theorem TvRel.dcopy : ∀ {t u : TVal}, TvRel t u → TvRel t.dcopy u.dcopy
  | .leaf a, .leaf b, h => by
    simp only [TvRel] at h
    simp only [TVal.dcopy, PTree.map, TvRel]
    exact h.dcopy
  | .node ts, .node us, h => by
    simp only [TvRel] at h
    simp only [TVal.dcopy, PTree.map, TvRel]
    exact TvRelL.dcopy h
  | .leaf _, .node _, h => by simp only [TvRel] at h
  | .node _, .leaf _, h => by simp only [TvRel] at h
theorem TvRelL.dcopy : ∀ {ts us : List TVal}, TvRelL ts us → TvRelL (PTree.mapL SVal.dcopy ts) (PTree.mapL SVal.dcopy us)
  | [], [], _ => by simp only [PTree.mapL, TvRelL]
  | t :: ts, u :: us, h => by
    simp only [TvRelL] at h
    simp only [PTree.mapL, TvRelL]
    exact ⟨TvRel.dcopy h.1, TvRelL.dcopy h.2⟩
  | [], _ :: _, h => by simp only [TvRelL] at h
  | _ :: _, [], h => by simp only [TvRelL] at h
end

theorem ValsRel.backup : ∀ {v1 v2 : Vals}, ValsRel v1 v2 → ValsRel v1.backup v2.backup
  | _, _, .nil => .nil
  | _, _, .cons (a := a) (b := b) hab ht => by
    obtain ⟨k1, o1⟩ := a; obtain ⟨k2, o2⟩ := b
    simp only [Vals.backup]
    exact .cons ⟨hab.1, TvRel.dcopy hab.2⟩ (ValsRel.backup ht)

/-- element assignment on values of the same shape -/
theorem TvRel.set : ∀ (path : List Nat) {t u v w : TVal}, TvRel t u → TvRel v w → OptRel TvRel (t.set path v) (u.set path w)
  | [], t, u, v, w, _, hv => by simp only [PTree.set]; exact .some hv
  | i :: p, .leaf a, .leaf b, v, w, _, _ => by simp only [PTree.set]; exact .none
  | i :: p, .leaf a, .node us, v, w, h, _ => by simp only [TvRel] at h
  | i :: p, .node ts, .leaf b, v, w, h, _ => by simp only [TvRel] at h
  | i :: p, .node ts, .node us, v, w, h, hv => by
    simp only [TvRel] at h
    have hf := TvRelL_iff.mp h
    simp only [PTree.set]
    rcases optRel_elim (forall2_getElem? hf i) with ⟨e1, e2⟩ | ⟨x, y, e1, e2, hxy⟩
    · rw [e1, e2]; exact .none
    · rw [e1, e2]
      simp only
      rcases optRel_elim (TvRel.set p hxy hv) with ⟨e3, e4⟩ | ⟨x', y', e3, e4, hxy'⟩
      · rw [e3, e4]; exact .none
      · rw [e3, e4]
        simp only [Option.map_some]
        refine .some ?_
        simp only [TvRel]
        exact TvRelL_iff.mpr (forall2_set hf i hxy')

/-! ## merges -/
def PairNRel {α : Type} (R : α → α → Prop) (p q : α × Nat) : Prop := R p.1 q.1 ∧ p.2 = q.2

theorem coerceF_obl {t1 t2 f1 f2 : Val} (ht : ValRel t1 t2) (hf : ValRel f1 f2) :
    Obl ValRel (coerceF t1 f1) (coerceF t2 f2) := by
  unfold coerceF
  cases ht <;> first
    | exact Obl.pure hf
    | (refine Obl.bind (ensurefxp_obl hf) (fun y1 y2 hy => ?_); exact Obl.pure (ValRel.fxp hy))

theorem iteScalar_obl {c1 c2 : LinComb} (hc : lcEq c1 c2) {t1 t2 f1 f2 : Val} (ht : ValRel t1 t2) (hf : ValRel f1 f2) :
    Obl ValRel (iteScalar c1 t1 f1) (iteScalar c2 t2 f2) := by
  unfold iteScalar
  refine Obl.bind (coerceF_obl ht hf) (fun g1 g2 hg => ?_)
  refine Obl.bind (subV_obl ht hg) (fun d1 d2 hd => ?_)
  refine Obl.bind (mulLV_obl hc hd) (fun p1 p2 hp => ?_)
  exact Obl.bind (addV_obl hg hp) (fun r1 r2 hr => iteTag_obl ht hg hr)

theorem freshS_obl {v1 v2 : Val} (hv : ValRel v1 v2) (n : Nat) : Obl (PairNRel SRel) (freshS v1 n) (freshS v2 n) := by
  unfold freshS
  rcases optRel_elim (SRel.ofVal hv n) with ⟨e1, e2⟩ | ⟨a, b, e1, e2, hab⟩
  · rw [e1]; exact Obl.raiseL
  · rw [e1, e2]; exact Obl.pure ⟨hab, rfl⟩

theorem mergeS_obl {c1 c2 : LinComb} (hc : lcEq c1 c2) {t1 t2 f1 f2 : SVal} (ht : SRel t1 t2) (hf : SRel f1 f2)
    (n : Nat) : Obl (PairNRel SRel) (mergeS c1 t1 f1 n) (mergeS c2 t2 f2 n) := by
  unfold mergeS
  rw [SRel.sameObj ht hf]
  cases t2.sameObj f2
  · simp only [Bool.false_eq_true, if_false]
    exact Obl.bind (iteScalar_obl hc ht.toVal hf.toVal) (fun r1 r2 hr => freshS_obl hr n)
  · simp only [if_true]
    exact Obl.iteElseRaise (Obl.pure ⟨ht, rfl⟩)

mutual
theorem mergeT_obl {c1 c2 : LinComb} (hc : lcEq c1 c2) : ∀ {t1 t2 f1 f2 : TVal}, TvRel t1 t2 → TvRel f1 f2 →
    ∀ n, Obl (PairNRel TvRel) (mergeT c1 t1 f1 n) (mergeT c2 t2 f2 n)
  | .leaf a1, .leaf a2, .leaf b1, .leaf b2, ht, hf, n => by
    simp only [TvRel] at ht hf
    unfold mergeT
    refine Obl.bind (mergeS_obl hc ht hf n) (fun p1 p2 hp => ?_)
    exact Obl.pure ⟨by simp only [TvRel]; exact hp.1, hp.2⟩
  | .node ts1, .node ts2, .node fs1, .node fs2, ht, hf, n => by
    simp only [TvRel] at ht hf
    unfold mergeT
    refine Obl.iteElseRaise (Obl.bind (mergeTL_obl hc ht hf n) (fun p1 p2 hp => ?_))
    exact Obl.pure ⟨by simp only [TvRel]; exact hp.1, hp.2⟩
  | .node _, .node _, .leaf _, .leaf _, _, _, n => by unfold mergeT; exact Obl.raiseL
  | .leaf _, .leaf _, .node _, .node _, _, _, n => by unfold mergeT; exact Obl.raiseL
  | .leaf _, .node _, _, _, ht, _, n => by simp only [TvRel] at ht
  | .node _, .leaf _, _, _, ht, _, n => by simp only [TvRel] at ht
  | .leaf _, .leaf _, .leaf _, .node _, _, hf, n => by simp only [TvRel] at hf
  | .leaf _, .leaf _, .node _, .leaf _, _, hf, n => by simp only [TvRel] at hf
  | .node _, .node _, .leaf _, .node _, _, hf, n => by simp only [TvRel] at hf
  | .node _, .node _, .node _, .leaf _, _, hf, n => by simp only [TvRel] at hf
theorem mergeTL_obl {c1 c2 : LinComb} (hc : lcEq c1 c2) : ∀ {ts1 ts2 fs1 fs2 : List TVal}, TvRelL ts1 ts2 → TvRelL fs1 fs2 →
    ∀ n, Obl (PairNRel TvRelL) (mergeTL c1 ts1 fs1 n) (mergeTL c2 ts2 fs2 n)
  | [], [], [], [], _, _, n => by unfold mergeTL; exact Obl.pure ⟨by simp only [TvRelL], rfl⟩
  | t1 :: ts1, t2 :: ts2, f1 :: fs1, f2 :: fs2, ht, hf, n => by
    simp only [TvRelL] at ht hf
    unfold mergeTL
    refine Obl.bind (mergeT_obl hc ht.1 hf.1 n) (fun p1 p2 hp => ?_)
    obtain ⟨r1, m1⟩ := p1; obtain ⟨r2, m2⟩ := p2
    obtain ⟨hr, hm⟩ := hp
    simp only at hr hm
    subst hm
    refine Obl.bind (mergeTL_obl hc ht.2 hf.2 _) (fun q1 q2 hq => ?_)
    exact Obl.pure ⟨by simp only [TvRelL]; exact ⟨hr, hq.1⟩, hq.2⟩
  | [], [], _ :: _, _ :: _, _, _, n => by unfold mergeTL; exact Obl.raiseL
  | _ :: _, _ :: _, [], [], _, _, n => by unfold mergeTL; exact Obl.raiseL
  | [], _ :: _, _, _, ht, _, n => by simp only [TvRelL] at ht
  | _ :: _, [], _, _, ht, _, n => by simp only [TvRelL] at ht
  | [], [], [], _ :: _, _, hf, n => by simp only [TvRelL] at hf
  | [], [], _ :: _, [], _, hf, n => by simp only [TvRelL] at hf
  | _ :: _, _ :: _, [], _ :: _, _, hf, n => by simp only [TvRelL] at hf
  | _ :: _, _ :: _, _ :: _, [], _, hf, n => by simp only [TvRelL] at hf
end

theorem mergeNodef_obl {c1 c2 : LinComb} (hc : lcEq c1 c2) {v1 v2 : Vals} (hv : ValsRel v1 v2) :
    ∀ {nd1 nd2 : Vals}, ValsRel nd1 nd2 → ∀ n, Obl (PairNRel ValsRel) (mergeNodef c1 v1 nd1 n) (mergeNodef c2 v2 nd2 n)
  | _, _, .nil, n => Obl.pure ⟨.nil, rfl⟩
  | _, _, .cons (a := a) (b := b) hab ht, n => by
    obtain ⟨k1, o1⟩ := a; obtain ⟨k2, o2⟩ := b
    obtain ⟨hk, ho⟩ := hab
    simp only at hk ho
    subst hk
    unfold mergeNodef
    rcases optRel_elim (hv.get? k1) with ⟨e1, e2⟩ | ⟨p, q, e1, e2, hg⟩
    · simp only [e1]; exact Obl.raiseL
    · simp only [e1, e2]
      refine Obl.bind (mergeT_obl hc hg ho n) (fun r1 r2 hr => ?_)
      obtain ⟨hr1, hr2⟩ := hr
      rw [hr2]
      refine Obl.bind (mergeNodef_obl hc hv ht _) (fun q1 q2 hq => ?_)
      exact Obl.pure ⟨.cons ⟨rfl, hr1⟩ hq.1, hq.2⟩

theorem mergeBak_obl {c1 c2 : LinComb} (hc : lcEq c1 c2) {b1 b2 : Vals} (hb : ValsRel b1 b2) :
    ∀ {v1 v2 : Vals}, ValsRel v1 v2 → ∀ n, Obl (PairNRel ValsRel) (mergeBak c1 b1 v1 n) (mergeBak c2 b2 v2 n)
  | _, _, .nil, n => Obl.pure ⟨.nil, rfl⟩
  | _, _, .cons (a := a) (b := b) hab ht, n => by
    obtain ⟨k1, o1⟩ := a; obtain ⟨k2, o2⟩ := b
    obtain ⟨hk, ho⟩ := hab
    simp only at hk ho
    subst hk
    unfold mergeBak
    rcases optRel_elim (hb.get? k1) with ⟨e1, e2⟩ | ⟨p, q, e1, e2, hg⟩
    · simp only [e1]; exact Obl.raiseL
    · simp only [e1, e2]
      refine Obl.bind (mergeT_obl hc ho hg n) (fun r1 r2 hr => ?_)
      obtain ⟨hr1, hr2⟩ := hr
      rw [hr2]
      refine Obl.bind (mergeBak_obl hc hb ht _) (fun q1 q2 hq => ?_)
      exact Obl.pure ⟨.cons ⟨rfl, hr1⟩ hq.1, hq.2⟩

/-! ## contexts -/
def CBRel (p q : BCtx × BV) : Prop := CtxRel p.1 q.1 ∧ BVRel p.2 q.2

theorem enter_obl {c1 c2 : BCtx} (hctx : CtxRel c1 c2) {n1 n2 : LinComb} (hn : lcEq n1 n2) {b1 b2 : BV}
    (hb : BVRel b1 b2) : Obl CtxRel (c1.enter n1 b1) (c2.enter n2 b2) := by
  unfold BCtx.enter
  refine Obl.bind (addGuard_obl (ValRel.lcb hn)) (fun og1 og2 hog => ?_)
  exact Obl.pure ⟨hctx.isIf, hb.vals.backup, hn, hctx.icond, hctx.nodefvals, hog⟩

theorem exit_obl {c1 c2 : BCtx} (hctx : CtxRel c1 c2) {b1 b2 : BV} (hb : BVRel b1 b2) :
    Obl CBRel (c1.exit b1) (c2.exit b2) := by
  unfold BCtx.exit
  refine Obl.bind (restoreGuard_obl hctx.origguard) (fun _ _ _ => ?_)
  have hfirst : Obl (PairNRel ValsRel)
      (match c1.nodefvals with
        | none => pure (b1.vals.filter (fun kv => !c1.bak.has kv.1), b1.next)
        | some nd => mergeNodef c1.cond b1.vals nd b1.next)
      (match c2.nodefvals with
        | none => pure (b2.vals.filter (fun kv => !c2.bak.has kv.1), b2.next)
        | some nd => mergeNodef c2.cond b2.vals nd b2.next) := by
    rcases optRel_elim hctx.nodefvals with ⟨e1, e2⟩ | ⟨p, q, e1, e2, hpq⟩
    · rw [e1, e2]
      refine Obl.pure ⟨?_, hb.next⟩
      exact ValsRel.filter (p1 := fun k => !c1.bak.has k) (p2 := fun k => !c2.bak.has k)
        (fun k => by simp only [hctx.bak.has k]) hb.vals
    · rw [e1, e2, hb.next]
      exact mergeNodef_obl hctx.cond hb.vals hpq _
  refine Obl.bind hfirst (fun p1 p2 hp => ?_)
  obtain ⟨nd1, m1⟩ := p1; obtain ⟨nd2, m2⟩ := p2
  obtain ⟨hnd, hm⟩ := hp
  simp only at hnd hm
  subst hm
  refine Obl.bind (mergeBak_obl hctx.cond hctx.bak (hb.vals.removeAll hnd) _) (fun q1 q2 hq => ?_)
  obtain ⟨v1, k1⟩ := q1; obtain ⟨v2, k2⟩ := q2
  obtain ⟨hv, hk⟩ := hq
  exact Obl.pure ⟨⟨hctx.isIf, hctx.bak, hctx.cond, hctx.icond, .some hnd, hctx.origguard⟩, ⟨hv, hk⟩⟩

theorem andBB_obl {x1 x2 y1 y2 : LinComb} (hx : lcEq x1 x2) (hy : lcEq y1 y2) : Obl lcEq (andBB x1 y1) (andBB x2 y2) := by
  unfold andBB
  exact Obl.bind (mulLL_obl hx hy) (fun p1 p2 hp => mkBool_obl hp false)

theorem condLC_obl {v1 v2 : Val} (hv : ValRel v1 v2) : Obl lcEq (condLC v1) (condLC v2) := by
  unfold condLC
  cases hv <;> first | exact Obl.raiseL | skip
  rename_i h
  exact Obl.pure h

theorem guardBakRel_init : GuardBakRel ⟨none, false, oneSafe⟩ ⟨none, false, oneSafe⟩ := ⟨rfl, rfl⟩

theorem ifNew_obl {c1 c2 : LinComb} (hc : lcEq c1 c2) {b1 b2 : BV} (hb : BVRel b1 b2) :
    Obl CtxRel (ifNew c1 b1) (ifNew c2 b2) := by
  unfold ifNew
  refine Obl.bind (boolNot_obl hc) (fun i1 i2 hi => ?_)
  refine enter_obl ?_ hc hb
  exact ⟨rfl, .nil, hc, .some hi, .none, guardBakRel_init⟩

theorem whileNew_obl {c1 c2 : LinComb} (hc : lcEq c1 c2) {b1 b2 : BV} (hb : BVRel b1 b2) :
    Obl CtxRel (whileNew c1 b1) (whileNew c2 b2) := by
  unfold whileNew
  refine enter_obl ?_ hc hb
  exact ⟨rfl, .nil, hc, .none, .none, guardBakRel_init⟩

theorem ifElif_obl {c1 c2 : BCtx} (hctx : CtxRel c1 c2) {th1 th2 : BV → M Val}
    (hth : ∀ b1 b2, BVRel b1 b2 → Obl ValRel (th1 b1) (th2 b2)) {b1 b2 : BV} (hb : BVRel b1 b2) :
    Obl CBRel (ifElif c1 th1 b1) (ifElif c2 th2 b2) := by
  unfold ifElif
  refine Obl.bind (exit_obl hctx hb) (fun p1 p2 hp => ?_)
  obtain ⟨x1, y1⟩ := p1; obtain ⟨x2, y2⟩ := p2
  obtain ⟨hx, hy⟩ := hp
  simp only at hx hy ⊢
  refine Obl.bind (hth _ _ hy) (fun v1 v2 hv => ?_)
  refine Obl.bind (condLC_obl hv) (fun n1 n2 hn => ?_)
  rcases optRel_elim hx.icond with ⟨e1, e2⟩ | ⟨i1, i2, e1, e2, hi⟩
  · rw [e1]; exact Obl.raiseL
  · rw [e1, e2]
    simp only
    refine Obl.bind (boolNot_obl hn) (fun nn1 nn2 hnn => ?_)
    refine Obl.bind (andBB_obl hi hnn) (fun w1 w2 hw => ?_)
    refine Obl.bind (andBB_obl hi hn) (fun k1 k2 hk => ?_)
    refine Obl.bind (enter_obl hx hk hy) (fun z1 z2 hz => ?_)
    exact Obl.pure ⟨⟨hz.isIf, hz.bak, hz.cond, .some hw, hz.nodefvals, hz.origguard⟩, hy⟩

theorem ifElse_obl {c1 c2 : BCtx} (hctx : CtxRel c1 c2) {b1 b2 : BV} (hb : BVRel b1 b2) :
    Obl CBRel (ifElse c1 b1) (ifElse c2 b2) := by
  unfold ifElse
  refine Obl.bind (exit_obl hctx hb) (fun p1 p2 hp => ?_)
  obtain ⟨x1, y1⟩ := p1; obtain ⟨x2, y2⟩ := p2
  obtain ⟨hx, hy⟩ := hp
  simp only at hx hy ⊢
  rcases optRel_elim hx.icond with ⟨e1, e2⟩ | ⟨i1, i2, e1, e2, hi⟩
  · rw [e1]; exact Obl.raiseL
  · rw [e1, e2]
    simp only
    refine Obl.bind (enter_obl hx hi hy) (fun z1 z2 hz => ?_)
    exact Obl.pure ⟨⟨hz.isIf, hz.bak, hz.cond, .none, hz.nodefvals, hz.origguard⟩, hy⟩

theorem optRel_getD {o1 o2 : Option Vals} (h : OptRel ValsRel o1 o2) : ValsRel (o1.getD []) (o2.getD []) := by
  cases h with
  | none => exact .nil
  | some h => exact h

theorem optRel_isSome {α : Type} {R : α → α → Prop} {o1 o2 : Option α} (h : OptRel R o1 o2) : o1.isSome = o2.isSome := by
  cases h <;> rfl

theorem ifEnd_obl {c1 c2 : BCtx} (hctx : CtxRel c1 c2) {b1 b2 : BV} (hb : BVRel b1 b2) :
    Obl BVRel (ifEnd c1 b1) (ifEnd c2 b2) := by
  unfold ifEnd
  refine Obl.bind (exit_obl hctx hb) (fun p1 p2 hp => ?_)
  obtain ⟨x1, y1⟩ := p1; obtain ⟨x2, y2⟩ := p2
  obtain ⟨hx, hy⟩ := hp
  simp only at hx hy ⊢
  have hnd := optRel_getD hx.nodefvals
  rw [hnd.isEmpty, optRel_isSome hx.icond]
  refine Obl.iteRaise ?_
  exact Obl.pure ⟨hy.vals.setAll hnd, hy.next⟩

theorem whileExit_obl {c1 c2 : BCtx} (hctx : CtxRel c1 c2) {b1 b2 : BV} (hb : BVRel b1 b2) :
    Obl CBRel (whileExit c1 b1) (whileExit c2 b2) := by
  unfold whileExit
  refine Obl.bind (exit_obl hctx hb) (fun p1 p2 hp => ?_)
  obtain ⟨x1, y1⟩ := p1; obtain ⟨x2, y2⟩ := p2
  obtain ⟨hx, hy⟩ := hp
  simp only at hx hy ⊢
  rw [(optRel_getD hx.nodefvals).isEmpty]
  refine Obl.iteRaise ?_
  exact Obl.pure ⟨hx, hy⟩

theorem whileNext_obl {c1 c2 : BCtx} (hctx : CtxRel c1 c2) {n1 n2 : LinComb} (hn : lcEq n1 n2) {b1 b2 : BV}
    (hb : BVRel b1 b2) : Obl CBRel (whileNext c1 n1 b1) (whileNext c2 n2 b2) := by
  unfold whileNext
  refine Obl.bind (whileExit_obl hctx hb) (fun p1 p2 hp => ?_)
  obtain ⟨x1, y1⟩ := p1; obtain ⟨x2, y2⟩ := p2
  obtain ⟨hx, hy⟩ := hp
  simp only at hx hy ⊢
  refine Obl.bind (andBB_obl hx.cond hn) (fun k1 k2 hk => ?_)
  refine Obl.bind (enter_obl hx hk hy) (fun z1 z2 hz => ?_)
  exact Obl.pure ⟨hz, hy⟩

/-! ## module functions -/
theorem forall2_cases {α β : Type} {R : α → β → Prop} {l1 : List α} {l2 : List β} (h : Forall2 R l1 l2) :
    (l1 = [] ∧ l2 = []) ∨ ∃ a b t1 t2, l1 = a :: t1 ∧ l2 = b :: t2 ∧ R a b ∧ Forall2 R t1 t2 := by
  cases h with
  | nil => exact Or.inl ⟨rfl, rfl⟩
  | cons hab ht => exact Or.inr ⟨_, _, _, _, rfl, rfl, hab, ht⟩

theorem bIf_obl {v1 v2 : Val} (hv : ValRel v1 v2) {b1 b2 : BSt} (hb : BStRel b1 b2) : Obl BStRel (bIf v1 b1) (bIf v2 b2) := by
  unfold bIf
  refine Obl.bind (condLC_obl hv) (fun c1 c2 hc => ?_)
  refine Obl.bind (ifNew_obl hc hb.bv) (fun x1 x2 hx => ?_)
  exact Obl.pure ⟨hb.bv, .cons hx hb.stack⟩

theorem bWhilePush_obl {v1 v2 : Val} (hv : ValRel v1 v2) {b1 b2 : BSt} (hb : BStRel b1 b2) :
    Obl BStRel (bWhilePush v1 b1) (bWhilePush v2 b2) := by
  unfold bWhilePush
  refine Obl.bind (condLC_obl hv) (fun c1 c2 hc => ?_)
  refine Obl.bind (whileNew_obl hc hb.bv) (fun x1 x2 hx => ?_)
  exact Obl.pure ⟨hb.bv, .cons hx hb.stack⟩

theorem bElif_obl {th1 th2 : BV → M Val} (hth : ∀ b1 b2, BVRel b1 b2 → Obl ValRel (th1 b1) (th2 b2))
    {b1 b2 : BSt} (hb : BStRel b1 b2) : Obl BStRel (bElif th1 b1) (bElif th2 b2) := by
  unfold bElif
  rcases forall2_cases hb.stack with ⟨e1, e2⟩ | ⟨x1, x2, t1, t2, e1, e2, hc, ht⟩
  · rw [e1]; exact Obl.raiseL
  · rw [e1, e2]
    simp only
    rw [hc.isIf]
    refine Obl.iteRaise ?_
    refine Obl.bind (ifElif_obl hc hth hb.bv) (fun p1 p2 hp => ?_)
    exact Obl.pure ⟨hp.2, .cons hp.1 ht⟩

theorem bElse_obl {b1 b2 : BSt} (hb : BStRel b1 b2) : Obl BStRel (bElse b1) (bElse b2) := by
  unfold bElse
  rcases forall2_cases hb.stack with ⟨e1, e2⟩ | ⟨x1, x2, t1, t2, e1, e2, hc, ht⟩
  · rw [e1]; exact Obl.raiseL
  · rw [e1, e2]
    simp only
    rw [hc.isIf]
    refine Obl.iteRaise ?_
    refine Obl.bind (ifElse_obl hc hb.bv) (fun p1 p2 hp => ?_)
    exact Obl.pure ⟨hp.2, .cons hp.1 ht⟩

theorem bEndif_obl {b1 b2 : BSt} (hb : BStRel b1 b2) : Obl BStRel (bEndif b1) (bEndif b2) := by
  unfold bEndif
  rcases forall2_cases hb.stack with ⟨e1, e2⟩ | ⟨x1, x2, t1, t2, e1, e2, hc, ht⟩
  · rw [e1]; exact Obl.raiseL
  · rw [e1, e2]
    simp only
    rw [hc.isIf]
    refine Obl.ite ?_ ?_
    · refine Obl.bind (ifEnd_obl hc hb.bv) (fun p1 p2 hp => ?_)
      exact Obl.pure ⟨hp, ht⟩
    · refine Obl.bind (whileExit_obl hc hb.bv) (fun p1 p2 hp => ?_)
      exact Obl.pure ⟨hp.2, ht⟩

theorem bEndwhile_obl {b1 b2 : BSt} (hb : BStRel b1 b2) : Obl BStRel (bEndwhile b1) (bEndwhile b2) :=
  bEndif_obl hb

theorem bWhileNext_obl {v1 v2 : Val} (hv : ValRel v1 v2) {b1 b2 : BSt} (hb : BStRel b1 b2) :
    Obl BStRel (bWhileNext v1 b1) (bWhileNext v2 b2) := by
  unfold bWhileNext
  rcases forall2_cases hb.stack with ⟨e1, e2⟩ | ⟨x1, x2, t1, t2, e1, e2, hc, ht⟩
  · rw [e1]; exact Obl.raiseL
  · rw [e1, e2]
    simp only
    rw [hc.isIf]
    refine Obl.iteRaise ?_
    refine Obl.bind (condLC_obl hv) (fun c1 c2 hcc => ?_)
    refine Obl.bind (whileNext_obl hc hcc hb.bv) (fun p1 p2 hp => ?_)
    exact Obl.pure ⟨hp.2, .cons hp.1 ht⟩

theorem bBreakif_obl {v1 v2 : Val} (hv : ValRel v1 v2) {b1 b2 : BSt} (hb : BStRel b1 b2) :
    Obl BStRel (bBreakif v1 b1) (bBreakif v2 b2) := by
  unfold bBreakif
  refine Obl.bind (condLC_obl hv) (fun c1 c2 hc => ?_)
  refine Obl.bind (boolNot_obl hc) (fun n1 n2 hn => ?_)
  exact bWhileNext_obl (ValRel.lcb hn) hb


/-! ## expressions -/
theorem cmpOK_rel {a1 a2 b1 b2 : Val} (ha : ValRel a1 a2) (hb : ValRel b1 b2) : cmpOK a1 b1 = cmpOK a2 b2 := by
  cases ha <;> cases hb <;> rfl
theorem mulOK_rel {a1 a2 b1 b2 : Val} (ha : ValRel a1 a2) (hb : ValRel b1 b2) : mulOK a1 b1 = mulOK a2 b2 := by
  cases ha <;> cases hb <;> rfl
theorem bothBool_rel {a1 a2 b1 b2 : Val} (ha : ValRel a1 a2) (hb : ValRel b1 b2) : bothBool a1 b1 = bothBool a2 b2 := by
  cases ha <;> cases hb <;> rfl

theorem binS_obl {op : Val → Val → M Val} {ok : Val → Val → Bool}
    (hop : ∀ a1 a2 b1 b2, ValRel a1 a2 → ValRel b1 b2 → Obl ValRel (op a1 b1) (op a2 b2))
    (hok : ∀ a1 a2 b1 b2, ValRel a1 a2 → ValRel b1 b2 → ok a1 b1 = ok a2 b2)
    {x1 x2 y1 y2 : TVal} (hx : TvRel x1 x2) (hy : TvRel y1 y2) (n : Nat) :
    Obl (PairNRel TvRel) (binS op ok x1 y1 n) (binS op ok x2 y2 n) := by
  unfold binS
  cases x1 with
  | node ts1 => exact Obl.raiseL
  | leaf a1 => cases x2 with
    | node ts2 => simp only [TvRel] at hx
    | leaf a2 => cases y1 with
      | node us1 => exact Obl.raiseL
      | leaf b1 => cases y2 with
        | node us2 => simp only [TvRel] at hy
        | leaf b2 =>
          simp only [TvRel] at hx hy
          simp only
          rw [hok _ _ _ _ hx.toVal hy.toVal]
          cases ok a2.toVal b2.toVal
          · simp only [Bool.false_eq_true, if_false]; exact Obl.raiseL
          · simp only [if_true]
            refine Obl.bind (hop _ _ _ _ hx.toVal hy.toVal) (fun r1 r2 hr => ?_)
            refine Obl.bind (freshS_obl hr n) (fun p1 p2 hp => ?_)
            exact Obl.pure ⟨by simp only [TvRel]; exact hp.1, hp.2⟩

theorem notS_obl {x1 x2 : TVal} (hx : TvRel x1 x2) (n : Nat) : Obl (PairNRel TvRel) (notS x1 n) (notS x2 n) := by
  unfold notS
  cases x1 with
  | node ts1 => exact Obl.raiseL
  | leaf a1 => cases x2 with
    | node ts2 => simp only [TvRel] at hx
    | leaf a2 =>
      simp only [TvRel] at hx
      cases a1 with
      | pub c => exact Obl.raiseL
      | sc k l i => cases a2 with
        | pub c => exact hx.elim
        | sc k' l' i' =>
          obtain ⟨rfl, hl, rfl⟩ := hx
          cases k
          · exact Obl.raiseL
          · simp only
            refine Obl.bind (boolNot_obl hl) (fun r1 r2 hr => ?_)
            exact Obl.pure ⟨by simp only [TvRel]; exact ⟨rfl, hr, rfl⟩, rfl⟩
          · exact Obl.raiseL

mutual
theorem evalE_obl {e1 e2 : BEnv} (he : EnvRel e1 e2) {v1 v2 : Vals} (hv : ValsRel v1 v2) :
    ∀ (e : BExpr) (n : Nat), Obl (PairNRel TvRel) (evalE e1 v1 e n) (evalE e2 v2 e n)
  | .var x, n => by
    unfold evalE
    rcases optRel_elim (hv.get? x) with ⟨h1, h2⟩ | ⟨p, q, h1, h2, hpq⟩
    · rw [h1]; exact Obl.raiseL
    · rw [h1, h2]; exact Obl.pure ⟨hpq, rfl⟩
  | .inp i, n => by
    unfold evalE
    rcases optRel_elim (forall2_getElem? he.inputs i) with ⟨h1, h2⟩ | ⟨p, q, h1, h2, hpq⟩
    · rw [h1]; exact Obl.raiseL
    · rw [h1, h2]; exact Obl.pure ⟨by simp only [TvRel]; exact hpq, rfl⟩
  | .finp i, n => by
    unfold evalE
    rcases optRel_elim (forall2_getElem? he.finputs i) with ⟨h1, h2⟩ | ⟨p, q, h1, h2, hpq⟩
    · rw [h1]; exact Obl.raiseL
    · rw [h1, h2]; exact Obl.pure ⟨by simp only [TvRel]; exact hpq, rfl⟩
  | .const c, n => by
    unfold evalE
    exact Obl.pure ⟨by simp only [TvRel, SRel], rfl⟩
  | .loopvar v, n => by
    unfold evalE
    rw [he.lvs]
    cases lookupLv e2.lvs v with
    | none => exact Obl.raiseL
    | some k => exact Obl.pure ⟨by simp only [TvRel, SRel], rfl⟩
  | .add a b, n => by
    unfold evalE
    refine Obl.bind (evalE_obl he hv a n) (fun p1 p2 hp => ?_)
    obtain ⟨x1, m1⟩ := p1; obtain ⟨x2, m2⟩ := p2; obtain ⟨hx, hm⟩ := hp; simp only at hx hm; subst hm
    refine Obl.bind (evalE_obl he hv b _) (fun q1 q2 hq => ?_)
    obtain ⟨y1, k1⟩ := q1; obtain ⟨y2, k2⟩ := q2; obtain ⟨hy, hk⟩ := hq; simp only at hy hk; subst hk
    exact binS_obl (fun _ _ _ _ ha hb => addV_obl ha hb) (fun _ _ _ _ _ _ => rfl) hx hy _
  | .sub a b, n => by
    unfold evalE
    refine Obl.bind (evalE_obl he hv a n) (fun p1 p2 hp => ?_)
    obtain ⟨x1, m1⟩ := p1; obtain ⟨x2, m2⟩ := p2; obtain ⟨hx, hm⟩ := hp; simp only at hx hm; subst hm
    refine Obl.bind (evalE_obl he hv b _) (fun q1 q2 hq => ?_)
    obtain ⟨y1, k1⟩ := q1; obtain ⟨y2, k2⟩ := q2; obtain ⟨hy, hk⟩ := hq; simp only at hy hk; subst hk
    exact binS_obl (fun _ _ _ _ ha hb => subV_obl ha hb) (fun _ _ _ _ _ _ => rfl) hx hy _
  | .mul a b, n => by
    unfold evalE
    refine Obl.bind (evalE_obl he hv a n) (fun p1 p2 hp => ?_)
    obtain ⟨x1, m1⟩ := p1; obtain ⟨x2, m2⟩ := p2; obtain ⟨hx, hm⟩ := hp; simp only at hx hm; subst hm
    refine Obl.bind (evalE_obl he hv b _) (fun q1 q2 hq => ?_)
    obtain ⟨y1, k1⟩ := q1; obtain ⟨y2, k2⟩ := q2; obtain ⟨hy, hk⟩ := hq; simp only at hy hk; subst hk
    exact binS_obl (fun _ _ _ _ ha hb => mulV_obl ha hb) (fun _ _ _ _ ha hb => mulOK_rel ha hb) hx hy _
  | .cmp op a b, n => by
    unfold evalE
    refine Obl.bind (evalE_obl he hv a n) (fun p1 p2 hp => ?_)
    obtain ⟨x1, m1⟩ := p1; obtain ⟨x2, m2⟩ := p2; obtain ⟨hx, hm⟩ := hp; simp only at hx hm; subst hm
    refine Obl.bind (evalE_obl he hv b _) (fun q1 q2 hq => ?_)
    obtain ⟨y1, k1⟩ := q1; obtain ⟨y2, k2⟩ := q2; obtain ⟨hy, hk⟩ := hq; simp only at hy hk; subst hk
    exact binS_obl (fun _ _ _ _ ha hb => cmpV_obl op ha hb) (fun _ _ _ _ ha hb => cmpOK_rel ha hb) hx hy _
  | .not a, n => by
    unfold evalE
    refine Obl.bind (evalE_obl he hv a n) (fun p1 p2 hp => ?_)
    obtain ⟨x1, m1⟩ := p1; obtain ⟨x2, m2⟩ := p2; obtain ⟨hx, hm⟩ := hp; simp only at hx hm; subst hm
    exact notS_obl hx _
  | .and a b, n => by
    unfold evalE
    refine Obl.bind (evalE_obl he hv a n) (fun p1 p2 hp => ?_)
    obtain ⟨x1, m1⟩ := p1; obtain ⟨x2, m2⟩ := p2; obtain ⟨hx, hm⟩ := hp; simp only at hx hm; subst hm
    refine Obl.bind (evalE_obl he hv b _) (fun q1 q2 hq => ?_)
    obtain ⟨y1, k1⟩ := q1; obtain ⟨y2, k2⟩ := q2; obtain ⟨hy, hk⟩ := hq; simp only at hy hk; subst hk
    exact binS_obl (fun _ _ _ _ ha hb => bwV_obl .and ha hb) (fun _ _ _ _ ha hb => bothBool_rel ha hb) hx hy _
  | .or a b, n => by
    unfold evalE
    refine Obl.bind (evalE_obl he hv a n) (fun p1 p2 hp => ?_)
    obtain ⟨x1, m1⟩ := p1; obtain ⟨x2, m2⟩ := p2; obtain ⟨hx, hm⟩ := hp; simp only at hx hm; subst hm
    refine Obl.bind (evalE_obl he hv b _) (fun q1 q2 hq => ?_)
    obtain ⟨y1, k1⟩ := q1; obtain ⟨y2, k2⟩ := q2; obtain ⟨hy, hk⟩ := hq; simp only at hy hk; subst hk
    exact binS_obl (fun _ _ _ _ ha hb => bwV_obl .or ha hb) (fun _ _ _ _ ha hb => bothBool_rel ha hb) hx hy _
  | .list es, n => by
    unfold evalE
    refine Obl.bind (evalEs_obl he hv es n) (fun p1 p2 hp => ?_)
    exact Obl.pure ⟨by simp only [TvRel]; exact hp.1, hp.2⟩
  | .item e i, n => by
    unfold evalE
    refine Obl.bind (evalE_obl he hv e n) (fun p1 p2 hp => ?_)
    obtain ⟨x1, m1⟩ := p1; obtain ⟨x2, m2⟩ := p2; obtain ⟨hx, hm⟩ := hp; simp only at hx hm; subst hm
    cases x1 with
    | leaf a1 => exact Obl.raiseL
    | node ts1 => cases x2 with
      | leaf a2 => simp only [TvRel] at hx
      | node ts2 =>
        simp only [TvRel] at hx
        simp only
        rcases optRel_elim (forall2_getElem? (TvRelL_iff.mp hx) i) with ⟨h1, h2⟩ | ⟨p, q, h1, h2, hpq⟩
        · rw [h1]; exact Obl.raiseL
        · rw [h1, h2]; exact Obl.pure ⟨hpq, rfl⟩
theorem evalEs_obl {e1 e2 : BEnv} (he : EnvRel e1 e2) {v1 v2 : Vals} (hv : ValsRel v1 v2) :
    ∀ (es : BExprs) (n : Nat), Obl (PairNRel TvRelL) (evalEs e1 v1 es n) (evalEs e2 v2 es n)
  | .nil, n => by
    unfold evalEs
    exact Obl.pure ⟨by simp only [TvRelL], rfl⟩
  | .cons e es, n => by
    unfold evalEs
    refine Obl.bind (evalE_obl he hv e n) (fun p1 p2 hp => ?_)
    obtain ⟨x1, m1⟩ := p1; obtain ⟨x2, m2⟩ := p2; obtain ⟨hx, hm⟩ := hp; simp only at hx hm; subst hm
    refine Obl.bind (evalEs_obl he hv es _) (fun q1 q2 hq => ?_)
    exact Obl.pure ⟨by simp only [TvRelL]; exact ⟨hx, hq.1⟩, hq.2⟩
end

theorem evalC_obl {e1 e2 : BEnv} (he : EnvRel e1 e2) {b1 b2 : BV} (hb : BVRel b1 b2) (c : BCond) :
    Obl ValRel (evalC e1 b1 c) (evalC e2 b2 c) := by
  unfold evalC
  rw [hb.next]
  refine Obl.bind (evalE_obl he hb.vals c _) (fun p1 p2 hp => ?_)
  obtain ⟨x1, m1⟩ := p1; obtain ⟨x2, m2⟩ := p2; obtain ⟨hx, _⟩ := hp
  simp only at hx ⊢
  cases x1 with
  | node ts1 => exact Obl.raiseL
  | leaf a1 => cases x2 with
    | node ts2 => simp only [TvRel] at hx
    | leaf a2 =>
      simp only [TvRel] at hx
      exact Obl.pure hx.toVal

theorem bindT_obl (x : Nat) {t1 t2 : TVal} (ht : TvRel t1 t2) (n : Nat) {b1 b2 : BSt} (hb : BStRel b1 b2) :
    Obl BStRel (bindT x t1 n b1) (bindT x t2 n b2) := by
  unfold bindT
  rw [TvRel.isSecret ht]
  cases t2.isSecret
  · simp only [Bool.false_eq_true, if_false]; exact Obl.raiseL
  · simp only [if_true]
    exact Obl.pure ⟨⟨hb.bv.vals.set x ht, rfl⟩, hb.stack⟩

theorem guardedM_obl {α : Type} {R : α → α → Prop} {c1 c2 : LinComb} (hc : lcEq c1 c2) {m1 m2 : M α}
    (hm : Obl R m1 m2) : Obl R (guardedM c1 m1) (guardedM c2 m2) := by
  unfold guardedM
  refine Obl.bind (addGuard_obl (ValRel.lcb hc)) (fun og1 og2 hog => ?_)
  refine Obl.bind hm (fun a1 a2 ha => ?_)
  refine Obl.bind (restoreGuard_obl hog) (fun _ _ _ => ?_)
  exact Obl.pure ha

theorem iteVals_obl {c1 c2 : LinComb} (hc : lcEq c1 c2) {t1 t2 f1 f2 : TVal} (ht : TvRel t1 t2) (hf : TvRel f1 f2) (n : Nat) :
    Obl (PairNRel TvRel) (iteVals c1 t1 f1 n) (iteVals c2 t2 f2 n) := by
  unfold iteVals
  cases t1 with
  | leaf a1 => cases t2 with
    | node _ => simp only [TvRel] at ht
    | leaf a2 => cases f1 with
      | leaf b1 => cases f2 with
        | node _ => simp only [TvRel] at hf
        | leaf b2 =>
          simp only [TvRel] at ht hf
          simp only
          refine Obl.bind (iteScalar_obl hc ht.toVal hf.toVal) (fun r1 r2 hr => ?_)
          refine Obl.bind (freshS_obl hr n) (fun p1 p2 hp => ?_)
          exact Obl.pure ⟨by simp only [TvRel]; exact hp.1, hp.2⟩
      | node us1 => cases f2 with
        | leaf _ => simp only [TvRel] at hf
        | node us2 => simp only; exact mergeT_obl hc ht hf n
  | node ts1 => cases t2 with
    | leaf _ => simp only [TvRel] at ht
    | node ts2 => simp only; exact mergeT_obl hc ht hf n

theorem iteThunks_obl {c1 c2 : LinComb} (hc : lcEq c1 c2) {t1 t2 f1 f2 : Nat → M (TVal × Nat)}
    (ht : ∀ n, Obl (PairNRel TvRel) (t1 n) (t2 n)) (hf : ∀ n, Obl (PairNRel TvRel) (f1 n) (f2 n)) (n : Nat) :
    Obl (PairNRel TvRel) (iteThunks c1 t1 f1 n) (iteThunks c2 t2 f2 n) := by
  unfold iteThunks
  refine Obl.bind (guardedM_obl hc (ht n)) (fun p1 p2 hp => ?_)
  obtain ⟨x1, m1⟩ := p1; obtain ⟨x2, m2⟩ := p2; obtain ⟨hx, hm⟩ := hp; simp only at hx hm; subst hm
  refine Obl.bind (boolNot_obl hc) (fun n1 n2 hn => ?_)
  refine Obl.bind (guardedM_obl hn (hf _)) (fun q1 q2 hq => ?_)
  obtain ⟨y1, k1⟩ := q1; obtain ⟨y2, k2⟩ := q2; obtain ⟨hy, hk⟩ := hq; simp only at hy hk; subst hk
  exact iteVals_obl hc hx hy _

theorem iterM_obl {β : Type} {R : β → β → Prop} {f1 f2 : Nat → β → M β}
    (hf : ∀ i b1 b2, R b1 b2 → Obl R (f1 i b1) (f2 i b2)) :
    ∀ (n i : Nat) {b1 b2 : β}, R b1 b2 → Obl R (iterM n f1 i b1) (iterM n f2 i b2)
  | 0, i, b1, b2, hb => Obl.pure hb
  | n+1, i, b1, b2, hb => by
    unfold iterM
    exact Obl.bind (hf i b1 b2 hb) (fun x1 x2 hx => iterM_obl hf n (i+1) hx)

theorem breakStep_obl {e1 e2 : BEnv} (he : EnvRel e1 e2) (brk : Option BCond) {b1 b2 : BSt} (hb : BStRel b1 b2) :
    Obl BStRel (breakStep e1 brk b1) (breakStep e2 brk b2) := by
  unfold breakStep
  cases brk with
  | none => exact Obl.pure hb
  | some bc => exact Obl.bind (evalC_obl he hb.bv bc) (fun v1 v2 hv => bBreakif_obl hv hb)

theorem whileRound_obl {e1 e2 : BEnv} (he : EnvRel e1 e2) {body1 body2 : BSt → M BSt}
    (hbody : ∀ b1 b2, BStRel b1 b2 → Obl BStRel (body1 b1) (body2 b2)) (c : BCond) (brk : Option BCond)
    {b1 b2 : BSt} (hb : BStRel b1 b2) : Obl BStRel (whileRound e1 body1 c brk b1) (whileRound e2 body2 c brk b2) := by
  unfold whileRound
  refine Obl.bind (hbody _ _ hb) (fun x1 x2 hx => ?_)
  refine Obl.bind (breakStep_obl he brk hx) (fun y1 y2 hy => ?_)
  refine Obl.bind (evalC_obl he hy.bv c) (fun v1 v2 hv => ?_)
  exact bWhileNext_obl hv hy

theorem EnvRel.push {e1 e2 : BEnv} (he : EnvRel e1 e2) (lv : Nat) (k : Int) :
    EnvRel { e1 with lvs := (lv, k) :: e1.lvs } { e2 with lvs := (lv, k) :: e2.lvs } :=
  ⟨he.inputs, he.finputs, by simp only [he.lvs]⟩

theorem forRound_obl {e1 e2 : BEnv} (he : EnvRel e1 e2) (lv : Nat) {st1 st2 : Val} (hst : ValRel st1 st2)
    {body1 body2 : BEnv → BSt → M BSt}
    (hbody : ∀ x1 x2, EnvRel x1 x2 → ∀ b1 b2, BStRel b1 b2 → Obl BStRel (body1 x1 b1) (body2 x2 b2))
    (ix : Nat) {b1 b2 : BSt} (hb : BStRel b1 b2) :
    Obl BStRel (forRound e1 lv st1 body1 ix b1) (forRound e2 lv st2 body2 ix b2) := by
  unfold forRound
  refine Obl.bind (cmpV_obl .ne (ValRel.int _) hst) (fun v1 v2 hv => ?_)
  refine Obl.bind (bWhileNext_obl hv hb) (fun y1 y2 hy => ?_)
  exact hbody _ _ (he.push lv ix) _ _ hy

mutual
theorem execStmt_obl : ∀ (st : BStmt) {e1 e2 : BEnv}, EnvRel e1 e2 → ∀ {b1 b2 : BSt}, BStRel b1 b2 →
    Obl BStRel (execStmt e1 st b1) (execStmt e2 st b2)
  | .assign x e, e1, e2, he, b1, b2, hb => by
    unfold execStmt
    rw [hb.bv.next]
    refine Obl.bind (evalE_obl he hb.bv.vals e _) (fun p1 p2 hp => ?_)
    obtain ⟨x1, m1⟩ := p1; obtain ⟨x2, m2⟩ := p2; obtain ⟨hx, hm⟩ := hp; simp only at hx hm; subst hm
    exact bindT_obl x hx _ hb
  | .setitem x path e, e1, e2, he, b1, b2, hb => by
    unfold execStmt
    rw [hb.bv.next]
    refine Obl.bind (evalE_obl he hb.bv.vals e _) (fun p1 p2 hp => ?_)
    obtain ⟨x1, m1⟩ := p1; obtain ⟨x2, m2⟩ := p2; obtain ⟨hx, hm⟩ := hp; simp only at hx hm; subst hm
    simp only
    rcases optRel_elim (hb.bv.vals.get? x) with ⟨h1, h2⟩ | ⟨p, q, h1, h2, hpq⟩
    · rw [h1]; exact Obl.raiseL
    · rw [h1, h2]
      simp only
      rcases optRel_elim (TvRel.set path hpq hx) with ⟨h3, h4⟩ | ⟨p', q', h3, h4, hpq'⟩
      · rw [h3]; exact Obl.raiseL
      · rw [h3, h4]; exact bindT_obl x hpq' _ hb
  | .sel x c t f, e1, e2, he, b1, b2, hb => by
    unfold execStmt
    refine Obl.bind (evalC_obl he hb.bv c) (fun v1 v2 hv => ?_)
    rw [hb.bv.next]
    refine Obl.bind (evalE_obl he hb.bv.vals t _) (fun p1 p2 hp => ?_)
    obtain ⟨x1, m1⟩ := p1; obtain ⟨x2, m2⟩ := p2; obtain ⟨hx, hm⟩ := hp; simp only at hx hm; subst hm
    refine Obl.bind (evalE_obl he hb.bv.vals f _) (fun q1 q2 hq => ?_)
    obtain ⟨y1, k1⟩ := q1; obtain ⟨y2, k2⟩ := q2; obtain ⟨hy, hk⟩ := hq; simp only at hy hk; subst hk
    refine Obl.bind (condLC_obl hv) (fun c1 c2 hc => ?_)
    refine Obl.bind (mergeT_obl hc hx hy _) (fun r1 r2 hr => ?_)
    obtain ⟨z1, j1⟩ := r1; obtain ⟨z2, j2⟩ := r2; obtain ⟨hz, hj⟩ := hr; simp only at hz hj; subst hj
    exact bindT_obl x hz _ hb
  | .ite x c t f, e1, e2, he, b1, b2, hb => by
    unfold execStmt
    refine Obl.bind (evalC_obl he hb.bv c) (fun v1 v2 hv => ?_)
    refine Obl.bind (condLC_obl hv) (fun c1 c2 hc => ?_)
    rw [hb.bv.next]
    refine Obl.bind (iteThunks_obl hc (evalE_obl he hb.bv.vals t) (evalE_obl he hb.bv.vals f) _) (fun r1 r2 hr => ?_)
    obtain ⟨z1, j1⟩ := r1; obtain ⟨z2, j2⟩ := r2; obtain ⟨hz, hj⟩ := hr; simp only at hz hj; subst hj
    exact bindT_obl x hz _ hb
  | .ifs c body rest, e1, e2, he, b1, b2, hb => by
    unfold execStmt
    refine Obl.bind (evalC_obl he hb.bv c) (fun v1 v2 hv => ?_)
    refine Obl.bind (bIf_obl hv hb) (fun x1 x2 hx => ?_)
    refine Obl.bind (execBlock_obl body he hx) (fun y1 y2 hy => ?_)
    exact execIfRest_obl rest he hy
  | .forr lv bound mx body, e1, e2, he, b1, b2, hb => by
    unfold execStmt
    refine Obl.bind (evalC_obl he hb.bv bound) (fun s1 s2 hs => ?_)
    cases hs <;> first | exact Obl.raiseL | skip
    rename_i l1 l2 hl
    dsimp only
    refine Obl.bind (cmpV_obl .ne (ValRel.int _) (ValRel.lc hl)) (fun v1 v2 hv => ?_)
    refine Obl.bind (bWhilePush_obl hv hb) (fun x1 x2 hx => ?_)
    refine Obl.bind (execBlock_obl body (he.push lv 0) hx) (fun y1 y2 hy => ?_)
    refine Obl.bind (iterM_obl (fun i p1 p2 hp => forRound_obl he lv (ValRel.lc hl)
      (fun x1 x2 hxe q1 q2 hq => execBlock_obl body hxe hq) i hp) _ _ hy) (fun z1 z2 hz => ?_)
    exact bEndwhile_obl hz
  | .whil c mx body brk, e1, e2, he, b1, b2, hb => by
    unfold execStmt
    refine Obl.bind (evalC_obl he hb.bv c) (fun v1 v2 hv => ?_)
    refine Obl.bind (bWhilePush_obl hv hb) (fun x1 x2 hx => ?_)
    refine Obl.bind (iterM_obl (fun i p1 p2 hp => whileRound_obl he
      (fun q1 q2 hq => execBlock_obl body he hq) c brk hp) _ _ hx) (fun z1 z2 hz => ?_)
    exact bEndwhile_obl hz

theorem execBlock_obl : ∀ (b : BBlock) {e1 e2 : BEnv}, EnvRel e1 e2 → ∀ {b1 b2 : BSt}, BStRel b1 b2 →
    Obl BStRel (execBlock e1 b b1) (execBlock e2 b b2)
  | .nil, e1, e2, he, b1, b2, hb => by
    unfold execBlock
    exact Obl.pure hb
  | .cons st rest, e1, e2, he, b1, b2, hb => by
    unfold execBlock
    exact Obl.bind (execStmt_obl st he hb) (fun x1 x2 hx => execBlock_obl rest he hx)

theorem execIfRest_obl : ∀ (r : BIfRest) {e1 e2 : BEnv}, EnvRel e1 e2 → ∀ {b1 b2 : BSt}, BStRel b1 b2 →
    Obl BStRel (execIfRest e1 r b1) (execIfRest e2 r b2)
  | .endif, e1, e2, he, b1, b2, hb => by
    unfold execIfRest
    exact bEndif_obl hb
  | .els b, e1, e2, he, b1, b2, hb => by
    unfold execIfRest
    refine Obl.bind (bElse_obl hb) (fun x1 x2 hx => ?_)
    refine Obl.bind (execBlock_obl b he hx) (fun y1 y2 hy => ?_)
    exact bEndif_obl hy
  | .elif c b rest, e1, e2, he, b1, b2, hb => by
    unfold execIfRest
    refine Obl.bind (bElif_obl (fun p1 p2 hp => evalC_obl he hp c) hb) (fun x1 x2 hx => ?_)
    refine Obl.bind (execBlock_obl b he hx) (fun y1 y2 hy => ?_)
    exact execIfRest_obl rest he hy
end

/-! ## a complete run -/

/-- initial values of the same shape: the same kind at every leaf (the values are free) -/
def ILeafRel : ILeaf → ILeaf → Prop
  | .int _, .int _ => True
  | .bool _, .bool _ => True
  | .fxp _ _, .fxp _ _ => True
  | _, _ => False

mutual
def IRel : IVal → IVal → Prop
  | .leaf a, .leaf b => ILeafRel a b
  | .node ts, .node us => IRelL ts us
  | _, _ => False
def IRelL : List IVal → List IVal → Prop
  | [], [] => True
  | t :: ts, u :: us => IRel t u ∧ IRelL ts us
  | _, _ => False
end

theorem setupLeaf_obl {a1 a2 : ILeaf} (ha : ILeafRel a1 a2) (n : Nat) :
    Obl (PairNRel SRel) (setupLeaf a1 n) (setupLeaf a2 n) := by
  cases a1 <;> cases a2 <;> simp only [ILeafRel] at ha <;> simp only [setupLeaf]
  · refine Obl.bind (privVal_obl _ _) (fun l1 l2 hl => ?_)
    exact Obl.pure ⟨⟨rfl, hl, rfl⟩, rfl⟩
  · refine Obl.bind (privVal_obl _ _) (fun l1 l2 hl => ?_)
    refine Obl.bind (cmpV_obl .eq (ValRel.lc hl) (ValRel.int 1)) (fun v1 v2 hv => ?_)
    cases hv <;> first | exact Obl.raiseL | skip
    rename_i c1 c2 hc
    exact Obl.pure ⟨⟨rfl, hc, rfl⟩, rfl⟩
  · refine Obl.bind (mkVal_obl .privx (by decide) rfl rfl) (fun v1 v2 hv => ?_)
    cases hv <;> first | exact Obl.raiseL | skip
    rename_i c1 c2 hc
    exact Obl.pure ⟨⟨rfl, hc, rfl⟩, rfl⟩

mutual
theorem setupT_obl : ∀ {v1 v2 : IVal}, IRel v1 v2 → ∀ n, Obl (PairNRel TvRel) (setupT v1 n) (setupT v2 n)
  | .leaf a, .leaf b, h, n => by
    simp only [IRel] at h
    unfold setupT
    refine Obl.bind (setupLeaf_obl h n) (fun p1 p2 hp => ?_)
    exact Obl.pure ⟨by simp only [TvRel]; exact hp.1, hp.2⟩
  | .node ts, .node us, h, n => by
    simp only [IRel] at h
    unfold setupT
    refine Obl.bind (setupTL_obl h n) (fun p1 p2 hp => ?_)
    exact Obl.pure ⟨by simp only [TvRel]; exact hp.1, hp.2⟩
  | .leaf _, .node _, h, n => by simp only [IRel] at h
  | .node _, .leaf _, h, n => by simp only [IRel] at h
theorem setupTL_obl : ∀ {vs1 vs2 : List IVal}, IRelL vs1 vs2 → ∀ n, Obl (PairNRel TvRelL) (setupTL vs1 n) (setupTL vs2 n)
  | [], [], _, n => by unfold setupTL; exact Obl.pure ⟨by simp only [TvRelL], rfl⟩
  | v1 :: vs1, v2 :: vs2, h, n => by
    simp only [IRelL] at h
    unfold setupTL
    refine Obl.bind (setupT_obl h.1 n) (fun p1 p2 hp => ?_)
    obtain ⟨x1, m1⟩ := p1; obtain ⟨x2, m2⟩ := p2; obtain ⟨hx, hm⟩ := hp; simp only at hx hm; subst hm
    refine Obl.bind (setupTL_obl h.2 _) (fun q1 q2 hq => ?_)
    exact Obl.pure ⟨by simp only [TvRelL]; exact ⟨hx, hq.1⟩, hq.2⟩
  | [], _ :: _, h, n => by simp only [IRelL] at h
  | _ :: _, [], h, n => by simp only [IRelL] at h
end

theorem setupVars_obl : ∀ {i1 i2 : List (Nat × IVal)}, Forall2 (fun a b => a.1 = b.1 ∧ IRel a.2 b.2) i1 i2 → ∀ {b1 b2 : BV},
    BVRel b1 b2 → Obl BVRel (setupVars i1 b1) (setupVars i2 b2)
  | _, _, .nil, b1, b2, hb => Obl.pure hb
  | _, _, .cons (a := a) (b := b) hab ht, b1, b2, hb => by
    obtain ⟨k1, v1⟩ := a; obtain ⟨k2, v2⟩ := b
    obtain ⟨hk, hv⟩ := hab
    simp only at hk hv
    subst hk
    unfold setupVars
    rw [hb.next]
    refine Obl.bind (setupT_obl hv _) (fun p1 p2 hp => ?_)
    obtain ⟨x1, m1⟩ := p1; obtain ⟨x2, m2⟩ := p2; obtain ⟨hx, hm⟩ := hp; simp only at hx hm; subst hm
    exact setupVars_obl ht ⟨hb.vals.set k1 hx, rfl⟩

theorem setupInputs_obl : ∀ {i1 i2 : List ILeaf}, Forall2 ILeafRel i1 i2 → ∀ n,
    Obl (PairNRel (Forall2 SRel)) (setupInputs i1 n) (setupInputs i2 n)
  | _, _, .nil, n => Obl.pure ⟨.nil, rfl⟩
  | _, _, .cons hab ht, n => by
    unfold setupInputs
    refine Obl.bind (setupLeaf_obl hab n) (fun p1 p2 hp => ?_)
    obtain ⟨x1, m1⟩ := p1; obtain ⟨x2, m2⟩ := p2; obtain ⟨hx, hm⟩ := hp; simp only at hx hm; subst hm
    refine Obl.bind (setupInputs_obl ht _) (fun q1 q2 hq => ?_)
    exact Obl.pure ⟨.cons hx hq.1, hq.2⟩

theorem forall2_map_of_length {α β : Type} {R : β → β → Prop} {f : α → β} (hR : ∀ a b, R (f a) (f b)) :
    ∀ {l1 l2 : List α}, l1.length = l2.length → Forall2 R (l1.map f) (l2.map f)
  | [], [], _ => .nil
  | [], _ :: _, h => by simp at h
  | _ :: _, [], h => by simp at h
  | a :: l1, b :: l2, h => .cons (hR a b) (forall2_map_of_length hR (by simpa using h))

theorem runBlockT_obl {i1 i2 : List (Nat × IVal)} (hi : Forall2 (fun a b => a.1 = b.1 ∧ IRel a.2 b.2) i1 i2)
    {in1 in2 : List Int} (hin : in1.length = in2.length) {f1 f2 : List (Int × Nat)} (hf : f1.length = f2.length)
    (prog : BBlock) : Obl BStRel (runBlockT i1 in1 f1 prog) (runBlockT i2 in2 f2 prog) := by
  unfold runBlockT
  refine Obl.bind (setupVars_obl hi ⟨.nil, rfl⟩) (fun b1 b2 hb => ?_)
  rw [hb.next]
  refine Obl.bind (setupInputs_obl (forall2_map_of_length (f := ILeaf.int) (fun _ _ => trivial) hin) _) (fun p1 p2 hp => ?_)
  obtain ⟨o1, m1⟩ := p1; obtain ⟨o2, m2⟩ := p2; obtain ⟨ho, hm⟩ := hp; simp only at ho hm; subst hm
  refine Obl.bind (setupInputs_obl (forall2_map_of_length (f := fun me : Int × Nat => ILeaf.fxp me.1 me.2)
    (fun _ _ => trivial) hf) _) (fun q1 q2 hq => ?_)
  obtain ⟨g1, k1⟩ := q1; obtain ⟨g2, k2⟩ := q2; obtain ⟨hg, hk⟩ := hq; simp only at hg hk; subst hk
  exact execBlock_obl prog (e1 := { inputs := o1, finputs := g1 }) (e2 := { inputs := o2, finputs := g2 })
    ⟨ho, hg, rfl⟩ ⟨⟨hb.vals, rfl⟩, .nil⟩

end Pysnark
