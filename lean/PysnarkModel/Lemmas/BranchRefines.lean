import PysnarkModel.Lemmas.BranchLoop
/-!
# Block branching: every structured program computes what its native twin computes

The induction over the statement tree that puts together `Lemmas/BranchChain.lean` (if chains)
and `Lemmas/BranchLoop.lean` (loops).
-/
namespace Pysnark

theorem leafObj_val {env : BEnv} {bv : BV} {e : BExpr} {o : Obj} {v : Val} {s s' : St}
    (hl : leafObj env bv e = some o) (h : evalE env bv e s = .ok (v, s')) : v = .lc o.v := by
  cases e <;> simp only [leafObj] at hl <;> try (cases hl)
  · unfold evalE at h
    simp only [hl] at h
    exact (pure_ok' h).1.symm
  · unfold evalE at h
    simp only [hl] at h
    exact (pure_ok' h).1.symm

theorem bindNew_ok {x : Nat} {v : Val} {bs bs' : BSt} {s s' : St} (h : bindNew x v bs s = .ok (bs', s')) :
    ∃ l, v = .lc l ∧ s' = s ∧
      bs' = { bs with bv := { vals := bs.bv.vals.set x ⟨l, bs.bv.next⟩, next := bs.bv.next + 1 } } := by
  unfold bindNew at h
  cases v <;> first | exact (raise_ok.mp h).elim | skip
  obtain ⟨rfl, rfl⟩ := pure_ok' h
  exact ⟨_, rfl, rfl, rfl⟩

/-- `_.x = e` binds `x` to an object whose value is the value of `e` -/
theorem bindVar_ref {env : BEnv} {x : Nat} {e : BExpr} {v : Val} {bs bs' : BSt} {s0 s1 s s' : St} {E : NEnv}
    (he : evalE env bs.bv e s0 = .ok (v, s1)) (hv : IsIntV v) (hr : RefV bs.bv.vals E)
    (h : bindVar env x e v bs s = .ok (bs', s')) :
    s' = s ∧ RefV bs'.bv.vals (E.set x (ival v)) := by
  unfold bindVar at h
  cases hl : leafObj env bs.bv e with
  | some o =>
    simp only [hl] at h
    obtain ⟨rfl, rfl⟩ := pure_ok' h
    have := leafObj_val hl he
    subst this
    exact ⟨rfl, hr.set x o⟩
  | none =>
    simp only [hl] at h
    obtain ⟨l, rfl, rfl, rfl⟩ := bindNew_ok h
    exact ⟨rfl, hr.set x ⟨l, bs.bv.next⟩⟩

theorem guardedM_live {α : Type} {c : LinComb} {m : M α} {a : α} {s s' : St} (hl : Live s)
    (h : guardedM c m s = .ok (a, s')) :
    Live s' ∧ ∃ s1 s2, m s1 = .ok (a, s2) := by
  unfold guardedM at h
  obtain ⟨bak, s1, h1, h⟩ := bind_ok.mp h
  obtain ⟨a', s2, h2, h⟩ := bind_ok.mp h
  obtain ⟨u, s3, h3, h⟩ := bind_ok.mp h
  obtain ⟨rfl, rfl⟩ := pure_ok' h
  obtain ⟨rfl, _⟩ := addGuard_live hl h1
  exact ⟨Live.of_restore hl.triple h3, s1, s2, h2⟩

/-- `if_then_else(c, lambda: t, lambda: f)` under a true guard -/
theorem iteThunks_live {env : BEnv} {nc : NCtx} {bv : BV} {E : NEnv} (hi : RefI env nc) (hv : RefV bv.vals E)
    {c : LinComb} {t f : BExpr} {r : Val} {s s' : St} (hl : Live s) (hc : c.value = 0 ∨ c.value = 1)
    (h : iteThunks c (evalE env bv t) (evalE env bv f) s = .ok (r, s')) :
    Live s' ∧ IsIntV r ∧ ∃ kt kf, nEvalE nc E t = .ok kt ∧ nEvalE nc E f = .ok kf ∧
      ival r = if c.value = 1 then kt else kf := by
  unfold iteThunks at h
  obtain ⟨tv, s1, h1, h⟩ := bind_ok.mp h
  obtain ⟨ncv, s2, h2, h⟩ := bind_ok.mp h
  obtain ⟨fv, s3, h3, h⟩ := bind_ok.mp h
  obtain ⟨d, s4, h4, h⟩ := bind_ok.mp h
  obtain ⟨pr, s5, h5, h⟩ := bind_ok.mp h
  obtain ⟨l1, t1, t2, ht⟩ := guardedM_live hl h1
  obtain ⟨_, kt, nt⟩ := evalE_val hi hv t ht
  obtain ⟨sm2, _, _⟩ := boolNot_val h2
  obtain ⟨l3, u1, u2, hf⟩ := guardedM_live (l1.same sm2) h3
  obtain ⟨_, kf, nf⟩ := evalE_val hi hv f hf
  obtain ⟨rfl, kd, vd⟩ := subV_int_val kt kf h4
  obtain ⟨sm5, z, rfl, vz⟩ := mulLV_int_val kd h5
  obtain ⟨rfl, kr, vr⟩ := addV_int_val kf (by trivial : IsIntV (.lc z)) h
  refine ⟨l3.same sm5, kr, ival tv, ival fv, nt, nf, ?_⟩
  rw [vr, show ival (Val.lc z) = z.value from rfl, vz, vd]
  rcases hc with h0 | h1
  · rw [h0]; simp
  · rw [h1]; simp

theorem RefI.push {env : BEnv} {nc : NCtx} (hi : RefI env nc) (lv : Nat) (k : Int) :
    RefI { env with lvs := (lv, k) :: env.lvs } { nc with lvs := (lv, k) :: nc.lvs } :=
  ⟨by simp only [hi.lvs], hi.inputs⟩

mutual
theorem execStmt_ref : ∀ (st : BStmt) (env : BEnv) (nc : NCtx) (bs bs' : BSt) (s s' : St) (E : NEnv),
    RefI env nc → Live s → RefV bs.bv.vals E → execStmt env st bs s = .ok (bs', s') →
    Post (nStmt nc st E) bs'.bv.vals s'
  | .assign x e, env, nc, bs, bs', s, s', E, hi, hl, hr, h => by
    unfold execStmt at h
    obtain ⟨v, s1, h1, h2⟩ := bind_ok.mp h
    obtain ⟨sm, kv, nv⟩ := evalE_val hi hr e h1
    obtain ⟨rfl, hr'⟩ := bindVar_ref h1 kv hr h2
    simp only [nStmt, nv]
    exact ⟨hl.same sm, hr'⟩
  | .ite x c t f, env, nc, bs, bs', s, s', E, hi, hl, hr, h => by
    unfold execStmt at h
    obtain ⟨cv, s1, h1, ha⟩ := bind_ok.mp h
    obtain ⟨cl, s2, h2, hb⟩ := bind_ok.mp ha
    obtain ⟨r, s3, h3, h4⟩ := bind_ok.mp hb
    clear h ha hb
    obtain ⟨sm1, b, rc, hnat, hcv, vrc⟩ := evalC_live hi hr hl h1
    subst hcv
    obtain ⟨hcl, rfl⟩ := condLC_ok h2
    cases hcl
    obtain ⟨l3, kr, kt, kf, nt, nf, vr⟩ := iteThunks_live hi hr (hl.same sm1) (by cases b <;> simp [vrc]) h3
    obtain ⟨l, rfl, rfl, rfl⟩ := bindNew_ok h4
    simp only [nStmt, hnat]
    cases b with
    | true =>
      simp only [vrc, if_true] at vr
      show Post (do let v ← nEvalE nc E t; pure (E.set x v)) _ _
      rw [nt]
      exact ⟨l3, by have := hr.set x ⟨l, bs.bv.next⟩; simpa [ival, ← vr] using this⟩
    | false =>
      simp only [vrc, Bool.false_eq_true, if_false] at vr
      show Post (do let v ← nEvalE nc E f; pure (E.set x v)) _ _
      rw [nf]
      have h01 : ¬ ((0 : Int) = 1) := by decide
      simp only [h01, if_false] at vr
      exact ⟨l3, by have := hr.set x ⟨l, bs.bv.next⟩; simpa [ival, ← vr] using this⟩
  | .ifs c body rest, env, nc, bs, bs', s, s', E, hi, hl, hr, h => by
    unfold execStmt at h
    obtain ⟨cv, s1, h1, ha⟩ := bind_ok.mp h
    obtain ⟨bs1, s2, h2, hb⟩ := bind_ok.mp ha
    obtain ⟨bs2, s3, h3, h4⟩ := bind_ok.mp hb
    clear h ha hb
    obtain ⟨sm1, b, rc, hnat, hcv, vrc⟩ := evalC_live hi hr hl h1
    subst hcv
    obtain ⟨c', ctx, hc', hnew, hbs1⟩ := bIf_ok h2
    cases hc'
    obtain ⟨cif, cog, cbak, ccond, cnd, ⟨ic, hic, vic⟩, clive⟩ := ifNew_live (hl.same sm1) hnew
    obtain ⟨hst, hdom⟩ := execBlock_struct body env bs1 bs2 s2 s3 h3
    have hstk : bs2.stack = ctx :: bs.stack := by rw [hst, hbs1]
    have hbv1 : bs1.bv = bs.bv := by rw [hbs1]
    simp only [nStmt, hnat]
    cases b with
    | true =>
      simp only [if_true] at vrc
      have hcv1 : ctx.cond.value = 1 := by rw [ccond]; exact vrc
      have hbody := execBlock_ref body env nc bs1 bs2 s2 s3 E hi (clive vrc) (hbv1 ▸ hr) h3
      show Post (nBlock nc body E) _ _
      cases hN : nBlock nc body E with
      | error x =>
        rw [hN] at hbody
        cases x with
        | name => exact hbody.elim
        | uncapped => trivial
      | ok ET =>
        rw [hN] at hbody
        have hp : PendT ET ctx bs2.bv.vals :=
          ⟨cif, cog, Or.inr ⟨ic, hic, by rw [vic, vrc]; rfl⟩, Or.inl ⟨hcv1, hbody.2⟩⟩
        obtain ⟨x, y⟩ := execIfRest_taken rest env nc bs2 bs' s3 s' ET ctx bs.stack hi hstk hp h4
        exact ⟨x, y⟩
    | false =>
      simp only [Bool.false_eq_true, if_false] at vrc
      have hp : PendO E ctx bs2.bv.vals :=
        ⟨cif, cog, ⟨ic, hic, by rw [vic, vrc]; rfl⟩, by rw [ccond]; exact vrc, by rw [cbak]; exact hr,
          fun x hx => hdom x (by rw [hbv1]; rw [cbak] at hx; exact hx), fun nd0 h0 => by rw [cnd] at h0; cases h0⟩
      exact execIfRest_open rest env nc bs2 bs' s3 s' E ctx bs.stack hi hstk hp h4
  | .forr lv bound mx body, env, nc, bs, bs', s, s', E, hi, hl, hr, h => by
    unfold execStmt at h
    obtain ⟨stop, s1, h1, ha⟩ := bind_ok.mp h
    clear h
    obtain ⟨sm, kv, nv⟩ := evalE_val hi hr bound h1
    cases stop <;> first | exact (raise_ok.mp ha).elim | skip
    rename_i st
    dsimp only at ha
    simp only [nStmt, nv, ival]
    show Post (if 0 ≤ st.value ∧ st.value ≤ (mx : Int) then _ else _) _ _
    by_cases hcap : 0 ≤ st.value ∧ st.value ≤ (mx : Int)
    · rw [if_pos hcap]
      refine for_stmt (env := env) (lv := lv) (st := st) (mx := mx)
        (body := fun env' bs => execBlock env' body bs)
        (bodyN := fun i e => nBlock { nc with lvs := (lv, (i : Int)) :: nc.lvs } body e)
        ?_ ?_ (hl.same sm) hr hcap ha
      · exact ⟨fun b t b' t' E' hl' hr' hh => execBlock_ref body _ _ b b' t t' E' (hi.push lv 0) hl' hr' hh,
          fun b t b' t' hh => execBlock_struct body _ b b' t t' hh⟩
      · intro ix
        exact ⟨fun b t b' t' E' hl' hr' hh => execBlock_ref body _ _ b b' t t' E' (hi.push lv ix) hl' hr' hh,
          fun b t b' t' hh => execBlock_struct body _ b b' t t' hh⟩
    · rw [if_neg hcap]
      trivial
  | .whil c mx body brk, env, nc, bs, bs', s, s', E, hi, hl, hr, h => by
    unfold execStmt at h
    simp only [nStmt]
    exact while_stmt (env := env) hi (bodyT := fun bs => execBlock env body bs) (bodyN := fun e => nBlock nc body e)
      ⟨fun b t b' t' E' hl' hr' hh => execBlock_ref body env nc b b' t t' E' hi hl' hr' hh,
        fun b t b' t' hh => execBlock_struct body env b b' t t' hh⟩ hl hr h

theorem execBlock_ref : ∀ (b : BBlock) (env : BEnv) (nc : NCtx) (bs bs' : BSt) (s s' : St) (E : NEnv),
    RefI env nc → Live s → RefV bs.bv.vals E → execBlock env b bs s = .ok (bs', s') →
    Post (nBlock nc b E) bs'.bv.vals s'
  | .nil, env, nc, bs, bs', s, s', E, hi, hl, hr, h => by
    unfold execBlock at h
    obtain ⟨rfl, rfl⟩ := pure_ok' h
    exact ⟨hl, hr⟩
  | .cons st rest, env, nc, bs, bs', s, s', E, hi, hl, hr, h => by
    unfold execBlock at h
    obtain ⟨bs1, s1, h1, h2⟩ := bind_ok.mp h
    have hs := execStmt_ref st env nc bs bs1 s s1 E hi hl hr h1
    simp only [nBlock]
    cases hN : nStmt nc st E with
    | error x =>
      rw [hN] at hs
      cases x with
      | name => exact hs.elim
      | uncapped => trivial
    | ok E1 =>
      rw [hN] at hs
      exact execBlock_ref rest env nc bs1 bs' s1 s' E1 hi hs.1 hs.2 h2

theorem execIfRest_taken : ∀ (rest : BIfRest) (env : BEnv) (nc : NCtx) (bs bs' : BSt) (s s' : St) (ET : NEnv)
    (ctx : BCtx) (stk : List BCtx), RefI env nc → bs.stack = ctx :: stk → PendT ET ctx bs.bv.vals →
    execIfRest env rest bs s = .ok (bs', s') → Live s' ∧ RefV bs'.bv.vals ET
  | .endif, env, nc, bs, bs', s, s', ET, ctx, stk, hi, hs, hp, h => by
    unfold execIfRest at h
    obtain ⟨ctx0, rest0, bv', hs0, rfl, hcase⟩ := bEnd_ok (Or.inl h)
    rw [hs] at hs0; cases hs0
    rcases hcase with ⟨_, he⟩ | ⟨hf, _⟩
    · exact ifEnd_pendT hp he
    · rw [hp.isIf] at hf; cases hf
  | .els b, env, nc, bs, bs', s, s', ET, ctx, stk, hi, hs, hp, h => by
    unfold execIfRest at h
    obtain ⟨bs1, s1, h1, ha⟩ := bind_ok.mp h
    obtain ⟨bs2, s2, h2, h3⟩ := bind_ok.mp ha
    clear h ha
    obtain ⟨ctx0, rest0, ctx', bv', hs0, _, he, rfl⟩ := bElse_ok h1
    rw [hs] at hs0; cases hs0
    have hp1 := ifElse_betT hp he
    obtain ⟨hst, hdom⟩ := execBlock_struct b env _ bs2 s1 s2 h2
    have hc0 : ctx'.cond.value = 0 := by
      rcases hp1.seg with ⟨h1', _⟩ | ⟨h0, _⟩
      · obtain ⟨_, _, ic, _, _, hic, hen, rfl⟩ := ifElse_ok he
        exact absurd h1' (by
          obtain ⟨_, hb⟩ := exit_pendT hp (by assumption)
          obtain ⟨og, _, rfl⟩ := enter_ok hen
          rcases hb.ic with hn | ⟨ic', hi1, hi0⟩
          · rw [hic] at hn; cases hn
          · rw [hic] at hi1; cases hi1; simp [hi0])
      · exact h0
    have hp2 : PendT ET ctx' bs2.bv.vals := hp1.mono hc0 hdom
    obtain ⟨ctx1, rest1, bv1, hs1, rfl, hcase⟩ := bEnd_ok (Or.inl h3)
    rw [hst] at hs1; cases hs1
    rcases hcase with ⟨_, he'⟩ | ⟨hf, _⟩
    · exact ifEnd_pendT hp2 he'
    · rw [hp2.isIf] at hf; cases hf
  | .elif c b rest, env, nc, bs, bs', s, s', ET, ctx, stk, hi, hs, hp, h => by
    unfold execIfRest at h
    obtain ⟨bs1, s1, h1, ha⟩ := bind_ok.mp h
    obtain ⟨bs2, s2, h2, h3⟩ := bind_ok.mp ha
    clear h ha
    obtain ⟨ctx0, rest0, ctx', bv', hs0, _, he, rfl⟩ := bElif_ok h1
    rw [hs] at hs0; cases hs0
    have hp1 := ifElif_betT hi hp he
    obtain ⟨hst, hdom⟩ := execBlock_struct b env _ bs2 s1 s2 h2
    have hc0 : ctx'.cond.value = 0 := by
      rcases hp1.seg with ⟨h1', _⟩ | ⟨h0, _⟩
      · obtain ⟨ctx1, t1, nw, t2, ic, nn, t3, nwic, t4, cc, t5, ctx2, hx, _, hic, _, _, hcc, hen, rfl⟩ := ifElif_ok he
        obtain ⟨_, hb⟩ := exit_pendT hp hx
        obtain ⟨og, _, rfl⟩ := enter_ok hen
        obtain ⟨_, v5, _⟩ := andBB_val hcc
        rcases hb.ic with hn | ⟨ic', hi1, hi0⟩
        · rw [hic] at hn; cases hn
        · rw [hic] at hi1; cases hi1
          have : cc.value = 0 := by rw [v5, hi0]; ring
          simp only at h1'
          rw [this] at h1'; cases h1'
      · exact h0
    have hp2 : PendT ET ctx' bs2.bv.vals := hp1.mono hc0 hdom
    exact execIfRest_taken rest env nc bs2 bs' s2 s' ET ctx' stk hi hst hp2 h3

theorem execIfRest_open : ∀ (rest : BIfRest) (env : BEnv) (nc : NCtx) (bs bs' : BSt) (s s' : St) (E0 : NEnv)
    (ctx : BCtx) (stk : List BCtx), RefI env nc → bs.stack = ctx :: stk → PendO E0 ctx bs.bv.vals →
    execIfRest env rest bs s = .ok (bs', s') → Post (nIfRest nc rest E0) bs'.bv.vals s'
  | .endif, env, nc, bs, bs', s, s', E0, ctx, stk, hi, hs, hp, h => by
    unfold execIfRest at h
    obtain ⟨ctx0, rest0, bv', hs0, rfl, hcase⟩ := bEnd_ok (Or.inl h)
    rw [hs] at hs0; cases hs0
    rcases hcase with ⟨_, he⟩ | ⟨hf, _⟩
    · obtain ⟨x, y⟩ := ifEnd_pendO hp he
      exact ⟨x, y⟩
    · rw [hp.isIf] at hf; cases hf
  | .els b, env, nc, bs, bs', s, s', E0, ctx, stk, hi, hs, hp, h => by
    unfold execIfRest at h
    obtain ⟨bs1, s1, h1, ha⟩ := bind_ok.mp h
    obtain ⟨bs2, s2, h2, h3⟩ := bind_ok.mp ha
    clear h ha
    obtain ⟨ctx0, rest0, ctx', bv', hs0, _, he, rfl⟩ := bElse_ok h1
    rw [hs] at hs0; cases hs0
    obtain ⟨hl1, hr1, cif, cog, cic, ccv⟩ := ifElse_betO hp he
    obtain ⟨hst, _⟩ := execBlock_struct b env _ bs2 s1 s2 h2
    have hbody := execBlock_ref b env nc _ bs2 s1 s2 E0 hi hl1 hr1 h2
    simp only [nIfRest]
    cases hN : nBlock nc b E0 with
    | error x =>
      rw [hN] at hbody
      cases x with
      | name => exact hbody.elim
      | uncapped => trivial
    | ok ET =>
      rw [hN] at hbody
      have hp2 : PendT ET ctx' bs2.bv.vals := ⟨cif, cog, Or.inl cic, Or.inl ⟨ccv, hbody.2⟩⟩
      obtain ⟨ctx1, rest1, bv1, hs1, rfl, hcase⟩ := bEnd_ok (Or.inl h3)
      rw [hst] at hs1; cases hs1
      rcases hcase with ⟨_, he'⟩ | ⟨hf, _⟩
      · obtain ⟨x, y⟩ := ifEnd_pendT hp2 he'
        exact ⟨x, y⟩
      · rw [hp2.isIf] at hf; cases hf
  | .elif c b rest, env, nc, bs, bs', s, s', E0, ctx, stk, hi, hs, hp, h => by
    unfold execIfRest at h
    obtain ⟨bs1, s1, h1, ha⟩ := bind_ok.mp h
    obtain ⟨bs2, s2, h2, h3⟩ := bind_ok.mp ha
    clear h ha
    obtain ⟨ctx0, rest0, ctx', bv', hs0, _, he, rfl⟩ := bElif_ok h1
    rw [hs] at hs0; cases hs0
    obtain ⟨bb, hnat, hr1, htrue, hfalse⟩ := ifElif_betO hi hp he
    obtain ⟨hst, hdom⟩ := execBlock_struct b env _ bs2 s1 s2 h2
    simp only [nIfRest, hnat]
    cases bb with
    | true =>
      obtain ⟨hl1, cif, cog, ccv, ic, hic, vic⟩ := htrue rfl
      have hbody := execBlock_ref b env nc _ bs2 s1 s2 E0 hi hl1 hr1 h2
      show Post (nBlock nc b E0) _ _
      cases hN : nBlock nc b E0 with
      | error x =>
        rw [hN] at hbody
        cases x with
        | name => exact hbody.elim
        | uncapped => trivial
      | ok ET =>
        rw [hN] at hbody
        have hp2 : PendT ET ctx' bs2.bv.vals := ⟨cif, cog, Or.inr ⟨ic, hic, vic⟩, Or.inl ⟨ccv, hbody.2⟩⟩
        obtain ⟨x, y⟩ := execIfRest_taken rest env nc bs2 bs' s2 s' ET ctx' stk hi hst hp2 h3
        exact ⟨x, y⟩
    | false =>
      have hp2 : PendO E0 ctx' bs2.bv.vals := (hfalse rfl).mono' hdom
      exact execIfRest_open rest env nc bs2 bs' s2 s' E0 ctx' stk hi hst hp2 h3
end

end Pysnark
